/-
C04, static layer (lemmas): sites, `WF`, and the two STATIC over-approximations of what the machines can
write: `Jpd` (entries of pydoctor's alias maps) and `Jpy` (entries of Python namespaces, extended to
dotted chains).  The machines are tied to these relations in C04b (pydoctor) and C04c (Python).
-/
import PdModel.Imports
import PdModel.PyImp
import PdProps.C07

namespace Imports
open Registry

/-! ## the static relations -/

/-- `starOk proj t x`: a star import from `t` may take the name `x` -/
def starOk (proj : Project) (t : Nat) (x : Name) : Prop := x ∈ allNames (bodyOf proj t) ∨ isPublic x = true

/-- **Python**: `Jpy S names v` — evaluating the dotted `names` with its first component looked up in
the namespace of scope `S` itself (module `__dict__` / class `__dict__`) and the rest by attribute
access can give `v`.  Over-approximation of every run (each clause is one way a binding can arise). -/
inductive Jpy (proj : Project) : Site → List Name → SVal → Prop
  | dfn {S : Site} {b : List Stmt} {st : Stmt} {n : Name} :
      siteBody proj S = some b → st ∈ b → st.defName = some n → Jpy proj S [n] (.dfn S.1 (S.2 ++ [n]))
  | child {m : Nat} {x : Name} {c : Nat} :
      modIdx proj (pathOf proj m ++ [x]) = some c → Jpy proj (m, []) [x] (.mod c)
  | importTop {S : Site} {b : List Stmt} {h : Name} {r : Path} {top : Nat} :
      siteBody proj S = some b → Stmt.importMod (h :: r) none ∈ b → modIdx proj [h] = some top →
      Jpy proj S [h] (.mod top)
  | importAs1 {S : Site} {b : List Stmt} {h x : Name} {top : Nat} :
      siteBody proj S = some b → Stmt.importMod [h] (some x) ∈ b → modIdx proj [h] = some top →
      Jpy proj S [x] (.mod top)
  | importAs {S : Site} {b : List Stmt} {h y x : Name} {ys : List Name} {top : Nat} {v : SVal} :
      siteBody proj S = some b → Stmt.importMod (h :: y :: ys) (some x) ∈ b → modIdx proj [h] = some top →
      Jpy proj (top, []) (y :: ys) v → Jpy proj S [x] v
  | from {S : Site} {b : List Stmt} {lvl : Nat} {M : Path} {n : Name} {a : Option Name} {t : Nat} {v : SVal} :
      siteBody proj S = some b → Stmt.importFrom lvl M n a ∈ b → target proj S.1 lvl M = some t →
      Jpy proj (t, []) [n] v → Jpy proj S [a.getD n] v
  | star {m : Nat} {b : List Stmt} {lvl : Nat} {M : Path} {t : Nat} {x : Name} {v : SVal} :
      siteBody proj (m, []) = some b → Stmt.importStar lvl M ∈ b → target proj m lvl M = some t →
      starOk proj t x → Jpy proj (t, []) [x] v → Jpy proj (m, []) [x] v
  | cons {S : Site} {x y : Name} {ys : List Name} {w v : SVal} :
      Jpy proj S [x] w → Jpy proj (scopeOf w) (y :: ys) v → Jpy proj S (x :: y :: ys) v

/-- the module a (possibly relative) `from` import names, by pydoctor's level arithmetic -/
def pdAbsName (proj : Project) (m : Nat) (level : Nat) (modname : Path) : Option Path :=
  if level = 0 then some modname else
  match Names.relativeBase (pathOf proj m) (isPkg proj m) level with
  | none => none
  | some b => some (b ++ modname)

/-- **pydoctor**: `Jpd S x tgt` — the alias map of scope `S` can map `x` to the dotted name `tgt`. -/
inductive Jpd (proj : Project) : Site → Name → Path → Prop
  | importAs {S : Site} {b : List Stmt} {tgt : Path} {x : Name} :
      siteBody proj S = some b → Stmt.importMod tgt (some x) ∈ b → Jpd proj S x tgt
  | importTop {S : Site} {b : List Stmt} {h : Name} {r : Path} :
      siteBody proj S = some b → Stmt.importMod (h :: r) none ∈ b → Jpd proj S h [h]
  | from {S : Site} {b : List Stmt} {lvl : Nat} {M : Path} {n : Name} {a : Option Name} {T : Path} :
      siteBody proj S = some b → Stmt.importFrom lvl M n a ∈ b → pdAbsName proj S.1 lvl M = some T →
      Jpd proj S (a.getD n) (T ++ [n])
  | starChild {S : Site} {b : List Stmt} {lvl : Nat} {M : Path} {T : Path} {t : Nat} {x : Name} :
      siteBody proj S = some b → Stmt.importStar lvl M ∈ b → pdAbsName proj S.1 lvl M = some T →
      (∀ t', modIdx proj T = some t' → t = t') → starOk proj t x →
      (x ∈ childNames proj t ∨ ∃ st ∈ bodyOf proj t, st.defName = some x) →
      Jpd proj S x (pathOf proj t ++ [x])
  | starAlias {S : Site} {b : List Stmt} {lvl : Nat} {M : Path} {T : Path} {t : Nat} {x : Name} {tgt : Path} :
      siteBody proj S = some b → Stmt.importStar lvl M ∈ b → pdAbsName proj S.1 lvl M = some T →
      (∀ t', modIdx proj T = some t' → t = t') → starOk proj t x → Jpd proj (t, []) x tgt →
      Jpd proj S x tgt
  | starNone {S : Site} {b : List Stmt} {lvl : Nat} {M : Path} {T : Path} {t : Nat} {x : Name} :
      siteBody proj S = some b → Stmt.importStar lvl M ∈ b → pdAbsName proj S.1 lvl M = some T →
      (∀ t', modIdx proj T = some t' → t = t') → x ∈ allNames (bodyOf proj t) → Jpd proj S x [x]

/-! ## basic facts -/

theorem nodupB_iff {α : Type} [DecidableEq α] (l : List α) : nodupB l = true ↔ l.Nodup := by
  induction l with
  | nil => simp [nodupB]
  | cons x xs ih => simp [nodupB, ih, List.nodup_cons]

theorem modIdx_spec {proj : Project} {p : Path} {m : Nat} (h : modIdx proj p = some m) :
    m < proj.length ∧ pathOf proj m = p := by
  unfold modIdx at h
  have h1 := List.findIdx?_eq_some_iff_getElem.1 h
  obtain ⟨hlt, hp, _⟩ := h1
  refine ⟨hlt, ?_⟩
  unfold pathOf
  simp only [List.getElem?_eq_getElem hlt]
  simpa using hp

theorem modIdx_of_path {proj : Project} (hn : (proj.map (·.path)).Nodup) {m : Nat} (hm : m < proj.length) :
    modIdx proj (pathOf proj m) = some m := by
  unfold modIdx
  rw [List.findIdx?_eq_some_iff_getElem]
  refine ⟨hm, ?_, ?_⟩
  · unfold pathOf; simp [List.getElem?_eq_getElem hm]
  · intro j hj
    unfold pathOf
    simp only [List.getElem?_eq_getElem hm]
    intro hc
    have hc' : proj[j].path = proj[m].path := by simpa using hc
    have hp := List.pairwise_iff_getElem.1 hn j m (by simp; omega) (by simp; omega) hj
    simp only [List.getElem_map] at hp
    exact hp hc'

theorem nodup_map_inj {α β : Type} {f : α → β} : ∀ {l : List α}, (l.map f).Nodup → ∀ {a b}, a ∈ l → b ∈ l →
    f a = f b → a = b
  | [], _, _, _, ha, _, _ => by cases ha
  | x :: xs, hn, a, b, ha, hb, hf => by
    simp only [List.map_cons, List.nodup_cons, List.mem_map, not_exists, not_and] at hn
    rcases List.mem_cons.1 ha with rfl | ha' <;> rcases List.mem_cons.1 hb with rfl | hb'
    · rfl
    · exact absurd hf.symm (hn.1 b hb')
    · exact absurd hf (hn.1 a ha')
    · exact nodup_map_inj hn.2 ha' hb' hf

/-- two statements of a body that can bind the same name are the same statement, when the body's
names are pairwise distinct -/
theorem same_of_nodup_flatMap {α β : Type} {f : α → List β} : ∀ {l : List α}, (l.flatMap f).Nodup →
    ∀ {a b x}, a ∈ l → b ∈ l → x ∈ f a → x ∈ f b → a = b
  | [], _, _, _, _, ha, _, _, _ => by cases ha
  | y :: ys, hn, a, b, x, ha, hb, hxa, hxb => by
    simp only [List.flatMap_cons, List.nodup_append] at hn
    obtain ⟨_, h2, h3⟩ := hn
    rcases List.mem_cons.1 ha with rfl | ha' <;> rcases List.mem_cons.1 hb with rfl | hb'
    · rfl
    · exact absurd rfl (h3 x hxa x (List.mem_flatMap.2 ⟨b, hb', hxb⟩))
    · exact absurd rfl (h3 x hxb x (List.mem_flatMap.2 ⟨a, ha', hxa⟩))
    · exact same_of_nodup_flatMap h2 ha' hb' hxa hxb

/-! ## statements of a scope -/

theorem allStmt_self {P : List Name → Stmt → Bool} {cp : List Name} {st : Stmt}
    (h : allStmt P cp st = true) : P cp st = true := by
  cases st <;> simp_all [allStmt]

theorem allStmts_mem {P : List Name → Stmt → Bool} {cp : List Name} : ∀ {body : List Stmt} {st : Stmt},
    allStmts P cp body = true → st ∈ body → allStmt P cp st = true
  | [], _, _, hm => by cases hm
  | x :: xs, st, h, hm => by
    simp only [allStmts, Bool.and_eq_true] at h
    rcases List.mem_cons.1 hm with rfl | hm'
    · exact h.1
    · exact allStmts_mem h.2 hm'

theorem findClass_mem : ∀ {body : List Stmt} {c : Name} {b' : List Stmt}, findClass body c = some b' →
    ∃ bs, Stmt.classDef c bs b' ∈ body
  | [], _, _, h => by simp [findClass] at h
  | st :: rest, c, b', h => by
    cases st with
    | classDef n bs body =>
      simp only [findClass] at h
      split at h
      · rename_i hn; subst hn; injection h with h; subst h; exact ⟨bs, List.mem_cons_self ..⟩
      · obtain ⟨bs', hm⟩ := findClass_mem h; exact ⟨bs', List.mem_cons_of_mem _ hm⟩
    | _ =>
      simp only [findClass] at h
      obtain ⟨bs', hm⟩ := findClass_mem h; exact ⟨bs', List.mem_cons_of_mem _ hm⟩

theorem allStmts_bodyAt {P : List Name → Stmt → Bool} : ∀ {cs pre : List Name} {body b : List Stmt},
    allStmts P pre body = true → bodyAt body cs = some b → allStmts P (pre ++ cs) b = true
  | [], pre, body, b, h, hb => by
    simp only [bodyAt, Option.some.injEq] at hb; subst hb; simpa using h
  | c :: cs, pre, body, b, h, hb => by
    simp only [bodyAt] at hb
    cases hf : findClass body c with
    | none => simp [hf] at hb
    | some b' =>
      simp only [hf] at hb
      obtain ⟨bs, hm⟩ := findClass_mem hf
      have h1 := allStmts_mem h hm
      simp only [allStmt, Bool.and_eq_true] at h1
      have := allStmts_bodyAt h1.2 hb
      simpa [List.append_assoc] using this

theorem bodyOf_eq {proj : Project} {m : Nat} {md : Module} (h : proj[m]? = some md) : bodyOf proj m = md.body := by
  simp [bodyOf, h]

theorem siteBody_lt {proj : Project} {S : Site} {b : List Stmt} (h : siteBody proj S = some b) : S.1 < proj.length := by
  unfold siteBody at h
  cases hm : proj[S.1]? with
  | none => simp [hm] at h
  | some md => exact (List.getElem?_eq_some_iff.1 hm).1

theorem siteBody_bodyAt {proj : Project} {S : Site} {b : List Stmt} (h : siteBody proj S = some b) :
    bodyAt (bodyOf proj S.1) S.2 = some b := by
  unfold siteBody at h
  cases hm : proj[S.1]? with
  | none => simp [hm] at h
  | some md => simp only [hm] at h; rw [bodyOf_eq hm]; exact h

/-- a property checked by `allProj` holds of every statement of every scope -/
theorem allProj_spec {proj : Project} {P : Nat → List Name → Stmt → Bool} (h : allProj proj P = true)
    {S : Site} {b : List Stmt} {st : Stmt} (hb : siteBody proj S = some b) (hm : st ∈ b) :
    P S.1 S.2 st = true := by
  unfold allProj at h
  have hlt := siteBody_lt hb
  have h1 := List.all_eq_true.1 h S.1 (List.mem_range.2 hlt)
  have h2 := allStmts_bodyAt h1 (siteBody_bodyAt hb)
  simp only [List.nil_append] at h2
  exact allStmt_self (allStmts_mem h2 hm)

theorem classNodup_findClass : ∀ {body : List Stmt} {c : Name} {b' : List Stmt}, classNodupStmts body = true →
    findClass body c = some b' → (b'.flatMap explicitNames).Nodup ∧ classNodupStmts b' = true
  | [], _, _, _, h => by simp [findClass] at h
  | st :: rest, c, b', hn, h => by
    simp only [classNodupStmts, Bool.and_eq_true] at hn
    cases st with
    | classDef n bs body =>
      simp only [findClass] at h
      split at h
      · injection h with h; subst h
        have := hn.1
        simp only [classNodupStmt, Bool.and_eq_true, nodupB_iff] at this
        exact this
      · exact classNodup_findClass hn.2 h
    | _ =>
      simp only [findClass] at h
      exact classNodup_findClass hn.2 h

theorem classNodup_bodyAt : ∀ {cs : List Name} {body b : List Stmt}, classNodupStmts body = true →
    bodyAt body cs = some b → cs ≠ [] → (b.flatMap explicitNames).Nodup ∧ classNodupStmts b = true
  | [], _, _, _, _, hne => absurd rfl hne
  | c :: cs, body, b, hn, hb, _ => by
    simp only [bodyAt] at hb
    cases hf : findClass body c with
    | none => simp [hf] at hb
    | some b' =>
      simp only [hf] at hb
      have h1 := classNodup_findClass hn hf
      cases cs with
      | nil => simp only [bodyAt, Option.some.injEq] at hb; subst hb; exact h1
      | cons c2 cs2 => exact classNodup_bodyAt h1.2 hb (by simp)

/-! ## what `WF` gives -/

structure WFacts (proj : Project) (rank : List Nat) : Prop where
  modNodup : (proj.map (·.path)).Nodup
  parentOk : ∀ m, m < proj.length → pathOf proj m ≠ [] ∧
    (2 ≤ (pathOf proj m).length → ∃ q, modIdx proj (pathOf proj m).dropLast = some q ∧ q < m ∧ isPkg proj q = true)
  pathsNodup : ((entities proj).map (sitePath proj)).Nodup
  targets : ∀ {S b st}, siteBody proj S = some b → st ∈ b → ∀ t ∈ stmtTargets proj S.1 st,
    ∃ t', t = some t' ∧ rankOf rank t' < rankOf rank S.1
  onceMod : ∀ m, m < proj.length → (modNames proj (rankOf rank m + 1) m).Nodup
  onceCls : ∀ {S b}, siteBody proj S = some b → S.2 ≠ [] → (b.flatMap explicitNames).Nodup
  nobases : ∀ {S b n bs body}, siteBody proj S = some b → Stmt.classDef n bs body ∈ b → bs = []
  nostar : ∀ {S b lvl M}, siteBody proj S = some b → Stmt.importStar lvl M ∈ b → S.2 = []
  noreexpStar : ∀ {m b lvl M}, siteBody proj (m, []) = some b → Stmt.importStar lvl M ∈ b → allNames (bodyOf proj m) = []
  noreexpFrom : ∀ {m b lvl M n a}, siteBody proj (m, []) = some b → Stmt.importFrom lvl M n a ∈ b →
    a.getD n ∉ allNames (bodyOf proj m)
  rootsStmt : ∀ {S b st x}, siteBody proj S = some b → st ∈ b → x ∈ explicitNames st → isRootName proj x = true →
    (∃ r, st = .importMod (x :: r) none) ∨ st = .importMod [x] (some x)
  rootsChild : ∀ m, m < proj.length → ∀ x ∈ childNames proj m, isRootName proj x = false

theorem WF.facts {proj : Project} {rank : List Nat} (h : WF proj rank = true) : WFacts proj rank := by
  simp only [WF, Bool.and_eq_true] at h
  obtain ⟨⟨⟨⟨⟨⟨⟨hmod, hpaths⟩, himp⟩, honce⟩, hnb⟩, hns⟩, hnr⟩, hroots⟩ := h
  simp only [modulesOk, Bool.and_eq_true, nodupB_iff, List.all_eq_true, List.mem_range] at hmod
  refine
    { modNodup := hmod.1, parentOk := ?_, pathsNodup := (nodupB_iff _).1 hpaths, targets := ?_, onceMod := ?_,
      onceCls := ?_, nobases := ?_, nostar := ?_, noreexpStar := ?_, noreexpFrom := ?_, rootsStmt := ?_,
      rootsChild := ?_ }
  · intro m hm
    have := hmod.2 m hm
    simp only [bne_iff_ne, ne_eq, Bool.or_eq_true, decide_eq_true_eq] at this
    refine ⟨this.1, fun h2 => ?_⟩
    rcases this.2 with h3 | h3
    · omega
    · cases hq : modIdx proj (pathOf proj m).dropLast with
      | none => simp [hq] at h3
      | some q => simp only [hq, Bool.and_eq_true, decide_eq_true_eq] at h3; exact ⟨q, rfl, h3.1, h3.2⟩
  · intro S b st hb hm t ht
    have := allProj_spec himp hb hm
    simp only [List.all_eq_true] at this
    have h1 := this t ht
    cases t with
    | none => simp at h1
    | some t' => exact ⟨t', rfl, by simpa using h1⟩
  · intro m hm
    simp only [boundOnce, List.all_eq_true, List.mem_range, Bool.and_eq_true, nodupB_iff] at honce
    exact (honce m hm).1
  · intro S b hb hne
    simp only [boundOnce, List.all_eq_true, List.mem_range, Bool.and_eq_true, nodupB_iff] at honce
    exact (classNodup_bodyAt (honce S.1 (siteBody_lt hb)).2 (siteBody_bodyAt hb) hne).1
  · intro S b n bs body hb hm
    have := allProj_spec hnb hb hm
    simpa using this
  · intro S b lvl M hb hm
    have := allProj_spec hns hb hm
    simpa using this
  · intro m b lvl M hb hm
    have := allProj_spec hnr hb hm
    simpa using this
  · intro m b lvl M n a hb hm
    have := allProj_spec hnr hb hm
    simpa using this
  · intro S b st x hb hm hx hr
    simp only [rootsReserved, Bool.and_eq_true] at hroots
    have := allProj_spec hroots.1 hb hm
    simp only [List.all_eq_true] at this
    have h1 := this x hx
    simp only [hr, Bool.not_true, Bool.false_or] at h1
    split at h1
    · rename_i h0 r
      left; exact ⟨r, by simp at h1; subst h1; rfl⟩
    · rename_i h0 a
      right; simp only [Bool.and_eq_true, beq_iff_eq] at h1; obtain ⟨rfl, rfl⟩ := h1; rfl
    · cases h1
  · intro m hm x hx
    simp only [rootsReserved, Bool.and_eq_true, List.all_eq_true, List.mem_range] at hroots
    have := hroots.2 m hm x hx
    simpa using this

/-! ## names -/

theorem child_mem {proj : Project} {m c : Nat} {x : Name} (h : modIdx proj (pathOf proj m ++ [x]) = some c) :
    x ∈ childNames proj m := by
  obtain ⟨hlt, hp⟩ := modIdx_spec h
  unfold childNames
  rw [List.mem_filterMap]
  refine ⟨proj[c], List.getElem_mem hlt, ?_⟩
  have h1 : pathOf proj c = proj[c].path := by simp [pathOf, List.getElem?_eq_getElem hlt]
  rw [← h1, hp]
  simp

theorem stmtNames_of_explicit {proj : Project} {exp : Nat → List Name} {m : Nat} {st : Stmt} {x : Name}
    (h : x ∈ explicitNames st) : x ∈ stmtNames proj exp m st := by
  cases st <;> simp_all [stmtNames, explicitNames]

theorem explicit_of_stmtNames {proj : Project} {exp : Nat → List Name} {m : Nat} {st : Stmt} {x : Name}
    (hns : ∀ lvl M, st ≠ .importStar lvl M) (h : x ∈ stmtNames proj exp m st) : x ∈ explicitNames st := by
  cases st <;> simp_all [stmtNames, explicitNames]

theorem defName_explicit {st : Stmt} {n : Name} (h : st.defName = some n) : n ∈ explicitNames st := by
  cases st <;> simp_all [Stmt.defName, explicitNames]

theorem mem_exported {proj : Project} {g : Nat → List Name} {t : Nat} {x : Name}
    (hx : x ∈ g t) (hok : starOk proj t x) : x ∈ exported proj g t := by
  unfold exported
  simp only [List.mem_append, List.mem_filter, List.mem_eraseDups]
  by_cases hp : isPublic x = true
  · exact Or.inl ⟨hx, hp⟩
  · rcases hok with ha | ha
    · right; refine ⟨ha, ?_⟩
      simp only [Bool.not_eq_eq_eq_not, Bool.not_true, List.contains_eq_mem, List.mem_filter, decide_eq_false_iff_not,
        not_and]
      intro _; exact hp
    · exact absurd ha hp

theorem modNames_mono {proj : Project} : ∀ {f g : Nat} {m : Nat} {x : Name}, f ≤ g → x ∈ modNames proj f m →
    x ∈ modNames proj g m
  | 0, _, _, _, _, h => by simp [modNames] at h
  | f+1, 0, _, _, hle, _ => by omega
  | f+1, g+1, m, x, hle, h => by
    simp only [modNames, List.mem_append, List.mem_flatMap] at h ⊢
    rcases h with h | ⟨st, hst, hx⟩
    · exact Or.inl h
    · right
      refine ⟨st, hst, ?_⟩
      cases st with
      | importStar lvl M =>
        simp only [stmtNames] at hx ⊢
        cases ht : target proj m lvl M with
        | none => simp [ht] at hx
        | some t =>
          simp only [ht] at hx ⊢
          unfold exported at hx ⊢
          simp only [List.mem_append, List.mem_filter, List.mem_eraseDups] at hx ⊢
          by_cases hp : isPublic x = true
          · rcases hx with hx | hx
            · exact Or.inl ⟨modNames_mono (Nat.le_of_succ_le_succ hle) hx.1, hp⟩
            · by_cases hin : x ∈ modNames proj g t
              · exact Or.inl ⟨hin, hp⟩
              · right
                refine ⟨hx.1, ?_⟩
                simp only [Bool.not_eq_eq_eq_not, Bool.not_true, List.contains_eq_mem, List.mem_filter,
                  decide_eq_false_iff_not, not_and]
                intro h1; exact absurd h1 hin
          · rcases hx with hx | hx
            · exact absurd hx.2 hp
            · right
              refine ⟨hx.1, ?_⟩
              simp only [Bool.not_eq_eq_eq_not, Bool.not_true, List.contains_eq_mem, List.mem_filter,
                decide_eq_false_iff_not, not_and]
              intro _; exact hp
      | _ => simpa [stmtNames] using hx

/-! ## which statement binds a name -/

/-- names statement `st` of scope `S` may bind (star imports expanded with the fuel of `S`'s module) -/
def stmtNamesR (proj : Project) (rank : List Nat) (S : Site) (st : Stmt) : List Name :=
  stmtNames proj (exported proj (modNames proj (rankOf rank S.1))) S.1 st

theorem modNames_succ (proj : Project) (f m : Nat) :
    modNames proj (f+1) m = childNames proj m ++
      (bodyOf proj m).flatMap (stmtNames proj (exported proj (modNames proj f)) m) := rfl

theorem siteBody_mod {proj : Project} {m : Nat} {b : List Stmt} (h : siteBody proj (m, []) = some b) :
    b = bodyOf proj m := by
  have := siteBody_bodyAt h
  simp only [bodyAt, Option.some.injEq] at this
  exact this.symm

/-- each name is bound by at most one statement of a scope -/
theorem same_stmt {proj : Project} {rank : List Nat} (wf : WFacts proj rank) {S : Site} {b : List Stmt}
    {st₁ st₂ : Stmt} {x : Name} (hb : siteBody proj S = some b) (h₁ : st₁ ∈ b) (h₂ : st₂ ∈ b)
    (hx₁ : x ∈ stmtNamesR proj rank S st₁) (hx₂ : x ∈ stmtNamesR proj rank S st₂) : st₁ = st₂ := by
  obtain ⟨m, cp⟩ := S
  by_cases hcp : cp = []
  · subst hcp
    have hbm := siteBody_mod hb
    subst hbm
    have hn := wf.onceMod m (siteBody_lt hb)
    rw [modNames_succ, List.nodup_append] at hn
    exact same_of_nodup_flatMap hn.2.1 h₁ h₂ hx₁ hx₂
  · have hn := wf.onceCls hb hcp
    have e1 : x ∈ explicitNames st₁ :=
      explicit_of_stmtNames (fun lvl M he => hcp (wf.nostar hb (he ▸ h₁))) hx₁
    have e2 : x ∈ explicitNames st₂ :=
      explicit_of_stmtNames (fun lvl M he => hcp (wf.nostar hb (he ▸ h₂))) hx₂
    exact same_of_nodup_flatMap hn h₁ h₂ e1 e2

/-- a submodule's name is bound by no statement of the package -/
theorem child_not_stmt {proj : Project} {rank : List Nat} (wf : WFacts proj rank) {m : Nat} {b : List Stmt}
    {st : Stmt} {x : Name} (hb : siteBody proj (m, []) = some b) (hc : x ∈ childNames proj m) (h₁ : st ∈ b)
    (hx : x ∈ stmtNamesR proj rank (m, []) st) : False := by
  have hbm := siteBody_mod hb
  subst hbm
  have hn := wf.onceMod m (siteBody_lt hb)
  rw [modNames_succ, List.nodup_append] at hn
  exact hn.2.2 x hc x (List.mem_flatMap.2 ⟨st, h₁, hx⟩) rfl

/-- every name Python can bind in a module is among `modNames` -/
theorem jpy_names {proj : Project} {rank : List Nat} (wf : WFacts proj rank) :
    ∀ {S : Site} {ns : List Name} {v : SVal}, Jpy proj S ns v → ∀ m x, S = (m, []) → ns = [x] →
      x ∈ modNames proj (rankOf rank m + 1) m := by
  intro S ns v h
  induction h with
  | @dfn S b st n hb hst hd =>
    intro m x hS hns
    subst hS; injection hns with hns; subst hns
    rw [modNames_succ, ← siteBody_mod hb]
    exact List.mem_append_right _ (List.mem_flatMap.2 ⟨st, hst, stmtNames_of_explicit (defName_explicit hd)⟩)
  | @child m' x' c hc =>
    intro m x hS hns
    injection hS with hS; subst hS; injection hns with hns; subst hns
    rw [modNames_succ]; exact List.mem_append_left _ (child_mem hc)
  | @importTop S b h r top hb hst _ =>
    intro m x hS hns
    subst hS; injection hns with hns; subst hns
    rw [modNames_succ, ← siteBody_mod hb]
    exact List.mem_append_right _ (List.mem_flatMap.2 ⟨_, hst, stmtNames_of_explicit (by simp [explicitNames])⟩)
  | @importAs1 S b h x' top hb hst _ =>
    intro m x hS hns
    subst hS; injection hns with hns; subst hns
    rw [modNames_succ, ← siteBody_mod hb]
    exact List.mem_append_right _ (List.mem_flatMap.2 ⟨_, hst, stmtNames_of_explicit (by simp [explicitNames])⟩)
  | @importAs S b h y x' ys top v hb hst _ _ _ =>
    intro m x hS hns
    subst hS; injection hns with hns; subst hns
    rw [modNames_succ, ← siteBody_mod hb]
    exact List.mem_append_right _ (List.mem_flatMap.2 ⟨_, hst, stmtNames_of_explicit (by simp [explicitNames])⟩)
  | @«from» S b lvl M n a t v hb hst _ _ _ =>
    intro m x hS hns
    subst hS; injection hns with hns; subst hns
    rw [modNames_succ, ← siteBody_mod hb]
    exact List.mem_append_right _ (List.mem_flatMap.2 ⟨_, hst, stmtNames_of_explicit (by simp [explicitNames])⟩)
  | @star m' b lvl M t x' v hb hst ht hok _ ih =>
    intro m x hS hns
    injection hS with hS; subst hS; injection hns with hns; subst hns
    have hx := ih t x' rfl rfl
    obtain ⟨t', ht', hr⟩ := wf.targets hb hst (target proj m' lvl M) (by simp [stmtTargets])
    rw [ht] at ht'; injection ht' with ht'; subst ht'
    have hx' : x' ∈ modNames proj (rankOf rank m') t := modNames_mono (by simp at hr; omega) hx
    rw [modNames_succ, ← siteBody_mod hb]
    refine List.mem_append_right _ (List.mem_flatMap.2 ⟨_, hst, ?_⟩)
    simp only [stmtNames, ht]
    exact mem_exported hx' hok
  | cons _ _ _ _ =>
    intro m x _ hns
    cases hns

/-! ## inversion of `Jpy` on a single name -/

/-- what statement `st` of scope `S` says about the binding of `x` -/
def StmtJ (proj : Project) (S : Site) : Stmt → Name → SVal → Prop
  | .classDef n _ _, x, v => x = n ∧ v = .dfn S.1 (S.2 ++ [n])
  | .funcDef n, x, v => x = n ∧ v = .dfn S.1 (S.2 ++ [n])
  | .assign n _, x, v => x = n ∧ v = .dfn S.1 (S.2 ++ [n])
  | .importMod tgt none, x, v => ∃ r top, tgt = x :: r ∧ modIdx proj [x] = some top ∧ v = .mod top
  | .importMod tgt (some a), x, v => x = a ∧ ∃ h r top, tgt = h :: r ∧ modIdx proj [h] = some top ∧
      ((r = [] ∧ v = .mod top) ∨ (∃ y ys, r = y :: ys ∧ Jpy proj (top, []) (y :: ys) v))
  | .importFrom lvl M n a, x, v => x = a.getD n ∧ ∃ t, target proj S.1 lvl M = some t ∧ Jpy proj (t, []) [n] v
  | .importStar lvl M, x, v => S.2 = [] ∧ ∃ t, target proj S.1 lvl M = some t ∧ starOk proj t x ∧ Jpy proj (t, []) [x] v
  | .allAssign _, _, _ => False

theorem jpy_inv_aux {proj : Project} {rank : List Nat} (wf : WFacts proj rank) :
    ∀ {S : Site} {ns : List Name} {v : SVal}, Jpy proj S ns v → ∀ x, ns = [x] →
    (S.2 = [] ∧ ∃ c, modIdx proj (pathOf proj S.1 ++ [x]) = some c ∧ v = .mod c) ∨
    (∃ b st, siteBody proj S = some b ∧ st ∈ b ∧ x ∈ stmtNamesR proj rank S st ∧ StmtJ proj S st x v) := by
  intro S ns v h
  induction h with
  | @dfn S b st n hb hst hd =>
    intro x hns; injection hns with hns; subst hns
    right
    refine ⟨b, st, hb, hst, stmtNames_of_explicit (defName_explicit hd), ?_⟩
    cases st <;> simp_all [Stmt.defName, StmtJ]
  | @child m x' c hc =>
    intro x hns; injection hns with hns; subst hns
    exact Or.inl ⟨rfl, _, hc, rfl⟩
  | @importTop S b h r top hb hst ht =>
    intro x hns; injection hns with hns; subst hns
    right
    exact ⟨b, _, hb, hst, stmtNames_of_explicit (by simp [explicitNames]), r, top, rfl, ht, rfl⟩
  | @importAs1 S b h x' top hb hst ht =>
    intro x hns; injection hns with hns; subst hns
    right
    exact ⟨b, _, hb, hst, stmtNames_of_explicit (by simp [explicitNames]), rfl, h, [], top, rfl, ht, Or.inl ⟨rfl, rfl⟩⟩
  | @importAs S b h y x' ys top v hb hst ht hj _ =>
    intro x hns; injection hns with hns; subst hns
    right
    exact ⟨b, _, hb, hst, stmtNames_of_explicit (by simp [explicitNames]), rfl, h, y :: ys, top, rfl, ht,
      Or.inr ⟨y, ys, rfl, hj⟩⟩
  | @«from» S b lvl M n a t v hb hst ht hj _ =>
    intro x hns; injection hns with hns; subst hns
    right
    exact ⟨b, _, hb, hst, stmtNames_of_explicit (by simp [explicitNames]), rfl, t, ht, hj⟩
  | @star m b lvl M t x' v hb hst ht hok hj _ =>
    intro x hns; injection hns with hns; subst hns
    right
    refine ⟨b, _, hb, hst, ?_, rfl, t, ht, hok, hj⟩
    have hx := jpy_names wf hj t x' rfl rfl
    obtain ⟨t', ht', hr⟩ := wf.targets hb hst (target proj m lvl M) (by simp [stmtTargets])
    rw [ht] at ht'; injection ht' with ht'; subst ht'
    simp only [stmtNamesR, stmtNames, ht]
    exact mem_exported (modNames_mono (by simp at hr; omega) hx) hok
  | cons _ _ _ _ =>
    intro x hns; cases hns

theorem jpy_inv {proj : Project} {rank : List Nat} (wf : WFacts proj rank) {S : Site} {x : Name} {v : SVal}
    (h : Jpy proj S [x] v) :
    (S.2 = [] ∧ ∃ c, modIdx proj (pathOf proj S.1 ++ [x]) = some c ∧ v = .mod c) ∨
    (∃ b st, siteBody proj S = some b ∧ st ∈ b ∧ x ∈ stmtNamesR proj rank S st ∧ StmtJ proj S st x v) :=
  jpy_inv_aux wf h x rfl

theorem jpy_cons_inv {proj : Project} {S : Site} {x y : Name} {ys : List Name} {v : SVal}
    (h : Jpy proj S (x :: y :: ys) v) : ∃ w, Jpy proj S [x] w ∧ Jpy proj (scopeOf w) (y :: ys) v := by
  generalize hn : x :: y :: ys = ns at h
  induction h with
  | cons h1 h2 _ _ => injection hn with e1 e2; injection e2 with e2 e3; subst e1; subst e2; subst e3; exact ⟨_, h1, h2⟩
  | _ => cases hn

/-- **Python's bindings are functions of the project**: under `WF` a dotted name evaluated in a scope
has at most one possible value. -/
theorem jpy_fun {proj : Project} {rank : List Nat} (wf : WFacts proj rank) :
    ∀ {S : Site} {ns : List Name} {v₁ : SVal}, Jpy proj S ns v₁ → ∀ {v₂ : SVal}, Jpy proj S ns v₂ → v₁ = v₂ := by
  intro S ns v₁ h
  induction h with
  | @dfn S b st n hb hst hd =>
    intro v₂ h₂
    rcases jpy_inv wf h₂ with ⟨hS, c, hc, _⟩ | ⟨b', st', hb', hst', hx', hj'⟩
    · exfalso
      obtain ⟨m, cp⟩ := S; simp only at hS; subst hS
      exact child_not_stmt wf hb (child_mem hc) hst (stmtNames_of_explicit (defName_explicit hd))
    · rw [hb] at hb'; injection hb' with hb'; subst hb'
      have := same_stmt wf hb hst hst' (stmtNames_of_explicit (defName_explicit hd)) hx'
      subst this
      cases st <;> simp_all [Stmt.defName, StmtJ]
  | @child m x c hc =>
    intro v₂ h₂
    rcases jpy_inv wf h₂ with ⟨_, c', hc', hv⟩ | ⟨b', st', hb', hst', hx', _⟩
    · simp only at hc'; rw [hc] at hc'; injection hc' with hc'; subst hc'; exact hv.symm
    · exact (child_not_stmt wf hb' (child_mem hc) hst' hx').elim
  | @importTop S b h r top hb hst ht =>
    intro v₂ h₂
    rcases jpy_inv wf h₂ with ⟨hS, c, hc, _⟩ | ⟨b', st', hb', hst', hx', hj'⟩
    · exfalso
      obtain ⟨m, cp⟩ := S; simp only at hS; subst hS
      exact child_not_stmt wf hb (child_mem hc) hst (stmtNames_of_explicit (by simp [explicitNames]))
    · rw [hb] at hb'; injection hb' with hb'; subst hb'
      have := same_stmt wf hb hst hst' (stmtNames_of_explicit (by simp [explicitNames])) hx'
      subst this
      obtain ⟨r', top', _, ht', hv⟩ := hj'
      rw [ht] at ht'; injection ht' with ht'; subst ht'; exact hv.symm
  | @importAs1 S b h x top hb hst ht =>
    intro v₂ h₂
    rcases jpy_inv wf h₂ with ⟨hS, c, hc, _⟩ | ⟨b', st', hb', hst', hx', hj'⟩
    · exfalso
      obtain ⟨m, cp⟩ := S; simp only at hS; subst hS
      exact child_not_stmt wf hb (child_mem hc) hst (stmtNames_of_explicit (by simp [explicitNames]))
    · rw [hb] at hb'; injection hb' with hb'; subst hb'
      have := same_stmt wf hb hst hst' (stmtNames_of_explicit (by simp [explicitNames])) hx'
      subst this
      obtain ⟨_, h', r', top', htg, ht', hv⟩ := hj'
      injection htg with e1 e2; subst e1; subst e2
      rw [ht] at ht'; injection ht' with ht'; subst ht'
      rcases hv with ⟨_, hv⟩ | ⟨y, ys, hr, _⟩
      · exact hv.symm
      · cases hr
  | @importAs S b h y x ys top v hb hst ht _ ih =>
    intro v₂ h₂
    rcases jpy_inv wf h₂ with ⟨hS, c, hc, _⟩ | ⟨b', st', hb', hst', hx', hj'⟩
    · exfalso
      obtain ⟨m, cp⟩ := S; simp only at hS; subst hS
      exact child_not_stmt wf hb (child_mem hc) hst (stmtNames_of_explicit (by simp [explicitNames]))
    · rw [hb] at hb'; injection hb' with hb'; subst hb'
      have := same_stmt wf hb hst hst' (stmtNames_of_explicit (by simp [explicitNames])) hx'
      subst this
      obtain ⟨_, h', r', top', htg, ht', hv⟩ := hj'
      injection htg with e1 e2; subst e1; subst e2
      rw [ht] at ht'; injection ht' with ht'; subst ht'
      rcases hv with ⟨hr, _⟩ | ⟨y', ys', hr, hj⟩
      · cases hr
      · injection hr with e1 e2; subst e1; subst e2; exact ih hj
  | @«from» S b lvl M n a t v hb hst ht _ ih =>
    intro v₂ h₂
    rcases jpy_inv wf h₂ with ⟨hS, c, hc, _⟩ | ⟨b', st', hb', hst', hx', hj'⟩
    · exfalso
      obtain ⟨m, cp⟩ := S; simp only at hS; subst hS
      exact child_not_stmt wf hb (child_mem hc) hst (stmtNames_of_explicit (by simp [explicitNames]))
    · rw [hb] at hb'; injection hb' with hb'; subst hb'
      have := same_stmt wf hb hst hst' (stmtNames_of_explicit (by simp [explicitNames])) hx'
      subst this
      obtain ⟨_, t', ht', hj⟩ := hj'
      rw [ht] at ht'; injection ht' with ht'; subst ht'
      exact ih hj
  | @star m b lvl M t x v hb hst ht hok hj ih =>
    intro v₂ h₂
    have hxm : x ∈ stmtNamesR proj rank (m, []) (.importStar lvl M) := by
      have hx := jpy_names wf hj t x rfl rfl
      obtain ⟨t', ht', hr⟩ := wf.targets hb hst (target proj m lvl M) (by simp [stmtTargets])
      rw [ht] at ht'; injection ht' with ht'; subst ht'
      simp only [stmtNamesR, stmtNames, ht]
      exact mem_exported (modNames_mono (by simp at hr; omega) hx) hok
    rcases jpy_inv wf h₂ with ⟨_, c, hc, _⟩ | ⟨b', st', hb', hst', hx', hj'⟩
    · exact (child_not_stmt wf hb (child_mem hc) hst hxm).elim
    · rw [hb] at hb'; injection hb' with hb'; subst hb'
      have := same_stmt wf hb hst hst' hxm hx'
      subst this
      obtain ⟨_, t', ht', _, hj2⟩ := hj'
      simp only at ht'
      rw [ht] at ht'; injection ht' with ht'; subst ht'
      exact ih hj2
  | @cons S x y ys w v _ _ ih1 ih2 =>
    intro v₂ h₂
    obtain ⟨w', h1, h2⟩ := jpy_cons_inv h₂
    have := ih1 h1; subst this
    exact ih2 h2

/-! ## root names, chains, canonical derivations -/

/-- a name that is the name of a root module can only be bound to that module -/
theorem jpy_root {proj : Project} {rank : List Nat} (wf : WFacts proj rank) :
    ∀ {S : Site} {ns : List Name} {v : SVal}, Jpy proj S ns v → ∀ x root, ns = [x] → modIdx proj [x] = some root →
      v = .mod root := by
  intro S ns v h
  induction h with
  | @dfn S b st n hb hst hd =>
    intro x root hns hr; injection hns with hns; subst hns
    rcases wf.rootsStmt hb hst (defName_explicit hd) (by simp [isRootName, hr]) with ⟨r, he⟩ | he <;>
      (subst he; simp [Stmt.defName] at hd)
  | @child m x' c hc =>
    intro x root hns hr; injection hns with hns; subst hns
    have hm : m < proj.length ∨ ¬ m < proj.length := Nat.lt_or_ge m proj.length |>.imp id (by omega)
    rcases hm with hm | hm
    · have := wf.rootsChild m hm x' (child_mem hc)
      simp [isRootName, hr] at this
    · have hp : pathOf proj m = [] := by
        simp only [pathOf]; rw [List.getElem?_eq_none (by omega)]
      rw [hp] at hc; simp only [List.nil_append] at hc
      rw [hr] at hc; injection hc with hc; subst hc; rfl
  | @importTop S b h r top hb hst ht =>
    intro x root hns hr; injection hns with hns; subst hns
    rw [hr] at ht; injection ht with ht; subst ht; rfl
  | @importAs1 S b h x' top hb hst ht =>
    intro x root hns hr; injection hns with hns; subst hns
    rcases wf.rootsStmt hb hst (x := x') (by simp [explicitNames]) (by simp [isRootName, hr]) with ⟨r, he⟩ | he
    · cases he
    · injection he with e1 e2; injection e1 with e1 _; subst e1
      rw [hr] at ht; injection ht with ht; subst ht; rfl
  | @importAs S b h y x' ys top v hb hst ht _ _ =>
    intro x root hns hr; injection hns with hns; subst hns
    rcases wf.rootsStmt hb hst (x := x') (by simp [explicitNames]) (by simp [isRootName, hr]) with ⟨r, he⟩ | he
    · cases he
    · injection he with e1 e2; injection e1 with _ e3; cases e3
  | @«from» S b lvl M n a t v hb hst ht _ _ =>
    intro x root hns hr; injection hns with hns; subst hns
    rcases wf.rootsStmt hb hst (x := a.getD n) (by simp [explicitNames]) (by simp [isRootName, hr]) with ⟨r, he⟩ | he <;>
      cases he
  | @star m b lvl M t x' v hb hst ht hok hj ih =>
    intro x root hns hr; injection hns with hns; subst hns
    exact ih x' root rfl hr
  | cons _ _ _ _ => intro x root hns; cases hns

theorem jpy_append {proj : Project} : ∀ {xs : List Name} {S : Site} {w v : SVal} {y : Name} {ys : List Name},
    Jpy proj S xs w → xs ≠ [] → Jpy proj (scopeOf w) (y :: ys) v → Jpy proj S (xs ++ y :: ys) v
  | [], _, _, _, _, _, _, hne, _ => absurd rfl hne
  | [x], _, _, _, _, _, h1, _, h2 => Jpy.cons h1 h2
  | x :: x2 :: xs, S, w, v, y, ys, h1, _, h2 => by
    obtain ⟨w1, ha, hb⟩ := jpy_cons_inv h1
    have := jpy_append (xs := x2 :: xs) hb (by simp) h2
    exact Jpy.cons ha this

/-- the absolute dotted name `p` denotes `v`: its first component is a root module of the project,
the rest an attribute chain from it -/
def AbsDen (proj : Project) (p : Path) (v : SVal) : Prop :=
  ∃ r rest root, p = r :: rest ∧ modIdx proj [r] = some root ∧
    ((rest = [] ∧ v = .mod root) ∨ (rest ≠ [] ∧ Jpy proj (root, []) rest v))

/-- … if its first component is a root module at all -/
def AbsDenW (proj : Project) (p : Path) (v : SVal) : Prop :=
  ∀ r rest root, p = r :: rest → modIdx proj [r] = some root →
    ((rest = [] ∧ v = .mod root) ∨ (rest ≠ [] ∧ Jpy proj (root, []) rest v))

theorem AbsDen.weak {proj : Project} {p : Path} {v : SVal} (h : AbsDen proj p v) : AbsDenW proj p v := by
  obtain ⟨r, rest, root, hp, hr, hv⟩ := h
  intro r' rest' root' hp' hr'
  rw [hp] at hp'; injection hp' with e1 e2; subst e1; subst e2
  rw [hr] at hr'; injection hr' with hr'; subst hr'
  exact hv

theorem AbsDen.ext {proj : Project} {p : Path} {w v : SVal} {y : Name} {ys : List Name}
    (h : AbsDen proj p w) (h2 : Jpy proj (scopeOf w) (y :: ys) v) : AbsDen proj (p ++ y :: ys) v := by
  obtain ⟨r, rest, root, hp, hr, hv⟩ := h
  refine ⟨r, rest ++ y :: ys, root, by simp [hp], hr, Or.inr ⟨by simp, ?_⟩⟩
  rcases hv with ⟨hr0, hw⟩ | ⟨hne, hj⟩
  · subst hr0; subst hw; simpa [scopeOf] using h2
  · exact jpy_append hj hne h2

theorem AbsDenW.ext {proj : Project} {p : Path} {w v : SVal} {y : Name} {ys : List Name}
    (h : AbsDenW proj p w) (hp : p ≠ []) (h2 : Jpy proj (scopeOf w) (y :: ys) v) : AbsDenW proj (p ++ y :: ys) v := by
  intro r rest root he hr
  cases p with
  | nil => exact absurd rfl hp
  | cons r0 rest0 =>
    simp only [List.cons_append] at he
    injection he with e1 e2; subst e1; subst e2
    exact (AbsDen.ext ⟨r0, rest0, root, rfl, hr, h r0 rest0 root rfl hr⟩ h2).weak r0 _ root rfl hr

theorem AbsDen.fun {proj : Project} {rank : List Nat} (wf : WFacts proj rank) {p : Path} {v w : SVal}
    (h1 : AbsDen proj p v) (h2 : AbsDenW proj p w) : v = w := by
  obtain ⟨r, rest, root, hp, hr, hv⟩ := h1
  rcases hv with ⟨h0, hv⟩ | ⟨hne, hj⟩ <;> rcases h2 r rest root hp hr with ⟨h0', hw⟩ | ⟨hne', hj'⟩
  · rw [hv, hw]
  · exact absurd h0 hne'
  · exact absurd h0' hne
  · exact jpy_fun wf hj hj'

theorem canon_mod {proj : Project} {rank : List Nat} (wf : WFacts proj rank) :
    ∀ m, m < proj.length → AbsDen proj (pathOf proj m) (.mod m) := by
  intro m
  induction m using Nat.strongRecOn with
  | _ m ih =>
    intro hm
    obtain ⟨hne, hpar⟩ := wf.parentOk m hm
    have hself := modIdx_of_path wf.modNodup hm
    by_cases hl : 2 ≤ (pathOf proj m).length
    · obtain ⟨q, hq, hqm, _⟩ := hpar hl
      obtain ⟨hqn, hqp⟩ := modIdx_spec hq
      have hsplit : pathOf proj m = pathOf proj q ++ [(pathOf proj m).getLast hne] := by
        rw [hqp]; exact (List.dropLast_concat_getLast hne).symm
      have hc : modIdx proj (pathOf proj q ++ [(pathOf proj m).getLast hne]) = some m := by
        rw [← hsplit]; exact hself
      have := AbsDen.ext (ih q hqm hqn) (show Jpy proj (scopeOf (.mod q)) [_] (.mod m) from Jpy.child hc)
      rw [hsplit]; exact this
    · cases hp : pathOf proj m with
      | nil => exact absurd hp hne
      | cons r rest =>
        cases rest with
        | nil => exact ⟨r, [], m, rfl, by rw [← hp]; exact hself, Or.inl ⟨rfl, rfl⟩⟩
        | cons r2 rest2 => rw [hp] at hl; simp at hl

theorem bodyAt_append : ∀ (xs ys : List Name) (body : List Stmt),
    bodyAt body (xs ++ ys) = (bodyAt body xs).bind (fun b => bodyAt b ys)
  | [], ys, body => by simp [bodyAt]
  | x :: xs, ys, body => by
    simp only [List.cons_append, bodyAt]
    cases findClass body x with
    | none => simp
    | some b' => simp [bodyAt_append xs ys b']

theorem siteBody_snoc {proj : Project} {m : Nat} {cp : List Name} {c : Name} {b b1 : List Stmt}
    (hb : siteBody proj (m, cp) = some b) (hf : findClass b c = some b1) :
    siteBody proj (m, cp ++ [c]) = some b1 := by
  unfold siteBody at hb ⊢
  cases hm : proj[m]? with
  | none => simp [hm] at hb
  | some md =>
    simp only [hm] at hb ⊢
    rw [bodyAt_append, hb]
    simp [bodyAt, hf]

/-- the chain of definitions leading to a definition, as a derivation -/
theorem canon_chain {proj : Project} {m : Nat} : ∀ (cs : List Name) (pre : List Name) (b b' : List Stmt) (st : Stmt) (n : Name),
    siteBody proj (m, pre) = some b → bodyAt b cs = some b' → st ∈ b' → st.defName = some n →
    Jpy proj (m, pre) (cs ++ [n]) (.dfn m (pre ++ (cs ++ [n])))
  | [], pre, b, b', st, n, hb, hat, hst, hd => by
    simp only [bodyAt, Option.some.injEq] at hat; subst hat
    exact Jpy.dfn hb hst hd
  | c :: cs, pre, b, b', st, n, hb, hat, hst, hd => by
    simp only [bodyAt] at hat
    cases hf : findClass b c with
    | none => simp [hf] at hat
    | some b1 =>
      simp only [hf] at hat
      obtain ⟨bs, hm⟩ := findClass_mem hf
      have h1 : Jpy proj (m, pre) [c] (.dfn m (pre ++ [c])) := Jpy.dfn hb hm rfl
      have h2 := canon_chain cs (pre ++ [c]) b1 b' st n (siteBody_snoc hb hf) hat hst hd
      have e : pre ++ [c] ++ (cs ++ [n]) = pre ++ (c :: cs ++ [n]) := by simp
      rw [e] at h2
      generalize hv : SVal.dfn m (pre ++ (c :: cs ++ [n])) = v at h2 ⊢
      cases hcs : cs ++ [n] with
      | nil => simp at hcs
      | cons y ys =>
        rw [hcs] at h2
        simp only [List.cons_append, hcs]
        exact Jpy.cons h1 (by simpa [scopeOf] using h2)

/-- every module and definition is denoted by its own qualified name -/
theorem canon_site {proj : Project} {rank : List Nat} (wf : WFacts proj rank) {S : Site} (h : StaticSite proj S) :
    AbsDen proj (sitePath proj S) (svalOf S) := by
  obtain ⟨m, cp⟩ := S
  obtain ⟨hm, hcp⟩ := h
  simp only at hm hcp
  rcases hcp with hcp | ⟨cp', n, b, st, hcp, hb, hst, hd⟩
  · subst hcp; simpa [sitePath, svalOf] using canon_mod wf m hm
  · subst hcp
    have hb0 : siteBody proj (m, []) = some (bodyOf proj m) := by
      unfold siteBody bodyOf
      cases hx : proj[m]? with
      | none => rw [List.getElem?_eq_none_iff] at hx; omega
      | some md => simp [bodyAt]
    have hat := siteBody_bodyAt hb
    simp only at hat
    have hj := canon_chain cp' [] _ _ st n hb0 hat hst hd
    simp only [List.nil_append] at hj
    have hne : cp' ++ [n] ≠ [] := by simp
    simp only [sitePath, svalOf, hne, if_false]
    cases hcs : cp' ++ [n] with
    | nil => exact absurd hcs hne
    | cons y ys =>
      rw [hcs] at hj
      exact AbsDen.ext (canon_mod wf m hm) hj

theorem scopeOf_svalOf (S : Site) : scopeOf (svalOf S) = S := by
  obtain ⟨m, cp⟩ := S
  unfold svalOf
  by_cases h : cp = []
  · subst h; simp [scopeOf]
  · simp [h, scopeOf]

/-! ## pydoctor's alias targets denote what Python binds -/

theorem abs_eq {proj : Project} {m lvl : Nat} {M T T' : Path} (h1 : pdAbsName proj m lvl M = some T)
    (h2 : pyAbsName proj m lvl M = some T') : T = T' := by
  unfold pdAbsName at h1; unfold pyAbsName at h2
  by_cases hl : lvl = 0
  · simp only [hl, if_true, Option.some.injEq] at h1 h2; rw [← h1, ← h2]
  · simp only [hl, if_false] at h1 h2
    rw [Names.relative_level _ _ _ (by omega)] at h1
    cases hb : Names.pythonRelativeBase (pathOf proj m) (isPkg proj m) lvl with
    | none => simp [hb] at h1
    | some b => simp only [hb, Option.some.injEq] at h1 h2; rw [← h1, ← h2]

theorem target_spec {proj : Project} {m lvl : Nat} {M : Path} {t : Nat} (h : target proj m lvl M = some t) :
    ∃ T, pyAbsName proj m lvl M = some T ∧ modIdx proj T = some t := by
  unfold target at h
  cases hT : pyAbsName proj m lvl M with
  | none => simp [hT] at h
  | some T => simp only [hT] at h; exact ⟨T, rfl, h⟩

/-- the module pydoctor takes for a star import is the one Python imports -/
theorem star_target {proj : Project} {m lvl : Nat} {M T : Path} {t t' : Nat}
    (h1 : pdAbsName proj m lvl M = some T) (hu : ∀ t', modIdx proj T = some t' → t = t')
    (h2 : target proj m lvl M = some t') : t = t' := by
  obtain ⟨T', hT', hm⟩ := target_spec h2
  have := abs_eq h1 hT'; subst this
  exact hu t' hm

theorem mem_exported_all {proj : Project} {g : Nat → List Name} {t : Nat} {x : Name}
    (hx : x ∈ allNames (bodyOf proj t)) : x ∈ exported proj g t := by
  unfold exported
  simp only [List.mem_append, List.mem_filter, List.mem_eraseDups]
  by_cases hp : x ∈ (g t).filter isPublic
  · exact Or.inl (by simpa using hp)
  · right; refine ⟨hx, ?_⟩
    simp only [Bool.not_eq_eq_eq_not, Bool.not_true, List.contains_eq_mem, decide_eq_false_iff_not]
    exact hp

theorem siteBody_zero {proj : Project} {t : Nat} (hlt : t < proj.length) :
    siteBody proj (t, []) = some (bodyOf proj t) := by
  unfold siteBody bodyOf
  cases hx : proj[t]? with
  | none => rw [List.getElem?_eq_none_iff] at hx; omega
  | some md => simp [bodyAt]

/-- a star import of scope `S` from `t` may bind `x` when `x` is among the names of `t` -/
theorem star_mem {proj : Project} {rank : List Nat} (wf : WFacts proj rank) {S : Site} {b : List Stmt}
    {lvl : Nat} {M T : Path} {t : Nat} {x : Name} (hb : siteBody proj S = some b) (hst : Stmt.importStar lvl M ∈ b)
    (hT : pdAbsName proj S.1 lvl M = some T) (hu : ∀ t', modIdx proj T = some t' → t = t')
    (hx : x ∈ allNames (bodyOf proj t) ∨ (starOk proj t x ∧ x ∈ modNames proj (rankOf rank t + 1) t)) :
    target proj S.1 lvl M = some t ∧ t < proj.length ∧ x ∈ stmtNamesR proj rank S (.importStar lvl M) := by
  obtain ⟨t', ht', hr⟩ := wf.targets hb hst (target proj S.1 lvl M) (by simp [stmtTargets])
  have := star_target hT hu ht'; subst this
  obtain ⟨T', _, hm'⟩ := target_spec ht'
  refine ⟨ht', (modIdx_spec hm').1, ?_⟩
  simp only [stmtNamesR, stmtNames, ht']
  rcases hx with hx | ⟨hok, hx⟩
  · exact mem_exported_all hx
  · exact mem_exported (modNames_mono (by omega) hx) hok

/-- every name pydoctor can put into an alias map is bound by a statement of that scope -/
theorem jpd_names {proj : Project} {rank : List Nat} (wf : WFacts proj rank) :
    ∀ {S : Site} {x : Name} {tgt : Path}, Jpd proj S x tgt → ∀ b, siteBody proj S = some b →
      ∃ st ∈ b, x ∈ stmtNamesR proj rank S st := by
  intro S x tgt h
  induction h with
  | @importAs S b tgt x hb hst =>
    intro b' hb'; rw [hb] at hb'; injection hb' with hb'; subst hb'
    exact ⟨_, hst, stmtNames_of_explicit (by simp [explicitNames])⟩
  | @importTop S b h r hb hst =>
    intro b' hb'; rw [hb] at hb'; injection hb' with hb'; subst hb'
    exact ⟨_, hst, stmtNames_of_explicit (by simp [explicitNames])⟩
  | @«from» S b lvl M n a T hb hst _ =>
    intro b' hb'; rw [hb] at hb'; injection hb' with hb'; subst hb'
    exact ⟨_, hst, stmtNames_of_explicit (by simp [explicitNames])⟩
  | @starChild S b lvl M T t x hb hst hT hu hok hx =>
    intro b' hb'; rw [hb] at hb'; injection hb' with hb'; subst hb'
    refine ⟨_, hst, (star_mem wf hb hst hT hu (Or.inr ⟨hok, ?_⟩)).2.2⟩
    rw [modNames_succ]
    rcases hx with hx | ⟨st, hst', hd⟩
    · exact List.mem_append_left _ hx
    · exact List.mem_append_right _ (List.mem_flatMap.2 ⟨st, hst', stmtNames_of_explicit (defName_explicit hd)⟩)
  | @starAlias S b lvl M T t x tgt hb hst hT hu hok hj ih =>
    intro b' hb'; rw [hb] at hb'; injection hb' with hb'; subst hb'
    have hlt : t < proj.length := by
      obtain ⟨t', ht', _⟩ := wf.targets hb hst (target proj S.1 lvl M) (by simp [stmtTargets])
      have := star_target hT hu ht'; subst this
      obtain ⟨T', _, hm'⟩ := target_spec ht'
      exact (modIdx_spec hm').1
    obtain ⟨st', hst', hx'⟩ := ih _ (siteBody_zero hlt)
    refine ⟨_, hst, (star_mem wf hb hst hT hu (Or.inr ⟨hok, ?_⟩)).2.2⟩
    rw [modNames_succ]
    exact List.mem_append_right _ (List.mem_flatMap.2 ⟨st', hst', hx'⟩)
  | @starNone S b lvl M T t x hb hst hT hu hx =>
    intro b' hb'; rw [hb] at hb'; injection hb' with hb'; subst hb'
    exact ⟨_, hst, (star_mem wf hb hst hT hu (Or.inl hx)).2.2⟩

/-- **the alias map agrees with Python**: whatever pydoctor's alias map of a scope says a name
stands for denotes (as an absolute dotted name) what Python binds the name to in that scope -/
theorem jpd_jpy {proj : Project} {rank : List Nat} (wf : WFacts proj rank) :
    ∀ {S : Site} {x : Name} {tgt : Path}, Jpd proj S x tgt → ∀ {w : SVal}, Jpy proj S [x] w → AbsDenW proj tgt w := by
  intro S x tgt h
  induction h with
  | @importAs S b tgt x hb hst =>
    intro w hw
    rcases jpy_inv wf hw with ⟨hS, c, hc, _⟩ | ⟨b', st', hb', hst', hx', hj'⟩
    · exfalso
      obtain ⟨m, cp⟩ := S; simp only at hS; subst hS
      exact child_not_stmt wf hb (child_mem hc) hst (stmtNames_of_explicit (by simp [explicitNames]))
    · rw [hb] at hb'; injection hb' with hb'; subst hb'
      have := same_stmt wf hb hst hst' (stmtNames_of_explicit (by simp [explicitNames])) hx'
      subst this
      obtain ⟨_, h, r, top, htg, ht, hv⟩ := hj'
      subst htg
      intro r' rest root he hr
      injection he with e1 e2; subst e1; subst e2
      rw [ht] at hr; injection hr with hr; subst hr
      rcases hv with ⟨h0, hv⟩ | ⟨y, ys, h0, hj⟩
      · exact Or.inl ⟨h0, hv⟩
      · subst h0; exact Or.inr ⟨by simp, hj⟩
  | @importTop S b h r hb hst =>
    intro w hw
    rcases jpy_inv wf hw with ⟨hS, c, hc, _⟩ | ⟨b', st', hb', hst', hx', hj'⟩
    · exfalso
      obtain ⟨m, cp⟩ := S; simp only at hS; subst hS
      exact child_not_stmt wf hb (child_mem hc) hst (stmtNames_of_explicit (by simp [explicitNames]))
    · rw [hb] at hb'; injection hb' with hb'; subst hb'
      have := same_stmt wf hb hst hst' (stmtNames_of_explicit (by simp [explicitNames])) hx'
      subst this
      obtain ⟨r1, top, _, ht, hv⟩ := hj'
      intro r' rest root he hr
      injection he with e1 e2; subst e1; subst e2
      rw [ht] at hr; injection hr with hr; subst hr
      exact Or.inl ⟨rfl, hv⟩
  | @«from» S b lvl M n a T hb hst hT =>
    intro w hw
    rcases jpy_inv wf hw with ⟨hS, c, hc, _⟩ | ⟨b', st', hb', hst', hx', hj'⟩
    · exfalso
      obtain ⟨m, cp⟩ := S; simp only at hS; subst hS
      exact child_not_stmt wf hb (child_mem hc) hst (stmtNames_of_explicit (by simp [explicitNames]))
    · rw [hb] at hb'; injection hb' with hb'; subst hb'
      have := same_stmt wf hb hst hst' (stmtNames_of_explicit (by simp [explicitNames])) hx'
      subst this
      obtain ⟨_, t, ht, hj⟩ := hj'
      obtain ⟨T', hT', hm⟩ := target_spec ht
      have := abs_eq hT hT'; subst this
      obtain ⟨hlt, hp⟩ := modIdx_spec hm
      have := AbsDen.ext (canon_mod wf t hlt) (show Jpy proj (scopeOf (.mod t)) [n] w from hj)
      rw [hp] at this
      exact this.weak
  | @starChild S b lvl M T t x hb hst hT hu hok hx =>
    intro w hw
    have hm : x ∈ modNames proj (rankOf rank t + 1) t := by
      rw [modNames_succ]
      rcases hx with hx | ⟨st, hst', hd⟩
      · exact List.mem_append_left _ hx
      · exact List.mem_append_right _ (List.mem_flatMap.2 ⟨st, hst', stmtNames_of_explicit (defName_explicit hd)⟩)
    obtain ⟨ht', hlt, hxs⟩ := star_mem wf hb hst hT hu (Or.inr ⟨hok, hm⟩)
    rcases jpy_inv wf hw with ⟨hS, c, hc, _⟩ | ⟨b', st', hb', hst', hx', hj'⟩
    · exfalso
      obtain ⟨m, cp⟩ := S; simp only at hS; subst hS
      exact child_not_stmt wf hb (child_mem hc) hst hxs
    · rw [hb] at hb'; injection hb' with hb'; subst hb'
      have := same_stmt wf hb hst hst' hxs hx'
      subst this
      obtain ⟨_, t2, ht2, _, hj⟩ := hj'
      rw [ht'] at ht2; injection ht2 with ht2; subst ht2
      exact (AbsDen.ext (canon_mod wf t hlt) (show Jpy proj (scopeOf (.mod t)) [x] w from hj)).weak
  | @starAlias S b lvl M T t x tgt hb hst hT hu hok hj ih =>
    intro w hw
    have hlt0 : t < proj.length := by
      obtain ⟨t', ht', _⟩ := wf.targets hb hst (target proj S.1 lvl M) (by simp [stmtTargets])
      have := star_target hT hu ht'; subst this
      obtain ⟨T', _, hm'⟩ := target_spec ht'
      exact (modIdx_spec hm').1
    have hm : x ∈ modNames proj (rankOf rank t + 1) t := by
      obtain ⟨st', hst', hx'⟩ := jpd_names wf hj _ (siteBody_zero hlt0)
      rw [modNames_succ]
      exact List.mem_append_right _ (List.mem_flatMap.2 ⟨st', hst', hx'⟩)
    obtain ⟨ht', hlt, hxs⟩ := star_mem wf hb hst hT hu (Or.inr ⟨hok, hm⟩)
    rcases jpy_inv wf hw with ⟨hS, c, hc, _⟩ | ⟨b', st', hb', hst', hx', hj'⟩
    · exfalso
      obtain ⟨m, cp⟩ := S; simp only at hS; subst hS
      exact child_not_stmt wf hb (child_mem hc) hst hxs
    · rw [hb] at hb'; injection hb' with hb'; subst hb'
      have := same_stmt wf hb hst hst' hxs hx'
      subst this
      obtain ⟨_, t2, ht2, _, hj2⟩ := hj'
      rw [ht'] at ht2; injection ht2 with ht2; subst ht2
      exact ih hj2
  | @starNone S b lvl M T t x hb hst hT hu hx =>
    intro w hw
    intro r rest root he hr
    have h1 : x = r ∧ rest = [] := by injection he with e1 e2; exact ⟨e1, e2.symm⟩
    obtain ⟨rfl, rfl⟩ := h1
    exact Or.inl ⟨rfl, jpy_root wf hw x root rfl hr⟩

/-! ## a qualified name belongs to one site -/

theorem defSites_here {m : Nat} {pre : List Name} : ∀ {body : List Stmt} {st : Stmt} {n : Name},
    st ∈ body → st.defName = some n → (m, pre ++ [n]) ∈ defSites m pre body
  | [], _, _, h, _ => by cases h
  | x :: xs, st, n, h, hd => by
    simp only [defSites, List.mem_append]
    rcases List.mem_cons.1 h with rfl | h'
    · left; cases st <;> simp_all [Stmt.defName, defSitesStmt]
    · right; exact defSites_here h' hd

theorem defSites_class {m : Nat} {pre : List Name} {c : Name} {bs : List Path} {b1 : List Stmt} :
    ∀ {body : List Stmt}, Stmt.classDef c bs b1 ∈ body → ∀ {S}, S ∈ defSites m (pre ++ [c]) b1 → S ∈ defSites m pre body
  | [], h, _, _ => by cases h
  | x :: xs, h, S, hS => by
    simp only [defSites, List.mem_append]
    rcases List.mem_cons.1 h with rfl | h'
    · left; simp only [defSitesStmt, List.mem_cons]; exact Or.inr hS
    · right; exact defSites_class h' hS

theorem defSites_mem {m : Nat} : ∀ {cs pre : List Name} {body b : List Stmt} {st : Stmt} {n : Name},
    bodyAt body cs = some b → st ∈ b → st.defName = some n → (m, pre ++ cs ++ [n]) ∈ defSites m pre body
  | [], pre, body, b, st, n, hb, hst, hd => by
    simp only [bodyAt, Option.some.injEq] at hb; subst hb
    simpa using defSites_here hst hd
  | c :: cs, pre, body, b, st, n, hb, hst, hd => by
    simp only [bodyAt] at hb
    cases hf : findClass body c with
    | none => simp [hf] at hb
    | some b1 =>
      simp only [hf] at hb
      obtain ⟨bs, hm⟩ := findClass_mem hf
      have := defSites_mem (m := m) (pre := pre ++ [c]) hb hst hd
      have e : pre ++ [c] ++ cs ++ [n] = pre ++ c :: cs ++ [n] := by simp
      rw [e] at this
      exact defSites_class hm this

theorem static_mem_entities {proj : Project} {S : Site} (h : StaticSite proj S) : S ∈ entities proj := by
  obtain ⟨m, cp⟩ := S
  obtain ⟨hm, hcp⟩ := h
  simp only at hm hcp
  unfold entities
  rw [List.mem_flatMap]
  refine ⟨m, List.mem_range.2 hm, ?_⟩
  rcases hcp with hcp | ⟨cp', n, b, st, hcp, hb, hst, hd⟩
  · subst hcp; exact List.mem_cons_self ..
  · subst hcp
    refine List.mem_cons_of_mem _ ?_
    have := defSites_mem (m := m) (pre := []) (siteBody_bodyAt hb) hst hd
    simpa using this

theorem site_unique {proj : Project} {rank : List Nat} (wf : WFacts proj rank) {S S' : Site}
    (h : StaticSite proj S) (h' : StaticSite proj S') (hp : sitePath proj S = sitePath proj S') : S = S' :=
  nodup_map_inj wf.pathsNodup (static_mem_entities h) (static_mem_entities h') hp

/-! ## inversion of `Jpd` -/

/-- what statement `st` of scope `S` says about the alias entry for `x` -/
def StmtD (proj : Project) (S : Site) : Stmt → Name → Path → Prop
  | .importMod t (some a), x, tgt => x = a ∧ tgt = t
  | .importMod t none, x, tgt => (∃ r, t = x :: r) ∧ tgt = [x]
  | .importFrom lvl M n a, x, tgt => x = a.getD n ∧ ∃ T, pdAbsName proj S.1 lvl M = some T ∧ tgt = T ++ [n]
  | .importStar _ _, _, _ => True
  | _, _, _ => False

theorem jpd_inv {proj : Project} {rank : List Nat} (wf : WFacts proj rank) {S : Site} {x : Name} {tgt : Path}
    (h : Jpd proj S x tgt) :
    ∃ b st, siteBody proj S = some b ∧ st ∈ b ∧ x ∈ stmtNamesR proj rank S st ∧ StmtD proj S st x tgt := by
  induction h with
  | @importAs S b tgt x hb hst =>
    exact ⟨b, _, hb, hst, stmtNames_of_explicit (by simp [explicitNames]), rfl, rfl⟩
  | @importTop S b h r hb hst =>
    exact ⟨b, _, hb, hst, stmtNames_of_explicit (by simp [explicitNames]), ⟨r, rfl⟩, rfl⟩
  | @«from» S b lvl M n a T hb hst hT =>
    exact ⟨b, _, hb, hst, stmtNames_of_explicit (by simp [explicitNames]), rfl, T, hT, rfl⟩
  | @starChild S b lvl M T t x hb hst hT hu hok hx =>
    refine ⟨b, _, hb, hst, (star_mem wf hb hst hT hu (Or.inr ⟨hok, ?_⟩)).2.2, trivial⟩
    rw [modNames_succ]
    rcases hx with hx | ⟨st, hst', hd⟩
    · exact List.mem_append_left _ hx
    · exact List.mem_append_right _ (List.mem_flatMap.2 ⟨st, hst', stmtNames_of_explicit (defName_explicit hd)⟩)
  | @starAlias S b lvl M T t x tgt hb hst hT hu hok hj _ =>
    have hlt : t < proj.length := by
      obtain ⟨t', ht', _⟩ := wf.targets hb hst (target proj S.1 lvl M) (by simp [stmtTargets])
      have := star_target hT hu ht'; subst this
      obtain ⟨T', _, hm'⟩ := target_spec ht'
      exact (modIdx_spec hm').1
    obtain ⟨st', hst', hx'⟩ := jpd_names wf hj _ (siteBody_zero hlt)
    refine ⟨b, _, hb, hst, (star_mem wf hb hst hT hu (Or.inr ⟨hok, ?_⟩)).2.2, trivial⟩
    rw [modNames_succ]
    exact List.mem_append_right _ (List.mem_flatMap.2 ⟨st', hst', hx'⟩)
  | @starNone S b lvl M T t x hb hst hT hu hx =>
    exact ⟨b, _, hb, hst, (star_mem wf hb hst hT hu (Or.inl hx)).2.2, trivial⟩

end Imports
