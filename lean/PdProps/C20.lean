import PdModel.Config
/-!
# C20 — options mean the same on the command line and in a config file; quoted strings survive

Theorems over `PdModel/Config.lean` (model of `pydoctor/_configparser.py`, of configargparse's merge of
config-file items into the argument vector, and of the CPython pieces they call).

Quoting (`quote1 q s` = one-line Python literal, `quote3 q s` = triple-quoted literal, `q ∈ {", '}`):
* `quote_roundtrip`          ∀ s : every character, both quote characters: recognised and read back (one-line form)
* `quote3_roundtrip`         the same for the triple forms, full strength since commit 65e15f6 (empty string included)
* `quote_roundtrip_rawnul`, `quote3_roundtrip_rawnul`  the same with NUL left raw (since commit cada0b1)
* historical: `quote3_roundtrip_old_partial`, `quote3_empty_old_counterexample`, `raw_nul_old_counterexample` (`isQuotedOld`/`unquoteStrOld`)
* `unquoted_passthrough`, `not_quoted_of_head`
INI path (`iniValue splitMl raw`; since /repo commit d27392d the parser is built with `interpolation=None`):
* `ini_quote_roundtrip`           full strength: every string, `%` included (one-line forms)
* `ini_quote3_roundtrip`, `ini_quote_roundtrip_rawnul`  full strength
* `ini_list_roundtrip`            full strength: `key = ["a", "b", …]`
* historical (`iniValueOld basicInterp`, the code before d27392d): `ini_quote_roundtrip_old_partial` (needed "no `%`"),
  `ini_quote_roundtrip_old_counterexample`, `ini_percent_percent_old_counterexample`,
  `ini_list_roundtrip_old_partial`, `ini_list_roundtrip_old_counterexample`, `iniValue_eq_old`
Merge (any option table):
* `cli_overrides_file`, `append_in_order`, `append_cli_in_order`, `unknown_key_filtered`,
  `unknown_key_not_applied`, `file_eq_cli`, `file_eq_cli_flag`, `file_eq_cli_count`, `later_file_wins`
Lists: `evalList_listLit` (`literal_eval` on a list display of quoted strings)
-/
namespace Config

/-! ## Escapes -/

def IsQ (q : Char) : Prop := q = '"' ∨ q = '\''

theorem escChar_spec (q c : Char) (hq : IsQ q) :
    (escChar q c = [c] ∧ c ≠ '\\' ∧ c ≠ q ∧ c ≠ '\r' ∧ c ≠ Char.ofNat 0) ∨
    (escChar q c = ['\\', '\\'] ∧ c = '\\') ∨
    (escChar q c = ['\\', q] ∧ c = q) ∨
    (escChar q c = ['\\', 'r'] ∧ c = '\r') ∨
    (escChar q c = ['\\', 'x', '0', '0'] ∧ c = Char.ofNat 0) := by
  unfold escChar
  rcases hq with rfl | rfl <;>
  by_cases h2 : c = '\\' <;> by_cases h3 : c = '"' <;> by_cases h3' : c = '\'' <;> by_cases h4 : c = '\r' <;>
    by_cases h5 : c = Char.ofNat 0 <;> simp_all

theorem esc1_spec (q c : Char) (hq : IsQ q) :
    (esc1 q c = [c] ∧ c ≠ '\\' ∧ c ≠ q ∧ c ≠ '\n' ∧ c ≠ '\r' ∧ c ≠ Char.ofNat 0) ∨
    (esc1 q c = ['\\', '\\'] ∧ c = '\\') ∨
    (esc1 q c = ['\\', q] ∧ c = q) ∨
    (esc1 q c = ['\\', 'n'] ∧ c = '\n') ∨
    (esc1 q c = ['\\', 'r'] ∧ c = '\r') ∨
    (esc1 q c = ['\\', 'x', '0', '0'] ∧ c = Char.ofNat 0) := by
  unfold esc1 escChar
  rcases hq with rfl | rfl <;>
  by_cases h1 : c = '\n' <;> by_cases h2 : c = '\\' <;> by_cases h3 : c = '"' <;> by_cases h3' : c = '\'' <;>
    by_cases h4 : c = '\r' <;> by_cases h5 : c = Char.ofNat 0 <;> simp_all

/-! ## The one-line recogniser accepts `quote1` -/

theorem singleBody_plain (q c : Char) (rest : Str) (h1 : c ≠ '\\') (h2 : c ≠ q) :
    singleBody q (c :: rest) = singleBody q rest := by
  rw [singleBody.eq_def]; simp [h1, h2]

theorem singleBody_pair (q d : Char) (rest : Str) (h : d ≠ '\n') :
    singleBody q ('\\' :: d :: rest) = singleBody q rest := by
  rw [singleBody.eq_def]; simp [h]

theorem singleBody_quote (q : Char) (hq : IsQ q) (s : Str) :
    singleBody q (s.flatMap (esc1 q) ++ [q]) = true := by
  induction s with
  | nil => rcases hq with rfl | rfl <;> simp [singleBody]
  | cons c s ih =>
    simp only [List.flatMap_cons, List.append_assoc]
    rcases esc1_spec q c hq with ⟨h, h1, h2, -, -, -⟩ | ⟨h, rfl⟩ | ⟨h, rfl⟩ | ⟨h, rfl⟩ | ⟨h, rfl⟩ | ⟨h, rfl⟩
    · rw [h]; simpa [singleBody_plain q c _ h1 h2] using ih
    all_goals (rw [h]; rcases hq with rfl | rfl <;>
      simp [singleBody_pair, singleBody_plain, ih])

theorem matchSingle_quote1 (q : Char) (hq : IsQ q) (s : Str) : matchSingle q (quote1 q s) = true := by
  simp [quote1, matchSingle, singleBody_quote q hq s]

theorem isQuoted_quote1 (q : Char) (hq : IsQ q) (s : Str) (triple : Bool) :
    isQuoted triple (quote1 q s) = true := by
  rcases hq with rfl | rfl
  · simp [isQuoted, matchSingle_quote1 '"' (Or.inl rfl)]
  · simp [isQuoted, matchSingle_quote1 '\'' (Or.inr rfl)]

/-! ## The tokenizer reads `quote1` back -/

theorem scanSingle_plain (q c : Char) (rest : Str) (h1 : c ≠ '\\') (h2 : c ≠ q) (h3 : c ≠ '\n') :
    scanSingle q (c :: rest) = (scanSingle q rest).map fun p => (c :: p.1, p.2) := by
  rw [scanSingle.eq_def]; simp [h1, h2, h3]

theorem scanSingle_pair (q d : Char) (rest : Str) :
    scanSingle q ('\\' :: d :: rest) = (scanSingle q rest).map fun p => ('\\' :: d :: p.1, p.2) := by
  rw [scanSingle.eq_def]; simp

theorem scanSingle_quote (q : Char) (hq : IsQ q) (s tail : Str) :
    scanSingle q (s.flatMap (esc1 q) ++ q :: tail) = some (s.flatMap (esc1 q), tail) := by
  induction s with
  | nil => rcases hq with rfl | rfl <;> (rw [scanSingle.eq_def]; simp)
  | cons c s ih =>
    simp only [List.flatMap_cons, List.append_assoc]
    rcases esc1_spec q c hq with ⟨h, h1, h2, h3, -, -⟩ | ⟨h, rfl⟩ | ⟨h, rfl⟩ | ⟨h, rfl⟩ | ⟨h, rfl⟩ | ⟨h, rfl⟩
    · rw [h]; simp [scanSingle_plain q c _ h1 h2 h3, ih]
    all_goals (rw [h]; rcases hq with rfl | rfl <;>
      simp [scanSingle_pair, scanSingle_plain, ih])

/-- every escape unit decodes to the character it stands for -/
theorem decodeEsc_esc1 (q c : Char) (hq : IsQ q) (rest : Str) :
    decodeEsc (esc1 q c ++ rest) = (decodeEsc rest).cons c := by
  rcases esc1_spec q c hq with ⟨h, h1, -, -, -, -⟩ | ⟨h, rfl⟩ | ⟨h, rfl⟩ | ⟨h, rfl⟩ | ⟨h, rfl⟩ | ⟨h, rfl⟩
  · rw [h, List.singleton_append, decodeEsc.eq_def]; simp [h1]
  all_goals (rw [h]; rcases hq with rfl | rfl <;> (rw [decodeEsc.eq_def]; simp [hexVal]))

theorem decodeEsc_escChar (q c : Char) (hq : IsQ q) (rest : Str) :
    decodeEsc (escChar q c ++ rest) = (decodeEsc rest).cons c := by
  rcases escChar_spec q c hq with ⟨h, h1, -, -, -⟩ | ⟨h, rfl⟩ | ⟨h, rfl⟩ | ⟨h, rfl⟩ | ⟨h, rfl⟩
  · rw [h, List.singleton_append, decodeEsc.eq_def]; simp [h1]
  all_goals (rw [h]; rcases hq with rfl | rfl <;> (rw [decodeEsc.eq_def]; simp [hexVal]))

theorem decodeEsc_flatMap (f : Char → Str)
    (hf : ∀ c rest, decodeEsc (f c ++ rest) = (decodeEsc rest).cons c) (s : Str) :
    decodeEsc (s.flatMap f) = .ok s := by
  induction s with
  | nil => simp [decodeEsc]
  | cons c s ih =>
    simp only [List.flatMap_cons]
    rw [hf, ih]; rfl

/-! ## Nothing in a quoted form upsets the tokenizer's line handling -/

theorem translateNewlines_id (l : Str) (h : '\r' ∉ l) : translateNewlines l = l := by
  induction l with
  | nil => rfl
  | cons c l ih =>
    have hc : c ≠ '\r' := fun e => h (by simp [e])
    have hl : '\r' ∉ l := fun e => h (by simp [e])
    rw [translateNewlines.eq_def]; simp [hc, ih hl]

theorem mem_esc1 (q c x : Char) (hq : IsQ q) (hx : x ∈ esc1 q c) : x ≠ '\r' ∧ x ≠ Char.ofNat 0 := by
  rcases esc1_spec q c hq with ⟨h, -, -, -, h4, h5⟩ | ⟨h, rfl⟩ | ⟨h, rfl⟩ | ⟨h, rfl⟩ | ⟨h, rfl⟩ | ⟨h, rfl⟩
  · rw [h] at hx; simp at hx; subst hx; exact ⟨h4, h5⟩
  all_goals (rw [h] at hx; rcases hq with rfl | rfl <;> simp at hx <;>
    (rcases hx with rfl | rfl | rfl | rfl <;> decide))

theorem mem_escChar (q c x : Char) (hq : IsQ q) (hx : x ∈ escChar q c) : x ≠ '\r' ∧ x ≠ Char.ofNat 0 := by
  rcases escChar_spec q c hq with ⟨h, -, -, h4, h5⟩ | ⟨h, rfl⟩ | ⟨h, rfl⟩ | ⟨h, rfl⟩ | ⟨h, rfl⟩
  · rw [h] at hx; simp at hx; subst hx; exact ⟨h4, h5⟩
  all_goals (rw [h] at hx; rcases hq with rfl | rfl <;> simp at hx <;>
    (rcases hx with rfl | rfl | rfl | rfl <;> decide))

theorem mem_quote1 (q : Char) (hq : IsQ q) (s : Str) (x : Char) (hx : x ∈ quote1 q s) :
    x ≠ '\r' ∧ x ≠ Char.ofNat 0 := by
  simp only [quote1, List.mem_cons, List.mem_append, List.mem_flatMap, List.mem_nil_iff, or_false] at hx
  rcases hx with rfl | ⟨c, -, hc⟩ | rfl
  · rcases hq with rfl | rfl <;> decide
  · exact mem_esc1 q c x hq hc
  · rcases hq with rfl | rfl <;> decide

theorem mem_quote3 (q : Char) (hq : IsQ q) (s : Str) (x : Char) (hx : x ∈ quote3 q s) :
    x ≠ '\r' ∧ x ≠ Char.ofNat 0 := by
  simp only [quote3, List.mem_cons, List.mem_append, List.mem_flatMap, List.mem_nil_iff, or_false] at hx
  have hqq : q ≠ '\r' ∧ q ≠ Char.ofNat 0 := by rcases hq with rfl | rfl <;> decide
  rcases hx with rfl | rfl | rfl | ⟨c, -, hc⟩ | rfl | rfl | rfl
  any_goals exact hqq
  exact mem_escChar q c x hq hc

/-- the first character of an escaped body is never the quote character -/
theorem head_flatMap_esc1 (q : Char) (hq : IsQ q) (s : Str) : (s.flatMap (esc1 q)).head? ≠ some q := by
  cases s with
  | nil => simp
  | cons c s =>
    simp only [List.flatMap_cons]
    rcases esc1_spec q c hq with ⟨h, -, h2, -, -, -⟩ | ⟨h, rfl⟩ | ⟨h, rfl⟩ | ⟨h, rfl⟩ | ⟨h, rfl⟩ | ⟨h, rfl⟩
    · rw [h]; simp; exact h2
    all_goals (rw [h]; rcases hq with rfl | rfl <;> simp)

theorem scanLiteral_quote1 (q : Char) (hq : IsQ q) (s : Str) :
    scanLiteral (quote1 q s) = some (s.flatMap (esc1 q), []) := by
  have hqc : isQuoteChar q = true := by rcases hq with rfl | rfl <;> decide
  have hscan := scanSingle_quote q hq s []
  have hhead := head_flatMap_esc1 q hq s
  unfold quote1
  rw [scanLiteral.eq_def]
  simp only [hqc, if_true]
  generalize hb : s.flatMap (esc1 q) = body at *
  cases body with
  | nil => simpa using hscan
  | cons b bs =>
    have hb' : b ≠ q := by simpa using hhead
    cases bs with
    | nil => simpa [hb'] using hscan
    | cons b2 bs2 => simpa [hb'] using hscan

theorem evalConcat_single (fuel : Nat) (t body s : Str)
    (h1 : scanLiteral t = some (body, [])) (h2 : decodeEsc body = .ok s) :
    evalConcat (fuel + 1) t = .ok s := by
  simp [evalConcat, h1, h2]

theorem pyEval_of_scan (t body s : Str) (q : Char) (rest : Str) (hq : IsQ q) (ht : t = q :: rest)
    (hmem : ∀ x ∈ t, x ≠ '\r' ∧ x ≠ Char.ofNat 0)
    (h1 : scanLiteral t = some (body, [])) (h2 : decodeEsc body = .ok s) :
    pyEval t = .ok s := by
  have hdrop : t.dropWhile (fun c => c = ' ' || c = '\t') = t := by
    subst ht; rcases hq with rfl | rfl <;> simp [List.dropWhile]
  have hcr : '\r' ∉ t := fun h => (hmem _ h).1 rfl
  have hnul : t.contains (Char.ofNat 0) = false := by
    simp only [List.contains_eq_mem, decide_eq_false_iff_not]
    exact fun h => (hmem _ h).2 rfl
  unfold pyEval
  simp only [hdrop, translateNewlines_id t hcr, hnul]
  exact evalConcat_single _ _ _ _ h1 h2

theorem pyEval_quote1 (q : Char) (hq : IsQ q) (s : Str) : pyEval (quote1 q s) = .ok s :=
  pyEval_of_scan (quote1 q s) _ s q _ hq rfl (mem_quote1 q hq s) (scanLiteral_quote1 q hq s)
    (decodeEsc_flatMap (esc1 q) (decodeEsc_esc1 q · hq) s)

theorem nulEscape_id (l : Str) (h : Char.ofNat 0 ∉ l) : nulEscape l = l := by
  induction l with
  | nil => rfl
  | cons c l ih =>
    have hc : c ≠ Char.ofNat 0 := fun e => h (by simp [e])
    have hl : Char.ofNat 0 ∉ l := fun e => h (by simp [e])
    have := ih hl
    simp only [nulEscape, List.flatMap_cons] at this ⊢
    simp [hc, this]

theorem nulEscape_quote1 (q : Char) (hq : IsQ q) (s : Str) : nulEscape (quote1 q s) = quote1 q s :=
  nulEscape_id _ (fun h => (mem_quote1 q hq s _ h).2 rfl)

/-- **Config.quote_roundtrip** (full strength: every string, both quote characters): the one-line quoted
form is recognised by `is_quoted` (with and without `triple`) and `unquote_str` returns the text. -/
theorem quote_roundtrip (q : Char) (hq : IsQ q) (s : Str) (triple : Bool) :
    isQuoted triple (quote1 q s) = true ∧ unquoteStr triple (quote1 q s) = .ok s := by
  refine ⟨isQuoted_quote1 q hq s triple, ?_⟩
  simp [unquoteStr, isQuoted_quote1 q hq s triple, nulEscape_quote1 q hq s, pyEval_quote1 q hq s]

example : quote1 '"' "a\"b\\c\nd%'".toList = "\"a\\\"b\\\\c\\nd%'\"".toList := by decide +kernel
example : unquoteStr true (quote1 '\'' "it's 100% [x]; #=\t\r".toList) = .ok "it's 100% [x]; #=\t\r".toList := by decide +kernel

/-! ## Triple-quoted form -/

theorem hasTripleQ_cons_ne (q c : Char) (X : Str) (h : c ≠ q) : hasTripleQ q (c :: X) = hasTripleQ q X := by
  rw [hasTripleQ.eq_def]; simp [h]

theorem hasTripleQ_q_cons (q : Char) (X : Str) (h : X.head? ≠ some q) :
    hasTripleQ q (q :: X) = hasTripleQ q X := by
  rw [hasTripleQ.eq_def]
  cases X with
  | nil => simp
  | cons b r =>
    have hb : b ≠ q := by simpa using h
    cases r <;> simp [hb]

theorem head_flatMap_escChar (q : Char) (hq : IsQ q) (s t : Str) (ht : t.head? ≠ some q) :
    (s.flatMap (escChar q) ++ t).head? ≠ some q := by
  cases s with
  | nil => simpa using ht
  | cons c s =>
    simp only [List.flatMap_cons, List.append_assoc]
    rcases escChar_spec q c hq with ⟨h, -, h2, -, -⟩ | ⟨h, rfl⟩ | ⟨h, rfl⟩ | ⟨h, rfl⟩ | ⟨h, rfl⟩
    · rw [h]; simp; exact h2
    all_goals (rw [h]; rcases hq with rfl | rfl <;> simp)

/-- an escaped body never contains three quote characters in a row, whatever quote-free text follows -/
theorem hasTripleQ_flatMap (q : Char) (hq : IsQ q) (s t : Str) (ht : ∀ x ∈ t, x ≠ q) :
    hasTripleQ q (s.flatMap (escChar q) ++ t) = false := by
  have hbs : ('\\' : Char) ≠ q := by rcases hq with rfl | rfl <;> decide
  induction s with
  | nil =>
    simp only [List.flatMap_nil, List.nil_append]
    induction t with
    | nil => rfl
    | cons x t iht =>
      rw [hasTripleQ_cons_ne q x t (ht x (by simp))]
      exact iht (fun y hy => ht y (by simp [hy]))
  | cons c s ih =>
    have hhead : (s.flatMap (escChar q) ++ t).head? ≠ some q :=
      head_flatMap_escChar q hq s t (by
        cases t with
        | nil => simp
        | cons x t => simpa using ht x (by simp))
    simp only [List.flatMap_cons, List.append_assoc]
    rcases escChar_spec q c hq with ⟨h, -, h2, -, -⟩ | ⟨h, rfl⟩ | ⟨h, -⟩ | ⟨h, rfl⟩ | ⟨h, rfl⟩
    · rw [h]; simp only [List.cons_append, List.nil_append]
      rw [hasTripleQ_cons_ne q c _ h2]; exact ih
    · rw [h]; simp only [List.cons_append, List.nil_append]
      rw [hasTripleQ_cons_ne q _ _ hbs, hasTripleQ_cons_ne q _ _ hbs]; exact ih
    · rw [h]; simp only [List.cons_append, List.nil_append]
      rw [hasTripleQ_cons_ne q _ _ hbs, hasTripleQ_q_cons q _ hhead]; exact ih
    · rw [h]; simp only [List.cons_append, List.nil_append]
      rw [hasTripleQ_cons_ne q _ _ hbs, hasTripleQ_cons_ne q 'r' _ (by rcases hq with rfl | rfl <;> decide)]
      exact ih
    · rw [h]; simp only [List.cons_append, List.nil_append]
      have h0 : ('0' : Char) ≠ q := by rcases hq with rfl | rfl <;> decide
      have hx : ('x' : Char) ≠ q := by rcases hq with rfl | rfl <;> decide
      rw [hasTripleQ_cons_ne q _ _ hbs, hasTripleQ_cons_ne q _ _ hx, hasTripleQ_cons_ne q _ _ h0,
        hasTripleQ_cons_ne q _ _ h0]
      exact ih

theorem tripleInner_flatMap (q : Char) (hq : IsQ q) (s : Str) (hs : s ≠ []) :
    tripleInner q (s.flatMap (escChar q)) = true := by
  obtain ⟨s', c, rfl⟩ : ∃ s' c, s = s' ++ [c] := ⟨s.dropLast, s.getLast hs, (List.dropLast_concat_getLast hs).symm⟩
  have hbs : ('\\' : Char) ≠ q := by rcases hq with rfl | rfl <;> decide
  have h0 := hasTripleQ_flatMap q hq s' [] (by simp)
  simp only [List.append_nil] at h0
  simp only [List.flatMap_append, List.flatMap_cons, List.flatMap_nil, List.append_nil]
  unfold tripleInner
  rcases escChar_spec q c hq with ⟨h, h1, h2, -, -⟩ | ⟨h, rfl⟩ | ⟨h, rfl⟩ | ⟨h, rfl⟩ | ⟨h, rfl⟩
  · rw [h]; simp [h1, h2, h0]
  · rw [h]; simp [h0]
  · rw [h]; simp [h0]
  · rw [h]; simp [h0]
  · rw [h]
    have h1 := hasTripleQ_flatMap q hq s' ['\\', 'x', '0'] (by
      intro x hx; simp at hx; rcases hq with rfl | rfl <;> rcases hx with rfl | rfl | rfl <;> decide)
    have h0q : ('0' : Char) ≠ q := by rcases hq with rfl | rfl <;> decide
    simp [h1, h0q]

theorem stripTriple_quote3 (q : Char) (s : Str) : stripTriple q (quote3 q s) = some (s.flatMap (escChar q)) := by
  simp [quote3, stripTriple]

theorem dropFinalNl_quote3 (q : Char) (hq : IsQ q) (s : Str) : dropFinalNl (quote3 q s) = quote3 q s := by
  have hq' : q ≠ '\n' := by rcases hq with rfl | rfl <;> decide
  unfold dropFinalNl quote3
  simp only [List.reverse_cons, List.reverse_append, List.reverse_nil, List.nil_append, List.cons_append,
    List.append_assoc]
  split
  · next r heq => simp at heq; exact absurd heq.1 hq'
  · rfl

theorem matchTriple_quote3 (q : Char) (hq : IsQ q) (s : Str) (hs : s ≠ []) :
    matchTriple q (quote3 q s) = true := by
  simp [matchTriple, dropFinalNl_quote3 q hq s, stripTriple_quote3, tripleInner_flatMap q hq s hs]

theorem isQuoted_quote3 (q : Char) (hq : IsQ q) (s : Str) (hs : s ≠ []) : isQuoted true (quote3 q s) = true := by
  rcases hq with rfl | rfl
  · simp [isQuoted, matchTriple_quote3 '"' (Or.inl rfl) s hs]
  · simp [isQuoted, matchTriple_quote3 '\'' (Or.inr rfl) s hs]

theorem scanTriple_plain (q c : Char) (rest : Str) (h1 : c ≠ '\\') (h2 : c ≠ q) :
    scanTriple q (c :: rest) = (scanTriple q rest).map fun p => (c :: p.1, p.2) := by
  rw [scanTriple.eq_def]; simp [h1, h2]

theorem scanTriple_pair (q d : Char) (rest : Str) :
    scanTriple q ('\\' :: d :: rest) = (scanTriple q rest).map fun p => ('\\' :: d :: p.1, p.2) := by
  rw [scanTriple.eq_def]; simp

theorem scanTriple_quote (q : Char) (hq : IsQ q) (s tail : Str) :
    scanTriple q (s.flatMap (escChar q) ++ q :: q :: q :: tail) = some (s.flatMap (escChar q), tail) := by
  induction s with
  | nil => rcases hq with rfl | rfl <;> (rw [scanTriple.eq_def]; simp)
  | cons c s ih =>
    simp only [List.flatMap_cons, List.append_assoc]
    rcases escChar_spec q c hq with ⟨h, h1, h2, -, -⟩ | ⟨h, rfl⟩ | ⟨h, rfl⟩ | ⟨h, rfl⟩ | ⟨h, rfl⟩
    · rw [h]; simp [scanTriple_plain q c _ h1 h2, ih]
    all_goals (rw [h]; rcases hq with rfl | rfl <;>
      simp [scanTriple_pair, scanTriple_plain, ih])

theorem scanLiteral_quote3 (q : Char) (hq : IsQ q) (s : Str) :
    scanLiteral (quote3 q s) = some (s.flatMap (escChar q), []) := by
  have hqc : isQuoteChar q = true := by rcases hq with rfl | rfl <;> decide
  unfold quote3
  rw [scanLiteral.eq_def]
  simp [hqc, scanTriple_quote q hq s []]

theorem pyEval_quote3 (q : Char) (hq : IsQ q) (s : Str) : pyEval (quote3 q s) = .ok s :=
  pyEval_of_scan (quote3 q s) _ s q _ hq rfl (mem_quote3 q hq s) (scanLiteral_quote3 q hq s)
    (decodeEsc_flatMap (escChar q) (decodeEsc_escChar q · hq) s)

theorem isQuoted_quote3_all (q : Char) (hq : IsQ q) (s : Str) : isQuoted true (quote3 q s) = true := by
  by_cases hs : s = []
  · subst hs; rcases hq with rfl | rfl <;> decide +kernel
  · exact isQuoted_quote3 q hq s hs

theorem nulEscape_quote3 (q : Char) (hq : IsQ q) (s : Str) : nulEscape (quote3 q s) = quote3 q s :=
  nulEscape_id _ (fun h => (mem_quote3 q hq s _ h).2 rfl)

/-- **Config.quote_roundtrip**, triple forms (full strength since /repo commit 65e15f6: the empty string written
with six quote characters is recognised too): every string, both quote characters. -/
theorem quote3_roundtrip (q : Char) (hq : IsQ q) (s : Str) :
    isQuoted true (quote3 q s) = true ∧ unquoteStr true (quote3 q s) = .ok s := by
  refine ⟨isQuoted_quote3_all q hq s, ?_⟩
  simp [unquoteStr, isQuoted_quote3_all q hq s, nulEscape_quote3 q hq s, pyEval_quote3 q hq s]

/-- HISTORICAL (code before 65e15f6, `isQuotedOld`/`unquoteStrOld`): the triple form needed `s ≠ []` -/
theorem quote3_roundtrip_old_partial (q : Char) (hq : IsQ q) (s : Str) (hs : s ≠ []) :
    isQuotedOld true (quote3 q s) = true ∧ unquoteStrOld true (quote3 q s) = .ok s := by
  have h : isQuotedOld true (quote3 q s) = true := by
    rcases hq with rfl | rfl
    · simp [isQuotedOld, matchTriple_quote3 '"' (Or.inl rfl) s hs]
    · simp [isQuotedOld, matchTriple_quote3 '\'' (Or.inr rfl) s hs]
  exact ⟨h, by simp [unquoteStrOld, h, pyEval_quote3 q hq s]⟩

/-- HISTORICAL counterexample (fixed by 65e15f6): the empty string written with six quote characters was not
recognised and came back with its six quotes; today it is read as the empty string -/
theorem quote3_empty_old_counterexample :
    isQuotedOld true (quote3 '"' []) = false ∧
    unquoteStrOld true (quote3 '"' []) = .ok ['"', '"', '"', '"', '"', '"'] ∧
    isQuotedOld true (quote3 '\'' []) = false ∧
    unquoteStr true (quote3 '"' []) = .ok [] ∧ unquoteStr true (quote3 '\'' []) = .ok [] := by decide +kernel

/-- Python itself evaluates it to the empty string: the loss was in the recogniser only -/
theorem quote3_empty_python : pyEval (quote3 '"' []) = .ok [] ∧ pyEval (quote3 '\'' []) = .ok [] := by
  decide +kernel

/-- with `triple=False` the six quotes are not a quoted string (the one-line regex does not match them) -/
example : isQuoted false (quote3 '"' []) = false := by decide +kernel

/-- without `triple`, a triple-quoted text is never evaluated -/
example : isQuoted false (quote3 '"' "ab".toList) = false := by decide +kernel
example : unquoteStr true (quote3 '"' "a\nb \"\"\" c\\".toList) = .ok "a\nb \"\"\" c\\".toList := by
  decide +kernel

/-- **Config.unquoted_passthrough**: a text that is not recognised as quoted is returned unchanged -/
theorem unquoted_passthrough (triple : Bool) (text : Str) (h : isQuoted triple text = false) :
    unquoteStr triple text = .ok text := by
  simp [unquoteStr, h]

theorem matchSingle_head (q c : Char) (rest : Str) (h : c ≠ q) : matchSingle q (c :: rest) = false := by
  simp [matchSingle, h]

theorem dropFinalNl_head (c : Char) (rest : Str) :
    dropFinalNl (c :: rest) = [] ∨ ∃ r, dropFinalNl (c :: rest) = c :: r := by
  unfold dropFinalNl
  split
  · next r heq =>
    have h3 : c :: rest = r.reverse ++ ['\n'] := by
      have := congrArg List.reverse heq; simpa using this
    cases hr : r.reverse with
    | nil => left; rfl
    | cons x xs =>
      right
      rw [hr] at h3
      simp only [List.cons_append, List.cons.injEq] at h3
      exact ⟨xs, by rw [h3.1]⟩
  · exact Or.inr ⟨rest, rfl⟩

theorem matchTriple_head (q c : Char) (rest : Str) (h : c ≠ q) : matchTriple q (c :: rest) = false := by
  unfold matchTriple
  rcases dropFinalNl_head c rest with h0 | ⟨r, hr⟩
  · rw [h0]; rfl
  · rw [hr]
    match r with
    | [] => rfl
    | [_] => rfl
    | _ :: _ :: _ => simp [stripTriple, h]

/-- a text that does not start with a quote character is never "quoted" -/
theorem not_quoted_of_head (triple : Bool) (text : Str) (h : ∀ c, text.head? = some c → isQuoteChar c = false) :
    isQuoted triple text = false := by
  cases text with
  | nil => cases triple <;> decide +kernel
  | cons c rest =>
    have hc := h c rfl
    have h1 : c ≠ '"' := fun e => by simp [e, isQuoteChar] at hc
    have h2 : c ≠ '\'' := fun e => by simp [e, isQuoteChar] at hc
    have he : isEmptyTriple (c :: rest) = false := by
      simp [isEmptyTriple, h1, h2]
    simp [isQuoted, he, matchSingle_head _ c rest h1, matchSingle_head _ c rest h2,
      matchTriple_head _ c rest h1, matchTriple_head _ c rest h2]

example : unquoteStr true "plain text".toList = .ok "plain text".toList := by decide +kernel
-- the closing quote is escaped: not a quoted string, returned as is
example : unquoteStr true ['"', 'a', '\\', '"'] = .ok ['"', 'a', '\\', '"'] := by decide +kernel
-- recognised by the regex, refused by Python (raw newline in a one-line literal): the documented ValueError
example : isQuoted true ['"', 'a', '\n', 'b', '"'] = true ∧ unquoteStr true ['"', 'a', '\n', 'b', '"'] = .valueError := by
  decide +kernel

/-! ## A NUL character left raw between the quotes (readable since /repo commit cada0b1)

`unquote_str` now evaluates `text.replace('\x00', '\\x00')`.  The recogniser side is proved for any escaping
function whose outputs are "units" of the quoted body; `esc1R`/`escCharR` (NUL raw) are such functions, and
replacing the NUL turns `quote1R`/`quote3R` into `quote1`/`quote3`, which Python evaluates to the string. -/

def IsUnit (q : Char) (u : Str) : Prop :=
  (∃ c, u = [c] ∧ c ≠ '\\' ∧ c ≠ q) ∨ (∃ d, u = ['\\', d] ∧ d ≠ '\n') ∨ u = ['\\', 'x', '0', '0']

theorem isUnit_esc1 (q c : Char) (hq : IsQ q) : IsUnit q (esc1 q c) := by
  rcases esc1_spec q c hq with ⟨h, h1, h2, -⟩ | ⟨h, -⟩ | ⟨h, -⟩ | ⟨h, -⟩ | ⟨h, -⟩ | ⟨h, -⟩
  · exact Or.inl ⟨c, h, h1, h2⟩
  · exact Or.inr (Or.inl ⟨_, h, by decide⟩)
  · exact Or.inr (Or.inl ⟨_, h, by rcases hq with rfl | rfl <;> decide⟩)
  · exact Or.inr (Or.inl ⟨_, h, by decide⟩)
  · exact Or.inr (Or.inl ⟨_, h, by decide⟩)
  · exact Or.inr (Or.inr h)

theorem isUnit_escChar (q c : Char) (hq : IsQ q) : IsUnit q (escChar q c) := by
  rcases escChar_spec q c hq with ⟨h, h1, h2, -⟩ | ⟨h, -⟩ | ⟨h, -⟩ | ⟨h, -⟩ | ⟨h, -⟩
  · exact Or.inl ⟨c, h, h1, h2⟩
  · exact Or.inr (Or.inl ⟨_, h, by decide⟩)
  · exact Or.inr (Or.inl ⟨_, h, by rcases hq with rfl | rfl <;> decide⟩)
  · exact Or.inr (Or.inl ⟨_, h, by decide⟩)
  · exact Or.inr (Or.inr h)

theorem nul_plain (q : Char) (hq : IsQ q) : IsUnit q [Char.ofNat 0] :=
  Or.inl ⟨_, rfl, by decide, by rcases hq with rfl | rfl <;> decide⟩

theorem isUnit_esc1R (q c : Char) (hq : IsQ q) : IsUnit q (esc1R q c) := by
  unfold esc1R; split
  · next h => subst h; exact nul_plain q hq
  · exact isUnit_esc1 q c hq

theorem isUnit_escCharR (q c : Char) (hq : IsQ q) : IsUnit q (escCharR q c) := by
  unfold escCharR; split
  · next h => subst h; exact nul_plain q hq
  · exact isUnit_escChar q c hq

theorem singleBody_units (q : Char) (hq : IsQ q) (f : Char → Str) (hf : ∀ c, IsUnit q (f c)) (s : Str) :
    singleBody q (s.flatMap f ++ [q]) = true := by
  have h0q : ('0' : Char) ≠ q := by rcases hq with rfl | rfl <;> decide
  induction s with
  | nil => rcases hq with rfl | rfl <;> simp [singleBody]
  | cons c s ih =>
    simp only [List.flatMap_cons, List.append_assoc]
    rcases hf c with ⟨x, h, h1, h2⟩ | ⟨d, h, hd⟩ | h
    · rw [h]; simpa [singleBody_plain q x _ h1 h2] using ih
    · rw [h]; simpa [singleBody_pair q d _ hd] using ih
    · rw [h]
      simp only [List.cons_append, List.nil_append]
      rw [singleBody_pair q 'x' _ (by decide), singleBody_plain q '0' _ (by decide) h0q,
        singleBody_plain q '0' _ (by decide) h0q]
      exact ih

theorem head_units (q : Char) (hq : IsQ q) (f : Char → Str) (hf : ∀ c, IsUnit q (f c)) (s t : Str)
    (ht : t.head? ≠ some q) : (s.flatMap f ++ t).head? ≠ some q := by
  have hbs : ('\\' : Char) ≠ q := by rcases hq with rfl | rfl <;> decide
  cases s with
  | nil => simpa using ht
  | cons c s =>
    simp only [List.flatMap_cons, List.append_assoc]
    rcases hf c with ⟨x, h, -, h2⟩ | ⟨d, h, -⟩ | h
    · rw [h]; simp; exact h2
    · rw [h]; simp; exact hbs
    · rw [h]; simp; exact hbs

theorem hasTripleQ_units (q : Char) (hq : IsQ q) (f : Char → Str) (hf : ∀ c, IsUnit q (f c)) (s t : Str)
    (ht : ∀ x ∈ t, x ≠ q) : hasTripleQ q (s.flatMap f ++ t) = false := by
  have hbs : ('\\' : Char) ≠ q := by rcases hq with rfl | rfl <;> decide
  have h0 : ('0' : Char) ≠ q := by rcases hq with rfl | rfl <;> decide
  have hx : ('x' : Char) ≠ q := by rcases hq with rfl | rfl <;> decide
  induction s with
  | nil =>
    simp only [List.flatMap_nil, List.nil_append]
    induction t with
    | nil => rfl
    | cons x t iht =>
      rw [hasTripleQ_cons_ne q x t (ht x (by simp))]
      exact iht (fun y hy => ht y (by simp [hy]))
  | cons c s ih =>
    have hhead : (s.flatMap f ++ t).head? ≠ some q :=
      head_units q hq f hf s t (by
        cases t with
        | nil => simp
        | cons x t => simpa using ht x (by simp))
    simp only [List.flatMap_cons, List.append_assoc]
    rcases hf c with ⟨x, h, -, h2⟩ | ⟨d, h, -⟩ | h
    · rw [h]; simp only [List.cons_append, List.nil_append]
      rw [hasTripleQ_cons_ne q x _ h2]; exact ih
    · rw [h]; simp only [List.cons_append, List.nil_append]
      rw [hasTripleQ_cons_ne q _ _ hbs]
      by_cases hd : d = q
      · rw [hd, hasTripleQ_q_cons q _ hhead]; exact ih
      · rw [hasTripleQ_cons_ne q d _ hd]; exact ih
    · rw [h]; simp only [List.cons_append, List.nil_append]
      rw [hasTripleQ_cons_ne q _ _ hbs, hasTripleQ_cons_ne q _ _ hx, hasTripleQ_cons_ne q _ _ h0,
        hasTripleQ_cons_ne q _ _ h0]
      exact ih

theorem tripleInner_units (q : Char) (hq : IsQ q) (f : Char → Str) (hf : ∀ c, IsUnit q (f c)) (s : Str)
    (hs : s ≠ []) : tripleInner q (s.flatMap f) = true := by
  obtain ⟨s', c, rfl⟩ : ∃ s' c, s = s' ++ [c] := ⟨s.dropLast, s.getLast hs, (List.dropLast_concat_getLast hs).symm⟩
  have h0 := hasTripleQ_units q hq f hf s' [] (by simp)
  simp only [List.append_nil] at h0
  simp only [List.flatMap_append, List.flatMap_cons, List.flatMap_nil, List.append_nil]
  unfold tripleInner
  rcases hf c with ⟨x, h, h1, h2⟩ | ⟨d, h, -⟩ | h
  · rw [h]; simp [h1, h2, h0]
  · rw [h]; simp [h0]
  · rw [h]
    have h1 := hasTripleQ_units q hq f hf s' ['\\', 'x', '0'] (by
      intro x hx; simp at hx; rcases hq with rfl | rfl <;> rcases hx with rfl | rfl | rfl <;> decide)
    have h0q : ('0' : Char) ≠ q := by rcases hq with rfl | rfl <;> decide
    simp [h1, h0q]

theorem matchTriple_wrap (q : Char) (hq : IsQ q) (body : Str) (h : tripleInner q body = true) :
    matchTriple q (q :: q :: q :: (body ++ [q, q, q])) = true := by
  have hq' : q ≠ '\n' := by rcases hq with rfl | rfl <;> decide
  have hd : dropFinalNl (q :: q :: q :: (body ++ [q, q, q])) = q :: q :: q :: (body ++ [q, q, q]) := by
    unfold dropFinalNl
    simp only [List.reverse_cons, List.reverse_append, List.reverse_nil, List.nil_append, List.cons_append,
      List.append_assoc]
    split
    · next r heq => simp at heq; exact absurd heq.1 hq'
    · rfl
  have hs : stripTriple q (q :: q :: q :: (body ++ [q, q, q])) = some body := by simp [stripTriple]
  simp [matchTriple, hd, hs, h]

theorem isQuoted_quote1R (q : Char) (hq : IsQ q) (s : Str) (triple : Bool) : isQuoted triple (quote1R q s) = true := by
  have h := singleBody_units q hq (esc1R q) (fun c => isUnit_esc1R q c hq) s
  rcases hq with rfl | rfl <;> simp [isQuoted, quote1R, matchSingle, h]

theorem isQuoted_quote3R (q : Char) (hq : IsQ q) (s : Str) : isQuoted true (quote3R q s) = true := by
  by_cases hs : s = []
  · subst hs; rcases hq with rfl | rfl <;> decide +kernel
  · have h := matchTriple_wrap q hq _ (tripleInner_units q hq (escCharR q) (fun c => isUnit_escCharR q c hq) s hs)
    rcases hq with rfl | rfl <;> simp [isQuoted, quote3R, h]

theorem nulEscape_append (a b : Str) : nulEscape (a ++ b) = nulEscape a ++ nulEscape b := by
  simp [nulEscape, List.flatMap_append]

theorem nulEscape_flatMap (f g : Char → Str) (hfg : ∀ c, nulEscape (f c) = g c) (s : Str) :
    nulEscape (s.flatMap f) = s.flatMap g := by
  induction s with
  | nil => rfl
  | cons c s ih => simp only [List.flatMap_cons, nulEscape_append, hfg, ih]

theorem nulEscape_esc1R (q c : Char) (hq : IsQ q) : nulEscape (esc1R q c) = esc1 q c := by
  unfold esc1R; split
  · next h => subst h; rcases hq with rfl | rfl <;> decide +kernel
  · exact nulEscape_id _ (fun h => (mem_esc1 q c _ hq h).2 rfl)

theorem nulEscape_escCharR (q c : Char) (hq : IsQ q) : nulEscape (escCharR q c) = escChar q c := by
  unfold escCharR; split
  · next h => subst h; rcases hq with rfl | rfl <;> decide +kernel
  · exact nulEscape_id _ (fun h => (mem_escChar q c _ hq h).2 rfl)

theorem nulEscape_quote1R (q : Char) (hq : IsQ q) (s : Str) : nulEscape (quote1R q s) = quote1 q s := by
  have hq0 : nulEscape [q] = [q] := by rcases hq with rfl | rfl <;> decide +kernel
  have h1 : quote1R q s = [q] ++ (s.flatMap (esc1R q) ++ [q]) := rfl
  rw [h1, nulEscape_append, nulEscape_append, hq0, nulEscape_flatMap _ _ (fun c => nulEscape_esc1R q c hq)]
  rfl

theorem nulEscape_quote3R (q : Char) (hq : IsQ q) (s : Str) : nulEscape (quote3R q s) = quote3 q s := by
  have hq0 : nulEscape [q, q, q] = [q, q, q] := by rcases hq with rfl | rfl <;> decide +kernel
  have h1 : quote3R q s = [q, q, q] ++ (s.flatMap (escCharR q) ++ [q, q, q]) := rfl
  rw [h1, nulEscape_append, nulEscape_append, hq0, nulEscape_flatMap _ _ (fun c => nulEscape_escCharR q c hq)]
  rfl

/-- **Config.quote_roundtrip** with NUL left raw (full strength since commit cada0b1): every string, one-line
forms, both quote characters, both `triple` settings -/
theorem quote_roundtrip_rawnul (q : Char) (hq : IsQ q) (s : Str) (triple : Bool) :
    isQuoted triple (quote1R q s) = true ∧ unquoteStr triple (quote1R q s) = .ok s := by
  refine ⟨isQuoted_quote1R q hq s triple, ?_⟩
  simp [unquoteStr, isQuoted_quote1R q hq s triple, nulEscape_quote1R q hq s, pyEval_quote1 q hq s]

/-- the same for the triple forms (the empty string included) -/
theorem quote3_roundtrip_rawnul (q : Char) (hq : IsQ q) (s : Str) :
    isQuoted true (quote3R q s) = true ∧ unquoteStr true (quote3R q s) = .ok s := by
  refine ⟨isQuoted_quote3R q hq s, ?_⟩
  simp [unquoteStr, isQuoted_quote3R q hq s, nulEscape_quote3R q hq s, pyEval_quote3 q hq s]

/-- HISTORICAL counterexample (fixed by cada0b1): a raw NUL between quotes was recognised as quoted but
`literal_eval` refused the text; today it is read back -/
theorem raw_nul_old_counterexample :
    isQuotedOld true ['\'', 'a', Char.ofNat 0, 'b', '\''] = true ∧
    unquoteStrOld true ['\'', 'a', Char.ofNat 0, 'b', '\''] = .valueError ∧
    unquoteStr true ['\'', 'a', Char.ofNat 0, 'b', '\''] = .ok ['a', Char.ofNat 0, 'b'] ∧
    quote1R '\'' ['a', Char.ofNat 0, 'b'] = ['\'', 'a', Char.ofNat 0, 'b', '\''] := by decide +kernel

/-! ## INI path -/

theorem not_mem_esc1_percent (q c : Char) (hq : IsQ q) (hc : c ≠ '%') : '%' ∉ esc1 q c := by
  rcases esc1_spec q c hq with ⟨h, -⟩ | ⟨h, rfl⟩ | ⟨h, rfl⟩ | ⟨h, rfl⟩ | ⟨h, rfl⟩ | ⟨h, rfl⟩
  · rw [h]; simp; exact fun e => hc e.symm
  all_goals (rw [h]; rcases hq with rfl | rfl <;> decide)

theorem not_mem_escChar_percent (q c : Char) (hq : IsQ q) (hc : c ≠ '%') : '%' ∉ escChar q c := by
  rcases escChar_spec q c hq with ⟨h, -⟩ | ⟨h, rfl⟩ | ⟨h, rfl⟩ | ⟨h, rfl⟩ | ⟨h, rfl⟩
  · rw [h]; simp; exact fun e => hc e.symm
  all_goals (rw [h]; rcases hq with rfl | rfl <;> decide)

theorem not_mem_quote1_percent (q : Char) (hq : IsQ q) (s : Str) (hs : '%' ∉ s) : '%' ∉ quote1 q s := by
  have hq' : ('%' : Char) ≠ q := by rcases hq with rfl | rfl <;> decide
  simp only [quote1, List.mem_cons, List.mem_append, List.mem_flatMap, List.mem_nil_iff, or_false, not_or,
    not_exists, not_and]
  exact ⟨hq', fun c hc => not_mem_esc1_percent q c hq (fun e => hs (e ▸ hc)), hq'⟩

theorem not_mem_quote3_percent (q : Char) (hq : IsQ q) (s : Str) (hs : '%' ∉ s) : '%' ∉ quote3 q s := by
  have hq' : ('%' : Char) ≠ q := by rcases hq with rfl | rfl <;> decide
  simp only [quote3, List.mem_cons, List.mem_append, List.mem_flatMap, List.mem_nil_iff, or_false, not_or,
    not_exists, not_and]
  exact ⟨hq', hq', hq', fun c hc => not_mem_escChar_percent q c hq (fun e => hs (e ▸ hc)), hq', hq', hq'⟩

/-- the contract of an interpolation step the round trip needs: text without `%` is left alone -/
def PercentFreeId (interp : Str → InterpR) : Prop := ∀ t, '%' ∉ t → interp t = .ok t

theorem basicInterp_percentFree : PercentFreeId basicInterp := by
  intro t ht
  induction t with
  | nil => rfl
  | cons c t ih =>
    have hc : c ≠ '%' := fun e => ht (by simp [e])
    have hl : '%' ∉ t := fun e => ht (by simp [e])
    rw [basicInterp.eq_def]; simp [hc, ih hl, InterpR.cons]

theorem noInterp_percentFree : PercentFreeId noInterp := fun _ _ => rfl

/-- value pipeline (with an interpolation step `interp`) on a text that `interp` leaves alone, is recognised
as quoted and evaluates to `s` -/
theorem iniValueOld_of_quoted (interp : Str → InterpR) (splitMl : Bool) (q : Char) (rest s : Str) (hq : IsQ q)
    (hi : interp (q :: rest) = .ok (q :: rest)) (hquoted : isQuoted true (q :: rest) = true)
    (hu : unquoteStr true (q :: rest) = .ok s) :
    iniValueOld interp splitMl (q :: rest) = .str s := by
  have hb : q ≠ '[' := by rcases hq with rfl | rfl <;> decide
  simp [iniValueOld, hi, hb, hquoted, hu]

/-- **Config.ini_quote_roundtrip** (full strength, the code since /repo commit d27392d:
`ConfigParser(interpolation=None)`): every string — `%` included — written in a one-line quoted form as an INI
value is read back as that string, with and without `split_ml_text_to_list`. -/
theorem ini_quote_roundtrip (splitMl : Bool) (q : Char) (hq : IsQ q) (s : Str) :
    iniValue splitMl (quote1 q s) = .str s :=
  iniValueOld_of_quoted noInterp splitMl q _ s hq rfl (isQuoted_quote1 q hq s true) (quote_roundtrip q hq s true).2

/-- **Config.ini_quote3_roundtrip** (full strength since commit 65e15f6): INI path, triple forms, every string -/
theorem ini_quote3_roundtrip (splitMl : Bool) (q : Char) (hq : IsQ q) (s : Str) :
    iniValue splitMl (quote3 q s) = .str s :=
  iniValueOld_of_quoted noInterp splitMl q _ s hq rfl (isQuoted_quote3_all q hq s) (quote3_roundtrip q hq s).2

/-- INI path with a NUL left raw between the quotes (since commit cada0b1) -/
theorem ini_quote_roundtrip_rawnul (splitMl : Bool) (q : Char) (hq : IsQ q) (s : Str) :
    iniValue splitMl (quote1R q s) = .str s :=
  iniValueOld_of_quoted noInterp splitMl q _ s hq rfl (isQuoted_quote1R q hq s true)
    (quote_roundtrip_rawnul q hq s true).2

example : iniValue true (quote3 '"' []) = .str [] := by decide +kernel
example : iniValue true ['\'', 'a', Char.ofNat 0, 'b', '\''] = .str ['a', Char.ofNat 0, 'b'] := by decide +kernel

example : iniValue true (quote1 '"' "100% a # b ; c = [d]\n".toList) = .str "100% a # b ; c = [d]\n".toList := by
  decide +kernel
example : iniValue true (quote1 '\'' "50%% %(x)s".toList) = .str "50%% %(x)s".toList := by decide +kernel
-- unquoted values: passed through, split at newlines, `[…]` evaluated as a list of literals
example : iniValue true "plain 100%".toList = .str "plain 100%".toList := by decide +kernel
example : iniValue true "a\nb".toList = .list ["a".toList, "b".toList] := by decide +kernel
example : iniValue true "['x', \"y\"]".toList = .list ["x".toList, "y".toList] := by decide +kernel
example : iniValue true [] = .skip := by decide +kernel

/-! ### Historical: the pipeline before /repo commit d27392d (`configparser.ConfigParser()`, BasicInterpolation)

`iniValueOld interp` with `interp = basicInterp`.  Reading the section's items interpolated every value, so a
`%` in a quoted value either raised or, doubled, was halved; the round trip needed "no `%` in the value". -/

/-- OLD pipeline: one-line quoted forms are read back when the value has no `%` (for any interpolation step
that leaves `%`-free text alone) -/
theorem ini_quote_roundtrip_old_partial (interp : Str → InterpR) (hi : PercentFreeId interp) (splitMl : Bool)
    (q : Char) (hq : IsQ q) (s : Str) (hs : '%' ∉ s) :
    iniValueOld interp splitMl (quote1 q s) = .str s :=
  iniValueOld_of_quoted interp splitMl q _ s hq (hi _ (not_mem_quote1_percent q hq s hs))
    (isQuoted_quote1 q hq s true) (quote_roundtrip q hq s true).2

/-- OLD pipeline with the default `BasicInterpolation`: the hypothesis was met … -/
theorem ini_quote_roundtrip_old_basic (splitMl : Bool) (q : Char) (hq : IsQ q) (s : Str) (hs : '%' ∉ s) :
    iniValueOld basicInterp splitMl (quote1 q s) = .str s :=
  ini_quote_roundtrip_old_partial basicInterp basicInterp_percentFree splitMl q hq s hs

/-- HISTORICAL counterexample (fixed by d27392d): `project-name = "100%"` was refused (the whole file: exit 2) -/
theorem ini_quote_roundtrip_old_counterexample :
    iniValueOld basicInterp true (quote1 '"' ['1', '0', '0', '%']) = .error .interpolation ∧
    iniValue true (quote1 '"' ['1', '0', '0', '%']) = .str ['1', '0', '0', '%'] := by decide +kernel

/-- HISTORICAL counterexample (fixed by d27392d): a doubled `%` was read back halved -/
theorem ini_percent_percent_old_counterexample :
    iniValueOld basicInterp true (quote1 '\'' ['1', '0', '0', '%', '%']) = .str ['1', '0', '0', '%'] ∧
    iniValue true (quote1 '\'' ['1', '0', '0', '%', '%']) = .str ['1', '0', '0', '%', '%'] := by
  decide +kernel

/-- on `%`-free values the old and the new pipeline agree -/
theorem iniValue_eq_old (splitMl : Bool) (raw : Str) (h : '%' ∉ raw) :
    iniValueOld basicInterp splitMl raw = iniValue splitMl raw := by
  simp [iniValue, iniValueOld, basicInterp_percentFree raw h, noInterp]

/-! ## Merge of config-file items into the argument vector (any option table)

What argparse guarantees about a table (conflicting option strings are refused by `add_argument`) is stated
as hypotheses; the harness checks them on the live parser. -/

/-- no option string belongs to two options -/
def FlagsDisjoint (T : List Opt) : Prop :=
  ∀ a ∈ T, ∀ b ∈ T, ∀ f ∈ a.flags, f ∈ b.flags → a = b

/-- no config key belongs to two options -/
def KeysDisjoint (T : List Opt) : Prop :=
  ∀ a ∈ T, ∀ b ∈ T, ∀ k ∈ possibleKeys a, k ∈ possibleKeys b → a = b

/-- `--` itself is not an option string -/
def NoSepFlag (T : List Opt) : Prop := ∀ o ∈ T, ['-', '-'] ∉ o.flags

theorem lookupKey_some (T : List Opt) (k : Str) (o : Opt) (h : lookupKey T k = some o) :
    o ∈ T ∧ k ∈ possibleKeys o := by
  unfold lookupKey at h
  have h1 := List.mem_of_find?_eq_some h
  have h2 := List.find?_some h
  exact ⟨by simpa using h1, by simpa using h2⟩

theorem lookupKey_of_mem (T : List Opt) (hK : KeysDisjoint T) (o : Opt) (ho : o ∈ T) (k : Str)
    (hk : k ∈ possibleKeys o) : lookupKey T k = some o := by
  cases h : lookupKey T k with
  | none =>
    unfold lookupKey at h
    rw [List.find?_eq_none] at h
    have := h o (by simpa using ho)
    simp [hk] at this
  | some o' =>
    obtain ⟨h1, h2⟩ := lookupKey_some T k o' h
    rw [hK o' h1 o ho k h2 hk]

theorem validate_known (T : List Opt) (d : List (Str × FileVal)) :
    ∀ kv ∈ (validate T d).1, isKnown T kv.1 = true := by
  intro kv h
  simp only [validate, List.mem_filter] at h
  exact h.2

theorem convertItem_names (o : Opt) (v : FileVal) (l : List Arg) (h : convertItem o v = .ok l) :
    ∀ a ∈ l, a.name ∈ o.flags := by
  unfold convertItem at h
  cases hl : o.flags.getLast? with
  | none => simp [hl] at h
  | some last =>
    have hlast : last ∈ o.flags := List.mem_of_getLast? hl
    have hhead : o.flags.head?.getD last ∈ o.flags := by
      cases hf : o.flags with
      | nil => simp [hf] at hlast
      | cons f fs => simp
    simp only [hl] at h
    cases hk : o.kind <;> simp only [hk] at h
    · -- store
      cases v with
      | list l' => simp at h
      | str s =>
        simp only [MergeR.ok.injEq] at h; subst h
        intro a ha; simp at ha; subst ha; exact hlast
    · -- append
      cases v with
      | list l' =>
        simp only [MergeR.ok.injEq] at h; subst h
        intro a ha; simp at ha; obtain ⟨e, -, rfl⟩ := ha; exact hlast
      | str s =>
        simp only [MergeR.ok.injEq] at h; subst h
        intro a ha; simp at ha; subst ha; exact hlast
    · -- flag
      cases v with
      | list l' => simp at h
      | str s =>
        simp only at h
        split at h
        · simp only [MergeR.ok.injEq] at h; subst h
          intro a ha; simp at ha; subst ha; exact hlast
        · split at h
          · simp only [MergeR.ok.injEq] at h; subst h; intro a ha; simp at ha
          · simp at h
    · -- count
      cases v with
      | list l' => simp at h
      | str s =>
        simp only at h
        split at h
        · simp only [MergeR.ok.injEq] at h; subst h
          intro a ha; simp at ha; subst ha; exact hlast
        · split at h
          · simp only [MergeR.ok.injEq] at h; subst h; intro a ha; simp at ha
          · simp only [if_true] at h
            split at h
            · simp only [MergeR.ok.injEq] at h; subst h
              intro a ha
              rw [List.mem_replicate] at ha
              rw [ha.2]; exact hhead
            · simp at h

/-- every argument a file contributes belongs to an option that is not on the command line -/
theorem configArgs_names (T : List Opt) (args : List Arg) (items : List (Str × FileVal)) (extra : List Arg)
    (hknown : ∀ kv ∈ items, isKnown T kv.1 = true) (h : configArgs T args items = .ok extra) :
    ∀ a ∈ extra, ∃ o' ∈ T, alreadyOn args o'.flags = false ∧ a.name ∈ o'.flags := by
  induction items generalizing extra with
  | nil =>
    simp only [configArgs, MergeR.ok.injEq] at h; subst h; intro a ha; simp at ha
  | cons kv more ih =>
    simp only [configArgs] at h
    cases h1 : itemArgs T args kv with
    | error e => simp [h1] at h
    | ok l1 =>
      cases h2 : configArgs T args more with
      | error e => simp [h1, h2] at h
      | ok l2 =>
        simp only [h1, h2, MergeR.ok.injEq] at h; subst h
        intro a ha
        rw [List.mem_append] at ha
        rcases ha with ha | ha
        · have hk := hknown kv (by simp)
          unfold isKnown at hk
          cases hl : lookupKey T kv.1 with
          | none => simp [hl] at hk
          | some o' =>
            obtain ⟨ho', -⟩ := lookupKey_some T kv.1 o' hl
            simp only [itemArgs, hl] at h1
            split at h1
            · simp only [MergeR.ok.injEq] at h1; subst h1; simp at ha
            · next hon =>
              exact ⟨o', ho', by simpa using hon, convertItem_names o' kv.2 l1 h1 a ha⟩
        · exact ih l2 (fun kv' hkv' => hknown kv' (by simp [hkv'])) h2 a ha

theorem firstIdx_none (p : Arg → Bool) (l : List Arg) (h : firstIdx p l = none) : ∀ a ∈ l, p a = false := by
  induction l with
  | nil => intro a ha; simp at ha
  | cons x l ih =>
    simp only [firstIdx] at h
    split at h
    · simp at h
    · next hp =>
      have h' : firstIdx p l = none := by simpa using h
      intro a ha
      rcases List.mem_cons.mp ha with rfl | ha
      · simpa using hp
      · exact ih h' a ha

theorem firstIdx_some_take (p : Arg → Bool) (l : List Arg) (i : Nat) (h : firstIdx p l = some i) :
    ∀ a ∈ l.take i, p a = false := by
  induction l generalizing i with
  | nil => simp [firstIdx] at h
  | cons x l ih =>
    simp only [firstIdx] at h
    split at h
    · simp only [Option.some.injEq] at h; subst h; intro a ha; simp at ha
    · next hp =>
      cases hj : firstIdx p l with
      | none => simp [hj] at h
      | some j =>
        simp only [hj, Option.map_some, Option.some.injEq] at h; subst h
        intro a ha
        simp only [List.take_succ_cons, List.mem_cons] at ha
        rcases ha with rfl | ha
        · simpa using hp
        · exact ih j hj a ha

theorem insertionIndex_noSep (l : List Arg) : ∀ a ∈ l.take (insertionIndex l), isSep a = false := by
  unfold insertionIndex
  cases h : firstIdx isSep l with
  | some i => exact firstIdx_some_take isSep l i h
  | none =>
    intro a ha
    exact firstIdx_none isSep l h a (List.mem_of_mem_take ha)

theorem live_insert (l x : List Arg) (idx : Nat) (hx : ∀ a ∈ x, isSep a = false)
    (hidx : ∀ a ∈ l.take idx, isSep a = false) :
    live (l.take idx ++ x ++ l.drop idx) = l.take idx ++ x ++ live (l.drop idx) := by
  unfold live
  rw [List.append_assoc, List.takeWhile_append_of_pos (by intro a ha; simp [hidx a ha]),
    List.takeWhile_append_of_pos (by intro a ha; simp [hx a ha]), List.append_assoc]

theorem live_split (l : List Arg) (idx : Nat) (hidx : ∀ a ∈ l.take idx, isSep a = false) :
    live l = l.take idx ++ live (l.drop idx) := by
  have := live_insert l [] idx (by simp) hidx
  simpa using this

/-- inserting arguments of other options (none of them `--`) before the first `--` does not change what an
option sees -/
theorem occurrences_insert (o : Opt) (l x : List Arg) (idx : Nat)
    (hx1 : ∀ a ∈ x, a.name ∉ o.flags) (hx2 : ∀ a ∈ x, isSep a = false)
    (hidx : ∀ a ∈ l.take idx, isSep a = false) :
    occurrences o (l.take idx ++ x ++ l.drop idx) = occurrences o l := by
  unfold occurrences
  rw [live_insert l x idx hx2 hidx, live_split l idx hidx]
  simp only [List.filter_append]
  have : x.filter (fun a => o.flags.contains a.name) = [] := by
    rw [List.filter_eq_nil_iff]; intro a ha; simp [hx1 a ha]
  rw [this]; simp

theorem alreadyOn_iff (args : List Arg) (flags : List Str) :
    alreadyOn args flags = true ↔ ∃ f ∈ flags, ∃ a ∈ args, a.name = f := by
  simp [alreadyOn]

/-! ### `ValidatorParser`'s value check (commit ae278e0) -/

theorem mergeFile_ok (T : List Opt) (a : List Arg) (d : List (Str × FileVal)) (r : List Arg)
    (h : mergeFile T a d = .ok r) : valuesBad T d = false ∧ mergeFileOld T a d = .ok r := by
  unfold mergeFile at h
  cases hb : valuesBad T d with
  | true => simp [hb] at h
  | false => simp only [hb, Bool.false_eq_true, if_false] at h; exact ⟨rfl, h⟩

theorem mergeFile_of_not_bad (T : List Opt) (a : List Arg) (d : List (Str × FileVal))
    (h : valuesBad T d = false) : mergeFile T a d = mergeFileOld T a d := by
  simp [mergeFile, mergeFileOld, h]

/-- a value `convert_item_to_command_line_arg` can convert is not one the validator refuses -/
theorem not_bad_of_convert_ok (o : Opt) (v : FileVal) (l : List Arg) (h : convertItem o v = .ok l) :
    badValue o v = false := by
  unfold convertItem at h
  unfold badValue
  cases hl : o.flags.getLast? with
  | none => simp [hl] at h
  | some last =>
    simp only [hl] at h
    cases hk : o.kind <;> simp only [hk] at h ⊢
    · -- flag
      cases v with
      | list l' => simp at h
      | str s => simp
    · -- count
      cases v with
      | list l' => simp at h
      | str s =>
        simp only at h
        by_cases h1 : trueWords.contains (lowerAscii s) = true
        · have h1' : lowerAscii s ∈ trueWords := by simpa using h1
          simp [h1']
        · by_cases h2 : falseWords.contains (lowerAscii s) = true
          · have h2' : lowerAscii s ∈ falseWords := by simpa using h2
            simp [h2']
          · simp only [h1, h2, Bool.false_eq_true, if_false, if_true] at h
            cases hp : pyInt s with
            | none => simp [hp] at h
            | some n => simp [hp]

/-- **Config.cli_overrides_file**: for any option table, any config file and any command line: an option
given on the command line (by one of its option strings) gets exactly the value the command line alone
gives it — whatever the file says about it or about any other option. -/
theorem cli_overrides_file (T : List Opt) (hF : FlagsDisjoint T) (hS : NoSepFlag T) (o : Opt) (ho : o ∈ T)
    (cli : List Arg) (data : List (Str × FileVal)) (args : List Arg)
    (hon : alreadyOn cli o.flags = true) (hm : mergeFile T cli data = .ok args) :
    effective o args = effective o cli := by
  replace hm := (mergeFile_ok T cli data args hm).2
  unfold mergeFileOld mergeOne at hm
  cases hc : configArgs T cli (validate T data).1 with
  | error e => simp [hc] at hm
  | ok extra =>
    simp only [hc, MergeR.ok.injEq] at hm; subst hm
    have hnames := configArgs_names T cli _ extra (validate_known T data) hc
    have hocc : occurrences o (cli.take (insertionIndex cli) ++ extra ++ cli.drop (insertionIndex cli)) =
        occurrences o cli := by
      apply occurrences_insert o cli extra _ _ _ (insertionIndex_noSep cli)
      · intro a ha hmem
        obtain ⟨o', ho', hoff, hin⟩ := hnames a ha
        have : o' = o := hF o' ho' o ho a.name hin hmem
        subst this; rw [hon] at hoff; exact absurd hoff (by simp)
      · intro a ha
        obtain ⟨o', ho', -, hin⟩ := hnames a ha
        cases hs : isSep a with
        | false => rfl
        | true =>
          simp only [isSep, Bool.and_eq_true, beq_iff_eq] at hs
          exact absurd (hs.1 ▸ hin) (hS o' ho')
    simp only [effective, hocc]

/-- **Config.unknown_key_filtered**: `ValidatorParser` returns the known items in their order, warns once
about each unknown key (in order) and never raises. -/
theorem unknown_key_filtered (T : List Opt) (d : List (Str × FileVal)) :
    (validate T d).1 = d.filter (fun kv => isKnown T kv.1) ∧
    (validate T d).2 = (d.filter (fun kv => !isKnown T kv.1)).map (·.1) ∧
    (∀ kv ∈ (validate T d).1, isKnown T kv.1 = true) ∧
    (∀ k, k ∈ (validate T d).2 ↔ ∃ v, (k, v) ∈ d ∧ isKnown T k = false) := by
  refine ⟨rfl, rfl, validate_known T d, ?_⟩
  intro k
  simp only [validate, List.mem_map, List.mem_filter, Bool.not_eq_true']
  constructor
  · rintro ⟨⟨k', v⟩, ⟨hmem, hk⟩, rfl⟩; exact ⟨v, hmem, hk⟩
  · rintro ⟨v, hmem, hk⟩; exact ⟨(k, v), ⟨hmem, hk⟩, rfl⟩

/-- an unknown key is warned about and changes nothing: same outcome (arguments or error) as the file
without it, for every command line -/
theorem unknown_key_not_applied (T : List Opt) (cli : List Arg) (d1 d2 : List (Str × FileVal)) (k : Str)
    (v : FileVal) (hk : isKnown T k = false) :
    mergeFile T cli (d1 ++ (k, v) :: d2) = mergeFile T cli (d1 ++ d2) ∧
    (validate T (d1 ++ (k, v) :: d2)).2 = (validate T d1).2 ++ k :: (validate T d2).2 := by
  constructor
  · have hl : lookupKey T k = none := by
      cases h : lookupKey T k with
      | none => rfl
      | some o => simp [isKnown, h] at hk
    have hb : valuesBad T (d1 ++ (k, v) :: d2) = valuesBad T (d1 ++ d2) := by
      simp [valuesBad, itemBad, hl]
    unfold mergeFile; rw [hb]; simp [validate, List.filter_append, hk]
  · simp [validate, List.filter_append, hk]

theorem firstIdx_none_of (p : Arg → Bool) (l : List Arg) (h : ∀ a ∈ l, p a = false) : firstIdx p l = none := by
  induction l with
  | nil => rfl
  | cons a l ih => simp [firstIdx, h a (by simp), ih (fun b hb => h b (by simp [hb]))]

theorem startsWithDash_cons (c : Char) (r : Str) : startsWithDash (c :: r) = decide (c = '-') := by
  unfold startsWithDash
  split
  · next h => simp only [List.cons.injEq] at h; simp [h.1]
  · next h => by_cases hc : c = '-'
              · subst hc; exact absurd rfl (h r)
              · simp [hc]

theorem insertionIndex_positional (pos : List Arg) (hpos : ∀ a ∈ pos, startsWithDash a.name = false) :
    insertionIndex pos = pos.length := by
  unfold insertionIndex
  have h1 : firstIdx isSep pos = none := by
    apply firstIdx_none_of
    intro a ha
    have h := hpos a ha
    cases hs : isSep a with
    | false => rfl
    | true =>
      simp only [isSep, Bool.and_eq_true, beq_iff_eq] at hs
      rw [hs.1] at h; simp [startsWithDash] at h
  have h2 : firstIdx (fun a => startsWithDash a.name) pos = none := firstIdx_none_of _ pos hpos
  simp [h1, h2]

theorem alreadyOn_positional (pos : List Arg) (hpos : ∀ a ∈ pos, startsWithDash a.name = false)
    (flags : List Str) (hdash : ∀ f ∈ flags, startsWithDash f = true) : alreadyOn pos flags = false := by
  cases h : alreadyOn pos flags with
  | false => rfl
  | true =>
    obtain ⟨f, hf, a, ha, heq⟩ := (alreadyOn_iff pos flags).mp h
    have h1 := hpos a ha
    have h2 := hdash f hf
    rw [heq] at h1; rw [h1] at h2; exact absurd h2 (by simp)

/-- one known item, command line without options: the file's arguments follow the positionals -/
theorem mergeFile_single (T : List Opt) (hK : KeysDisjoint T) (o : Opt) (ho : o ∈ T)
    (hdash : ∀ f ∈ o.flags, startsWithDash f = true) (key : Str) (hkey : key ∈ possibleKeys o) (v : FileVal)
    (pos : List Arg) (hpos : ∀ a ∈ pos, startsWithDash a.name = false) (extra : List Arg)
    (hc : convertItem o v = .ok extra) :
    mergeFile T pos [(key, v)] = .ok (pos ++ extra) := by
  have hl := lookupKey_of_mem T hK o ho key hkey
  have hknown : isKnown T key = true := by simp [isKnown, hl]
  have hoff := alreadyOn_positional pos hpos o.flags hdash
  have hb : valuesBad T [(key, v)] = false := by
    simp [valuesBad, itemBad, hl, not_bad_of_convert_ok o v extra hc]
  simp [mergeFile, hb, mergeOne, validate, hknown, configArgs, itemArgs, hl, hoff, hc,
    insertionIndex_positional pos hpos]

/-- **Config.file_eq_cli** (valued options): for every option of any table and every value, the file item
`key = v` yields exactly the argument `--opt=v` the command line would carry — so the same converter
(`type=`, `choices=`, `Options` converters) sees the same text. -/
theorem file_eq_cli (T : List Opt) (hK : KeysDisjoint T) (o : Opt) (ho : o ∈ T)
    (hkind : o.kind = .store ∨ o.kind = .append)
    (hdash : ∀ f ∈ o.flags, startsWithDash f = true) (key : Str) (hkey : key ∈ possibleKeys o) (v : Str)
    (pos : List Arg) (hpos : ∀ a ∈ pos, startsWithDash a.name = false)
    (last : Str) (hlast : o.flags.getLast? = some last) :
    mergeFile T pos [(key, .str v)] = .ok (pos ++ [⟨last, some v⟩]) := by
  apply mergeFile_single T hK o ho hdash key hkey _ pos hpos
  rcases hkind with hk | hk <;> simp [convertItem, hlast, hk]

/-- the argument built from a file item is the one `--opt=v` parses to -/
theorem parseArg_render (name v : Str) (h1 : startsWithDash name = true) (h2 : '=' ∉ name) :
    parseArg (Arg.render ⟨name, some v⟩) = ⟨name, some v⟩ := by
  have hall : ∀ x ∈ name, (fun c : Char => decide (c ≠ '=')) x = true := by
    intro x hx; simp only [decide_eq_true_eq]; exact fun e => h2 (e ▸ hx)
  have hd : startsWithDash (name ++ '=' :: v) = true := by
    cases name with
    | nil => simp [startsWithDash] at h1
    | cons c r => rw [List.cons_append, startsWithDash_cons]; rw [startsWithDash_cons] at h1; exact h1
  have htake : (name ++ '=' :: v).takeWhile (fun c : Char => decide (c ≠ '=')) = name := by
    rw [List.takeWhile_append_of_pos hall]; simp
  have hdrop : (name ++ '=' :: v).dropWhile (fun c : Char => decide (c ≠ '=')) = '=' :: v := by
    rw [List.dropWhile_append_of_pos hall]; simp
  unfold parseArg Arg.render
  simp only [hd, List.contains_eq_mem, List.mem_append, List.mem_cons, true_or, or_true, decide_true,
    Bool.and_self, if_true, htake, hdrop, List.drop_succ_cons, List.drop_zero]

theorem not_true_of_false (s : Str) (h : falseWords.contains s = true) : trueWords.contains s = false := by
  simp only [falseWords, List.contains_eq_mem, List.mem_cons, List.mem_nil_iff, or_false,
    decide_eq_true_eq] at h
  rcases h with rfl | rfl | rfl | rfl <;> decide +kernel

/-- **Config.file_eq_cli**, flags: `key = true|yes|on|1` is the bare option, `false|no|off|0` is its absence -/
theorem file_eq_cli_flag (T : List Opt) (hK : KeysDisjoint T) (o : Opt) (ho : o ∈ T) (hkind : o.kind = .flag)
    (hdash : ∀ f ∈ o.flags, startsWithDash f = true) (key : Str) (hkey : key ∈ possibleKeys o) (v : Str)
    (pos : List Arg) (hpos : ∀ a ∈ pos, startsWithDash a.name = false)
    (last : Str) (hlast : o.flags.getLast? = some last) :
    (trueWords.contains (lowerAscii v) = true → mergeFile T pos [(key, .str v)] = .ok (pos ++ [⟨last, none⟩])) ∧
    (falseWords.contains (lowerAscii v) = true → mergeFile T pos [(key, .str v)] = .ok pos) := by
  constructor
  · intro hv
    have hv' : lowerAscii v ∈ trueWords := by simpa using hv
    apply mergeFile_single T hK o ho hdash key hkey _ pos hpos
    simp [convertItem, hlast, hkind, hv']
  · intro hv
    have hv' : lowerAscii v ∈ falseWords := by simpa using hv
    have hv'' : lowerAscii v ∉ trueWords := by simpa using not_true_of_false _ hv
    have := mergeFile_single T hK o ho hdash key hkey (.str v) pos hpos []
      (by simp [convertItem, hlast, hkind, hv', hv''])
    simpa using this

/-- **Config.file_eq_cli**, count options: `key = n` is the option repeated `n` times -/
theorem file_eq_cli_count (T : List Opt) (hK : KeysDisjoint T) (o : Opt) (ho : o ∈ T) (hkind : o.kind = .count)
    (hdash : ∀ f ∈ o.flags, startsWithDash f = true) (key : Str) (hkey : key ∈ possibleKeys o) (v : Str)
    (pos : List Arg) (hpos : ∀ a ∈ pos, startsWithDash a.name = false)
    (first last : Str) (hfirst : o.flags.head? = some first) (hlast : o.flags.getLast? = some last)
    (h1 : trueWords.contains (lowerAscii v) = false) (h0 : falseWords.contains (lowerAscii v) = false)
    (n : Int) (hn : pyInt v = some n) :
    mergeFile T pos [(key, .str v)] = .ok (pos ++ List.replicate n.toNat ⟨first, none⟩) := by
  have h1' : lowerAscii v ∉ trueWords := by simpa using h1
  have h0' : lowerAscii v ∉ falseWords := by simpa using h0
  apply mergeFile_single T hK o ho hdash key hkey _ pos hpos
  simp [convertItem, hlast, hkind, h1', h0', hn, hfirst]

theorem mapM_value_map (f : Str) (vs : List Str) :
    (vs.map fun e => (⟨f, some e⟩ : Arg)).mapM (·.value) = some vs := by
  induction vs with
  | nil => rfl
  | cons v vs ih => simp [List.mapM_cons, ih]

/-- **Config.append_in_order** (file): a list given in a file for an `append` option that is not on the
command line is what the option accumulates, in the order written. -/
theorem append_in_order (T : List Opt) (hK : KeysDisjoint T) (o : Opt) (ho : o ∈ T)
    (hkind : o.kind = .append) (key : Str) (hkey : key ∈ possibleKeys o) (vs : List Str)
    (cli : List Arg) (hoff : alreadyOn cli o.flags = false) (args : List Arg)
    (hm : mergeFile T cli [(key, .list vs)] = .ok args) :
    effective o args = .many vs := by
  have hl := lookupKey_of_mem T hK o ho key hkey
  have hknown : isKnown T key = true := by simp [isKnown, hl]
  obtain ⟨last, hlast⟩ : ∃ last, o.flags.getLast? = some last := by
    cases hg : o.flags.getLast? with
    | some last => exact ⟨last, rfl⟩
    | none =>
      rw [List.getLast?_eq_none_iff] at hg
      simp [possibleKeys, hg] at hkey
  have hlastmem : last ∈ o.flags := List.mem_of_getLast? hlast
  replace hm := (mergeFile_ok T cli _ args hm).2
  simp only [mergeFileOld, mergeOne, validate, hknown, List.filter_cons, if_true, List.filter_nil, configArgs,
    itemArgs, hl, hoff, Bool.false_eq_true, if_false, convertItem, hlast, hkind, List.append_nil,
    MergeR.ok.injEq] at hm
  subst hm
  have hnone : ∀ a ∈ cli, a.name ∉ o.flags := by
    intro a ha hmem
    have : alreadyOn cli o.flags = true := (alreadyOn_iff cli o.flags).mpr ⟨a.name, hmem, a, ha, rfl⟩
    rw [hoff] at this; exact absurd this (by simp)
  have hsep : ∀ a ∈ vs.map (fun e => (⟨last, some e⟩ : Arg)), isSep a = false := by
    intro a ha
    simp only [List.mem_map] at ha
    obtain ⟨e, -, rfl⟩ := ha
    simp [isSep]
  have hocc : occurrences o (cli.take (insertionIndex cli) ++ vs.map (fun e => (⟨last, some e⟩ : Arg)) ++
      cli.drop (insertionIndex cli)) = vs.map (fun e => (⟨last, some e⟩ : Arg)) := by
    unfold occurrences
    rw [live_insert cli _ _ hsep (insertionIndex_noSep cli)]
    simp only [List.filter_append]
    have e1 : (cli.take (insertionIndex cli)).filter (fun a => o.flags.contains a.name) = [] := by
      rw [List.filter_eq_nil_iff]; intro a ha; simp [hnone a (List.mem_of_mem_take ha)]
    have e2 : (live (cli.drop (insertionIndex cli))).filter (fun a => o.flags.contains a.name) = [] := by
      rw [List.filter_eq_nil_iff]; intro a ha
      have : a ∈ cli := List.mem_of_mem_drop (List.takeWhile_subset _ ha)
      simp [hnone a this]
    have e3 : (vs.map (fun e => (⟨last, some e⟩ : Arg))).filter (fun a => o.flags.contains a.name) =
        vs.map (fun e => (⟨last, some e⟩ : Arg)) := by
      rw [List.filter_eq_self]; intro a ha
      simp only [List.mem_map] at ha
      obtain ⟨e, -, rfl⟩ := ha
      simpa using hlastmem
    rw [e1, e2, e3]; simp
  simp only [effective, hkind, hocc, mapM_value_map]

/-- **Config.append_in_order** (command line): repeated `--opt=v` accumulate in the order given -/
theorem append_cli_in_order (o : Opt) (hkind : o.kind = .append) (f : Str) (hf : f ∈ o.flags)
    (vs : List Str) :
    effective o (vs.map fun v => ⟨f, some v⟩) = .many vs := by
  have hlive : live (vs.map fun v => (⟨f, some v⟩ : Arg)) = vs.map fun v => ⟨f, some v⟩ := by
    unfold live
    have := List.takeWhile_append_of_pos (p := fun a => !isSep a)
      (l₁ := vs.map fun v => (⟨f, some v⟩ : Arg)) (l₂ := []) (by
        intro a ha
        simp only [List.mem_map] at ha
        obtain ⟨e, -, rfl⟩ := ha
        simp [isSep])
    simpa using this
  have hocc : occurrences o (vs.map fun v => (⟨f, some v⟩ : Arg)) = vs.map fun v => ⟨f, some v⟩ := by
    unfold occurrences
    rw [hlive, List.filter_eq_self]
    intro a ha
    simp only [List.mem_map] at ha
    obtain ⟨e, -, rfl⟩ := ha
    simpa using hf
  simp only [effective, hkind, hocc, mapM_value_map]

/-! ### Non-vacuity: a small table exercised on concrete files and command lines -/

def exTable : List Opt :=
  [⟨["--project-name".toList], .store⟩, ⟨["--privacy".toList], .append⟩,
   ⟨["--warnings-as-errors".toList, "-W".toList], .flag⟩, ⟨["--verbose".toList, "-v".toList], .count⟩]

def exName : Opt := ⟨["--project-name".toList], .store⟩
def exPriv : Opt := ⟨["--privacy".toList], .append⟩

/-- file value used when the option is absent from the command line; command line wins when present -/
example :
    (match mergeFile exTable [] [("project-name".toList, .str "F".toList)] with
     | .ok a => effective exName a | .error _ => .unmodelled) = .one (some "F".toList) ∧
    (match mergeFile exTable [parseArg "--project-name=C".toList] [("project-name".toList, .str "F".toList)] with
     | .ok a => effective exName a | .error _ => .unmodelled) = .one (some "C".toList) := by decide +kernel

/-- an `append` option: the file's list in order; once the option is on the command line the file's list is
dropped (no accumulation across the two sources) -/
example :
    (match mergeFile exTable [] [("privacy".toList, .list ["a".toList, "b".toList])] with
     | .ok a => effective exPriv a | .error _ => .unmodelled) = .many ["a".toList, "b".toList] ∧
    (match mergeFile exTable [parseArg "--privacy=c".toList, parseArg "--privacy=d".toList]
        [("privacy".toList, .list ["a".toList, "b".toList])] with
     | .ok a => effective exPriv a | .error _ => .unmodelled) = .many ["c".toList, "d".toList] := by
  decide +kernel

/-- an unknown key: one warning, nothing applied, no error -/
example :
    (validate exTable [("nosuch".toList, .str "1".toList), ("project-name".toList, .str "x".toList)]).2 =
      ["nosuch".toList] ∧
    (match mergeFile exTable [] [("nosuch".toList, .str "1".toList), ("project-name".toList, .str "x".toList)] with
     | .ok a => a.map Arg.render | .error _ => []) = ["--project-name=x".toList] := by decide +kernel

/-- file arguments go before the first option of the command line and after its positionals; of several
files the last one read first wins (`reversed(config_streams)`) -/
example :
    (match mergeFiles exTable [parseArg "src".toList, parseArg "-W".toList]
        [[("project-name".toList, .str "toml".toList), ("verbose".toList, .str "2".toList)],
         [("project-name".toList, .str "ini".toList)]] with
     | .ok a => a.map Arg.render | .error _ => []) =
      ["src".toList, "--verbose".toList, "--verbose".toList, "--project-name=ini".toList, "-W".toList] := by
  decide +kernel

instance (T : List Opt) : Decidable (FlagsDisjoint T) := by unfold FlagsDisjoint; infer_instance
instance (T : List Opt) : Decidable (KeysDisjoint T) := by unfold KeysDisjoint; infer_instance
instance (T : List Opt) : Decidable (NoSepFlag T) := by unfold NoSepFlag; infer_instance

/-- the hypotheses of the merge theorems are satisfiable -/
example : FlagsDisjoint exTable ∧ KeysDisjoint exTable ∧ NoSepFlag exTable := by decide +kernel

/-- several files: an option set by a file read earlier in the loop (= later in `default_config_files`:
`reversed(config_streams)`) keeps that value whatever the files merged after it say — `pydoctor.ini` beats
`setup.cfg` beats `pyproject.toml`, and no list is accumulated across files -/
theorem later_file_wins (T : List Opt) (hF : FlagsDisjoint T) (hS : NoSepFlag T) (o : Opt) (ho : o ∈ T)
    (cli : List Arg) (f1 f2 : List (Str × FileVal)) (args2 args : List Arg)
    (h2 : mergeFile T cli f2 = .ok args2) (hon : alreadyOn args2 o.flags = true)
    (h : mergeFiles T cli [f1, f2] = .ok args) :
    effective o args = effective o args2 := by
  have h' : mergeFile T args2 f1 = .ok args := by
    simpa [mergeFiles, h2] using h
  exact cli_overrides_file T hF hS o ho args2 f1 args hon h'

example :
    (match mergeFiles exTable [] [[("privacy".toList, .list ["toml".toList])], [("privacy".toList, .list ["cfg".toList])],
        [("privacy".toList, .list ["ini1".toList, "ini2".toList])]] with
     | .ok a => effective exPriv a | .error _ => .unmodelled) = .many ["ini1".toList, "ini2".toList] := by
  decide +kernel

/-! ## Lists written as a Python list display of quoted strings (INI `key = ["a", "b"]`) -/

theorem scanLiteral_quote1_tail (q : Char) (hq : IsQ q) (s tail : Str) (ht : tail.head? ≠ some q) :
    scanLiteral (quote1 q s ++ tail) = some (s.flatMap (esc1 q), tail) := by
  have hqc : isQuoteChar q = true := by rcases hq with rfl | rfl <;> decide
  have hscan := scanSingle_quote q hq s tail
  have hhead := head_flatMap_esc1 q hq s
  unfold quote1
  simp only [List.cons_append, List.append_assoc]
  rw [scanLiteral.eq_def]
  simp only [hqc, if_true]
  generalize hb : s.flatMap (esc1 q) = body at *
  cases body with
  | nil =>
    simp only [List.nil_append] at hscan ⊢
    cases tail with
    | nil => simpa using hscan
    | cons t ts =>
      have ht' : t ≠ q := by simpa using ht
      simpa [ht'] using hscan
  | cons b bs =>
    have hb' : b ≠ q := by simpa using hhead
    cases bs with
    | nil => simpa [hb'] using hscan
    | cons b2 bs2 => simpa [hb'] using hscan

/-- the text after `[` of a list display of one-line quoted strings separated by `, ` -/
def itemsTail (q : Char) : List Str → Str
  | [] => [']']
  | [s] => quote1 q s ++ [']']
  | s :: more => quote1 q s ++ (',' :: ' ' :: itemsTail q more)

def listLit (q : Char) (ss : List Str) : Str := '[' :: itemsTail q ss

theorem quote1_head (q : Char) (s : Str) : ∃ r, quote1 q s = q :: r := ⟨_, rfl⟩

/-- one item followed by `,` or `]` -/
theorem evalItems_item (q : Char) (hq : IsQ q) (fuel : Nat) (s tail : Str) (c : Char) (hc : c = ',' ∨ c = ']') :
    evalItems (fuel + 2) false (quote1 q s ++ c :: tail) = (evalItems (fuel + 1) true (c :: tail)).cons s := by
  have hqws : isListWs q = false := by rcases hq with rfl | rfl <;> decide
  have hqb : q ≠ ']' := by rcases hq with rfl | rfl <;> decide
  have hqc : isQuoteChar q = true := by rcases hq with rfl | rfl <;> decide
  have hcq : (c :: tail).head? ≠ some q := by
    rcases hc with rfl | rfl <;> rcases hq with rfl | rfl <;> simp
  have hcws : isListWs c = false := by rcases hc with rfl | rfl <;> decide
  have hcqc : isQuoteChar c = false := by rcases hc with rfl | rfl <;> decide
  have hscan := scanLiteral_quote1_tail q hq s (c :: tail) hcq
  have hdec := decodeEsc_flatMap (esc1 q) (decodeEsc_esc1 q · hq) s
  obtain ⟨r, hr⟩ := quote1_head q s
  rw [hr] at hscan ⊢
  simp only [List.cons_append] at hscan
  rw [evalItems.eq_def]
  simp only [List.cons_append, List.dropWhile_cons, hqws, Bool.false_eq_true, if_false, hqb, hqc, if_true]
  rw [hscan]
  simp only [hdec]
  rw [evalItems.more.eq_def]
  simp [hcws, hcqc]

theorem evalItems_comma (fuel : Nat) (rest : Str) :
    evalItems (fuel + 1) true (',' :: ' ' :: rest) = evalItems fuel false (' ' :: rest) := by
  rw [evalItems.eq_def]
  simp [isListWs, isInlineWs]

theorem evalItems_close (fuel : Nat) (after : Bool) : evalItems (fuel + 1) after [']'] = .ok [] := by
  rw [evalItems.eq_def]
  simp [isListWs, isInlineWs]

theorem evalItems_space (q : Char) (_hq : IsQ q) (fuel : Nat) (s rest : Str) :
    evalItems fuel false (' ' :: (quote1 q s ++ rest)) = evalItems fuel false (quote1 q s ++ rest) := by
  cases fuel with
  | zero => simp [evalItems]
  | succ f =>
    conv => lhs; rw [evalItems.eq_def]
    conv => rhs; rw [evalItems.eq_def]
    simp [quote1, List.dropWhile_cons, isListWs, isInlineWs]

theorem evalItems_itemsTail (q : Char) (hq : IsQ q) (ss : List Str) (fuel : Nat) (hf : 2 * ss.length + 1 ≤ fuel) :
    evalItems fuel false (itemsTail q ss) = .ok ss := by
  induction ss generalizing fuel with
  | nil =>
    obtain ⟨f, rfl⟩ : ∃ f, fuel = f + 1 := ⟨fuel - 1, by simp at hf; omega⟩
    exact evalItems_close f false
  | cons s more ih =>
    simp only [List.length_cons] at hf
    obtain ⟨f, rfl⟩ : ∃ f, fuel = f + 3 := ⟨fuel - 3, by omega⟩
    cases more with
    | nil =>
      simp only [itemsTail]
      rw [evalItems_item q hq (f + 1) s [] ']' (Or.inr rfl), evalItems_close]; rfl
    | cons s2 more2 =>
      have hstep : itemsTail q (s :: s2 :: more2) = quote1 q s ++ (',' :: ' ' :: itemsTail q (s2 :: more2)) := rfl
      rw [hstep, evalItems_item q hq (f + 1) s _ ',' (Or.inl rfl), evalItems_comma]
      have hnext : ∃ rest, itemsTail q (s2 :: more2) = quote1 q s2 ++ rest := by
        cases more2 with
        | nil => exact ⟨[']'], rfl⟩
        | cons s3 m3 => exact ⟨_, rfl⟩
      obtain ⟨rest, hrest⟩ := hnext
      rw [hrest, evalItems_space q hq, ← hrest]
      rw [ih (f + 1) (by simp only [List.length_cons] at hf ⊢; omega)]; rfl

theorem mem_itemsTail (q : Char) (hq : IsQ q) (ss : List Str) (x : Char) (hx : x ∈ itemsTail q ss) :
    x ≠ '\r' ∧ x ≠ Char.ofNat 0 := by
  induction ss with
  | nil => simp [itemsTail] at hx; subst hx; decide
  | cons s more ih =>
    cases more with
    | nil =>
      simp only [itemsTail, List.mem_append, List.mem_cons, List.mem_nil_iff, or_false] at hx
      rcases hx with hx | rfl
      · exact mem_quote1 q hq s x hx
      · decide
    | cons s2 m2 =>
      have hstep : itemsTail q (s :: s2 :: m2) = quote1 q s ++ (',' :: ' ' :: itemsTail q (s2 :: m2)) := rfl
      rw [hstep] at hx
      simp only [List.mem_append, List.mem_cons] at hx
      rcases hx with hx | rfl | rfl | hx
      · exact mem_quote1 q hq s x hx
      · decide
      · decide
      · exact ih hx

theorem length_itemsTail (q : Char) (ss : List Str) : 2 * ss.length + 1 ≤ (itemsTail q ss).length + 1 := by
  induction ss with
  | nil => simp [itemsTail]
  | cons s more ih =>
    cases more with
    | nil => simp [itemsTail, quote1]
    | cons s2 m2 =>
      have hstep : itemsTail q (s :: s2 :: m2) = quote1 q s ++ (',' :: ' ' :: itemsTail q (s2 :: m2)) := rfl
      rw [hstep]
      simp only [List.length_append, List.length_cons, quote1] at ih ⊢
      omega

/-- `literal_eval` reads a list display of quoted strings back item by item, in order -/
theorem evalList_listLit (q : Char) (hq : IsQ q) (ss : List Str) : evalList (listLit q ss) = .ok ss := by
  have hmem : ∀ x ∈ listLit q ss, x ≠ '\r' ∧ x ≠ Char.ofNat 0 := by
    intro x hx
    simp only [listLit, List.mem_cons] at hx
    rcases hx with rfl | hx
    · decide
    · exact mem_itemsTail q hq ss x hx
  have hcr : '\r' ∉ listLit q ss := fun h => (hmem _ h).1 rfl
  have hnul : (listLit q ss).contains (Char.ofNat 0) = false := by
    simp only [List.contains_eq_mem, decide_eq_false_iff_not]
    exact fun h => (hmem _ h).2 rfl
  unfold evalList
  simp only [translateNewlines_id _ hcr, hnul]
  simp only [listLit]
  exact evalItems_itemsTail q hq ss _ (by
    have := length_itemsTail q ss
    simp only [List.length_cons]; omega)

theorem not_mem_itemsTail_percent (q : Char) (hq : IsQ q) (ss : List Str) (hs : ∀ s ∈ ss, '%' ∉ s) :
    '%' ∉ itemsTail q ss := by
  induction ss with
  | nil => simp [itemsTail]
  | cons s more ih =>
    have h1 := not_mem_quote1_percent q hq s (hs s (by simp))
    cases more with
    | nil => simp only [itemsTail, List.mem_append, List.mem_cons, List.mem_nil_iff, or_false, not_or]
             exact ⟨h1, by decide⟩
    | cons s2 m2 =>
      have hstep : itemsTail q (s :: s2 :: m2) = quote1 q s ++ (',' :: ' ' :: itemsTail q (s2 :: m2)) := rfl
      rw [hstep]
      simp only [List.mem_append, List.mem_cons, not_or]
      exact ⟨h1, by decide, by decide, ih (fun s' hs' => hs s' (by simp [hs']))⟩

theorem getLast?_itemsTail (q : Char) (ss : List Str) : (itemsTail q ss).getLast? = some ']' := by
  induction ss with
  | nil => rfl
  | cons s more ih =>
    cases more with
    | nil => simp [itemsTail]
    | cons s2 m2 =>
      have hstep : itemsTail q (s :: s2 :: m2) = quote1 q s ++ (',' :: ' ' :: itemsTail q (s2 :: m2)) := rfl
      rw [hstep, List.getLast?_append]
      have : (',' :: ' ' :: itemsTail q (s2 :: m2)).getLast? = some ']' := by
        rw [List.getLast?_cons_cons, List.getLast?_cons]
        simp [ih]
      simp [this]

theorem getLast?_listLit (q : Char) (ss : List Str) : (listLit q ss).getLast? = some ']' := by
  simp only [listLit]
  have := getLast?_itemsTail q ss
  cases hit : itemsTail q ss with
  | nil => rw [hit] at this; simp at this
  | cons a b => rw [List.getLast?_cons_cons, ← hit]; exact this

/-- **Config.ini_list_roundtrip** (full strength, the code since /repo commit d27392d): a list option written
`key = ["a", "b", …]` in an INI file is read back as that list, in order — whatever the items contain. -/
theorem ini_list_roundtrip (splitMl : Bool) (q : Char) (hq : IsQ q) (ss : List Str) :
    iniValue splitMl (listLit q ss) = .list ss := by
  unfold iniValue iniValueOld
  simp only [noInterp, evalList_listLit q hq ss, getLast?_listLit q ss]
  simp [listLit]

/-- OLD pipeline (before d27392d): the same needed `%`-free items -/
theorem ini_list_roundtrip_old_partial (interp : Str → InterpR) (hi : PercentFreeId interp) (splitMl : Bool)
    (q : Char) (hq : IsQ q) (ss : List Str) (hs : ∀ s ∈ ss, '%' ∉ s) :
    iniValueOld interp splitMl (listLit q ss) = .list ss := by
  have hp : '%' ∉ listLit q ss := by
    simp only [listLit, List.mem_cons, not_or]
    exact ⟨by decide, not_mem_itemsTail_percent q hq ss hs⟩
  unfold iniValueOld
  rw [hi _ hp]
  simp only [evalList_listLit q hq ss, getLast?_listLit q ss]
  simp [listLit]

example : iniValue true (listLit '"' ["it's".toList, "a \"b\"".toList, [], "x\ny".toList, "100%".toList]) =
    .list ["it's".toList, "a \"b\"".toList, [], "x\ny".toList, "100%".toList] := by decide +kernel
example : listLit '\'' ["a".toList, "b'c".toList] = "['a', 'b\\'c']".toList := by decide +kernel

/-- HISTORICAL counterexample (fixed by d27392d): one item with `%` refused the whole list (and file) -/
theorem ini_list_roundtrip_old_counterexample :
    iniValueOld basicInterp true (listLit '"' ["100%".toList]) = .error .interpolation ∧
    iniValue true (listLit '"' ["100%".toList]) = .list ["100%".toList] := by decide +kernel

/-! ## The table hypotheses as the executable check the harness runs on the live parser -/

theorem flagsDisjointB_iff (T : List Opt) : flagsDisjointB T = true ↔ FlagsDisjoint T := by
  simp only [flagsDisjointB, FlagsDisjoint, List.all_eq_true, Bool.or_eq_true, Bool.not_eq_true',
    List.contains_eq_mem, decide_eq_false_iff_not, beq_iff_eq]
  constructor
  · intro h a ha b hb f hfa hfb
    rcases h a ha b hb f hfa with h1 | h1
    · exact absurd hfb h1
    · exact h1
  · intro h a ha b hb f hfa
    by_cases hfb : f ∈ b.flags
    · exact Or.inr (h a ha b hb f hfa hfb)
    · exact Or.inl hfb

theorem keysDisjointB_iff (T : List Opt) : keysDisjointB T = true ↔ KeysDisjoint T := by
  simp only [keysDisjointB, KeysDisjoint, List.all_eq_true, Bool.or_eq_true, Bool.not_eq_true',
    List.contains_eq_mem, decide_eq_false_iff_not, beq_iff_eq]
  constructor
  · intro h a ha b hb f hfa hfb
    rcases h a ha b hb f hfa with h1 | h1
    · exact absurd hfb h1
    · exact h1
  · intro h a ha b hb f hfa
    by_cases hfb : f ∈ possibleKeys b
    · exact Or.inr (h a ha b hb f hfa hfb)
    · exact Or.inl hfb

theorem noSepFlagB_iff (T : List Opt) : noSepFlagB T = true ↔ NoSepFlag T := by
  simp [noSepFlagB, NoSepFlag]

/-! ## Round 3: what counts as a known key, files in order, per-action rule, section lookup, composite parser,
`from_namespace` -/

/-- **the exact rule of `ValidatorParser`**: a key is known iff it is a long option string of some option, with
or without its leading `--` — nothing else (not the `dest`, not `_` for `-`, not another case) -/
theorem isKnown_iff (T : List Opt) (k : Str) :
    isKnown T k = true ↔ ∃ o ∈ T, ∃ k', ('-' :: '-' :: k') ∈ o.flags ∧ (k = k' ∨ k = '-' :: '-' :: k') := by
  have hkeys : ∀ o : Opt, k ∈ possibleKeys o ↔ ∃ k', ('-' :: '-' :: k') ∈ o.flags ∧ (k = k' ∨ k = '-' :: '-' :: k') := by
    intro o
    simp only [possibleKeys, List.mem_flatMap]
    constructor
    · rintro ⟨f, hf, hk⟩
      split at hk
      · next k' => exact ⟨k', hf, by simpa using hk⟩
      · simp at hk
    · rintro ⟨k', hf, hk⟩
      exact ⟨_, hf, by simpa using hk⟩
  constructor
  · intro h
    unfold isKnown at h
    cases hl : lookupKey T k with
    | none => simp [hl] at h
    | some o =>
      obtain ⟨ho, hk⟩ := lookupKey_some T k o hl
      exact ⟨o, ho, (hkeys o).mp hk⟩
  · rintro ⟨o, ho, hk⟩
    have hk' := (hkeys o).mpr hk
    unfold isKnown lookupKey
    rw [List.find?_isSome]
    exact ⟨o, by simpa using ho, by simpa using hk'⟩

-- the `dest` (`projectname`), `_` for `-`, another case, a single dash: all unknown; both spellings of the option: known
example : isKnown exTable "projectname".toList = false ∧ isKnown exTable "project_name".toList = false ∧
    isKnown exTable "Project-Name".toList = false ∧ isKnown exTable "-project-name".toList = false ∧
    isKnown exTable "W".toList = false ∧ isKnown exTable "-W".toList = false ∧
    isKnown exTable "project-name".toList = true ∧ isKnown exTable "--project-name".toList = true := by decide +kernel

theorem alreadyOn_mono (a b : List Arg) (flags : List Str) (hab : ∀ x ∈ a, x ∈ b) (h : alreadyOn a flags = true) :
    alreadyOn b flags = true := by
  rw [alreadyOn_iff] at h ⊢
  obtain ⟨f, hf, x, hx, he⟩ := h
  exact ⟨f, hf, x, hab x hx, he⟩

theorem mergeFile_keeps (T : List Opt) (args : List Arg) (d : List (Str × FileVal)) (r : List Arg)
    (h : mergeFile T args d = .ok r) : ∀ x ∈ args, x ∈ r := by
  replace h := (mergeFile_ok T args d r h).2
  unfold mergeFileOld mergeOne at h
  cases hc : configArgs T args (validate T d).1 with
  | error e => simp [hc] at h
  | ok extra =>
    simp only [hc, MergeR.ok.injEq] at h; subst h
    intro x hx
    have : x ∈ args.take (insertionIndex args) ++ args.drop (insertionIndex args) := by
      rw [List.take_append_drop]; exact hx
    simp only [List.mem_append] at this ⊢
    rcases this with h1 | h1
    · exact Or.inl (Or.inl h1)
    · exact Or.inr h1

/-- files merged after an option is on the vector do not change what the option gets, however many follow -/
theorem foldl_merge_keeps (T : List Opt) (hF : FlagsDisjoint T) (hS : NoSepFlag T) (o : Opt) (ho : o ∈ T)
    (gs : List (List (Str × FileVal))) (a r : List Arg) (hon : alreadyOn a o.flags = true)
    (h : gs.foldl (fun acc f => match acc with
                                | .ok args => mergeFile T args f
                                | e => e) (MergeR.ok a) = .ok r) :
    effective o r = effective o a := by
  induction gs generalizing a with
  | nil => simp only [List.foldl_nil, MergeR.ok.injEq] at h; rw [h]
  | cons g gs ih =>
    simp only [List.foldl_cons] at h
    cases hg : mergeFile T a g with
    | error e =>
      rw [hg] at h
      have : ∀ gs' : List (List (Str × FileVal)),
          gs'.foldl (fun acc f => match acc with
                                  | .ok args => mergeFile T args f
                                  | e => e) (MergeR.error e : MergeR (List Arg)) = .error e := by
        intro gs'; induction gs' with
        | nil => rfl
        | cons x xs ihx => simpa using ihx
      rw [this gs] at h; cases h
    | ok a' =>
      rw [hg] at h
      have h1 := cli_overrides_file T hF hS o ho a g a' hon hg
      have hon' := alreadyOn_mono a a' o.flags (mergeFile_keeps T a g a' hg) hon
      rw [ih a' hon' h, h1]

/-- **files in order, any number**: the file read first in `reversed(config_streams)` — the LAST of the list:
an explicit `--config` file, else `pydoctor.ini`, `setup.cfg`, `pyproject.toml` — decides every option it sets
(once the option is on the vector, no earlier file changes it); files are merged, not replaced: options it does
not set come from the others -/
theorem last_file_wins (T : List Opt) (hF : FlagsDisjoint T) (hS : NoSepFlag T) (o : Opt) (ho : o ∈ T)
    (cli : List Arg) (fs : List (List (Str × FileVal))) (f : List (Str × FileVal)) (a2 args : List Arg)
    (h2 : mergeFile T cli f = .ok a2) (hon : alreadyOn a2 o.flags = true)
    (h : mergeFiles T cli (fs ++ [f]) = .ok args) :
    effective o args = effective o a2 := by
  unfold mergeFiles at h
  simp only [List.reverse_append, List.reverse_cons, List.reverse_nil, List.nil_append, List.cons_append,
    List.foldl_cons, h2] at h
  exact foldl_merge_keeps T hF hS o ho fs.reverse a2 args hon h

/-- the command line beats every file, any number of them -/
theorem cli_overrides_files (T : List Opt) (hF : FlagsDisjoint T) (hS : NoSepFlag T) (o : Opt) (ho : o ∈ T)
    (cli : List Arg) (fs : List (List (Str × FileVal))) (args : List Arg)
    (hon : alreadyOn cli o.flags = true) (h : mergeFiles T cli fs = .ok args) :
    effective o args = effective o cli :=
  foldl_merge_keeps T hF hS o ho fs.reverse cli args hon h

/-- **per action type**, `append` (what C13 relies on for `--privacy`): values given on the command line REPLACE
the file's list — the option accumulates exactly the command line's values, in order -/
theorem append_cli_replaces_file (T : List Opt) (hF : FlagsDisjoint T) (hS : NoSepFlag T) (o : Opt) (ho : o ∈ T)
    (hkind : o.kind = .append) (f : Str) (hf : f ∈ o.flags) (vs : List Str) (hvs : vs ≠ [])
    (fs : List (List (Str × FileVal))) (args : List Arg)
    (h : mergeFiles T (vs.map fun v => ⟨f, some v⟩) fs = .ok args) :
    effective o args = .many vs := by
  have hon : alreadyOn (vs.map fun v => (⟨f, some v⟩ : Arg)) o.flags = true := by
    rw [alreadyOn_iff]
    obtain ⟨v, vs', rfl⟩ := List.exists_cons_of_ne_nil hvs
    exact ⟨f, hf, ⟨f, some v⟩, by simp, rfl⟩
  rw [cli_overrides_files T hF hS o ho _ fs args hon h, append_cli_in_order o hkind f hf vs]

/-- `store`: the command line's last value; `flag`: set; `count`: the number of occurrences on the command line
(the file's count is dropped as soon as the exact option string is on the command line) -/
theorem store_cli_replaces_file (T : List Opt) (hF : FlagsDisjoint T) (hS : NoSepFlag T) (o : Opt) (ho : o ∈ T)
    (hkind : o.kind = .store) (f : Str) (hf : f ∈ o.flags) (v : Str)
    (fs : List (List (Str × FileVal))) (args : List Arg) (h : mergeFiles T [⟨f, some v⟩] fs = .ok args) :
    effective o args = .one (some v) := by
  have hon : alreadyOn [(⟨f, some v⟩ : Arg)] o.flags = true := by
    rw [alreadyOn_iff]; exact ⟨f, hf, ⟨f, some v⟩, by simp, rfl⟩
  rw [cli_overrides_files T hF hS o ho _ fs args hon h]
  simp [effective, hkind, occurrences, live, isSep, hf]

theorem count_cli_replaces_file (T : List Opt) (hF : FlagsDisjoint T) (hS : NoSepFlag T) (o : Opt) (ho : o ∈ T)
    (hkind : o.kind = .count) (f : Str) (hf : f ∈ o.flags) (hsep : f ≠ ['-', '-']) (n : Nat) (hn : n ≠ 0)
    (fs : List (List (Str × FileVal))) (args : List Arg)
    (h : mergeFiles T (List.replicate n ⟨f, none⟩) fs = .ok args) :
    effective o args = .count n := by
  have hon : alreadyOn (List.replicate n (⟨f, none⟩ : Arg)) o.flags = true := by
    rw [alreadyOn_iff]
    exact ⟨f, hf, ⟨f, none⟩, by simp [List.mem_replicate, hn], rfl⟩
  rw [cli_overrides_files T hF hS o ho _ fs args hon h]
  have hc : o.flags.contains f = true := by simpa using hf
  have hs : isSep (⟨f, none⟩ : Arg) = false := by simp [isSep, hsep]
  have hlive : live (List.replicate n (⟨f, none⟩ : Arg)) = List.replicate n ⟨f, none⟩ := by
    unfold live
    have := List.takeWhile_append_of_pos (p := fun a => !isSep a) (l₁ := List.replicate n (⟨f, none⟩ : Arg)) (l₂ := [])
      (by intro a ha; rw [List.mem_replicate] at ha; rw [ha.2]; simp [hs])
    simpa using this
  have hfilt : (List.replicate n (⟨f, none⟩ : Arg)).filter (fun a => o.flags.contains a.name) = List.replicate n ⟨f, none⟩ := by
    rw [List.filter_eq_self]; intro a ha; rw [List.mem_replicate] at ha; rw [ha.2]; exact hc
  simp only [List.contains_eq_mem] at hfilt
  simp [effective, hkind, occurrences, hlive, hfilt]

/-- `-v`/`-q`: `verbosity` is the difference of the two counts; counts add up within one source -/
theorem verbosity_spec (a b q : Nat) : verbosity (a + b) q = verbosity a q + b ∧ verbosity a (q + b) = verbosity a q - b := by
  simp only [verbosity, Int.ofNat_eq_natCast, Int.natCast_add]; constructor <;> omega

/-! ### INI: a plain multi-line value is the list of its lines -/

theorem splitOn_lines (lines : List Str) (hl : lines ≠ []) (hnl : ∀ l ∈ lines, '\n' ∉ l) :
    (['\n'].intercalate lines).splitOn '\n' = lines :=
  List.splitOn_intercalate '\n' hnl hl

/-- the text of a plain multi-line value: its first line is `a :: as` -/
def joinLines (first : Str) (more : List Str) : Str := ['\n'].intercalate (first :: more)

theorem joinLines_cons (first l : Str) (more : List Str) :
    joinLines first (l :: more) = first ++ '\n' :: joinLines l more := by
  simp [joinLines, List.intercalate]

theorem joinLines_head (c : Char) (r : Str) (more : List Str) : ∃ t, joinLines (c :: r) more = c :: t := by
  cases more with
  | nil => exact ⟨r, by simp [joinLines, List.intercalate]⟩
  | cons l m => exact ⟨_, by rw [joinLines_cons]; rfl⟩

theorem rstripNl_of_last (s : Str) (c : Char) (hc : c ≠ '\n') : rstripNl (s ++ [c]) = s ++ [c] := by
  simp [rstripNl, hc]

theorem joinLines_last (first : Str) (more : List Str) (hne : ∀ l ∈ first :: more, l ≠ []) :
    ∃ s c, joinLines first more = s ++ [c] ∧ c ∈ (first :: more).getLast (by simp) := by
  induction more generalizing first with
  | nil =>
    have h1 : first ≠ [] := hne first (by simp)
    refine ⟨first.dropLast, first.getLast h1, ?_, ?_⟩
    · simp [joinLines, List.intercalate, List.dropLast_concat_getLast h1]
    · simp
  | cons l m ih =>
    obtain ⟨s, c, hs, hc⟩ := ih l (fun x hx => hne x (by simp at hx ⊢; exact Or.inr hx))
    refine ⟨first ++ '\n' :: s, c, ?_, ?_⟩
    · rw [joinLines_cons, hs]; simp
    · simpa using hc

/-- **INI, one item per line**: a value of two or more non-empty lines, the first not starting with a quote or
`[`, is — with `split_ml_text_to_list` — the list of its lines in order (and the text itself without it) -/
theorem ini_multiline_list (c : Char) (r l : Str) (more : List Str)
    (hc : isQuoteChar c = false) (hb : c ≠ '[')
    (hnl : ∀ x ∈ (c :: r) :: l :: more, '\n' ∉ x) (hne : ∀ x ∈ (c :: r) :: l :: more, x ≠ []) :
    iniValue true (joinLines (c :: r) (l :: more)) = .list ((c :: r) :: l :: more) ∧
    iniValue false (joinLines (c :: r) (l :: more)) = .str (joinLines (c :: r) (l :: more)) := by
  obtain ⟨t, ht⟩ := joinLines_head c r (l :: more)
  have hq : isQuoted true (joinLines (c :: r) (l :: more)) = false := by
    rw [ht]; exact not_quoted_of_head true _ (fun d hd => by simp at hd; rw [← hd]; exact hc)
  obtain ⟨s, e, hs, he⟩ := joinLines_last (c :: r) (l :: more) hne
  have hlastmem : ((c :: r) :: l :: more).getLast (by simp) ∈ (c :: r) :: l :: more := List.getLast_mem _
  have he' : e ≠ '\n' := fun h => hnl _ hlastmem (h ▸ he)
  have hcontains : (rstripNl (joinLines (c :: r) (l :: more))).contains '\n' = true := by
    rw [hs, rstripNl_of_last s e he', ← hs, joinLines_cons]; simp
  have hsplit : (joinLines (c :: r) (l :: more)).splitOn '\n' = (c :: r) :: l :: more :=
    splitOn_lines ((c :: r) :: l :: more) (by simp) hnl
  have hfilter : ((c :: r) :: l :: more).filter (fun i => !i.isEmpty) = (c :: r) :: l :: more := by
    rw [List.filter_eq_self]; intro x hx
    have := hne x hx
    cases x with
    | nil => exact absurd rfl this
    | cons _ _ => rfl
  have hempty : (joinLines (c :: r) (l :: more)).isEmpty = false := by rw [ht]; rfl
  have hhead : (joinLines (c :: r) (l :: more)).head? = some c := by rw [ht]; rfl
  constructor
  · unfold iniValue iniValueOld
    simp only [noInterp, hempty, hhead, hq, hcontains, hsplit, hfilter]
    simp [hb]
  · unfold iniValue iniValueOld
    simp only [noInterp, hempty, hhead, hq]
    simp [hb]

example : iniValue true (joinLines "HIDDEN:a.b".toList ["PUBLIC:a.b.c".toList, "x y".toList]) =
    .list ["HIDDEN:a.b".toList, "PUBLIC:a.b.c".toList, "x y".toList] := by decide +kernel

/-! ### section names and the TOML section lookup -/

/-- `parse_toml_section_name` on the three names pydoctor uses (`CONFIG_SECTIONS`) -/
theorem section_constants :
    parseSectionName "tool.pydoctor".toList = some ["tool".toList, "pydoctor".toList] ∧
    parseSectionName "tool:pydoctor".toList = some ["tool:pydoctor".toList] ∧
    parseSectionName "pydoctor".toList = some ["pydoctor".toList] := by decide +kernel

-- the docstring's examples: blanks around the parts, quoted parts (quotes after a blank are not csv quotes)
example : parseSectionName " g .  h  . i ".toList = some ["g".toList, "h".toList, "i".toList] := by decide +kernel
example : parseSectionName " j . \"k\" . 'l' ".toList = some ["j".toList, "k".toList, "l".toList] := by decide +kernel
example : parseSectionName "\"a.b\".c".toList = some ["a.b".toList, "c".toList] := by decide +kernel

def pydoctorSectionPaths : List (List Str) :=
  [["tool".toList, "pydoctor".toList], ["tool:pydoctor".toList], ["pydoctor".toList]]

def kTool : Str := "tool".toList
def kPydoctor : Str := "pydoctor".toList

/-- the `[tool.pydoctor]` table of a TOML document is found through the two-step lookup whatever else the
document holds -/
theorem getTomlSection_tool_pydoctor (doc t sec : List (Str × TNode))
    (h1 : lookupNode doc kTool = some (.table t)) (h2 : lookupNode t kPydoctor = some (.table sec))
    (hne : sec ≠ []) (htne : t ≠ []) :
    getTomlSection doc [kTool, kPydoctor] = .found sec := by
  have ht : (TNode.table t).truthy = true := by cases t <;> simp_all [TNode.truthy]
  have hs : (TNode.table sec).truthy = true := by cases sec <;> simp_all [TNode.truthy]
  simp [getTomlSection, h1, h2, ht, hs]

/-- the first section of the list that exists and is non-empty decides; the later ones are not looked at -/
theorem tomlParse_first (path : List Str) (more : List (List Str)) (doc kvs : List (Str × TNode))
    (h : getTomlSection doc path = .found kvs) :
    tomlParse (path :: more) doc = tomlParse [path] doc := by
  simp only [tomlParse, h]

/-- a section that is absent or empty is skipped -/
theorem tomlParse_skip (path : List Str) (more : List (List Str)) (doc : List (Str × TNode))
    (h : getTomlSection doc path = .notFound) :
    tomlParse (path :: more) doc = tomlParse more doc := by
  simp only [tomlParse, h]

/-- values keep their meaning: a TOML string is handed on as it is; `true`/`false` become the lower-case words (commit 67194dc) the flag
conversion understands; an integer (zero included) becomes its decimal text — nothing is dropped for being falsy -/
theorem tnodeItem_spec (s : Str) :
    tnodeItem (.str s) = some (some (.str s)) ∧
    tnodeItem (.bool true) = some (some (.str "true".toList)) ∧
    tnodeItem (.bool false) = some (some (.str "false".toList)) ∧
    tnodeItem (.int 0) = some (some (.str "0".toList)) ∧
    tnodeItem (.str []) = some (some (.str [])) := by
  refine ⟨rfl, rfl, rfl, by decide +kernel, rfl⟩

/-- a TOML boolean for a flag option means the bare option / nothing -/
theorem toml_bool_flag (o : Opt) (hkind : o.kind = .flag) (last : Str) (hlast : o.flags.getLast? = some last) :
    (match convertItem o (.str "true".toList) with | .ok l => l = [⟨last, none⟩] | .error _ => False) ∧
    (match convertItem o (.str "false".toList) with | .ok l => l = [] | .error _ => False) := by
  have h1 : trueWords.contains (lowerAscii "true".toList) = true := by decide +kernel
  have h2 : trueWords.contains (lowerAscii "false".toList) = false := by decide +kernel
  have h3 : falseWords.contains (lowerAscii "false".toList) = true := by decide +kernel
  constructor
  · simp only [convertItem, hlast, hkind, h1, ↓reduceIte]
  · simp only [convertItem, hlast, hkind, h2, h3, ↓reduceIte, Bool.false_eq_true]

example :
    (match tomlParse pydoctorSectionPaths
        [("build-system".toList, .table [("requires".toList, .list [] true)]),
         ("tool".toList, .table [("other".toList, .table [("x".toList, .int 1)]),
                                  ("pydoctor".toList, .table [("project-name".toList, .str "P".toList),
                                                               ("verbose".toList, .int 0),
                                                               ("warnings-as-errors".toList, .bool true),
                                                               ("privacy".toList, .list [.str "HIDDEN:a".toList] true)])]),
         ("pydoctor".toList, .table [("project-name".toList, .str "ignored".toList)])] with
     | .ok items => items.map (·.1) | _ => []) =
    ["project-name".toList, "verbose".toList, "warnings-as-errors".toList, "privacy".toList] := by decide +kernel

/-! ### `CompositeConfigParser.parse` -/

def IniName (name : Option Str) : Bool :=
  match name with
  | some n => endsWith n ".ini".toList || endsWith n ".cfg".toList
  | none => false

/-- **an INI file is read with the INI rules**: for a stream named `*.ini` / `*.cfg` the INI parser's result is
the result whenever it accepts the file — whatever the TOML parser would make of it -/
theorem composite_ini_first {α : Type} (outcome : ParserKind → Option α) (name : Option Str) (r : α)
    (hn : IniName name = true) (hi : outcome .ini = some r) :
    compositeParse outcome name pydoctorParsers = some r := by
  cases name with
  | none => simp [IniName] at hn
  | some n =>
    have h : compositeOrder (some n) pydoctorParsers = [.ini, .toml] := by
      unfold IniName at hn
      unfold compositeOrder
      simp only [hn, ↓reduceIte]
      rfl
    simp [compositeParse, h, firstSuccess, hi]

/-- any other name (`pyproject.toml`, a `--config` file without these extensions, a stream without a name):
TOML first -/
theorem composite_toml_first {α : Type} (outcome : ParserKind → Option α) (name : Option Str) (r : α)
    (hn : IniName name = false) (ht : outcome .toml = some r) :
    compositeParse outcome name pydoctorParsers = some r := by
  cases name with
  | none => simp [compositeParse, compositeOrder, pydoctorParsers, firstSuccess, ht]
  | some n =>
    have h : compositeOrder (some n) pydoctorParsers = [.toml, .ini] := by
      unfold IniName at hn
      unfold compositeOrder
      simp only [hn, Bool.false_eq_true, ↓reduceIte]
      rfl
    simp [compositeParse, h, firstSuccess, ht]

/-- fall-back: whatever the name, the file is refused iff both parsers refuse it, and when exactly one accepts
it that one's result is used -/
theorem composite_fallback {α : Type} (outcome : ParserKind → Option α) (name : Option Str) :
    (compositeParse outcome name pydoctorParsers = none ↔ outcome .toml = none ∧ outcome .ini = none) ∧
    (outcome .toml = none → compositeParse outcome name pydoctorParsers = outcome .ini) ∧
    (outcome .ini = none → compositeParse outcome name pydoctorParsers = outcome .toml) := by
  have horder : compositeOrder name pydoctorParsers = [.toml, .ini] ∨ compositeOrder name pydoctorParsers = [.ini, .toml] := by
    cases name with
    | none => left; rfl
    | some n =>
      simp only [compositeOrder, pydoctorParsers]
      split
      · right; simp
      · left; rfl
  unfold compositeParse
  rcases horder with h | h <;> rw [h] <;> simp only [firstSuccess] <;>
    cases ht : outcome .toml <;> cases hi : outcome .ini <;> simp

/-- the order is a reordering of the configured parsers: INI ones first (in their order) for INI names -/
theorem compositeOrder_spec (name : Option Str) (ps : List ParserKind) :
    (IniName name = false → compositeOrder name ps = ps) ∧
    (IniName name = true → compositeOrder name ps = ps.filter (· = .ini) ++ ps.filter (· ≠ .ini)) := by
  cases name with
  | none => simp [IniName, compositeOrder]
  | some n =>
    unfold IniName compositeOrder
    constructor <;> intro h <;> simp only [h, Bool.false_eq_true, ↓reduceIte]

example : IniName (some "./pydoctor.ini".toList) = true ∧ IniName (some "./setup.cfg".toList) = true ∧
    IniName (some "./pyproject.toml".toList) = false ∧ IniName (some "pydoctor.conf".toList) = false ∧
    IniName (some "PYDOCTOR.INI".toList) = false ∧ IniName none = false := by decide +kernel

/-! ### `Options.from_namespace` -/

/-- `--make-html` is on by default unless `--testing` or `--make-intersphinx` is given; given explicitly it is on -/
theorem makeHtml_spec (given testing mi : Bool) : makeHtml given testing mi = (given || (!testing && !mi)) := by
  cases given <;> cases testing <;> cases mi <;> rfl

/-- an explicit `--html-viewsource-template` (command line or file — same argument) is kept; without one the
template follows `--html-viewsource-base`; without a base it is the `#L{lineno}` one -/
theorem sourceTemplate_spec (t : Str) (base : Option Str) :
    sourceTemplate (some t) base = t ∧ sourceTemplate none none = tmplL ∧ sourceTemplate none (some []) = tmplL := by
  refine ⟨rfl, rfl, rfl⟩

example : viewsourceTemplate (some "https://github.com/twisted/pydoctor/tree/master".toList) = tmplL ∧
    viewsourceTemplate (some "https://sourceforge.net/p/x/code/HEAD/tree".toList) = tmplSf ∧
    viewsourceTemplate (some "http://bitbucket.org/u/r/src/master".toList) = tmplBb ∧
    viewsourceTemplate (some "https://sourceforge.net".toList) = tmplL ∧
    viewsourceTemplate (some " https://bitbucket.org/x".toList) = tmplL := by decide +kernel

/-- `--add-package` entries (the way to give source paths in a file) follow the positional ones, in order -/
theorem finalSourcepath_spec {α : Type} (pos pkgs : List α) :
    finalSourcepath pos pkgs = pos ++ pkgs ∧ finalSourcepath [] pkgs = pkgs := ⟨rfl, rfl⟩

theorem sidebarOk_spec (e t : Int) : sidebarOk e t = true ↔ 1 ≤ e ∧ 0 ≤ t := by
  simp only [sidebarOk, Bool.and_eq_true, Bool.not_eq_true', decide_eq_false_iff_not]
  omega

/-! ## Round 3b: line-boundary characters, clustered short flags, `[DEFAULT]` -/

/-- only `\n` separates the items of a one-item-per-line value: an item with FF, VT, FS, GS, RS, NEL, U+2028,
U+2029 or CR in its middle stays one item (instance of `ini_multiline_list`, which excludes nothing but `\n`) -/
example :
    iniValue true (joinLines ['a', Char.ofNat 0x0c, 'b'] [['c', Char.ofNat 0x2028, 'd'], ['e', '\r', 'f'],
        ['g', Char.ofNat 0x0b, Char.ofNat 0x1c, Char.ofNat 0x1d, Char.ofNat 0x1e, Char.ofNat 0x85, Char.ofNat 0x2029, 'h']]) =
      .list [['a', Char.ofNat 0x0c, 'b'], ['c', Char.ofNat 0x2028, 'd'], ['e', '\r', 'f'],
        ['g', Char.ofNat 0x0b, Char.ofNat 0x1c, Char.ofNat 0x1d, Char.ofNat 0x1e, Char.ofNat 0x85, Char.ofNat 0x2029, 'h']] := by
  decide +kernel

/-- configargparse looks for EXACT option strings: a cluster of short flags (`-vv`, `-vq`) or an abbreviation does
not count as "the option is on the command line", so the file's count is added to it — `count_cli_replaces_file`
is about exact option strings (`-v -v`), and that is all the code guarantees (open findings
`cli-clustered-short-count:file-count-added`, `cli-abbreviation:file-not-overridden`) -/
theorem cluster_not_already_on :
    alreadyOn [parseArg "-vv".toList] ["--verbose".toList, "-v".toList] = false ∧
    alreadyOn [parseArg "-vq".toList] ["--verbose".toList, "-v".toList] = false ∧
    alreadyOn [parseArg "--verb".toList] ["--verbose".toList, "-v".toList] = false ∧
    alreadyOn [parseArg "-v".toList, parseArg "-v".toList] ["--verbose".toList, "-v".toList] = true := by
  decide +kernel

/-- with `verbose = 1` in a file: `-v -v` gives 2 occurrences (the file's one is dropped), `-vv` leaves the file's
`-v` in the vector next to the cluster -/
example :
    (match mergeFile exTable [parseArg "-v".toList, parseArg "-v".toList] [("verbose".toList, .str "1".toList)] with
     | .ok a => a.map Arg.render | .error _ => []) = ["-v".toList, "-v".toList] ∧
    (match mergeFile exTable [parseArg "-vv".toList] [("verbose".toList, .str "1".toList)] with
     | .ok a => a.map Arg.render | .error _ => []) = ["-v".toList, "-vv".toList] := by decide +kernel

/-- `[DEFAULT]` entries reach every section: a key set only there is applied to pydoctor, one the section sets
itself keeps the section's value (INI semantics of configparser; pinned, not a defect) -/
theorem default_section_leaks :
    iniItems true ["tool:pydoctor".toList]
      [("DEFAULT".toList, [("project-name".toList, "leaked".toList), ("verbose".toList, "3".toList)]),
       ("tool:pydoctor".toList, [("verbose".toList, "1".toList)])] =
    some (some [("verbose".toList, .str "1".toList), ("project-name".toList, .str "leaked".toList)]) := by
  decide +kernel

theorem sectionItems_spec (defaults own : List (Str × Str)) :
    (∀ kv ∈ own, kv ∈ sectionItems defaults own) ∧
    (∀ d ∈ defaults, (∀ o ∈ own, o.1 ≠ d.1) → d ∈ sectionItems defaults own) ∧
    (∀ d ∈ defaults, (∃ o ∈ own, o.1 = d.1) → d ∈ sectionItems defaults own → d ∈ own) := by
  refine ⟨?_, ?_, ?_⟩
  · intro kv h; simp [sectionItems, h]
  · intro d hd hno
    simp only [sectionItems, List.mem_append, List.mem_filter, Bool.not_eq_true', List.any_eq_false, beq_iff_eq]
    exact Or.inr ⟨hd, fun o ho => hno o ho⟩
  · intro d _ ⟨o, ho, he⟩ hm
    simp only [sectionItems, List.mem_append, List.mem_filter, Bool.not_eq_true', List.any_eq_false, beq_iff_eq] at hm
    rcases hm with h | ⟨_, h⟩
    · exact h
    · exact absurd he (h o ho)

/-! ## Follow-up: the value check of `ValidatorParser` (ae278e0) and the text of TOML booleans (67194dc) -/

/-- a file with a value its action cannot take is refused as a whole: option error, exit 2 -/
theorem bad_value_refused (T : List Opt) (a : List Arg) (d : List (Str × FileVal)) (h : valuesBad T d = true) :
    mergeFile T a d = .error .badValue := by
  simp [mergeFile, h]

theorem convertItem_no_traceback (o : Opt) (v : FileVal) (h : badValue o v = false) :
    convertItem o v ≠ .error .assertion ∧ convertItem o v ≠ .error .intValueError := by
  unfold badValue at h
  unfold convertItem
  cases hl : o.flags.getLast? with
  | none => simp
  | some last =>
    cases v with
    | list l =>
      cases hk : o.kind <;> simp [hk] at h ⊢
    | str s =>
      cases hk : o.kind
      · simp
      · simp
      · -- flag: true word / false word / badBool
        simp only
        by_cases h1 : lowerAscii s ∈ trueWords
        · simp [h1]
        · by_cases h2 : lowerAscii s ∈ falseWords <;> simp [h1, h2]
      · -- count
        simp only
        by_cases h1 : lowerAscii s ∈ trueWords
        · simp [h1]
        · by_cases h2 : lowerAscii s ∈ falseWords
          · simp [h1, h2]
          · simp only [hk] at h
            cases hq : pyInt s with
            | none => simp [h1, h2, hq] at h
            | some n => simp [h1, h2]

theorem configArgs_no_traceback (T : List Opt) (args : List Arg) (items : List (Str × FileVal))
    (h : ∀ kv ∈ items, itemBad T kv = false) :
    configArgs T args items ≠ .error .assertion ∧ configArgs T args items ≠ .error .intValueError := by
  induction items with
  | nil => simp [configArgs]
  | cons kv more ih =>
    have hkv := h kv (by simp)
    have ih' := ih (fun x hx => h x (by simp [hx]))
    have hitem : itemArgs T args kv ≠ .error .assertion ∧ itemArgs T args kv ≠ .error .intValueError := by
      unfold itemArgs
      unfold itemBad at hkv
      cases hl : lookupKey T kv.1 with
      | none =>
        simp only
        split
        · simp
        · cases kv.2 <;> simp
      | some o =>
        simp only [hl] at hkv ⊢
        split
        · simp
        · exact convertItem_no_traceback o kv.2 hkv
    simp only [configArgs]
    cases h1 : itemArgs T args kv with
    | error e =>
      simp only
      constructor <;> intro he <;> simp only [MergeR.error.injEq] at he <;> subst he
      · exact hitem.1 h1
      · exact hitem.2 h1
    | ok a =>
      cases h2 : configArgs T args more with
      | error e =>
        simp only
        constructor <;> intro he <;> simp only [MergeR.error.injEq] at he <;> subst he
        · exact ih'.1 h2
        · exact ih'.2 h2
      | ok b => simp

/-- **no traceback from a config value** (since ae278e0): behind the validator the merge of a file never ends in the
`AssertionError` / `ValueError` of configargparse's conversion — a bad value is an option error -/
theorem mergeFile_no_traceback (T : List Opt) (a : List Arg) (d : List (Str × FileVal)) :
    mergeFile T a d ≠ .error .assertion ∧ mergeFile T a d ≠ .error .intValueError := by
  unfold mergeFile
  cases hb : valuesBad T d with
  | true => simp
  | false =>
    simp only [Bool.false_eq_true, if_false]
    have hall : ∀ kv ∈ (validate T d).1, itemBad T kv = false := by
      intro kv hkv
      simp only [validate, List.mem_filter] at hkv
      simp only [valuesBad, List.any_eq_false] at hb
      simpa using hb kv hkv.1
    have hc := configArgs_no_traceback T a (validate T d).1 hall
    unfold mergeOne
    cases h : configArgs T a (validate T d).1 with
    | error e =>
      simp only
      constructor <;> intro he <;> simp only [MergeR.error.injEq] at he <;> subst he
      · exact hc.1 h
      · exact hc.2 h
    | ok x => simp

def MergeR.err {α : Type} : MergeR α → Option MergeErr
  | .error e => some e
  | .ok _ => none
def MergeR.val {α : Type} : MergeR α → Option α
  | .ok a => some a
  | .error _ => none

/-- HISTORICAL counterexamples (fixed by ae278e0): `verbose = x` and a list for a flag reached configargparse and
escaped as ValueError / AssertionError; today both are option errors -/
theorem bad_count_old_counterexample :
    (mergeFileOld exTable [] [("verbose".toList, .str "x".toList)]).err = some .intValueError ∧
    (mergeFileOld exTable [] [("warnings-as-errors".toList, .list ["true".toList])]).err = some .assertion ∧
    (mergeFile exTable [] [("verbose".toList, .str "x".toList)]).err = some .badValue ∧
    (mergeFile exTable [] [("warnings-as-errors".toList, .list ["true".toList])]).err = some .badValue ∧
    (mergeFile exTable [] [("verbose".toList, .str " 2".toList)]).val =
      some [parseArg "--verbose".toList, parseArg "--verbose".toList] := by
  decide +kernel

/-- HISTORICAL counterexample (fixed by 67194dc): a TOML boolean for a string option read `True`; today it is the
word an INI file or the command line carries (inside an array `str(i)` still capitalises) -/
theorem toml_bool_text_old_counterexample :
    tomlItemOld (.scalar (.bool true)) = some (.str "True".toList) ∧
    tomlItem (.scalar (.bool true)) = some (.str "true".toList) ∧
    tomlItem (.scalar (.bool false)) = some (.str "false".toList) ∧
    tomlItem (.list [.bool true]) = some (.list ["True".toList]) := by decide +kernel

/-! ## Hunter round: kernel-checked witnesses of what the code does on the reported inputs (all open findings)

The full-strength readings "an unknown key never aborts", "every string written quoted in a list is read back", "a
`*.toml` file is read with TOML rules", "every option can be set from a file" are FALSE of the code today; the statements
proved above hold under the hypotheses they name (`unknown_key_not_applied` is about the items the file parser returns,
`ini_multiline_list` about lines that do not start with a quote, `composite_toml_first` about a TOML parser that accepts
the file).  The witnesses: -/

/-- hunt/C20/2: `IniConfigParser.parse` evaluates every value before the validator sees the keys: an UNKNOWN key with a
bracketed or quoted value that does not evaluate refuses the whole file (the run aborts, exit 2) -/
theorem unknown_key_bad_value_counterexample :
    iniItems true ["tool:pydoctor".toList]
      [("tool:pydoctor".toList, [("project-name".toList, "Demo".toList), ("future-option".toList, "[a, b]".toList)])] = some none ∧
    iniItems true ["tool:pydoctor".toList]
      [("tool:pydoctor".toList, [("future-option".toList, ['\'', 'C', ':', '\\', 'x', '\'']), ("project-name".toList, "Demo".toList)])] = some none ∧
    iniItems true ["tool:pydoctor".toList]
      [("tool:pydoctor".toList, [("project-name".toList, "Demo".toList), ("future-option".toList, "a, b".toList)])] =
      some (some [("project-name".toList, .str "Demo".toList), ("future-option".toList, .str "a, b".toList)]) := by
  decide +kernel

/-- hunt/C20/4: the lines of a one-item-per-line value are not unquoted (pydoctor's own test pins this) -/
theorem ini_multiline_quoted_items_counterexample :
    iniValue true (joinLines "a".toList [['"', 'b', '"'], ['\'', 'c', ' ', '\'']]) =
      .list ["a".toList, ['"', 'b', '"'], ['\'', 'c', ' ', '\'']] ∧
    iniValue true ['"', 'b', '"'] = .str ['b'] := by decide +kernel

/-- hunt/C20/3: for `pyproject.toml` the INI parser is the fall-back: when the toml package refuses the file (it knows
TOML 0.5 only) and the INI parser accepts it, the INI reading is used, silently (instance of `composite_fallback`) -/
theorem toml_file_falls_back_to_ini {α : Type} (outcome : ParserKind → Option α) (r : α)
    (ht : outcome .toml = none) (hi : outcome .ini = some r) :
    compositeParse outcome (some "./pyproject.toml".toList) pydoctorParsers = some r := by
  rw [(composite_fallback outcome _).2.1 ht, hi]

/-- hunt/C20/1, since /repo commit 6190835: `ValidatorParser` does not count the keys of the config-file option as known,
so `config = …` in a file is an unknown key like any other: warned about once, not applied (instance of
`unknown_key_filtered` on a table without that option) -/
theorem config_key_unknown :
    (validate exTable [("config".toList, .str "extra.ini".toList), ("project-name".toList, .str "x".toList)]).2 = ["config".toList] ∧
    (mergeFile exTable [] [("config".toList, .str "extra.ini".toList), ("project-name".toList, .str "x".toList)]).val =
      some [parseArg "--project-name=x".toList] := by decide +kernel

/-- HISTORICAL counterexample (fixed by 6190835): with the config-file option in the validator's table the key `config` was
known: no warning, and the item only became a late `--config=…` argument — no file was read for it -/
theorem config_key_old_counterexample :
    (validate (⟨["-c".toList, "--config".toList], .store⟩ :: exTable) [("config".toList, .str "extra.ini".toList)]).2 = [] ∧
    (mergeFile (⟨["-c".toList, "--config".toList], .store⟩ :: exTable) [] [("config".toList, .str "extra.ini".toList)]).val =
      some [parseArg "--config=extra.ini".toList] := by decide +kernel

/-- side remark of the hunter: a source path equal to an option string counts as the option being on the command line
(`already_on_command_line` looks at every argument, also behind `--`): the file's value is dropped -/
theorem positional_equal_to_option_string_counterexample :
    (mergeFile exTable [parseArg "--".toList, parseArg "--verbose".toList] [("verbose".toList, .str "1".toList)]).val =
      some [parseArg "--".toList, parseArg "--verbose".toList] ∧
    effective ⟨["--verbose".toList, "-v".toList], .count⟩ [parseArg "--".toList, parseArg "--verbose".toList] = .count 0 := by
  decide +kernel

end Config
