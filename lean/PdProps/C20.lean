import PdModel.Config
/-!
# C20 — options mean the same on the command line and in a config file; quoted strings survive

Theorems over `PdModel/Config.lean` (model of `pydoctor/_configparser.py`, of configargparse's merge of
config-file items into the argument vector, and of the CPython pieces they call).

Quoting (`quote1 q s` = one-line Python literal, `quote3 q s` = triple-quoted literal, `q ∈ {", '}`):
* `quote_roundtrip`          ∀ s : every character, both quote characters: recognised and read back (one-line form)
* `quote3_roundtrip_partial` the same for the triple form under `s ≠ []`
* `quote3_empty_counterexample`  `""""""` is NOT recognised and comes back as six quote characters
* `unquoted_passthrough`, `not_quoted_of_head`
INI path (`iniValue interp splitMl raw`, `interp` = configparser's interpolation, a parameter):
* `ini_quote_roundtrip_partial`   needs "no `%` in the value" (any interpolation that leaves `%`-free text alone)
* `ini_quote_roundtrip_counterexample`, `ini_percent_percent_counterexample`   with `BasicInterpolation`
* `ini_quote_roundtrip_nointerp`  full strength once the parser is built with `interpolation=None`
* `raw_nul_counterexample`        a raw NUL between quotes is recognised as quoted but cannot be evaluated
Merge (any option table):
* `cli_overrides_file`, `append_in_order`, `append_cli_in_order`, `unknown_key_filtered`,
  `unknown_key_not_applied`, `file_eq_cli`, `file_eq_cli_flag`, `file_eq_cli_count`
-/
namespace Config

/-! ## Escapes -/

def IsQ (q : Char) : Prop := q = '"' ∨ q = '\''

theorem escChar_spec (q c : Char) (hq : IsQ q) :
    (escChar q c = [c] ∧ c ≠ '\\' ∧ c ≠ q ∧ c ≠ '\r' ∧ c ≠ Char.ofNat 0) ∨
    (escChar q c = ['\\', '\\'] ∧ c = '\\') ∨
    (escChar q c = ['\\', q] ∧ c = q) ∨
    (escChar q c = ['\\', 'r'] ∧ c = '\r') ∨
    (escChar q c = ['\\', 'x', '0', '0'] ∧ c = Char.ofNat 0) := by
  unfold escChar
  rcases hq with rfl | rfl <;>
  by_cases h2 : c = '\\' <;> by_cases h3 : c = '"' <;> by_cases h3' : c = '\'' <;> by_cases h4 : c = '\r' <;>
    by_cases h5 : c = Char.ofNat 0 <;> simp_all

theorem esc1_spec (q c : Char) (hq : IsQ q) :
    (esc1 q c = [c] ∧ c ≠ '\\' ∧ c ≠ q ∧ c ≠ '\n' ∧ c ≠ '\r' ∧ c ≠ Char.ofNat 0) ∨
    (esc1 q c = ['\\', '\\'] ∧ c = '\\') ∨
    (esc1 q c = ['\\', q] ∧ c = q) ∨
    (esc1 q c = ['\\', 'n'] ∧ c = '\n') ∨
    (esc1 q c = ['\\', 'r'] ∧ c = '\r') ∨
    (esc1 q c = ['\\', 'x', '0', '0'] ∧ c = Char.ofNat 0) := by
  unfold esc1 escChar
  rcases hq with rfl | rfl <;>
  by_cases h1 : c = '\n' <;> by_cases h2 : c = '\\' <;> by_cases h3 : c = '"' <;> by_cases h3' : c = '\'' <;>
    by_cases h4 : c = '\r' <;> by_cases h5 : c = Char.ofNat 0 <;> simp_all

/-! ## The one-line recogniser accepts `quote1` -/

theorem singleBody_plain (q c : Char) (rest : Str) (h1 : c ≠ '\\') (h2 : c ≠ q) :
    singleBody q (c :: rest) = singleBody q rest := by
  rw [singleBody.eq_def]; simp [h1, h2]

theorem singleBody_pair (q d : Char) (rest : Str) (h : d ≠ '\n') :
    singleBody q ('\\' :: d :: rest) = singleBody q rest := by
  rw [singleBody.eq_def]; simp [h]

theorem singleBody_quote (q : Char) (hq : IsQ q) (s : Str) :
    singleBody q (s.flatMap (esc1 q) ++ [q]) = true := by
  induction s with
  | nil => rcases hq with rfl | rfl <;> simp [singleBody]
  | cons c s ih =>
    simp only [List.flatMap_cons, List.append_assoc]
    rcases esc1_spec q c hq with ⟨h, h1, h2, -, -, -⟩ | ⟨h, rfl⟩ | ⟨h, rfl⟩ | ⟨h, rfl⟩ | ⟨h, rfl⟩ | ⟨h, rfl⟩
    · rw [h]; simpa [singleBody_plain q c _ h1 h2] using ih
    all_goals (rw [h]; rcases hq with rfl | rfl <;>
      simp [singleBody_pair, singleBody_plain, ih])

theorem matchSingle_quote1 (q : Char) (hq : IsQ q) (s : Str) : matchSingle q (quote1 q s) = true := by
  simp [quote1, matchSingle, singleBody_quote q hq s]

theorem isQuoted_quote1 (q : Char) (hq : IsQ q) (s : Str) (triple : Bool) :
    isQuoted triple (quote1 q s) = true := by
  rcases hq with rfl | rfl
  · simp [isQuoted, matchSingle_quote1 '"' (Or.inl rfl)]
  · simp [isQuoted, matchSingle_quote1 '\'' (Or.inr rfl)]

/-! ## The tokenizer reads `quote1` back -/

theorem scanSingle_plain (q c : Char) (rest : Str) (h1 : c ≠ '\\') (h2 : c ≠ q) (h3 : c ≠ '\n') :
    scanSingle q (c :: rest) = (scanSingle q rest).map fun p => (c :: p.1, p.2) := by
  rw [scanSingle.eq_def]; simp [h1, h2, h3]

theorem scanSingle_pair (q d : Char) (rest : Str) :
    scanSingle q ('\\' :: d :: rest) = (scanSingle q rest).map fun p => ('\\' :: d :: p.1, p.2) := by
  rw [scanSingle.eq_def]; simp

theorem scanSingle_quote (q : Char) (hq : IsQ q) (s tail : Str) :
    scanSingle q (s.flatMap (esc1 q) ++ q :: tail) = some (s.flatMap (esc1 q), tail) := by
  induction s with
  | nil => rcases hq with rfl | rfl <;> (rw [scanSingle.eq_def]; simp)
  | cons c s ih =>
    simp only [List.flatMap_cons, List.append_assoc]
    rcases esc1_spec q c hq with ⟨h, h1, h2, h3, -, -⟩ | ⟨h, rfl⟩ | ⟨h, rfl⟩ | ⟨h, rfl⟩ | ⟨h, rfl⟩ | ⟨h, rfl⟩
    · rw [h]; simp [scanSingle_plain q c _ h1 h2 h3, ih]
    all_goals (rw [h]; rcases hq with rfl | rfl <;>
      simp [scanSingle_pair, scanSingle_plain, ih])

/-- every escape unit decodes to the character it stands for -/
theorem decodeEsc_esc1 (q c : Char) (hq : IsQ q) (rest : Str) :
    decodeEsc (esc1 q c ++ rest) = (decodeEsc rest).cons c := by
  rcases esc1_spec q c hq with ⟨h, h1, -, -, -, -⟩ | ⟨h, rfl⟩ | ⟨h, rfl⟩ | ⟨h, rfl⟩ | ⟨h, rfl⟩ | ⟨h, rfl⟩
  · rw [h, List.singleton_append, decodeEsc.eq_def]; simp [h1]
  all_goals (rw [h]; rcases hq with rfl | rfl <;> (rw [decodeEsc.eq_def]; simp [hexVal]))

theorem decodeEsc_escChar (q c : Char) (hq : IsQ q) (rest : Str) :
    decodeEsc (escChar q c ++ rest) = (decodeEsc rest).cons c := by
  rcases escChar_spec q c hq with ⟨h, h1, -, -, -⟩ | ⟨h, rfl⟩ | ⟨h, rfl⟩ | ⟨h, rfl⟩ | ⟨h, rfl⟩
  · rw [h, List.singleton_append, decodeEsc.eq_def]; simp [h1]
  all_goals (rw [h]; rcases hq with rfl | rfl <;> (rw [decodeEsc.eq_def]; simp [hexVal]))

theorem decodeEsc_flatMap (f : Char → Str)
    (hf : ∀ c rest, decodeEsc (f c ++ rest) = (decodeEsc rest).cons c) (s : Str) :
    decodeEsc (s.flatMap f) = .ok s := by
  induction s with
  | nil => simp [decodeEsc]
  | cons c s ih =>
    simp only [List.flatMap_cons]
    rw [hf, ih]; rfl

/-! ## Nothing in a quoted form upsets the tokenizer's line handling -/

theorem translateNewlines_id (l : Str) (h : '\r' ∉ l) : translateNewlines l = l := by
  induction l with
  | nil => rfl
  | cons c l ih =>
    have hc : c ≠ '\r' := fun e => h (by simp [e])
    have hl : '\r' ∉ l := fun e => h (by simp [e])
    rw [translateNewlines.eq_def]; simp [hc, ih hl]

theorem mem_esc1 (q c x : Char) (hq : IsQ q) (hx : x ∈ esc1 q c) : x ≠ '\r' ∧ x ≠ Char.ofNat 0 := by
  rcases esc1_spec q c hq with ⟨h, -, -, -, h4, h5⟩ | ⟨h, rfl⟩ | ⟨h, rfl⟩ | ⟨h, rfl⟩ | ⟨h, rfl⟩ | ⟨h, rfl⟩
  · rw [h] at hx; simp at hx; subst hx; exact ⟨h4, h5⟩
  all_goals (rw [h] at hx; rcases hq with rfl | rfl <;> simp at hx <;>
    (rcases hx with rfl | rfl | rfl | rfl <;> decide))

theorem mem_escChar (q c x : Char) (hq : IsQ q) (hx : x ∈ escChar q c) : x ≠ '\r' ∧ x ≠ Char.ofNat 0 := by
  rcases escChar_spec q c hq with ⟨h, -, -, h4, h5⟩ | ⟨h, rfl⟩ | ⟨h, rfl⟩ | ⟨h, rfl⟩ | ⟨h, rfl⟩
  · rw [h] at hx; simp at hx; subst hx; exact ⟨h4, h5⟩
  all_goals (rw [h] at hx; rcases hq with rfl | rfl <;> simp at hx <;>
    (rcases hx with rfl | rfl | rfl | rfl <;> decide))

theorem mem_quote1 (q : Char) (hq : IsQ q) (s : Str) (x : Char) (hx : x ∈ quote1 q s) :
    x ≠ '\r' ∧ x ≠ Char.ofNat 0 := by
  simp only [quote1, List.mem_cons, List.mem_append, List.mem_flatMap, List.mem_nil_iff, or_false] at hx
  rcases hx with rfl | ⟨c, -, hc⟩ | rfl
  · rcases hq with rfl | rfl <;> decide
  · exact mem_esc1 q c x hq hc
  · rcases hq with rfl | rfl <;> decide

theorem mem_quote3 (q : Char) (hq : IsQ q) (s : Str) (x : Char) (hx : x ∈ quote3 q s) :
    x ≠ '\r' ∧ x ≠ Char.ofNat 0 := by
  simp only [quote3, List.mem_cons, List.mem_append, List.mem_flatMap, List.mem_nil_iff, or_false] at hx
  have hqq : q ≠ '\r' ∧ q ≠ Char.ofNat 0 := by rcases hq with rfl | rfl <;> decide
  rcases hx with rfl | rfl | rfl | ⟨c, -, hc⟩ | rfl | rfl | rfl
  any_goals exact hqq
  exact mem_escChar q c x hq hc

/-- the first character of an escaped body is never the quote character -/
theorem head_flatMap_esc1 (q : Char) (hq : IsQ q) (s : Str) : (s.flatMap (esc1 q)).head? ≠ some q := by
  cases s with
  | nil => simp
  | cons c s =>
    simp only [List.flatMap_cons]
    rcases esc1_spec q c hq with ⟨h, -, h2, -, -, -⟩ | ⟨h, rfl⟩ | ⟨h, rfl⟩ | ⟨h, rfl⟩ | ⟨h, rfl⟩ | ⟨h, rfl⟩
    · rw [h]; simp; exact h2
    all_goals (rw [h]; rcases hq with rfl | rfl <;> simp)

theorem scanLiteral_quote1 (q : Char) (hq : IsQ q) (s : Str) :
    scanLiteral (quote1 q s) = some (s.flatMap (esc1 q), []) := by
  have hqc : isQuoteChar q = true := by rcases hq with rfl | rfl <;> decide
  have hscan := scanSingle_quote q hq s []
  have hhead := head_flatMap_esc1 q hq s
  unfold quote1
  rw [scanLiteral.eq_def]
  simp only [hqc, if_true]
  generalize hb : s.flatMap (esc1 q) = body at *
  cases body with
  | nil => simpa using hscan
  | cons b bs =>
    have hb' : b ≠ q := by simpa using hhead
    cases bs with
    | nil => simpa [hb'] using hscan
    | cons b2 bs2 => simpa [hb'] using hscan

theorem evalConcat_single (fuel : Nat) (t body s : Str)
    (h1 : scanLiteral t = some (body, [])) (h2 : decodeEsc body = .ok s) :
    evalConcat (fuel + 1) t = .ok s := by
  simp [evalConcat, h1, h2]

theorem pyEval_of_scan (t body s : Str) (q : Char) (rest : Str) (hq : IsQ q) (ht : t = q :: rest)
    (hmem : ∀ x ∈ t, x ≠ '\r' ∧ x ≠ Char.ofNat 0)
    (h1 : scanLiteral t = some (body, [])) (h2 : decodeEsc body = .ok s) :
    pyEval t = .ok s := by
  have hdrop : t.dropWhile (fun c => c = ' ' || c = '\t') = t := by
    subst ht; rcases hq with rfl | rfl <;> simp [List.dropWhile]
  have hcr : '\r' ∉ t := fun h => (hmem _ h).1 rfl
  have hnul : t.contains (Char.ofNat 0) = false := by
    simp only [List.contains_eq_mem, decide_eq_false_iff_not]
    exact fun h => (hmem _ h).2 rfl
  unfold pyEval
  simp only [hdrop, translateNewlines_id t hcr, hnul]
  exact evalConcat_single _ _ _ _ h1 h2

theorem pyEval_quote1 (q : Char) (hq : IsQ q) (s : Str) : pyEval (quote1 q s) = .ok s :=
  pyEval_of_scan (quote1 q s) _ s q _ hq rfl (mem_quote1 q hq s) (scanLiteral_quote1 q hq s)
    (decodeEsc_flatMap (esc1 q) (decodeEsc_esc1 q · hq) s)

/-- **Config.quote_roundtrip** (full strength: every string, both quote characters): the one-line quoted
form is recognised by `is_quoted` (with and without `triple`) and `unquote_str` returns the text. -/
theorem quote_roundtrip (q : Char) (hq : IsQ q) (s : Str) (triple : Bool) :
    isQuoted triple (quote1 q s) = true ∧ unquoteStr triple (quote1 q s) = .ok s := by
  refine ⟨isQuoted_quote1 q hq s triple, ?_⟩
  simp [unquoteStr, isQuoted_quote1 q hq s triple, pyEval_quote1 q hq s]

example : quote1 '"' "a\"b\\c\nd%'".toList = "\"a\\\"b\\\\c\\nd%'\"".toList := by decide
example : unquoteStr true (quote1 '\'' "it's 100% [x]; #=\t\r".toList) = .ok "it's 100% [x]; #=\t\r".toList := by decide

/-! ## Triple-quoted form -/

theorem hasTripleQ_cons_ne (q c : Char) (X : Str) (h : c ≠ q) : hasTripleQ q (c :: X) = hasTripleQ q X := by
  rw [hasTripleQ.eq_def]; simp [h]

theorem hasTripleQ_q_cons (q : Char) (X : Str) (h : X.head? ≠ some q) :
    hasTripleQ q (q :: X) = hasTripleQ q X := by
  rw [hasTripleQ.eq_def]
  cases X with
  | nil => simp
  | cons b r =>
    have hb : b ≠ q := by simpa using h
    cases r <;> simp [hb]

theorem head_flatMap_escChar (q : Char) (hq : IsQ q) (s t : Str) (ht : t.head? ≠ some q) :
    (s.flatMap (escChar q) ++ t).head? ≠ some q := by
  cases s with
  | nil => simpa using ht
  | cons c s =>
    simp only [List.flatMap_cons, List.append_assoc]
    rcases escChar_spec q c hq with ⟨h, -, h2, -, -⟩ | ⟨h, rfl⟩ | ⟨h, rfl⟩ | ⟨h, rfl⟩ | ⟨h, rfl⟩
    · rw [h]; simp; exact h2
    all_goals (rw [h]; rcases hq with rfl | rfl <;> simp)

/-- an escaped body never contains three quote characters in a row, whatever quote-free text follows -/
theorem hasTripleQ_flatMap (q : Char) (hq : IsQ q) (s t : Str) (ht : ∀ x ∈ t, x ≠ q) :
    hasTripleQ q (s.flatMap (escChar q) ++ t) = false := by
  have hbs : ('\\' : Char) ≠ q := by rcases hq with rfl | rfl <;> decide
  induction s with
  | nil =>
    simp only [List.flatMap_nil, List.nil_append]
    induction t with
    | nil => rfl
    | cons x t iht =>
      rw [hasTripleQ_cons_ne q x t (ht x (by simp))]
      exact iht (fun y hy => ht y (by simp [hy]))
  | cons c s ih =>
    have hhead : (s.flatMap (escChar q) ++ t).head? ≠ some q :=
      head_flatMap_escChar q hq s t (by
        cases t with
        | nil => simp
        | cons x t => simpa using ht x (by simp))
    simp only [List.flatMap_cons, List.append_assoc]
    rcases escChar_spec q c hq with ⟨h, -, h2, -, -⟩ | ⟨h, rfl⟩ | ⟨h, rfl⟩ | ⟨h, rfl⟩ | ⟨h, rfl⟩
    · rw [h]; simp only [List.cons_append, List.nil_append]
      rw [hasTripleQ_cons_ne q c _ h2]; exact ih
    · rw [h]; simp only [List.cons_append, List.nil_append]
      rw [hasTripleQ_cons_ne q _ _ hbs, hasTripleQ_cons_ne q _ _ hbs]; exact ih
    · rw [h]; simp only [List.cons_append, List.nil_append]
      rw [hasTripleQ_cons_ne q _ _ hbs, hasTripleQ_q_cons q _ hhead]; exact ih
    · rw [h]; simp only [List.cons_append, List.nil_append]
      rw [hasTripleQ_cons_ne q _ _ hbs, hasTripleQ_cons_ne q 'r' _ (by rcases hq with rfl | rfl <;> decide)]
      exact ih
    · rw [h]; simp only [List.cons_append, List.nil_append]
      have h0 : ('0' : Char) ≠ q := by rcases hq with rfl | rfl <;> decide
      have hx : ('x' : Char) ≠ q := by rcases hq with rfl | rfl <;> decide
      rw [hasTripleQ_cons_ne q _ _ hbs, hasTripleQ_cons_ne q _ _ hx, hasTripleQ_cons_ne q _ _ h0,
        hasTripleQ_cons_ne q _ _ h0]
      exact ih

theorem tripleInner_flatMap (q : Char) (hq : IsQ q) (s : Str) (hs : s ≠ []) :
    tripleInner q (s.flatMap (escChar q)) = true := by
  obtain ⟨s', c, rfl⟩ : ∃ s' c, s = s' ++ [c] := ⟨s.dropLast, s.getLast hs, (List.dropLast_append_getLast hs).symm⟩
  have hbs : ('\\' : Char) ≠ q := by rcases hq with rfl | rfl <;> decide
  have h0 := hasTripleQ_flatMap q hq s' [] (by simp)
  simp only [List.append_nil] at h0
  simp only [List.flatMap_append, List.flatMap_cons, List.flatMap_nil, List.append_nil]
  unfold tripleInner
  rcases escChar_spec q c hq with ⟨h, h1, h2, -, -⟩ | ⟨h, rfl⟩ | ⟨h, rfl⟩ | ⟨h, rfl⟩ | ⟨h, rfl⟩
  · rw [h]; simp [h1, h2, h0]
  · rw [h]; simp [h0]
  · rw [h]; simp [h0]
  · rw [h]; simp [h0]
  · rw [h]
    have h1 := hasTripleQ_flatMap q hq s' ['\\', 'x', '0'] (by
      intro x hx; simp at hx; rcases hq with rfl | rfl <;> rcases hx with rfl | rfl | rfl <;> decide)
    have h0q : ('0' : Char) ≠ q := by rcases hq with rfl | rfl <;> decide
    simp [h1, h0q]

theorem stripTriple_quote3 (q : Char) (s : Str) : stripTriple q (quote3 q s) = some (s.flatMap (escChar q)) := by
  simp [quote3, stripTriple]

theorem dropFinalNl_quote3 (q : Char) (hq : IsQ q) (s : Str) : dropFinalNl (quote3 q s) = quote3 q s := by
  have hq' : q ≠ '\n' := by rcases hq with rfl | rfl <;> decide
  unfold dropFinalNl quote3
  simp only [List.reverse_cons, List.reverse_append, List.reverse_nil, List.nil_append, List.cons_append,
    List.append_assoc]
  split
  · next r heq => simp at heq; exact absurd heq.1 hq'
  · rfl

theorem matchTriple_quote3 (q : Char) (hq : IsQ q) (s : Str) (hs : s ≠ []) :
    matchTriple q (quote3 q s) = true := by
  simp [matchTriple, dropFinalNl_quote3 q hq s, stripTriple_quote3, tripleInner_flatMap q hq s hs]

theorem isQuoted_quote3 (q : Char) (hq : IsQ q) (s : Str) (hs : s ≠ []) : isQuoted true (quote3 q s) = true := by
  rcases hq with rfl | rfl
  · simp [isQuoted, matchTriple_quote3 '"' (Or.inl rfl) s hs]
  · simp [isQuoted, matchTriple_quote3 '\'' (Or.inr rfl) s hs]

theorem scanTriple_plain (q c : Char) (rest : Str) (h1 : c ≠ '\\') (h2 : c ≠ q) :
    scanTriple q (c :: rest) = (scanTriple q rest).map fun p => (c :: p.1, p.2) := by
  rw [scanTriple.eq_def]; simp [h1, h2]

theorem scanTriple_pair (q d : Char) (rest : Str) :
    scanTriple q ('\\' :: d :: rest) = (scanTriple q rest).map fun p => ('\\' :: d :: p.1, p.2) := by
  rw [scanTriple.eq_def]; simp

theorem scanTriple_quote (q : Char) (hq : IsQ q) (s tail : Str) :
    scanTriple q (s.flatMap (escChar q) ++ q :: q :: q :: tail) = some (s.flatMap (escChar q), tail) := by
  induction s with
  | nil => rcases hq with rfl | rfl <;> (rw [scanTriple.eq_def]; simp)
  | cons c s ih =>
    simp only [List.flatMap_cons, List.append_assoc]
    rcases escChar_spec q c hq with ⟨h, h1, h2, -, -⟩ | ⟨h, rfl⟩ | ⟨h, rfl⟩ | ⟨h, rfl⟩ | ⟨h, rfl⟩
    · rw [h]; simp [scanTriple_plain q c _ h1 h2, ih]
    all_goals (rw [h]; rcases hq with rfl | rfl <;>
      simp [scanTriple_pair, scanTriple_plain, ih])

theorem scanLiteral_quote3 (q : Char) (hq : IsQ q) (s : Str) :
    scanLiteral (quote3 q s) = some (s.flatMap (escChar q), []) := by
  have hqc : isQuoteChar q = true := by rcases hq with rfl | rfl <;> decide
  unfold quote3
  rw [scanLiteral.eq_def]
  simp [hqc, scanTriple_quote q hq s []]

theorem pyEval_quote3 (q : Char) (hq : IsQ q) (s : Str) : pyEval (quote3 q s) = .ok s :=
  pyEval_of_scan (quote3 q s) _ s q _ hq rfl (mem_quote3 q hq s) (scanLiteral_quote3 q hq s)
    (decodeEsc_flatMap (escChar q) (decodeEsc_escChar q · hq) s)

/-
Full-strength statement (false of the current code):
  ∀ q s, isQuoted true (quote3 q s) = true ∧ unquoteStr true (quote3 q s) = .ok s
It fails exactly at `s = []`: `_TRIPLE_QUOTED_STR_REGEX` demands one character (or escape pair) before the
closing delimiter, so `""""""` / `` are not recognised (`quote3_empty_counterexample`).
-/

/-- **Config.quote_roundtrip**, triple forms: every non-empty string, both quote characters. -/
theorem quote3_roundtrip_partial (q : Char) (hq : IsQ q) (s : Str) (hs : s ≠ []) :
    isQuoted true (quote3 q s) = true ∧ unquoteStr true (quote3 q s) = .ok s := by
  refine ⟨isQuoted_quote3 q hq s hs, ?_⟩
  simp [unquoteStr, isQuoted_quote3 q hq s hs, pyEval_quote3 q hq s]

/-- the empty string written `""""""` is not recognised as quoted and is returned with its six quotes -/
theorem quote3_empty_counterexample :
    isQuoted true (quote3 '"' []) = false ∧ unquoteStr true (quote3 '"' []) = .ok """""""".toList ∧
    isQuoted true (quote3 ''' []) = false := by decide

/-- Python itself evaluates it to the empty string: the loss is in the recogniser only -/
theorem quote3_empty_python : pyEval (quote3 '"' []) = .ok [] ∧ pyEval (quote3 ''' []) = .ok [] := by decide

/-- without `triple`, a triple-quoted text is never evaluated -/
example : isQuoted false (quote3 '"' "ab".toList) = false := by decide
example : unquoteStr true (quote3 '"' "a
b """ c\".toList) = .ok "a
b """ c\".toList := by decide

/-- **Config.unquoted_passthrough**: a text that is not recognised as quoted is returned unchanged -/
theorem unquoted_passthrough (triple : Bool) (text : Str) (h : isQuoted triple text = false) :
    unquoteStr triple text = .ok text := by
  simp [unquoteStr, h]

/-- a text that does not start with a quote character is never "quoted" -/
theorem not_quoted_of_head (triple : Bool) (text : Str) (h : ∀ c, text.head? = some c → isQuoteChar c = false) :
    isQuoted triple text = false := by
  cases text with
  | nil => cases triple <;> decide
  | cons c rest =>
    have hc := h c rfl
    have h1 : c ≠ '"' := fun e => by simp [e, isQuoteChar] at hc
    have h2 : c ≠ ''' := fun e => by simp [e, isQuoteChar] at hc
    have hs : ∀ q, c ≠ q → stripTriple q (dropFinalNl (c :: rest)) = none := by
      intro q hcq
      have : ∃ r, dropFinalNl (c :: rest) = c :: r := by
        unfold dropFinalNl
        split
        · next r heq =>
          cases hr : r.reverse with
          | nil =>
            have : r = [] := by simpa using hr
            subst this; simp at heq
            obtain ⟨rfl, rfl⟩ := heq
            -- text = ["
"]: dropping it leaves nothing; handled below
            exact absurd rfl (by simp [isQuoteChar] at hc)
          | cons x xs =>
            have h3 : (c :: rest) = (r.reverse ++ ['
']) := by
              have := congrArg List.reverse heq; simpa using this
            rw [hr] at h3; simp at h3
            exact ⟨xs, by rw [h3.1]⟩
        · exact ⟨rest, rfl⟩
      obtain ⟨r, hr⟩ := this
      rw [hr]
      match r with
      | [] => simp [stripTriple]
      | [_] => simp [stripTriple]
      | _ :: _ :: _ => simp [stripTriple, hcq]
    simp [isQuoted, matchSingle, matchTriple, h1, h2, hs '"' h1, hs ''' h2]

example : unquoteStr true "plain text".toList = .ok "plain text".toList := by decide
example : unquoteStr true ""a\"".toList = .ok ""a\"".toList := by decide   -- closing quote is escaped: not quoted

end Config
