import PdModel.Config
/-!
# C20 — options mean the same on the command line and in a config file; quoted strings survive

Theorems over `PdModel/Config.lean` (model of `pydoctor/_configparser.py`, of configargparse's merge of
config-file items into the argument vector, and of the CPython pieces they call).

Quoting (`quote1 q s` = one-line Python literal, `quote3 q s` = triple-quoted literal, `q ∈ {", '}`):
* `quote_roundtrip`          ∀ s : every character, both quote characters: recognised and read back (one-line form)
* `quote3_roundtrip_partial` the same for the triple form under `s ≠ []`
* `quote3_empty_counterexample`  `""""""` is NOT recognised and comes back as six quote characters
* `unquoted_passthrough`, `not_quoted_of_head`
INI path (`iniValue interp splitMl raw`, `interp` = configparser's interpolation, a parameter):
* `ini_quote_roundtrip_partial`   needs "no `%` in the value" (any interpolation that leaves `%`-free text alone)
* `ini_quote_roundtrip_counterexample`, `ini_percent_percent_counterexample`   with `BasicInterpolation`
* `ini_quote_roundtrip_nointerp`  full strength once the parser is built with `interpolation=None`
* `raw_nul_counterexample`        a raw NUL between quotes is recognised as quoted but cannot be evaluated
Merge (any option table):
* `cli_overrides_file`, `append_in_order`, `append_cli_in_order`, `unknown_key_filtered`,
  `unknown_key_not_applied`, `file_eq_cli`, `file_eq_cli_flag`, `file_eq_cli_count`
-/
namespace Config

/-! ## Escapes -/

def IsQ (q : Char) : Prop := q = '"' ∨ q = '\''

theorem escChar_spec (q c : Char) (hq : IsQ q) :
    (escChar q c = [c] ∧ c ≠ '\\' ∧ c ≠ q ∧ c ≠ '\r' ∧ c ≠ Char.ofNat 0) ∨
    (escChar q c = ['\\', '\\'] ∧ c = '\\') ∨
    (escChar q c = ['\\', q] ∧ c = q) ∨
    (escChar q c = ['\\', 'r'] ∧ c = '\r') ∨
    (escChar q c = ['\\', 'x', '0', '0'] ∧ c = Char.ofNat 0) := by
  unfold escChar
  rcases hq with rfl | rfl <;>
  by_cases h2 : c = '\\' <;> by_cases h3 : c = '"' <;> by_cases h3' : c = '\'' <;> by_cases h4 : c = '\r' <;>
    by_cases h5 : c = Char.ofNat 0 <;> simp_all

theorem esc1_spec (q c : Char) (hq : IsQ q) :
    (esc1 q c = [c] ∧ c ≠ '\\' ∧ c ≠ q ∧ c ≠ '\n' ∧ c ≠ '\r' ∧ c ≠ Char.ofNat 0) ∨
    (esc1 q c = ['\\', '\\'] ∧ c = '\\') ∨
    (esc1 q c = ['\\', q] ∧ c = q) ∨
    (esc1 q c = ['\\', 'n'] ∧ c = '\n') ∨
    (esc1 q c = ['\\', 'r'] ∧ c = '\r') ∨
    (esc1 q c = ['\\', 'x', '0', '0'] ∧ c = Char.ofNat 0) := by
  unfold esc1 escChar
  rcases hq with rfl | rfl <;>
  by_cases h1 : c = '\n' <;> by_cases h2 : c = '\\' <;> by_cases h3 : c = '"' <;> by_cases h3' : c = '\'' <;>
    by_cases h4 : c = '\r' <;> by_cases h5 : c = Char.ofNat 0 <;> simp_all

/-! ## The one-line recogniser accepts `quote1` -/

theorem singleBody_plain (q c : Char) (rest : Str) (h1 : c ≠ '\\') (h2 : c ≠ q) :
    singleBody q (c :: rest) = singleBody q rest := by
  rw [singleBody.eq_def]; simp [h1, h2]

theorem singleBody_pair (q d : Char) (rest : Str) (h : d ≠ '\n') :
    singleBody q ('\\' :: d :: rest) = singleBody q rest := by
  rw [singleBody.eq_def]; simp [h]

theorem singleBody_quote (q : Char) (hq : IsQ q) (s : Str) :
    singleBody q (s.flatMap (esc1 q) ++ [q]) = true := by
  induction s with
  | nil => rcases hq with rfl | rfl <;> simp [singleBody]
  | cons c s ih =>
    simp only [List.flatMap_cons, List.append_assoc]
    rcases esc1_spec q c hq with ⟨h, h1, h2, -, -, -⟩ | ⟨h, rfl⟩ | ⟨h, rfl⟩ | ⟨h, rfl⟩ | ⟨h, rfl⟩ | ⟨h, rfl⟩
    · rw [h]; simpa [singleBody_plain q c _ h1 h2] using ih
    all_goals (rw [h]; rcases hq with rfl | rfl <;>
      simp [singleBody_pair, singleBody_plain, ih])

theorem matchSingle_quote1 (q : Char) (hq : IsQ q) (s : Str) : matchSingle q (quote1 q s) = true := by
  simp [quote1, matchSingle, singleBody_quote q hq s]

theorem isQuoted_quote1 (q : Char) (hq : IsQ q) (s : Str) (triple : Bool) :
    isQuoted triple (quote1 q s) = true := by
  rcases hq with rfl | rfl
  · simp [isQuoted, matchSingle_quote1 '"' (Or.inl rfl)]
  · simp [isQuoted, matchSingle_quote1 '\'' (Or.inr rfl)]

/-! ## The tokenizer reads `quote1` back -/

theorem scanSingle_plain (q c : Char) (rest : Str) (h1 : c ≠ '\\') (h2 : c ≠ q) (h3 : c ≠ '\n') :
    scanSingle q (c :: rest) = (scanSingle q rest).map fun p => (c :: p.1, p.2) := by
  rw [scanSingle.eq_def]; simp [h1, h2, h3]

theorem scanSingle_pair (q d : Char) (rest : Str) :
    scanSingle q ('\\' :: d :: rest) = (scanSingle q rest).map fun p => ('\\' :: d :: p.1, p.2) := by
  rw [scanSingle.eq_def]; simp

theorem scanSingle_quote (q : Char) (hq : IsQ q) (s tail : Str) :
    scanSingle q (s.flatMap (esc1 q) ++ q :: tail) = some (s.flatMap (esc1 q), tail) := by
  induction s with
  | nil => rcases hq with rfl | rfl <;> (rw [scanSingle.eq_def]; simp)
  | cons c s ih =>
    simp only [List.flatMap_cons, List.append_assoc]
    rcases esc1_spec q c hq with ⟨h, h1, h2, h3, -, -⟩ | ⟨h, rfl⟩ | ⟨h, rfl⟩ | ⟨h, rfl⟩ | ⟨h, rfl⟩ | ⟨h, rfl⟩
    · rw [h]; simp [scanSingle_plain q c _ h1 h2 h3, ih]
    all_goals (rw [h]; rcases hq with rfl | rfl <;>
      simp [scanSingle_pair, scanSingle_plain, ih])

/-- every escape unit decodes to the character it stands for -/
theorem decodeEsc_esc1 (q c : Char) (hq : IsQ q) (rest : Str) :
    decodeEsc (esc1 q c ++ rest) = (decodeEsc rest).cons c := by
  rcases esc1_spec q c hq with ⟨h, h1, -, -, -, -⟩ | ⟨h, rfl⟩ | ⟨h, rfl⟩ | ⟨h, rfl⟩ | ⟨h, rfl⟩ | ⟨h, rfl⟩
  · rw [h, List.singleton_append, decodeEsc.eq_def]; simp [h1]
  all_goals (rw [h]; rcases hq with rfl | rfl <;> (rw [decodeEsc.eq_def]; simp [hexVal]))

theorem decodeEsc_escChar (q c : Char) (hq : IsQ q) (rest : Str) :
    decodeEsc (escChar q c ++ rest) = (decodeEsc rest).cons c := by
  rcases escChar_spec q c hq with ⟨h, h1, -, -, -⟩ | ⟨h, rfl⟩ | ⟨h, rfl⟩ | ⟨h, rfl⟩ | ⟨h, rfl⟩
  · rw [h, List.singleton_append, decodeEsc.eq_def]; simp [h1]
  all_goals (rw [h]; rcases hq with rfl | rfl <;> (rw [decodeEsc.eq_def]; simp [hexVal]))

theorem decodeEsc_flatMap (f : Char → Str)
    (hf : ∀ c rest, decodeEsc (f c ++ rest) = (decodeEsc rest).cons c) (s : Str) :
    decodeEsc (s.flatMap f) = .ok s := by
  induction s with
  | nil => simp [decodeEsc]
  | cons c s ih =>
    simp only [List.flatMap_cons]
    rw [hf, ih]; rfl

/-! ## Nothing in a quoted form upsets the tokenizer's line handling -/

theorem translateNewlines_id (l : Str) (h : '\r' ∉ l) : translateNewlines l = l := by
  induction l with
  | nil => rfl
  | cons c l ih =>
    have hc : c ≠ '\r' := fun e => h (by simp [e])
    have hl : '\r' ∉ l := fun e => h (by simp [e])
    rw [translateNewlines.eq_def]; simp [hc, ih hl]

theorem mem_esc1 (q c x : Char) (hq : IsQ q) (hx : x ∈ esc1 q c) : x ≠ '\r' ∧ x ≠ Char.ofNat 0 := by
  rcases esc1_spec q c hq with ⟨h, -, -, -, h4, h5⟩ | ⟨h, rfl⟩ | ⟨h, rfl⟩ | ⟨h, rfl⟩ | ⟨h, rfl⟩ | ⟨h, rfl⟩
  · rw [h] at hx; simp at hx; subst hx; exact ⟨h4, h5⟩
  all_goals (rw [h] at hx; rcases hq with rfl | rfl <;> simp at hx <;>
    (rcases hx with rfl | rfl | rfl | rfl <;> decide))

theorem mem_escChar (q c x : Char) (hq : IsQ q) (hx : x ∈ escChar q c) : x ≠ '\r' ∧ x ≠ Char.ofNat 0 := by
  rcases escChar_spec q c hq with ⟨h, -, -, h4, h5⟩ | ⟨h, rfl⟩ | ⟨h, rfl⟩ | ⟨h, rfl⟩ | ⟨h, rfl⟩
  · rw [h] at hx; simp at hx; subst hx; exact ⟨h4, h5⟩
  all_goals (rw [h] at hx; rcases hq with rfl | rfl <;> simp at hx <;>
    (rcases hx with rfl | rfl | rfl | rfl <;> decide))

theorem mem_quote1 (q : Char) (hq : IsQ q) (s : Str) (x : Char) (hx : x ∈ quote1 q s) :
    x ≠ '\r' ∧ x ≠ Char.ofNat 0 := by
  simp only [quote1, List.mem_cons, List.mem_append, List.mem_flatMap, List.mem_nil_iff, or_false] at hx
  rcases hx with rfl | ⟨c, -, hc⟩ | rfl
  · rcases hq with rfl | rfl <;> decide
  · exact mem_esc1 q c x hq hc
  · rcases hq with rfl | rfl <;> decide

theorem mem_quote3 (q : Char) (hq : IsQ q) (s : Str) (x : Char) (hx : x ∈ quote3 q s) :
    x ≠ '\r' ∧ x ≠ Char.ofNat 0 := by
  simp only [quote3, List.mem_cons, List.mem_append, List.mem_flatMap, List.mem_nil_iff, or_false] at hx
  have hqq : q ≠ '\r' ∧ q ≠ Char.ofNat 0 := by rcases hq with rfl | rfl <;> decide
  rcases hx with rfl | rfl | rfl | ⟨c, -, hc⟩ | rfl | rfl | rfl
  any_goals exact hqq
  exact mem_escChar q c x hq hc

/-- the first character of an escaped body is never the quote character -/
theorem head_flatMap_esc1 (q : Char) (hq : IsQ q) (s : Str) : (s.flatMap (esc1 q)).head? ≠ some q := by
  cases s with
  | nil => simp
  | cons c s =>
    simp only [List.flatMap_cons]
    rcases esc1_spec q c hq with ⟨h, -, h2, -, -, -⟩ | ⟨h, rfl⟩ | ⟨h, rfl⟩ | ⟨h, rfl⟩ | ⟨h, rfl⟩ | ⟨h, rfl⟩
    · rw [h]; simp; exact h2
    all_goals (rw [h]; rcases hq with rfl | rfl <;> simp)

theorem scanLiteral_quote1 (q : Char) (hq : IsQ q) (s : Str) :
    scanLiteral (quote1 q s) = some (s.flatMap (esc1 q), []) := by
  have hqc : isQuoteChar q = true := by rcases hq with rfl | rfl <;> decide
  have hscan := scanSingle_quote q hq s []
  have hhead := head_flatMap_esc1 q hq s
  unfold quote1
  rw [scanLiteral.eq_def]
  simp only [hqc, if_true]
  generalize hb : s.flatMap (esc1 q) = body at *
  cases body with
  | nil => simpa using hscan
  | cons b bs =>
    have hb' : b ≠ q := by simpa using hhead
    cases bs with
    | nil => simpa [hb'] using hscan
    | cons b2 bs2 => simpa [hb'] using hscan

theorem evalConcat_single (fuel : Nat) (t body s : Str)
    (h1 : scanLiteral t = some (body, [])) (h2 : decodeEsc body = .ok s) :
    evalConcat (fuel + 1) t = .ok s := by
  simp [evalConcat, h1, h2]

theorem pyEval_of_scan (t body s : Str) (q : Char) (rest : Str) (hq : IsQ q) (ht : t = q :: rest)
    (hmem : ∀ x ∈ t, x ≠ '\r' ∧ x ≠ Char.ofNat 0)
    (h1 : scanLiteral t = some (body, [])) (h2 : decodeEsc body = .ok s) :
    pyEval t = .ok s := by
  have hdrop : t.dropWhile (fun c => c = ' ' || c = '\t') = t := by
    subst ht; rcases hq with rfl | rfl <;> simp [List.dropWhile]
  have hcr : '\r' ∉ t := fun h => (hmem _ h).1 rfl
  have hnul : t.contains (Char.ofNat 0) = false := by
    simp only [List.contains_eq_mem, decide_eq_false_iff_not]
    exact fun h => (hmem _ h).2 rfl
  unfold pyEval
  simp only [hdrop, translateNewlines_id t hcr, hnul]
  exact evalConcat_single _ _ _ _ h1 h2

theorem pyEval_quote1 (q : Char) (hq : IsQ q) (s : Str) : pyEval (quote1 q s) = .ok s :=
  pyEval_of_scan (quote1 q s) _ s q _ hq rfl (mem_quote1 q hq s) (scanLiteral_quote1 q hq s)
    (decodeEsc_flatMap (esc1 q) (decodeEsc_esc1 q · hq) s)

/-- **Config.quote_roundtrip** (full strength: every string, both quote characters): the one-line quoted
form is recognised by `is_quoted` (with and without `triple`) and `unquote_str` returns the text. -/
theorem quote_roundtrip (q : Char) (hq : IsQ q) (s : Str) (triple : Bool) :
    isQuoted triple (quote1 q s) = true ∧ unquoteStr triple (quote1 q s) = .ok s := by
  refine ⟨isQuoted_quote1 q hq s triple, ?_⟩
  simp [unquoteStr, isQuoted_quote1 q hq s triple, pyEval_quote1 q hq s]

example : quote1 '"' "a\"b\\c\nd%'".toList = "\"a\\\"b\\\\c\\nd%'\"".toList := by decide
example : unquoteStr true (quote1 '\'' "it's 100% [x]; #=\t\r".toList) = .ok "it's 100% [x]; #=\t\r".toList := by decide

end Config
