/-
C02 — the object model is a coherent tree with a consistent name registry, in any interleaving
of duplicate definitions and re-export moves.

Theorems over `PdModel.Registry` (a transcription of `System.addObject`, `System.handleDuplicate`,
`System._objectsBelow`, `Documentable.reparent`).  The property theorems are at the bottom:
`inv_step`, `inv_run`, `Inv.invB`, `invB_run` and the spelled-out clauses.

Layers: 0 PyDict as a finite map with unique keys · 1 qualified names (`HasPath`) and the ancestor
relation (`Below`) without fuel, re-rooting · 2 the registry loops `delAll`/`addAll`, and
`freeIndex` really is free (pigeonhole + injectivity of the decimal digits) · 3 the registry
invariant `PInv` and `handleDuplicate` · 4 the tree invariant `CInv`, `addObject` · 5 `reparent`
· 6 the property theorems.
-/
import PdModel.PostProcess
import PdModel.Registry
import PdProps.C02Mod

namespace Registry

theorem inv_init : invB init = true := by decide

/-! ## Layer 0: PyDict as a finite map -/
section PyDict
variable {κ ν : Type} [DecidableEq κ]

/-- the keys of a dict are pairwise different -/
def Uniq (d : List (κ × ν)) : Prop := (d.map Prod.fst).Nodup

/-- reading back what was written -/
theorem dset_get_same (d : List (κ × ν)) (k : κ) (v : ν) : dget (dset d k v) k = some v := by
  induction d with
  | nil => simp [dset, dget]
  | cons e d ih => obtain ⟨k', v'⟩ := e; by_cases h : k' = k <;> simp [dset, dget, h, ih]

/-- writing one key does not disturb another -/
theorem dset_get_other (d : List (κ × ν)) (k k' : κ) (v : ν) (hk : k' ≠ k) :
    dget (dset d k v) k' = dget d k' := by
  induction d with
  | nil => simp [dset, dget, Ne.symm hk]
  | cons e d ih =>
    obtain ⟨k1, v1⟩ := e
    by_cases h : k1 = k
    · subst h; simp [dset, dget, Ne.symm hk]
    · by_cases h' : k1 = k'
      · subst h'; simp [dset, dget, h]
      · simp [dset, dget, h, h', ih]

/-- a deleted key is gone (when keys are unique), the others stay -/
theorem ddel_get_other (d d' : List (κ × ν)) (k k' : κ) (h : ddel d k = some d') (hk : k' ≠ k) :
    dget d' k' = dget d k' := by
  induction d generalizing d' with
  | nil => simp [ddel] at h
  | cons e d ih =>
    obtain ⟨k1, v1⟩ := e
    by_cases h1 : k1 = k
    · subst h1
      simp [ddel] at h; subst h
      simp [dget, Ne.symm hk]
    · simp only [ddel, h1, if_false, Option.map_eq_some_iff] at h
      obtain ⟨d2, hd2, rfl⟩ := h
      by_cases h' : k1 = k' <;> simp [dget, h', ih d2 hd2]

theorem ddel_none_iff (d : List (κ × ν)) (k : κ) : ddel d k = none ↔ dget d k = none := by
  induction d with
  | nil => simp [ddel, dget]
  | cons e d ih => obtain ⟨k1, v1⟩ := e; by_cases h1 : k1 = k <;> simp [ddel, dget, h1, ih]

omit [DecidableEq κ] in
theorem uniq_nil : Uniq ([] : List (κ × ν)) := by simp [Uniq]

omit [DecidableEq κ] in
theorem uniq_cons {e : κ × ν} {d : List (κ × ν)} :
    Uniq (e :: d) ↔ (∀ v, (e.1, v) ∉ d) ∧ Uniq d := by
  simp only [Uniq, List.map_cons, List.nodup_cons, List.mem_map, not_exists, not_and]
  constructor
  · rintro ⟨h1, h2⟩
    exact ⟨fun v hv => h1 (e.1, v) hv rfl, h2⟩
  · rintro ⟨h1, h2⟩
    refine ⟨?_, h2⟩
    rintro ⟨a, b⟩ hab heq
    simp only at heq
    subst heq
    exact h1 b hab

theorem mem_of_dget {d : List (κ × ν)} {k : κ} {v : ν} (h : dget d k = some v) : (k, v) ∈ d := by
  induction d with
  | nil => simp [dget] at h
  | cons e d ih =>
    obtain ⟨k1, v1⟩ := e
    by_cases h1 : k1 = k
    · subst h1; simp [dget] at h; subst h; simp
    · simp only [dget, h1, if_false] at h
      exact List.mem_cons_of_mem _ (ih h)

theorem dget_of_mem {d : List (κ × ν)} {k : κ} {v : ν} (hu : Uniq d) (h : (k, v) ∈ d) :
    dget d k = some v := by
  induction d with
  | nil => simp at h
  | cons e d ih =>
    obtain ⟨k1, v1⟩ := e
    rw [uniq_cons] at hu
    rcases List.mem_cons.1 h with h | h
    · injection h with h1 h2; subst h1; subst h2; simp [dget]
    · by_cases h1 : k1 = k
      · subst h1; exact absurd h (hu.1 v)
      · simp only [dget, h1, if_false]; exact ih hu.2 h

theorem dget_none_iff {d : List (κ × ν)} {k : κ} : dget d k = none ↔ ∀ v, (k, v) ∉ d := by
  induction d with
  | nil => simp [dget]
  | cons e d ih =>
    obtain ⟨k1, v1⟩ := e
    by_cases h1 : k1 = k
    · subst h1
      simp only [dget, if_true]
      exact ⟨fun h => (by cases h), fun h => absurd List.mem_cons_self (h v1)⟩
    · simp only [dget, h1, if_false, ih, List.mem_cons, Prod.mk.injEq]
      constructor
      · intro h v hv
        rcases hv with ⟨hk, _⟩ | hv
        · exact h1 hk.symm
        · exact h v hv
      · intro h v hv; exact h v (Or.inr hv)

theorem uniq_val {d : List (κ × ν)} {k : κ} {v v' : ν} (hu : Uniq d) (h : (k, v) ∈ d) (h' : (k, v') ∈ d) :
    v = v' := by
  have := dget_of_mem hu h
  rw [dget_of_mem hu h'] at this
  injection this with this; exact this.symm

theorem mem_dset_iff {d : List (κ × ν)} {k k' : κ} {v v' : ν} (hu : Uniq d) :
    (k', v') ∈ dset d k v ↔ (k' = k ∧ v' = v) ∨ (k' ≠ k ∧ (k', v') ∈ d) := by
  induction d with
  | nil => simp [dset]
  | cons e d ih =>
    obtain ⟨k1, v1⟩ := e
    rw [uniq_cons] at hu
    by_cases h1 : k1 = k
    · subst h1
      simp only [dset, if_true, List.mem_cons, Prod.mk.injEq]
      constructor
      · rintro (⟨a, b⟩ | h)
        · exact Or.inl ⟨a, b⟩
        · refine Or.inr ⟨?_, Or.inr h⟩
          intro hk; subst hk; exact hu.1 v' h
      · rintro (⟨a, b⟩ | ⟨a, ⟨b, _⟩ | c⟩)
        · exact Or.inl ⟨a, b⟩
        · exact absurd b a
        · exact Or.inr c
    · simp only [dset, h1, if_false, List.mem_cons, Prod.mk.injEq, ih hu.2]
      constructor
      · rintro (⟨a, b⟩ | h | h)
        · subst a; exact Or.inr ⟨fun h => h1 h, Or.inl ⟨rfl, b⟩⟩
        · exact Or.inl h
        · exact Or.inr ⟨h.1, Or.inr h.2⟩
      · rintro (h | ⟨a, ⟨b, c⟩ | c⟩)
        · exact Or.inr (Or.inl h)
        · exact Or.inl ⟨b, c⟩
        · exact Or.inr (Or.inr ⟨a, c⟩)

theorem dset_uniq {d : List (κ × ν)} {k : κ} {v : ν} (hu : Uniq d) : Uniq (dset d k v) := by
  induction d with
  | nil => simp [dset, Uniq]
  | cons e d ih =>
    obtain ⟨k1, v1⟩ := e
    have hu' := uniq_cons.1 hu
    by_cases h1 : k1 = k
    · subst h1
      simp only [dset, if_true]
      exact uniq_cons.2 ⟨hu'.1, hu'.2⟩
    · simp only [dset, h1, if_false]
      refine uniq_cons.2 ⟨?_, ih hu'.2⟩
      intro w hw
      rcases (mem_dset_iff hu'.2).1 hw with ⟨a, _⟩ | ⟨_, b⟩
      · exact h1 a
      · exact hu'.1 w b

theorem dset_of_dget_none {d : List (κ × ν)} {k : κ} {v : ν} (h : dget d k = none) :
    dset d k v = d ++ [(k, v)] := by
  induction d with
  | nil => simp [dset]
  | cons e d ih =>
    obtain ⟨k1, v1⟩ := e
    by_cases h1 : k1 = k
    · subst h1; simp [dget] at h
    · simp only [dget, h1, if_false] at h
      simp [dset, h1, ih h]

theorem ddel_spec {d d' : List (κ × ν)} {k : κ} (hu : Uniq d) (h : ddel d k = some d') :
    Uniq d' ∧ ∀ k' v', (k', v') ∈ d' ↔ (k' ≠ k ∧ (k', v') ∈ d) := by
  induction d generalizing d' with
  | nil => simp [ddel] at h
  | cons e d ih =>
    obtain ⟨k1, v1⟩ := e
    have hu' := uniq_cons.1 hu
    by_cases h1 : k1 = k
    · subst h1
      simp [ddel] at h; subst h
      refine ⟨hu'.2, fun k' v' => ?_⟩
      simp only [List.mem_cons, Prod.mk.injEq]
      constructor
      · intro hm
        refine ⟨?_, Or.inr hm⟩
        intro hk; subst hk; exact hu'.1 v' hm
      · rintro ⟨a, ⟨b, _⟩ | c⟩
        · exact absurd b a
        · exact c
    · simp only [ddel, h1, if_false, Option.map_eq_some_iff] at h
      obtain ⟨d2, hd2, rfl⟩ := h
      obtain ⟨ihu, ihm⟩ := ih hu'.2 hd2
      refine ⟨uniq_cons.2 ⟨?_, ihu⟩, fun k' v' => ?_⟩
      · intro w hw; exact hu'.1 w ((ihm _ _).1 hw).2
      · simp only [List.mem_cons, Prod.mk.injEq, ihm]
        constructor
        · rintro (⟨a, b⟩ | ⟨a, b⟩)
          · subst a; exact ⟨fun h => h1 h, Or.inl ⟨rfl, b⟩⟩
          · exact ⟨a, Or.inr b⟩
        · rintro ⟨a, ⟨b, c⟩ | c⟩
          · exact Or.inl ⟨b, c⟩
          · exact Or.inr ⟨a, c⟩

theorem ddel_some_of_mem {d : List (κ × ν)} {k : κ} {v : ν} (h : (k, v) ∈ d) : ∃ d', ddel d k = some d' := by
  induction d with
  | nil => simp at h
  | cons e d ih =>
    obtain ⟨k1, v1⟩ := e
    by_cases h1 : k1 = k
    · subst h1; exact ⟨d, by simp [ddel]⟩
    · rcases List.mem_cons.1 h with h | h
      · injection h with a _; exact absurd a.symm h1
      · obtain ⟨d', hd'⟩ := ih h
        exact ⟨(k1, v1) :: d', by simp [ddel, h1, hd']⟩

/-- in a dict with unique keys, the entries carrying a given key are exactly one -/
theorem filter_length_one {α β : Type} [DecidableEq β] (f : α → β) :
    ∀ (d : List α), (d.map f).Nodup → ∀ e ∈ d, (d.filter (fun e' => f e' = f e)).length = 1
  | [], _, e, he => by simp at he
  | a :: d, hn, e, he => by
    rw [List.map_cons, List.nodup_cons] at hn
    rcases List.mem_cons.1 he with rfl | he'
    · have : d.filter (fun e' => decide (f e' = f e)) = [] := by
        rw [List.filter_eq_nil_iff]
        intro x hx hfx
        simp only [decide_eq_true_eq] at hfx
        exact hn.1 (hfx ▸ List.mem_map_of_mem hx)
      simp [this]
    · have hne : f a ≠ f e := fun h => hn.1 (h ▸ List.mem_map_of_mem he')
      simp [hne, filter_length_one f d hn.2 e he']

/-- unique keys and a functional dependency key ← value give unique values -/
theorem nodup_map_of_dep {α β γ : Type} (f : α → β) (g : α → γ) :
    ∀ (d : List α), (d.map f).Nodup → (∀ a ∈ d, ∀ b ∈ d, g a = g b → f a = f b) → (d.map g).Nodup
  | [], _, _ => by simp
  | a :: d, hn, hd => by
    rw [List.map_cons, List.nodup_cons] at hn ⊢
    refine ⟨?_, nodup_map_of_dep f g d hn.2 (fun x hx y hy => hd x (List.mem_cons_of_mem _ hx) y (List.mem_cons_of_mem _ hy))⟩
    intro hm
    obtain ⟨b, hb, hgb⟩ := List.mem_map.1 hm
    have := hd a List.mem_cons_self b (List.mem_cons_of_mem _ hb) hgb.symm
    exact hn.1 (this ▸ List.mem_map_of_mem hb)

/-- pigeonhole: a duplicate-free list contained in another is not longer -/
theorem nodup_subset_length {α : Type} [DecidableEq α] :
    ∀ (l1 l2 : List α), l1.Nodup → (∀ x ∈ l1, x ∈ l2) → l1.length ≤ l2.length
  | [], _, _, _ => by simp
  | x :: l1, l2, hn, hs => by
    rw [List.nodup_cons] at hn
    have hx : x ∈ l2 := hs x List.mem_cons_self
    have h1 := nodup_subset_length l1 (l2.erase x) hn.2 (fun y hy => by
      have hne : y ≠ x := fun h => hn.1 (h ▸ hy)
      exact (List.mem_erase_of_ne hne).2 (hs y (List.mem_cons_of_mem _ hy)))
    rw [List.length_erase_of_mem hx] at h1
    have : 0 < l2.length := List.length_pos_of_mem hx
    simp only [List.length_cons]; omega

end PyDict

/-! ## Layer 1: qualified names and the ancestor relation, without fuel -/

/-- the part of an object that determines qualified names -/
def okey (o : Obj) : Name × Option Nat := (o.name, o.parent)

/-- `HasPath objs i p`: following parents from `i` reaches a root and spells `p` -/
inductive HasPath (objs : List Obj) : Nat → Path → Prop
  | root {i : Nat} {o : Obj} : objs[i]? = some o → o.parent = none → HasPath objs i [o.name]
  | child {i : Nat} {o : Obj} {q : Nat} {p : Path} :
      objs[i]? = some o → o.parent = some q → HasPath objs q p → HasPath objs i (p ++ [o.name])

/-- `Below objs top i`: `top` is `i` or one of its ancestors -/
inductive Below (objs : List Obj) (top : Nat) : Nat → Prop
  | refl : Below objs top top
  | step {i : Nat} {o : Obj} {p : Nat} :
      objs[i]? = some o → o.parent = some p → Below objs top p → Below objs top i

theorem pathAux_none {objs : List Obj} {f i} (ho : objs[i]? = none) : pathAux objs (f+1) i = none := by
  simp [pathAux, ho]

theorem pathAux_root {objs : List Obj} {f i o} (ho : objs[i]? = some o) (hp : o.parent = none) :
    pathAux objs (f+1) i = some [o.name] := by
  simp [pathAux, ho, hp]

theorem pathAux_child {objs : List Obj} {f i o q} (ho : objs[i]? = some o) (hp : o.parent = some q) :
    pathAux objs (f+1) i = (pathAux objs f q).map (· ++ [o.name]) := by
  simp [pathAux, ho, hp]

theorem pathAux_inv {objs : List Obj} {f i p} (h : pathAux objs (f+1) i = some p) :
    ∃ o, objs[i]? = some o ∧ ((o.parent = none ∧ p = [o.name]) ∨
      (∃ q p', o.parent = some q ∧ pathAux objs f q = some p' ∧ p = p' ++ [o.name])) := by
  cases ho : objs[i]? with
  | none => rw [pathAux_none ho] at h; cases h
  | some o =>
    refine ⟨o, rfl, ?_⟩
    cases hp : o.parent with
    | none => rw [pathAux_root ho hp] at h; injection h with h; exact Or.inl ⟨rfl, h.symm⟩
    | some q =>
      rw [pathAux_child ho hp, Option.map_eq_some_iff] at h
      obtain ⟨p', hp', rfl⟩ := h
      exact Or.inr ⟨q, p', rfl, hp', rfl⟩

theorem pathAux_sound {objs : List Obj} : ∀ {f i p}, pathAux objs f i = some p → HasPath objs i p
  | 0, _, _, h => by simp [pathAux] at h
  | f+1, i, p, h => by
    obtain ⟨o, ho, ⟨hp, rfl⟩ | ⟨q, p', hp, hq, rfl⟩⟩ := pathAux_inv h
    · exact .root ho hp
    · exact .child ho hp (pathAux_sound hq)

theorem HasPath.ne_nil {objs : List Obj} {i p} (h : HasPath objs i p) : p ≠ [] := by
  cases h <;> simp

theorem HasPath.length_pos {objs : List Obj} {i p} (h : HasPath objs i p) : 0 < p.length :=
  List.length_pos_iff.2 h.ne_nil

theorem HasPath.func {objs : List Obj} {i p q} (h : HasPath objs i p) (h' : HasPath objs i q) : p = q := by
  induction h generalizing q with
  | root ho hp =>
    cases h' with
    | root ho' hp' => rw [ho] at ho'; injection ho' with e; subst e; rfl
    | child ho' hp' _ => rw [ho] at ho'; injection ho' with e; subst e; rw [hp] at hp'; cases hp'
  | child ho hp _ ih =>
    cases h' with
    | root ho' hp' => rw [ho] at ho'; injection ho' with e; subst e; rw [hp] at hp'; cases hp'
    | child ho' hp' hq' =>
      rw [ho] at ho'; injection ho' with e; subst e
      rw [hp] at hp'; injection hp' with e; subst e
      rw [ih hq']

theorem HasPath.lt {objs : List Obj} {i p} (h : HasPath objs i p) : i < objs.length := by
  cases h with
  | root ho _ => exact (List.getElem?_eq_some_iff.1 ho).1
  | child ho _ _ => exact (List.getElem?_eq_some_iff.1 ho).1

theorem pathAux_mono {objs : List Obj} : ∀ {f i p}, pathAux objs f i = some p → pathAux objs (f+1) i = some p
  | 0, _, _, h => by simp [pathAux] at h
  | f+1, i, p, h => by
    obtain ⟨o, ho, ⟨hp, rfl⟩ | ⟨q, p', hp, hq, rfl⟩⟩ := pathAux_inv h
    · exact pathAux_root ho hp
    · rw [pathAux_child ho hp, pathAux_mono hq]; rfl

theorem pathAux_mono_le {objs : List Obj} {f g i p} (h : pathAux objs f i = some p) (hfg : f ≤ g) :
    pathAux objs g i = some p := by
  induction hfg with
  | refl => exact h
  | step _ ih => exact pathAux_mono ih

/-- appending an object does not change the names that were defined -/
theorem pathAux_append {objs : List Obj} (new : Obj) :
    ∀ {f i p}, pathAux objs f i = some p → pathAux (objs ++ [new]) f i = some p
  | 0, _, _, h => by simp [pathAux] at h
  | f+1, i, p, h => by
    obtain ⟨o, ho, hcase⟩ := pathAux_inv h
    have ho' : (objs ++ [new])[i]? = some o := by
      rw [List.getElem?_append_left (List.getElem?_eq_some_iff.1 ho).1]; exact ho
    rcases hcase with ⟨hp, rfl⟩ | ⟨q, p', hp, hq, rfl⟩
    · exact pathAux_root ho' hp
    · rw [pathAux_child ho' hp, pathAux_append new hq]; rfl

/-- `pathAux` only looks at names and parents, and only outside an upward-closed set `P` if it
starts outside -/
theorem pathAux_congr_off {objs objs' : List Obj} (P : Nat → Prop)
    (hagree : ∀ i : Nat, ¬P i → (objs'[i]?).map okey = (objs[i]?).map okey)
    (hup : ∀ i o p, ¬P i → objs[i]? = some o → o.parent = some p → ¬P p) :
    ∀ f x, ¬P x → pathAux objs' f x = pathAux objs f x
  | 0, _, _ => by simp [pathAux]
  | f+1, x, hx => by
    have ha := hagree x hx
    cases ho : objs[x]? with
    | none =>
      rw [ho] at ha; simp at ha
      rw [pathAux_none ho, pathAux_none (List.getElem?_eq_none_iff.2 ha)]
    | some o =>
      rw [ho] at ha
      cases ho' : objs'[x]? with
      | none => rw [ho'] at ha; simp at ha
      | some o' =>
        rw [ho'] at ha
        simp only [Option.map_some, Option.some.injEq, okey, Prod.mk.injEq] at ha
        obtain ⟨hn, hp⟩ := ha
        cases hpar : o.parent with
        | none => rw [pathAux_root ho hpar, pathAux_root ho' (hp.trans hpar), hn]
        | some p =>
          rw [pathAux_child ho hpar, pathAux_child ho' (hp.trans hpar), hn,
            pathAux_congr_off P hagree hup f p (hup x o p hx ho hpar)]

theorem pathAux_congr {objs objs' : List Obj}
    (hagree : ∀ i : Nat, (objs'[i]?).map okey = (objs[i]?).map okey) (f x : Nat) :
    pathAux objs' f x = pathAux objs f x :=
  pathAux_congr_off (fun _ => False) (fun i _ => hagree i) (fun _ _ _ _ _ _ h => h) f x (fun h => h)

theorem HasPath.congr_off {objs objs' : List Obj} (P : Nat → Prop)
    (hagree : ∀ i : Nat, ¬P i → (objs'[i]?).map okey = (objs[i]?).map okey)
    (hup : ∀ i o p, ¬P i → objs[i]? = some o → o.parent = some p → ¬P p)
    {x q} (h : HasPath objs x q) (hx : ¬P x) : HasPath objs' x q := by
  induction h with
  | @root i o ho hp =>
    have ha := hagree i hx
    rw [ho] at ha
    cases ho' : objs'[i]? with
    | none => rw [ho'] at ha; simp at ha
    | some o' =>
      rw [ho'] at ha
      simp only [Option.map_some, Option.some.injEq, okey, Prod.mk.injEq] at ha
      rw [← ha.1]; exact .root ho' (ha.2.trans hp)
  | @child i o q p ho hp _ ih =>
    have ha := hagree i hx
    rw [ho] at ha
    cases ho' : objs'[i]? with
    | none => rw [ho'] at ha; simp at ha
    | some o' =>
      rw [ho'] at ha
      simp only [Option.map_some, Option.some.injEq, okey, Prod.mk.injEq] at ha
      rw [← ha.1]; exact .child ho' (ha.2.trans hp) (ih (hup i o q hx ho hp))

theorem HasPath.congr {objs objs' : List Obj}
    (hagree : ∀ i : Nat, (objs'[i]?).map okey = (objs[i]?).map okey) {x q} (h : HasPath objs x q) :
    HasPath objs' x q :=
  h.congr_off (fun _ => False) (fun i _ => hagree i) (fun _ _ _ _ _ _ h => h) (fun h => h)

theorem Below.up_closed (objs : List Obj) (top : Nat) :
    ∀ i o p, ¬Below objs top i → objs[i]? = some o → o.parent = some p → ¬Below objs top p :=
  fun _ _ _ hn ho hp hb => hn (.step ho hp hb)

theorem Below.trans {objs : List Obj} {a b c} (h1 : Below objs a b) (h2 : Below objs b c) : Below objs a c := by
  induction h2 with
  | refl => exact h1
  | step ho hp _ ih => exact .step ho hp ih

/-- the name of anything below `top` extends the name of `top` -/
theorem Below.path_prefix {objs : List Obj} {top x A q} (hb : Below objs top x) (hA : HasPath objs top A)
    (hq : HasPath objs x q) : ∃ rest, q = A ++ rest := by
  induction hb generalizing q with
  | refl => exact ⟨[], by simp [hA.func hq]⟩
  | @step i o p ho hp _ ih =>
    cases hq with
    | root ho' hp' => rw [ho] at ho'; injection ho' with e; subst e; rw [hp] at hp'; cases hp'
    | child ho' hp' hq' =>
      rw [ho] at ho'; injection ho' with e; subst e
      rw [hp] at hp'; injection hp' with e; subst e
      obtain ⟨r, rfl⟩ := ih hq'
      exact ⟨r ++ [o.name], by simp⟩

/-- no object is below its own child: the parent chain of a named object has no cycle -/
theorem not_below_parent {objs : List Obj} {x o p A} (hA : HasPath objs x A) (ho : objs[x]? = some o)
    (hp : o.parent = some p) : ¬Below objs x p := by
  intro hb
  cases hA with
  | root ho' hp' => rw [ho] at ho'; injection ho' with e; subst e; rw [hp] at hp'; cases hp'
  | @child _ _ _ q ho' hp' hq' =>
    rw [ho] at ho'; injection ho' with e; subst e
    rw [hp] at hp'; injection hp' with e; subst e
    obtain ⟨r, hr⟩ := hb.path_prefix (.child ho hp hq') hq'
    have := congrArg List.length hr
    simp at this <;> omega

/-- two objects, one below the other, with the same name are the same -/
theorem Below.eq_of_same_path {objs : List Obj} {top x A} (hb : Below objs top x) (hA : HasPath objs top A)
    (hx : HasPath objs x A) : x = top := by
  cases hb with
  | refl => rfl
  | step ho hp hb' =>
    cases hx with
    | root ho' hp' => rw [ho] at ho'; injection ho' with e; subst e; rw [hp] at hp'; cases hp'
    | @child _ _ _ q ho' hp' hq' =>
      rw [ho] at ho'; injection ho' with e; subst e
      rw [hp] at hp'; injection hp' with e; subst e
      obtain ⟨r, hr⟩ := hb'.path_prefix hA hq'
      have := congrArg List.length hr
      simp at this <;> omega

/-- chains are linear -/
theorem Below.linear {objs : List Obj} {a b x} (ha : Below objs a x) (hb : Below objs b x) :
    Below objs a b ∨ Below objs b a := by
  induction ha generalizing b with
  | refl => exact Or.inr hb
  | step ho hp ha' ih =>
    cases hb with
    | refl => exact Or.inl (.step ho hp ha')
    | step ho' hp' hb' =>
      rw [ho] at ho'; injection ho' with e; subst e
      rw [hp] at hp'; injection hp' with e; subst e
      exact ih hb'

/-- `Below top ·` does not depend on names, nor on the parent of `top` itself -/
theorem Below.transfer {objs objs' : List Obj} {top x}
    (hagree : ∀ i : Nat, i ≠ top → (objs'[i]?).map (·.parent) = (objs[i]?).map (·.parent))
    (hb : Below objs top x) : Below objs' top x := by
  induction hb with
  | refl => exact .refl
  | @step i o p ho hp _ ih =>
    by_cases hi : i = top
    · subst hi; exact .refl
    · have ha := hagree i hi
      rw [ho] at ha
      cases ho' : objs'[i]? with
      | none => rw [ho'] at ha; simp at ha
      | some o' =>
        rw [ho'] at ha
        simp only [Option.map_some, Option.some.injEq] at ha
        exact .step ho' (ha.trans hp) ih

/-- re-rooting: if the objects strictly below `top` keep name and parent, their names change by
replacing the name of `top` -/
theorem reroot {objs objs' : List Obj} {top A B}
    (hagree : ∀ i : Nat, Below objs top i → i ≠ top → (objs'[i]?).map okey = (objs[i]?).map okey)
    (hA : HasPath objs top A) (hB : HasPath objs' top B) {x q} (hb : Below objs top x) (hq : HasPath objs x q) :
    ∃ rest, q = A ++ rest ∧ HasPath objs' x (B ++ rest) := by
  induction hb generalizing q with
  | refl => exact ⟨[], by simp [hA.func hq], by simpa using hB⟩
  | @step i o p ho hp hb' ih =>
    by_cases hi : i = top
    · subst hi; exact ⟨[], by simp [hA.func hq], by simpa using hB⟩
    · cases hq with
      | root ho' hp' => rw [ho] at ho'; injection ho' with e; subst e; rw [hp] at hp'; cases hp'
      | child ho' hp' hq' =>
        rw [ho] at ho'; injection ho' with e; subst e
        rw [hp] at hp'; injection hp' with e; subst e
        obtain ⟨r, rfl, hr⟩ := ih hq'
        have ha := hagree i (.step ho hp hb') hi
        rw [ho] at ha
        cases ho'' : objs'[i]? with
        | none => rw [ho''] at ha; simp at ha
        | some o' =>
          rw [ho''] at ha
          simp only [Option.map_some, Option.some.injEq, okey, Prod.mk.injEq] at ha
          refine ⟨r ++ [o.name], by simp, ?_⟩
          rw [← List.append_assoc, ← ha.1]
          exact .child ho'' (ha.2.trans hp) hr

/-- every non-empty prefix of a name is the name of an ancestor -/
theorem HasPath.walk {objs : List Obj} {x q} (h : HasPath objs x q) :
    ∀ A rest, q = A ++ rest → A ≠ [] → ∃ z, HasPath objs z A ∧ Below objs z x := by
  induction h with
  | @root i o ho hp =>
    intro A rest hq hA
    cases A with
    | nil => exact absurd rfl hA
    | cons a A =>
      simp at hq
      obtain ⟨rfl, hA', _⟩ := hq
      subst hA'
      exact ⟨i, .root ho hp, .refl⟩
  | @child i o q p ho hp hq' ih =>
    intro A rest hq hA
    rcases List.eq_nil_or_concat rest with rfl | ⟨r, b, rfl⟩
    · simp at hq; subst hq
      exact ⟨i, .child ho hp hq', .refl⟩
    · rw [List.concat_eq_append, ← List.append_assoc] at hq
      obtain ⟨h1, h2⟩ := List.append_inj' hq rfl
      obtain ⟨z, hz, hbz⟩ := ih A r h1 hA
      exact ⟨z, hz, .step ho hp hbz⟩

/-! the fuelled `isBelow` of the model against `Below` -/

theorem isBelowAux_sound {objs : List Obj} {top : Nat} :
    ∀ {f i}, isBelowAux objs top f i = true → Below objs top i
  | 0, _, h => by simp [isBelowAux] at h
  | f+1, i, h => by
    unfold isBelowAux at h
    rw [Bool.or_eq_true] at h
    rcases h with h | h
    · simp at h; subst h; exact .refl
    · split at h
      · cases h
      · rename_i o ho
        split at h
        · cases h
        · rename_i p hp
          exact .step ho hp (isBelowAux_sound h)

theorem isBelowAux_complete {objs : List Obj} {top : Nat} :
    ∀ {f i p}, pathAux objs f i = some p → Below objs top i → isBelowAux objs top f i = true
  | 0, _, _, h, _ => by simp [pathAux] at h
  | f+1, i, p, h, hb => by
    unfold isBelowAux
    rw [Bool.or_eq_true]
    cases hb with
    | refl => left; simp
    | step ho hp hb' =>
      right
      unfold pathAux at h
      simp only [ho, hp] at h ⊢
      rw [Option.map_eq_some_iff] at h
      obtain ⟨p', hp', _⟩ := h
      exact isBelowAux_complete hp' hb'

/-! ## Layer 2: the registry loops -/

@[simp] theorem path_with_all (s : State) (a : List (Path × Nat)) (i : Nat) :
    path { s with all := a } i = path s i := rfl

theorem path_sound {s : State} {i p} (h : path s i = some p) : HasPath s.objs i p := pathAux_sound h

/-- `delAll` removes exactly the entries keyed by the current names of the listed objects -/
theorem delAll_spec : ∀ (l : List Nat) (s s1 : State), Uniq s.all → delAll s l = .ok s1 →
    s1.objs = s.objs ∧ s1.roots = s.roots ∧ Uniq s1.all ∧
    ∀ k v, (k, v) ∈ s1.all ↔ ((k, v) ∈ s.all ∧ ∀ o ∈ l, path s o ≠ some k)
  | [], s, s1, hu, h => by
    simp only [delAll, Except.ok.injEq] at h
    subst h
    exact ⟨rfl, rfl, hu, by simp⟩
  | o :: os, s, s1, hu, h => by
    unfold delAll at h
    cases hp : path s o with
    | none => simp only [hp] at h; cases h
    | some p =>
      simp only [hp] at h
      cases hd : ddel s.all p with
      | none => simp only [hd] at h; cases h
      | some a =>
        simp only [hd] at h
        obtain ⟨hu', hm'⟩ := ddel_spec hu hd
        obtain ⟨h1, h2, h3, h4⟩ := delAll_spec os { s with all := a } s1 hu' h
        refine ⟨h1, h2, h3, fun k v => ?_⟩
        rw [h4]
        simp only [path_with_all, hm', List.mem_cons, forall_eq_or_imp, hp, ne_eq, Option.some.injEq]
        constructor
        · rintro ⟨⟨a1, a2⟩, a3⟩; exact ⟨a2, fun h => a1 h.symm, a3⟩
        · rintro ⟨a1, a2, a3⟩; exact ⟨⟨fun h => a2 h.symm, a1⟩, a3⟩

/-- `addAll` (re-)registers the listed objects under their current names -/
theorem addAll_spec : ∀ (l : List Nat) (s s' : State), Uniq s.all →
    (∀ x ∈ l, ∀ y ∈ l, ∀ k, path s x = some k → path s y = some k → x = y) → addAll s l = .ok s' →
    s'.objs = s.objs ∧ s'.roots = s.roots ∧ Uniq s'.all ∧ (∀ o ∈ l, ∃ k, path s o = some k) ∧
    ∀ k v, (k, v) ∈ s'.all ↔ (((k, v) ∈ s.all ∧ ∀ o ∈ l, path s o ≠ some k) ∨ (v ∈ l ∧ path s v = some k))
  | [], s, s', hu, _, h => by
    simp only [addAll, Except.ok.injEq] at h
    subst h
    exact ⟨rfl, rfl, hu, by simp, by simp⟩
  | o :: os, s, s', hu, hinj, h => by
    unfold addAll at h
    cases hp : path s o with
    | none => simp only [hp] at h; cases h
    | some p =>
      simp only [hp] at h
      have hinj' : ∀ x ∈ os, ∀ y ∈ os, ∀ k, path s x = some k → path s y = some k → x = y :=
        fun x hx y hy => hinj x (List.mem_cons_of_mem _ hx) y (List.mem_cons_of_mem _ hy)
      obtain ⟨h1, h2, h3, h4, h5⟩ := addAll_spec os { s with all := dset s.all p o } s' (dset_uniq hu) hinj' h
      refine ⟨h1, h2, h3, ?_, fun k v => ?_⟩
      · intro x hx
        rcases List.mem_cons.1 hx with rfl | hx
        · exact ⟨p, hp⟩
        · exact h4 x hx
      · rw [h5]
        simp only [path_with_all, mem_dset_iff hu, List.mem_cons, forall_eq_or_imp, hp, ne_eq, Option.some.injEq]
        constructor
        · rintro (⟨⟨a1, a2⟩ | ⟨a1, a2⟩, a3⟩ | ⟨a1, a2⟩)
          · subst a1; subst a2; exact Or.inr ⟨Or.inl rfl, hp⟩
          · exact Or.inl ⟨a2, fun h => a1 h.symm, a3⟩
          · exact Or.inr ⟨Or.inr a1, a2⟩
        · rintro (⟨a1, a2, a3⟩ | ⟨rfl | a1, a2⟩)
          · exact Or.inl ⟨Or.inr ⟨fun h => a2 h.symm, a1⟩, a3⟩
          · rw [hp] at a2; injection a2 with a2; subst a2
            by_cases hmem : v ∈ os
            · exact Or.inr ⟨hmem, hp⟩
            · refine Or.inl ⟨Or.inl ⟨rfl, rfl⟩, fun o' ho' hpo' => hmem ?_⟩
              have := hinj o' (List.mem_cons_of_mem _ ho') v List.mem_cons_self _ hpo' hp
              exact this ▸ ho'
          · exact Or.inr ⟨a1, a2⟩

/-! ### `freeIndex` really returns a free index -/

theorem natDigits_inj {a b : Nat} (h : natDigits a = natDigits b) : a = b := by
  simp only [natDigits, Nat.toString_eq_repr, Nat.toList_repr] at h
  have := congrArg (fun l => Nat.ofDigitChars 10 l 0) h
  simpa [Nat.ofDigitChars_ten_toDigits] using this

/-- the candidate key number `i` of `handleDuplicate` -/
def fkey (pre : Path) (name : Name) (i : Nat) : Path := pre ++ [name ++ ' ' :: natDigits i]

theorem fkey_inj {pre name a b} (h : fkey pre name a = fkey pre name b) : a = b := by
  simp only [fkey] at h
  have h1 := List.append_cancel_left h
  simp only [List.cons.injEq, and_true] at h1
  have h2 := List.append_cancel_left h1
  simp only [List.cons.injEq, true_and] at h2
  exact natDigits_inj h2

theorem freeIndexAux_spec (all : List (Path × Nat)) (pre : Path) (name : Name) :
    ∀ f i, dhas all (fkey pre name (freeIndexAux all pre name f i)) = false ∨
      (∀ m, i ≤ m → m < i + f → dhas all (fkey pre name m) = true)
  | 0, i => by right; intro m h1 h2; omega
  | f+1, i => by
    unfold freeIndexAux
    by_cases h : dhas all (pre ++ [name ++ ' ' :: natDigits i]) = true
    · simp only [h, if_true]
      rcases freeIndexAux_spec all pre name f (i+1) with h' | h'
      · exact Or.inl h'
      · right
        intro m h1 h2
        by_cases hm : m = i
        · subst hm; exact h
        · exact h' m (by omega) (by omega)
    · simp only [h]
      left
      simpa [fkey] using h

theorem freeIndex_free (s : State) (pre : Path) (name : Name) :
    dhas s.all (fkey pre name (freeIndex s pre name)) = false := by
  rcases freeIndexAux_spec s.all pre name (s.all.length + 1) 0 with h | h
  · exact h
  · exfalso
    have hnd : ((List.range (s.all.length + 1)).map (fkey pre name)).Nodup :=
      nodup_map_of_dep id (fkey pre name) _ (by simpa using List.nodup_range)
        (fun a _ b _ hab => fkey_inj hab)
    have hsub : ∀ x ∈ (List.range (s.all.length + 1)).map (fkey pre name), x ∈ s.all.map Prod.fst := by
      intro x hx
      obtain ⟨m, hm, rfl⟩ := List.mem_map.1 hx
      have := h m (Nat.zero_le _) (by simpa using hm)
      simp only [dhas, Option.isSome_iff_exists] at this
      obtain ⟨v, hv⟩ := this
      exact List.mem_map.2 ⟨(_, v), mem_of_dget hv, rfl⟩
    have := nodup_subset_length _ _ hnd hsub
    simp only [List.length_map, List.length_range] at this
    omega

theorem superseded_fresh (name : Name) (i : Nat) : isSupersededName (name ++ ' ' :: natDigits i) = true := by
  simp [isSupersededName]

/-! ## Layer 3: the registry invariant proper, and `handleDuplicate` -/

theorem getElem?_modify_ne {l : List Obj} {j i : Nat} (g : Obj → Obj) (h : i ≠ j) :
    (l.modify j g)[i]? = l[i]? := by
  rw [List.getElem?_modify]
  simp [Ne.symm h]

theorem getElem?_modify_eq (l : List Obj) (j : Nat) (g : Obj → Obj) :
    (l.modify j g)[j]? = (l[j]?).map g := by
  rw [List.getElem?_modify]
  cases l[j]? <;> simp

theorem modify_agree_okey (l : List Obj) (j : Nat) (g : Obj → Obj) (hg : ∀ o, okey (g o) = okey o) (i : Nat) :
    ((l.modify j g)[i]?).map okey = (l[i]?).map okey := by
  by_cases h : i = j
  · subst h; rw [getElem?_modify_eq]; cases l[i]? <;> simp [hg]
  · rw [getElem?_modify_ne g h]

theorem modify_agree_parent (l : List Obj) (j : Nat) (g : Obj → Obj) (hg : ∀ o, (g o).parent = o.parent) (i : Nat) :
    ((l.modify j g)[i]?).map (·.parent) = (l[i]?).map (·.parent) := by
  by_cases h : i = j
  · subst h; rw [getElem?_modify_eq]; cases l[i]? <;> simp [hg]
  · rw [getElem?_modify_ne g h]

theorem path_congr_objs {s t : State} (h : s.objs = t.objs) (i : Nat) : path s i = path t i := by
  simp only [path, h]

/-- `i` is registered -/
def Reg (s : State) (i : Nat) : Prop := ∃ k, (k, i) ∈ s.all

/-- The registry part of the invariant, for a registry that may be missing a subtree:
keys are unique, every entry sits under the current qualified name of its object, and the
registered objects are closed under taking parents. -/
structure PInv (s : State) : Prop where
  uniq : Uniq s.all
  keys : ∀ k i, (k, i) ∈ s.all → path s i = some k
  up : ∀ i o q, Reg s i → s.objs[i]? = some o → o.parent = some q → Reg s q

theorem PInv.hasPath {s : State} (hI : PInv s) {k i} (h : (k, i) ∈ s.all) : HasPath s.objs i k :=
  path_sound (hI.keys k i h)

/-- a registered object is the only registered object with its name -/
theorem PInv.inj {s : State} (hI : PInv s) {k i j} (hi : (k, i) ∈ s.all) (hj : Reg s j)
    (hjk : HasPath s.objs j k) : j = i := by
  obtain ⟨k', hk'⟩ := hj
  have := (hI.hasPath hk').func hjk
  subst this
  exact uniq_val hI.uniq hk' hi

theorem PInv.reg_up {s : State} (hI : PInv s) {z y} (hb : Below s.objs z y) (hy : Reg s y) : Reg s z := by
  induction hb with
  | refl => exact hy
  | step ho hp _ ih => exact ih (hI.up _ _ _ hy ho hp)

theorem isBelow_iff {s : State} {top i p} (h : path s i = some p) :
    isBelow s top i = true ↔ Below s.objs top i :=
  ⟨isBelowAux_sound, isBelowAux_complete h⟩

theorem mem_objectsBelow {s : State} (hI : PInv s) {top x} :
    x ∈ objectsBelow s top ↔ (Reg s x ∧ Below s.objs top x) := by
  simp only [objectsBelow, List.mem_filter, List.mem_map]
  constructor
  · rintro ⟨⟨⟨k, v⟩, hkv, rfl⟩, hb⟩
    exact ⟨⟨k, hkv⟩, (isBelow_iff (hI.keys k v hkv)).1 hb⟩
  · rintro ⟨⟨k, hk⟩, hb⟩
    exact ⟨⟨(k, x), hk, rfl⟩, (isBelow_iff (hI.keys k x hk)).2 hb⟩

theorem HasPath.eq_dropLast {objs : List Obj} {i p o} (h : HasPath objs i p) (ho : objs[i]? = some o) :
    p = p.dropLast ++ [o.name] := by
  cases h with
  | root ho' _ => rw [ho] at ho'; injection ho' with e; subst e; rfl
  | child ho' _ _ => rw [ho] at ho'; injection ho' with e; subst e; rw [List.dropLast_concat]

theorem fkey_ne_nil (pre : Path) (name : Name) (i : Nat) : fkey pre name i ≠ [] := by
  simp [fkey]

/-- What `handleDuplicate` does to a registry that satisfies `PInv`, when the new object `obj`
is not registered yet and its parent is. -/
theorem handleDuplicate_spec {s s' : State} {obj : Nat} {fn : Path} (hI : PInv s) (hnr : ¬Reg s obj)
    (hfn : path s obj = some fn)
    (hpar : ∀ o q, s.objs[obj]? = some o → o.parent = some q → Reg s q)
    (h : handleDuplicate s obj fn = .ok s') :
    ∃ prev nm', (fn, prev) ∈ s.all ∧ isSupersededName nm' = true ∧
      s'.objs = s.objs.modify prev (fun p => { p with name := nm' }) ∧ s'.roots = s.roots ∧
      PInv s' ∧ (∀ i, Reg s' i ↔ (Reg s i ∨ i = obj)) ∧ (fn, obj) ∈ s'.all := by
  unfold handleDuplicate at h
  cases hgo : getObj s obj with
  | none => simp only [hgo] at h; cases h
  | some o =>
  cases hdg : dget s.all fn with
  | none => simp only [hgo, hdg] at h; cases h
  | some prev =>
  simp only [hgo, hdg] at h
  have ho : s.objs[obj]? = some o := hgo
  have hprev : (fn, prev) ∈ s.all := mem_of_dget hdg
  have hprevP : HasPath s.objs prev fn := hI.hasPath hprev
  have hobjP : HasPath s.objs obj fn := path_sound hfn
  -- names
  generalize hi0 : freeIndex s fn.dropLast o.name = i0 at h
  have hfree : ∀ v, (fkey fn.dropLast o.name i0, v) ∉ s.all := by
    have := freeIndex_free s fn.dropLast o.name
    rw [hi0] at this
    simp only [dhas, Option.isSome_eq_false_iff, Option.isNone_iff_eq_none] at this
    exact dget_none_iff.1 this
  generalize hnm : o.name ++ ' ' :: natDigits i0 = nm' at h
  have hK : fkey fn.dropLast o.name i0 = fn.dropLast ++ [nm'] := by simp [fkey, hnm]
  have hsup : isSupersededName nm' = true := by rw [← hnm]; exact superseded_fresh _ _
  have hnmne : nm' ≠ o.name := by
    intro he
    have := congrArg List.length he
    rw [← hnm] at this
    simp at this
  -- delAll
  cases hdel : delAll s (objectsBelow s prev) with
  | error e => simp only [hdel] at h; cases h
  | ok s1 =>
  simp only [hdel] at h
  obtain ⟨h1o, h1r, h1u, h1m⟩ := delAll_spec _ _ _ hI.uniq hdel
  -- the rename
  generalize hs2 : modifyObj s1 prev (fun p => { p with name := nm' }) = s2 at h
  have h2o : s2.objs = s.objs.modify prev (fun p => { p with name := nm' }) := by
    rw [← hs2, modifyObj, h1o]
  have h2a : s2.all = s1.all := by rw [← hs2]; rfl
  have h2r : s2.roots = s.roots := by rw [← hs2]; exact h1r
  have h2len : s2.objs.length = s.objs.length := by rw [h2o, List.length_modify]
  have hagree : ∀ i : Nat, i ≠ prev → (s2.objs[i]?).map okey = (s.objs[i]?).map okey := by
    intro i hi; rw [h2o, getElem?_modify_ne _ hi]
  have hagreeP : ∀ i : Nat, (s2.objs[i]?).map (·.parent) = (s.objs[i]?).map (·.parent) := by
    intro i; rw [h2o]; exact modify_agree_parent s.objs prev (fun p => { p with name := nm' }) (fun _ => rfl) i
  have hoff : ∀ i : Nat, ¬Below s.objs prev i → (s2.objs[i]?).map okey = (s.objs[i]?).map okey :=
    fun i hi => hagree i (fun e => hi (e ▸ .refl))
  have hpath2 : ∀ x, ¬Below s.objs prev x → path s2 x = path s x := by
    intro x hx
    simp only [path, h2len]
    exact pathAux_congr_off _ hoff (Below.up_closed _ _) _ x hx
  -- the new name of `prev`
  obtain ⟨po, hpo⟩ : ∃ po, s.objs[prev]? = some po := by
    have := hprevP.lt
    exact ⟨s.objs[prev], by simp [this]⟩
  have hpo2 : s2.objs[prev]? = some { po with name := nm' } := by
    rw [h2o, getElem?_modify_eq, hpo]; rfl
  have hprevP2 : HasPath s2.objs prev (fn.dropLast ++ [nm']) := by
    cases hprevP with
    | root ho' hp' =>
      rw [hpo] at ho'; injection ho' with e; subst e
      exact HasPath.root (o := { po with name := nm' }) hpo2 hp'
    | @child _ _ q pq ho' hp' hq' =>
      rw [hpo] at ho'; injection ho' with e; subst e
      rw [List.dropLast_concat]
      have hnb : ¬Below s.objs prev q := not_below_parent (.child hpo hp' hq') hpo hp'
      exact HasPath.child (o := { po with name := nm' }) hpo2 hp'
        (hq'.congr_off _ hoff (Below.up_closed _ _) hnb)
  -- objects below `prev`
  have hbelow : ∀ x, x ∈ objectsBelow s prev ↔ (Reg s x ∧ Below s.objs prev x) := fun x => mem_objectsBelow hI
  have hre : ∀ x kx, (kx, x) ∈ s.all → Below s.objs prev x →
      ∃ rest, kx = fn ++ rest ∧ HasPath s2.objs x (fn.dropLast ++ [nm'] ++ rest) := by
    intro x kx hx hb
    exact reroot (fun i _ hi => hagree i hi) hprevP hprevP2 hb (hI.hasPath hx)
  have hobj_nb : ¬Below s.objs prev obj := by
    intro hb
    have := hb.eq_of_same_path hprevP hobjP
    exact hnr (this ▸ ⟨fn, hprev⟩)
  have hfn_eq : fn = fn.dropLast ++ [o.name] := hobjP.eq_dropLast ho
  have hne_fn : ∀ rest, fn.dropLast ++ [nm'] ++ rest ≠ fn := by
    intro rest he
    rw [List.append_assoc] at he
    have he' : fn.dropLast ++ ([nm'] ++ rest) = fn.dropLast ++ [o.name] := he.trans hfn_eq
    have := List.append_cancel_left he'
    simp at this
    exact hnmne this.1
  -- no collision between the new names and what stays registered
  have hcoll : ∀ k y x, (k, y) ∈ s.all → x ∈ objectsBelow s prev → path s2 x = some k → False := by
    intro k y x hy hx hxk
    obtain ⟨⟨kx, hkx⟩, hxb⟩ := (hbelow x).1 hx
    obtain ⟨rest, _, hx2⟩ := hre x kx hkx hxb
    have hk : k = fn.dropLast ++ [nm'] ++ rest := (path_sound hxk).func hx2
    have hyP := hI.hasPath hy
    rw [hk, ← hK] at hyP
    obtain ⟨z, hzK, hzb⟩ := hyP.walk _ rest rfl (fkey_ne_nil _ _ _)
    obtain ⟨kz, hkz⟩ := hI.reg_up hzb ⟨_, hy⟩
    have := (hI.hasPath hkz).func hzK
    subst this
    exact hfree z hkz
  have hinj2 : ∀ x ∈ objectsBelow s prev, ∀ y ∈ objectsBelow s prev, ∀ k, path s2 x = some k → path s2 y = some k → x = y := by
    intro x hx y hy k hxk hyk
    obtain ⟨⟨kx, hkx⟩, hxb⟩ := (hbelow x).1 hx
    obtain ⟨⟨ky, hky⟩, hyb⟩ := (hbelow y).1 hy
    obtain ⟨rx, hrx, hx2⟩ := hre x kx hkx hxb
    obtain ⟨ry, hry, hy2⟩ := hre y ky hky hyb
    have e1 := (path_sound hxk).func hx2
    have e2 := (path_sound hyk).func hy2
    have : rx = ry := List.append_cancel_left (e1.symm.trans e2)
    subst this
    rw [← hry] at hrx
    subst hrx
    exact uniq_val hI.uniq hkx hky
  -- addAll
  cases hadd : addAll s2 (objectsBelow s prev) with
  | error e => simp only [hadd] at h; cases h
  | ok s3 =>
  simp only [hadd, Except.ok.injEq] at h
  have h2u : Uniq s2.all := h2a ▸ h1u
  obtain ⟨h3o, h3r, h3u, h3d, h3m⟩ := addAll_spec _ _ _ h2u hinj2 hadd
  subst h
  have hs'o : s3.objs = s2.objs := h3o
  have hpath' : ∀ a x, path { s3 with all := a } x = path s2 x := fun a x => path_congr_objs (t := s2) h3o x
  -- membership in the final registry
  have hmem : ∀ k v, (k, v) ∈ dset s3.all fn obj ↔
      ((k = fn ∧ v = obj) ∨ (k ≠ fn ∧ (((k, v) ∈ s.all ∧ ¬Below s.objs prev v) ∨
        (v ∈ objectsBelow s prev ∧ path s2 v = some k)))) := by
    intro k v
    rw [mem_dset_iff h3u, h3m, h2a, h1m]
    constructor
    · rintro (a | ⟨a, ⟨⟨b1, b2⟩, b3⟩ | b⟩)
      · exact Or.inl a
      · refine Or.inr ⟨a, Or.inl ⟨b1, fun hb => ?_⟩⟩
        exact b2 v ((hbelow v).2 ⟨⟨k, b1⟩, hb⟩) (hI.keys k v b1)
      · exact Or.inr ⟨a, Or.inr b⟩
    · rintro (a | ⟨a, ⟨b1, b2⟩ | b⟩)
      · exact Or.inl a
      · refine Or.inr ⟨a, Or.inl ⟨⟨b1, ?_⟩, ?_⟩⟩
        · intro x hx hxk
          obtain ⟨⟨kx, hkx⟩, hxb⟩ := (hbelow x).1 hx
          have := hI.keys kx x hkx
          rw [hxk] at this; injection this with this; subst this
          exact b2 (uniq_val hI.uniq hkx b1 ▸ hxb)
        · intro x hx hxk
          exact hcoll k v x b1 hx hxk
      · exact Or.inr ⟨a, Or.inr b⟩
  have hreg : ∀ i, Reg { s3 with all := dset s3.all fn obj } i ↔ (Reg s i ∨ i = obj) := by
    intro i
    constructor
    · rintro ⟨k, hk⟩
      rcases (hmem k i).1 hk with ⟨_, a⟩ | ⟨_, ⟨a, _⟩ | ⟨a, _⟩⟩
      · exact Or.inr a
      · exact Or.inl ⟨k, a⟩
      · exact Or.inl ((hbelow i).1 a).1
    · rintro (⟨k, hk⟩ | rfl)
      · by_cases hb : Below s.objs prev i
        · have hib := (hbelow i).2 ⟨⟨k, hk⟩, hb⟩
          obtain ⟨k2, hk2⟩ := h3d i hib
          obtain ⟨rest, _, hx2⟩ := hre i k hk hb
          have : k2 = fn.dropLast ++ [nm'] ++ rest := (path_sound hk2).func hx2
          exact ⟨k2, (hmem k2 i).2 (Or.inr ⟨this ▸ hne_fn rest, Or.inr ⟨hib, hk2⟩⟩)⟩
        · refine ⟨k, (hmem k i).2 (Or.inr ⟨?_, Or.inl ⟨hk, hb⟩⟩)⟩
          intro he; subst he
          exact hb (uniq_val hI.uniq hk hprev ▸ .refl)
      · exact ⟨fn, (hmem fn i).2 (Or.inl ⟨rfl, rfl⟩)⟩
  refine ⟨prev, nm', hprev, hsup, hs'o.trans h2o, h3r.trans h2r, ⟨dset_uniq h3u, ?_, ?_⟩, hreg,
    (hmem fn obj).2 (Or.inl ⟨rfl, rfl⟩)⟩
  · -- keys
    intro k v hkv
    show path { s3 with all := dset s3.all fn obj } v = some k
    rw [hpath']
    rcases (hmem k v).1 hkv with ⟨rfl, rfl⟩ | ⟨_, ⟨a, b⟩ | ⟨_, b⟩⟩
    · rw [hpath2 v hobj_nb]; exact hfn
    · rw [hpath2 v b]; exact hI.keys k v a
    · exact b
  · -- up
    intro i o' q hi ho' hq'
    have ho'' : s2.objs[i]? = some o' := by rw [← hs'o]; exact ho'
    have hpa := hagreeP i
    rw [ho''] at hpa
    cases hso : s.objs[i]? with
    | none => rw [hso] at hpa; simp at hpa
    | some os =>
      rw [hso] at hpa
      simp only [Option.map_some, Option.some.injEq] at hpa
      refine (hreg q).2 (Or.inl ?_)
      rcases (hreg i).1 hi with hr | rfl
      · exact hI.up i os q hr hso (hpa ▸ hq')
      · exact hpar os q hso (hpa ▸ hq')

/-! ## Layer 4: the tree part of the invariant; `addObject` -/

/-- a child is its parent's entry unless it has been superseded; a parentless object is a root -/
def Listed (objs : List Obj) (roots : List Nat) (i : Nat) (o : Obj) : Prop :=
  (o.parent = none → i ∈ roots) ∧
  (∀ p, o.parent = some p → ∃ po, objs[p]? = some po ∧
    (dget po.contents o.name = some i ∨ isSupersededName o.name = true))

/-- The tree part of the invariant. -/
structure CInv (objs : List Obj) (roots : List Nat) : Prop where
  cuniq : ∀ (p : Nat) (po : Obj), objs[p]? = some po → Uniq po.contents
  coh : ∀ (p : Nat) (po : Obj) (k : Name) (c : Nat), objs[p]? = some po → (k, c) ∈ po.contents →
    ∃ co : Obj, objs[c]? = some co ∧ co.parent = some p ∧ co.name = k
  listed : ∀ (i : Nat) (o : Obj), objs[i]? = some o → Listed objs roots i o
  rootsOk : ∀ r : Nat, r ∈ roots → ∃ o : Obj, objs[r]? = some o ∧ o.parent = none

/-- The invariant of C02. -/
structure Inv (s : State) : Prop where
  reg : PInv s
  full : ∀ i, i < s.objs.length → Reg s i
  tree : CInv s.objs s.roots

theorem modify_name_get {objs : List Obj} {prev : Nat} {nm' : Name} {i : Nat} {o' : Obj}
    (h : (objs.modify prev (fun p => { p with name := nm' }))[i]? = some o') :
    ∃ o, objs[i]? = some o ∧ o'.parent = o.parent ∧ o'.contents = o.contents ∧
      (i ≠ prev → o' = o) ∧ (i = prev → o'.name = nm') := by
  by_cases hi : i = prev
  · subst hi
    rw [getElem?_modify_eq] at h
    cases ho : objs[i]? with
    | none => rw [ho] at h; simp at h
    | some o =>
      rw [ho] at h; simp only [Option.map_some, Option.some.injEq] at h; subst h
      exact ⟨o, rfl, rfl, rfl, fun h => absurd rfl h, fun _ => rfl⟩
  · rw [getElem?_modify_ne _ hi] at h
    exact ⟨o', h, rfl, rfl, fun _ => rfl, fun h => absurd h hi⟩

theorem modify_name_get' {objs : List Obj} (prev : Nat) (nm' : Name) {i : Nat} {o : Obj}
    (h : objs[i]? = some o) :
    ∃ o', (objs.modify prev (fun p => { p with name := nm' }))[i]? = some o' ∧ o'.contents = o.contents ∧
      o'.parent = o.parent := by
  by_cases hi : i = prev
  · subst hi
    exact ⟨{ o with name := nm' }, by rw [getElem?_modify_eq, h]; rfl, rfl, rfl⟩
  · exact ⟨o, by rw [getElem?_modify_ne _ hi]; exact h, rfl, rfl⟩

/-- renaming a superseded object that nobody lists keeps the tree coherent -/
theorem CInv_rename {objs : List Obj} {roots : List Nat} {prev : Nat} {nm' : Name}
    (hsup : isSupersededName nm' = true)
    (cuniq : ∀ (p : Nat) (po : Obj), objs[p]? = some po → Uniq po.contents)
    (coh : ∀ (p : Nat) (po : Obj) (k : Name) (c : Nat), objs[p]? = some po → (k, c) ∈ po.contents →
      ∃ co : Obj, objs[c]? = some co ∧ co.parent = some p ∧ co.name = k)
    (hnoentry : ∀ (p : Nat) (po : Obj) (k : Name), objs[p]? = some po → (k, prev) ∉ po.contents)
    (hlisted : ∀ (i : Nat) (o : Obj), i ≠ prev → objs[i]? = some o → Listed objs roots i o)
    (hprevpar : ∀ po : Obj, objs[prev]? = some po → (po.parent = none → prev ∈ roots) ∧
      (∀ p, po.parent = some p → ∃ ppo : Obj, objs[p]? = some ppo))
    (hroots : ∀ r : Nat, r ∈ roots → ∃ o : Obj, objs[r]? = some o ∧ o.parent = none) :
    CInv (objs.modify prev (fun p => { p with name := nm' })) roots := by
  refine ⟨?_, ?_, ?_, ?_⟩
  · intro p po' hpo'
    obtain ⟨po, hpo, _, hc, _, _⟩ := modify_name_get hpo'
    rw [hc]; exact cuniq p po hpo
  · intro p po' k c hpo' hkc
    obtain ⟨po, hpo, _, hc, _, _⟩ := modify_name_get hpo'
    rw [hc] at hkc
    obtain ⟨co, hco, h1, h2⟩ := coh p po k c hpo hkc
    have hcp : c ≠ prev := fun e => hnoentry p po k hpo (e ▸ hkc)
    exact ⟨co, by rw [getElem?_modify_ne _ hcp]; exact hco, h1, h2⟩
  · intro i o' ho'
    obtain ⟨o, ho, hpar, _, hne, heq⟩ := modify_name_get ho'
    by_cases hi : i = prev
    · subst hi
      obtain ⟨h1, h2⟩ := hprevpar o ho
      refine ⟨fun hn => h1 (hpar ▸ hn), fun p hp => ?_⟩
      obtain ⟨ppo, hppo⟩ := h2 p (hpar ▸ hp)
      obtain ⟨ppo', hppo', _, _⟩ := modify_name_get' i nm' hppo
      exact ⟨ppo', hppo', Or.inr (by rw [heq rfl]; exact hsup)⟩
    · have := hne hi; subst this
      obtain ⟨h1, h2⟩ := hlisted i o' hi ho
      refine ⟨h1, fun p hp => ?_⟩
      obtain ⟨po, hpo, hd⟩ := h2 p hp
      obtain ⟨po', hpo', hc, _⟩ := modify_name_get' prev nm' hpo
      exact ⟨po', hpo', by rw [hc]; exact hd⟩
  · intro r hr
    obtain ⟨o, ho, hp⟩ := hroots r hr
    obtain ⟨o', ho', _, hp'⟩ := modify_name_get' prev nm' ho
    exact ⟨o', ho', hp'.trans hp⟩

/-! ### registration -/

/-- What `register` does to a registry satisfying `PInv` when `id` is not registered yet. -/
theorem register_spec {s1 s' : State} {id : Nat} (hP : PInv s1) (hnr : ¬Reg s1 id)
    (hpar : ∀ o q, s1.objs[id]? = some o → o.parent = some q → Reg s1 q)
    (h : register s1 id = .ok s') :
    PInv s' ∧ (∀ i, Reg s' i ↔ (Reg s1 i ∨ i = id)) ∧ s'.roots = s1.roots ∧
    ∃ fn, path s1 id = some fn ∧
      ((dget s1.all fn = none ∧ s'.objs = s1.objs) ∨
       (∃ prev nm', (fn, prev) ∈ s1.all ∧ isSupersededName nm' = true ∧
          s'.objs = s1.objs.modify prev (fun p => { p with name := nm' }))) := by
  unfold register at h
  cases hfn : path s1 id with
  | none => simp only [hfn] at h; cases h
  | some fn =>
    simp only [hfn] at h
    cases hdg : dget s1.all fn with
    | some prev0 =>
      simp only [hdg] at h
      obtain ⟨prev, nm', a1, a2, a3, a4, a5, a6, _⟩ := handleDuplicate_spec hP hnr hfn hpar h
      exact ⟨a5, a6, a4, fn, rfl, Or.inr ⟨prev, nm', a1, a2, a3⟩⟩
    | none =>
      simp only [hdg, Except.ok.injEq] at h
      subst h
      have hmem : ∀ k v, (k, v) ∈ s1.all ++ [(fn, id)] ↔ ((k, v) ∈ s1.all ∨ (k = fn ∧ v = id)) := by
        intro k v; simp
      have hreg : ∀ i, Reg { s1 with all := s1.all ++ [(fn, id)] } i ↔ (Reg s1 i ∨ i = id) := by
        intro i
        constructor
        · rintro ⟨k, hk⟩
          rcases (hmem k i).1 hk with a | ⟨_, a⟩
          · exact Or.inl ⟨k, a⟩
          · exact Or.inr a
        · rintro (⟨k, hk⟩ | rfl)
          · exact ⟨k, (hmem k i).2 (Or.inl hk)⟩
          · exact ⟨fn, (hmem fn i).2 (Or.inr ⟨rfl, rfl⟩)⟩
      refine ⟨⟨?_, ?_, ?_⟩, hreg, rfl, fn, rfl, Or.inl ⟨hdg, rfl⟩⟩
      · show Uniq (s1.all ++ [(fn, id)])
        rw [← dset_of_dget_none hdg]; exact dset_uniq hP.uniq
      · intro k v hkv
        show path s1 v = some k
        rcases (hmem k v).1 hkv with a | ⟨rfl, rfl⟩
        · exact hP.keys k v a
        · exact hfn
      · intro i o q hi ho hq
        refine (hreg q).2 (Or.inl ?_)
        rcases (hreg i).1 hi with a | rfl
        · exact hP.up i o q a ho hq
        · exact hpar o q ho hq

/-- the registry invariant survives appending a new (unregistered) object and editing
`contents`/`aliases` -/
theorem PInv_extend {s s1 : State} {new : Obj} (hI : PInv s) (hall : s1.all = s.all)
    (hlen : s1.objs.length = s.objs.length + 1)
    (hagree : ∀ i : Nat, (s1.objs[i]?).map okey = ((s.objs ++ [new])[i]?).map okey) :
    PInv s1 ∧ ∀ k i, (k, i) ∈ s.all → path s1 i = some k := by
  have hkeys : ∀ k i, (k, i) ∈ s.all → path s1 i = some k := by
    intro k i hki
    have h0 := hI.keys k i hki
    simp only [path] at h0 ⊢
    rw [hlen, pathAux_congr hagree]
    exact pathAux_mono (pathAux_append new h0)
  refine ⟨⟨hall ▸ hI.uniq, fun k i h => hkeys k i (hall ▸ h), ?_⟩, hkeys⟩
  intro i o q hi ho hq
  obtain ⟨k, hk⟩ := hi
  rw [hall] at hk
  have hlt := (hI.hasPath hk).lt
  have ha := hagree i
  rw [ho, List.getElem?_append_left hlt] at ha
  cases hso : s.objs[i]? with
  | none => rw [hso] at ha; simp at ha
  | some os =>
    rw [hso] at ha
    simp only [Option.map_some, Option.some.injEq, okey, Prod.mk.injEq] at ha
    obtain ⟨k', hk'⟩ := hI.up i os q ⟨k, hk⟩ hso (ha.2 ▸ hq)
    exact ⟨k', hall ▸ hk'⟩

theorem get_append_modify {objs : List Obj} {new : Obj} {p : Nat} {g : Obj → Obj} (i : Nat)
    (hp : p < objs.length) :
    ((objs ++ [new]).modify p g)[i]? =
      if i = objs.length then some new else (objs[i]?).map (fun o => if i = p then g o else o) := by
  by_cases hi : i = p
  · subst hi
    rw [getElem?_modify_eq, List.getElem?_append_left hp]
    have : i ≠ objs.length := Nat.ne_of_lt hp
    simp only [this, if_false, if_true]
  · rw [getElem?_modify_ne _ hi]
    by_cases hn : i = objs.length
    · subst hn; simp
    · simp only [hn, hi, if_false]
      by_cases hlt : i < objs.length
      · rw [List.getElem?_append_left hlt]; cases objs[i]? <;> rfl
      · have h1 : objs[i]? = none := List.getElem?_eq_none_iff.2 (by omega)
        have h2 : (objs ++ [new])[i]? = none := List.getElem?_eq_none_iff.2 (by simp; omega)
        rw [h1, h2]; rfl

theorem Reg.lt {s : State} (hI : PInv s) {i} (h : Reg s i) : i < s.objs.length := by
  obtain ⟨k, hk⟩ := h
  exact (hI.hasPath hk).lt

theorem HasPath.root_inv {objs : List Obj} {i k o} (h : HasPath objs i k) (ho : objs[i]? = some o)
    (hp : o.parent = none) : k = [o.name] :=
  h.func (.root ho hp)

theorem HasPath.child_inv {objs : List Obj} {i k o q} (h : HasPath objs i k) (ho : objs[i]? = some o)
    (hp : o.parent = some q) : ∃ pq, HasPath objs q pq ∧ k = pq ++ [o.name] := by
  cases h with
  | root ho' hp' => rw [ho] at ho'; injection ho' with e; subst e; rw [hp] at hp'; cases hp'
  | @child _ _ _ pq ho' hp' hq' =>
    rw [ho] at ho'; injection ho' with e; subst e
    rw [hp] at hp'; injection hp' with e; subst e
    exact ⟨pq, hq', rfl⟩

/-- `addObject`, with the placement step abstracted: `s1` is `s` plus one new object `new`
(index `n`), listed in `contents` of its parent or in `roots`. -/
theorem addObject_core {s s1 s' : State} {new : Obj} {name : Name} {parent : Option Nat}
    (hI : Inv s) (hall : s1.all = s.all) (hlen : s1.objs.length = s.objs.length + 1)
    (hgetn : s1.objs[s.objs.length]? = some new)
    (hnew : new.name = name ∧ new.parent = parent ∧ new.contents = [])
    (hget : ∀ i, i < s.objs.length → ∃ o o1, s.objs[i]? = some o ∧ s1.objs[i]? = some o1 ∧
      o1.name = o.name ∧ o1.parent = o.parent ∧
      o1.contents = if parent = some i then dset o.contents name s.objs.length else o.contents)
    (hroots : (parent = none → s1.roots = s.roots ++ [s.objs.length]) ∧
      (∀ p, parent = some p → s1.roots = s.roots ∧ p < s.objs.length))
    (h : register s1 s.objs.length = .ok s') : Inv s' := by
  obtain ⟨hnm, hnp, hnc⟩ := hnew
  -- lookups in s1
  have hcases : ∀ i o1, s1.objs[i]? = some o1 → (i = s.objs.length ∧ o1 = new) ∨
      (i < s.objs.length ∧ ∃ o, s.objs[i]? = some o ∧ o1.name = o.name ∧ o1.parent = o.parent ∧
        o1.contents = if parent = some i then dset o.contents name s.objs.length else o.contents) := by
    intro i o1 ho1
    have hlt := (List.getElem?_eq_some_iff.1 ho1).1
    by_cases hi : i = s.objs.length
    · subst hi; rw [hgetn] at ho1; injection ho1 with e; exact Or.inl ⟨rfl, e.symm⟩
    · have hlt' : i < s.objs.length := by omega
      obtain ⟨o, o1', a1, a2, a3, a4, a5⟩ := hget i hlt'
      rw [ho1] at a2; injection a2 with e; subst e
      exact Or.inr ⟨hlt', o, a1, a3, a4, a5⟩
  have hagree : ∀ i : Nat, (s1.objs[i]?).map okey = ((s.objs ++ [new])[i]?).map okey := by
    intro i
    by_cases hlt : i < s.objs.length
    · obtain ⟨o, o1, a1, a2, a3, a4, _⟩ := hget i hlt
      rw [List.getElem?_append_left hlt, a1, a2]; simp [okey, a3, a4]
    · by_cases hi : i = s.objs.length
      · subst hi; rw [hgetn, List.getElem?_append_right (Nat.le_refl _)]; simp
      · have h1 : s1.objs[i]? = none := List.getElem?_eq_none_iff.2 (by omega)
        have h2 : (s.objs ++ [new])[i]? = none := List.getElem?_eq_none_iff.2 (by simp; omega)
        rw [h1, h2]
  obtain ⟨hP1, hkeys1⟩ := PInv_extend hI.reg hall hlen hagree
  have hreg1 : ∀ i, Reg s1 i ↔ Reg s i := by intro i; simp only [Reg, hall]
  have hnr : ¬Reg s1 s.objs.length := fun hr => Nat.lt_irrefl _ (Reg.lt hI.reg ((hreg1 _).1 hr))
  have hpar : ∀ o q, s1.objs[s.objs.length]? = some o → o.parent = some q → Reg s1 q := by
    intro o q ho hq
    rw [hgetn] at ho; injection ho with e; subst e
    exact (hreg1 q).2 (hI.full q (hroots.2 q (hnp ▸ hq)).2)
  obtain ⟨hP', hreg', hroots', fn, hfn, hcase⟩ := register_spec hP1 hnr hpar h
  have hfnP : HasPath s1.objs s.objs.length fn := path_sound hfn
  -- the tree part in s1
  have cuniq1 : ∀ (i : Nat) (o1 : Obj), s1.objs[i]? = some o1 → Uniq o1.contents := by
    intro i o1 ho1
    rcases hcases i o1 ho1 with ⟨_, rfl⟩ | ⟨_, o, a1, _, _, a4⟩
    · rw [hnc]; exact uniq_nil
    · rw [a4]; split
      · exact dset_uniq (hI.tree.cuniq i o a1)
      · exact hI.tree.cuniq i o a1
  have coh1 : ∀ (i : Nat) (o1 : Obj) (k : Name) (c : Nat), s1.objs[i]? = some o1 → (k, c) ∈ o1.contents →
      ∃ co : Obj, s1.objs[c]? = some co ∧ co.parent = some i ∧ co.name = k := by
    intro i o1 k c ho1 hkc
    rcases hcases i o1 ho1 with ⟨_, rfl⟩ | ⟨_, o, a1, _, _, a4⟩
    · rw [hnc] at hkc; simp at hkc
    · have hold : (k, c) ∈ o.contents → ∃ co : Obj, s1.objs[c]? = some co ∧ co.parent = some i ∧ co.name = k := by
        intro hm
        obtain ⟨co, b1, b2, b3⟩ := hI.tree.coh i o k c a1 hm
        obtain ⟨o', o1', c1, c2, c3, c4, _⟩ := hget c (List.getElem?_eq_some_iff.1 b1).1
        rw [b1] at c1; injection c1 with e; subst e
        exact ⟨o1', c2, c4.trans b2, c3.trans b3⟩
      rw [a4] at hkc
      split at hkc
      · rename_i hpi
        rcases (mem_dset_iff (hI.tree.cuniq i o a1)).1 hkc with ⟨rfl, rfl⟩ | ⟨_, hm⟩
        · exact ⟨new, hgetn, hnp.trans hpi, hnm⟩
        · exact hold hm
      · exact hold hkc
  have listed1 : ∀ (i : Nat) (o1 : Obj), s1.objs[i]? = some o1 → (∀ v, (fn, v) ∈ s1.all → v ≠ i) →
      Listed s1.objs s1.roots i o1 := by
    intro i o1 ho1 hnofn
    rcases hcases i o1 ho1 with ⟨rfl, rfl⟩ | ⟨hlt, o, a1, a2, a3, _⟩
    · refine ⟨fun hn => ?_, fun p hp => ?_⟩
      · rw [hroots.1 (hnp ▸ hn)]; simp
      · have hpp : parent = some p := hnp ▸ hp
        obtain ⟨po, po1, b1, b2, _, _, b5⟩ := hget p (hroots.2 p hpp).2
        refine ⟨po1, b2, Or.inl ?_⟩
        rw [b5, if_pos hpp, hnm]; exact dset_get_same _ _ _
    · obtain ⟨l1, l2⟩ := hI.tree.listed i o a1
      refine ⟨fun hn => ?_, fun q hq => ?_⟩
      · have := l1 (a3 ▸ hn)
        cases hpc : parent with
        | none => rw [hroots.1 hpc]; exact List.mem_append_left _ this
        | some p => rw [(hroots.2 p hpc).1]; exact this
      · obtain ⟨po, b1, b2⟩ := l2 q (a3 ▸ hq)
        obtain ⟨po', po1, c1, c2, _, _, c5⟩ := hget q (List.getElem?_eq_some_iff.1 b1).1
        rw [b1] at c1; injection c1 with e; subst e
        refine ⟨po1, c2, ?_⟩
        rcases b2 with b2 | b2
        · left
          rw [c5, a2]
          split
          · rename_i hpq
            by_cases hname : o.name = name
            · exfalso
              obtain ⟨pp, hpp, hfneq⟩ := hfnP.child_inv hgetn (hnp.trans hpq)
              have hiP : HasPath s1.objs i (pp ++ [o1.name]) := .child ho1 hq hpp
              rw [a2, hname, ← hnm, ← hfneq] at hiP
              obtain ⟨ki, hki⟩ := hI.full i hlt
              have := (path_sound (hkeys1 ki i hki)).func hiP
              subst this
              exact hnofn i (hall ▸ hki) rfl
            · rw [dset_get_other _ _ _ _ hname]; exact b2
          · exact b2
        · right; rw [a2]; exact b2
  have roots1 : ∀ r : Nat, r ∈ s1.roots → ∃ o : Obj, s1.objs[r]? = some o ∧ o.parent = none := by
    intro r hr
    have hold : r ∈ s.roots → ∃ o : Obj, s1.objs[r]? = some o ∧ o.parent = none := by
      intro hr'
      obtain ⟨o, ho, hp⟩ := hI.tree.rootsOk r hr'
      obtain ⟨o', o1, c1, c2, _, c4, _⟩ := hget r (List.getElem?_eq_some_iff.1 ho).1
      rw [ho] at c1; injection c1 with e; subst e
      exact ⟨o1, c2, c4.trans hp⟩
    cases hpc : parent with
    | none =>
      rw [hroots.1 hpc] at hr
      rcases List.mem_append.1 hr with a | a
      · exact hold a
      · simp only [List.mem_singleton] at a; subst a
        exact ⟨new, hgetn, hnp.trans hpc⟩
    | some p => rw [(hroots.2 p hpc).1] at hr; exact hold hr
  -- assemble
  have hlen' : s'.objs.length = s.objs.length + 1 := by
    rcases hcase with ⟨_, e⟩ | ⟨_, _, _, _, e⟩
    · rw [e, hlen]
    · rw [e, List.length_modify, hlen]
  refine ⟨hP', ?_, ?_⟩
  · intro i hi
    rw [hlen'] at hi
    by_cases hin : i = s.objs.length
    · exact (hreg' i).2 (Or.inr hin)
    · exact (hreg' i).2 (Or.inl ((hreg1 i).2 (hI.full i (by omega))))
  · rcases hcase with ⟨hdg, e⟩ | ⟨prev, nm', hprev, hsup, e⟩
    · rw [e, hroots']
      have hno := dget_none_iff.1 hdg
      exact ⟨cuniq1, coh1, fun i o1 ho1 => listed1 i o1 ho1 (fun v hv => absurd hv (hno v)), roots1⟩
    · rw [e, hroots']
      have hprevR : Reg s prev := ⟨fn, hall ▸ hprev⟩
      have hprevlt : prev < s.objs.length := Reg.lt hI.reg hprevR
      refine CInv_rename hsup cuniq1 coh1 ?_ ?_ ?_ roots1
      · -- nobody lists prev
        intro q qo k hqo hent
        obtain ⟨co, b1, b2, b3⟩ := coh1 q qo k prev hqo hent
        have hprevP : HasPath s1.objs prev fn := hP1.hasPath hprev
        obtain ⟨pq, hpq, e1⟩ := hprevP.child_inv b1 b2
        cases hpc : parent with
        | none =>
          have := hfnP.root_inv hgetn (hnp.trans hpc)
          rw [this] at e1
          have h1 := congrArg List.length e1
          simp only [List.length_append, List.length_cons, List.length_nil] at h1
          have h2 := hpq.length_pos
          omega
        | some p =>
          obtain ⟨pp, hpp, e2⟩ := hfnP.child_inv hgetn (hnp.trans hpc)
          rw [e2] at e1
          obtain ⟨e3, e4⟩ := List.append_inj' e1 rfl
          simp only [List.cons.injEq, and_true] at e4
          subst e3
          have hplt := (hroots.2 p hpc).2
          obtain ⟨kp, hkp⟩ := hI.full p hplt
          have hqR : Reg s1 q := hP1.up prev co q ⟨fn, hprev⟩ b1 b2
          have hkpP := hP1.hasPath (hall ▸ hkp : (kp, p) ∈ s1.all)
          have := hkpP.func hpp
          subst this
          have hqp : q = p := hP1.inj (hall ▸ hkp : (kp, p) ∈ s1.all) hqR hpq
          subst hqp
          rcases hcases q qo hqo with ⟨a, _⟩ | ⟨_, o, a1, _, _, a4⟩
          · omega
          · rw [a4, if_pos hpc] at hent
            rcases (mem_dset_iff (hI.tree.cuniq q o a1)).1 hent with ⟨_, a⟩ | ⟨a, _⟩
            · exact hnr (a ▸ ⟨fn, hprev⟩)
            · exact a (b3.symm.trans (e4.symm ▸ hnm) |>.symm ▸ rfl)
      · intro i o1 hi ho1
        exact listed1 i o1 ho1 (fun v hv => (uniq_val hP1.uniq hv hprev).symm ▸ hi.symm)
      · intro po1 hpo1
        rcases hcases prev po1 hpo1 with ⟨a, _⟩ | ⟨_, o, a1, _, a3, _⟩
        · omega
        · obtain ⟨l1, l2⟩ := hI.tree.listed prev o a1
          refine ⟨fun hn => ?_, fun q hq => ?_⟩
          · have := l1 (a3 ▸ hn)
            cases hpc : parent with
            | none => rw [hroots.1 hpc]; exact List.mem_append_left _ this
            | some p => rw [(hroots.2 p hpc).1]; exact this
          · obtain ⟨ppo, b1, _⟩ := l2 q (a3 ▸ hq)
            obtain ⟨_, ppo1, _, c2, _⟩ := hget q (List.getElem?_eq_some_iff.1 b1).1
            exact ⟨ppo1, c2⟩

/-- `System.addObject` preserves the invariant. -/
theorem addObject_inv {s s' : State} {c : Cls} {name : Name} {parent : Option Nat}
    (hI : Inv s) (h : addObject s c name parent = .ok s') : Inv s' := by
  unfold addObject at h
  cases hpl : place s c name parent with
  | error e => simp only [hpl] at h; cases h
  | ok s1 =>
  simp only [hpl] at h
  unfold place at hpl
  cases parent with
  | none =>
    simp only at hpl
    split at hpl
    · simp only [Except.ok.injEq] at hpl
      refine addObject_core (s1 := s1) (new := ⟨name, none, c, [], []⟩) (name := name) (parent := none) hI
        (by rw [← hpl]) (by rw [← hpl]; simp) (by rw [← hpl]; simp) ⟨rfl, rfl, rfl⟩ ?_
        ⟨fun _ => (by rw [← hpl]), fun p hp => (by cases hp)⟩ h
      intro i hi
      have : s.objs[i]? = some s.objs[i] := by simp [hi]
      refine ⟨s.objs[i], s.objs[i], this, ?_, rfl, rfl, by simp⟩
      rw [← hpl]; simp only [List.getElem?_append_left hi]; exact this
    · cases hpl
  | some p =>
    simp only at hpl
    split at hpl
    · rename_i hp
      simp only [Except.ok.injEq] at hpl
      refine addObject_core (s1 := s1) (new := ⟨name, some p, c, [], []⟩) (name := name) (parent := some p) hI
        (by rw [← hpl]; rfl) (by rw [← hpl]; simp [modifyObj]) ?_ ⟨rfl, rfl, rfl⟩ ?_
        ⟨fun hn => (by cases hn), fun q hq => ?_⟩ h
      · rw [← hpl]; simp only [modifyObj]
        rw [get_append_modify _ hp]; simp
      · intro i hi
        have hsi : s.objs[i]? = some s.objs[i] := by simp [hi]
        rw [← hpl]; simp only [modifyObj]
        rw [get_append_modify _ hp, hsi]
        have hne : i ≠ s.objs.length := Nat.ne_of_lt hi
        simp only [hne, if_false, Option.map_some]
        by_cases hip : i = p
        · subst hip; refine ⟨_, _, rfl, rfl, ?_, ?_, ?_⟩ <;> simp
        · refine ⟨_, _, rfl, rfl, ?_, ?_, ?_⟩ <;> simp [hip, Ne.symm hip]
      · injection hq with hq; subst hq; rw [← hpl]; exact ⟨rfl, hp⟩
    · cases hpl

/-! ## Layer 5: `reparent` -/

theorem Below.parent {objs : List Obj} {top i o q} (hb : Below objs top i) (hi : i ≠ top)
    (ho : objs[i]? = some o) (hq : o.parent = some q) : Below objs top q := by
  cases hb with
  | refl => exact absurd rfl hi
  | step ho' hp' hb' =>
    rw [ho] at ho'; injection ho' with e; subst e
    rw [hq] at hp'; injection hp' with e; subst e
    exact hb'

theorem mem_of_ddel {κ ν : Type} [DecidableEq κ] {d d' : List (κ × ν)} {k : κ} (h : ddel d k = some d') :
    ∃ v, (k, v) ∈ d := by
  cases hd : dget d k with
  | none => rw [(ddel_none_iff d k).2 hd] at h; cases h
  | some v => exact ⟨v, mem_of_dget hd⟩

/-- `delAll` over `objectsBelow top` removes exactly the subtree of `top` -/
theorem delAll_below {s s1 : State} {top : Nat} (hI : PInv s) (h : delAll s (objectsBelow s top) = .ok s1) :
    s1.objs = s.objs ∧ s1.roots = s.roots ∧ Uniq s1.all ∧
    ∀ k v, (k, v) ∈ s1.all ↔ ((k, v) ∈ s.all ∧ ¬Below s.objs top v) := by
  obtain ⟨h1, h2, h3, h4⟩ := delAll_spec _ _ _ hI.uniq h
  refine ⟨h1, h2, h3, fun k v => ?_⟩
  rw [h4]
  constructor
  · rintro ⟨a, b⟩
    exact ⟨a, fun hb => b v ((mem_objectsBelow hI).2 ⟨⟨k, a⟩, hb⟩) (hI.keys k v a)⟩
  · rintro ⟨a, b⟩
    refine ⟨a, fun x hx hxk => ?_⟩
    obtain ⟨⟨kx, hkx⟩, hxb⟩ := (mem_objectsBelow hI).1 hx
    have := hI.keys kx x hkx
    rw [hxk] at this; injection this with this; subst this
    exact b (uniq_val hI.uniq hkx a ▸ hxb)

/-- the last loop of `reparent`: re-register the moved subtree -/
theorem reparent_finish {s s5 s' : State} {obj : Nat} {A B : Path} {ran : Prop}
    (hI : Inv s) (hA : (A, obj) ∈ s.all) (hP5 : PInv s5)
    (hreg5 : ∀ i, Reg s5 i ↔ ((Reg s i ∧ ¬Below s.objs obj i) ∨ (i = obj ∧ ran)))
    (hparA : ∀ i : Nat, i ≠ obj → (s5.objs[i]?).map (·.parent) = (s.objs[i]?).map (·.parent))
    (hkeyA : ∀ i : Nat, Below s.objs obj i → i ≠ obj → (s5.objs[i]?).map okey = (s.objs[i]?).map okey)
    (hobj : path s5 obj = some B)
    (hran : ran → (B, obj) ∈ s5.all) (hnran : ¬ran → ∀ v, (B, v) ∉ s5.all)
    (hobjpar : ∀ o q, s5.objs[obj]? = some o → o.parent = some q → Reg s5 q)
    (h : addAll s5 (objectsBelow s obj) = .ok s') :
    PInv s' ∧ (∀ i, i < s.objs.length → Reg s' i) ∧ s'.objs = s5.objs ∧ s'.roots = s5.roots ∧
    (∀ k v, (k, v) ∈ s5.all → (k, v) ∈ s'.all) ∧
    (∀ k v, (k, v) ∈ s'.all → ((k, v) ∈ s5.all ∨ (Reg s v ∧ Below s.objs obj v))) ∧
    (∀ x kx, (kx, x) ∈ s.all → Below s.objs obj x →
      ∃ rest, kx = A ++ rest ∧ path s' x = some (B ++ rest)) := by
  have hbelow : ∀ x, x ∈ objectsBelow s obj ↔ (Reg s x ∧ Below s.objs obj x) := fun x => mem_objectsBelow hI.reg
  have hAP := hI.reg.hasPath hA
  have hBP : HasPath s5.objs obj B := path_sound hobj
  have hre : ∀ x kx, (kx, x) ∈ s.all → Below s.objs obj x →
      ∃ rest, kx = A ++ rest ∧ HasPath s5.objs x (B ++ rest) :=
    fun x kx hx hb => reroot hkeyA hAP hBP hb (hI.reg.hasPath hx)
  have hinj5 : ∀ x ∈ objectsBelow s obj, ∀ y ∈ objectsBelow s obj, ∀ k,
      path s5 x = some k → path s5 y = some k → x = y := by
    intro x hx y hy k hxk hyk
    obtain ⟨⟨kx, hkx⟩, hxb⟩ := (hbelow x).1 hx
    obtain ⟨⟨ky, hky⟩, hyb⟩ := (hbelow y).1 hy
    obtain ⟨rx, hrx, hx2⟩ := hre x kx hkx hxb
    obtain ⟨ry, hry, hy2⟩ := hre y ky hky hyb
    have e1 := (path_sound hxk).func hx2
    have e2 := (path_sound hyk).func hy2
    have : rx = ry := List.append_cancel_left (e1.symm.trans e2)
    subst this
    rw [← hry] at hrx
    subst hrx
    exact uniq_val hI.reg.uniq hkx hky
  obtain ⟨h6o, h6r, h6u, h6d, h6m⟩ := addAll_spec _ _ _ hP5.uniq hinj5 h
  have hpath' : ∀ x, path s' x = path s5 x := fun x => path_congr_objs h6o x
  -- a registered name that is also the new name of a moved object belongs to that object
  have hcoll : ∀ k y x, (k, y) ∈ s5.all → x ∈ objectsBelow s obj → path s5 x = some k → y = x := by
    intro k y x hy hx hxk
    obtain ⟨⟨kx, hkx⟩, hxb⟩ := (hbelow x).1 hx
    obtain ⟨rest, hkxe, hx5⟩ := hre x kx hkx hxb
    have hk : k = B ++ rest := (path_sound hxk).func hx5
    have hyP := hP5.hasPath hy
    obtain ⟨z, hzB, hzb⟩ := hyP.walk B rest hk hBP.ne_nil
    obtain ⟨kz, hkz⟩ := hP5.reg_up hzb ⟨k, hy⟩
    have := (hP5.hasPath hkz).func hzB
    subst this
    by_cases hr : ran
    · have hz : z = obj := uniq_val hP5.uniq hkz (hran hr)
      subst hz
      have hyb : Below s.objs z y := hzb.transfer (fun i hi => (hparA i hi).symm)
      have hyo : y = z := by
        rcases (hreg5 y).1 ⟨k, hy⟩ with ⟨_, a⟩ | ⟨a, _⟩
        · exact absurd hyb a
        · exact a
      subst hyo
      have hkB : k = kz := hyP.func hBP
      rw [hkB] at hk
      have hrest : rest = [] := by
        have := congrArg List.length hk
        simp only [List.length_append] at this
        exact List.eq_nil_of_length_eq_zero (by omega)
      subst hrest
      simp only [List.append_nil] at hkxe
      subst hkxe
      exact uniq_val hI.reg.uniq hA hkx
    · exact absurd hkz (hnran hr z)
  have hregS : ∀ i, Reg s' i ↔ (Reg s5 i ∨ i ∈ objectsBelow s obj) := by
    intro i
    constructor
    · rintro ⟨k, hk⟩
      rcases (h6m k i).1 hk with ⟨a, _⟩ | ⟨a, _⟩
      · exact Or.inl ⟨k, a⟩
      · exact Or.inr a
    · rintro (⟨k, hk⟩ | hb)
      · by_cases hex : ∃ x, x ∈ objectsBelow s obj ∧ path s5 x = some k
        · obtain ⟨x, hx, hxk⟩ := hex
          have := hcoll k i x hk hx hxk
          subst this
          exact ⟨k, (h6m k i).2 (Or.inr ⟨hx, hxk⟩)⟩
        · exact ⟨k, (h6m k i).2 (Or.inl ⟨hk, fun x hx hxk => hex ⟨x, hx, hxk⟩⟩)⟩
      · obtain ⟨k, hk⟩ := h6d i hb
        exact ⟨k, (h6m k i).2 (Or.inr ⟨hb, hk⟩)⟩
  refine ⟨⟨h6u, ?_, ?_⟩, ?_, h6o, h6r, ?_, ?_, ?_⟩
  rotate_left 3
  · intro k v hk
    by_cases hex : ∃ x, x ∈ objectsBelow s obj ∧ path s5 x = some k
    · obtain ⟨x, hx, hxk⟩ := hex
      have := hcoll k v x hk hx hxk
      subst this
      exact (h6m k v).2 (Or.inr ⟨hx, hxk⟩)
    · exact (h6m k v).2 (Or.inl ⟨hk, fun x hx hxk => hex ⟨x, hx, hxk⟩⟩)
  · intro k v hk
    rcases (h6m k v).1 hk with ⟨a, _⟩ | ⟨a, _⟩
    · exact Or.inl a
    · exact Or.inr ((hbelow v).1 a)
  · intro x kx hx hb
    obtain ⟨rest, e, hP⟩ := hre x kx hx hb
    obtain ⟨k, hk⟩ := h6d x ((hbelow x).2 ⟨⟨kx, hx⟩, hb⟩)
    have := (path_sound hk).func hP
    exact ⟨rest, e, by rw [hpath', hk, this]⟩
  · intro k v hkv
    rw [hpath']
    rcases (h6m k v).1 hkv with ⟨a, _⟩ | ⟨_, a⟩
    · exact hP5.keys k v a
    · exact a
  · intro i o q hi ho hq
    rw [h6o] at ho
    rcases (hregS i).1 hi with r5 | hb
    · exact (hregS q).2 (Or.inl (hP5.up i o q r5 ho hq))
    · by_cases hio : i = obj
      · subst hio; exact (hregS q).2 (Or.inl (hobjpar o q ho hq))
      · obtain ⟨hiR, hib⟩ := (hbelow i).1 hb
        have hpa := hparA i hio
        rw [ho] at hpa
        cases hso : s.objs[i]? with
        | none => rw [hso] at hpa; simp at hpa
        | some os =>
          rw [hso] at hpa
          simp only [Option.map_some, Option.some.injEq] at hpa
          have hq' : os.parent = some q := hpa ▸ hq
          exact (hregS q).2 (Or.inr ((hbelow q).2 ⟨hI.reg.up i os q hiR hso hq', hib.parent hio hso hq'⟩))
  · intro i hi
    have hiR := hI.full i hi
    by_cases hb : Below s.objs obj i
    · exact (hregS i).2 (Or.inr ((hbelow i).2 ⟨hiR, hb⟩))
    · exact (hregS i).2 (Or.inl ((hreg5 i).2 (Or.inl ⟨hiR, hb⟩)))

/-- the objects after the three in-place edits of `reparent` -/
def moveObjs (objs : List Obj) (obj op np : Nat) (newName : Name) (oc : List (Name × Nat))
    (oldName : Name) (newPath : Path) : List Obj :=
  ((objs.modify obj (fun x => { x with parent := some np, name := newName })).modify op
      (fun x => { x with contents := oc, aliases := dset x.aliases oldName newPath })).modify np
      (fun x => { x with contents := dset x.contents newName obj })

/-- the three in-place edits of `reparent`, field by field -/
theorem modify3_get (l : List Obj) (obj op np : Nat) (newName : Name) (oc : List (Name × Nat))
    (oldName : Name) (newPath : Path) (i : Nat) :
    ∃ F : Obj → Obj,
      (moveObjs l obj op np newName oc oldName newPath)[i]? = (l[i]?).map F ∧
      ∀ os, (F os).name = (if i = obj then newName else os.name) ∧
        (F os).parent = (if i = obj then some np else os.parent) ∧
        (F os).contents = (if i = np then dset (if i = op then oc else os.contents) newName obj
                            else (if i = op then oc else os.contents)) ∧
        (F os).cls = os.cls ∧
        (F os).aliases = (if i = op then dset os.aliases oldName newPath else os.aliases) := by
  refine ⟨fun a =>
    (fun a : Obj => if np = i then { a with contents := dset a.contents newName obj } else a)
      ((fun a : Obj => if op = i then { a with contents := oc, aliases := dset a.aliases oldName newPath } else a)
        ((fun a : Obj => if obj = i then { a with parent := some np, name := newName } else a) a)), ?_, ?_⟩
  · simp only [moveObjs, List.getElem?_modify]
    cases l[i]? <;> rfl
  · intro os
    by_cases h1 : obj = i <;> by_cases h2 : op = i <;> by_cases h3 : np = i <;>
      simp [h1, h2, h3, eq_comm]

/-- What a successful `reparent s obj newParent newName = .ok s'` did, for the witnesses
`o` (the moved object as it was), `op`/`opo` (its old parent), `oc` (the old parent's contents
without the old name), `A` (the old qualified name), `pnp` (the qualified name of the new parent). -/
structure ReparentFacts (s s' : State) (obj newParent : Nat) (newName : Name)
    (o : Obj) (op : Nat) (opo : Obj) (oc : List (Name × Nat)) (A pnp : Path) : Prop where
  ho : s.objs[obj]? = some o
  hop : o.parent = some op
  hopo : s.objs[op]? = some opo
  hcc : canContainImports opo.cls = true
  hdd : ddel opo.contents o.name = some oc
  hA : (A, obj) ∈ s.all
  hpnp : (pnp, newParent) ∈ s.all
  hnb : ¬Below s.objs obj newParent
  roots : s'.roots = s.roots
  newPath : path s' obj = some (pnp ++ [newName])
  /-- everything below `obj` is renamed by replacing the old name of `obj` with the new one -/
  moved : ∀ x kx, (kx, x) ∈ s.all → Below s.objs obj x →
    ∃ rest, kx = A ++ rest ∧ path s' x = some (pnp ++ [newName] ++ rest)
  branch :
    -- the destination name was free
    ((∀ v, (pnp ++ [newName], v) ∈ s.all → Below s.objs obj v) ∧
      s'.objs = moveObjs s.objs obj op newParent newName oc o.name (pnp ++ [newName]) ∧
      (∀ k v, (k, v) ∈ s.all → ¬Below s.objs obj v → (k, v) ∈ s'.all) ∧
      (∀ k v, (k, v) ∈ s'.all → (((k, v) ∈ s.all ∧ ¬Below s.objs obj v) ∨ Below s.objs obj v))) ∨
    -- it was taken by `prev`, which is superseded
    (∃ prev nm', (pnp ++ [newName], prev) ∈ s.all ∧ ¬Below s.objs obj prev ∧ isSupersededName nm' = true ∧
      s'.objs = (moveObjs s.objs obj op newParent newName oc o.name (pnp ++ [newName])).modify prev
        (fun p => { p with name := nm' }))

/-- `Documentable.reparent` preserves the invariant, and what it does. -/
theorem reparent_spec {s s' : State} {obj newParent : Nat} {newName : Name} (hI : Inv s)
    (h : reparent s obj newParent newName = .ok s') :
    Inv s' ∧ ∃ o op opo oc A pnp, ReparentFacts s s' obj newParent newName o op opo oc A pnp := by
  unfold reparent at h
  cases hgo : getObj s obj with
  | none => simp only [hgo] at h; cases h
  | some o =>
  cases hgn : getObj s newParent with
  | none => simp only [hgo, hgn] at h; cases h
  | some npo =>
  simp only [hgo, hgn] at h
  have ho : s.objs[obj]? = some o := hgo
  have hnpo : s.objs[newParent]? = some npo := hgn
  have hobjlt : obj < s.objs.length := (List.getElem?_eq_some_iff.1 ho).1
  have hnplt : newParent < s.objs.length := (List.getElem?_eq_some_iff.1 hnpo).1
  cases hdel : delAll s (objectsBelow s obj) with
  | error e => simp only [hdel] at h; cases h
  | ok s1 =>
  simp only [hdel] at h
  obtain ⟨h1o, h1r, h1u, h1m⟩ := delAll_below hI.reg hdel
  cases hop : o.parent with
  | none => simp only [hop] at h; cases h
  | some op =>
  simp only [hop] at h
  cases hgop : getObj s1 op with
  | none => simp only [hgop] at h; cases h
  | some opo =>
  simp only [hgop] at h
  have hopo : s.objs[op]? = some opo := by rw [← h1o]; exact hgop
  cases hcc : canContainImports opo.cls with
  | false => simp only [hcc, Bool.not_false, if_true] at h; cases h
  | true =>
  simp only [hcc, Bool.not_true, Bool.false_eq_true, if_false] at h
  cases hdd : ddel opo.contents o.name with
  | none => simp only [hdd] at h; cases h
  | some oc =>
  simp only [hdd] at h
  generalize hs2 : modifyObj s1 obj (fun x => { x with parent := some newParent, name := newName }) = s2 at h
  cases hnp : path s2 obj with
  | none => simp only [hnp] at h; cases h
  | some newPath =>
  simp only [hnp] at h
  generalize hs4 : modifyObj (modifyObj s2 op (fun x => { x with contents := oc, aliases := dset x.aliases o.name newPath }))
    newParent (fun x => { x with contents := dset x.contents newName obj }) = s4 at h
  -- the shape of s4
  have h2o : s2.objs = s.objs.modify obj (fun x => { x with parent := some newParent, name := newName }) := by
    rw [← hs2, modifyObj, h1o]
  have h4o : s4.objs = moveObjs s.objs obj op newParent newName oc o.name newPath := by
    rw [← hs4, moveObjs, ← h2o]; rfl
  have h4a : s4.all = s1.all := by rw [← hs4, ← hs2]; rfl
  have h4r : s4.roots = s.roots := by rw [← hs4, ← hs2]; exact h1r
  have h4len : s4.objs.length = s.objs.length := by rw [h4o]; simp only [moveObjs, List.length_modify]
  have hF : ∀ i : Nat, ∃ F : Obj → Obj, s4.objs[i]? = (s.objs[i]?).map F ∧
      ∀ os, (F os).name = (if i = obj then newName else os.name) ∧
        (F os).parent = (if i = obj then some newParent else os.parent) ∧
        (F os).contents = (if i = newParent then dset (if i = op then oc else os.contents) newName obj
                            else (if i = op then oc else os.contents)) := by
    intro i; rw [h4o]
    obtain ⟨F, h1, h2⟩ := modify3_get s.objs obj op newParent newName oc o.name newPath i
    exact ⟨F, h1, fun os => ⟨(h2 os).1, (h2 os).2.1, (h2 os).2.2.1⟩⟩
  have hget4 : ∀ (i : Nat) (o4 : Obj), s4.objs[i]? = some o4 → ∃ os, s.objs[i]? = some os ∧
      o4.name = (if i = obj then newName else os.name) ∧
      o4.parent = (if i = obj then some newParent else os.parent) ∧
      o4.contents = (if i = newParent then dset (if i = op then oc else os.contents) newName obj
                            else (if i = op then oc else os.contents)) := by
    intro i o4 h4
    obtain ⟨F, hF1, hF2⟩ := hF i
    rw [hF1] at h4
    cases hs : s.objs[i]? with
    | none => rw [hs] at h4; cases h4
    | some os =>
      rw [hs] at h4; simp only [Option.map_some, Option.some.injEq] at h4; subst h4
      exact ⟨os, rfl, hF2 os⟩
  have hget4' : ∀ (i : Nat) (os : Obj), s.objs[i]? = some os → ∃ o4, s4.objs[i]? = some o4 ∧
      o4.name = (if i = obj then newName else os.name) ∧
      o4.parent = (if i = obj then some newParent else os.parent) ∧
      o4.contents = (if i = newParent then dset (if i = op then oc else os.contents) newName obj
                            else (if i = op then oc else os.contents)) := by
    intro i os hs
    obtain ⟨F, hF1, hF2⟩ := hF i
    exact ⟨F os, by rw [hF1, hs]; rfl, hF2 os⟩
  have hokey4 : ∀ i : Nat, i ≠ obj → (s4.objs[i]?).map okey = (s.objs[i]?).map okey := by
    intro i hi
    obtain ⟨F, hF1, hF2⟩ := hF i
    rw [hF1]
    cases s.objs[i]? with
    | none => rfl
    | some os => simp [okey, hF2 os, hi]
  have hpar4 : ∀ i : Nat, i ≠ obj → (s4.objs[i]?).map (·.parent) = (s.objs[i]?).map (·.parent) := by
    intro i hi
    obtain ⟨F, hF1, hF2⟩ := hF i
    rw [hF1]
    cases s.objs[i]? with
    | none => rfl
    | some os => simp [hF2 os, hi]
  -- the new name of obj
  have hnewP4 : path s4 obj = some newPath := by
    have hag : ∀ i : Nat, (s4.objs[i]?).map okey = (s2.objs[i]?).map okey := by
      intro i
      have e4 : s4.objs = ((s2.objs.modify op (fun x => { x with contents := oc, aliases := dset x.aliases o.name newPath })).modify
          newParent (fun x => { x with contents := dset x.contents newName obj })) := by rw [← hs4]; rfl
      rw [e4]
      refine (modify_agree_okey _ newParent _ ?_ i).trans (modify_agree_okey _ op _ ?_ i) <;> intro _ <;> rfl
    have hl : s4.objs.length = s2.objs.length := by rw [h4len, h2o, List.length_modify]
    simp only [path] at hnp ⊢
    rw [hl, pathAux_congr hag]; exact hnp
  obtain ⟨o4obj, ho4obj, ho4n, ho4p, _⟩ := hget4' obj o ho
  simp only [if_true] at ho4n ho4p
  have hnewPP : HasPath s4.objs obj newPath := path_sound hnewP4
  -- the registry of s4
  have hreg4 : ∀ i, Reg s4 i ↔ (Reg s i ∧ ¬Below s.objs obj i) := by
    intro i
    simp only [Reg, h4a, h1m]
    constructor
    · rintro ⟨k, a, b⟩; exact ⟨⟨k, a⟩, b⟩
    · rintro ⟨⟨k, a⟩, b⟩; exact ⟨k, a, b⟩
  have hkeys4 : ∀ k v, (k, v) ∈ s4.all → path s4 v = some k := by
    intro k v hkv
    rw [h4a, h1m] at hkv
    have := hI.reg.keys k v hkv.1
    simp only [path, h4len] at this ⊢
    rw [pathAux_congr_off (Below s.objs obj) (fun i hi => hokey4 i (fun e => hi (e ▸ .refl)))
      (Below.up_closed _ _) _ v hkv.2]
    exact this
  have hnpnb : ¬Below s.objs obj newParent := by
    intro hb
    have hb4 : Below s4.objs obj newParent := hb.transfer (fun i hi => hpar4 i hi)
    exact not_below_parent hnewPP ho4obj ho4p hb4
  have hP4 : PInv s4 := by
    refine ⟨h4a ▸ h1u, hkeys4, ?_⟩
    intro i o4 q hi ho4 hq
    obtain ⟨hiR, hib⟩ := (hreg4 i).1 hi
    have hio : i ≠ obj := fun e => hib (e ▸ .refl)
    obtain ⟨os, hos, _, hpar, _⟩ := hget4 i o4 ho4
    rw [if_neg hio] at hpar
    have hq' : os.parent = some q := hpar ▸ hq
    exact (hreg4 q).2 ⟨hI.reg.up i os q hiR hos hq', Below.up_closed _ _ i os q hib hos hq'⟩
  have hnr4 : ¬Reg s4 obj := fun hr => ((hreg4 obj).1 hr).2 .refl
  have hnpR4 : Reg s4 newParent := (hreg4 _).2 ⟨hI.full _ hnplt, hnpnb⟩
  have hobjpar4 : ∀ o' q, s4.objs[obj]? = some o' → o'.parent = some q → Reg s4 q := by
    intro o' q ho' hq
    rw [ho4obj] at ho'; injection ho' with e; subst e
    rw [ho4p] at hq; injection hq with e; subst e
    exact hnpR4
  obtain ⟨A, hA⟩ := hI.full obj hobjlt
  obtain ⟨pp, hpp, hnewPeq⟩ := hnewPP.child_inv ho4obj ho4p
  rw [ho4n] at hnewPeq
  -- contents of the old parent
  have hcu := hI.tree.cuniq
  obtain ⟨hocu, hocm⟩ := ddel_spec (hcu op opo hopo) hdd
  have hent : (o.name, obj) ∈ opo.contents := by
    obtain ⟨c, hc⟩ := mem_of_ddel hdd
    obtain ⟨co, hco, hcop, hcon⟩ := hI.tree.coh op opo o.name c hopo hc
    obtain ⟨pop, hpop, hAeq⟩ := (hI.reg.hasPath hA).child_inv ho hop
    have hcP : HasPath s.objs c A := by rw [hAeq, ← hcon]; exact .child hco hcop hpop
    have : c = obj := hI.reg.inj hA (hI.full c (List.getElem?_eq_some_iff.1 hco).1) hcP
    exact this ▸ hc
  have hc1 : ∀ (i : Nat) (os : Obj), s.objs[i]? = some os →
      Uniq (if i = op then oc else os.contents) ∧
      ∀ k c, (k, c) ∈ (if i = op then oc else os.contents) → ((k, c) ∈ os.contents ∧ (i = op → k ≠ o.name)) := by
    intro i os hos
    by_cases hi : i = op
    · subst hi
      rw [hopo] at hos; injection hos with e; subst e
      simp only [if_true]
      exact ⟨hocu, fun k c hm => ⟨((hocm k c).1 hm).2, fun _ => ((hocm k c).1 hm).1⟩⟩
    · simp only [if_neg hi]
      exact ⟨hcu i os hos, fun k c hm => ⟨hm, fun e => absurd e hi⟩⟩
  -- the tree part in s4
  have cuniq4 : ∀ (i : Nat) (o4 : Obj), s4.objs[i]? = some o4 → Uniq o4.contents := by
    intro i o4 ho4
    obtain ⟨os, hos, _, _, hc⟩ := hget4 i o4 ho4
    rw [hc]
    split
    · exact dset_uniq (hc1 i os hos).1
    · exact (hc1 i os hos).1
  have coh4 : ∀ (i : Nat) (o4 : Obj) (k : Name) (c : Nat), s4.objs[i]? = some o4 → (k, c) ∈ o4.contents →
      ∃ co : Obj, s4.objs[c]? = some co ∧ co.parent = some i ∧ co.name = k := by
    intro i o4 k c ho4 hkc
    obtain ⟨os, hos, _, _, hc⟩ := hget4 i o4 ho4
    have hold : (k, c) ∈ (if i = op then oc else os.contents) →
        ∃ co : Obj, s4.objs[c]? = some co ∧ co.parent = some i ∧ co.name = k := by
      intro hm
      obtain ⟨hm1, hm2⟩ := (hc1 i os hos).2 k c hm
      obtain ⟨co, hco, hcop, hcon⟩ := hI.tree.coh i os k c hos hm1
      have hcobj : c ≠ obj := by
        intro e; subst e
        rw [ho] at hco; injection hco with e; subst e
        rw [hop] at hcop; injection hcop with e
        exact hm2 e.symm hcon.symm
      obtain ⟨co4, hco4, hn4, hp4, _⟩ := hget4' c co hco
      rw [if_neg hcobj] at hn4 hp4
      exact ⟨co4, hco4, hp4.trans hcop, hn4.trans hcon⟩
    rw [hc] at hkc
    split at hkc
    · rename_i hinp
      rcases (mem_dset_iff (hc1 i os hos).1).1 hkc with ⟨rfl, rfl⟩ | ⟨_, hm⟩
      · exact ⟨o4obj, ho4obj, hinp ▸ ho4p, ho4n⟩
      · exact hold hm
    · exact hold hkc
  have listed4 : ∀ (i : Nat) (o4 : Obj), s4.objs[i]? = some o4 → (∀ v, (newPath, v) ∈ s4.all → v ≠ i) →
      Listed s4.objs s4.roots i o4 := by
    intro i o4 ho4 hnofn
    obtain ⟨os, hos, hn, hp, _⟩ := hget4 i o4 ho4
    by_cases hio : i = obj
    · subst hio
      rw [if_pos rfl] at hn hp
      refine ⟨fun e => (by rw [hp] at e; cases e), fun p hpp => ?_⟩
      rw [hp] at hpp; injection hpp with e; subst e
      obtain ⟨np4, hnp4, _, _, hnc4⟩ := hget4' newParent npo hnpo
      rw [if_pos rfl] at hnc4
      exact ⟨np4, hnp4, Or.inl (by rw [hnc4, hn]; exact dset_get_same _ _ _)⟩
    · rw [if_neg hio] at hn hp
      obtain ⟨l1, l2⟩ := hI.tree.listed i os hos
      refine ⟨fun e => (by rw [h4r]; exact l1 (hp ▸ e)), fun q hq => ?_⟩
      have hq' : os.parent = some q := hp ▸ hq
      obtain ⟨pos, hpos, hd⟩ := l2 q hq'
      obtain ⟨po4, hpo4, _, _, hpc4⟩ := hget4' q pos hpos
      refine ⟨po4, hpo4, ?_⟩
      rcases hd with hd | hd
      · left
        rw [hn, hpc4]
        -- step 1: the entry survives the deletion in the old parent
        have hstep1 : dget (if q = op then oc else pos.contents) os.name = some i := by
          by_cases hqop : q = op
          · subst hqop
            rw [hopo] at hpos; injection hpos with e; subst e
            simp only [if_true]
            have hne : os.name ≠ o.name := by
              intro e
              rw [e, dget_of_mem (hcu q opo hopo) hent] at hd
              injection hd with hd; exact hio hd.symm
            rw [ddel_get_other _ _ _ _ hdd hne]; exact hd
          · simp only [if_neg hqop]; exact hd
        split
        · rename_i hqnp
          by_cases hname : os.name = newName
          · exfalso
            subst hqnp
            have hiP : HasPath s4.objs i (pp ++ [o4.name]) := .child ho4 hq hpp
            rw [hn, hname, ← hnewPeq] at hiP
            have hib : ¬Below s.objs obj i := fun hb => hnpnb (hb.parent hio hos hq')
            obtain ⟨ki, hki⟩ := (hreg4 i).2 ⟨hI.full i (List.getElem?_eq_some_iff.1 hos).1, hib⟩
            have := (hP4.hasPath hki).func hiP
            subst this
            exact hnofn i hki rfl
          · rw [dset_get_other _ _ _ _ hname]; exact hstep1
        · exact hstep1
      · right; rw [hn]; exact hd
  have roots4 : ∀ r : Nat, r ∈ s4.roots → ∃ o : Obj, s4.objs[r]? = some o ∧ o.parent = none := by
    intro r hr
    rw [h4r] at hr
    obtain ⟨ro, hro, hp⟩ := hI.tree.rootsOk r hr
    have hne : r ≠ obj := by
      intro e; subst e
      rw [ho] at hro; injection hro with e; subst e
      rw [hop] at hp; cases hp
    obtain ⟨o4, ho4, _, hp4, _⟩ := hget4' r ro hro
    rw [if_neg hne] at hp4
    exact ⟨o4, ho4, hp4.trans hp⟩
  have hppR : (pp, newParent) ∈ s.all := by
    obtain ⟨knp, hknp⟩ := hnpR4
    have := (hP4.hasPath hknp).func hpp
    subst this
    rw [h4a, h1m] at hknp
    exact hknp.1
  -- the two branches
  have hfinish : ∀ (s5 : State) (ran : Prop), PInv s5 →
      (∀ i, Reg s5 i ↔ (Reg s4 i ∨ (i = obj ∧ ran))) →
      (∀ i : Nat, (s5.objs[i]?).map (·.parent) = (s4.objs[i]?).map (·.parent)) →
      (∀ i : Nat, ¬Reg s4 i → i ≠ obj → s5.objs[i]? = s4.objs[i]?) →
      path s5 obj = some newPath →
      (ran → (newPath, obj) ∈ s5.all) → (¬ran → ∀ v, (newPath, v) ∉ s5.all) →
      (∀ o q, s5.objs[obj]? = some o → o.parent = some q → Reg s5 q) →
      addAll s5 (objectsBelow s obj) = .ok s' →
      PInv s' ∧ (∀ i, i < s.objs.length → Reg s' i) ∧ s'.objs = s5.objs ∧ s'.roots = s5.roots ∧
      (∀ k v, (k, v) ∈ s5.all → (k, v) ∈ s'.all) ∧
      (∀ k v, (k, v) ∈ s'.all → ((k, v) ∈ s5.all ∨ (Reg s v ∧ Below s.objs obj v))) ∧
      (∀ x kx, (kx, x) ∈ s.all → Below s.objs obj x →
        ∃ rest, kx = A ++ rest ∧ path s' x = some (newPath ++ rest)) := by
    intro s5 ran hP5 hreg5 hpar5 hsame5 hobj5 hran hnran hobjpar5 hadd
    refine reparent_finish (ran := ran) hI hA hP5 ?_ ?_ ?_ hobj5 hran hnran hobjpar5 hadd
    · intro i
      rw [hreg5, hreg4]
    · intro i hi
      rw [hpar5, hpar4 i hi]
    · intro i hib hi
      have : ¬Reg s4 i := fun hr => ((hreg4 i).1 hr).2 hib
      rw [hsame5 i this hi, hokey4 i hi]
  by_cases hdup : dhas s4.all newPath = true
  · simp only [hdup, if_true] at h
    cases hhd : handleDuplicate s4 obj newPath with
    | error e => simp only [hhd] at h; cases h
    | ok s5 =>
    simp only [hhd] at h
    obtain ⟨prev, nm', hprev, hsup, h5o, h5r, hP5, hreg5, hobj5⟩ :=
      handleDuplicate_spec hP4 hnr4 hnewP4 hobjpar4 hhd
    have hprevR4 : Reg s4 prev := ⟨newPath, hprev⟩
    have hprevobj : prev ≠ obj := fun e => hnr4 (e ▸ hprevR4)
    obtain ⟨hP', hfull', h'o, h'r, hR3, hR4, hR2⟩ := hfinish s5 True hP5
      (fun i => by rw [hreg5]; simp)
      (fun i => by rw [h5o]; exact modify_agree_parent s4.objs prev (fun p => { p with name := nm' }) (fun _ => rfl) i)
      (fun i hi _ => by rw [h5o, getElem?_modify_ne _ (fun e : i = prev => hi (by rw [e]; exact hprevR4))])
      (hP5.keys _ _ hobj5) (fun _ => hobj5) (fun hn => absurd trivial hn)
      (fun o' q ho' hq => hP5.up obj o' q ⟨newPath, hobj5⟩ ho' hq) h
    refine ⟨⟨hP', ?_, ?_⟩, o, op, opo, oc, A, pp, ?_⟩
    rotate_left 2
    · have hprev_s : (newPath, prev) ∈ s.all ∧ ¬Below s.objs obj prev := by
        have := hprev; rw [h4a, h1m] at this; exact this
      refine ⟨ho, hop, hopo, hcc, hdd, hA, hppR, hnpnb, h'r.trans (h5r.trans h4r), ?_, ?_, Or.inr ?_⟩
      · rw [← hnewPeq, path_congr_objs h'o obj]; exact hP5.keys _ _ hobj5
      · intro x kx hx hb; rw [← hnewPeq]; exact hR2 x kx hx hb
      · exact ⟨prev, nm', hnewPeq ▸ hprev_s.1, hprev_s.2, hsup, by rw [h'o, h5o, h4o, hnewPeq]⟩
    · intro i hi
      rw [h'o, h5o, List.length_modify, h4len] at hi
      exact hfull' i hi
    · rw [h'o, h'r, h5o, h5r]
      refine CInv_rename hsup cuniq4 coh4 ?_ ?_ ?_ (h4r ▸ roots4)
      · intro q qo4 k hqo4 hent'
        obtain ⟨co4, b1, b2, b3⟩ := coh4 q qo4 k prev hqo4 hent'
        obtain ⟨pq, hpq, e1⟩ := (hP4.hasPath hprev).child_inv b1 b2
        rw [hnewPeq] at e1
        obtain ⟨e3, e4⟩ := List.append_inj' e1 rfl
        simp only [List.cons.injEq, and_true] at e4
        subst e3
        have hqR : Reg s4 q := hP4.up prev co4 q hprevR4 b1 b2
        obtain ⟨knp, hknp⟩ := hnpR4
        have := (hP4.hasPath hknp).func hpp
        subst this
        have hqnp : q = newParent := hP4.inj hknp hqR hpq
        subst hqnp
        obtain ⟨os, hos, _, _, hc⟩ := hget4 q qo4 hqo4
        rw [hc, if_pos rfl] at hent'
        rcases (mem_dset_iff (hc1 q os hos).1).1 hent' with ⟨_, a⟩ | ⟨a, _⟩
        · exact hprevobj a
        · exact a (b3.symm.trans e4.symm)
      · intro i o4 hi ho4
        exact listed4 i o4 ho4 (fun v hv => (uniq_val hP4.uniq hv hprev).symm ▸ hi.symm)
      · intro po4 hpo4
        obtain ⟨os, hos, _, hp, _⟩ := hget4 prev po4 hpo4
        rw [if_neg hprevobj] at hp
        obtain ⟨l1, l2⟩ := hI.tree.listed prev os hos
        refine ⟨fun e => (by rw [h4r]; exact l1 (hp ▸ e)), fun q hq => ?_⟩
        obtain ⟨pos, hpos, _⟩ := l2 q (hp ▸ hq)
        obtain ⟨po4', hpo4', _⟩ := hget4' q pos hpos
        exact ⟨po4', hpo4'⟩
  · simp only [hdup] at h
    have hno : ∀ v, (newPath, v) ∉ s4.all := by
      have : dget s4.all newPath = none := by
        simp only [dhas] at hdup
        cases hd : dget s4.all newPath with
        | none => rfl
        | some v => rw [hd] at hdup; simp at hdup
      exact dget_none_iff.1 this
    obtain ⟨hP', hfull', h'o, h'r, hR3, hR4, hR2⟩ := hfinish s4 False hP4
      (fun i => by simp) (fun i => rfl) (fun i _ _ => rfl) hnewP4 (fun hf => hf.elim) (fun _ => hno)
      hobjpar4 h
    refine ⟨⟨hP', ?_, ?_⟩, o, op, opo, oc, A, pp, ?_⟩
    rotate_left 2
    · refine ⟨ho, hop, hopo, hcc, hdd, hA, hppR, hnpnb, h'r.trans h4r, ?_, ?_, Or.inl ⟨?_, ?_, ?_, ?_⟩⟩
      · rw [← hnewPeq, path_congr_objs h'o obj]; exact hnewP4
      · intro x kx hx hb; rw [← hnewPeq]; exact hR2 x kx hx hb
      · intro v hv
        rw [← hnewPeq] at hv
        exact Classical.byContradiction (fun hb => hno v (by rw [h4a, h1m]; exact ⟨hv, hb⟩))
      · rw [h'o, h4o, hnewPeq]
      · intro k v hk hb
        exact hR3 k v (by rw [h4a, h1m]; exact ⟨hk, hb⟩)
      · intro k v hk
        rcases hR4 k v hk with a | a
        · rw [h4a, h1m] at a; exact Or.inl a
        · exact Or.inr a.2
    · intro i hi
      rw [h'o, h4len] at hi
      exact hfull' i hi
    · rw [h'o, h'r]
      exact ⟨cuniq4, coh4, fun i o4 ho4 => listed4 i o4 ho4 (fun v hv => absurd hv (hno v)), roots4⟩

/-- `Documentable.reparent` preserves the invariant. -/
theorem reparent_inv {s s' : State} {obj newParent : Nat} {newName : Name} (hI : Inv s)
    (h : reparent s obj newParent newName = .ok s') : Inv s' := (reparent_spec hI h).1

/-! ## Layer 6: the property theorems of C02 -/

/-- the empty system satisfies the invariant -/
theorem inv_holds_init : Inv init := by
  refine ⟨⟨uniq_nil, ?_, ?_⟩, ?_, ⟨?_, ?_, ?_, ?_⟩⟩
  · intro k i h; simp [init] at h
  · intro i o q _ ho; simp [init] at ho
  · intro i hi; simp [init] at hi
  · intro p po h; simp [init] at h
  · intro p po k c h; simp [init] at h
  · intro i o h; simp [init] at h
  · intro r h; simp [init] at h

/-- **C02, one step.**  Every operation of the registry API that does not raise — creating and
registering an object (a duplicate definition included), or moving an object by `reparent`
(onto an existing name included) — preserves the invariant. -/
theorem inv_step (s s' : State) (op : Op) (h : Inv s) (hs : step s op = .ok s') : Inv s' := by
  cases op with
  | add c n p => exact addObject_inv h hs
  | reparent o np nn => exact reparent_inv h hs

theorem inv_run_from : ∀ (ops : List Op) (s : State), Inv s → Inv (run s ops).1
  | [], s, h => h
  | op :: ops, s, h => by
    unfold run
    cases hs : step s op with
    | ok s' => exact inv_run_from ops s' (inv_step s s' op h hs)
    | error e => exact inv_run_from ops s h

/-- **C02, all histories.**  After any interleaving of definitions, duplicate definitions and
re-export moves, the invariant holds. -/
theorem inv_run (ops : List Op) : Inv (run init ops).1 := inv_run_from ops init inv_holds_init

/-! ### `Inv` implies the executable invariant `invB` that the driver reports -/

theorem getObj_of_lt {s : State} {i : Nat} (hi : i < s.objs.length) : getObj s i = some s.objs[i] := by
  simp [Registry.getObj, hi]

theorem Inv.invB {s : State} (h : Inv s) : invB s = true := by
  have hsnd : (s.all.map Prod.snd).Nodup :=
    nodup_map_of_dep Prod.fst Prod.snd s.all h.reg.uniq (fun a ha b hb hab => by
      have h1 := h.reg.keys a.1 a.2 ha
      have h2 := h.reg.keys b.1 b.2 hb
      rw [hab, h2] at h1
      injection h1 with h1; exact h1.symm)
  simp only [Registry.invB, Bool.and_eq_true]
  refine ⟨⟨⟨⟨?_, ?_⟩, ?_⟩, ?_⟩, ?_⟩
  · simp only [allKeysUnique, List.all_eq_true, beq_iff_eq]
    intro e he
    exact filter_length_one Prod.fst s.all h.reg.uniq e he
  · simp only [keysAreNames, List.all_eq_true, beq_iff_eq]
    intro e he
    exact h.reg.keys e.1 e.2 he
  · simp only [allRegistered, List.all_eq_true, beq_iff_eq, List.mem_range]
    intro i hi
    obtain ⟨k, hk⟩ := h.full i hi
    exact filter_length_one Prod.snd s.all hsnd (k, i) hk
  · simp only [contentsCoherent, List.all_eq_true, List.mem_range]
    intro p hp
    rw [getObj_of_lt hp]
    simp only [List.all_eq_true]
    intro e he
    obtain ⟨co, hco, h1, h2⟩ := h.tree.coh p s.objs[p] e.1 e.2 (by simp [hp]) he
    have : Registry.getObj s e.2 = some co := hco
    rw [this]
    simp [h1, h2]
  · simp only [childrenListed, List.all_eq_true, List.mem_range]
    intro i hi
    rw [getObj_of_lt hi]
    obtain ⟨l1, l2⟩ := h.tree.listed i s.objs[i] (by simp [hi])
    cases hp : (s.objs[i]).parent with
    | none => simp only [hp]; simpa using l1 hp
    | some p =>
      obtain ⟨po, hpo, hd⟩ := l2 p hp
      have : Registry.getObj s p = some po := hpo
      simp only [hp, this]
      rcases hd with hd | hd
      · simp [hd]
      · simp [hd]

/-- what the driver prints as `inv true` is a theorem for every history -/
theorem invB_run (ops : List Op) : invB (run init ops).1 = true := (inv_run ops).invB

/-! ### the clauses of C02, spelled out -/

/-- every registered object sits under exactly its current qualified name -/
theorem registered_under_current_name (ops : List Op) :
    ∀ k i, (k, i) ∈ (run init ops).1.all → path (run init ops).1 i = some k :=
  (inv_run ops).reg.keys

/-- no qualified name is registered twice -/
theorem registered_names_unique (ops : List Op) : ((run init ops).1.all.map Prod.fst).Nodup :=
  (inv_run ops).reg.uniq

/-- every object that was created is registered exactly once -/
theorem registered_exactly_once (ops : List Op) :
    ∀ i, i < (run init ops).1.objs.length →
      ((run init ops).1.all.filter (fun e => e.2 = i)).length = 1 := by
  intro i hi
  have h := (inv_run ops).invB
  simp only [Registry.invB, Bool.and_eq_true, allRegistered, List.all_eq_true, beq_iff_eq, List.mem_range] at h
  exact h.1.1.2 i hi

/-- every `contents` entry points to a child that carries that name and has that parent -/
theorem contents_coherent (ops : List Op) :
    ∀ (p : Nat) (po : Obj) (k : Name) (c : Nat), (run init ops).1.objs[p]? = some po → (k, c) ∈ po.contents →
      ∃ co : Obj, (run init ops).1.objs[c]? = some co ∧ co.parent = some p ∧ co.name = k :=
  (inv_run ops).tree.coh

/-- a child is its parent's `contents` entry under its own name, unless it was superseded by a
later definition (and renamed `name i`); a parentless object is a root object -/
theorem child_listed_or_superseded (ops : List Op) :
    ∀ (i : Nat) (o : Obj), (run init ops).1.objs[i]? = some o →
      (o.parent = none → i ∈ (run init ops).1.roots) ∧
      (∀ p, o.parent = some p → ∃ po : Obj, (run init ops).1.objs[p]? = some po ∧
        (dget po.contents o.name = some i ∨ isSupersededName o.name = true)) :=
  (inv_run ops).tree.listed

/-- the parent chain of every object ends in a root: its qualified name is defined -/
theorem every_object_named (ops : List Op) :
    ∀ i, i < (run init ops).1.objs.length → ∃ k, path (run init ops).1 i = some k := by
  intro i hi
  obtain ⟨k, hk⟩ := (inv_run ops).full i hi
  exact ⟨k, (inv_run ops).reg.keys k i hk⟩

/-- non-vacuity: a history with a duplicate method, a duplicate class and a re-export move onto a
name that is already taken; no operation raises, and the theorems above apply to it -/
def witness : List Op :=
  [.add .module ['m'] none, .add .cls ['C'] (some 0), .add .function ['f'] (some 1),
   .add .function ['f'] (some 1), .add .module ['n'] none, .add .cls ['C'] (some 4),
   .reparent 1 4 ['C']]

example : (run init witness).2.all (·.isNone) = true ∧
    (run init witness).1.all.map Prod.snd = [0, 4, 5, 1, 2, 3] ∧
    dget (run init witness).1.all [['n'], ['C', ' ', '0']] = some 5 ∧
    dget (run init witness).1.all [['n'], ['C'], ['f', ' ', '0']] = some 2 := by decide

example : Inv (run init witness).1 := inv_run witness

/-- the hypothesis of `inv_step` is met by a non-trivial state and a non-trivial step -/
example : ∃ s, Inv s ∧
    (match step s (.reparent 1 4 ['C']) with
     | .ok s' => decide (s'.all ≠ s.all)
     | .error _ => false) = true :=
  ⟨(run init witness.dropLast).1, inv_run _, by decide⟩


end Registry

/-! ## `defaultPostProcess`: "subclass of" is the inverse of "resolved base of" -/
namespace PostProcess

/-- **subclasses_inverse** (C02): after post-processing, `c` is listed among the subclasses of `b`
exactly when `b` is one of the resolved bases of `c` -/
theorem subclasses_inverse (classes : List (Nat × List (Option Nat))) (b c : Nat) :
    c ∈ subclasses classes b ↔ ∃ bases, (c, bases) ∈ classes ∧ some b ∈ bases := by
  unfold subclasses
  rw [List.mem_flatMap]
  constructor
  · rintro ⟨⟨c', bases⟩, hmem, hc⟩
    rw [List.mem_map] at hc
    obtain ⟨x, hx, rfl⟩ := hc
    rw [List.mem_filter] at hx
    have : x = some b := by simpa using hx.2
    exact ⟨bases, hmem, this ▸ hx.1⟩
  · rintro ⟨bases, hmem, hb⟩
    refine ⟨(c, bases), hmem, ?_⟩
    rw [List.mem_map]
    exact ⟨some b, List.mem_filter.mpr ⟨hb, by simp⟩, rfl⟩

/-- … once per occurrence of `b` in the base list, when every class is registered once -/
theorem subclasses_count (classes : List (Nat × List (Option Nat))) (b c : Nat) (bases : List (Option Nat))
    (hnd : (classes.map (·.1)).Nodup) (hmem : (c, bases) ∈ classes) :
    (subclasses classes b).count c = bases.count (some b) := by
  unfold subclasses
  induction classes with
  | nil => cases hmem
  | cons hd tl ih =>
    obtain ⟨c', bs'⟩ := hd
    simp only [List.map_cons, List.nodup_cons] at hnd
    simp only [List.flatMap_cons, List.count_append]
    rcases List.mem_cons.mp hmem with e | e
    · injection e with e1 e2
      subst e1; subst e2
      have h0 : (List.flatMap (fun x : Nat × List (Option Nat) => (x.2.filter (· == some b)).map fun _ => x.1) tl).count c = 0 := by
        rw [List.count_eq_zero]
        intro hc
        rw [List.mem_flatMap] at hc
        obtain ⟨⟨c2, bs2⟩, hm2, hc2⟩ := hc
        rw [List.mem_map] at hc2
        obtain ⟨_, _, rfl⟩ := hc2
        exact hnd.1 (List.mem_map.mpr ⟨(c2, bs2), hm2, rfl⟩)
      rw [h0, Nat.add_zero]
      simp [List.count_eq_length_filter, List.filter_map, List.count, List.countP_eq_length_filter]
    · have hne : c' ≠ c := by
        intro e'
        subst e'
        exact hnd.1 (List.mem_map.mpr ⟨(c', bases), e, rfl⟩)
      have h0 : ((bs'.filter (· == some b)).map fun _ => c').count c = 0 := by
        rw [List.count_eq_zero]
        intro hc
        rw [List.mem_map] at hc
        obtain ⟨_, _, e'⟩ := hc
        exact hne e'
      rw [h0, Nat.zero_add]
      exact ih hnd.2 e

example : subclasses [(0, []), (1, [some 0]), (2, [some 1, some 0]), (3, [none, some 0])] 0 = [1, 2, 3] := by decide

end PostProcess

/-! ## zope.interface: "implemented by" is the inverse of "implements" -/
namespace PostProcess

theorem mem_foldl_addNew (l : List Nat) : ∀ (acc : List Nat) (y : Nat),
    y ∈ l.foldl addNew acc ↔ y ∈ acc ∨ y ∈ l := by
  induction l with
  | nil => intro acc y; simp
  | cons a t ih =>
    intro acc y
    simp only [List.foldl_cons, ih, List.mem_cons]
    unfold addNew
    by_cases h : a ∈ acc
    · simp only [h, if_true]
      constructor
      · rintro (h1 | h1)
        · exact .inl h1
        · exact .inr (.inr h1)
      · rintro (h1 | h1 | h1)
        · exact .inl h1
        · exact .inl (h1 ▸ h)
        · exact .inr h1
    · simp only [h, if_false, List.mem_append, List.mem_singleton]
      constructor
      · rintro ((h1 | h1) | h1)
        · exact .inl h1
        · exact .inr (.inl h1)
        · exact .inr (.inr h1)
      · rintro (h1 | h1 | h1)
        · exact .inl (.inl h1)
        · exact .inl (.inr h1)
        · exact .inr h1

theorem nodup_foldl_addNew (l : List Nat) : ∀ (acc : List Nat), acc.Nodup → (l.foldl addNew acc).Nodup := by
  induction l with
  | nil => intro acc h; simpa
  | cons a t ih =>
    intro acc h
    simp only [List.foldl_cons]
    apply ih
    unfold addNew
    by_cases ha : a ∈ acc
    · simp [ha, h]
    · simp only [ha, if_false]
      rw [List.nodup_append]
      exact ⟨h, by simp, by intro x hx y hy; simp at hy; subst hy; intro e; exact ha (e ▸ hx)⟩

/-- **implementedBy_inverse** (C02): after post-processing, `x` is listed among the direct implementers
of interface `i` exactly when one of the names `x` declares leads to the interface `i` — and it is
listed once -/
theorem implementedBy_inverse (decls : List (Nat × Option Nat)) (i x : Nat) :
    (x ∈ implementedBy decls i ↔ (x, some i) ∈ decls) ∧ (implementedBy decls i).Nodup := by
  unfold implementedBy
  refine ⟨?_, nodup_foldl_addNew _ [] List.nodup_nil⟩
  rw [mem_foldl_addNew]
  simp only [List.not_mem_nil, false_or, List.mem_map, List.mem_filter]
  constructor
  · rintro ⟨⟨a, b⟩, ⟨hm, hb⟩, rfl⟩
    have : b = some i := by simpa using hb
    exact this ▸ hm
  · intro h
    exact ⟨(x, some i), ⟨h, by simp⟩, rfl⟩

example : implementedBy [(5, some 1), (6, none), (5, some 1), (7, some 1), (5, some 2)] 1 = [5, 7] := by decide

end PostProcess


/-! ## The module table: duplicate module names (`System._addUnprocessedModule`,
`_handleDuplicateModule`, `_remove`; model PdModel/ModTable.lean, helper layers PdProps/C02Mod.lean)

For EVERY history of `analyzeModule` / `addModuleString` / `introspectModule` calls whose parent
argument is `None` or a package registered at that moment (`histOk`, which is what the callers
pass), in particular with any number of duplicate names at root and nested level:
no call raises (`step_ok`, `run_ok`) and the invariant `Inv` (C02Mod, Layer 2) holds after every
call (`inv_step`, `inv_run`).  The corollaries below spell its clauses out in terms of the model's
own functions. -/
namespace ModTable
open Registry (Name Path dget dhas dset ddel)

theorem inv_init : Inv init := init_inv

/-- one add does not raise: no `KeyError` from `del allobjects[..]`, no `ValueError` from
`rootobjects.remove`, no recursion that does not end -/
theorem step_ok (s : State) (op : Op) (h : Inv s) (hok : opOk s op = true) : ∃ s', step s op = .ok s' := by
  obtain ⟨_, _, s', h1, _, _⟩ := addModule_spec h op hok
  exact ⟨s', h1⟩

theorem inv_step (s s' : State) (op : Op) (h : Inv s) (hok : opOk s op = true) (hs : step s op = .ok s') :
    Inv s' := by
  obtain ⟨_, _, s'', h1, h2, _⟩ := addModule_spec h op hok
  rw [h1] at hs; cases hs; exact h2

theorem inv_run_from : ∀ (ops : List Op) (s : State), Inv s → histOk s ops = true →
    Inv (run s ops).1 ∧ ∀ e ∈ (run s ops).2, e = none
  | [], s, h, _ => ⟨h, by simp [run, runWith]⟩
  | op :: ops, s, h, hh => by
    simp only [histOk, Bool.and_eq_true] at hh
    obtain ⟨_, _, s', h1, h2, _⟩ := addModule_spec h op hh.1
    have hh2 := hh.2
    rw [h1] at hh2
    have ih := inv_run_from ops s' h2 hh2
    have hr : run s (op :: ops) = ((run s' ops).1, none :: (run s' ops).2) := by
      simp [run, runWith, h1]
    rw [hr]
    exact ⟨ih.1, fun e he => by
      rcases List.mem_cons.1 he with rfl | he
      · rfl
      · exact ih.2 e he⟩

/-- the invariant holds after every history that meets the precondition -/
theorem inv_run (ops : List Op) (h : histOk init ops = true) : Inv (run init ops).1 :=
  (inv_run_from ops init inv_init h).1

/-- ... and none of its operations raises -/
theorem run_ok (ops : List Op) (h : histOk init ops = true) : ∀ e ∈ (run init ops).2, e = none :=
  (inv_run_from ops init inv_init h).2

/-- the executable invariant the driver prints (`modtable run …` → `inv true`) holds after every history
that meets the precondition -/
theorem invB_run (ops : List Op) (h : histOk init ops = true) : invB (run init ops).1 = true :=
  (inv_run ops h).toInvB

/-- the witness of commit 6850302 and more: packages with sub-modules added before and after the
duplicate arrives, C modules, nested duplicates -/
def sampleOps : List Op :=
  [⟨.package, ['m'], none⟩, ⟨.module, ['a'], some 0⟩, ⟨.package, ['m'], none⟩, ⟨.module, ['b'], some 2⟩,
   ⟨.package, ['s'], some 2⟩, ⟨.module, ['x'], some 4⟩, ⟨.cmodule, ['b'], some 2⟩, ⟨.module, ['b'], some 2⟩,
   ⟨.package, ['s'], some 2⟩, ⟨.module, ['m'], none⟩]

/-- non-vacuity: a history with duplicates at both levels meets the precondition -/
example : histOk init sampleOps = true := by decide +kernel
example : (run init sampleOps).1.all = [([['m']], 2), ([['m'], ['b']], 6), ([['m'], ['s']], 8)] := by decide +kernel

/-- registry keys are unique, and every entry sits under the path its parent chain spells -/
theorem registered_under_chain_name {s : State} (h : Inv s) :
    (s.all.map Prod.fst).Nodup ∧ ∀ k i, (k, i) ∈ s.all → path s i = some k :=
  ⟨h.keys, fun k i hk => path_of_hasPath h.ord (h.names k i hk)⟩

/-- exactly the registered modules are pending (and so exactly they are analysed), in registry order -/
theorem pending_are_registered {s : State} (h : Inv s) :
    s.unproc = s.all.map Prod.snd ∧ ∀ i, i ∈ s.unproc ↔ registered s i = true := by
  refine ⟨h.pending, fun i => ?_⟩
  rw [h.pending, registered, List.contains_iff_mem]

/-- a registered module's parent is registered and lists it under its name -/
theorem parent_registered {s : State} (h : Inv s) (k : Path) (i p : Nat) (o : MObj)
    (hk : (k, i) ∈ s.all) (ho : s.objs[i]? = some o) (hp : o.parent = some p) :
    registered s p = true ∧ ∃ po, s.objs[p]? = some po ∧ dget po.contents o.name = some i := by
  obtain ⟨hr, d, hd, hdg⟩ := h.parentReg k i o.name p hk (sk_some.2 ⟨o, ho, rfl, hp⟩)
  obtain ⟨po, hpo, rfl⟩ := ct_some.1 hd
  exact ⟨registered_iff.2 hr, po, hpo, hdg⟩

/-- every `contents` entry of a registered module is registered, has that parent and that name -/
theorem contents_registered {s : State} (h : Inv s) (k : Path) (q c : Nat) (qo : MObj) (n : Name)
    (hk : (k, q) ∈ s.all) (hq : s.objs[q]? = some qo) (hm : (n, c) ∈ qo.contents) :
    registered s c = true ∧ ∃ co, s.objs[c]? = some co ∧ co.parent = some q ∧ co.name = n := by
  obtain ⟨hr, hg⟩ := h.contents q qo.contents n c ⟨k, hk⟩ (ct_some.2 ⟨qo, hq, rfl⟩) hm (by simp)
  obtain ⟨co, hco, h1, h2⟩ := sk_some.1 hg
  exact ⟨registered_iff.2 hr, co, hco, h2, h1⟩

/-- a registered parentless module is a root; every root is registered and parentless; `rootobjects`
has no duplicates and no two roots share a name (hence a page file) -/
theorem roots_registered_unique {s : State} (h : Inv s) :
    (∀ k i o, (k, i) ∈ s.all → s.objs[i]? = some o → o.parent = none → i ∈ s.roots) ∧
    (∀ r, r ∈ s.roots → registered s r = true ∧ ∃ o, s.objs[r]? = some o ∧ o.parent = none) ∧
    s.roots.Nodup ∧
    (∀ r r' o o', r ∈ s.roots → r' ∈ s.roots → s.objs[r]? = some o → s.objs[r']? = some o' →
      o.name = o'.name → r = r') := by
  refine ⟨fun k i o hk ho hp => h.rootIn k i o.name hk (sk_some.2 ⟨o, ho, rfl, hp⟩), fun r hr => ?_,
    h.rootsNodup, fun r r' o o' hr hr' ho ho' hn => ?_⟩
  · obtain ⟨hreg, n, hn⟩ := h.roots r hr
    obtain ⟨o, ho, _, hp⟩ := sk_some.1 hn
    exact ⟨registered_iff.2 hreg, o, ho, hp⟩
  · obtain ⟨⟨k, hk⟩, n, hg⟩ := h.roots r hr
    obtain ⟨⟨k', hk'⟩, n', hg'⟩ := h.roots r' hr'
    obtain ⟨o1, ho1, e1, _⟩ := sk_some.1 hg
    obtain ⟨o2, ho2, e2, _⟩ := sk_some.1 hg'
    rw [ho] at ho1; cases ho1
    rw [ho'] at ho2; cases ho2
    have hk1 : k = [n] := (h.names k r hk).func (.root hg)
    have hk2 : k' = [n'] := (h.names k' r' hk').func (.root hg')
    subst hk1; subst hk2
    rw [← e1, hn, e2] at hk
    exact uniq_val h.keys hk hk'

/-- The winner rule. `first` holds the name the new module `dup` (object `s.objs.length`) asks for.
A C module against a non-package and a package against a non-package keep `first`: nothing changes
but the unregistered object. Otherwise `dup` is registered under the name, and `first` with everything
below it is gone from `allobjects`, `unprocessed_modules` and `rootobjects`, while everything else
stays registered. -/
theorem winner_rule (s : State) (op : Op) (h : Inv s) (hok : opOk s op = true) (fn : Path) (first : Nat) (fo : MObj)
    (hfn : path (create s op.kind op.name op.parent) s.objs.length = some fn)
    (hfirst : dget s.all fn = some first) (hfo : s.objs[first]? = some fo) :
    ∃ s', step s op = .ok s' ∧
      if (fo.kind.isC && !op.kind.isPkg) || (fo.kind.isPkg && !op.kind.isPkg) then
        s'.all = s.all ∧ s'.roots = s.roots ∧ s'.unproc = s.unproc
      else
        dget s'.all fn = some s.objs.length ∧
        (∀ i, Below (sk s.objs) first i → registered s' i = false ∧ i ∉ s'.unproc ∧ i ∉ s'.roots) ∧
        (∀ k i, (k, i) ∈ s.all → ¬Below (sk s.objs) first i → (k, i) ∈ s'.all) := by
  obtain ⟨fn', hfn', s', h1, h2, hout⟩ := addModule_spec h op hok
  rw [hfn] at hfn'; cases hfn'
  refine ⟨s', h1, ?_⟩
  have hflt : first < s.objs.length := (List.getElem?_eq_some_iff.1 hfo).1
  have hfoA : (create s op.kind op.name op.parent).objs[first]? = some fo := by
    show (s.objs ++ [_])[first]? = _
    rw [List.getElem?_append_left hflt]; exact hfo
  have hallA : (create s op.kind op.name op.parent).all = s.all := rfl
  rcases hout with ⟨hnone, _⟩ | ⟨first', fo', hd, hfo', hkeep, rfl⟩ | ⟨first', fo', sB, hd, hfo', hkeep, hmid, hall, hunp, hroots⟩
  · rw [hallA, hfirst] at hnone; cases hnone
  · rw [hallA, hfirst] at hd; cases hd
    rw [hfoA] at hfo'; cases hfo'
    rw [keepFirst] at hkeep
    rw [if_pos hkeep]
    exact ⟨rfl, rfl, rfl⟩
  · rw [hallA, hfirst] at hd; cases hd
    rw [hfoA] at hfo'; cases hfo'
    rw [keepFirst] at hkeep
    rw [if_neg (by rw [hkeep]; simp)]
    -- below `first`, before and after the construction of the new object
    have hbel : ∀ i, Below (sk s.objs) first i → Below (sk (create s op.kind op.name op.parent).objs) first i :=
      fun i hb => hb.ext (fun j x hx => sk_append_ext _ hx)
    have hbel' : ∀ i, i < s.objs.length → Below (sk (create s op.kind op.name op.parent).objs) first i →
        Below (sk s.objs) first i := by
      intro i hi hb
      induction hb with
      | refl => exact .refl
      | @step j n p hg hb' ih =>
        have hg' : sk (s.objs ++ [⟨op.name, op.parent, op.kind, []⟩]) j = some (n, some p) := hg
        rw [sk_append_lt _ hi] at hg'
        exact .step hg' (ih (Nat.lt_trans (h.ord _ _ _ hg') hi))
    have hmem' : ∀ k i, (k, i) ∈ s'.all ↔ (((k, i) ∈ s.all ∧ ¬Below (sk (create s op.kind op.name op.parent).objs) first i)
        ∨ (k = fn ∧ i = s.objs.length)) := by
      intro k i
      rw [hall, List.mem_append, hmid.mem, hallA]
      simp
    have hne : first ≠ s.objs.length := Nat.ne_of_lt hflt
    have hnew : ¬Below (sk s.objs) first s.objs.length := by
      intro hb
      cases hb with
      | refl => exact hne rfl
      | step hg _ => exact absurd (sk_lt hg) (Nat.lt_irrefl _)
    refine ⟨?_, fun i hb => ⟨?_, ?_, ?_⟩, fun k i hk hnb => ?_⟩
    · exact dget_of_mem h2.keys ((hmem' fn _).2 (Or.inr ⟨rfl, rfl⟩))
    · cases hr : registered s' i with
      | false => rfl
      | true =>
        obtain ⟨k, hk⟩ := registered_iff.1 hr
        rcases (hmem' k i).1 hk with ⟨_, hnb⟩ | ⟨_, rfl⟩
        · exact absurd (hbel i hb) hnb
        · exact absurd hb hnew
    · intro hi
      rw [h2.pending] at hi
      obtain ⟨⟨k, j⟩, hk, rfl⟩ := List.mem_map.1 hi
      rcases (hmem' k j).1 hk with ⟨_, hnb⟩ | ⟨_, e⟩
      · exact hnb (hbel j hb)
      · subst e
        exact hnew hb
    · intro hi
      rcases hroots i hi with ⟨hiA, hif⟩ | rfl
      · have hiS : i ∈ s.roots := hiA
        obtain ⟨_, n, hn⟩ := h.roots i hiS
        exact hif (hb.of_root hn)
      · exact hnew hb
    · refine (hmem' k i).2 (Or.inl ⟨hk, fun hb => hnb (hbel' i (h.lt ⟨k, hk⟩) hb)⟩)

/-- Historical (before commit 6850302). Roots `a/mod/{__init__,suba}.py` and `b/mod/{__init__,subb}.py`:
the second package `mod` replaces the first. With the old step the sub-module `mod.suba` of the
replaced package stays pending although it is not registered (it is then analysed, and its classes are
registered under a parent that is not), and `rootobjects` holds two roots named `mod`. -/
def witnessOps : List Op :=
  [⟨.package, ['m', 'o', 'd'], none⟩, ⟨.module, ['s', 'u', 'b', 'a'], some 0⟩,
   ⟨.package, ['m', 'o', 'd'], none⟩, ⟨.module, ['s', 'u', 'b', 'b'], some 2⟩]

theorem old_replaced_package_counterexample :
    histOk init witnessOps = true ∧
    (runOld init witnessOps).2 = [none, none, none, none] ∧
    (runOld init witnessOps).1.unproc = [1, 2, 3] ∧ registered (runOld init witnessOps).1 1 = false ∧
    (runOld init witnessOps).1.roots = [0, 2] ∧
    ((runOld init witnessOps).1.objs.map (·.name))[0]? = ((runOld init witnessOps).1.objs.map (·.name))[2]? ∧
    invB (runOld init witnessOps).1 = false := by decide +kernel

/-- the same history with the step as it is now -/
example : (run init witnessOps).1.unproc = [2, 3] ∧ (run init witnessOps).1.roots = [2] ∧
    invB (run init witnessOps).1 = true := by decide +kernel

end ModTable
