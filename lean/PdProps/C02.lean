/-
C02 — the object model is a coherent tree with a consistent name registry.
Theorems over `PdModel.Registry`.
-/
import PdModel.Registry

namespace Registry

theorem inv_init : invB init = true := by decide

section PyDict
variable {κ ν : Type} [DecidableEq κ]

/-- reading back what was written -/
theorem dset_get_same (d : List (κ × ν)) (k : κ) (v : ν) : dget (dset d k v) k = some v := by
  induction d with
  | nil => simp [dset, dget]
  | cons e d ih => obtain ⟨k', v'⟩ := e; by_cases h : k' = k <;> simp [dset, dget, h, ih]

/-- writing one key does not disturb another -/
theorem dset_get_other (d : List (κ × ν)) (k k' : κ) (v : ν) (hk : k' ≠ k) :
    dget (dset d k v) k' = dget d k' := by
  induction d with
  | nil => simp [dset, dget, Ne.symm hk]
  | cons e d ih =>
    obtain ⟨k1, v1⟩ := e
    by_cases h : k1 = k
    · subst h; simp [dset, dget, Ne.symm hk]
    · by_cases h' : k1 = k'
      · subst h'; simp [dset, dget, h]
      · simp [dset, dget, h, h', ih]

/-- a deleted key is gone (when keys are unique), the others stay -/
theorem ddel_get_other (d d' : List (κ × ν)) (k k' : κ) (h : ddel d k = some d') (hk : k' ≠ k) :
    dget d' k' = dget d k' := by
  induction d generalizing d' with
  | nil => simp [ddel] at h
  | cons e d ih =>
    obtain ⟨k1, v1⟩ := e
    by_cases h1 : k1 = k
    · subst h1
      simp [ddel] at h; subst h
      simp [dget, Ne.symm hk]
    · simp only [ddel, h1, if_false, Option.map_eq_some_iff] at h
      obtain ⟨d2, hd2, rfl⟩ := h
      by_cases h' : k1 = k' <;> simp [dget, h', ih d2 hd2]

theorem ddel_none_iff (d : List (κ × ν)) (k : κ) : ddel d k = none ↔ dget d k = none := by
  induction d with
  | nil => simp [ddel, dget]
  | cons e d ih => obtain ⟨k1, v1⟩ := e; by_cases h1 : k1 = k <;> simp [ddel, dget, h1, ih]
end PyDict

end Registry
