/-
C15 — a displayed value or expression means the same as the source expression.

Theorems over `PdModel.Pyval` (the model of pydoctor/epydoc/markup/_pyval_repr.py), with the
operator precedences of the astor that is installed next to the code under test
(`Generated.Tables`, re-extracted on every run; `Pyval.liveTable`).

The reference is Python's own grammar: `Pyval.parseDoc` (precedence levels and associativity read
off python.gram; compared with CPython's parser by the check's `grammar` stream).
-/
import PdModel.Pyval
import PdModel.PyvalIO

namespace Pyval

/-- the live precedence table -/
abbrev LT : PrecTable := liveTable

/-! ## 0. the generated table covers every operator class of `ast` -/

/-- the four generated lists are exactly the model's operator enumerations (alphabetical by class
name) with the precedence the model uses: a new operator class in `ast`, or a renamed one, breaks
this theorem. -/
theorem table_covers :
    Generated.PyvalPrec.unaryOps = [UOp.invert, .not, .uadd, .usub].map (fun o => (o.name, LT.unary o)) ∧
    Generated.PyvalPrec.binOps =
      [BOp.add, .bitAnd, .bitOr, .bitXor, .div, .floorDiv, .lShift, .matMult, .mod, .mult, .pow, .rShift, .sub].map
        (fun o => (o.name, LT.bin o)) ∧
    Generated.PyvalPrec.boolOps = [LOp.and, .or].map (fun o => (o.name, LT.bool o)) ∧
    Generated.PyvalPrec.cmpOps =
      [COp.eq, .gt, .gtE, .in, .is, .isNot, .lt, .ltE, .notEq, .notIn].map (fun o => (o.name, LT.cmp o)) := by
  refine ⟨?_, ?_, ?_, ?_⟩ <;> decide

theorem UOp.mem_all (o : UOp) : o ∈ UOp.all := by cases o <;> decide
theorem BOp.mem_all (o : BOp) : o ∈ BOp.all := by cases o <;> decide
theorem LOp.mem_all (o : LOp) : o ∈ LOp.all := by cases o <;> decide
theorem COp.mem_all (o : COp) : o ∈ COp.all := by cases o <;> decide

/-! ## 1. the parenthesis table

A *slot* is an operand position of a native operator node (the parents `_OperatorDelimiter`
special-cases); a *kid* is a native operator node standing in it. -/

inductive Slot | unary (op : UOp) | binL (op : BOp) | binR (op : BOp) | boolArg (op : LOp)
  deriving DecidableEq, Repr

inductive Kid | unary (op : UOp) | bin (op : BOp) | bool (op : LOp)
  deriving DecidableEq, Repr

def Slot.all : List Slot :=
  UOp.all.map .unary ++ BOp.all.map .binL ++ BOp.all.map .binR ++ LOp.all.map .boolArg
def Kid.all : List Kid := UOp.all.map .unary ++ BOp.all.map .bin ++ LOp.all.map .bool

theorem Slot.mem_all (s : Slot) : s ∈ Slot.all := by
  cases s with
  | unary o => cases o <;> decide
  | binL o => cases o <;> decide
  | binR o => cases o <;> decide
  | boolArg o => cases o <;> decide
theorem Kid.mem_all (k : Kid) : k ∈ Kid.all := by
  cases k with
  | unary o => cases o <;> decide
  | bin o => cases o <;> decide
  | bool o => cases o <;> decide

/-- the parent precedence `compile` hands to the operand in this slot (`_OperatorDelimiter`:
`get_op_precedence(parent.op)`, `+1` under `**` and under `and`/`or`, and — since b6b97a7 — `+1`
for the right operand of every other binary operator) -/
def Slot.pp (T : PrecTable) : Slot → Nat
  | .unary op => T.unary op
  | .binL op => T.bin op + (if op = .pow then 1 else 0)
  | .binR op => T.bin op + 1
  | .boolArg op => T.bool op + 1

/-- HISTORICAL (before b6b97a7): no distinction between the left and the right operand -/
def Slot.ppOld (T : PrecTable) : Slot → Nat
  | .unary op => T.unary op
  | .binL op => T.bin op + (if op = .pow then 1 else 0)
  | .binR op => T.bin op + (if op = .pow then 1 else 0)
  | .boolArg op => T.bool op + 1

def Kid.prec (T : PrecTable) : Kid → Nat
  | .unary op => T.unary op
  | .bin op => T.bin op
  | .bool op => T.bool op

/-- does the colourizer put the kid in parentheses? -/
def decision (T : PrecTable) (s : Slot) (k : Kid) : Bool := needParen (some (s.pp T)) (k.prec T)

/-- HISTORICAL: the decision before b6b97a7 -/
def decisionOld (T : PrecTable) (s : Slot) (k : Kid) : Bool := needParen (some (s.ppOld T)) (k.prec T)

namespace Grammar
/-- the non-terminal the operand of this slot must be derivable from -/
def slotMin : Slot → Nat
  | .unary op => op.level
  | .binL op => op.leftMin
  | .binR op => op.rightMin
  | .boolArg op => op.level + 1
/-- the non-terminal an unparenthesised operator expression belongs to -/
def kidLevel : Kid → Nat
  | .unary op => op.level
  | .bin op => op.level
  | .bool op => op.level
/-- without parentheses the text would be read with another grouping (or not at all) -/
def needsParens (s : Slot) (k : Kid) : Bool := kidLevel k < slotMin s
end Grammar

/-- right operand of a left-associative binary operator, kid a binary operator of the same
precedence (`a-(b-c)`, `a/(b*c)`, `a-(b+c)`) -/
def rightEqual (T : PrecTable) (s : Slot) (k : Kid) : Bool :=
  match s, k with
  | .binR p, .bin c => p ≠ .pow && T.bin p == T.bin c
  | _, _ => false

/-- the right operand of `**` being a unary `+ - ~` or another `**`: parentheses are written although
`a**-b` and `a**b**c` would read the same -/
def powRightTight (s : Slot) (k : Kid) : Bool :=
  match s, k with
  | .binR .pow, .unary op => op ≠ .not
  | .binR .pow, .bin .pow => true
  | _, _ => false

/-- **Pyval.paren_table** — over the WHOLE generated table (32 operand slots × 19 operator kids):
wherever Python's grammar needs parentheses to keep the grouping, the colourizer writes them. -/
theorem paren_table (s : Slot) (k : Kid) :
    Grammar.needsParens s k = true → decision LT s k = true := by
  have h : ∀ s ∈ Slot.all, ∀ k ∈ Kid.all, (Grammar.needsParens s k && !decision LT s k) = false := by
    decide +kernel
  have := h s (Slot.mem_all s) k (Kid.mem_all k)
  intro hn
  rw [hn] at this
  simpa using this

/-- non-vacuity: parentheses are needed in 300 of the 608 entries -/
example : ((Slot.all.flatMap fun s => Kid.all.map fun k => (s, k)).filter
    fun p => Grammar.needsParens p.1 p.2).length = 300 := by decide +kernel

/-- the converse, exactly: the only parentheses the grammar does not need are around the right
operand of `**` (4 entries: `a**(-b)`, `a**(+b)`, `a**(~b)`, `a**(b**c)`) — harmless for the property -/
theorem paren_table_extra :
    ∀ s ∈ Slot.all, ∀ k ∈ Kid.all,
      (decision LT s k && !Grammar.needsParens s k) = powRightTight s k := by
  decide +kernel

/-- HISTORICAL (the code before b6b97a7): the entries where parentheses were needed and not written
were exactly the `rightEqual` ones … -/
theorem paren_table_old_exact :
    ∀ s ∈ Slot.all, ∀ k ∈ Kid.all,
      (Grammar.needsParens s k && !decisionOld LT s k) = rightEqual LT s k := by
  decide +kernel

/-- … e.g. `a-(b-c)`, `a/(b*c)`, `a-(b+c)` (HISTORICAL counterexample; with the fix all three are
parenthesised) -/
theorem paren_table_old_counterexample :
    (Grammar.needsParens (.binR .sub) (.bin .sub) = true ∧ decisionOld LT (.binR .sub) (.bin .sub) = false ∧
      decision LT (.binR .sub) (.bin .sub) = true) ∧
    (Grammar.needsParens (.binR .div) (.bin .mult) = true ∧ decisionOld LT (.binR .div) (.bin .mult) = false ∧
      decision LT (.binR .div) (.bin .mult) = true) ∧
    (Grammar.needsParens (.binR .sub) (.bin .add) = true ∧ decisionOld LT (.binR .sub) (.bin .add) = false ∧
      decision LT (.binR .sub) (.bin .add) = true) := by
  decide

/-- every other expression parent (tuple/list/set element, call argument, keyword value, starred
operand, subscript value and index, dict key, `**` operand) hands down `Precedence.highest`: a
native operator is always parenthesised there; a dict value gets `Precedence.Comma`: never. -/
theorem paren_table_oversound :
    ∀ k ∈ Kid.all, needParen (some LT.highest) (k.prec LT) = true ∧
                   needParen (some LT.comma) (k.prec LT) = false ∧
                   needParen none (k.prec LT) = false := by
  decide +kernel

/-! ## 2. strings and bytes: the quoted, escaped form lexes back to the value

`unescapeStr` is Python's lexing of the body of a single-quoted `str` literal restricted to the
escape sequences `_str_escape` can emit; a raw quote, a raw line end, or any other backslash
sequence is `none`. -/

def unhex (c : Char) : Option Nat :=
  if '0' ≤ c ∧ c ≤ '9' then some (c.toNat - 48)
  else if 'a' ≤ c ∧ c ≤ 'f' then some (c.toNat - 87)
  else none

def unescChar (d : Char) : Option Char :=
  if d = '\'' then some '\''
  else if d = 't' then some '\t'
  else if d = 'r' then some '\r'
  else if d = 'n' then some '\n'
  else if d = 'f' then some (Char.ofNat 12)
  else if d = 'v' then some (Char.ofNat 11)
  else if d = '\\' then some '\\'
  else none

/-- `tri = true`: body of a triple-quoted literal (a raw newline is part of the value) -/
def unescapeStr (tri : Bool) : List Char → Option (List Char)
  | [] => some []
  | c :: rest =>
    if c = '\\' then
      match rest with
      | [] => none
      | d :: rest' =>
        if d = 'x' then
          match rest' with
          | h1 :: h2 :: rest'' =>
            match unhex h1, unhex h2, unescapeStr tri rest'' with
            | some a, some b, some xs => some (Char.ofNat (a * 16 + b) :: xs)
            | _, _, _ => none
          | _ => none
        else
          match unescChar d, unescapeStr tri rest' with
          | some x, some xs => some (x :: xs)
          | _, _ => none
    else if c = '\'' ∨ (c = '\n' ∧ tri = false) ∨ c = '\r' ∨ c = Char.ofNat 0 then none
    else (unescapeStr tri rest).map (c :: ·)

theorem unescape_escapeChar (tri : Bool) (c : Char) (rest : List Char) :
    unescapeStr tri (strEscapeChar c ++ rest) = (unescapeStr tri rest).map (c :: ·) := by
  unfold strEscapeChar
  split
  · next h => subst h; rw [unescapeStr.eq_def]; simp [unescChar]; cases unescapeStr tri rest <;> rfl
  split
  · next h => subst h; rw [unescapeStr.eq_def]; simp [unescChar]; cases unescapeStr tri rest <;> rfl
  split
  · next h => subst h; rw [unescapeStr.eq_def]; simp [unescChar]; cases unescapeStr tri rest <;> rfl
  split
  · next h => subst h; rw [unescapeStr.eq_def]; simp [unescChar]; cases unescapeStr tri rest <;> rfl
  split
  · next h => subst h; rw [unescapeStr.eq_def]; simp [unescChar]; cases unescapeStr tri rest <;> rfl
  split
  · next h => subst h; rw [unescapeStr.eq_def]; simp [unescChar]; cases unescapeStr tri rest <;> rfl
  split
  · next h => subst h; rw [unescapeStr.eq_def]; simp [unescChar]; cases unescapeStr tri rest <;> rfl
  split
  · next h =>
    subst h
    rw [unescapeStr.eq_def]
    have h0 : unhex '0' = some 0 := by decide
    simp [h0]
    cases unescapeStr tri rest <;> rfl
  · next h1 h2 h3 h4 h5 h6 h7 h8 =>
    rw [unescapeStr.eq_def]; simp [h1, h3, h4, h7, h8]

/-- **Pyval.str_roundtrip**: for every string, Python's lexing of `'` + `_str_escape(s)` + `'`
gives back `s` (value preserved; only the quote style may differ from the source). -/
theorem str_roundtrip (s : List Char) : unescapeStr false (strEscape s) = some s := by
  induction s with
  | nil => simp [strEscape, unescapeStr]
  | cons c s ih =>
    have : strEscape (c :: s) = strEscapeChar c ++ strEscape s := by simp [strEscape]
    rw [this, unescape_escapeChar, ih]; rfl

example : unescapeStr false (strEscape "it's\n\\".toList) = some "it's\n\\".toList := by decide

/-! ### the multi-line form (`linebreakok`): every line escaped on its own, raw newlines between
the lines, inside triple quotes -/

theorem splitNl_ne_nil (s : List Char) : splitNl s ≠ [] := by
  cases s with
  | nil => simp [splitNl]
  | cons c cs =>
    simp only [splitNl]
    split
    · simp
    · split <;> simp

theorem joinSep_cons_cons (sep x y : List Char) (rest : List (List Char)) :
    joinSep sep (x :: y :: rest) = x ++ sep ++ joinSep sep (y :: rest) := by
  simp [joinSep]

theorem joinSep_append_head (sep a b : List Char) (rest : List (List Char)) :
    joinSep sep ((a ++ b) :: rest) = a ++ joinSep sep (b :: rest) := by
  cases rest with
  | nil => simp [joinSep]
  | cons y r => simp [joinSep]

/-- what `_colorize_str` writes between the triple quotes -/
def triBody (s : List Char) : List Char := joinSep ['\n'] ((splitNl s).map strEscape)

theorem triBody_eq (s : List Char) :
    triBody s = s.flatMap (fun c => if c = '\n' then ['\n'] else strEscapeChar c) := by
  induction s with
  | nil => simp [triBody, splitNl, joinSep, strEscape]
  | cons c cs ih =>
    unfold triBody at ih ⊢
    simp only [splitNl]
    have hne := splitNl_ne_nil cs
    cases h : splitNl cs with
    | nil => exact absurd h hne
    | cons l ls =>
      rw [h] at ih
      by_cases hc : c = '\n'
      · subst hc
        simp only [if_true, List.map_cons, List.flatMap_cons]
        rw [joinSep_cons_cons, ← List.map_cons, ih]
        simp [strEscape]
      · simp only [hc, if_false, List.map_cons, List.flatMap_cons]
        have : strEscape (c :: l) = strEscapeChar c ++ strEscape l := by simp [strEscape]
        rw [this, joinSep_append_head, ← List.map_cons, ih]

theorem unescape_rawNl (rest : List Char) :
    unescapeStr true ('\n' :: rest) = (unescapeStr true rest).map ('\n' :: ·) := by
  rw [unescapeStr.eq_def]; simp

/-- the triple-quoted multi-line form lexes back to the same string -/
theorem str_roundtrip_lines (s : List Char) : unescapeStr true (triBody s) = some s := by
  rw [triBody_eq]
  induction s with
  | nil => simp [unescapeStr]
  | cons c s ih =>
    simp only [List.flatMap_cons]
    by_cases hc : c = '\n'
    · subst hc; simp only [if_true, List.cons_append, List.nil_append]
      rw [unescape_rawNl, ih]; rfl
    · simp only [hc, if_false]
      rw [unescape_escapeChar, ih]; rfl

example : triBody "a'\nb".toList = "a\\'\nb".toList := by decide

/-! ### bytes -/

def unescByteChar (d : Char) : Option Nat :=
  if d = '\'' then some 39 else if d = '\\' then some 92 else if d = 't' then some 9
  else if d = 'n' then some 10 else if d = 'r' then some 13 else none

/-- Python's lexing of the body of a single-quoted (`tri = false`) or triple-quoted `bytes` literal,
for the escapes `repr(bytes)` emits; a raw quote, a raw non-printable (other than the newline of the
triple-quoted form) or non-ASCII character is `none` -/
def unescapeBytes (tri : Bool) : List Char → Option (List Nat)
  | [] => some []
  | c :: rest =>
    if c = '\\' then
      match rest with
      | [] => none
      | d :: rest' =>
        if d = 'x' then
          match rest' with
          | h1 :: h2 :: rest'' =>
            match unhex h1, unhex h2, unescapeBytes tri rest'' with
            | some a, some b, some xs => some ((a * 16 + b) :: xs)
            | _, _, _ => none
          | _ => none
        else
          match unescByteChar d, unescapeBytes tri rest' with
          | some x, some xs => some (x :: xs)
          | _, _ => none
    else if c = '\n' ∧ tri = true then (unescapeBytes tri rest).map (10 :: ·)
    else if c = '\'' ∨ c.toNat < 32 ∨ c.toNat ≥ 127 then none
    else (unescapeBytes tri rest).map (c.toNat :: ·)

theorem hex_facts : ∀ c : Fin 256,
    unhex (hexDigit (c.val / 16 % 16)) = some (c.val / 16 % 16) ∧
    unhex (hexDigit (c.val % 16)) = some (c.val % 16) := by decide +kernel

theorem printable_facts : ∀ c : Fin 256, 32 ≤ c.val → c.val < 127 → c.val ≠ 39 → c.val ≠ 92 →
    (Char.ofNat c.val ≠ '\\' ∧ Char.ofNat c.val ≠ '\'' ∧ (Char.ofNat c.val).toNat = c.val ∧
      Char.ofNat c.val ≠ '\n') := by
  decide +kernel

theorem unescape_escapeByte (tri : Bool) (c : Nat) (hc : c < 256) (rest : List Char) :
    unescapeBytes tri (bytesEscapeByte 39 c ++ rest) = (unescapeBytes tri rest).map (c :: ·) := by
  unfold bytesEscapeByte
  split
  · next h =>
    have h' : c = 39 ∨ c = 92 := by simpa using h
    rcases h' with h | h <;> subst h <;>
      (rw [unescapeBytes.eq_def]; simp [unescByteChar]; cases unescapeBytes tri rest <;> rfl)
  split
  · next h => subst h; rw [unescapeBytes.eq_def]; simp [unescByteChar]; cases unescapeBytes tri rest <;> rfl
  split
  · next h => subst h; rw [unescapeBytes.eq_def]; simp [unescByteChar]; cases unescapeBytes tri rest <;> rfl
  split
  · next h => subst h; rw [unescapeBytes.eq_def]; simp [unescByteChar]; cases unescapeBytes tri rest <;> rfl
  split
  · next h =>
    have hf := hex_facts ⟨c, hc⟩
    simp only at hf
    have e : c / 16 % 16 * 16 + c % 16 = c := by omega
    rw [unescapeBytes.eq_def]; simp [hf.1, hf.2]
    cases unescapeBytes tri rest <;> simp [e]
  · next h1 h2 h3 h4 h5 =>
    have h1' : c ≠ 39 ∧ c ≠ 92 := by simpa using h1
    have h5' : 32 ≤ c ∧ c < 127 := by
      have : ¬ (c < 32) ∧ ¬ (c ≥ 127) := by simpa using h5
      omega
    have hp := printable_facts ⟨c, hc⟩ h5'.1 h5'.2 h1'.1 h1'.2
    simp only at hp
    obtain ⟨p1, p2, p3, p4⟩ := hp
    have h32 : ¬ c < 32 := by omega
    have h127 : ¬ c ≥ 127 := by omega
    rw [unescapeBytes.eq_def]; simp [p1, p2, p3, p4, h32, h127]

theorem unescape_flatMap (tri : Bool) (l : List Nat) (hl : ∀ x ∈ l, x < 256) :
    unescapeBytes tri (l.flatMap (bytesEscapeByte 39)) = some l := by
  induction l with
  | nil => simp [unescapeBytes]
  | cons c l ih =>
    simp only [List.flatMap_cons]
    rw [unescape_escapeByte tri c (hl c (by simp)), ih (fun x hx => hl x (by simp [hx]))]; rfl

theorem escapeQuotes_facts : ∀ c : Fin 256, c.val ≠ 34 →
    escapeQuotes (bytesEscapeByte 34 c.val) = bytesEscapeByte 39 c.val := by
  decide +kernel

theorem escapeQuotes_flatMap (l : List Nat) (hl : ∀ x ∈ l, x < 256) (hq : ∀ x ∈ l, x ≠ 34) :
    escapeQuotes (l.flatMap (bytesEscapeByte 34)) = l.flatMap (bytesEscapeByte 39) := by
  induction l with
  | nil => rfl
  | cons c l ih =>
    have h1 := escapeQuotes_facts ⟨c, hl c (by simp)⟩ (hq c (by simp))
    simp only at h1
    simp only [List.flatMap_cons]
    rw [← ih (fun x hx => hl x (by simp [hx])) (fun x hx => hq x (by simp [hx])), ← h1]
    simp [escapeQuotes]

/-- whatever quote `repr()` picks, `_bytes_escape` produces the body of the single-quoted literal -/
theorem bytesEscape_eq (b : List Nat) (hb : ∀ x ∈ b, x < 256) :
    bytesEscape b = b.flatMap (bytesEscapeByte 39) := by
  unfold bytesEscape
  by_cases hq : bytesQuote b = 34
  · have h34 : ∀ x ∈ b, x ≠ 34 := by
      intro x hx e; subst e
      unfold bytesQuote at hq
      have : b.contains 34 = true := by simpa using hx
      simp [this] at hq
      exact hq.2 hx
    simp only [hq, if_true]
    exact escapeQuotes_flatMap b hb h34
  · have : bytesQuote b = 39 := by
      unfold bytesQuote at hq ⊢
      split <;> simp_all
    simp [this]

/-- **Pyval.bytes_roundtrip**: for every bytes value, Python's lexing of `b'` + `_bytes_escape(b)` +
`'` gives back the value (full since 257fc5a) -/
theorem bytes_roundtrip (b : List Nat) (hb : ∀ x ∈ b, x < 256) :
    unescapeBytes false (bytesEscape b) = some b := by
  rw [bytesEscape_eq b hb]
  exact unescape_flatMap false b hb

example : unescapeBytes false (bytesEscape [97, 34, 39, 0, 255, 10]) = some [97, 34, 39, 0, 255, 10] := by
  decide
example : bytesEscape [105, 116, 39, 115] = "it\\'s".toList := by decide

/-- HISTORICAL (before 257fc5a): `b"it's"` was displayed as `b'it's'` -/
theorem bytes_roundtrip_old_counterexample :
    bytesEscapeOld [105, 116, 39, 115] = "it's".toList ∧
    unescapeBytes false (bytesEscapeOld [105, 116, 39, 115]) = none := by decide

/-- docutils removes NUL characters from `Text` nodes; since e938da2 `_str_escape` never emits one … -/
theorem strEscape_no_nul (s : List Char) : Char.ofNat 0 ∉ strEscape s := by
  unfold strEscape
  intro h
  rw [List.mem_flatMap] at h
  obtain ⟨c, _, hc⟩ := h
  unfold strEscapeChar at hc
  repeat' split at hc
  all_goals (first | (revert hc; decide) | skip)
  rename_i h8
  simp at hc
  exact h8 hc.symm

/-- … and `repr(bytes)` never did -/
theorem bytesEscape_no_nul (b : List Nat) (hb : ∀ x ∈ b, x < 256) : Char.ofNat 0 ∉ bytesEscape b := by
  rw [bytesEscape_eq b hb]
  intro h
  rw [List.mem_flatMap] at h
  obtain ⟨c, hc, hm⟩ := h
  have : ∀ c : Fin 256, Char.ofNat 0 ∉ bytesEscapeByte 39 c.val := by decide +kernel
  exact this ⟨c, hb c hc⟩ hm

/-- HISTORICAL (before e938da2): `'\x00'` was displayed as `''` -/
theorem nul_dropped_old_counterexample :
    astext (strEscapeOld [Char.ofNat 0]) = [] ∧ astext (strEscape [Char.ofNat 0]) = "\\x00".toList := by
  decide

/-! ## 3. the displayed text as a concrete syntax tree

`toDoc` retraces `compile` and records *where* the colourizer writes parentheses, commas and
stars, as a `Doc`; `toDoc_flatten` shows that spelling the `Doc` gives exactly the text the
colourizer produces (`render`).  `canon` is the abstract tree of the source expression in the
normal form `parseDoc` returns.  The grouping theorem is then
`parseDoc 1 (toDoc e) = some (canon e)`: read back with Python's grammar, the displayed text is
the source expression. -/

def wrapIf (b : Bool) (d : Doc) : Doc := if b then .group d else d

/-- which of the context-sensitive shapes a `Doc` / an `Expr` is: 0 absent, 1 starred, 2 keyword,
3 bare index list, 4 anything else -/
def Doc.tag : Doc → Nat
  | .absent => 0 | .starred _ => 1 | .keyword _ _ => 2 | .bare _ => 3 | _ => 4
def Expr.tag : Expr → Nat
  | .absent => 0 | .starred _ => 1 | .keyword _ _ => 2 | _ => 4


mutual
def toDocA (T : PrecTable) (pp : Nat) : AExpr → Doc
  | .name s => .atom s
  | .unary op x => wrapIf (!decide (T.unary op ≥ pp)) (.unary op (toDocA T (T.unary op) x))
  | .binary op l r =>
    wrapIf (!decide (T.bin op ≥ pp))
      (.binary true op (toDocA T (if op = .pow then T.bin .pow + 1 else T.bin op) l)
        (toDocA T (if op = .pow then T.powRHS else T.bin op + 1) r))
  | .boolop op xs => wrapIf (!decide (T.bool op ≥ pp)) (.boolop op (toDocAList T (T.bool op + 1) xs))
  | .compare l ops rights =>
    match ops with
    | [] => .junk "??".toList
    | op0 :: _ =>
      wrapIf (!decide (T.cmp op0 ≥ pp))
        (.compare (toDocA T (T.cmp op0 + 1) l) ops (toDocAList T (T.cmp op0 + 1) rights))
  | .ifExp b t o =>
    wrapIf (!decide (T.ifExp ≥ pp))
      (.ifExp (toDocA T (T.ifExp + 1) b) (toDocA T (T.ifExp + 1) t) (toDocA T T.ifExp o))
def toDocAList (T : PrecTable) (pp : Nat) : List AExpr → List Doc
  | [] => []
  | x :: xs => toDocA T pp x :: toDocAList T pp xs
end

/-- value `i` of a dict: compiled under `Precedence.Comma` when key `i` is present, else under the default -/
def pickDocs : List Expr → List Doc → List Doc → List Doc
  | k :: ks, c :: cs, h :: hs =>
    (match k with
     | .absent => h
     | _ => c) :: pickDocs ks cs hs
  | _, _, _ => []

mutual
def toDoc (T : PrecTable) (pp : Option Nat) : Expr → Doc
  | .name s => .atom s
  | .dotted parts => .atom (joinDots parts)
  | .constInt n => .atom (intText n)
  | .constNum t => .atom (replaceInf T.infExp t)
  | .constStr s => .atom ('\'' :: (strEscape s ++ ['\'']))
  | .constBytes b => .atom ('b' :: '\'' :: (bytesEscape b ++ ['\'']))
  | .constName k => .atom k.text
  | .ellipsis => .atom "...".toList
  | .absent => .absent
  | .unary op x => wrapIf (needParen pp (T.unary op)) (.unary op (toDoc T (some (T.unary op)) x))
  | .binary op l r =>
    wrapIf (needParen pp (T.bin op))
      (.binary false op (toDoc T (some (T.bin op + (if op = .pow then 1 else 0))) l)
        (toDoc T (some (T.bin op + 1)) r))
  | .boolop op xs =>
    wrapIf (needParen pp (T.bool op)) (.boolop op (toDocList T (some (T.bool op + 1)) xs))
  | .list xs => .list (toDocList T (some T.highest) xs)
  | .tuple xs => .tuple (toDocList T (some T.highest) xs) false
  | .set xs => .setCall (toDocList T (some T.highest) xs)
  | .dict ks vs =>
    .dict (toDocList T (some T.highest) ks)
      (pickDocs ks (toDocList T (some T.comma) vs) (toDocList T (some T.highest) vs))
  | .subscript v (.tuple elts) =>
    .subscript (toDoc T (some T.highest) v) (.bare (toDocList T (some T.highest) elts))
  | .subscript v s => .subscript (toDoc T (some T.highest) v) (toDoc T (some T.highest) s)
  | .call f args kws =>
    .call (toDoc T (some T.highest) f)
      (toDocList T (some T.highest) args ++ toDocList T (some T.highest) kws)
  | .keyword a v => .keyword a (toDoc T (some T.highest) v)
  | .starred x => .starred (toDoc T (some T.highest) x)
  | .astor a =>
    match renderA T T.highest a with
    | some _ => toDocA T T.highest a
    | none => .junk "??".toList
  | .opaque t _ => .atom t
  | .unknown => .junk "??".toList
  | .unlinked e =>
    -- rendered as if at top level; (a starred / keyword / absent node cannot be spliced in: spelled as is)
    if (toDoc T none e).tag = 4 then toDoc T none e else .junk (toDoc T none e).flatten
def toDocList (T : PrecTable) (pp : Option Nat) : List Expr → List Doc
  | [] => []
  | x :: xs => toDoc T pp x :: toDocList T pp xs
end

mutual
def canonA : AExpr → Doc
  | .name s => .atom s
  | .unary op x => .unary op (canonA x)
  | .binary op l r => .binary false op (canonA l) (canonA r)
  | .boolop op xs => .boolop op (canonAList xs)
  | .compare l ops rights => .compare (canonA l) ops (canonAList rights)
  | .ifExp b t o => .ifExp (canonA b) (canonA t) (canonA o)
def canonAList : List AExpr → List Doc
  | [] => []
  | x :: xs => canonA x :: canonAList xs
end

mutual
/-- the source expression as an abstract tree (atoms by their displayed spelling; what a string
atom *means* is `str_roundtrip`) -/
def canon : Expr → Doc
  | .name s => .atom s
  | .dotted parts => .atom (joinDots parts)
  | .constInt n => .atom (intText n)
  | .constNum t => .atom (replaceInf LT.infExp t)
  | .constStr s => .atom ('\'' :: (strEscape s ++ ['\'']))
  | .constBytes b => .atom ('b' :: '\'' :: (bytesEscape b ++ ['\'']))
  | .constName k => .atom k.text
  | .ellipsis => .atom "...".toList
  | .absent => .absent
  | .unary op x => .unary op (canon x)
  | .binary op l r => .binary false op (canon l) (canon r)
  | .boolop op xs => .boolop op (canonList xs)
  | .list xs => .list (canonList xs)
  | .tuple xs => .tuple (canonList xs) false
  | .set xs => .setCall (canonList xs)
  | .dict ks vs => .dict (canonList ks) (canonList vs)
  | .subscript v s => .subscript (canon v) (canon s)
  | .call f args kws => .call (canon f) (canonList args ++ canonList kws)
  | .keyword a v => .keyword a (canon v)
  | .starred x => .starred (canon x)
  | .astor a => canonA a
  | .opaque t _ => .atom t
  | .unknown => .junk "??".toList
  | .unlinked e => canon e
def canonList : List Expr → List Doc
  | [] => []
  | x :: xs => canon x :: canonList xs
end

/-! ### `toDoc` spells the colourizer's text -/

theorem flat_parenIf (b : Bool) (p : Prog) :
    flat (parenIf b p) = if b then '(' :: (flat p ++ [')']) else flat p := by
  cases b <;> simp [parenIf, flat]

theorem flatten_wrapIf (b : Bool) (d : Doc) :
    (wrapIf b d).flatten = if b then '(' :: (d.flatten ++ [')']) else d.flatten := by
  cases b <;> simp [wrapIf, Doc.flatten]

theorem flatList_append (a b : List Prog) : flatList (a ++ b) = flatList a ++ flatList b := by
  induction a with
  | nil => simp [flatList]
  | cons p ps ih => simp [flatList, ih]

theorem flatList_map (ps : List Prog) : flatList ps = (ps.map flat).flatten := by
  induction ps with
  | nil => simp [flatList]
  | cons p ps ih => simp [flatList, ih]

theorem flatList_iterBody (first : Bool) (ps : List Prog) :
    flatList (iterBody first ps) =
      (if first || ps.isEmpty then [] else [',', ' ']) ++ joinSep [',', ' '] (ps.map flat) := by
  induction ps generalizing first with
  | nil => simp [iterBody, flatList, joinSep]
  | cons p ps ih =>
    rw [iterBody, flatList_append, flatList_append, ih false]
    cases ps with
    | nil => cases first <;> simp [flatList, flat, joinSep]
    | cons q qs => cases first <;> simp [flatList, flat, joinSep]

theorem flat_iterProg (pre suf : Option (List Char)) (ps : List Prog) :
    flat (iterProg pre suf ps) =
      (pre.getD []) ++ joinSep [',', ' '] (ps.map flat) ++ (suf.getD []) := by
  cases pre <;> cases suf <;>
    simp [iterProg, flat, flatList, flatList_iterBody]

theorem flatList_boolBody (sep : List Char) (ps : List Prog) :
    flatList (boolBody sep ps) = joinSep sep (ps.map flat) := by
  induction ps with
  | nil => simp [boolBody, flatList, joinSep]
  | cons p ps ih =>
    cases ps with
    | nil => simp [boolBody, flatList, joinSep]
    | cons q qs =>
      simp only [boolBody, List.map_cons, joinSep_cons_cons] at ih ⊢
      simp [flatList, flat, ih]

theorem asym_eq (op : UOp) : op.asym ++ (if op = .not then [' '] else []) = op.sym := by
  cases op <;> decide

theorem delimit_eq (p pp : Nat) (d : Doc) :
    delimit p pp d.flatten = (wrapIf (!decide (p ≥ pp)) d).flatten := by
  unfold delimit
  by_cases h : p ≥ pp <;> simp [h, flatten_wrapIf]

mutual
theorem renderA_toDocA (T : PrecTable) :
    ∀ (a : AExpr) (pp : Nat) (t : List Char), renderA T pp a = some t → (toDocA T pp a).flatten = t
  | .name s, pp, t, h => by
    simp [renderA] at h; simp [toDocA, Doc.flatten, h]
  | .unary op x, pp, t, h => by
    simp only [renderA] at h
    cases hx : renderA T (T.unary op) x with
    | none => simp [hx] at h
    | some tx =>
      have ih := renderA_toDocA T x _ _ hx
      simp only [hx, Option.map_some, Option.some.injEq] at h
      rw [toDocA, ← delimit_eq, ← h]
      simp only [Doc.flatten, ih, ← asym_eq op, List.append_assoc]
  | .binary op l r, pp, t, h => by
    simp only [renderA] at h
    cases hl : renderA T (if op = .pow then T.bin .pow + 1 else T.bin op) l with
    | none => simp [hl] at h
    | some tl =>
      cases hr : renderA T (if op = .pow then T.powRHS else T.bin op + 1) r with
      | none => simp [hl, hr] at h
      | some tr =>
        have ihl := renderA_toDocA T l _ _ hl
        have ihr := renderA_toDocA T r _ _ hr
        simp only [hl, hr, Option.some.injEq] at h
        rw [toDocA, ← delimit_eq, ← h]
        simp [Doc.flatten, ihl, ihr]
  | .boolop op xs, pp, t, h => by
    simp only [renderA] at h
    cases hx : renderAList T (T.bool op + 1) xs with
    | none => simp [hx] at h
    | some ts =>
      have ih := renderAList_toDocAList T xs _ _ hx
      simp only [hx, Option.map_some, Option.some.injEq] at h
      rw [toDocA, ← delimit_eq, ← h]
      simp [Doc.flatten, ih]
  | .compare l ops rights, pp, t, h => by
    cases ops with
    | nil => simp [renderA] at h
    | cons op0 ops' =>
      simp only [renderA] at h
      cases hl : renderA T (T.cmp op0 + 1) l with
      | none => simp [hl] at h
      | some tl =>
        cases hr : renderAList T (T.cmp op0 + 1) rights with
        | none => simp [hl, hr] at h
        | some trs =>
          have ihl := renderA_toDocA T l _ _ hl
          have ihr := renderAList_toDocAList T rights _ _ hr
          simp only [hl, hr, Option.some.injEq] at h
          rw [toDocA, ← delimit_eq, ← h]
          simp [Doc.flatten, ihl, ihr]
  | .ifExp b t' o, pp, t, h => by
    simp only [renderA] at h
    cases hb : renderA T (T.ifExp + 1) b with
    | none => simp [hb] at h
    | some tb =>
      cases ht : renderA T (T.ifExp + 1) t' with
      | none => simp [hb, ht] at h
      | some tt =>
        cases ho : renderA T T.ifExp o with
        | none => simp [hb, ht, ho] at h
        | some to =>
          have ihb := renderA_toDocA T b _ _ hb
          have iht := renderA_toDocA T t' _ _ ht
          have iho := renderA_toDocA T o _ _ ho
          simp only [hb, ht, ho, Option.some.injEq] at h
          rw [toDocA, ← delimit_eq, ← h]
          simp [Doc.flatten, ihb, iht, iho]
theorem renderAList_toDocAList (T : PrecTable) :
    ∀ (xs : List AExpr) (pp : Nat) (ts : List (List Char)),
      renderAList T pp xs = some ts → Doc.flattenList (toDocAList T pp xs) = ts
  | [], pp, ts, h => by
    simp [renderAList] at h; simp [toDocAList, Doc.flattenList, h]
  | x :: xs, pp, ts, h => by
    simp only [renderAList] at h
    cases hx : renderA T pp x with
    | none => simp [hx] at h
    | some t =>
      cases hxs : renderAList T pp xs with
      | none => simp [hx, hxs] at h
      | some ts' =>
        have ih1 := renderA_toDocA T x _ _ hx
        have ih2 := renderAList_toDocAList T xs _ _ hxs
        simp only [hx, hxs, Option.some.injEq] at h
        simp [toDocAList, Doc.flattenList, ih1, ih2, ← h]
end

theorem joinSep_append (sep : List Char) (a b : List (List Char)) :
    joinSep sep (a ++ b) =
      if b.isEmpty then joinSep sep a else if a.isEmpty then joinSep sep b
      else joinSep sep a ++ sep ++ joinSep sep b := by
  induction a with
  | nil => cases b <;> simp [joinSep]
  | cons x xs ih =>
    cases xs with
    | nil => cases b <;> simp [joinSep]
    | cons y ys =>
      cases b with
      | nil => simp
      | cons z zs =>
        simp only [List.cons_append, joinSep_cons_cons] at ih ⊢
        simp [ih]

theorem tag_wrapIf (b : Bool) (d : Doc) (h : d.tag = 4) : (wrapIf b d).tag = 4 := by
  cases b
  · simpa [wrapIf] using h
  · simp [wrapIf, Doc.tag]

theorem tag_toDocA (T : PrecTable) (pp : Nat) (a : AExpr) : (toDocA T pp a).tag = 4 := by
  cases a with
  | name s => simp [toDocA, Doc.tag]
  | unary op x => rw [toDocA]; exact tag_wrapIf _ _ (by simp [Doc.tag])
  | binary op l r => rw [toDocA]; exact tag_wrapIf _ _ (by simp [Doc.tag])
  | boolop op xs => rw [toDocA]; exact tag_wrapIf _ _ (by simp [Doc.tag])
  | compare l ops rs =>
    cases ops with
    | nil => simp [toDocA, Doc.tag]
    | cons o os => rw [toDocA]; exact tag_wrapIf _ _ (by simp [Doc.tag])
  | ifExp b t o => rw [toDocA]; exact tag_wrapIf _ _ (by simp [Doc.tag])

theorem tag_toDoc (T : PrecTable) (pp : Option Nat) (e : Expr) : (toDoc T pp e).tag = e.tag := by
  cases e with
  | unary op x => rw [toDoc]; exact tag_wrapIf _ _ (by simp [Doc.tag])
  | binary op l r => rw [toDoc]; exact tag_wrapIf _ _ (by simp [Doc.tag])
  | boolop op xs => rw [toDoc]; exact tag_wrapIf _ _ (by simp [Doc.tag])
  | subscript v s => cases s <;> simp [toDoc, Doc.tag, Expr.tag]
  | astor a =>
    simp only [toDoc]
    split
    · simp [tag_toDocA, Expr.tag]
    · simp [Doc.tag, Expr.tag]
  | keyword a v => cases a <;> simp [toDoc, Doc.tag, Expr.tag]
  | unlinked e =>
    simp only [toDoc]
    split
    · next h => simp [h, Expr.tag]
    · simp [Doc.tag, Expr.tag]
  | _ => simp [toDoc, Doc.tag, Expr.tag]

theorem toDoc_absent_iff (T : PrecTable) (pp : Option Nat) (e : Expr) :
    toDoc T pp e = .absent ↔ e = .absent := by
  constructor
  · intro h
    have := tag_toDoc T pp e
    rw [h] at this
    cases e <;> simp [Doc.tag, Expr.tag] at this ⊢
  · intro h; subst h; simp [toDoc]

theorem dict_flat (T : PrecTable) : ∀ (ks vs : List Expr),
    Doc.flattenList (toDocList T (some T.highest) ks) = (compileList T (some T.highest) ks).map flat →
    Doc.flattenList (toDocList T (some T.comma) vs) = (compileList T (some T.comma) vs).map flat →
    Doc.flattenList (toDocList T (some T.highest) vs) = (compileList T (some T.highest) vs).map flat →
    dictTexts (toDocList T (some T.highest) ks) (Doc.flattenList (toDocList T (some T.highest) ks))
        (Doc.flattenList (pickDocs ks (toDocList T (some T.comma) vs) (toDocList T (some T.highest) vs)))
      = (dictItems ks (compileList T (some T.highest) ks) (compileList T (some T.comma) vs)
          (compileList T (some T.highest) vs)).map flat
  | [], vs, _, _, _ => by simp [toDocList, Doc.flattenList, dictTexts, compileList, dictItems]
  | k :: ks, [], _, _, _ => by
    simp [toDocList, Doc.flattenList, dictTexts, compileList, dictItems, pickDocs]
  | k :: ks, v :: vs, hk, hc, hh => by
    simp only [toDocList, compileList, Doc.flattenList, List.map_cons, List.cons.injEq] at hk hc hh
    have ih := dict_flat T ks vs hk.2 hc.2 hh.2
    by_cases hka : k = .absent
    · subst hka
      simp only [toDocList, compileList, pickDocs, Doc.flattenList, dictTexts, dictItems, toDoc,
        List.map_cons, ih, List.cons.injEq, and_true]
      simp [flat, flatList, hh.1]
    · have hkd : toDoc T (some T.highest) k ≠ .absent := fun h => hka ((toDoc_absent_iff T _ k).1 h)
      have e1 : ∀ (a b : Doc), (match k with | .absent => a | _ => b) = b := by
        intro a b; cases k <;> simp at hka ⊢
      have e2 : ∀ (a b : Prog), (match k with | .absent => a | _ => b) = b := by
        intro a b; cases k <;> simp at hka ⊢
      have e3 : ∀ (a b : List Char),
          (match toDoc T (some T.highest) k with | .absent => a | _ => b) = b := by
        intro a b
        cases h : toDoc T (some T.highest) k <;> simp_all
      simp only [toDocList, compileList, pickDocs, Doc.flattenList, dictTexts, dictItems,
        List.map_cons, ih, List.cons.injEq, and_true, e1, e2, e3]
      simp [flat, flatList, hk.1, hc.1]

theorem flattenList_append (a b : List Doc) :
    Doc.flattenList (a ++ b) = Doc.flattenList a ++ Doc.flattenList b := by
  induction a with
  | nil => simp [Doc.flattenList]
  | cons d ds ih => simp [Doc.flattenList, ih]

theorem call_flat (sep : List Char) (args kws : List Expr) (A K : List (List Char))
    (hA : A.isEmpty = args.isEmpty) (hK : K.isEmpty = kws.isEmpty) :
    joinSep sep (A ++ K) =
      joinSep sep A ++ (if kws.isEmpty then [] else (if args.isEmpty then [] else sep) ++ joinSep sep K) := by
  rw [joinSep_append, hA, hK]
  cases args <;> cases kws <;> cases A <;> cases K <;> simp_all [joinSep]

mutual
/-- **the `Doc` of an expression spells exactly what the colourizer writes** -/
theorem toDoc_flatten (T : PrecTable) :
    ∀ (e : Expr) (pp : Option Nat), (toDoc T pp e).flatten = flat (compile T pp e)
  | .name s, pp => by simp [toDoc, compile, Doc.flatten, flat]
  | .dotted ps, pp => by simp [toDoc, compile, Doc.flatten, flat]
  | .constInt n, pp => by simp [toDoc, compile, Doc.flatten, flat]
  | .constNum t, pp => by simp [toDoc, compile, Doc.flatten, flat]
  | .constStr s, pp => by simp [toDoc, compile, Doc.flatten, flat, flatList, strProg]
  | .constBytes b, pp => by simp [toDoc, compile, Doc.flatten, flat, flatList, bytesProg]
  | .constName k, pp => by simp [toDoc, compile, Doc.flatten, flat]
  | .ellipsis, pp => by simp [toDoc, compile, Doc.flatten, flat]
  | .absent, pp => by simp [toDoc, compile, Doc.flatten, flat]
  | .opaque t w, pp => by simp [toDoc, compile, Doc.flatten, flat]
  | .unknown, pp => by simp [toDoc, compile, Doc.flatten, flat]
  | .unary op x, pp => by
    have ih := toDoc_flatten T x (some (T.unary op))
    simp [toDoc, compile, flatten_wrapIf, flat_parenIf, Doc.flatten, flat, flatList, ih]
  | .binary op l r, pp => by
    have ihl := toDoc_flatten T l (some (T.bin op + (if op = .pow then 1 else 0)))
    have ihr := toDoc_flatten T r (some (T.bin op + 1))
    simp [toDoc, compile, flatten_wrapIf, flat_parenIf, Doc.flatten, flat, flatList, ihl, ihr]
  | .boolop op xs, pp => by
    have ih := toDocList_flatten T xs (some (T.bool op + 1))
    simp [toDoc, compile, flatten_wrapIf, flat_parenIf, Doc.flatten, flat, flatList_boolBody, ih]
  | .list xs, pp => by
    have ih := toDocList_flatten T xs (some T.highest)
    simp [toDoc, compile, Doc.flatten, flat, flat_iterProg, ih]
  | .tuple xs, pp => by
    have ih := toDocList_flatten T xs (some T.highest)
    simp [toDoc, compile, Doc.flatten, flat, flat_iterProg, ih]
  | .set xs, pp => by
    have ih := toDocList_flatten T xs (some T.highest)
    simp [toDoc, compile, Doc.flatten, flat, flat_iterProg, ih]
  | .dict ks vs, pp => by
    have h := dict_flat T ks vs (toDocList_flatten T ks _) (toDocList_flatten T vs _)
      (toDocList_flatten T vs _)
    simp [toDoc, compile, Doc.flatten, flat, flat_iterProg, h]
  | .subscript v (.tuple elts), pp => by
    have ihv := toDoc_flatten T v (some T.highest)
    have ih := toDocList_flatten T elts (some T.highest)
    simp [toDoc, compile, Doc.flatten, flat, flatList, flat_iterProg, ihv, ih]
  | .subscript v s, pp => by
    have ihv := toDoc_flatten T v (some T.highest)
    have ihs := toDoc_flatten T s (some T.highest)
    cases s <;> simp_all [toDoc, compile, Doc.flatten, flat, flatList, flat_iterProg]
  | .call f args kws, pp => by
    have ihf := toDoc_flatten T f (some T.highest)
    have iha := toDocList_flatten T args (some T.highest)
    have ihk := toDocList_flatten T kws (some T.highest)
    have hA : (Doc.flattenList (toDocList T (some T.highest) args)).isEmpty = args.isEmpty := by
      cases args <;> simp [toDocList, Doc.flattenList]
    have hK : (Doc.flattenList (toDocList T (some T.highest) kws)).isEmpty = kws.isEmpty := by
      cases kws <;> simp [toDocList, Doc.flattenList]
    simp only [toDoc, compile, Doc.flatten, flattenList_append, call_flat _ args kws _ _ hA hK]
    cases h1 : kws.isEmpty <;> cases h2 : args.isEmpty <;>
      simp [flat, flatList, flatList_append, flat_iterProg, ihf, iha, ihk]
  | .keyword (some a) v, pp => by
    have ih := toDoc_flatten T v (some T.highest)
    simp [toDoc, compile, Doc.flatten, flat, flatList, ih]
  | .keyword none v, pp => by
    have ih := toDoc_flatten T v (some T.highest)
    simp [toDoc, compile, Doc.flatten, flat, flatList, ih]
  | .starred x, pp => by
    have ih := toDoc_flatten T x (some T.highest)
    simp [toDoc, compile, Doc.flatten, flat, flatList, ih]
  | .astor a, pp => by
    simp only [toDoc, compile]
    cases h : renderA T T.highest a with
    | none => simp [Doc.flatten, flat]
    | some t => simp [flat, renderA_toDocA T a _ _ h]
  | .unlinked e, pp => by
    have ih := toDoc_flatten T e none
    simp only [toDoc, compile]
    split <;> simp [Doc.flatten, ih]
theorem toDocList_flatten (T : PrecTable) :
    ∀ (xs : List Expr) (pp : Option Nat),
      Doc.flattenList (toDocList T pp xs) = (compileList T pp xs).map flat
  | [], pp => by simp [toDocList, compileList, Doc.flattenList]
  | x :: xs, pp => by
    simp [toDocList, compileList, Doc.flattenList, toDoc_flatten T x pp, toDocList_flatten T xs pp]
end

/-- the displayed text of an expression is the spelling of its `Doc` -/
theorem render_eq_flatten (T : PrecTable) (e : Expr) : render T e = (toDoc T none e).flatten := by
  rw [render, toDoc_flatten]

/-! ### reading the `Doc` back: the delegated (astor) fragment

astor hands every operand the precedence the grammar position requires (`p` to the left, `p + 1`
to the right, `Pow + 1` / `PowRHS` around `**`, `p + 1` to the operands of `and`/`or`/comparisons,
…): `Rel pp n` says that a parent precedence `pp` is at least as demanding as grammar level `n`. -/

/-- (astor precedence, grammar level) of every operator form -/
def kinds (T : PrecTable) : List (Nat × Nat) :=
  UOp.all.map (fun o => (T.unary o, o.level)) ++ BOp.all.map (fun o => (T.bin o, o.level)) ++
  LOp.all.map (fun o => (T.bool o, o.level)) ++ COp.all.map (fun o => (T.cmp o, 5)) ++ [(T.ifExp, 1)]

def Rel (T : PrecTable) (pp n : Nat) : Bool :=
  (kinds T).all fun k => !decide (k.1 ≥ pp) || decide (n ≤ k.2)

theorem rel_use {T : PrecTable} {pp n : Nat} (h : Rel T pp n = true) {p l : Nat}
    (hm : (p, l) ∈ kinds T) (hp : p ≥ pp) : n ≤ l := by
  unfold Rel at h
  rw [List.all_eq_true] at h
  have := h (p, l) hm
  simpa [hp] using this

theorem mem_kinds_unary (T : PrecTable) (o : UOp) : (T.unary o, o.level) ∈ kinds T := by
  cases o <;> simp [kinds, UOp.all]
theorem mem_kinds_bin (T : PrecTable) (o : BOp) : (T.bin o, o.level) ∈ kinds T := by
  cases o <;> simp [kinds, BOp.all]
theorem mem_kinds_bool (T : PrecTable) (o : LOp) : (T.bool o, o.level) ∈ kinds T := by
  cases o <;> simp [kinds, LOp.all]
theorem mem_kinds_cmp (T : PrecTable) (o : COp) : (T.cmp o, 5) ∈ kinds T := by
  cases o <;> simp [kinds, COp.all]
theorem mem_kinds_ifExp (T : PrecTable) : (T.ifExp, 1) ∈ kinds T := by
  simp [kinds]

theorem parse_wrapIf (b : Bool) (d t : Doc) (n lvl : Nat) (h1 : 1 ≤ lvl)
    (hfit : b = false → n ≤ lvl) (hd : ∀ m, m ≤ lvl → parseDoc m d = some t) :
    parseDoc n (wrapIf b d) = some t := by
  cases b
  · simpa [wrapIf] using hd n (hfit rfl)
  · simpa [wrapIf, parseDoc] using hd 1 h1

theorem sequence_map_some {α} (l : List α) : sequence (l.map some) = some l := by
  induction l with
  | nil => rfl
  | cons x xs ih => simp [sequence, ih]

mutual
/-- well-formedness that CPython's parser guarantees: `and`/`or` have two operands or more, a
comparison has as many operators as right operands and at least one -/
def okA : AExpr → Bool
  | .name _ => true
  | .unary _ x => okA x
  | .binary _ l r => okA l && okA r
  | .boolop _ xs => decide (2 ≤ xs.length) && okAList xs
  | .compare l ops rs => decide (1 ≤ ops.length) && decide (ops.length = rs.length) && okA l && okAList rs
  | .ifExp b t o => okA b && okA t && okA o
def okAList : List AExpr → Bool
  | [] => true
  | x :: xs => okA x && okAList xs
end

theorem length_toDocAList (T : PrecTable) (pp : Nat) (xs : List AExpr) :
    (toDocAList T pp xs).length = xs.length := by
  induction xs with
  | nil => simp [toDocAList]
  | cons x xs ih => simp [toDocAList, ih]

-- the operand precedences astor hands down meet the grammar positions, for the live table
theorem rel_unary : ∀ o : UOp, Rel LT (LT.unary o) o.level = true := by
  intro o; cases o <;> decide +kernel
theorem rel_binL : ∀ o : BOp, Rel LT (if o = .pow then LT.bin .pow + 1 else LT.bin o) o.leftMin = true := by
  intro o; cases o <;> decide +kernel
theorem rel_binR : ∀ o : BOp, Rel LT (if o = .pow then LT.powRHS else LT.bin o + 1) o.rightMin = true := by
  intro o; cases o <;> decide +kernel
theorem rel_bool : ∀ o : LOp, Rel LT (LT.bool o + 1) (o.level + 1) = true := by
  intro o; cases o <;> decide +kernel
theorem rel_cmp : ∀ o : COp, Rel LT (LT.cmp o + 1) 6 = true := by
  intro o; cases o <;> decide +kernel
theorem rel_ifExp : Rel LT (LT.ifExp + 1) 2 = true ∧ Rel LT LT.ifExp 1 = true := by decide +kernel
theorem rel_highest (n : Nat) : Rel LT LT.highest n = true := by
  unfold Rel
  rw [List.all_eq_true]
  intro k hk
  have hall : ∀ k ∈ kinds LT, k.1 < LT.highest := by decide +kernel
  have := hall k hk
  have h2 : ¬ k.1 ≥ LT.highest := by omega
  simp [h2]

mutual
/-- the delegated fragment reads back as the source tree: astor's parentheses are sufficient -/
theorem parseA_ok :
    ∀ (a : AExpr) (pp n : Nat), okA a = true → Rel LT pp n = true →
      parseDoc n (toDocA LT pp a) = some (canonA a)
  | .name s, pp, n, _, _ => by simp [toDocA, canonA, parseDoc]
  | .unary op x, pp, n, hok, hrel => by
    simp only [okA] at hok
    rw [toDocA, canonA]
    refine parse_wrapIf _ _ _ n op.level (by cases op <;> decide) ?_ ?_
    · intro hb
      exact rel_use hrel (mem_kinds_unary LT op) (by simpa using hb)
    · intro m hm
      have ih := parseA_ok x (LT.unary op) op.level hok (rel_unary op)
      simp [parseDoc, hm, ih]
  | .binary op l r, pp, n, hok, hrel => by
    simp only [okA, Bool.and_eq_true] at hok
    rw [toDocA, canonA]
    refine parse_wrapIf _ _ _ n op.level (by cases op <;> decide) ?_ ?_
    · intro hb
      exact rel_use hrel (mem_kinds_bin LT op) (by simpa using hb)
    · intro m hm
      have ihl := parseA_ok l _ op.leftMin hok.1 (rel_binL op)
      have ihr := parseA_ok r _ op.rightMin hok.2 (rel_binR op)
      simp [parseDoc, hm, ihl, ihr]
  | .boolop op xs, pp, n, hok, hrel => by
    simp only [okA, Bool.and_eq_true, decide_eq_true_eq] at hok
    rw [toDocA, canonA]
    refine parse_wrapIf _ _ _ n op.level (by cases op <;> decide) ?_ ?_
    · intro hb
      exact rel_use hrel (mem_kinds_bool LT op) (by simpa using hb)
    · intro m hm
      have ih := parseAList_ok xs _ (op.level + 1) hok.2 (rel_bool op)
      simp [parseDoc, hm, ih, length_toDocAList, hok.1, sequence_map_some]
  | .compare l ops rs, pp, n, hok, hrel => by
    simp only [okA, Bool.and_eq_true, decide_eq_true_eq] at hok
    obtain ⟨⟨⟨h1, h2⟩, hl⟩, hrs⟩ := hok
    cases ops with
    | nil => simp at h1
    | cons op0 ops' =>
      rw [toDocA, canonA]
      refine parse_wrapIf _ _ _ n 5 (by decide) ?_ ?_
      · intro hb
        exact rel_use hrel (mem_kinds_cmp LT op0) (by simpa using hb)
      · intro m hm
        have ihl := parseA_ok l _ 6 hl (rel_cmp op0)
        have ihr := parseAList_ok rs _ 6 hrs (rel_cmp op0)
        simp [parseDoc, hm, ihl, ihr, length_toDocAList, sequence_map_some, ← h2]
  | .ifExp b t o, pp, n, hok, hrel => by
    simp only [okA, Bool.and_eq_true] at hok
    rw [toDocA, canonA]
    refine parse_wrapIf _ _ _ n 1 (by decide) ?_ ?_
    · intro hb
      exact rel_use hrel (mem_kinds_ifExp LT) (by simpa using hb)
    · intro m hm
      have ihb := parseA_ok b _ 2 hok.1.1 rel_ifExp.1
      have iht := parseA_ok t _ 2 hok.1.2 rel_ifExp.1
      have iho := parseA_ok o _ 1 hok.2 rel_ifExp.2
      simp [parseDoc, hm, ihb, iht, iho]
theorem parseAList_ok :
    ∀ (xs : List AExpr) (pp n : Nat), okAList xs = true → Rel LT pp n = true →
      parseEach n (toDocAList LT pp xs) = (canonAList xs).map some
  | [], pp, n, _, _ => by simp [toDocAList, canonAList, parseEach]
  | x :: xs, pp, n, hok, hrel => by
    simp only [okAList, Bool.and_eq_true] at hok
    simp [toDocAList, canonAList, parseEach, parseA_ok x pp n hok.1 hrel,
      parseAList_ok xs pp n hok.2 hrel]
end

/-! ### reading the `Doc` back: the natively coloured forms -/

/-- the table entry of an expression standing in an operand slot -/
def kidOf : Expr → Option Kid
  | .unary op _ => some (.unary op)
  | .binary op _ _ => some (.bin op)
  | .boolop op _ => some (.bool op)
  | _ => none

/-- an expression rendered under parent precedence `pp` can be read at grammar level `n`: either it
gets parentheses or its own level is high enough -/
def fits (T : PrecTable) (pp : Option Nat) (n : Nat) (e : Expr) : Bool :=
  match kidOf e with
  | none => true
  | some k => needParen pp (k.prec T) || decide (n ≤ Grammar.kidLevel k)

theorem fits_slot (s : Slot) (e : Expr) :
    fits LT (some (s.pp LT)) (Grammar.slotMin s) e = true := by
  unfold fits
  cases hk : kidOf e with
  | none => rfl
  | some k =>
    by_cases hl : Grammar.slotMin s ≤ Grammar.kidLevel k
    · simp [hl]
    · have hn : Grammar.needsParens s k = true := by
        simp only [Grammar.needsParens, decide_eq_true_eq]; omega
      have ht := paren_table s k hn
      simp only [decision] at ht
      simp [ht]

theorem fits_highest (n : Nat) (e : Expr) : fits LT (some LT.highest) n e = true := by
  unfold fits
  cases hk : kidOf e with
  | none => rfl
  | some k => simp [(paren_table_oversound k (Kid.mem_all k)).1]

theorem one_le_kidLevel (k : Kid) : 1 ≤ Grammar.kidLevel k := by
  cases k with
  | unary o => cases o <;> decide
  | bin o => cases o <;> decide
  | bool o => cases o <;> decide

theorem fits_one (pp : Option Nat) (e : Expr) : fits LT pp 1 e = true := by
  unfold fits
  cases hk : kidOf e with
  | none => rfl
  | some k => simp [one_le_kidLevel k]

mutual
/-- The trees for which the read-back theorem is proved.  Besides the shape CPython's parser
guarantees (operand counts, equal list lengths, `*x` only as an element or argument, keywords only
in calls), it EXCLUDES the inputs on which the current colourizer is wrong:
  * a one-element tuple (also as subscript index),
  * an empty tuple as subscript index,
  * a delegated node on which astor raised (`??`).
(`unlinked` is a historical constructor that no longer occurs: see `unstring_counterexample_old`.) -/
def okTree (T : PrecTable) (star : Bool) : Expr → Bool
  | .name _ => true
  | .dotted _ => true
  | .constNum _ => true
  | .constStr _ => true
  | .constBytes _ => true
  | .constName _ => true
  | .ellipsis => true
  | .opaque _ _ => true
  | .constInt _ => true
  | .unary _ x => okTree T false x
  | .binary _ l r => okTree T false l && okTree T false r
  | .boolop _ xs => decide (2 ≤ xs.length) && okList T false xs
  | .tuple xs => decide (xs.length ≠ 1) && okList T true xs
  | .list xs => okList T true xs
  | .set xs => okList T true xs
  | .dict ks vs => decide (ks.length = vs.length) && okKeys T ks && okList T false vs
  | .call f args kws => okTree T false f && okList T true args && okKws T kws
  | .keyword _ _ => false
  | .subscript v (.tuple elts) => okTree T false v && decide (2 ≤ elts.length) && okList T true elts
  | .subscript v s => okTree T false v && okTree T false s
  | .starred x => star && okTree T false x
  | .astor a => okA a
  | .unknown => false
  | .absent => false
  | .unlinked _ => false
def okList (T : PrecTable) (star : Bool) : List Expr → Bool
  | [] => true
  | x :: xs => okTree T star x && okList T star xs
def okKeys (T : PrecTable) : List Expr → Bool
  | [] => true
  | .absent :: ks => okKeys T ks
  | k :: ks => okTree T false k && okKeys T ks
def okKws (T : PrecTable) : List Expr → Bool
  | [] => true
  | .keyword _ v :: ks => okTree T false v && okKws T ks
  | _ :: _ => false
end

theorem length_toDocList (T : PrecTable) (pp : Option Nat) (xs : List Expr) :
    (toDocList T pp xs).length = xs.length := by
  induction xs with
  | nil => simp [toDocList]
  | cons x xs ih => simp [toDocList, ih]

theorem tag_of_ok (T : PrecTable) (star : Bool) (e : Expr) (h : okTree T star e = true) :
    e.tag ≠ 0 ∧ e.tag ≠ 2 ∧ (star = false → e.tag ≠ 1) := by
  cases e <;> simp_all [okTree, Expr.tag]

theorem isKeyword_eq (d : Doc) : d.isKeyword = decide (d.tag = 2) := by
  cases d <;> simp [Doc.isKeyword, Doc.tag]

theorem parseArgEach_cons_plain (d : Doc) (ds : List Doc) (h1 : d.tag ≠ 1) (h2 : d.tag ≠ 2) :
    parseArgEach (d :: ds) = parseDoc 1 d :: parseArgEach ds := by
  cases d <;> simp [Doc.tag] at h1 h2 <;> simp [parseArgEach]

theorem parseKeyEach_cons_present (d : Doc) (ds : List Doc) (h : d.tag ≠ 0) :
    parseKeyEach (d :: ds) = parseDoc 1 d :: parseKeyEach ds := by
  cases d <;> simp [Doc.tag] at h <;> simp [parseKeyEach]

theorem parse_subscript_plain (n : Nat) (v idx : Doc) (h : idx.tag = 4) :
    parseDoc n (.subscript v idx) =
      match parseDoc 15 v, parseDoc 1 idx with
      | some v', some i' => some (.subscript v' i')
      | _, _ => none := by
  cases idx <;> simp [Doc.tag] at h <;> (rw [parseDoc.eq_24] <;> (intros; first | rfl | simp_all))

theorem parse_subscript_bare (n : Nat) (v d1 d2 : Doc) (ds : List Doc) :
    parseDoc n (.subscript v (.bare (d1 :: d2 :: ds))) =
      if (d1 :: d2 :: ds).all (!·.isKeyword) then
        match parseDoc 15 v, sequence (parseArgEach (d1 :: d2 :: ds)) with
        | some v', some ds' => some (.subscript v' (.tuple ds' false))
        | _, _ => none
      else none := by
  rw [parseDoc.eq_22] <;> (intros; first | rfl | simp_all)

theorem parse_tuple_many (n : Nat) (d1 d2 : Doc) (ds : List Doc) :
    parseDoc n (.tuple (d1 :: d2 :: ds) false) =
      (sequence (parseEach 0 (d1 :: d2 :: ds))).map (Doc.tuple · false) := by
  simp [parseDoc]

theorem toDoc_subscript_plain (T : PrecTable) (pp : Option Nat) (v s : Expr)
    (h : ∀ elts, s ≠ .tuple elts) :
    toDoc T pp (.subscript v s) = .subscript (toDoc T (some T.highest) v) (toDoc T (some T.highest) s) := by
  cases s <;> simp_all [toDoc]

theorem okTree_subscript_plain (T : PrecTable) (star : Bool) (v s : Expr)
    (h : ∀ elts, s ≠ .tuple elts) :
    okTree T star (.subscript v s) = (okTree T false v && okTree T false s) := by
  cases s <;> simp_all [okTree]

theorem pickVals_cons_present (d : Doc) (ds : List Doc) (a b : Option Doc) (as bs : List (Option Doc))
    (h : d.tag ≠ 0) : pickVals (d :: ds) (a :: as) (b :: bs) = b :: pickVals ds as bs := by
  cases d <;> simp [Doc.tag] at h <;> simp [pickVals]

theorem pickDocs_cons_present (k : Expr) (ks : List Expr) (c h : Doc) (cs hs : List Doc)
    (hk : k.tag ≠ 0) : pickDocs (k :: ks) (c :: cs) (h :: hs) = c :: pickDocs ks cs hs := by
  cases k <;> simp [Expr.tag] at hk <;> simp [pickDocs]

theorem length_pickDocs (ks : List Expr) (cs hs : List Doc) (h1 : ks.length = cs.length)
    (h2 : cs.length = hs.length) : (pickDocs ks cs hs).length = ks.length := by
  induction ks generalizing cs hs with
  | nil => simp [pickDocs]
  | cons k ks ih =>
    cases cs with
    | nil => simp at h1
    | cons c cs =>
      cases hs with
      | nil => simp at h2
      | cons h hs =>
        simp only [List.length_cons, Nat.add_right_cancel_iff] at h1 h2
        simp [pickDocs, ih cs hs h1 h2]

theorem parseArgEach_append_plain (a b : List Doc) :
    parseArgEach (a ++ b) = parseArgEach a ++ parseArgEach b := by
  induction a with
  | nil => simp [parseArgEach]
  | cons d ds ih =>
    cases d <;> simp [parseArgEach, ih]

theorem argsOrdered_append (a b : List Doc) (ha : ∀ d ∈ a, d.isKeyword = false)
    (hb : ∀ d ∈ b, d.isKeyword = true) : argsOrdered (a ++ b) = true := by
  induction a with
  | nil =>
    cases b with
    | nil => simp [argsOrdered]
    | cons d ds =>
      simp only [List.nil_append, argsOrdered, hb d (by simp), if_true, List.all_eq_true]
      intro x hx; exact hb x (by simp [hx])
  | cons d ds ih =>
    simp only [List.cons_append, argsOrdered, ha d (by simp)]
    exact ih (fun x hx => ha x (by simp [hx]))

theorem derives_args_nokw (xs : List Expr) (hok : okList LT true xs = true) :
    ∀ d ∈ toDocList LT (some LT.highest) xs, d.isKeyword = false := by
  induction xs with
  | nil => simp [toDocList]
  | cons x xs ih =>
    simp only [okList, Bool.and_eq_true] at hok
    intro d hd
    simp only [toDocList, List.mem_cons] at hd
    rcases hd with rfl | hd
    · rw [isKeyword_eq, tag_toDoc]; simp [(tag_of_ok LT true x hok.1).2.1]
    · exact ih hok.2 d hd

theorem derives_kws_allkw (ks : List Expr) (hok : okKws LT ks = true) :
    ∀ d ∈ toDocList LT (some LT.highest) ks, d.isKeyword = true := by
  induction ks with
  | nil => simp [toDocList]
  | cons k ks ih =>
    cases k <;> simp [okKws] at hok
    intro d hd
    simp only [toDocList, List.mem_cons] at hd
    rcases hd with rfl | hd
    · simp [toDoc, Doc.isKeyword]
    · exact ih hok.2 d hd

mutual
theorem renderA_some (T : PrecTable) : ∀ (a : AExpr) (pp : Nat), okA a = true → ∃ t, renderA T pp a = some t
  | .name s, pp, _ => ⟨s, by simp [renderA]⟩
  | .unary op x, pp, h => by
    simp only [okA] at h
    obtain ⟨t, ht⟩ := renderA_some T x (T.unary op) h
    simp [renderA, ht]
  | .binary op l r, pp, h => by
    simp only [okA, Bool.and_eq_true] at h
    obtain ⟨tl, hl⟩ := renderA_some T l (if op = .pow then T.bin .pow + 1 else T.bin op) h.1
    obtain ⟨tr, hr⟩ := renderA_some T r (if op = .pow then T.powRHS else T.bin op + 1) h.2
    simp [renderA, hl, hr]
  | .boolop op xs, pp, h => by
    simp only [okA, Bool.and_eq_true] at h
    obtain ⟨ts, hts⟩ := renderAList_some T xs (T.bool op + 1) h.2
    simp [renderA, hts]
  | .compare l ops rs, pp, h => by
    simp only [okA, Bool.and_eq_true, decide_eq_true_eq] at h
    obtain ⟨⟨⟨h1, _⟩, hl⟩, hrs⟩ := h
    cases ops with
    | nil => simp at h1
    | cons op0 ops' =>
      obtain ⟨tl, htl⟩ := renderA_some T l (T.cmp op0 + 1) hl
      obtain ⟨ts, hts⟩ := renderAList_some T rs (T.cmp op0 + 1) hrs
      simp [renderA, htl, hts]
  | .ifExp b t o, pp, h => by
    simp only [okA, Bool.and_eq_true] at h
    obtain ⟨tb, hb⟩ := renderA_some T b (T.ifExp + 1) h.1.1
    obtain ⟨tt, ht⟩ := renderA_some T t (T.ifExp + 1) h.1.2
    obtain ⟨to, ho⟩ := renderA_some T o T.ifExp h.2
    simp [renderA, hb, ht, ho]
theorem renderAList_some (T : PrecTable) :
    ∀ (xs : List AExpr) (pp : Nat), okAList xs = true → ∃ ts, renderAList T pp xs = some ts
  | [], pp, _ => ⟨[], by simp [renderAList]⟩
  | x :: xs, pp, h => by
    simp only [okAList, Bool.and_eq_true] at h
    obtain ⟨t, ht⟩ := renderA_some T x pp h.1
    obtain ⟨ts, hts⟩ := renderAList_some T xs pp h.2
    simp [renderAList, ht, hts]
end

mutual
/-- core of the read-back theorem: an expression coloured under parent precedence `pp`, read at a
grammar level `n` it `fits`, is the source tree -/
theorem derives_core (e : Expr) (pp : Option Nat) (n : Nat) (star : Bool)
    (hok : okTree LT star e = true) (htag : e.tag = 1 → n = 0) (hfit : fits LT pp n e = true) :
    parseDoc n (toDoc LT pp e) = some (canon e) := by
  match e, hok, htag, hfit with
  | .name s, _, _, _ => simp [toDoc, canon, parseDoc]
  | .dotted ps, _, _, _ => simp [toDoc, canon, parseDoc]
  | .constNum t, _, _, _ => simp [toDoc, canon, parseDoc]
  | .constStr s, _, _, _ => simp [toDoc, canon, parseDoc]
  | .constBytes b, _, _, _ => simp [toDoc, canon, parseDoc]
  | .constName k, _, _, _ => simp [toDoc, canon, parseDoc]
  | .ellipsis, _, _, _ => simp [toDoc, canon, parseDoc]
  | .opaque t w, _, _, _ => simp [toDoc, canon, parseDoc]
  | .constInt k, _, _, _ => simp [toDoc, canon, parseDoc]
  | .unknown, hok, _, _ => simp [okTree] at hok
  | .absent, hok, _, _ => simp [okTree] at hok
  | .keyword a v, hok, _, _ => simp [okTree] at hok
  | .unary op x, hok, _, hfit =>
    simp only [okTree] at hok
    rw [toDoc, canon]
    refine parse_wrapIf _ _ _ n op.level (by cases op <;> decide) ?_ ?_
    · intro hb
      have hfit' := hfit
      simp [fits, kidOf, Kid.prec, Grammar.kidLevel, hb] at hfit'
      exact of_decide_eq_true hfit'
    · intro m hm
      have hf := fits_slot (.unary op) x
      have ih := derives_core x (some (LT.unary op)) op.level false hok
        (fun h => absurd h ((tag_of_ok LT false x hok).2.2 rfl)) (by simpa [Slot.pp, Grammar.slotMin] using hf)
      simp [parseDoc, hm, ih]
  | .binary op l r, hok, _, hfit =>
    simp only [okTree, Bool.and_eq_true] at hok
    obtain ⟨hl, hr⟩ := hok
    rw [toDoc, canon]
    refine parse_wrapIf _ _ _ n op.level (by cases op <;> decide) ?_ ?_
    · intro hb
      have hfit' := hfit
      simp [fits, kidOf, Kid.prec, Grammar.kidLevel, hb] at hfit'
      exact of_decide_eq_true hfit'
    · intro m hm
      have hfl := fits_slot (.binL op) l
      have hfr := fits_slot (.binR op) r
      have ihl := derives_core l (some (LT.bin op + (if op = .pow then 1 else 0))) op.leftMin false hl
        (fun h => absurd h ((tag_of_ok LT false l hl).2.2 rfl))
        (by simpa [Slot.pp, Grammar.slotMin] using hfl)
      have ihr := derives_core r (some (LT.bin op + 1)) op.rightMin false hr
        (fun h => absurd h ((tag_of_ok LT false r hr).2.2 rfl))
        (by simpa [Slot.pp, Grammar.slotMin] using hfr)
      simp [parseDoc, hm, ihl, ihr]
  | .boolop op xs, hok, _, hfit =>
    simp only [okTree, Bool.and_eq_true, decide_eq_true_eq] at hok
    rw [toDoc, canon]
    refine parse_wrapIf _ _ _ n op.level (by cases op <;> decide) ?_ ?_
    · intro hb
      have hfit' := hfit
      simp [fits, kidOf, Kid.prec, Grammar.kidLevel, hb] at hfit'
      exact of_decide_eq_true hfit'
    · intro m hm
      have ih := derives_each xs (some (LT.bool op + 1)) (op.level + 1) false hok.2 (by simp)
        (fun x _ => by
          have hf := fits_slot (.boolArg op) x
          simpa [Slot.pp, Grammar.slotMin] using hf)
      simp [parseDoc, hm, ih, length_toDocList, hok.1, sequence_map_some]
  | .list xs, hok, _, _ =>
    simp only [okTree] at hok
    have ih := derives_each xs (some LT.highest) 0 true hok (fun _ => rfl)
      (fun x _ => fits_highest 0 x)
    simp [toDoc, canon, parseDoc, ih, sequence_map_some]
  | .set xs, hok, _, _ =>
    simp only [okTree] at hok
    have ih := derives_each xs (some LT.highest) 0 true hok (fun _ => rfl)
      (fun x _ => fits_highest 0 x)
    simp [toDoc, canon, parseDoc, ih, sequence_map_some]
  | .tuple xs, hok, _, _ =>
    simp only [okTree, Bool.and_eq_true, decide_eq_true_eq] at hok
    have ih := derives_each xs (some LT.highest) 0 true hok.2 (fun _ => rfl)
      (fun x _ => fits_highest 0 x)
    match xs, hok, ih with
    | [], _, _ => simp [toDoc, toDocList, canon, canonList, parseDoc]
    | [x], hok, _ => simp at hok
    | x :: y :: rest, _, ih =>
      simp only [toDoc, toDocList, canon] at ih ⊢
      rw [parse_tuple_many, ih, sequence_map_some]; rfl
  | .dict ks vs, hok, _, _ =>
    simp only [okTree, Bool.and_eq_true, decide_eq_true_eq] at hok
    obtain ⟨⟨hlen, hks⟩, hvs⟩ := hok
    have ihk := derives_keys ks hks
    have ihv := derives_vals ks vs hlen hvs
    have hl : (toDocList LT (some LT.highest) ks).length =
        (pickDocs ks (toDocList LT (some LT.comma) vs) (toDocList LT (some LT.highest) vs)).length := by
      rw [length_pickDocs _ _ _ (by simp [length_toDocList, hlen]) (by simp [length_toDocList]),
        length_toDocList]
    simp [toDoc, canon, parseDoc, hl, ihk, ihv, sequence_map_some]
  | .call f args kws, hok, _, _ =>
    simp only [okTree, Bool.and_eq_true] at hok
    obtain ⟨⟨hf, hargs⟩, hkws⟩ := hok
    have ihf := derives_core f (some LT.highest) 15 false hf
      (fun h => absurd h ((tag_of_ok LT false f hf).2.2 rfl)) (fits_highest 15 f)
    have iha := derives_args args hargs
    have ihk := derives_kws kws hkws
    have hord : argsOrdered (toDocList LT (some LT.highest) args ++ toDocList LT (some LT.highest) kws) = true := by
      apply argsOrdered_append
      · exact derives_args_nokw args hargs
      · exact derives_kws_allkw kws hkws
    simp [toDoc, canon, parseDoc, hord, ihf, parseArgEach_append_plain, iha, ihk, ← List.map_append,
      sequence_map_some]
  | .subscript v s, hok, _, _ =>
    by_cases ht : ∃ elts, s = .tuple elts
    · obtain ⟨elts, rfl⟩ := ht
      simp only [okTree, Bool.and_eq_true, decide_eq_true_eq] at hok
      obtain ⟨⟨hv, hlen⟩, helts⟩ := hok
      have ihv := derives_core v (some LT.highest) 15 false hv
        (fun h => absurd h ((tag_of_ok LT false v hv).2.2 rfl)) (fits_highest 15 v)
      have ihe := derives_args elts helts
      have hnk := derives_args_nokw elts helts
      match elts, hlen, ihe, hnk with
      | x :: y :: rest, _, ihe, hnk =>
        simp only [toDoc, toDocList, canon] at ihe hnk ⊢
        rw [parse_subscript_bare]
        have : (toDoc LT (some LT.highest) x :: toDoc LT (some LT.highest) y ::
            toDocList LT (some LT.highest) rest).all (!·.isKeyword) = true := by
          rw [List.all_eq_true]; intro d hd; simp [hnk d hd]
        rw [if_pos this, ihv, ihe, sequence_map_some]
    · have ht' : ∀ elts, s ≠ .tuple elts := fun elts h => ht ⟨elts, h⟩
      rw [okTree_subscript_plain _ _ _ _ ht'] at hok
      simp only [Bool.and_eq_true] at hok
      have ihv := derives_core v (some LT.highest) 15 false hok.1
        (fun h => absurd h ((tag_of_ok LT false v hok.1).2.2 rfl)) (fits_highest 15 v)
      have ihs := derives_core s (some LT.highest) 1 false hok.2
        (fun h => absurd h ((tag_of_ok LT false s hok.2).2.2 rfl)) (fits_highest 1 s)
      have hts : (toDoc LT (some LT.highest) s).tag = 4 := by
        rw [tag_toDoc]
        have := tag_of_ok LT false s hok.2
        cases s <;> simp_all [Expr.tag]
      rw [toDoc_subscript_plain _ _ _ _ ht', parse_subscript_plain _ _ _ hts, ihv, ihs, canon]
  | .starred x, hok, htag, _ =>
    simp only [okTree, Bool.and_eq_true] at hok
    have hn : n = 0 := htag (by simp [Expr.tag])
    subst hn
    have ih := derives_core x (some LT.highest) 6 false hok.2
      (fun h => absurd h ((tag_of_ok LT false x hok.2).2.2 rfl)) (fits_highest 6 x)
    simp [toDoc, canon, parseDoc, ih]
  | .unlinked e', hok, _, _ => simp [okTree] at hok
  | .astor a, hok, _, _ =>
    simp only [okTree] at hok
    have h := parseA_ok a LT.highest n hok (rel_highest n)
    have hr : ∃ t, renderA LT LT.highest a = some t := renderA_some LT a LT.highest hok
    obtain ⟨t, ht⟩ := hr
    simp [toDoc, canon, ht, h]
termination_by sizeOf e

theorem derives_each (xs : List Expr) (pp : Option Nat) (n : Nat) (star : Bool)
    (hok : okList LT star xs = true) (hst : star = true → n = 0)
    (hfit : ∀ x ∈ xs, fits LT pp n x = true) :
    parseEach n (toDocList LT pp xs) = (canonList xs).map some := by
  match xs, hok, hfit with
  | [], _, _ => simp [toDocList, canonList, parseEach]
  | x :: xs, hok, hfit =>
    simp only [okList, Bool.and_eq_true] at hok
    have ih1 := derives_core x pp n star hok.1
      (fun h => by
        cases star with
        | true => exact hst rfl
        | false => exact absurd h ((tag_of_ok LT false x hok.1).2.2 rfl))
      (hfit x (by simp))
    have ih2 := derives_each xs pp n star hok.2 hst (fun y hy => hfit y (by simp [hy]))
    simp [toDocList, canonList, parseEach, ih1, ih2]
termination_by sizeOf xs

theorem derives_args (xs : List Expr) (hok : okList LT true xs = true) :
    parseArgEach (toDocList LT (some LT.highest) xs) = (canonList xs).map some := by
  match xs, hok with
  | [], _ => simp [toDocList, canonList, parseArgEach]
  | x :: xs, hok =>
    simp only [okList, Bool.and_eq_true] at hok
    have ih2 := derives_args xs hok.2
    by_cases hs : ∃ y, x = .starred y
    · obtain ⟨y, rfl⟩ := hs
      have hy : okTree LT false y = true := by
        have := hok.1; simp only [okTree, Bool.and_eq_true] at this; exact this.2
      have ih1 := derives_core y (some LT.highest) 1 false hy
        (fun h => absurd h ((tag_of_ok LT false y hy).2.2 rfl)) (fits_highest 1 y)
      simp [toDocList, toDoc, canonList, canon, parseArgEach, ih1, ih2]
    · have htag := tag_of_ok LT true x hok.1
      have h1 : x.tag ≠ 1 := by
        intro h; apply hs; cases x <;> simp [Expr.tag] at h; exact ⟨_, rfl⟩
      have ih1 := derives_core x (some LT.highest) 1 true hok.1 (fun h => absurd h h1)
        (fits_highest 1 x)
      rw [toDocList, parseArgEach_cons_plain _ _ (by rw [tag_toDoc]; exact h1)
        (by rw [tag_toDoc]; exact htag.2.1), ih1, ih2]
      simp [canonList]
termination_by sizeOf xs

theorem derives_kws (ks : List Expr) (hok : okKws LT ks = true) :
    parseArgEach (toDocList LT (some LT.highest) ks) = (canonList ks).map some := by
  match ks, hok with
  | [], _ => simp [toDocList, canonList, parseArgEach]
  | .keyword a v :: ks, hok =>
    simp only [okKws, Bool.and_eq_true] at hok
    have ih1 := derives_core v (some LT.highest) 1 false hok.1
      (fun h => absurd h ((tag_of_ok LT false v hok.1).2.2 rfl)) (fits_highest 1 v)
    have ih2 := derives_kws ks hok.2
    simp [toDocList, toDoc, canonList, canon, parseArgEach, ih1, ih2]
  | .name _ :: _, hok => simp [okKws] at hok
  | .dotted _ :: _, hok => simp [okKws] at hok
  | .constInt _ :: _, hok => simp [okKws] at hok
  | .constNum _ :: _, hok => simp [okKws] at hok
  | .constStr _ :: _, hok => simp [okKws] at hok
  | .constBytes _ :: _, hok => simp [okKws] at hok
  | .constName _ :: _, hok => simp [okKws] at hok
  | .ellipsis :: _, hok => simp [okKws] at hok
  | .unary _ _ :: _, hok => simp [okKws] at hok
  | .binary _ _ _ :: _, hok => simp [okKws] at hok
  | .boolop _ _ :: _, hok => simp [okKws] at hok
  | .tuple _ :: _, hok => simp [okKws] at hok
  | .list _ :: _, hok => simp [okKws] at hok
  | .set _ :: _, hok => simp [okKws] at hok
  | .dict _ _ :: _, hok => simp [okKws] at hok
  | .call _ _ _ :: _, hok => simp [okKws] at hok
  | .subscript _ _ :: _, hok => simp [okKws] at hok
  | .starred _ :: _, hok => simp [okKws] at hok
  | .astor _ :: _, hok => simp [okKws] at hok
  | .opaque _ _ :: _, hok => simp [okKws] at hok
  | .unknown :: _, hok => simp [okKws] at hok
  | .absent :: _, hok => simp [okKws] at hok
  | .unlinked _ :: _, hok => simp [okKws] at hok
termination_by sizeOf ks

theorem derives_keys (ks : List Expr) (hok : okKeys LT ks = true) :
    parseKeyEach (toDocList LT (some LT.highest) ks) = (canonList ks).map some := by
  match ks, hok with
  | [], _ => simp [toDocList, canonList, parseKeyEach]
  | k :: ks, hok =>
    by_cases hk : k = .absent
    · subst hk
      simp only [okKeys] at hok
      have ih2 := derives_keys ks hok
      simp [toDocList, toDoc, canonList, canon, parseKeyEach, ih2]
    · have hok' : okTree LT false k = true ∧ okKeys LT ks = true := by
        cases k <;> simp_all [okKeys]
      have ih1 := derives_core k (some LT.highest) 1 false hok'.1
        (fun h => absurd h ((tag_of_ok LT false k hok'.1).2.2 rfl)) (fits_highest 1 k)
      have ih2 := derives_keys ks hok'.2
      rw [toDocList, parseKeyEach_cons_present _ _
        (by rw [tag_toDoc]; exact (tag_of_ok LT false k hok'.1).1), ih1, ih2]
      simp [canonList]
termination_by sizeOf ks

theorem derives_vals (ks vs : List Expr) (hlen : ks.length = vs.length)
    (hok : okList LT false vs = true) :
    pickVals (toDocList LT (some LT.highest) ks)
      (parseEach 6 (pickDocs ks (toDocList LT (some LT.comma) vs) (toDocList LT (some LT.highest) vs)))
      (parseEach 1 (pickDocs ks (toDocList LT (some LT.comma) vs) (toDocList LT (some LT.highest) vs)))
      = (canonList vs).map some := by
  match ks, vs, hlen, hok with
  | [], [], _, _ => simp [toDocList, pickDocs, parseEach, pickVals, canonList]
  | [], _ :: _, hlen, _ => simp at hlen
  | _ :: _, [], hlen, _ => simp at hlen
  | k :: ks, v :: vs, hlen, hok =>
    simp only [okList, Bool.and_eq_true] at hok
    simp only [List.length_cons, Nat.add_right_cancel_iff] at hlen
    have ih2 := derives_vals ks vs hlen hok.2
    by_cases hk : k = .absent
    · subst hk
      have ih1 := derives_core v (some LT.highest) 6 false hok.1
        (fun h => absurd h ((tag_of_ok LT false v hok.1).2.2 rfl)) (fits_highest 6 v)
      simp [toDocList, toDoc, pickDocs, parseEach, pickVals, canonList, ih1, ih2]
    · have hkt : k.tag ≠ 0 := by cases k <;> simp_all [Expr.tag]
      have ih1 := derives_core v (some LT.comma) 1 false hok.1
        (fun h => absurd h ((tag_of_ok LT false v hok.1).2.2 rfl)) (fits_one _ v)
      simp only [toDocList, canonList, List.map_cons]
      rw [pickDocs_cons_present _ _ _ _ _ _ hkt]
      simp only [parseEach]
      rw [pickVals_cons_present _ _ _ _ _ _ (by rw [tag_toDoc]; exact hkt), ih1, ih2]
termination_by sizeOf vs
end

/-! ## 4. the read-back theorems -/

/- Full statement (FALSE for the current code, see the counterexamples below): for every tree of the
shape CPython's parser produces, the displayed text, read by Python's grammar, is the source tree:

theorem render_groups (e : Expr) (h : wellShaped e) :
    ∃ d : Doc, d.flatten = render LT e ∧ parseDoc 1 d = some (canon e)

It holds on `okTree`, which is `wellShaped` minus the exclusions listed at `okTree` (one-element
tuples, the empty tuple index, `??`). -/

/-- **Pyval.render_groups_partial**: the text `colorize_inline_pyval` shows is the spelling of a
concrete syntax tree that Python's grammar reads back as the source expression — operator
grouping, tuple-ness, argument order, stars and keywords included — for every tree in `okTree`. -/
theorem render_groups_partial (e : Expr) (h : okTree LT false e = true) :
    ∃ d : Doc, d.flatten = render LT e ∧ parseDoc 1 d = some (canon e) :=
  ⟨toDoc LT none e, (render_eq_flatten LT e).symm,
    derives_core e none 1 false h (fun ht => absurd ht ((tag_of_ok LT false e h).2.2 rfl))
      (fits_one none e)⟩

section examples
private def a : Expr := .name ['a']
private def b : Expr := .name ['b']
private def c : Expr := .name ['c']
private def one : Expr := .constInt 1

/-- non-vacuity: nested operators of every kind, a call with `*`/`**`/keyword arguments, a dict with
`**`, a two-element tuple, a subscript with an index list, a delegated comparison -/
example : okTree LT false
    (.binary .mult (.binary .add a (.unary .usub b))
      (.call (.name ['f']) [.tuple [a, .boolop .or [b, c]], .starred c]
        [.keyword (some ['k']) (.dict [a, .absent] [.binary .pow b c, c]),
         .keyword none (.subscript a (.tuple [b, .astor (.compare (.name ['x']) [.lt] [.name ['y']])]))])) = true := by
  decide +kernel

example : render LT
    (.binary .mult (.binary .add a (.unary .usub b))
      (.call (.name ['f']) [.tuple [a, .boolop .or [b, c]], .starred c]
        [.keyword (some ['k']) (.dict [a, .absent] [.binary .pow b c, c]),
         .keyword none (.subscript a (.tuple [b, .astor (.compare (.name ['x']) [.lt] [.name ['y']])]))]))
    = "(a+-b)*f((a, (b or c)), *c, k={a: b**c, **c}, **a[b, (x < y)])".toList := by
  decide +kernel

/-- since b6b97a7: `a-(b-c)`, `a/(b*c)`, `a-(b+c)` keep their parentheses, are inside `okTree`, and
differ from `(a-b)-c` … (the HISTORICAL table-level counterexample is `paren_table_old_counterexample`) -/
example :
    render LT (.binary .sub a (.binary .sub b c)) = "a-(b-c)".toList ∧
    render LT (.binary .sub (.binary .sub a b) c) = "a-b-c".toList ∧
    render LT (.binary .div a (.binary .mult b c)) = "a/(b*c)".toList ∧
    render LT (.binary .sub a (.binary .add b c)) = "a-(b+c)".toList ∧
    render LT (.binary .pow a (.binary .pow b c)) = "a**(b**c)".toList ∧
    okTree LT false (.binary .sub a (.binary .sub b c)) = true := by
  refine ⟨?_, ?_, ?_, ?_, ?_, ?_⟩ <;> decide +kernel

/-- what keeps the full statement false: a one-element tuple has the text of a parenthesised group
(`(a,)` is displayed as `(a)`, which reads back as `a`), and an empty tuple index leaves `x[]` -/
theorem render_groups_counterexample :
    render LT (.tuple [a]) = "(a)".toList ∧
    parseDoc 1 (toDoc LT none (.tuple [a])) = some (.atom ['a']) ∧
    okTree LT false (.tuple [a]) = false ∧
    render LT (.subscript (.name ['x']) (.tuple [])) = "x[]".toList ∧
    parseDoc 1 (toDoc LT none (.subscript (.name ['x']) (.tuple []))) = none ∧
    okTree LT false (.subscript (.name ['x']) (.tuple [])) = false := by
  refine ⟨?_, ?_, ?_, ?_, ?_, ?_⟩ <;> first | decide +kernel | rfl

/- Full statement (FALSE for the current code): a tuple is displayed as a tuple in every context:

theorem tuple_kept (xs : List Expr) (pp : Option Nat) (n : Nat) (h : okList LT true xs = true) :
    parseDoc n (toDoc LT pp (.tuple xs)) = some (.tuple (canonList xs) false) -/

/-- **Pyval.tuple_kept_partial**: holds for every tuple whose length is not one -/
theorem tuple_kept_partial (xs : List Expr) (pp : Option Nat) (n : Nat)
    (hlen : xs.length ≠ 1) (h : okList LT true xs = true) :
    parseDoc n (toDoc LT pp (.tuple xs)) = some (.tuple (canonList xs) false) := by
  have := derives_core (.tuple xs) pp n false (by simp [okTree, hlen, h]) (by simp [Expr.tag])
    (by simp [fits, kidOf])
  simpa [canon] using this

example : parseDoc 0 (toDoc LT (some LT.highest) (.tuple [a, .tuple [], .starred b])) =
    some (.tuple [.atom ['a'], .tuple [] false, .starred (.atom ['b'])] false) :=
  tuple_kept_partial _ _ _ (by decide) (by decide +kernel)

/-- `(a,)` is displayed as `(a)`, `x[1,]` as `x[1]`, `f((1,))` as `f((1))`, `x[()]` as `x[]`,
`(*a,)` as `(*a)`: the comma is never written, and Python reads a group / a plain index / nothing. -/
theorem tuple_kept_counterexample :
    render LT (.tuple [a]) = "(a)".toList ∧
    parseDoc 1 (toDoc LT none (.tuple [a])) = some (.atom ['a']) ∧
    render LT (.subscript (.name ['x']) (.tuple [one])) = "x[1]".toList ∧
    parseDoc 1 (toDoc LT none (.subscript (.name ['x']) (.tuple [one]))) =
      some (.subscript (.atom ['x']) (.atom ['1'])) ∧
    render LT (.call (.name ['f']) [.tuple [one]] []) = "f((1))".toList ∧
    parseDoc 1 (toDoc LT none (.call (.name ['f']) [.tuple [one]] [])) =
      some (.call (.atom ['f']) [.atom ['1']]) ∧
    render LT (.subscript (.name ['x']) (.tuple [])) = "x[]".toList ∧
    parseDoc 1 (toDoc LT none (.subscript (.name ['x']) (.tuple []))) = none ∧
    render LT (.tuple [.starred a]) = "(*a)".toList ∧
    parseDoc 1 (toDoc LT none (.tuple [.starred a])) = none := by
  refine ⟨?_, ?_, ?_, ?_, ?_, ?_, ?_, ?_, ?_, ?_⟩ <;> first | decide +kernel | rfl

/-- HISTORICAL (before a1c047d, when `unstring_annotation` spliced parsed strings in without parent
links): `"a | b" & c` was displayed as `a|b&c`, the text of `a | (b & c)`; `-"a + b"` as `-a+b`;
`"a or b" and c` as `a or b and c`.  With the links restored the same trees keep their parentheses. -/
theorem unstring_counterexample_old :
    render LT (.binary .bitAnd (.unlinked (.binary .bitOr a b)) c) = "a|b&c".toList ∧
    render LT (.binary .bitOr a (.binary .bitAnd b c)) = "a|b&c".toList ∧
    render LT (.unary .usub (.unlinked (.binary .add a b))) = "-a+b".toList ∧
    render LT (.boolop .and [.unlinked (.boolop .or [a, b]), c]) = "a or b and c".toList ∧
    render LT (.binary .bitAnd (.binary .bitOr a b) c) = "(a|b)&c".toList ∧
    render LT (.unary .usub (.binary .add a b)) = "-(a+b)".toList ∧
    okTree LT false (.binary .bitAnd (.binary .bitOr a b) c) = true := by
  refine ⟨?_, ?_, ?_, ?_, ?_, ?_, ?_⟩ <;> decide +kernel

end examples

/-- what a documentation run shows for a list of uses (annotations, defaults, … in any order) -/
def renderUses (T : PrecTable) (uses : List Expr) : List (List Char) := uses.map (render T)

/-- **Pyval.render_use_independent**: in the model every use is its own tree, so what is displayed
for one use depends neither on the other uses nor on the order in which they are rendered (the
`sequence` stream holds the real pipeline to that: shared, mutated sub-trees — e.g. a cached parse
of a string annotation whose parent link is that of its last use — show up as a disagreement) -/
theorem render_use_independent (T : PrecTable) (before after before' after' : List Expr) (e : Expr) :
    (renderUses T (before ++ e :: after))[before.length]? = some (render T e) ∧
    (renderUses T (before ++ e :: after))[before.length]? =
      (renderUses T (before' ++ e :: after'))[before'.length]? := by
  simp [renderUses]

example : renderUses LT [.binary .bitAnd (.name ['F']) (.binary .bitOr (.name ['R']) (.name ['W'])),
      .binary .bitOr (.name ['R']) (.name ['W'])] = ["F&(R|W)".toList, "R|W".toList] := by decide +kernel

/-! ## 4b. values assembled by the builder: `X = first; X op= rhs; …` -/

/-- the expression Python computes for `X = first` followed by `X op= rhs` statements -/
def augFold (first : Expr) (steps : List (BOp × Expr)) : Expr :=
  steps.foldl (fun acc s => .binary s.1 acc s.2) first

/-- `_storeAttrValue` over a plain assignment followed by augmented assignments stores exactly that
expression (left-nested `BinOp`s, in statement order) -/
theorem storeAll_aug (first : Expr) (steps : List (BOp × Expr)) :
    storeAll none ((none, first) :: steps.map (fun s => (some s.1, s.2))) = some (augFold first steps) := by
  simp only [storeAll, storeAttrValue]
  induction steps generalizing first with
  | nil => simp [storeAll, augFold]
  | cons s rest ih =>
    simp only [List.map_cons, storeAll, storeAttrValue, augFold, List.foldl_cons]
    exact ih (.binary s.1 first s.2)

theorem okTree_augFold (first : Expr) (steps : List (BOp × Expr))
    (h1 : okTree LT false first = true) (h2 : ∀ s ∈ steps, okTree LT false s.2 = true) :
    okTree LT false (augFold first steps) = true := by
  induction steps generalizing first with
  | nil => simpa [augFold] using h1
  | cons s rest ih =>
    simp only [augFold, List.foldl_cons]
    exact ih (.binary s.1 first s.2) (by simp [okTree, h1, h2 s (by simp)])
      (fun x hx => h2 x (by simp [hx]))

/-- **Pyval.aug_value_reads_back**: the value the builder stores for `X = first; X op₁= r₁; …` is
displayed as a text that Python reads back as `((first op₁ r₁) op₂ r₂) …` — the parentheses the
statement boundaries stood for are written (`SIZE = BASE + 1; SIZE *= 2` → `(BASE+1)*2`) -/
theorem aug_value_reads_back (first : Expr) (steps : List (BOp × Expr))
    (h1 : okTree LT false first = true) (h2 : ∀ s ∈ steps, okTree LT false s.2 = true) :
    ∃ v, storeAll none ((none, first) :: steps.map (fun s => (some s.1, s.2))) = some v ∧
      ∃ d : Doc, d.flatten = render LT v ∧ parseDoc 1 d = some (canon (augFold first steps)) := by
  refine ⟨_, storeAll_aug first steps, ?_⟩
  exact render_groups_partial _ (okTree_augFold first steps h1 h2)

example :
    (storeAll none [(none, .binary .add (.name "BASE".toList) (.constInt 1)), (some .mult, .constInt 2)]).map (render LT)
      = some "(BASE+1)*2".toList ∧
    (storeAll none [(none, .constInt 100), (some .sub, .binary .sub (.name ['a']) (.name ['b']))]).map (render LT)
      = some "100-(a-b)".toList ∧
    storeAll none [(some .add, .constInt 1)] = none := by
  refine ⟨?_, ?_, ?_⟩ <;> decide +kernel

/-! ## 5. line wrapping and truncation are marked

`unwrap` removes the continuation markers from a result list: every `LINEWRAP` item together with
the `NEWLINE` that follows it.  What remains are the characters the colourizer handed to `_output`. -/

def Item.raw : Item → List Char
  | .text s => s
  | .elem _ s => s
  | .wbr => []
  | .newline => ['\n']

/-- `skip`: the previous item was a `LINEWRAP` -/
def unwrapAux : Bool → List Item → List Char
  | _, [] => []
  | _, .elem .linewrap _ :: rest => unwrapAux true rest
  | true, .newline :: rest => unwrapAux false rest
  | false, .newline :: rest => '\n' :: unwrapAux false rest
  | _, it :: rest => it.raw ++ unwrapAux false rest

def unwrap (l : List Item) : List Char := unwrapAux false l

def pendingAux : Bool → List Item → Bool
  | b, [] => b
  | _, .elem .linewrap _ :: rest => pendingAux true rest
  | _, _ :: rest => pendingAux false rest

def pending (l : List Item) : Bool := pendingAux false l

theorem unwrapAux_append (b : Bool) (l m : List Item) :
    unwrapAux b (l ++ m) = unwrapAux b l ++ unwrapAux (pendingAux b l) m := by
  induction l generalizing b with
  | nil => simp [unwrapAux, pendingAux]
  | cons it rest ih =>
    cases it with
    | text s => cases b <;> simp [unwrapAux, pendingAux, ih]
    | wbr => cases b <;> simp [unwrapAux, pendingAux, ih]
    | newline => cases b <;> simp [unwrapAux, pendingAux, ih]
    | elem k s => cases k <;> cases b <;> simp [unwrapAux, pendingAux, ih]

theorem pendingAux_append (b : Bool) (l m : List Item) :
    pendingAux b (l ++ m) = pendingAux (pendingAux b l) m := by
  induction l generalizing b with
  | nil => simp [pendingAux]
  | cons it rest ih =>
    cases it with
    | text s => simp [pendingAux, ih]
    | wbr => simp [pendingAux, ih]
    | newline => simp [pendingAux, ih]
    | elem k s => cases k <;> simp [pendingAux, ih]

theorem unwrap_append (l m : List Item) : unwrap (l ++ m) = unwrap l ++ unwrapAux (pending l) m :=
  unwrapAux_append false l m
theorem pending_append (l m : List Item) : pending (l ++ m) = pendingAux (pending l) m :=
  pendingAux_append false l m

theorem unwrapAux_mkElem (b : Bool) (k : OKind) (s : List Char) (rest : List Item) :
    unwrapAux b (mkElem k s :: rest) = s ++ unwrapAux false rest := by
  cases k <;> cases b <;> simp [mkElem, unwrapAux, Item.raw]

theorem pendingAux_mkElem (b : Bool) (k : OKind) (s : List Char) (rest : List Item) :
    pendingAux b (mkElem k s :: rest) = pendingAux false rest := by
  cases k <;> simp [mkElem, pendingAux]

def segsText : Bool → Bool → List (List Char) → List Char
  | _, _, [] => []
  | first, p, s :: rest => (if first || p then [] else ['\n']) ++ s ++ segsText false false rest

theorem pySplit_append (n cp : Nat) (seg : List Char) :
    (pySplit n cp seg).1 ++ (pySplit n cp seg).2 = seg := by
  unfold pySplit
  split <;> simp

def Extends (st st' : St) : Prop := ∃ m, st'.result = st.result ++ m

theorem Extends.refl (st : St) : Extends st st := ⟨[], by simp⟩
theorem Extends.trans {a b c : St} (h1 : Extends a b) (h2 : Extends b c) : Extends a c := by
  obtain ⟨m1, e1⟩ := h1; obtain ⟨m2, e2⟩ := h2
  exact ⟨m1 ++ m2, by rw [e2, e1, List.append_assoc]⟩

/-- the new-line step: appends at most an (absorbed or real) newline -/
theorem nlStep_spec (cfg : Cfg) (first : Bool) (st : St) (hp : pending st.result = true → first = false) :
    match nlStep cfg first st with
    | .ok st1 =>
      unwrap st1.result = unwrap st.result ++ (if first || pending st.result then [] else ['\n']) ∧
      pending st1.result = false ∧ Extends st st1 ∧ st1.lbok = st.lbok
    | .error (_, st1) => st1 = st := by
  unfold nlStep
  cases first with
  | true =>
    have : pending st.result = false := by
      cases h : pending st.result with
      | false => rfl
      | true => exact absurd (hp h) (by simp)
    simp [this, Extends.refl]
  | false =>
    simp only [Bool.false_eq_true, if_false]
    by_cases h1 : exceeds (st.lineno + 1) cfg.maxlines = true
    · simp [h1]
    by_cases h2 : (!st.lbok) = true
    · simp [h1, h2]
    · simp only [h1, h2, if_false]
      refine ⟨?_, ?_, ⟨[.newline], rfl⟩, rfl⟩
      · rw [unwrap_append]
        cases pending st.result <;> simp [unwrapAux]
      · rw [pending_append]
        cases pending st.result <;> simp [pendingAux]

theorem pushSeg_spec (k : OKind) (seg : List Char) (st : St) (hp : pending st.result = false) :
    unwrap (pushSeg k seg st).result = unwrap st.result ++ seg ∧
    pending (pushSeg k seg st).result = false ∧ Extends st (pushSeg k seg st) ∧
    (pushSeg k seg st).lbok = st.lbok := by
  refine ⟨?_, ?_, ⟨[mkElem k seg], rfl⟩, rfl⟩
  · simp [pushSeg, unwrap_append, hp, unwrapAux_mkElem, unwrapAux]
  · simp [pushSeg, pending_append, hp, pendingAux_mkElem, pendingAux]

theorem pushWrap_spec (k : OKind) (a : List Char) (st : St) (hp : pending st.result = false) :
    unwrap (pushWrap k a st).result = unwrap st.result ++ a ∧
    pending (pushWrap k a st).result = true ∧ Extends st (pushWrap k a st) ∧
    (pushWrap k a st).lbok = st.lbok := by
  refine ⟨?_, ?_, ⟨[mkElem k a, linewrapItem], rfl⟩, rfl⟩
  · simp [pushWrap, unwrap_append, hp, unwrapAux_mkElem, unwrapAux, linewrapItem]
  · simp [pushWrap, pending_append, hp, pendingAux_mkElem, pendingAux, linewrapItem]


/-- shape of the claim about a run of the wrapping loop started in `st0` whose text should be `txt` -/
def SegClaim (st0 : St) (txt : List Char) (pend' : Bool) (r : Res) : Prop :=
  match r with
  | .ok st' =>
    unwrap st'.result = unwrap st0.result ++ txt ∧ pending st'.result = pend' ∧
    Extends st0 st' ∧ st'.lbok = st0.lbok
  | .error (_, st') =>
    Extends st0 st' ∧ st'.lbok = st0.lbok ∧ ∃ p, p <+: txt ∧ unwrap st'.result = unwrap st0.result ++ p

/-- a claim about the rest of the loop (from `st2`, which already extends `st0` by `pre`) lifts to `st0` -/
theorem SegClaim.lift {st0 st2 : St} {pre txt : List Char} {pd : Bool} {r : Res}
    (hu : unwrap st2.result = unwrap st0.result ++ pre) (hext : Extends st0 st2) (hlb : st2.lbok = st0.lbok)
    (h : SegClaim st2 txt pd r) : SegClaim st0 (pre ++ txt) pd r := by
  unfold SegClaim at h ⊢
  match r, h with
  | .ok st', ⟨h1, h2, h3, h4⟩ =>
    exact ⟨by rw [h1, hu, List.append_assoc], h2, hext.trans h3, h4.trans hlb⟩
  | .error (e, st'), ⟨h1, h2, p, hp, h3⟩ =>
    refine ⟨hext.trans h1, h2.trans hlb, pre ++ p, ?_, by rw [h3, hu, List.append_assoc]⟩
    exact List.prefix_append_right_inj pre |>.2 hp

theorem outSegs_spec (cfg : Cfg) (k : OKind) :
    ∀ (fuel : Nat) (first : Bool) (segs : List (List Char)) (st : St),
      (pending st.result = true → first = false) →
      SegClaim st (segsText first (pending st.result) segs)
        (if segs.isEmpty then pending st.result else false) (outSegs cfg k fuel first segs st)
  | fuel, first, [], st, _ => by
    cases fuel <;> simp [outSegs, SegClaim, segsText, Extends.refl]
  | 0, first, seg :: rest, st, _ => by
    simp only [outSegs]
    unfold SegClaim
    exact ⟨Extends.refl st, rfl, [], List.nil_prefix, by simp⟩
  | fuel + 1, first, seg :: rest, st, hp => by
    have hn := nlStep_spec cfg first st hp
    simp only [outSegs]
    cases hnl : nlStep cfg first st with
    | error e =>
      obtain ⟨e, st1⟩ := e
      rw [hnl] at hn
      simp only at hn
      subst hn
      unfold SegClaim
      exact ⟨Extends.refl _, rfl, [], List.nil_prefix, by simp⟩
    | ok st1 =>
      rw [hnl] at hn
      obtain ⟨hu, hpd, hext, hlb⟩ := hn
      simp only [List.isEmpty_cons, Bool.false_eq_true, if_false]
      -- the segment fits
      have fit : SegClaim st (segsText first (pending st.result) (seg :: rest)) false
          (outSegs cfg k fuel false rest (pushSeg k seg st1)) := by
        have ps := pushSeg_spec k seg st1 hpd
        have ih := outSegs_spec cfg k fuel false rest (pushSeg k seg st1) (fun _ => rfl)
        rw [ps.2.1] at ih
        have := SegClaim.lift (st0 := st) (pre := (if first || pending st.result then [] else ['\n']) ++ seg)
          (by rw [ps.1, hu, List.append_assoc]) (hext.trans ps.2.2.1) (ps.2.2.2.trans hlb) ih
        simpa [segsText, List.append_assoc] using this
      cases hll : cfg.linelen with
      | none => exact fit
      | some n =>
        simp only
        split
        · exact fit
        · have pw := pushWrap_spec k (pySplit n st1.charpos seg).1 st1 hpd
          have ih := outSegs_spec cfg k fuel false ((pySplit n st1.charpos seg).2 :: rest)
            (pushWrap k (pySplit n st1.charpos seg).1 st1) (fun _ => rfl)
          rw [pw.2.1] at ih
          simp only [List.isEmpty_cons, Bool.false_eq_true, if_false] at ih
          have := SegClaim.lift (st0 := st)
            (pre := (if first || pending st.result then [] else ['\n']) ++ (pySplit n st1.charpos seg).1)
            (by rw [pw.1, hu, List.append_assoc]) (hext.trans pw.2.2.1) (pw.2.2.2.trans hlb) ih
          have e := pySplit_append n st1.charpos seg
          simp only [segsText, Bool.or_true, if_true, List.nil_append, List.append_assoc] at this ⊢
          rw [← List.append_assoc (pySplit n st1.charpos seg).1, e] at this
          exact this

theorem splitNl_isEmpty (s : List Char) : (splitNl s).isEmpty = false := by
  cases s with
  | nil => simp [splitNl]
  | cons c cs =>
    simp only [splitNl]
    split
    · simp
    · split <;> simp

theorem segsText_splitNl (s : List Char) :
    segsText true false (splitNl s) = s ∧ segsText false false (splitNl s) = '\n' :: s := by
  induction s with
  | nil => simp [splitNl, segsText]
  | cons c cs ih =>
    simp only [splitNl]
    cases h : splitNl cs with
    | nil =>
      have := splitNl_isEmpty cs
      simp [h] at this
    | cons l ls =>
      rw [h] at ih
      simp only [segsText, Bool.true_or, Bool.or_self, if_true, Bool.false_eq_true, if_false,
        List.nil_append] at ih
      by_cases hc : c = '\n'
      · subst hc
        simp [segsText, ih.1]
      · simp [hc, segsText, ih.1]

/-- **`_output` marks every line break it introduces**: after removing the continuation markers the
appended items spell exactly `s`; when `_Maxlines`/`_Linebreak` is raised, a prefix of `s`. -/
theorem output_spec (cfg : Cfg) (s : List Char) (k : OKind) (st : St) (hp : pending st.result = false) :
    SegClaim st s false (output cfg s k st) := by
  have h := outSegs_spec cfg k (3 * s.length + 4) true (splitNl s) st (by simp [hp])
  rw [hp, (segsText_splitNl s).1, splitNl_isEmpty] at h
  simpa [output] using h

/-! ### the whole colourizer -/

mutual
/-- `Spells lb p t`: `t` is a complete spelling of program `p` started with `linebreakok = lb` — every
`_output` string in order; a comma in multi-line mode is `,` + newline + some indentation; a
`_multiline` body is spelled on one line, or (when line breaks are allowed) in multi-line mode -/
def Spells (lb : Bool) : Prog → List Char → Prop
  | .out s _, t => t = s
  | .wbr, t => t = []
  | .unknown, t => t = "??".toList
  | .comma, t => if lb then ∃ n, t = ',' :: '\n' :: List.replicate n ' ' else t = [',', ' ']
  | .fail _, _ => False
  | .seq ps, t => SpellsL lb ps t
  | .group ps, t => SpellsL lb ps t
  | .paren p, t => ∃ u, Spells lb p u ∧ t = '(' :: (u ++ [')'])
  | .multiline p, t => Spells false p t ∨ (lb = true ∧ Spells true p t)
  | .ifLb a b, t => if lb then Spells true a t else Spells false b t
def SpellsL (lb : Bool) : List Prog → List Char → Prop
  | [], t => t = []
  | p :: ps, t => ∃ u v, Spells lb p u ∧ SpellsL lb ps v ∧ t = u ++ v
end

mutual
/-- without line breaks there is exactly one spelling: `flat` -/
theorem spells_false_flat : ∀ (p : Prog) (t : List Char), Spells false p t → t = flat p
  | .out s k, t, h => by simpa [Spells, flat] using h
  | .wbr, t, h => by simpa [Spells, flat] using h
  | .unknown, t, h => by simpa [Spells, flat] using h
  | .comma, t, h => by simpa [Spells, flat] using h
  | .fail e, t, h => by simp [Spells] at h
  | .seq ps, t, h => by simp only [Spells] at h; simpa [flat] using spellsL_false_flat ps t h
  | .group ps, t, h => by simp only [Spells] at h; simpa [flat] using spellsL_false_flat ps t h
  | .paren p, t, h => by
    simp only [Spells] at h
    obtain ⟨u, hu, rfl⟩ := h
    simp [flat, spells_false_flat p u hu]
  | .multiline p, t, h => by
    simp only [Spells] at h
    rcases h with h | ⟨h, _⟩
    · simpa [flat] using spells_false_flat p t h
    · simp at h
  | .ifLb a b, t, h => by
    simp only [Spells, Bool.false_eq_true, if_false] at h
    simpa [flat] using spells_false_flat b t h
theorem spellsL_false_flat : ∀ (ps : List Prog) (t : List Char), SpellsL false ps t → t = flatList ps
  | [], t, h => by simpa [SpellsL, flatList] using h
  | p :: ps, t, h => by
    simp only [SpellsL] at h
    obtain ⟨u, v, hu, hv, rfl⟩ := h
    simp [flatList, spells_false_flat p u hu, spellsL_false_flat ps v hv]
end

theorem restore_eq (mark st1 : St) (m : List Item) (h : st1.result = mark.result ++ m) :
    restore mark st1 = mark ∧ st1.result.drop mark.result.length = m := by
  simp [restore, h]

/-- what running a program from `st` must satisfy -/
def ExecClaim (st : St) (sp : List Char → Prop) (r : Res) : Prop :=
  match r with
  | .ok st' =>
    pending st'.result = false ∧ st'.lbok = st.lbok ∧ Extends st st' ∧
    ∃ t, sp t ∧ unwrap st'.result = unwrap st.result ++ t
  | .error (_, st') => Extends st st'

theorem ExecClaim.of_seg {st : St} {s : List Char} {r : Res} (h : SegClaim st s false r) :
    ExecClaim st (fun t => t = s) r := by
  unfold SegClaim at h; unfold ExecClaim
  match r, h with
  | .ok st', ⟨h1, h2, h3, h4⟩ => exact ⟨h2, h4, h3, s, rfl, h1⟩
  | .error (e, st'), ⟨h1, _, _⟩ => exact h1

def Res.andThen (r : Res) (f : St → Res) : Res :=
  match r with
  | .ok st1 => f st1
  | .error e => .error e

/-- sequencing two claims -/
theorem ExecClaim.bind {st : St} {sp1 sp2 sp : List Char → Prop} {r1 : Res} {f : St → Res}
    (h1 : ExecClaim st sp1 r1)
    (h2 : ∀ st1, r1 = .ok st1 → pending st1.result = false → st1.lbok = st.lbok →
      ExecClaim st1 sp2 (f st1))
    (hsp : ∀ u v, sp1 u → sp2 v → sp (u ++ v)) :
    ExecClaim st sp (Res.andThen r1 f) := by
  unfold ExecClaim at h1
  match r1, h1, h2 with
  | .error (e, st'), h1, _ => exact h1
  | .ok st1, ⟨hp, hlb, hext, t1, ht1, hu1⟩, h2 =>
    have c2 := h2 st1 rfl hp hlb
    simp only [Res.andThen]
    unfold ExecClaim at c2 ⊢
    match f st1, c2 with
    | .error (e, st'), c2 => exact hext.trans c2
    | .ok st2, ⟨hp2, hlb2, hext2, t2, ht2, hu2⟩ =>
      exact ⟨hp2, hlb2.trans hlb, hext.trans hext2, t1 ++ t2, hsp _ _ ht1 ht2,
        by rw [hu2, hu1, List.append_assoc]⟩

/-- the final state of a run (returned or carried by the exception) extends `st` -/
def ResExt (st : St) (r : Res) : Prop :=
  match r with
  | .ok st' => Extends st st'
  | .error (_, st') => Extends st st'

theorem ResExt.trans {a b : St} {r : Res} (h1 : Extends a b) (h2 : ResExt b r) : ResExt a r := by
  unfold ResExt at h2 ⊢
  match r, h2 with
  | .ok st', h2 => exact h1.trans h2
  | .error (e, st'), h2 => exact h1.trans h2

theorem nlStep_extends (cfg : Cfg) (first : Bool) (st : St) : ResExt st (nlStep cfg first st) := by
  unfold nlStep ResExt
  cases first with
  | true => simp [Extends.refl]
  | false =>
    simp only [Bool.false_eq_true, if_false]
    by_cases h1 : exceeds (st.lineno + 1) cfg.maxlines = true
    · simp [h1, Extends.refl]
    by_cases h2 : (!st.lbok) = true
    · simp [h1, h2, Extends.refl]
    · simp only [h1, h2]
      exact ⟨[.newline], rfl⟩

/-- items are only ever appended by the wrapping loop (no assumption on the state) -/
theorem outSegs_extends (cfg : Cfg) (k : OKind) :
    ∀ (fuel : Nat) (first : Bool) (segs : List (List Char)) (st : St),
      ResExt st (outSegs cfg k fuel first segs st)
  | fuel, first, [], st => by cases fuel <;> simp [outSegs, ResExt, Extends.refl]
  | 0, first, seg :: rest, st => by simp [outSegs, ResExt, Extends.refl]
  | fuel + 1, first, seg :: rest, st => by
    have hn := nlStep_extends cfg first st
    simp only [outSegs]
    cases hnl : nlStep cfg first st with
    | error e => obtain ⟨e, st1⟩ := e; rw [hnl] at hn; exact hn
    | ok st1 =>
      rw [hnl] at hn
      have hn' : Extends st st1 := hn
      have fit : ResExt st (outSegs cfg k fuel false rest (pushSeg k seg st1)) :=
        ResExt.trans (hn'.trans ⟨[mkElem k seg], rfl⟩) (outSegs_extends cfg k fuel false rest _)
      cases hll : cfg.linelen with
      | none => exact fit
      | some n =>
        simp only
        split
        · exact fit
        · exact ResExt.trans (hn'.trans ⟨[mkElem k (pySplit n st1.charpos seg).1, linewrapItem], rfl⟩)
            (outSegs_extends cfg k fuel false _ _)

theorem output_extends (cfg : Cfg) (s : List Char) (k : OKind) (st : St) :
    ResExt st (output cfg s k st) :=
  outSegs_extends cfg k _ true _ st

/-- `_OperatorDelimiter.__exit__` always leaves a state that extends the mark -/
theorem exitParen_extends (cfg : Cfg) (mark st1 : St) (pe : Option Exc) (m : List Item)
    (h : st1.result = mark.result ++ m) : ResExt mark (exitParen cfg mark st1 pe) := by
  unfold exitParen
  obtain ⟨hr, hd⟩ := restore_eq mark st1 m h
  simp only [hr, hd]
  have o1 := output_extends cfg ['('] .plain mark
  cases h1 : output cfg ['('] .plain mark with
  | error e => obtain ⟨e, st'⟩ := e; rw [h1] at o1; exact o1
  | ok st2 =>
    rw [h1] at o1
    have o1' : Extends mark st2 := o1
    simp only
    have e2 : Extends mark { st2 with result := st2.result ++ m } := o1'.trans ⟨m, rfl⟩
    have o2 := output_extends cfg [')'] .plain { st2 with result := st2.result ++ m }
    cases h2 : output cfg [')'] .plain { st2 with result := st2.result ++ m } with
    | error e => obtain ⟨e, st'⟩ := e; rw [h2] at o2; exact ResExt.trans e2 o2
    | ok st3 =>
      rw [h2] at o2
      have o2' : Extends { st2 with result := st2.result ++ m } st3 := o2
      cases pe with
      | none => exact e2.trans o2'
      | some e => exact e2.trans o2'

/-- … and when the body completed, it wraps the body's text in parentheses -/
theorem exitParen_ok (cfg : Cfg) (mark st1 : St) (m : List Item)
    (h : st1.result = mark.result ++ m) (hpm : pending mark.result = false)
    (hp1 : pending st1.result = false) :
    ExecClaim mark (fun t => t = '(' :: (unwrapAux false m ++ [')'])) (exitParen cfg mark st1 none) := by
  unfold exitParen
  obtain ⟨hr, hd⟩ := restore_eq mark st1 m h
  simp only [hr, hd]
  have hpmm : pendingAux false m = false := by
    have := hp1; rw [h, pending_append, hpm] at this; exact this
  have o1 := output_spec cfg ['('] .plain mark hpm
  cases h1 : output cfg ['('] .plain mark with
  | error e => obtain ⟨e, st'⟩ := e; rw [h1] at o1; exact o1.1
  | ok st2 =>
    rw [h1] at o1
    obtain ⟨u2, p2, e2, l2⟩ := o1
    simp only
    have hp3 : pending (st2.result ++ m) = false := by rw [pending_append, p2, hpmm]
    have o2 := output_spec cfg [')'] .plain { st2 with result := st2.result ++ m } hp3
    cases h2 : output cfg [')'] .plain { st2 with result := st2.result ++ m } with
    | error e =>
      obtain ⟨e, st'⟩ := e; rw [h2] at o2
      exact (e2.trans ⟨m, rfl⟩).trans o2.1
    | ok st3 =>
      rw [h2] at o2
      obtain ⟨u3, p3, e3, l3⟩ := o2
      refine ⟨p3, l3.trans l2, (e2.trans ⟨m, rfl⟩).trans e3, _, rfl, ?_⟩
      rw [u3]
      simp only [unwrap_append, p2, u2]
      simp

theorem insertComma_spec (cfg : Cfg) (indent : Nat) (st : St) (hp : pending st.result = false) :
    ExecClaim st (Spells st.lbok .comma) (insertComma cfg indent st) := by
  unfold insertComma
  cases hlb : st.lbok with
  | false =>
    simp only [Bool.false_eq_true, if_false]
    have := ExecClaim.of_seg (output_spec cfg [',', ' '] .plain st hp)
    simpa [Spells] using this
  | true =>
    simp only [if_true]
    have o1 := output_spec cfg [','] .plain st hp
    cases h1 : output cfg [','] .plain st with
    | error e => obtain ⟨e, st'⟩ := e; rw [h1] at o1; exact o1.1
    | ok st2 =>
      rw [h1] at o1
      obtain ⟨u2, p2, e2, l2⟩ := o1
      simp only
      have o2 := output_spec cfg ('\n' :: List.replicate indent ' ') .plain st2 p2
      cases h2 : output cfg ('\n' :: List.replicate indent ' ') .plain st2 with
      | error e => obtain ⟨e, st'⟩ := e; rw [h2] at o2; exact e2.trans o2.1
      | ok st3 =>
        rw [h2] at o2
        obtain ⟨u3, p3, e3, l3⟩ := o2
        refine ⟨p3, l3.trans l2, e2.trans e3, _, ?_, by rw [u3, u2, List.append_assoc]⟩
        simp only [Spells, if_true]
        exact ⟨indent, rfl⟩

theorem ExecClaim.mono {st : St} {sp sp' : List Char → Prop} {r : Res} (h : ExecClaim st sp r)
    (himp : ∀ t, sp t → sp' t) : ExecClaim st sp' r := by
  unfold ExecClaim at h ⊢
  match r, h with
  | .ok st', ⟨h1, h2, h3, t, ht, hu⟩ => exact ⟨h1, h2, h3, t, himp t ht, hu⟩
  | .error (e, st'), h => exact h

theorem ExecClaim.ext {st : St} {sp : List Char → Prop} {r : Res} (h : ExecClaim st sp r) : ResExt st r := by
  unfold ExecClaim at h; unfold ResExt
  match r, h with
  | .ok st', ⟨_, _, h3, _⟩ => exact h3
  | .error (e, st'), h => exact h

theorem ExecClaim.ok_intro {st st' : St} {sp : List Char → Prop} (h1 : pending st'.result = false)
    (h2 : st'.lbok = st.lbok) (h3 : Extends st st') (t : List Char) (ht : sp t)
    (hu : unwrap st'.result = unwrap st.result ++ t) : ExecClaim st sp (.ok st') :=
  ⟨h1, h2, h3, t, ht, hu⟩

theorem exitParen_some_error (cfg : Cfg) (mark st1 : St) (e : Exc) :
    ∃ e' st', exitParen cfg mark st1 (some e) = .error (e', st') := by
  unfold exitParen
  simp only
  cases h1 : output cfg ['('] .plain (restore mark st1) with
  | error x => exact ⟨x.1, x.2, rfl⟩
  | ok st2 =>
    simp only
    cases h2 : output cfg [')'] .plain
        { st2 with result := st2.result ++ List.drop mark.result.length st1.result } with
    | error x => exact ⟨x.1, x.2, rfl⟩
    | ok st3 => exact ⟨e, st3, rfl⟩

mutual
/-- **every helper of the colourizer only ever adds marked line breaks**: running the program of an
expression from a state without a dangling marker appends, marker pairs removed, a complete
spelling of the program (or raises, having only appended) -/
theorem exec_spec (cfg : Cfg) :
    ∀ (p : Prog) (indent : Nat) (st : St), pending st.result = false →
      ExecClaim st (Spells st.lbok p) (exec cfg indent p st)
  | .out s k, indent, st, hp => by
    simpa [exec, Spells] using ExecClaim.of_seg (output_spec cfg s k st hp)
  | .wbr, indent, st, hp => by
    simp only [exec]
    exact ExecClaim.ok_intro (by simp [pending_append, hp, pendingAux]) rfl ⟨[.wbr], rfl⟩ []
      (by simp [Spells]) (by simp [unwrap_append, hp, unwrapAux, Item.raw])
  | .unknown, indent, st, hp => by
    simp only [exec]
    exact ExecClaim.ok_intro (by simp [pending_append, hp, pendingAux, unknownItem]) rfl
      ⟨[unknownItem], rfl⟩ "??".toList (by simp [Spells])
      (by simp [unwrap_append, hp, unwrapAux, Item.raw, unknownItem])
  | .comma, indent, st, hp => by
    simpa [exec] using insertComma_spec cfg indent st hp
  | .fail e, indent, st, hp => by
    simp only [exec, ExecClaim]; exact Extends.refl st
  | .seq ps, indent, st, hp => by
    simpa [exec, Spells] using execList_spec cfg ps indent st hp
  | .group ps, indent, st, hp => by
    simpa [exec, Spells] using execList_spec cfg ps st.charpos st hp
  | .paren p, indent, st, hp => by
    have ih := exec_spec cfg p indent st hp
    simp only [exec]
    cases hr : exec cfg indent p st with
    | error e =>
      obtain ⟨e, st1⟩ := e
      rw [hr] at ih
      obtain ⟨m, hm⟩ := (ih : Extends st st1)
      have := exitParen_extends cfg st st1 (some e) m hm
      simp only
      obtain ⟨e', st', hx⟩ := exitParen_some_error cfg st st1 e
      rw [hx] at this ⊢
      exact this
    | ok st1 =>
      rw [hr] at ih
      obtain ⟨hp1, hlb, ⟨m, hm⟩, t, ht, hu⟩ := ih
      have hx := exitParen_ok cfg st st1 m hm hp hp1
      simp only
      refine hx.mono ?_
      intro t' ht'
      have : unwrapAux false m = t := by
        have h2 := hu
        rw [hm, unwrap_append, hp] at h2
        exact List.append_cancel_left h2
      simp only [Spells]
      exact ⟨t, ht, by rw [ht', this]⟩
  | .multiline p, indent, st, hp => by
    have ih0 := exec_spec cfg p indent { st with lbok := false } hp
    simp only [exec]
    cases hr : exec cfg indent p { st with lbok := false } with
    | ok st1 =>
      rw [hr] at ih0
      obtain ⟨hp1, hlb, hext, t, ht, hu⟩ := ih0
      simp only
      exact ExecClaim.ok_intro hp1 rfl hext t (by simp only [Spells]; exact Or.inl ht) hu
    | error e =>
      obtain ⟨e, st1⟩ := e
      rw [hr] at ih0
      have hext : Extends st st1 := ih0
      cases e with
      | linebreak =>
        simp only
        cases hlb : st.lbok with
        | false => simp only [Bool.not_false, if_true]; exact hext
        | true =>
          simp only [Bool.not_true, Bool.false_eq_true, if_false]
          obtain ⟨m, hm⟩ := hext
          rw [(restore_eq st st1 m hm).1]
          have ih := exec_spec cfg p indent st hp
          rw [hlb] at ih
          exact ih.mono (fun t ht => by simp [Spells, ht])
      | maxlines => exact hext
      | valueError => exact hext
      | indexError => exact hext
      | fuel => exact hext
      | recursion => exact hext
  | .ifLb a b, indent, st, hp => by
    simp only [exec]
    cases hlb : st.lbok with
    | true =>
      have ih := exec_spec cfg a indent st hp
      rw [hlb] at ih
      simpa [Spells] using ih
    | false =>
      have ih := exec_spec cfg b indent st hp
      rw [hlb] at ih
      simpa [Spells] using ih
theorem execList_spec (cfg : Cfg) :
    ∀ (ps : List Prog) (indent : Nat) (st : St), pending st.result = false →
      ExecClaim st (SpellsL st.lbok ps) (execList cfg indent ps st)
  | [], indent, st, hp => by
    simp only [execList]
    exact ExecClaim.ok_intro hp rfl (Extends.refl st) [] (by simp [SpellsL]) (by simp)
  | p :: ps, indent, st, hp => by
    have ih1 := exec_spec cfg p indent st hp
    have he : execList cfg indent (p :: ps) st =
        Res.andThen (exec cfg indent p st) (fun st1 => execList cfg indent ps st1) := by
      simp only [execList, Res.andThen]
      cases exec cfg indent p st <;> rfl
    rw [he]
    have := ExecClaim.bind (sp := SpellsL st.lbok (p :: ps)) (f := fun st1 => execList cfg indent ps st1) ih1
      (fun st1 _ hp1 hlb1 => by
        have := execList_spec cfg ps indent st1 hp1
        rw [hlb1] at this
        exact this)
      (fun u v hu hv => by simp only [SpellsL]; exact ⟨u, v, hu, hv, rfl⟩)
    exact this
end

/-- **Pyval.output_marked**: for every configuration and every state without a dangling marker,
`_output(s, …)` appends items that — once each `↵` marker is removed together with the newline that
follows it — spell exactly `s`; if it raises `_Maxlines`/`_Linebreak`, a prefix of `s`.  Every line
break that is not in `s` is therefore marked as a continuation. -/
theorem output_marked (cfg : Cfg) (s : List Char) (k : OKind) (st : St)
    (hp : pending st.result = false) :
    match output cfg s k st with
    | .ok st' => unwrap st'.result = unwrap st.result ++ s ∧ pending st'.result = false
    | .error (_, st') => ∃ p, p <+: s ∧ unwrap st'.result = unwrap st.result ++ p := by
  have h := output_spec cfg s k st hp
  unfold SegClaim at h
  cases hr : output cfg s k st with
  | ok st' => rw [hr] at h; exact ⟨h.1, h.2.1⟩
  | error e => obtain ⟨e, st'⟩ := e; rw [hr] at h; exact h.2.2

/-- non-vacuity / the markers at work: `12345678` at line length 4 -/
example : (match output (Cfg.make 4 0 true) "12345678".toList .plain ⟨[], 0, 1, true⟩ with
    | .ok st' => (st'.result.flatMap Item.raw, unwrap st'.result)
    | .error _ => ([], [])) = ("1234↵\n5678".toList, "12345678".toList) := by decide +kernel

/- Statement as first planned (FALSE): "the cut output, markers removed, is a prefix of the full
text".  A cut inside a parenthesised operator still gets its closing parenthesis
(`_OperatorDelimiter.__exit__` runs while the exception propagates): -/
theorem wrap_prefix_counterexample :
    (match colorize LT (Cfg.make 4 1 true)
        (.binary .mult (.binary .add (.constInt 111) (.constInt 222)) (.constInt 333)) with
      | .ok r => (r.isComplete, unwrap r.items)
      | .error _ => (true, [])) = (false, "(111+)\n...".toList) ∧
    render LT (.binary .mult (.binary .add (.constInt 111) (.constInt 222)) (.constInt 333))
      = "(111+222)*333".toList := by
  constructor <;> decide +kernel

/-- **Pyval.wrap_marked**: for every line length, every line count, both `linebreakok` settings
and every expression: if the result is not complete it ends with the `...` truncation marker (and
`is_complete` is false by definition of the branch); if it is complete then, continuation markers
removed, it is a complete spelling of the expression — nothing was shortened silently — and in the
mode without line breaks (defaults, annotations, decorators, bases) it is exactly `render e`. -/
theorem wrap_marked (T : PrecTable) (linelen maxlines : Nat) (lb : Bool) (e : Expr) (r : Colorized)
    (h : colorize T (Cfg.make linelen maxlines lb) e = .ok r) :
    (r.isComplete = false → r.items.getLast? = some ellipsisItem) ∧
    (r.isComplete = true →
      Spells lb (compile T none e) (unwrap r.items) ∧ pending r.items = false ∧
      (lb = false → unwrap r.items = render T e)) := by
  unfold colorize colorizeProg at h
  simp only at h
  have hs := exec_spec (Cfg.make linelen maxlines lb) (compile T none e) 0
    ⟨[], 0, 1, (Cfg.make linelen maxlines lb).linebreakok⟩ (by simp [pending, pendingAux])
  cases hr : exec (Cfg.make linelen maxlines lb) 0 (compile T none e)
      ⟨[], 0, 1, (Cfg.make linelen maxlines lb).linebreakok⟩ with
  | ok st =>
    rw [hr] at h hs
    simp only [Except.ok.injEq] at h
    subst h
    obtain ⟨hp, _, _, t, ht, hu⟩ := hs
    refine ⟨by simp, fun _ => ?_⟩
    have hu' : unwrap st.result = t := by simpa [unwrap, unwrapAux] using hu
    have hlb : (Cfg.make linelen maxlines lb).linebreakok = lb := rfl
    simp only [hlb] at ht
    refine ⟨by rw [hu']; exact ht, hp, ?_⟩
    intro hf
    subst hf
    rw [hu', render]
    exact spells_false_flat _ _ ht
  | error x =>
    obtain ⟨x, st⟩ := x
    rw [hr] at h
    simp only at h
    split at h
    · split at h
      · simp only [Except.ok.injEq] at h
        subst h
        simp
      · split at h
        · simp at h
        · simp only [Except.ok.injEq] at h
          subst h
          simp
    · split at h
      · simp only [Except.ok.injEq] at h
        subst h
        simp
      · simp at h

/-- **what is NOT claimed: a line budget.**  `_OperatorDelimiter.__exit__` restores `charpos` and
`lineno` to their values at the opening parenthesis (then adds 2 for the parentheses), so after a
parenthesised sub-expression the colourizer under-counts.  A line can be longer than `linelen`
(`(111+222)*333` at line length 7 is ONE line of 13 characters) and a complete result can have more
lines than `maxlines` (three lines at `maxlines = 2`).  `wrap_marked`, `exec_spec`,
`cut_shows_written` assume nothing about line lengths or line counts: they say that every break the
colourizer does introduce is marked and that nothing is lost or silently cut. -/
theorem line_budget_counterexample :
    (match colorize LT (Cfg.make 7 0 true)
        (.binary .mult (.binary .add (.constInt 111) (.constInt 222)) (.constInt 333)) with
      | .ok r => (r.isComplete, r.items.flatMap Item.raw)
      | .error _ => (false, [])) = (true, "(111+222)*333".toList) ∧
    (match colorize LT (Cfg.make 4 2 true)
        (.binary .mult (.binary .add (.constInt 111) (.constInt 222)) (.constInt 333)) with
      | .ok r => (r.isComplete, r.items.flatMap Item.raw)
      | .error _ => (false, [])) = (true, "(111+↵\n222)*3↵\n33".toList) := by
  constructor <;> decide +kernel

/-- the text of a result as the reader sees it, markers included -/
def visible (items : List Item) : List Char := items.flatMap Item.raw

/-- non-vacuity of `wrap_marked`: a complete wrapped result (two continuations), a cut one with line
breaks allowed, and a cut one in summary mode (three characters trimmed for the marker) -/
example :
    (match colorize LT (Cfg.make 4 2 true)
        (.binary .mult (.binary .add (.constInt 111) (.constInt 222)) (.constInt 333)) with
      | .ok r => (r.isComplete, visible r.items, unwrap r.items)
      | .error _ => (false, [], [])) =
      (true, "(111+↵\n222)*3↵\n33".toList, "(111+222)*333".toList) ∧
    (match colorize LT (Cfg.make 6 1 true) (.list [.constInt 1, .constStr "ab".toList]) with
      | .ok r => (r.isComplete, visible r.items)
      | .error _ => (true, [])) = (false, "[1, 'a↵\n...".toList) ∧
    (match colorize LT (Cfg.make 9 1 false) (.list [.constInt 1, .constStr "abcdef".toList]) with
      | .ok r => (r.isComplete, visible r.items)
      | .error _ => (true, [])) = (false, "[1, 'a...".toList) := by
  refine ⟨?_, ?_, ?_⟩ <;> decide +kernel

theorem dropPair_id (a b : Char) (s : List Char) (h : a ∉ s) : dropPair a b s = s := by
  induction s using dropPair.induct a b with
  | case1 => rfl
  | case2 x => rfl
  | case3 x y rest hxy ih => simp at h; exact absurd hxy.1 (by intro e; exact h.1 e.symm)
  | case4 x y rest hxy ih =>
    simp only [dropPair, hxy, if_false]
    rw [ih (by simp at h ⊢; exact h.2)]

theorem astext_id (s : List Char) (h : Char.ofNat 0 ∉ s) : astext s = s := by
  unfold astext
  rw [dropPair_id _ _ s h, dropPair_id _ _ s h]
  rw [List.filter_eq_self]
  intro c hc
  simp only [ne_eq, decide_eq_true_eq]
  intro e; subst e; exact h hc

/-- **Pyval.display_eq_render**: what `gettext(to_node())` returns is the raw item text, provided no
item holds a NUL character (docutils' `Text.astext` removes them) -/
theorem display_eq_render (items : List Item) (h : ∀ it ∈ items, Char.ofNat 0 ∉ it.raw) :
    itemsText items = visible items := by
  unfold itemsText visible
  induction items with
  | nil => rfl
  | cons it rest ih =>
    simp only [List.flatMap_cons]
    rw [ih (fun x hx => h x (by simp [hx]))]
    congr 1
    have := h it (by simp)
    cases it with
    | text s => exact astext_id s this
    | elem k s => exact astext_id s this
    | wbr => rfl
    | newline => rfl

/-- since e938da2 / 257fc5a the text of a string or bytes constant reaches the page unchanged:
docutils has no NUL to drop (the HISTORICAL witness is `nul_dropped_old_counterexample`) -/
theorem display_const_full (s : List Char) (b : List Nat) (hb : ∀ x ∈ b, x < 256) :
    astext (strEscape s) = strEscape s ∧ astext (bytesEscape b) = bytesEscape b :=
  ⟨astext_id _ (strEscape_no_nul s), astext_id _ (bytesEscape_no_nul b hb)⟩

example :
    (match colorize LT (Cfg.make 0 1 false) (.constStr [Char.ofNat 0, 'a']) with
      | .ok r => (r.isComplete, itemsText r.items)
      | .error _ => (false, [])) = (true, "'\\x00a'".toList) := by decide +kernel

/-! ## 6. what a cut result shows (`_trim_result`, the `...` marker) -/

theorem astext_no_nul (s : List Char) : Char.ofNat 0 ∉ astext s := by
  unfold astext
  intro h
  simp [List.mem_filter] at h

theorem astext_take (s : List Char) (k : Nat) : astext ((astext s).take k) = (astext s).take k :=
  astext_id _ (fun h => astext_no_nul s (List.mem_of_mem_take h))

theorem dropLastPy_prefix (t : Nat) (l : List Char) : dropLastPy t l <+: l := by
  unfold dropLastPy
  split
  · exact List.nil_prefix
  · exact List.take_prefix _ _

theorem astext_dropLastPy (t : Nat) (s : List Char) :
    astext (dropLastPy t (astext s)) = dropLastPy t (astext s) := by
  unfold dropLastPy
  split
  · simp [astext, dropPair]
  · exact astext_take s _

/-- the displayed text of a reversed item list (last item first) -/
def textRev (rev : List Item) : List Char := itemsText rev.reverse

theorem textRev_cons (it : Item) (rev : List Item) : textRev (it :: rev) = textRev rev ++ it.astext := by
  simp [textRev, itemsText]

/-- **`_trim_result` only removes characters from the end**: what is displayed after trimming is a
prefix of what was displayed before -/
theorem trimResult_prefix : ∀ (fuel : Nat) (rev : List Item) (n : Nat),
    textRev (trimResult fuel rev n) <+: textRev rev
  | 0, rev, n => by simp [trimResult]
  | fuel + 1, rev, 0 => by simp [trimResult]
  | fuel + 1, [], n + 1 => by simp [trimResult]
  | fuel + 1, it :: rev, n + 1 => by
    have pre : ∀ m, textRev (trimResult fuel rev m) <+: textRev (it :: rev) := fun m =>
      (trimResult_prefix fuel rev m).trans (by rw [textRev_cons]; exact List.prefix_append _ _)
    cases it with
    | wbr => simpa [trimResult] using pre (n + 1)
    | newline => simpa [trimResult] using pre n
    | elem k s =>
      simp only [trimResult]
      split
      · exact pre _
      · split
        · exact pre _
        · refine (trimResult_prefix fuel _ _).trans ?_
          rw [textRev_cons, textRev_cons]
          simp only [Item.astext, astext_dropLastPy]
          exact (List.prefix_append_right_inj _).2 (dropLastPy_prefix _ _)
    | text s =>
      simp only [trimResult]
      split
      · exact pre _
      · refine (trimResult_prefix fuel _ _).trans ?_
        rw [textRev_cons, textRev_cons]
        simp only [Item.astext, astext_dropLastPy]
        exact (List.prefix_append_right_inj _).2 (dropLastPy_prefix _ _)

/-- **a cut result shows what had been written, minus at most the trimmed tail, plus the marker**:
the displayed text is a prefix of the text accumulated when `_Maxlines`/`_Linebreak` was raised,
followed by `...` (on its own line when a line limit was hit and line breaks are allowed; directly
after the text when the interpreter's recursion limit was hit, 0a8115c) -/
theorem cut_shows_written (cfg : Cfg) (p : Prog) (r : Colorized)
    (h : colorizeProg cfg p = .ok r) (hc : r.isComplete = false) :
    ∃ e st, exec cfg 0 p ⟨[], 0, 1, cfg.linebreakok⟩ = .error (e, st) ∧
      ∃ q, q <+: itemsText st.result ∧
        itemsText r.items = q ++
          (if cfg.linebreakok && e != .recursion then "\n...".toList else "...".toList) := by
  unfold colorizeProg at h
  simp only at h
  cases hr : exec cfg 0 p ⟨[], 0, 1, cfg.linebreakok⟩ with
  | ok st => rw [hr] at h; simp at h; subst h; simp at hc
  | error x =>
    obtain ⟨e, st⟩ := x
    rw [hr] at h
    simp only at h
    refine ⟨e, st, rfl, ?_⟩
    split at h
    · split at h
      · next hlb =>
        simp only [Except.ok.injEq] at h; subst h
        refine ⟨itemsText st.result, List.prefix_rfl, ?_⟩
        rename_i hml
        have hne : e ≠ .recursion := by
          intro he; subst he; simp at hml
        simp [itemsText, hlb, hne, Item.astext, ellipsisItem, astext, dropPair]
      · next hlb =>
        split at h
        · simp at h
        · next last rev hrev =>
          simp only [Except.ok.injEq] at h; subst h
          have hst : itemsText st.result = textRev (last :: rev) := by
            rw [textRev, ← hrev, List.reverse_reverse]
          refine ⟨textRev (trimResult ((if last = linewrapItem then rev else last :: rev).length + 3)
            (if last = linewrapItem then rev else last :: rev) 3), ?_, ?_⟩
          · refine (trimResult_prefix _ _ _).trans ?_
            rw [hst]
            split
            · rw [textRev_cons]; exact List.prefix_append _ _
            · exact List.prefix_rfl
          · simp [itemsText, textRev, hlb, Item.astext, ellipsisItem, astext, dropPair]
    · next hne =>
      split at h
      · next hrec =>
        simp only [Except.ok.injEq] at h; subst h
        refine ⟨itemsText st.result, List.prefix_rfl, ?_⟩
        have : e = .recursion := by simpa using hrec
        subst this
        simp [itemsText, Item.astext, ellipsisItem, astext, dropPair]
      · simp at h


/-! ## 7. the multi-line form of a bytes constant -/

theorem splitOnNat_ne_nil (sep : Nat) (b : List Nat) : splitOnNat sep b ≠ [] := by
  cases b with
  | nil => simp [splitOnNat]
  | cons c cs =>
    simp only [splitOnNat]
    split
    · simp
    · split <;> simp

theorem mem_splitOnNat (sep : Nat) : ∀ (b : List Nat) (l : List Nat), l ∈ splitOnNat sep b → ∀ x ∈ l, x ∈ b
  | [], l, hl, x, hx => by simp [splitOnNat] at hl; subst hl; simp at hx
  | c :: cs, l, hl, x, hx => by
    simp only [splitOnNat] at hl
    have ih := mem_splitOnNat sep cs
    cases h : splitOnNat sep cs with
    | nil => exact absurd h (splitOnNat_ne_nil sep cs)
    | cons l0 ls =>
      rw [h] at hl ih
      simp only at hl
      split at hl
      · simp only [List.mem_cons] at hl
        rcases hl with rfl | rfl | hl
        · simp at hx
        · exact List.mem_cons_of_mem _ (ih _ (by simp) x hx)
        · exact List.mem_cons_of_mem _ (ih _ (by simp [hl]) x hx)
      · simp only [List.mem_cons] at hl
        rcases hl with rfl | hl
        · simp only [List.mem_cons] at hx
          rcases hx with rfl | hx
          · simp
          · exact List.mem_cons_of_mem _ (ih _ (by simp) x hx)
        · exact List.mem_cons_of_mem _ (ih _ (by simp [hl]) x hx)

/-- what `_colorize_str` writes between the triple quotes of a bytes value -/
def bytesTriBody (b : List Nat) : List Char := joinSep ['\n'] ((splitOnNat 10 b).map bytesEscape)

theorem bytesTri_eq (b : List Nat) :
    joinSep ['\n'] ((splitOnNat 10 b).map (fun l => l.flatMap (bytesEscapeByte 39))) =
      b.flatMap (fun c => if c = 10 then ['\n'] else bytesEscapeByte 39 c) := by
  induction b with
  | nil => simp [splitOnNat, joinSep]
  | cons c cs ih =>
    simp only [splitOnNat]
    cases h : splitOnNat 10 cs with
    | nil => exact absurd h (splitOnNat_ne_nil 10 cs)
    | cons l ls =>
      rw [h] at ih
      by_cases hc : c = 10
      · subst hc
        simp only [if_true, List.map_cons, List.flatMap_cons, List.flatMap_nil]
        rw [joinSep_cons_cons, ← List.map_cons, ih]
        simp
      · simp only [hc, if_false, List.map_cons, List.flatMap_cons]
        rw [joinSep_append_head, ← List.map_cons, ih]

theorem unescapeBytes_rawNl (rest : List Char) :
    unescapeBytes true ('\n' :: rest) = (unescapeBytes true rest).map (10 :: ·) := by
  rw [unescapeBytes.eq_def]; simp

/-- the multi-line (triple-quoted, per-line escaped) form of a bytes value lexes back to the value -/
theorem bytes_roundtrip_lines (b : List Nat) (hb : ∀ x ∈ b, x < 256) :
    unescapeBytes true (bytesTriBody b) = some b := by
  unfold bytesTriBody
  have hmap : (splitOnNat 10 b).map bytesEscape =
      (splitOnNat 10 b).map (fun l => l.flatMap (bytesEscapeByte 39)) := by
    apply List.map_congr_left
    intro l hl
    exact bytesEscape_eq l (fun x hx => hb x (mem_splitOnNat 10 b l hl x hx))
  rw [hmap, bytesTri_eq]
  clear hmap
  induction b with
  | nil => simp [unescapeBytes]
  | cons c cs ih =>
    simp only [List.flatMap_cons]
    by_cases hc : c = 10
    · subst hc
      simp only [if_true, List.cons_append, List.nil_append]
      rw [unescapeBytes_rawNl, ih (fun x hx => hb x (by simp [hx]))]; rfl
    · simp only [hc, if_false]
      rw [unescape_escapeByte true c (hb c (by simp)), ih (fun x hx => hb x (by simp [hx]))]; rfl

example : bytesTriBody [34, 10, 39] = "\"\n\\'".toList := by decide


/-! ## 8. the display of a string constant, end to end -/

theorem spellsL_append (lb : Bool) (a b : List Prog) (t : List Char) :
    SpellsL lb (a ++ b) t ↔ ∃ u v, SpellsL lb a u ∧ SpellsL lb b v ∧ t = u ++ v := by
  induction a generalizing t with
  | nil => simp [SpellsL]
  | cons p ps ih =>
    simp only [List.cons_append, SpellsL]
    constructor
    · rintro ⟨u, v, hu, hv, rfl⟩
      obtain ⟨v1, v2, h1, h2, rfl⟩ := (ih v).1 hv
      exact ⟨u ++ v1, v2, ⟨u, v1, hu, h1, rfl⟩, h2, by simp⟩
    · rintro ⟨u, v, ⟨u1, u2, hu1, hu2, rfl⟩, hv, rfl⟩
      exact ⟨u1, u2 ++ v, hu1, (ih _).2 ⟨u2, v, hu2, hv, rfl⟩, by simp⟩

theorem spellsL_linesProg (lb first : Bool) (ls : List (List Char)) (t : List Char) :
    SpellsL lb (linesProg first ls) t →
      t = (if first || ls.isEmpty then [] else ['\n']) ++ joinSep ['\n'] ls := by
  induction ls generalizing first t with
  | nil => simp [linesProg, SpellsL, joinSep]
  | cons l rest ih =>
    intro h
    rw [linesProg, spellsL_append, ] at h
    obtain ⟨u, v, hu, hv, rfl⟩ := h
    rw [spellsL_append] at hu
    obtain ⟨u1, u2, h1, h2, rfl⟩ := hu
    have e2 : u2 = l := by simpa [SpellsL, Spells] using h2
    have ev := ih false v hv
    have e1 : u1 = if first then [] else ['\n'] := by
      cases first <;> simpa [SpellsL, Spells] using h1
    subst e2; rw [e1, ev]
    cases rest with
    | nil => cases first <;> simp [joinSep]
    | cons r rs => cases first <;> simp [joinSep]

/-- the quote `_colorize_str` picks -/
def strQuote (lb : Bool) (s : List Char) : List Char :=
  if lb && s.contains '\n' then ['\'', '\'', '\''] else ['\'']

/-- every complete spelling of a string constant: quote, body, quote — the body being the escaped
string, or with line breaks allowed the per-line escaped form (`triBody`) -/
theorem spells_strProg (lb : Bool) (s t : List Char) (h : Spells lb (strProg s) t) :
    t = strQuote lb s ++ (if lb then triBody s else strEscape s) ++ strQuote lb s := by
  unfold strProg at h
  cases lb with
  | false =>
    simp only [Spells, Bool.false_eq_true, if_false, SpellsL] at h
    obtain ⟨u1, v1, h1, ⟨u2, v2, h2, ⟨u3, v3, h3, ⟨u4, v4, h4, h5, rfl⟩, rfl⟩, rfl⟩, rfl⟩ := h
    subst h1 h2 h3 h4 h5
    simp [strQuote]
  | true =>
    simp only [Spells, if_true] at h
    rw [spellsL_append] at h
    obtain ⟨u, v, hu, hv, rfl⟩ := h
    rw [spellsL_append] at hu
    obtain ⟨u1, u2, h1, h2, rfl⟩ := hu
    have e2 := spellsL_linesProg true true _ _ h2
    simp only [SpellsL, Spells] at h1 hv
    obtain ⟨a1, b1, ha1, ⟨a2, b2, ha2, hb2, rfl⟩, rfl⟩ := h1
    obtain ⟨a3, b3, ha3, hb3, rfl⟩ := hv
    subst ha1 ha2 hb2 ha3 hb3
    rw [e2]
    simp [strQuote, triBody]

/-- **the display of a string constant lexes back to the string, in every configuration**: any
complete spelling is an opening quote, a body and the same closing quote, and Python's lexing of the
body (single- or triple-quoted accordingly) is the string -/
theorem str_display_roundtrip (lb : Bool) (s t : List Char) (h : Spells lb (strProg s) t) :
    ∃ body, t = strQuote lb s ++ body ++ strQuote lb s ∧
      unescapeStr (lb && s.contains '\n') body = some s := by
  refine ⟨_, spells_strProg lb s t h, ?_⟩
  cases lb with
  | false => simpa using str_roundtrip s
  | true =>
    simp only [if_true, Bool.true_and]
    by_cases hn : s.contains '\n' = true
    · rw [hn]; exact str_roundtrip_lines s
    · have hn' : s.contains '\n' = false := by simpa using hn
      rw [hn']
      -- no newline: one line, the triple-quote body is the plain escaped string
      have hgen : ∀ l : List Char, (∀ c ∈ l, c ≠ '\n') →
          l.flatMap (fun c => if c = '\n' then ['\n'] else strEscapeChar c) = l.flatMap strEscapeChar := by
        intro l hl
        induction l with
        | nil => rfl
        | cons c cs ih =>
          simp only [List.flatMap_cons]
          rw [ih (fun x hx => hl x (by simp [hx]))]
          simp [hl c (by simp)]
      have : triBody s = strEscape s := by
        rw [triBody_eq]
        exact hgen s (fun c hc e => by
          subst e
          have : s.contains '\n' = true := by simpa using hc
          rw [this] at hn'; exact absurd hn' (by simp))
      rw [this]; exact str_roundtrip s


/-- **Pyval.str_constant_display**: for every line length, line count and `linebreakok`: when a string
constant is displayed completely, then — continuation markers removed — it is a quoted body that
Python lexes back to the string -/
theorem str_constant_display (T : PrecTable) (linelen maxlines : Nat) (lb : Bool) (s : List Char)
    (r : Colorized) (h : colorize T (Cfg.make linelen maxlines lb) (.constStr s) = .ok r)
    (hc : r.isComplete = true) :
    ∃ body, unwrap r.items = strQuote lb s ++ body ++ strQuote lb s ∧
      unescapeStr (lb && s.contains '\n') body = some s := by
  have hw := (wrap_marked T linelen maxlines lb (.constStr s) r h).2 hc
  have hs : Spells lb (strProg s) (unwrap r.items) := by simpa [compile] using hw.1
  exact str_display_roundtrip lb s _ hs

/-! ## 9. the regex colourizer, element level: literals and group references read back -/

/-- Python's reading of ONE literal element of a regex text, for the spellings `_colorize_re_tree`
emits: backslash + (non-alphanumeric character | t r n f v | xHH | uHHHH), or a bare character.  In
verbose mode a bare blank is skipped and a bare `#` starts a comment: not a literal (`none`). -/
def unescRe (verbose : Bool) : List Char → Option Char
  | [c] => if c = '\\' then none else if verbose && (c = ' ' || c = '#') then none else some c
  | [b, e] =>
    if b ≠ '\\' then none
    else if e = 't' then some '\t' else if e = 'r' then some '\r' else if e = 'n' then some '\n'
    else if e = 'f' then some (Char.ofNat 12) else if e = 'v' then some (Char.ofNat 11)
    else if e.isAlphanum then none else some e
  | [b, k, a1, a2] =>
    if b ≠ '\\' ∨ k ≠ 'x' then none
    else match unhex a1, unhex a2 with
      | some x, some y => some (Char.ofNat (x * 16 + y))
      | _, _ => none
  | [b, k, a1, a2, a3, a4] =>
    if b ≠ '\\' ∨ k ≠ 'u' then none
    else match unhex a1, unhex a2, unhex a3, unhex a4 with
      | some w, some x, some y, some z => some (Char.ofNat (w * 4096 + x * 256 + y * 16 + z))
      | _, _, _, _ => none
  | _ => none

theorem unhex_hexDigit : ∀ k : Fin 16, unhex (hexDigit k.val) = some k.val := by decide +kernel

theorem specials_not_alnum : ∀ c ∈ reSpecials, c.isAlphanum = false ∧ c ≠ 't' ∧ c ≠ 'r' ∧ c ≠ 'n' ∧ c ≠ 'f' ∧ c ≠ 'v' ∧
    c ≠ 'x' ∧ c ≠ 'u' := by decide +kernel

/-- **every literal the regex colourizer writes reads back as that character** — in a set or not, with
or without the verbose escapes; in particular in verbose mode a blank or `#` is never written bare -/
theorem reLiteral_roundtrip (inSet verbose : Bool) (c : Char) :
    unescRe verbose (reLiteral inSet verbose c) = some c := by
  unfold reLiteral
  split
  · next h =>
    simp only [Bool.or_eq_true, Bool.and_eq_true, beq_iff_eq] at h
    rcases h with h | ⟨_, h⟩
    · have hs := specials_not_alnum c (by simpa using h)
      simp [unescRe, hs]
    · subst h; simp [unescRe]
  split
  · next h1 h =>
    simp only [Bool.and_eq_true, Bool.or_eq_true, beq_iff_eq] at h
    rcases h.1 with h | h <;> subst h <;> simp [unescRe]
  split
  · next h => subst h; simp [unescRe]
  split
  · next h => subst h; simp [unescRe]
  split
  · next h => subst h; simp [unescRe]
  split
  · next h => subst h; simp [unescRe]
  split
  · next h => subst h; simp [unescRe]
  split
  · next h =>
    simp only [Bool.and_eq_true, decide_eq_true_eq] at h
    have e : c.toNat / 4096 % 16 * 4096 + c.toNat / 256 % 16 * 256 + c.toNat / 16 % 16 * 16 + c.toNat % 16 = c.toNat := by
      omega
    have h1 := unhex_hexDigit ⟨c.toNat / 4096 % 16, by omega⟩
    have h2 := unhex_hexDigit ⟨c.toNat / 256 % 16, by omega⟩
    have h3 := unhex_hexDigit ⟨c.toNat / 16 % 16, by omega⟩
    have h4 := unhex_hexDigit ⟨c.toNat % 16, by omega⟩
    simp only at h1 h2 h3 h4
    simp [hex4, unescRe, h1, h2, h3, h4, e]
  split
  · next h0 h =>
    simp only [Bool.and_eq_true, Bool.or_eq_true, decide_eq_true_eq, not_and, Nat.not_le] at h h0
    have hlt : c.toNat < 256 := by
      by_cases hh : c.toNat > 255
      · have := h0 hh; omega
      · omega
    have e : c.toNat / 16 % 16 * 16 + c.toNat % 16 = c.toNat := by omega
    have h3 := unhex_hexDigit ⟨c.toNat / 16 % 16, by omega⟩
    have h4 := unhex_hexDigit ⟨c.toNat % 16, by omega⟩
    simp only at h3 h4
    simp [unescRe, h3, h4, e]
  · next h1 h2 h3 h4 h5 h6 h7 h8 h9 =>
    have hb : c ≠ '\\' := by
      intro e; subst e
      have : '\\' ∈ reSpecials := by decide
      simp only [Bool.or_eq_true, List.contains_iff_mem, Bool.and_eq_true, beq_iff_eq, not_or] at h1
      exact h1.1 this
    simp only [Bool.and_eq_true, Bool.or_eq_true, beq_iff_eq, not_and, Bool.not_eq_true] at h2
    cases verbose with
    | false => simp [unescRe, hb]
    | true =>
      have : ¬ (c = ' ' ∨ c = '#') := by
        intro h; have := h2 h; simp at this
      simp [unescRe, hb, this]

/-- HISTORICAL (before 55809ad): in verbose mode a blank / `#` was written bare — skipped by Python, or
the start of a comment -/
theorem reLiteral_old_counterexample :
    reLiteralOld false ' ' = [' '] ∧ unescRe true (reLiteralOld false ' ') = none ∧
    reLiteralOld false '#' = ['#'] ∧ unescRe true (reLiteralOld false '#') = none ∧
    reLiteral false true ' ' = ['\\', ' '] ∧ reLiteral false true '#' = ['\\', '#'] := by decide

/-- the group number Python reads: the maximal run of digits after the first backslash -/
def refDigits : List Char → List Char
  | [] => []
  | c :: rest => if c = '\\' then rest.takeWhile isDigitChar else refDigits rest

theorem toDigits_digits : ∀ n : Fin 100, (Nat.toDigits 10 n.val).all isDigitChar = true := by decide +kernel

theorem takeWhile_digits (ds rest : List Char) (h : ds.all isDigitChar = true)
    (hr : ∀ x, rest.head? = some x → isDigitChar x = false) :
    (ds ++ rest).takeWhile isDigitChar = ds := by
  induction ds with
  | nil =>
    cases rest with
    | nil => rfl
    | cons x xs => simp [List.takeWhile, hr x rfl]
  | cons d ds ih =>
    simp only [List.all_cons, Bool.and_eq_true] at h
    simp [List.takeWhile, h.1, ih h.2]

theorem reLiteral_head (c : Char) (hc : isDigitChar c = false) :
    ∀ x, (reLiteral false false c).head? = some x → isDigitChar x = false := by
  intro x hx
  have hb : isDigitChar '\\' = false := by decide
  unfold reLiteral at hx
  repeat' split at hx
  all_goals (first
    | (simp only [List.head?_cons, Option.some.injEq] at hx; subst hx; first | exact hb | exact hc)
    | (simp at hx))

/-- **a group reference keeps its number**: whatever literal follows (a digit included), the digits
Python reads after the backslash are exactly those of the group number -/
theorem groupref_reads_back (n : Nat) (hn : n < 100) (next : Option Char) :
    refDigits (reGroupRef n next ++ (next.map (reLiteral false false)).getD []) = Nat.toDigits 10 n := by
  have hd := toDigits_digits ⟨n, hn⟩
  simp only at hd
  cases next with
  | none =>
    simp only [reGroupRef, Option.map_none, Option.getD_none, List.append_nil, refDigits, if_true]
    simpa using takeWhile_digits (Nat.toDigits 10 n) [] hd (by simp)
  | some d =>
    simp only [reGroupRef, Option.map_some, Option.getD_some]
    by_cases hdig : isDigitChar d = true
    · simp only [hdig, if_true]
      have e : ("(?:".toList ++ '\\' :: Nat.toDigits 10 n ++ [')']) ++ reLiteral false false d =
          '(' :: '?' :: ':' :: '\\' :: (Nat.toDigits 10 n ++ (')' :: reLiteral false false d)) := by simp
      rw [e]
      have h1 : ('(' : Char) ≠ '\\' := by decide
      have h2 : ('?' : Char) ≠ '\\' := by decide
      have h3 : (':' : Char) ≠ '\\' := by decide
      simp only [refDigits, h1, h2, h3, if_false, if_true]
      exact takeWhile_digits _ _ hd (by intro x hx; simp at hx; subst hx; decide)
    · have hdig' : isDigitChar d = false := by simpa using hdig
      simp only [hdig', Bool.false_eq_true, if_false]
      have e : ('\\' :: Nat.toDigits 10 n) ++ reLiteral false false d =
          '\\' :: (Nat.toDigits 10 n ++ reLiteral false false d) := by simp
      rw [e]
      simp only [refDigits, if_true]
      exact takeWhile_digits _ _ hd (reLiteral_head d hdig')

/-- HISTORICAL (before fd7f5b9): `(a)\1` followed by the literal `0` was written `\10` — group 10 -/
theorem groupref_old_counterexample :
    refDigits (reGroupRefOld 1 ++ reLiteral false false '0') = ['1', '0'] ∧
    refDigits (reGroupRef 1 (some '0') ++ reLiteral false false '0') = ['1'] := by decide


end Pyval
