/-
C04, re-exports (item 3), layer D — the visitor over the relocated invariant (milestone M2): every
statement kind, a body, `processModule`, `process`, `run` keep `Rx.PdInv`, raise nothing, and leave what
`CompleteStmt` says — the clean-run part (`bad = false`, frames, fuel) is proved in the same pass.
-/
import PdProps.C04ReexpC

namespace Imports.Rx
open Registry Imports

/-! ## support: modules, `lookupModule`, `expandName` never crash -/

theorem loc_len2 {proj : Project} {rank : List Nat} (wf : WFacts proj rank) (s : St) {S : Site} (hS : StaticSite proj S)
    (h2 : S.2 ≠ []) : 2 ≤ (loc proj s S).length := by
  rcases relocSite_cases proj (movedB proj s) S with h | ⟨r, hr, rest, _, _, h⟩
  · rw [show loc proj s S = _ from h]
    have h1 := List.length_pos_iff.2 (wf.parentOk S.1 hS.1).1
    have h3 := List.length_pos_iff.2 h2
    simp only [sitePath, List.length_append]; omega
  · rw [show loc proj s S = _ from h]
    have h1 := List.length_pos_iff.2 (wf.parentOk r.2.2.1 (req_stmt hr).1).1
    simp only [List.length_append, List.length_singleton]; omega

/-- an object with a module class is one of the project's modules: its id is the module index -/
theorem module_obj {proj : Project} {s : St} (hI : PdInv proj s) {t : Nat} (h : isModuleObj s.reg t = true) :
    t < proj.length := by
  unfold isModuleObj at h
  cases ho : getObj s.reg t with
  | none => simp [ho] at h
  | some o =>
    simp only [ho] at h
    obtain ⟨S, hk, hp⟩ := hI.site t o ho
    have hS2 := hk.isMod.1 h
    have hlt := hk.static.1
    obtain ⟨om, _, hpm, _⟩ := hI.mods S.1 hlt
    have e : loc proj s S = pathOf proj S.1 := by
      obtain ⟨m, cp⟩ := S; simp only at hS2; subst hS2; exact loc_mod proj s m
    rw [e] at hp
    have h1 := dget_of_path hI.reg hp
    have h2 := dget_of_path hI.reg hpm
    rw [h1] at h2; injection h2 with h2
    rw [h2]; exact hlt

theorem lookupModule_spec {proj : Project} {s : St} (hI : PdInv proj s) {T : Path} {t : Nat} {crash : Bool}
    (h : lookupModule s T = (some t, crash)) :
    t < proj.length ∧ ∀ t', modIdx proj T = some t' → t = t' := by
  unfold lookupModule at h
  simp only at h
  constructor
  · split at h
    · rename_i i hi
      split at h
      · rename_i hm; injection h with h1 _; injection h1 with h1; subst h1; exact module_obj hI hm
      · cases h
    · cases h
  · intro t' ht'
    obtain ⟨hlt, hp⟩ := modIdx_spec ht'
    obtain ⟨om, _, hpm, _⟩ := hI.mods t' hlt
    rw [hp] at hpm
    have hreg : Names.objFor (envOf s) T = some t' := dget_of_path hI.reg hpm
    simp only [hreg] at h
    split at h
    · injection h with h1 _; injection h1 with h1; exact h1.symm
    · cases h

theorem isPkgObj_mod {proj : Project} {s : St} (hI : PdInv proj s) {m : Nat} (hm : m < proj.length) :
    isPkgObj s.reg m = isPkg proj m := by
  obtain ⟨o, ho, _, hc⟩ := hI.mods m hm
  unfold isPkgObj getObj
  simp only [ho, hc, modCls]
  cases isPkg proj m <;> simp

theorem absName_eq {proj : Project} {s : St} (hI : PdInv proj s) {mod : Nat} (hm : mod < proj.length)
    (lvl : Nat) (M : Path) : absName s mod lvl M = pdAbsName proj mod lvl M := by
  obtain ⟨o, ho, hp, hc⟩ := hI.mods mod hm
  unfold absName pdAbsName
  by_cases hl : lvl = 0
  · simp [hl]
  · simp only [hl, if_false, hp, isPkgObj_mod hI hm]; rfl

/-- an object that is not a module has a parent -/
theorem nonmodule_parent {proj : Project} {rank : List Nat} (wf : WFacts proj rank) {s : St} (hI : PdInv proj s)
    {i : Nat} {o : Obj} (ho : s.reg.objs[i]? = some o) (hc : isModuleCls o.cls = false) : ∃ q, o.parent = some q := by
  obtain ⟨S, hk, hp⟩ := hI.site i o ho
  cases hpar : o.parent with
  | some q => exact ⟨q, rfl⟩
  | none =>
    exfalso
    have h1 := (path_sound hp).root_inv ho hpar
    have hS2 : S.2 ≠ [] := by
      intro h0; have := hk.isMod.2 h0; rw [hc] at this; cases this
    have := loc_len2 wf s hk.static hS2
    rw [h1] at this; simp at this

theorem localName_some' {proj : Project} {rank : List Nat} (wf : WFacts proj rank) {s : St} (hI : PdInv proj s)
    (e : Names.Env) (he : e.st = s.reg) :
    ∀ (f i : Nat) (p : Path), pathAux s.reg.objs f i = some p → ∀ y,
      (∃ r, Names.localName e f i y = some r) ∧ (∃ r, Names.localNameSkip e f i y = some r)
  | 0, _, _, h, _ => by simp [pathAux] at h
  | f+1, i, p, h, y => by
    obtain ⟨o, ho, hcase⟩ := pathAux_inv h
    have hgo : getObj e.st i = some o := by rw [he]; exact ho
    have hil := (List.getElem?_eq_some_iff.1 ho).1
    obtain ⟨pi, hpi⟩ := path_of_lt hI.reg hil
    -- the parent step, for objects that are not modules
    have hparent : isModuleCls o.cls = false → ∃ q, o.parent = some q ∧ (∃ r, Names.localName e f q y = some r) ∧
        (∃ r, Names.localNameSkip e f q y = some r) := by
      intro hc
      obtain ⟨q, hq⟩ := nonmodule_parent wf hI ho hc
      rcases hcase with ⟨hn, _⟩ | ⟨q', p', hq', hpq, _⟩
      · rw [hq] at hn; cases hn
      · rw [hq] at hq'; injection hq' with hq'; subst hq'
        exact ⟨q, hq, localName_some' wf hI e he f q p' hpq y⟩
    have hmod : ∀ r0 : Option Path, (match dget o.contents y with
          | some c => path e.st c
          | none => match dget o.aliases y with
            | some t => some t
            | none => r0) = none → r0 = none := by
      intro r0 h0
      cases hd : dget o.contents y with
      | some c =>
        simp only [hd] at h0
        rw [he, path_child hI.reg ho hd hpi] at h0; cases h0
      | none =>
        simp only [hd] at h0
        cases ha : dget o.aliases y with
        | some t => simp [ha] at h0
        | none => simpa [ha] using h0
    have hsome : ∀ {x : Option Path}, x ≠ none → ∃ r, x = some r := by
      intro x hx; cases x with
      | none => exact absurd rfl hx
      | some r => exact ⟨r, rfl⟩
    constructor
    · rw [Names.localName.eq_def]
      simp only [hgo]
      cases hc : o.cls with
      | module => exact hsome (fun h0 => by have := hmod _ h0; cases this)
      | package => exact hsome (fun h0 => by have := hmod _ h0; cases this)
      | cls =>
        obtain ⟨q, hq, _, r, hr⟩ := hparent (by rw [hc]; rfl)
        simp only [hq]
        exact hsome (fun h0 => by have := hmod _ h0; rw [hr] at this; cases this)
      | function =>
        obtain ⟨q, hq, ⟨r, hr⟩, _⟩ := hparent (by rw [hc]; rfl)
        simp only [hq]; exact ⟨r, hr⟩
      | «attribute» =>
        obtain ⟨q, hq, ⟨r, hr⟩, _⟩ := hparent (by rw [hc]; rfl)
        simp only [hq]; exact ⟨r, hr⟩
    · rw [Names.localNameSkip.eq_def]
      simp only [hgo]
      cases hc : o.cls with
      | module => exact hsome (fun h0 => by have := hmod _ h0; cases this)
      | package => exact hsome (fun h0 => by have := hmod _ h0; cases this)
      | cls =>
        obtain ⟨q, hq, ⟨r1, hr1⟩, r2, hr2⟩ := hparent (by rw [hc]; rfl)
        simp only [hq]
        cases hgq : getObj e.st q with
        | none =>
          simp only [Bool.false_eq_true, if_false]
          exact hsome (fun h0 => by have := hmod _ h0; rw [hr1] at this; cases this)
        | some po =>
          simp only
          by_cases hcc : canContainImports po.cls = true
          · rw [if_pos hcc]; exact ⟨r2, hr2⟩
          · rw [if_neg hcc]
            exact hsome (fun h0 => by have := hmod _ h0; rw [hr1] at this; cases this)
      | function =>
        obtain ⟨q, hq, ⟨r, hr⟩, _⟩ := hparent (by rw [hc]; rfl)
        simp only [hq]; exact ⟨r, hr⟩
      | «attribute» =>
        obtain ⟨q, hq, ⟨r, hr⟩, _⟩ := hparent (by rw [hc]; rfl)
        simp only [hq]; exact ⟨r, hr⟩

theorem localName_some {proj : Project} {rank : List Nat} (wf : WFacts proj rank) {s : St} (hI : PdInv proj s)
    (e : Names.Env) (he : e.st = s.reg) (f i : Nat) (p : Path) (h : pathAux s.reg.objs f i = some p) (y : Name) :
    ∃ r, Names.localName e f i y = some r := (localName_some' wf hI e he f i p h y).1

theorem expandLoop_some {proj : Project} {rank : List Nat} (wf : WFacts proj rank) {s : St} (hI : PdInv proj s)
    (e : Names.Env) (he : e.st = s.reg) :
    ∀ (ys : List Name) (i : Nat) (first : Bool), ys ≠ [] → i < s.reg.objs.length →
      ∃ p, Names.expandLoop e i first ys = some p
  | [], _, _, hne, _ => absurd rfl hne
  | y :: rest, i, first, hne, hi => by
    clear hne
    obtain ⟨pi, hpi⟩ := path_of_lt hI.reg hi
    have hpe : path e.st i = some pi := by rw [he]; exact hpi
    have ho : s.reg.objs[i]? = some s.reg.objs[i] := by simp [hi]
    have hgo : getObj e.st i = some s.reg.objs[i] := by rw [he]; exact ho
    obtain ⟨fn, hfn⟩ : ∃ fn, Names.componentName e i first y = some fn := by
      unfold Names.componentName
      simp only [hgo]
      split
      · exact ⟨_, rfl⟩
      · unfold Names.fuelOf; rw [he]
        exact localName_some wf hI e he _ i pi hpi y
    have hcont : ∀ full : Path, (decide (full = [y]) && !first) = false → Names.componentName e i first y = some full →
        ∃ p, Names.expandLoop e i first (y :: rest) = some p := by
      intro full hnb hcn
      rw [expandLoop_found hcn hnb]
      cases hof : Names.objFor e full with
      | none => exact ⟨_, rfl⟩
      | some nxt =>
        cases rest with
        | nil => exact ⟨_, rfl⟩
        | cons y2 r =>
          have hreg : dget s.reg.all full = some nxt := by
            have := hof; unfold Names.objFor at this; rw [he] at this; exact this
          have hl := path_lt (hI.reg.reg.keys _ _ (mem_of_dget hreg))
          exact expandLoop_some wf hI e he (y2 :: r) nxt false (by simp) hl
    by_cases hnf : (decide (fn = [y]) && !first) = false
    · exact hcont fn hnf hfn
    · have hnf' : fn = [y] ∧ first = false := by cases first <;> simp_all
      obtain ⟨h1, h2⟩ := hnf'
      subst h1; subst h2
      by_cases hcl : (s.reg.objs[i]).cls = .cls
      · rw [Names.expandLoop]
        simp only [hfn, hgo, hcl, hpe, Bool.not_false, Bool.and_true, decide_true, if_true]
        cases hcf : Names.classLookup e i y with
        | none => simp
        | some inh =>
          simp only
          by_cases hin : inh = [y]
          · simp [hin]
          · simp only [hin, if_false]
            cases hof : Names.objFor e inh with
            | none => exact ⟨_, rfl⟩
            | some nxt =>
              cases rest with
              | nil => exact ⟨_, rfl⟩
              | cons y2 r =>
                have hreg : dget s.reg.all inh = some nxt := by
                  have := hof; unfold Names.objFor at this; rw [he] at this; exact this
                have hl := path_lt (hI.reg.reg.keys _ _ (mem_of_dget hreg))
                simp only
                exact expandLoop_some wf hI e he (y2 :: r) nxt false (by simp) hl
      · exact ⟨_, expandLoop_notfound hfn hgo hcl hpe⟩

theorem findObject_nocrash {proj : Project} {rank : List Nat} (wf : WFacts proj rank) {s : St} (hI : PdInv proj s)
    (T : Path) : Names.findObject (envOf s) T ≠ .indexError ∧ Names.findObject (envOf s) T ≠ .crash := by
  cases hof : Names.objFor (envOf s) T with
  | some i => unfold Names.findObject; simp [hof]
  | none =>
    have hfo : Names.findObject (envOf s) T ≠ .indexError ∧ Names.findObject (envOf s) T ≠ .crash := by
      suffices h : Names.findObjectOld (envOf s) T ≠ .indexError ∧ Names.findObjectOld (envOf s) T ≠ .crash from
        ⟨Names.findObject_ne_of_old (by simp) h.1, Names.findObject_ne_of_old (by simp) h.2⟩
      unfold Names.findObjectOld
      simp only [hof]
      cases T with
      | nil => simp
      | cons r rest =>
        simp only
        split
        · simp
        · rename_i ro hfind
          have hmem := List.mem_of_find?_eq_some hfind
          have hpred := List.find?_some hfind
          obtain ⟨oo, hoo, hpar⟩ := hI.reg.tree.rootsOk ro hmem
          have hgo : getObj (envOf s).st ro = some oo := hoo
          simp only [hgo, decide_eq_true_eq] at hpred
          by_cases hrest : rest = []
          · exfalso
            subst hrest
            have hpro : path s.reg ro = some [r] := by
              rw [← hpred]; simp only [path]; exact pathAux_root hoo hpar
            have := dget_of_path hI.reg hpro
            have h2 : Names.objFor (envOf s) [r] = some ro := this
            rw [hof] at h2; cases h2
          · simp only [hrest, if_false]
            obtain ⟨p2, hp2⟩ := expandLoop_some wf hI (envOf s) rfl rest ro true hrest
              (List.getElem?_eq_some_iff.1 hoo).1
            have : Names.expandName (envOf s) ro rest = some p2 := hp2
            simp only [this]
            cases Names.objFor (envOf s) p2 <;> simp
    exact hfo

theorem lookupModule_nocrash {proj : Project} {rank : List Nat} (wf : WFacts proj rank) {s : St} (hI : PdInv proj s)
    (T : Path) : (lookupModule s T).2 = false := by
  unfold lookupModule
  simp only
  cases hof : Names.objFor (envOf s) T with
  | some i => simp only; split <;> (try split) <;> rfl
  | none =>
    simp only
    have hfo := findObject_nocrash wf hI T
    cases hf : Names.findObject (envOf s) T with
    | obj i => simp only; split <;> (try split) <;> rfl
    | external => rfl
    | lookupError => rfl
    | indexError => exact absurd hf hfo.1
    | crash => exact absurd hf hfo.2

/-! ## the two obligations carried as hypotheses (discharged / discussed in layer E) -/

/-- registry level: `reparent` of a child of a container onto a free name of an object that is not below it
raises nothing -/
def ReparentOk : Prop :=
  ∀ (st : State) (ob np : Nat) (nn : Name) (op : Nat) (opo : Obj) (k : Name) (pnp : Path),
    Inv st → st.objs[op]? = some opo → canContainImports opo.cls = true → dget opo.contents k = some ob →
    path st np = some pnp → dget st.all (pnp ++ [nn]) = none → ¬ Below st.objs ob np →
    ∃ st', reparent st ob np nn = .ok st'

/-- every package above an import target, other than the importing module itself, has a rank below the importer's
(since /repo 0ba6723 `getProcessedModule` enters the unprocessed packages above the module it is asked for) -/
def AboveLow (proj : Project) (rank : List Nat) : Prop :=
  ∀ (S : Site) (b : List Stmt) (st : Stmt) (t P : Nat), siteBody proj S = some b → st ∈ b →
    some t ∈ stmtTargets proj S.1 st → P < proj.length → (∃ q, q ≠ [] ∧ pathOf proj t = pathOf proj P ++ q) →
    P = S.1 ∨ rankOf rank P < rankOf rank S.1

/-- the implicit submodule lookup of `from <package> import n` (`getProcessedModule(f'{modname}.{name}')`) enters
no module whose rank is not below the importing module's; and `AboveLow` -/
def SubLookup (proj : Project) (rank : List Nat) : Prop :=
  (∀ (s : St), PdInv proj s → ∀ (S : Site) (b : List Stmt) (lvl : Nat) (M : Path) (n : Name) (a : Option Name) (t : Nat),
    siteBody proj S = some b → Stmt.importFrom lvl M n a ∈ b → target proj S.1 lvl M = some t → isPkg proj t = true →
    ∀ t2 c, lookupModule s (pathOf proj t ++ [n]) = (some t2, c) → getPs s t2 = .unprocessed →
      rankOf rank t2 < rankOf rank S.1 ∧ modIdx proj (pathOf proj t ++ [n]) = some t2) ∧ AboveLow proj rank

/-! ## `getProcessedModule` -/

theorem cnt_ext {proj : Project} {s s' : St} (hI : PdInv proj s) (hI' : PdInv proj s') (he : Ext proj s s') : cnt s' ≤ cnt s :=
  cnt_le_of_psRel he.ps (by rw [hI.lens.1, hI'.lens.1])

/-- one nesting level of `processModule`: on states with at most `k` unprocessed modules, entered for a module
whose rank is below that of every module being processed -/
def PmOk (proj : Project) (rank : List Nat) (pm : St → Nat → St) (k : Nat) : Prop :=
  ∀ s t, s.bad = false → PdInv proj s → t < proj.length → getPs s t = .unprocessed → cnt s ≤ k →
    (∀ u, getPs s u = .processing → rankOf rank t < rankOf rank u) →
    (pm s t).bad = false ∧ PdInv proj (pm s t) ∧ Ext proj s (pm s t) ∧ getPs (pm s t) t = .processed ∧
    FrameX proj none [] s (pm s t)

theorem psRel_unproc {s s' : St} (h : PsRel s s') {x : Nat} (hx : getPs s' x = .unprocessed) : getPs s x = .unprocessed := by
  cases hp : getPs s x with
  | unprocessed => rfl
  | processing => rw [(h x).1 hp] at hx; cases hx
  | processed => rw [(h x).2.1 hp] at hx; cases hx

theorem psRel_processing {s s' : St} (h : PsRel s s') {u : Nat} (hu : getPs s' u = .processing) : getPs s u = .processing := by
  cases hp : getPs s u with
  | processing => rfl
  | unprocessed => exact absurd hu ((h u).2.2 hp)
  | processed => rw [(h u).2.1 hp] at hu; cases hu

theorem modulesAbove_lt {proj : Project} {s : St} (hI : PdInv proj s) :
    ∀ (f i : Nat), ∀ m ∈ modulesAbove s.reg f i, m < proj.length
  | 0, _, m, h => by simp [modulesAbove] at h
  | f+1, i, m, h => by
    unfold modulesAbove at h
    split at h
    · split at h
      · rename_i par _ hm
        rcases List.mem_cons.1 h with h | h
        · subst h; exact module_obj hI hm
        · exact modulesAbove_lt hI f par m h
      · cases h
    · cases h

/-- the modules above an object are registered under proper prefixes of its name -/
theorem modulesAbove_prefix {proj : Project} {s : St} (hI : PdInv proj s) :
    ∀ (f i : Nat) (pi : Path), path s.reg i = some pi → ∀ P ∈ modulesAbove s.reg f i,
      ∃ pp q, path s.reg P = some pp ∧ q ≠ [] ∧ pi = pp ++ q
  | 0, _, _, _, P, h => by simp [modulesAbove] at h
  | f+1, i, pi, hp, P, h => by
    unfold modulesAbove at h
    cases hgo : getObj s.reg i with
    | none => simp [hgo] at h
    | some o =>
      cases hpar : o.parent with
      | none => simp [hgo, hpar] at h
      | some par =>
        simp only [hgo, Option.bind_some, hpar] at h
        split at h
        · have hm := Registry.mem_of_path hI.reg hp
          have ho : s.reg.objs[i]? = some o := hgo
          obtain ⟨pq, hpq, e⟩ := (hI.reg.reg.hasPath hm).child_inv ho hpar
          have hppar : path s.reg par = some pq := by
            obtain ⟨k0, hk0⟩ := hI.reg.full par hpq.lt
            have := (hI.reg.reg.hasPath hk0).func hpq
            subst this
            exact hI.reg.reg.keys _ _ hk0
          rcases List.mem_cons.1 h with h | h
          · subst h; exact ⟨pq, [o.name], hppar, by simp, e⟩
          · obtain ⟨pp, q, h1, h2, h3⟩ := modulesAbove_prefix hI f par pq hppar P h
            exact ⟨pp, q ++ [o.name], h1, by simp, by rw [e, h3]; simp⟩
        · cases h

theorem pmMany_ok {proj : Project} {rank : List Nat} {pm : St → Nat → St} {k : Nat} (hpm : PmOk proj rank pm k) :
    ∀ (l : List Nat) (s : St), (∀ m ∈ l, m < proj.length) → PdInv proj s → s.bad = false → cnt s ≤ k →
      (∀ m ∈ l, getPs s m = .unprocessed → ∀ u, getPs s u = .processing → rankOf rank m < rankOf rank u) →
      (pmMany pm l s).bad = false ∧ PdInv proj (pmMany pm l s) ∧ Ext proj s (pmMany pm l s) ∧
      FrameX proj none [] s (pmMany pm l s)
  | [], s, _, hI, hb, _, _ => ⟨hb, hI, Ext.refl _ _, FrameX.refl _ _ _ _⟩
  | m :: r, s, hl, hI, hb, hk, hlow => by
    rw [show pmMany pm (m :: r) s = pmMany pm r (if getPs s m = .unprocessed then pm s m else s) from rfl]
    by_cases hu : getPs s m = .unprocessed
    · simp only [hu, if_true]
      have hm := hl m List.mem_cons_self
      obtain ⟨hb1, hI1, he1, _, hf1⟩ := hpm s m hb hI hm hu hk (hlow m List.mem_cons_self hu)
      have hk1 : cnt (pm s m) ≤ k := Nat.le_trans (cnt_ext hI hI1 he1) hk
      obtain ⟨hb2, hI2, he2, hf2⟩ := pmMany_ok hpm r _ (fun x hx => hl x (List.mem_cons_of_mem _ hx)) hI1 hb1 hk1
        (fun x hx hxu u huu => hlow x (List.mem_cons_of_mem _ hx) (psRel_unproc he1.ps hxu) u (psRel_processing he1.ps huu))
      exact ⟨hb2, hI2, he1.trans he2, by simpa using hf1.trans he1.ps hf2⟩
    · simp only [hu, if_false]
      exact pmMany_ok hpm r _ (fun x hx => hl x (List.mem_cons_of_mem _ hx)) hI hb hk
        (fun x hx => hlow x (List.mem_cons_of_mem _ hx))

theorem gpmAbove_ok {proj : Project} {rank : List Nat} {pm : St → Nat → St} {k : Nat} (hpm : PmOk proj rank pm k)
    {s : St} {t : Nat} (hI : PdInv proj s) (hb : s.bad = false) (hk : cnt s ≤ k)
    (hrkA : getPs s t = .unprocessed → ∀ P ∈ modulesAbove s.reg (s.reg.objs.length + 1) t, getPs s P = .unprocessed →
      ∀ u, getPs s u = .processing → rankOf rank P < rankOf rank u) :
    (gpmAbove pm s t).bad = false ∧ PdInv proj (gpmAbove pm s t) ∧ Ext proj s (gpmAbove pm s t) ∧
    FrameX proj none [] s (gpmAbove pm s t) := by
  unfold gpmAbove
  split
  · rename_i hun
    unfold processAbove
    exact pmMany_ok hpm _ _ (fun m hm => modulesAbove_lt hI _ _ m (List.mem_reverse.1 hm)) hI hb hk
      (fun m hm => hrkA hun m (List.mem_reverse.1 hm))
  · exact ⟨hb, hI, Ext.refl _ _, FrameX.refl _ _ _ _⟩

theorem gpmOne_ok {proj : Project} {rank : List Nat} {pm : St → Nat → St} {k : Nat} (hpm : PmOk proj rank pm k)
    {s : St} {t : Nat} (hI : PdInv proj s) (hlt : t < proj.length) (hb : s.bad = false) (hk : cnt s ≤ k)
    (hrk : getPs s t = .unprocessed → ∀ u, getPs s u = .processing → rankOf rank t < rankOf rank u) :
    (gpmOne pm s t).bad = false ∧ PdInv proj (gpmOne pm s t) ∧ Ext proj s (gpmOne pm s t) ∧
    FrameX proj none [] s (gpmOne pm s t) ∧ getPs (gpmOne pm s t) t ≠ .unprocessed ∧
    (getPs s t ≠ .processing → getPs (gpmOne pm s t) t = .processed) := by
  unfold gpmOne
  simp only
  by_cases hun : getPs s t = .unprocessed
  · simp only [hun, if_true]
    obtain ⟨hb1, hI1, he1, hdone, hf1⟩ := hpm s t hb hI hlt hun hk (hrk hun)
    have hne : (PState.processed == PState.unprocessed) = false := by decide
    rw [hdone, hne, markBad_false]
    exact ⟨hb1, hI1, he1, hf1, by rw [hdone]; simp, fun _ => hdone⟩
  · simp only [hun, if_false]
    have : (getPs s t == PState.unprocessed) = false := by simpa using hun
    rw [this, markBad_false]
    refine ⟨hb, hI, Ext.refl _ _, FrameX.refl _ _ _ _, hun, fun hnp => ?_⟩
    cases hp : getPs s t with
    | unprocessed => exact absurd hp hun
    | processing => exact absurd hp hnp
    | processed => rfl

theorem gpm_ok {proj : Project} {rank : List Nat} (wf : WFacts proj rank) {pm : St → Nat → St} {k : Nat}
    (hpm : PmOk proj rank pm k) {s : St} {T : Path} (hI : PdInv proj s) (hb : s.bad = false) (hk : cnt s ≤ k)
    (hrk : ∀ t c, lookupModule s T = (some t, c) → getPs s t = .unprocessed →
      ∀ u, getPs s u = .processing → rankOf rank t < rankOf rank u)
    (hrkA : ∀ t c, lookupModule s T = (some t, c) → getPs s t = .unprocessed →
      ∀ P ∈ modulesAbove s.reg (s.reg.objs.length + 1) t,
      getPs s P = .unprocessed → ∀ u, getPs s u = .processing → rankOf rank P < rankOf rank u) :
    (getProcessedModule pm s T).1.bad = false ∧ PdInv proj (getProcessedModule pm s T).1 ∧
    Ext proj s (getProcessedModule pm s T).1 ∧ FrameX proj none [] s (getProcessedModule pm s T).1 ∧
    ∀ t, (getProcessedModule pm s T).2 = some t → t < proj.length ∧ (∀ t', modIdx proj T = some t' → t = t') ∧
      getPs (getProcessedModule pm s T).1 t ≠ .unprocessed ∧
      (getPs s t ≠ .processing → getPs (getProcessedModule pm s T).1 t = .processed) := by
  have hnc := lookupModule_nocrash wf hI T
  unfold getProcessedModule
  cases hl : lookupModule s T with
  | mk r crash =>
    rw [hl] at hnc; simp only at hnc; subst hnc
    cases r with
    | none =>
      simp only [markBad_false]
      exact ⟨hb, hI, Ext.refl _ _, FrameX.refl _ _ _ _, fun t ht => by cases ht⟩
    | some t =>
      simp only [markBad_false]
      obtain ⟨hlt, hu⟩ := lookupModule_spec hI hl
      obtain ⟨hbA, hIA, heA, hfA⟩ := gpmAbove_ok (t := t) hpm hI hb hk (hrkA t _ hl)
      have hkA : cnt (gpmAbove pm s t) ≤ k := Nat.le_trans (cnt_ext hI hIA heA) hk
      obtain ⟨hb1, hI1, he1, hf1, hne1, hdone1⟩ := gpmOne_ok hpm hIA hlt hbA hkA
        (fun hun u huu => hrk t _ hl (psRel_unproc heA.ps hun) u (psRel_processing heA.ps huu))
      refine ⟨hb1, hI1, heA.trans he1, by simpa using hfA.trans heA.ps hf1, fun t0 ht0 => ?_⟩
      injection ht0 with ht0; subst ht0
      refine ⟨hlt, hu, hne1, fun hnp => hdone1 (fun hpA => hnp (psRel_processing heA.ps hpA))⟩

/-- the packages above a module whose name is a prefix of an import target of the statement being visited: those that
are still unprocessed have a rank below that of every module being processed -/
theorem above_low {proj : Project} {rank : List Nat} (hsl : SubLookup proj rank) {s : St} (hI : PdInv proj s)
    {mod ctx : Nat} {S : Site} {full : List Stmt} (hc : Ctx proj rank s mod ctx S full) {st : Stmt} (hst : st ∈ full)
    {t : Nat} (htg : some t ∈ stmtTargets proj S.1 st) {t0 : Nat} (ht0 : t0 < proj.length) {q0 : Path}
    (hpre : pathOf proj t = pathOf proj t0 ++ q0) :
    ∀ P ∈ modulesAbove s.reg (s.reg.objs.length + 1) t0, getPs s P = .unprocessed →
      ∀ u, getPs s u = .processing → rankOf rank P < rankOf rank u := by
  intro P hP hPu u hu
  have hPl := modulesAbove_lt hI _ _ P hP
  obtain ⟨_, _, hpt0, _⟩ := hI.mods t0 ht0
  obtain ⟨pp, q, hpp, hq, he⟩ := modulesAbove_prefix hI _ _ _ hpt0 P hP
  obtain ⟨_, _, hpP, _⟩ := hI.mods P hPl
  rw [hpP] at hpp; injection hpp with hpp; subst hpp
  rcases hsl.2 S full st t P hc.body hst htg hPl ⟨q ++ q0, by simp [hq], by rw [hpre, he]; simp⟩ with h | h
  · rw [h, hc.hS1, hc.ps] at hPu; cases hPu
  · have := hc.low u hu
    rw [hc.hS1] at h; omega

theorem prefixesOf_spec : ∀ {tp p : Path}, p ∈ prefixesOf tp → p ≠ [] ∧ ∃ q, tp = p ++ q
  | [], _, h => by simp [prefixesOf] at h
  | x :: r, p, h => by
    simp only [prefixesOf, List.mem_cons, List.mem_map] at h
    rcases h with h | ⟨p', hp', rfl⟩
    · subst h; exact ⟨by simp, r, rfl⟩
    · obtain ⟨_, q, hq⟩ := prefixesOf_spec hp'
      exact ⟨by simp, q, by rw [hq]; rfl⟩

theorem importProcess_ok {proj : Project} {rank : List Nat} (wf : WFacts proj rank) (hsl : SubLookup proj rank)
    {pm : St → Nat → St} {k : Nat} (hpm : PmOk proj rank pm k) {mod ctx : Nat} {S : Site} {full : List Stmt}
    {tp : Path} {a : Option Name} (hst : Stmt.importMod tp a ∈ full) :
    ∀ (l : List Path), (∀ p ∈ l, p ≠ [] ∧ ∃ q, tp = p ++ q) → ∀ (s : St), PdInv proj s → Ctx proj rank s mod ctx S full →
      s.bad = false → cnt s ≤ k →
      (l.foldl (fun st p => (getProcessedModule pm st p).1) s).bad = false ∧
      PdInv proj (l.foldl (fun st p => (getProcessedModule pm st p).1) s) ∧
      Ext proj s (l.foldl (fun st p => (getProcessedModule pm st p).1) s) ∧
      FrameX proj none [] s (l.foldl (fun st p => (getProcessedModule pm st p).1) s)
  | [], _, s, hI, _, hb, _ => ⟨hb, hI, Ext.refl _ _, FrameX.refl _ _ _ _⟩
  | p :: r, hl, s, hI, hc, hb, hk => by
    simp only [List.foldl_cons]
    obtain ⟨t, ht, hrkt⟩ := wf.targets hc.body hst (modIdx proj tp) (by simp [stmtTargets])
    obtain ⟨htl, hpt⟩ := modIdx_spec ht
    have htg : some t ∈ stmtTargets proj S.1 (.importMod tp a) := by simp [stmtTargets, ht]
    obtain ⟨hpne, q, hq⟩ := hl p List.mem_cons_self
    -- the module the prefix names
    obtain ⟨tq, htq⟩ : ∃ tq, modIdx proj p = some tq := by
      by_cases hq0 : q = []
      · subst hq0; simp only [List.append_nil] at hq; exact ⟨t, hq ▸ ht⟩
      · obtain ⟨tq, h1, _⟩ := mod_path_prefix wf q.length t p q rfl htl (by rw [hpt, hq]) hpne hq0
        exact ⟨tq, h1⟩
    obtain ⟨htql, hptq⟩ := modIdx_spec htq
    have hpre : pathOf proj t = pathOf proj tq ++ q := by rw [hpt, hptq, hq]
    have hrk : ∀ t0 c, lookupModule s p = (some t0, c) → getPs s t0 = .unprocessed →
        ∀ u, getPs s u = .processing → rankOf rank t0 < rankOf rank u := by
      intro t0 c hlk hu0 u hu
      have := (lookupModule_spec hI hlk).2 tq htq; subst this
      have hlow := hc.low u hu
      by_cases hq0 : q = []
      · subst hq0
        have : t0 = t := by
          have h1 : modIdx proj p = some t := by simp only [List.append_nil] at hq; exact hq ▸ ht
          rw [htq] at h1; injection h1
        subst this
        rw [hc.hS1] at hrkt; omega
      · rcases hsl.2 S full _ t t0 hc.body hst htg htql ⟨q, hq0, hpre⟩ with h | h
        · rw [h, hc.hS1, hc.ps] at hu0; cases hu0
        · rw [hc.hS1] at h; omega
    have hrkA : ∀ t0 c, lookupModule s p = (some t0, c) → getPs s t0 = .unprocessed →
        ∀ P ∈ modulesAbove s.reg (s.reg.objs.length + 1) t0,
        getPs s P = .unprocessed → ∀ u, getPs s u = .processing → rankOf rank P < rankOf rank u := by
      intro t0 c hlk _
      have := (lookupModule_spec hI hlk).2 tq htq; subst this
      exact above_low hsl hI hc hst htg htql hpre
    obtain ⟨hb1, hI1, he1, hf1, _⟩ := gpm_ok wf hpm hI hb hk hrk hrkA
    have hk1 : cnt (getProcessedModule pm s p).1 ≤ k := Nat.le_trans (cnt_ext hI hI1 he1) hk
    obtain ⟨hb2, hI2, he2, hf2⟩ := importProcess_ok wf hsl hpm hst r (fun x hx => hl x (List.mem_cons_of_mem _ hx)) _ hI1
      (hc.ext hI hI1 he1) hb1 hk1
    exact ⟨hb2, hI2, he1.trans he2, by simpa using hf1.trans he1.ps hf2⟩

/-! ## `import` -/

theorem visitImport_ok {proj : Project} {rank : List Nat} (wf : WFacts proj rank) (rx : RxFacts proj) {s : St}
    (hI : PdInv proj s) {mod ctx : Nat} {S : Site} {full : List Stmt} (hc : Ctx proj rank s mod ctx S full)
    {t : Path} {a : Option Name} (hst : Stmt.importMod t a ∈ full) (hb : s.bad = false) :
    (visitImport ctx t a s).bad = false ∧ PdInv proj (visitImport ctx t a s) ∧ Ext proj s (visitImport ctx t a s) ∧
    CompleteStmt proj (visitImport ctx t a s) S ctx (.importMod t a) ∧
    FrameX proj (some ctx) [] s (visitImport ctx t a s) := by
  have hS := hc.stat
  obtain ⟨o, ho, _⟩ := hc.clsc
  have hp : path s.reg ctx = some (loc proj s S) := by rw [hc.locc hI]; exact hc.pathc
  unfold visitImport
  cases a with
  | some x =>
    have hk := import_name_not_req wf rx hc.body hst (k := x) (stmtNames_of_explicit (by simp [explicitNames])) rfl
    obtain ⟨h1, h2⟩ := setAlias_ok wf rx hI hp hS (JpdR.base (Jpd.importAs hc.body hst)) hk
    refine ⟨by rw [setAlias_bad]; exact hb, h1, h2, ?_, setAlias_frame proj _ _ s ctx x t⟩
    simp only [CompleteStmt, explicitNames, List.mem_singleton]
    intro y hy; subst hy; exact setAlias_entry ho
  | none =>
    cases t with
    | nil => exact ⟨hb, hI, Ext.refl _ s, by simp [CompleteStmt, explicitNames], FrameX.refl _ _ _ _⟩
    | cons h r =>
      have hk := import_name_not_req wf rx hc.body hst (k := h) (stmtNames_of_explicit (by simp [explicitNames])) rfl
      obtain ⟨h1, h2⟩ := setAlias_ok wf rx hI hp hS (JpdR.base (Jpd.importTop hc.body hst)) hk
      refine ⟨by rw [setAlias_bad]; exact hb, h1, h2, ?_, setAlias_frame proj _ _ s ctx h [h]⟩
      simp only [CompleteStmt, explicitNames, List.mem_singleton]
      intro y hy; subst hy; exact setAlias_entry ho

/-! ## helpers for `from … import` -/

theorem completeStmts_mem {proj : Project} {s : St} {S : Site} {ctx : Nat} : ∀ {body : List Stmt} {st : Stmt},
    CompleteStmts proj s S ctx body → st ∈ body → CompleteStmt proj s S ctx st
  | [], _, _, h => by cases h
  | x :: xs, st, hc, h => by
    simp only [CompleteStmts] at hc
    rcases List.mem_cons.1 h with rfl | h'
    · exact hc.1
    · exact completeStmts_mem hc.2 h'

theorem complete_entry {proj : Project} {s : St} {S : Site} {ctx : Nat} {st : Stmt} {x : Name}
    (hc : CompleteStmt proj s S ctx st) (hx : x ∈ explicitNames st) : HasEntry s ctx x := by
  cases st with
  | classDef n bs body =>
    simp only [explicitNames, List.mem_singleton] at hx; subst hx
    simp only [CompleteStmt] at hc; exact hc.1
  | importMod t a => simp only [CompleteStmt] at hc; exact hc x hx
  | importFrom l M n a =>
    simp only [explicitNames, List.mem_singleton] at hx; subst hx
    simp only [CompleteStmt] at hc; exact hc.1
  | importStar l M => simp [explicitNames] at hx
  | funcDef n =>
    simp only [explicitNames, List.mem_singleton] at hx; subst hx
    simpa only [CompleteStmt] using hc
  | assign n v =>
    simp only [explicitNames, List.mem_singleton] at hx; subst hx
    simpa only [CompleteStmt] using hc
  | allAssign l => simp [explicitNames] at hx

/-- a module of the project is found by `lookupModule` under its own name -/
theorem lookupModule_mod {proj : Project} {s : St} (hI : PdInv proj s) {T : Path} {t : Nat}
    (hm : modIdx proj T = some t) : ∃ c, lookupModule s T = (some t, c) := by
  obtain ⟨hlt, hp⟩ := modIdx_spec hm
  obtain ⟨om, hom, hpm, hcl⟩ := hI.mods t hlt
  rw [hp] at hpm
  have hreg : Names.objFor (envOf s) T = some t := dget_of_path hI.reg hpm
  have hmo : isModuleObj s.reg t = true := by
    unfold isModuleObj getObj; simp only [hom, hcl, modCls]; split <;> rfl
  unfold lookupModule
  simp only [hreg, hmo, if_true]
  exact ⟨_, rfl⟩

theorem gpm_snd {proj : Project} {s : St} (hI : PdInv proj s) {pm : St → Nat → St} {T : Path} {t : Nat}
    (hm : modIdx proj T = some t) : (getProcessedModule pm s T).2 = some t := by
  obtain ⟨c, hl⟩ := lookupModule_mod hI hm
  unfold getProcessedModule
  rw [hl]

theorem Ctx.prot {proj : Project} {rank : List Nat} {s : St} {mod ctx : Nat} {S : Site} {full : List Stmt}
    (hI : PdInv proj s) (hc : Ctx proj rank s mod ctx S full) : Prot proj s ctx := by
  intro hlt
  obtain ⟨o, ho, hcl⟩ := hc.clsc
  obtain ⟨o', ho', _, hc'⟩ := hI.mods ctx hlt
  rw [ho] at ho'; injection ho' with ho'; subst ho'
  rcases hcl with ⟨hS2, _⟩ | ⟨_, hcls⟩
  · rw [hc.ctxmod hS2, hc.ps]; simp
  · rw [hc'] at hcls; unfold modCls at hcls; split at hcls <;> cases hcls

/-- what the module being visited exports -/
theorem exports_eq {proj : Project} {rank : List Nat} {s : St} {mod ctx : Nat} {S : Site} {full : List Stmt}
    (hI : PdInv proj s) (hc : Ctx proj rank s mod ctx S full) :
    currentExports s ctx = if S.2 = [] then (lastAll (bodyOf proj mod)).getD [] else [] := by
  unfold currentExports
  obtain ⟨o, ho, hcl⟩ := hc.clsc
  have hmo : isModuleObj s.reg ctx = isModuleCls o.cls := by simp [isModuleObj, getObj, ho]
  rw [hmo]
  rcases hcl with ⟨hS2, hm⟩ | ⟨hS2, hm⟩
  · have hcm := hc.ctxmod hS2; subst hcm
    simp only [hm, hS2, if_true]
    rw [hI.alls ctx hc.hmod, hc.ps]
    simp
  · simp [hm, isModuleCls, hS2]

/-- a module is not below a definition of a plain module -/
theorem module_not_below {proj : Project} {rank : List Nat} (wf : WFacts proj rank) {s : St} (hI : PdInv proj s)
    {d x ob : Nat} {n : Name} (hd : d < proj.length) (hx : x < proj.length) (hplain : isPkg proj d = false)
    (hob : path s.reg ob = some (pathOf proj d ++ [n])) : ¬ Below s.reg.objs ob x := by
  intro hb
  obtain ⟨_, _, hpx, _⟩ := hI.mods x hx
  obtain ⟨rest, he⟩ := hb.path_prefix (path_sound hob) (path_sound hpx)
  have he' : pathOf proj x = pathOf proj d ++ (n :: rest) := by rw [he]; simp
  obtain ⟨t, ht, hpk⟩ := mod_path_prefix wf _ x (pathOf proj d) _ rfl hx he' (wf.parentOk d hd).1 (by simp)
  rw [modIdx_of_path wf.modNodup hd] at ht
  injection ht with ht; subst ht
  rw [hplain] at hpk; cases hpk

/-! ## the re-exporting `from … import` -/

/-- `_handleReExport` for a request of the project, visited in the re-exporter while the definer is
processed and the new name has no entry yet: the move happens -/
theorem reexport_move {proj : Project} {rank : List Nat} (wf : WFacts proj rank) (rx : RxFacts proj) (hro : ReparentOk)
    {s : St} (hI : PdInv proj s) (hb : s.bad = false) {d x : Nat} {n a : Name}
    (hr : ((d, n, x, a) : Req) ∈ reexportReqs proj) (hxp : getPs s x = .processing) (hdp : getPs s d = .processed)
    (hpend : ∀ o, s.reg.objs[x]? = some o → dget o.contents a = none) {ex : List Name} (hex : ex.contains a = true) :
    (handleReExport pm s x ex n a d).2 = true ∧ (handleReExport pm s x ex n a d).1.bad = false ∧
    PdInv proj (handleReExport pm s x ex n a d).1 ∧ Ext proj s (handleReExport pm s x ex n a d).1 ∧
    movedB proj (handleReExport pm s x ex n a d).1 (d, n, x, a) = true ∧ HasEntry (handleReExport pm s x ex n a d).1 x a ∧
    FrameX proj (some x) [a] s (handleReExport pm s x ex n a d).1 := by
  have hdl : d < proj.length := req_definer_lt hr
  have hxl : x < proj.length := (req_stmt hr).1
  obtain ⟨hdx, hplain, hdef, hnl, hns⟩ := rx.reqOk _ hr
  simp only at hdx hplain hdef hnl hns
  obtain ⟨od, hod, hpd, hcld⟩ := hI.mods d hdl
  obtain ⟨ox, hox, hpx, _⟩ := hI.mods x hxl
  have hxc := hpend ox hox
  -- not moved yet: otherwise the re-exporter would hold the entry already
  have hnm : movedB proj s (d, n, x, a) = false := by
    cases hm : movedB proj s (d, n, x, a) with
    | false => rfl
    | true =>
      obtain ⟨o, c, ho, hc⟩ := hI.movedIn _ hr hm
      simp only at ho hc
      rw [hox] at ho; injection ho with ho; subst ho
      rw [hxc] at hc; cases hc
  -- the definer holds the definition
  obtain ⟨st0, hst0, hd0, c0, hk0, _⟩ := definesTop_spec hdef
  have hmd : proj[d]? = some proj[d] := by simp [hdl]
  have hcomp := hI.complete d _ hmd hdp
  rw [← bodyOf_eq hmd] at hcomp
  obtain ⟨od', hod', hent⟩ := complete_entry (completeStmts_mem hcomp hst0) (defName_explicit hd0)
  rw [hod] at hod'; injection hod' with hod'; subst hod'
  have hdc : ∃ ob, dget od.contents n = some ob := by
    cases hc : dget od.contents n with
    | some ob => exact ⟨ob, rfl⟩
    | none =>
      exfalso
      rcases hent with h | h
      · exact h hc
      · cases ha : dget od.aliases n with
        | none => exact h ha
        | some tgt =>
          have hj := hI.alias d od (d, []) hod (by rw [loc_mod]; exact hpd) ⟨hdl, Or.inl rfl⟩ n tgt ha
          rcases jpdR_inv wf rx hj with ⟨b, st, hb', hst, hxs, hD⟩ | ⟨r, hr', hS, hx', ht⟩
          · have hbm := siteBody_mod hb'; subst hbm
            have := same_stmt wf hb' hst hst0 hxs (stmtNames_of_explicit (defName_explicit hd0))
            subst this
            cases st <;> simp_all [StmtD, Stmt.defName]
          · injection hS with e1 _
            have := rx.same hr' hr e1.symm hx'.symm
            subst this
            have : movedB proj s (d, n, x, a) = true := by
              unfold movedB; simp only [hod, ha, ht, beq_self_eq_true]
            rw [hnm] at this; cases this
  obtain ⟨ob, hdc⟩ := hdc
  have hA : path s.reg ob = some (pathOf proj d ++ [n]) := path_child hI.reg hod hdc hpd
  -- the candidate, not blocked, not listed by the definer
  have hcand : reexportCandidate s n d = some ob := by
    unfold reexportCandidate
    have : getObj s.reg d = some od := hod
    simp only [this, hdc]
  have hmo : isModuleObj s.reg ob = false := by
    obtain ⟨oob, hoob⟩ : ∃ oob, s.reg.objs[ob]? = some oob := ⟨s.reg.objs[ob]'(path_lt hA), by simp [path_lt hA]⟩
    obtain ⟨Sob, hkob, hpob⟩ := hI.site ob oob hoob
    have hmo : isModuleObj s.reg ob = false := by
      unfold isModuleObj getObj
      simp only [hoob]
      cases hm : isModuleCls oob.cls with
      | false => rfl
      | true =>
        exfalso
        have hS2 := hkob.isMod.1 hm
        obtain ⟨m, cp⟩ := Sob
        simp only at hS2; subst hS2
        have hmlt := hkob.static.1
        obtain ⟨_, _, hpm, _⟩ := hI.mods m hmlt
        rw [loc_mod] at hpob
        have hbm : Below s.reg.objs ob m := by
          have h1 := dget_of_path hI.reg hpob
          have h2 := dget_of_path hI.reg hpm
          rw [h1] at h2; injection h2 with h2; subst h2; exact Below.refl
        exact module_not_below wf hI hdl hmlt hplain hA hbm
    exact hmo
  have hnb : moveBlocked s x ob = false := by
    unfold moveBlocked
    simp [hmo]
  -- the candidate sits directly in the definer, a module
  have hml : notModuleLevel s ob = false := by
    obtain ⟨co, hco, hcp, _⟩ := hI.reg.tree.coh d od n ob hod (mem_of_dget hdc)
    have hgo : getObj s.reg ob = some co := hco
    have hgd : getObj s.reg d = some od := hod
    have hmd : isModuleObj s.reg d = true := by
      unfold isModuleObj; simp only [hgd, hcld]; unfold modCls; split <;> rfl
    unfold notModuleLevel
    simp [hgo, hcp, hmd]
  have hnl' : listedIn s d n = false := by
    unfold listedIn
    rw [hI.alls d hdl, hdp]
    simp only [reduceCtorEq, if_false]
    cases hl : lastAll (bodyOf proj d) with
    | none => rfl
    | some l => simp only [hl, Option.getD_some] at hnl; exact hnl
  have hne : (!ex.contains a) = false := by rw [hex]; rfl
  have hre : handleReExport pm s x ex n a d = doMove s x ob a := by
    unfold handleReExport processBeforeMove
    simp only [hne, Bool.false_eq_true, if_false, hcand, hnb, hml, hnl', hmo]
  rw [hre]
  -- `reparent` raises nothing
  have hfree : dget s.reg.all (pathOf proj x ++ [a]) = none :=
    fresh_of_not_content hI.reg hox hpx (wf.parentOk x hxl).1 hns hxc
  have hcc : canContainImports od.cls = true := by
    rw [hcld]; unfold modCls; split <;> rfl
  obtain ⟨r', hrp⟩ := hro s.reg ob x a d od n (pathOf proj x) hI.reg hod hcc hdc hpx hfree
    (module_not_below wf hI hdl hxl hplain hA)
  have hbm : (doMove s x ob a).1.bad = false := by
    unfold doMove
    simp only [hpx, hfree, hrp, hb, Bool.or_false]
  obtain ⟨h1, h2, h3, h4, h5, _, _, _, h9⟩ := doMove_ok wf rx hI hr hnm hdp hxp hod hdc hox hxc hns hbm
  exact ⟨h1, hbm, h2, h3, h4, h5, h9⟩

theorem frame_pending {proj : Project} {s s' : St} {ctx : Nat} {nm : Name} (hf : FrameX proj none [] s s')
    (hpr : Prot proj s ctx) (hexists : ∃ o, s.reg.objs[ctx]? = some o)
    (hp : ∀ o, s.reg.objs[ctx]? = some o → dget o.contents nm = none) :
    ∀ o, s'.reg.objs[ctx]? = some o → dget o.contents nm = none := by
  intro o' ho'
  obtain ⟨o, ho⟩ := hexists
  obtain ⟨o1, ho1, k1⟩ := hf ctx o ho hpr
  rw [ho'] at ho1; injection ho1 with ho1; subst ho1
  exact k1 nm (fun h => by cases h) (hp o ho)

theorem visitImportFrom_ok {proj : Project} {rank : List Nat} (wf : WFacts proj rank) (rx : RxFacts proj)
    (hro : ReparentOk) (hsl : SubLookup proj rank) {pm : St → Nat → St} {k : Nat} (hpm : PmOk proj rank pm k) {s : St}
    (hI : PdInv proj s) {mod ctx : Nat} {S : Site} {full : List Stmt} (hc : Ctx proj rank s mod ctx S full)
    {lvl : Nat} {M : Path} {n : Name} {a : Option Name} (hst : Stmt.importFrom lvl M n a ∈ full)
    (hb : s.bad = false) (hk : cnt s ≤ k)
    (hpend : ∀ o, s.reg.objs[ctx]? = some o → dget o.contents (a.getD n) = none) :
    (visitImportFrom pm mod ctx lvl M n a s).bad = false ∧ PdInv proj (visitImportFrom pm mod ctx lvl M n a s) ∧
    Ext proj s (visitImportFrom pm mod ctx lvl M n a s) ∧
    CompleteStmt proj (visitImportFrom pm mod ctx lvl M n a s) S ctx (.importFrom lvl M n a) ∧
    FrameX proj (some ctx) [a.getD n] s (visitImportFrom pm mod ctx lvl M n a s) := by
  have hS := hc.stat
  have hS1 := hc.hS1
  obtain ⟨T, hT⟩ := pdAbs_some (lvl := lvl) (M := M) wf hc.body hst (by simp [stmtTargets])
  obtain ⟨t, ht, hrkt⟩ := wf.targets hc.body hst (target proj S.1 lvl M) (by simp [stmtTargets])
  obtain ⟨T', hT', hmt⟩ := target_spec ht
  have := abs_eq hT hT'; subst this
  obtain ⟨htl, hpt⟩ := modIdx_spec hmt
  rw [hS1] at hT
  have hTs : absName s mod lvl M = some T := by rw [absName_eq hI hc.hmod]; exact hT
  have hjust : JpdR proj S (a.getD n) (T ++ [n]) := JpdR.base (Jpd.from hc.body hst (by rw [hS1]; exact hT))
  have hkn := import_name_not_req wf rx hc.body hst (k := a.getD n) (stmtNames_of_explicit (by simp [explicitNames])) rfl
  unfold visitImportFrom
  simp only [hTs]
  -- the module the statement names is entered (if need be): its rank is below that of `mod`
  have hrk1 : ∀ t0 c, lookupModule s T = (some t0, c) → getPs s t0 = .unprocessed →
      ∀ u, getPs s u = .processing → rankOf rank t0 < rankOf rank u := by
    intro t0 c hl _ u hu
    have := (lookupModule_spec hI hl).2 t hmt; subst this
    have := hc.low u hu
    rw [hS1] at hrkt; omega
  have htg : some t ∈ stmtTargets proj S.1 (.importFrom lvl M n a) := by simp [stmtTargets, ht]
  have hrkA1 : ∀ t0 c, lookupModule s T = (some t0, c) → getPs s t0 = .unprocessed →
      ∀ P ∈ modulesAbove s.reg (s.reg.objs.length + 1) t0,
      getPs s P = .unprocessed → ∀ u, getPs s u = .processing → rankOf rank P < rankOf rank u := by
    intro t0 c hl _
    have := (lookupModule_spec hI hl).2 t hmt; subst this
    exact above_low hsl hI hc hst htg htl (q0 := []) (by simp)
  obtain ⟨hb1, hI1, he1, hf1, hres1⟩ := gpm_ok wf hpm hI hb hk hrk1 hrkA1
  have hsnd := gpm_snd (pm := pm) hI hmt
  simp only [hsnd]
  obtain ⟨_, _, hnu1, hproc1⟩ := hres1 t hsnd
  have htp : getPs (getProcessedModule pm s T).1 t = .processed := by
    apply hproc1
    intro hp
    have := hc.low t hp
    rw [hS1] at hrkt; omega
  have hc1 := hc.ext hI hI1 he1
  have hk1 : cnt (getProcessedModule pm s T).1 ≤ k := Nat.le_trans (cnt_ext hI hI1 he1) hk
  have hexc : ∃ o, s.reg.objs[ctx]? = some o := by obtain ⟨o, ho, _⟩ := hc.clsc; exact ⟨o, ho⟩
  have hpend1 := frame_pending hf1 (hc.prot hI) hexc hpend
  generalize hs1 : (getProcessedModule pm s T).1 = s1 at hb1 hI1 he1 hf1 htp hc1 hk1 hpend1 ⊢
  -- the submodule of a package
  generalize hs2 : (if isPkgObj s1.reg t = true then (getProcessedModule pm s1 (T ++ [n])).1 else s1) = s2
  have h2 : s2.bad = false ∧ PdInv proj s2 ∧ Ext proj s1 s2 ∧ FrameX proj none [] s1 s2 ∧ (isPkg proj t = false → s2 = s1) := by
    rw [← hs2]
    by_cases hpk : isPkgObj s1.reg t = true
    · simp only [hpk, if_true]
      have hpk' : isPkg proj t = true := by rw [← isPkgObj_mod hI1 htl]; exact hpk
      have hrk2 : ∀ t0 c, lookupModule s1 (T ++ [n]) = (some t0, c) → getPs s1 t0 = .unprocessed →
          ∀ u, getPs s1 u = .processing → rankOf rank t0 < rankOf rank u := by
        intro t0 c hl hu0 u hu
        have h1 := (hsl.1 s1 hI1 S full lvl M n a t hc.body hst ht hpk' t0 c (by rw [hpt]; exact hl) hu0).1
        have h2 := hc1.low u hu
        rw [hS1] at h1; omega
      have hrkA2 : ∀ t0 c, lookupModule s1 (T ++ [n]) = (some t0, c) → getPs s1 t0 = .unprocessed →
          ∀ P ∈ modulesAbove s1.reg (s1.reg.objs.length + 1) t0,
          getPs s1 P = .unprocessed → ∀ u, getPs s1 u = .processing → rankOf rank P < rankOf rank u := by
        intro t0 c hl hu0 P hP hPu u hu
        have hmc := (hsl.1 s1 hI1 S full lvl M n a t hc.body hst ht hpk' t0 c (by rw [hpt]; exact hl) hu0).2
        obtain ⟨ht0l, hpt0⟩ := modIdx_spec hmc
        have hPl := modulesAbove_lt hI1 _ _ P hP
        obtain ⟨_, _, hpt0', _⟩ := hI1.mods t0 ht0l
        obtain ⟨pp, q, hpp, hq, he⟩ := modulesAbove_prefix hI1 _ _ _ hpt0' P hP
        obtain ⟨_, _, hpP, _⟩ := hI1.mods P hPl
        rw [hpP] at hpp; injection hpp with hpp; subst hpp
        -- `pathOf t ++ [n] = pathOf P ++ q`
        rw [hpt0] at he
        rcases List.eq_nil_or_concat q with hq0 | ⟨q', x, hqx⟩
        · exact absurd hq0 hq
        · subst hqx
          have he' : pathOf proj t ++ [n] = (pathOf proj P ++ q') ++ [x] := by rw [he]; simp
          obtain ⟨e1, _⟩ := List.append_inj' he' rfl
          by_cases hq' : q' = []
          · subst hq'
            simp only [List.append_nil] at e1
            have : P = t := by
              have h1 := modIdx_of_path wf.modNodup hPl
              have h2 := modIdx_of_path wf.modNodup htl
              rw [← e1] at h1; rw [h2] at h1; injection h1 with h1; exact h1.symm
            subst this
            rw [hs1.symm] at hPu
            exact absurd hPu (by rw [hs1]; rw [htp]; simp)
          · have hlow := hc1.low u hu
            rcases hsl.2 S full _ t P hc.body hst htg hPl ⟨q', hq', e1⟩ with h | h
            · rw [h, hc1.hS1, hc1.ps] at hPu; cases hPu
            · rw [hc1.hS1] at h; omega
      obtain ⟨hb2, hI2, he2, hf2, _⟩ := gpm_ok wf hpm hI1 hb1 hk1 hrk2 hrkA2
      exact ⟨hb2, hI2, he2, hf2, fun h => by rw [h] at hpk'; cases hpk'⟩
    · simp only [hpk, if_false]
      exact ⟨hb1, hI1, Ext.refl _ _, FrameX.refl _ _ _ _, fun _ => rfl⟩
  obtain ⟨hb2, hI2, he2, hf2, hs2eq⟩ := h2
  have hc2 := hc1.ext hI1 hI2 he2
  have hexc1 : ∃ o, s1.reg.objs[ctx]? = some o := by obtain ⟨o, ho, _⟩ := hc1.clsc; exact ⟨o, ho⟩
  have hpend2 := frame_pending hf2 (hc1.prot hI1) hexc1 hpend1
  have hframe02 : FrameX proj (some ctx) [] s s2 := by
    have := (hf1.weaken (ctx := some ctx) (l := [])).trans he1.ps (hf2.weaken (ctx := some ctx) (l := []))
    simpa using this
  have hext02 : Ext proj s s2 := he1.trans he2
  rw [exports_eq hI1 hc1]
  by_cases hcx : (if S.2 = [] then (lastAll (bodyOf proj mod)).getD [] else []).contains (a.getD n) = true
  · -- the name is exported: the object is moved here
    have hS2 : S.2 = [] := by
      by_cases h : S.2 = []
      · exact h
      · simp [h] at hcx
    have hcm := hc.ctxmod hS2
    subst hcm
    simp only [hS2, if_true] at hcx ⊢
    obtain ⟨ex, hl⟩ : ∃ ex, lastAll (bodyOf proj ctx) = some ex := by
      cases hl : lastAll (bodyOf proj ctx) with
      | none => simp [hl] at hcx
      | some ex => exact ⟨ex, rfl⟩
    simp only [hl, Option.getD_some] at hcx ⊢
    have hfull : full = bodyOf proj ctx := by
      obtain ⟨m, cp⟩ := S
      simp only at hS2 hS1; subst hS2; subst hS1
      exact siteBody_mod hc.body
    have hr : ((t, n, ctx, a.getD n) : Req) ∈ reexportReqs proj :=
      mem_reqs hc.hmod hl (hfull ▸ hst) hcx (by rw [← hS1]; exact ht)
    have hplain := (rx.reqOk _ hr).2.1
    simp only at hplain
    have := hs2eq hplain; subst this
    obtain ⟨m1, m2, m3, m4, m5, m6, m7⟩ := reexport_move (pm := pm) wf rx hro hI1 hb1 hr hc1.ps htp hpend1 hcx
    simp only [m1, if_true]
    refine ⟨m2, m3, he1.trans m4, ?_, ?_⟩
    · simp only [CompleteStmt]
      refine ⟨m6, fun d _ htd hrd => ?_⟩
      have ht2 := ht
      rw [hS1] at ht2 htd
      rw [ht2] at htd; injection htd with htd; subst htd
      rw [hS1]; exact m5
    · have := (hf1.weaken (ctx := some ctx) (l := [])).trans he1.ps m7
      simpa using this
  · -- not exported: an alias
    have hcx' : (if S.2 = [] then (lastAll (bodyOf proj mod)).getD [] else []).contains (a.getD n) = false := by
      simpa using hcx
    rw [hre_noop hcx']
    simp only [Bool.false_eq_true, if_false]
    obtain ⟨o, ho, _⟩ := hc2.clsc
    have hp2 : path s2.reg ctx = some (loc proj s2 S) := by rw [hc2.locc hI2]; exact hc2.pathc
    obtain ⟨h1, h2'⟩ := setAlias_ok wf rx hI2 hp2 hS hjust hkn
    refine ⟨by rw [setAlias_bad]; exact hb2, h1, hext02.trans h2', ?_, ?_⟩
    · simp only [CompleteStmt]
      refine ⟨setAlias_entry ho, fun d hS2 htd hrd => ?_⟩
      exfalso
      obtain ⟨_, ex, lvl', M', asn', hl', _, ha', hc', _⟩ := reqs_of_mem hrd
      simp only at hl' ha' hc'
      rw [hS1] at hl'
      simp only [hS2, if_true, hl', Option.getD_some] at hcx'
      rw [hcx'] at hc'; cases hc'
    · have := hframe02.trans hext02.ps (setAlias_frame proj (some ctx) [] s2 ctx (a.getD n) (T ++ [n]))
      exact (FrameX.mono (by simpa using this) (by simp))

/-! ## `from … import *` -/

theorem starOne_ok {proj : Project} {rank : List Nat} (wf : WFacts proj rank) (rx : RxFacts proj) {s : St}
    (hI : PdInv proj s) {mod ctx : Nat} {S : Site} {full : List Stmt} (hc : Ctx proj rank s mod ctx S full)
    {lvl : Nat} {M T : Path} (hst : Stmt.importStar lvl M ∈ full) (hT : pdAbsName proj S.1 lvl M = some T)
    {t : Nat} (ht : t < proj.length) (hu : ∀ t', modIdx proj T = some t' → t = t') {x : Name}
    (hx : starOk proj t x ∧ (x ∈ allNames (bodyOf proj t) ∨ HasEntry s t x)) (hb : s.bad = false) :
    (starOne pm ctx t [] s x).bad = false ∧ PdInv proj (starOne pm ctx t [] s x) ∧ Ext proj s (starOne pm ctx t [] s x) ∧
    FrameX proj (some ctx) [] s (starOne pm ctx t [] s x) := by
  have hS := hc.stat
  have hp : path s.reg ctx = some (loc proj s S) := by rw [hc.locc hI]; exact hc.pathc
  unfold starOne
  rw [hre_noop (by simp)]
  simp only [Bool.false_eq_true, if_false]
  obtain ⟨o, ho, hpt, hcl⟩ := hI.mods t ht
  have hmo : isModuleCls o.cls = true := by rw [hcl, modCls]; split <;> rfl
  have hl := localName_module (e := envOf s) (t := t) (o := o) ho hmo x
  rw [Names.expand_single_local, hl]
  -- whatever alias is written, the star statement binds the name
  have hfin : ∀ (p : Path), JpdR proj S x p → x ∈ stmtNamesR proj rank S (.importStar lvl M) →
      (setAlias s ctx x p).bad = false ∧ PdInv proj (setAlias s ctx x p) ∧ Ext proj s (setAlias s ctx x p) ∧
      FrameX proj (some ctx) [] s (setAlias s ctx x p) := by
    intro p hj hxs
    have hk := import_name_not_req wf rx hc.body hst hxs rfl
    obtain ⟨h1, h2⟩ := setAlias_ok wf rx hI hp hS hj hk
    exact ⟨by rw [setAlias_bad]; exact hb, h1, h2, setAlias_frame proj (some ctx) [] s ctx x p⟩
  cases hdc : dget o.contents x with
  | some c =>
    simp only
    have hpc := path_child hI.reg ho hdc hpt
    have hpc' : path (envOf s).st c = some (pathOf proj t ++ [x]) := hpc
    rw [hpc']
    simp only
    rcases hI.cont t o ht ho x c hdc with h | h | ⟨r, hr, h1, h2, _⟩
    · have hm : x ∈ modNames proj (rankOf rank t + 1) t := by rw [modNames_succ]; exact List.mem_append_left _ h
      exact hfin _ (JpdR.base (Jpd.starChild hc.body hst hT hu hx.1 (Or.inl h)))
        (star_mem wf hc.body hst hT hu (Or.inr ⟨hx.1, hm⟩)).2.2
    · have hm : x ∈ modNames proj (rankOf rank t + 1) t := by
        obtain ⟨st, hst', hd⟩ := h
        rw [modNames_succ]
        exact List.mem_append_right _ (List.mem_flatMap.2 ⟨st, hst', stmtNames_of_explicit (defName_explicit hd)⟩)
      exact hfin _ (JpdR.base (Jpd.starChild hc.body hst hT hu hx.1 (Or.inr h)))
        (star_mem wf hc.body hst hT hu (Or.inr ⟨hx.1, hm⟩)).2.2
    · have hm : x ∈ modNames proj (rankOf rank t + 1) t := by rw [← h1, ← h2]; exact req_in_modNames hr
      exact hfin _ (JpdR.starMoved hc.body hst hT hu hx.1 hr h1 h2)
        (star_mem wf hc.body hst hT hu (Or.inr ⟨hx.1, hm⟩)).2.2
  | none =>
    simp only
    cases hda : dget o.aliases x with
    | some tg =>
      simp only
      have hj : JpdR proj (t, []) x tg :=
        hI.alias t o (t, []) ho (by rw [loc_mod]; exact hpt) ⟨ht, Or.inl rfl⟩ x tg hda
      have hm : x ∈ modNames proj (rankOf rank t + 1) t := by
        obtain ⟨st', hst', hx'⟩ := jpdR_names wf rx hj _ (siteBody_zero ht)
        rw [modNames_succ]
        exact List.mem_append_right _ (List.mem_flatMap.2 ⟨st', hst', hx'⟩)
      exact hfin _ (JpdR.starAlias hc.body hst hT hu hx.1 hj) (star_mem wf hc.body hst hT hu (Or.inr ⟨hx.1, hm⟩)).2.2
    | none =>
      simp only
      have hxa : x ∈ allNames (bodyOf proj t) := by
        rcases hx.2 with h | ⟨o', ho', he⟩
        · exact h
        · rw [ho] at ho'; injection ho' with ho'; subst ho'
          rcases he with he | he
          · exact absurd hdc he
          · exact absurd hda he
      exact hfin _ (JpdR.base (Jpd.starNone hc.body hst hT hu hxa)) (star_mem wf hc.body hst hT hu (Or.inl hxa)).2.2

theorem starFold_ok {proj : Project} {rank : List Nat} (wf : WFacts proj rank) (rx : RxFacts proj)
    {mod ctx : Nat} {S : Site} {full : List Stmt} {lvl : Nat} {M T : Path}
    (hst : Stmt.importStar lvl M ∈ full) (hT : pdAbsName proj S.1 lvl M = some T) {t : Nat} (ht : t < proj.length)
    (hu : ∀ t', modIdx proj T = some t' → t = t') :
    ∀ (l : List Name) (s : St), PdInv proj s → Ctx proj rank s mod ctx S full →
      (∀ x ∈ l, starOk proj t x ∧ (x ∈ allNames (bodyOf proj t) ∨ HasEntry s t x)) → s.bad = false →
      (l.foldl (starOne pm ctx t []) s).bad = false ∧ PdInv proj (l.foldl (starOne pm ctx t []) s) ∧
      Ext proj s (l.foldl (starOne pm ctx t []) s) ∧ FrameX proj (some ctx) [] s (l.foldl (starOne pm ctx t []) s)
  | [], s, hI, _, _, hb => ⟨hb, hI, Ext.refl _ s, FrameX.refl _ _ _ _⟩
  | x :: xs, s, hI, hc, hx, hb => by
    simp only [List.foldl_cons]
    obtain ⟨hb1, hI1, he1, hf1⟩ := starOne_ok wf rx hI hc hst hT ht hu (hx x (List.mem_cons_self ..)) hb
    have hx' : ∀ y ∈ xs, starOk proj t y ∧ (y ∈ allNames (bodyOf proj t) ∨ HasEntry (starOne pm ctx t [] s x) t y) := by
      intro y hy
      obtain ⟨h1, h2⟩ := hx y (List.mem_cons_of_mem _ hy)
      exact ⟨h1, h2.imp id (fun h => hasEntry_ext he1 h)⟩
    obtain ⟨hb2, hI2, he2, hf2⟩ := starFold_ok wf rx hst hT ht hu xs _ hI1 (hc.ext hI hI1 he1) hx' hb1
    exact ⟨hb2, hI2, he1.trans he2, by simpa using hf1.trans he1.ps hf2⟩

theorem visitImportStar_ok {proj : Project} {rank : List Nat} (wf : WFacts proj rank) (rx : RxFacts proj)
    (hsl : SubLookup proj rank) {pm : St → Nat → St} {k : Nat} (hpm : PmOk proj rank pm k) {s : St}
    (hI : PdInv proj s) {mod ctx : Nat} {S : Site} {full : List Stmt} (hc : Ctx proj rank s mod ctx S full)
    {lvl : Nat} {M : Path} (hst : Stmt.importStar lvl M ∈ full) (hb : s.bad = false) (hk : cnt s ≤ k) :
    (visitImportStar pm mod ctx lvl M s).bad = false ∧ PdInv proj (visitImportStar pm mod ctx lvl M s) ∧
    Ext proj s (visitImportStar pm mod ctx lvl M s) ∧ FrameX proj (some ctx) [] s (visitImportStar pm mod ctx lvl M s) := by
  have hS1 := hc.hS1
  obtain ⟨T, hT⟩ := pdAbs_some (lvl := lvl) (M := M) wf hc.body hst (by simp [stmtTargets])
  obtain ⟨t, ht, hrkt⟩ := wf.targets hc.body hst (target proj S.1 lvl M) (by simp [stmtTargets])
  obtain ⟨T', hT', hmt⟩ := target_spec ht
  have := abs_eq hT hT'; subst this
  have hTs : absName s mod lvl M = some T := by rw [absName_eq hI hc.hmod, ← hS1]; exact hT
  unfold visitImportStar
  simp only [hTs]
  have hrk1 : ∀ t0 c, lookupModule s T = (some t0, c) → getPs s t0 = .unprocessed →
      ∀ u, getPs s u = .processing → rankOf rank t0 < rankOf rank u := by
    intro t0 c hl _ u hu
    have := (lookupModule_spec hI hl).2 t hmt; subst this
    have := hc.low u hu
    rw [hS1] at hrkt; omega
  have htg : some t ∈ stmtTargets proj S.1 (.importStar lvl M) := by simp [stmtTargets, ht]
  have hrkA1 : ∀ t0 c, lookupModule s T = (some t0, c) → getPs s t0 = .unprocessed →
      ∀ P ∈ modulesAbove s.reg (s.reg.objs.length + 1) t0,
      getPs s P = .unprocessed → ∀ u, getPs s u = .processing → rankOf rank P < rankOf rank u := by
    intro t0 c hl _
    have := (lookupModule_spec hI hl).2 t hmt; subst this
    exact above_low hsl hI hc hst htg (modIdx_spec hmt).1 (q0 := []) (by simp)
  obtain ⟨hb1, hI1, he1, hf1, hres1⟩ := gpm_ok wf hpm hI hb hk hrk1 hrkA1
  have hsnd := gpm_snd (pm := pm) hI hmt
  simp only [hsnd]
  obtain ⟨htl, hu, _, _⟩ := hres1 t hsnd
  have hc1 := hc.ext hI hI1 he1
  -- nothing is exported: a module with a star import has no `__all__`
  have hex : currentExports (getProcessedModule pm s T).1 ctx = [] := by
    rw [exports_eq hI1 hc1]
    by_cases hS2 : S.2 = []
    · simp only [hS2, if_true]
      obtain ⟨m, cp⟩ := S
      simp only at hS2 hS1; subst hS2; subst hS1
      rw [rx.noStarAll hc.body hst]; rfl
    · simp [hS2]
  rw [hex]
  have hnames : ∀ x ∈ starNames (getProcessedModule pm s T).1 t,
      starOk proj t x ∧ (x ∈ allNames (bodyOf proj t) ∨ HasEntry (getProcessedModule pm s T).1 t x) := by
    intro x hx
    unfold starNames at hx
    cases hg : getAll (getProcessedModule pm s T).1 t with
    | some l =>
      simp only [hg] at hx
      have hg' := hI1.alls t htl
      rw [hg] at hg'
      have hl : lastAll (bodyOf proj t) = some l := by
        split at hg'
        · cases hg'
        · exact hg'.symm
      have := lastAll_sub _ l hl x hx
      exact ⟨Or.inl this, Or.inl this⟩
    | none =>
      simp only [hg] at hx
      obtain ⟨o, ho, _, _⟩ := hI1.mods t htl
      have ho' : getObj (getProcessedModule pm s T).1.reg t = some o := ho
      simp only [ho', List.mem_filter, List.mem_append] at hx
      refine ⟨Or.inr (by simpa [isPublic] using hx.2), Or.inr ⟨o, ho, ?_⟩⟩
      rcases hx.1 with h | h
      · exact Or.inl (dget_ne_none_of_key h)
      · exact Or.inr (dget_ne_none_of_key h)
  obtain ⟨hb2, hI2, he2, hf2⟩ := starFold_ok wf rx hst hT htl hu _ _ hI1 hc1 hnames hb1
  exact ⟨hb2, hI2, he1.trans he2, by simpa using (hf1.weaken (ctx := some ctx) (l := [])).trans he1.ps hf2⟩

/-! ## definitions: `def`, `x = <const>`, `class` -/

theorem visitFunc_ok {proj : Project} {rank : List Nat} (wf : WFacts proj rank) (rx : RxFacts proj) {s : St}
    (hI : PdInv proj s) {mod ctx : Nat} {S : Site} {full : List Stmt} (hc : Ctx proj rank s mod ctx S full) {n : Name}
    (hst : Stmt.funcDef n ∈ full) (hb : s.bad = false)
    (hpend : ∀ o, s.reg.objs[ctx]? = some o → dget o.contents n = none) :
    (addObj s .function n ctx).bad = false ∧ PdInv proj (addObj s .function n ctx) ∧
    Ext proj s (addObj s .function n ctx) ∧ CompleteStmt proj (addObj s .function n ctx) S ctx (.funcDef n) ∧
    FrameX proj (some ctx) [n] s (addObj s .function n ctx) := by
  obtain ⟨o, ho, _⟩ := hc.clsc
  have hps : getPs s S.1 = .processing := by rw [hc.hS1]; exact hc.ps
  obtain ⟨h0, h1, h2, _, _, _, ⟨po, hpo, hd⟩, _, _, _, hf⟩ :=
    addObj_ok wf rx hI hb hc.pathc hc.body hst (st := .funcDef n) rfl hps hc.stat ho (hpend o ho)
  exact ⟨h0, h1, h2, by simp only [CompleteStmt]; exact ⟨po, hpo, Or.inl (by rw [hd]; simp)⟩, hf⟩

theorem visitAssign_ok {proj : Project} {rank : List Nat} (wf : WFacts proj rank) (rx : RxFacts proj) {s : St}
    (hI : PdInv proj s) {mod ctx : Nat} {S : Site} {full : List Stmt} (hc : Ctx proj rank s mod ctx S full) {n : Name}
    {v : Nat} (hst : Stmt.assign n v ∈ full) (hb : s.bad = false) :
    (visitAssign ctx n s).bad = false ∧ PdInv proj (visitAssign ctx n s) ∧ Ext proj s (visitAssign ctx n s) ∧
    CompleteStmt proj (visitAssign ctx n s) S ctx (.assign n v) ∧ FrameX proj (some ctx) [n] s (visitAssign ctx n s) := by
  obtain ⟨o, ho, _⟩ := hc.clsc
  have hgo : getObj s.reg ctx = some o := ho
  have hps : getPs s S.1 = .processing := by rw [hc.hS1]; exact hc.ps
  have hadd : dhas o.contents n = false →
      (addObj s .attribute n ctx).bad = false ∧ PdInv proj (addObj s .attribute n ctx) ∧
      Ext proj s (addObj s .attribute n ctx) ∧ CompleteStmt proj (addObj s .attribute n ctx) S ctx (.assign n v) ∧
      FrameX proj (some ctx) [n] s (addObj s .attribute n ctx) := by
    intro hd
    have hno : dget o.contents n = none := by
      unfold dhas at hd
      cases hx : dget o.contents n with
      | none => rfl
      | some c => simp [hx] at hd
    obtain ⟨h0, h1, h2, _, _, _, ⟨po, hpo, hd'⟩, _, _, _, hf⟩ :=
      addObj_ok wf rx hI hb hc.pathc hc.body hst (st := .assign n v) rfl hps hc.stat ho hno
    exact ⟨h0, h1, h2, by simp only [CompleteStmt]; exact ⟨po, hpo, Or.inl (by rw [hd']; simp)⟩, hf⟩
  have hsame : dhas o.contents n = true →
      s.bad = false ∧ PdInv proj s ∧ Ext proj s s ∧ CompleteStmt proj s S ctx (.assign n v) ∧ FrameX proj (some ctx) [n] s s := by
    intro h
    refine ⟨hb, hI, Ext.refl _ s, ?_, FrameX.refl _ _ _ _⟩
    simp only [CompleteStmt]
    unfold dhas at h
    cases hd : dget o.contents n with
    | none => simp [hd] at h
    | some c => exact ⟨o, ho, Or.inl (by rw [hd]; simp)⟩
  unfold visitAssign
  simp only [hgo]
  by_cases hm : isModuleCls o.cls = true
  · simp only [hm, if_true]
    by_cases hd : dhas o.contents n = true
    · simp only [hd, if_true]; exact hsame hd
    · simp only [hd]; exact hadd (by simpa using hd)
  · simp only [hm]
    by_cases hd : dhas o.contents n = true
    · simp only [hd, Bool.and_true, if_true, ite_self]; exact hsame hd
    · have hd' : dhas o.contents n = false := by simpa using hd
      simp only [hd', Bool.and_false, Bool.false_eq_true, if_false]; exact hadd hd'

theorem enterClass_ok {proj : Project} {rank : List Nat} (wf : WFacts proj rank) (rx : RxFacts proj) {s : St}
    (hI : PdInv proj s) {mod ctx : Nat} {S : Site} {full : List Stmt} (hc : Ctx proj rank s mod ctx S full) {n : Name}
    {bs : List Path} {body : List Stmt} (hst : Stmt.classDef n bs body ∈ full) (hb : s.bad = false)
    (hpend : ∀ o, s.reg.objs[ctx]? = some o → dget o.contents n = none) :
    (enterClass ctx n bs s).bad = false ∧ PdInv proj (enterClass ctx n bs s) ∧ Ext proj s (enterClass ctx n bs s) ∧
    Ctx proj rank (enterClass ctx n bs s) mod s.reg.objs.length (S.1, S.2 ++ [n]) body ∧
    HasEntry (enterClass ctx n bs s) ctx n ∧
    (enterClass ctx n bs s).reg.objs[s.reg.objs.length]? = some (⟨n, some ctx, .cls, [], []⟩ : Obj) ∧
    FrameX proj (some ctx) [n] s (enterClass ctx n bs s) := by
  obtain ⟨o, ho, _⟩ := hc.clsc
  have hps : getPs s S.1 = .processing := by rw [hc.hS1]; exact hc.ps
  obtain ⟨h0, h1, h2, hlen, hnew, hpn, ⟨po, hpo, hd⟩, hps', hal', hci', hf⟩ :=
    addObj_ok wf rx hI hb hc.pathc hc.body hst (st := .classDef n bs body) rfl hps hc.stat ho (hpend o ho)
  -- the base expressions expand without a crash
  have hexp : (bs.map (fun b => Names.expandName (envOf s) ctx b)).any Option.isNone = false := by
    rw [Bool.eq_false_iff]
    intro h
    simp only [List.any_eq_true, List.mem_map] at h
    obtain ⟨x, ⟨b, hbm, rfl⟩, hx⟩ := h
    obtain ⟨p, hp⟩ := expandLoop_some wf hI (envOf s) rfl b ctx true (wf.basesNe hc.body hst b hbm)
      (List.getElem?_eq_some_iff.1 ho).1
    have : Names.expandName (envOf s) ctx b = some p := hp
    rw [this] at hx; cases hx
  obtain ⟨ci, he, hci⟩ : ∃ ci : List (Nat × ClsInfo), enterClass ctx n bs s = { addObj s .cls n ctx with cinfo := ci } ∧
      ∀ e ∈ ci, e ∈ (addObj s .cls n ctx).cinfo ∨ ∀ b, some b ∈ e.2.objs → isClassObj s.reg b = true := by
    unfold enterClass
    simp only [hexp, markBad_false]
    refine ⟨_, rfl, ?_⟩
    intro e hm
    rcases List.mem_append.1 hm with hm | hm
    · exact Or.inl hm
    · right
      simp only [List.mem_singleton] at hm; subst hm
      intro b hbm
      simp only [List.mem_map] at hbm
      obtain ⟨x, ⟨bp, _, rfl⟩, hx⟩ := hbm
      cases hxe : Names.expandName (envOf s) ctx bp with
      | none => simp [hxe] at hx
      | some p =>
        simp only [hxe] at hx
        cases hof : Names.objFor (envOf s) p with
        | none => simp [hof] at hx
        | some o =>
          simp only [hof] at hx
          by_cases hcl : isClassObj s.reg o = true
          · simp only [hcl, if_true, Option.some.injEq] at hx; subst hx; exact hcl
          · simp [hcl] at hx
  have hcb2 : CBase { addObj s .cls n ctx with cinfo := ci } := by
    intro e hm b hbm
    rcases hci e hm with hold | hnewc
    · exact h1.cbase e hold b hbm
    · have hcl := hnewc b hbm
      unfold isClassObj at hcl
      cases hg : getObj s.reg b with
      | none => simp [hg] at hcl
      | some o =>
        simp only [hg, beq_iff_eq] at hcl
        obtain ⟨o', ho', hc', _⟩ := h2.objs b o hg
        exact ⟨o', ho', hc'.trans hcl⟩
  clear hci
  rw [he]
  generalize addObj s .cls n ctx = s1 at *
  have hmv : ∀ r ∈ reexportReqs proj, movedB proj { s1 with cinfo := ci } r = movedB proj s1 r := fun _ _ => rfl
  have hloc : ∀ S', loc proj { s1 with cinfo := ci } S' = loc proj s1 S' := loc_congr hmv
  have hext1 : Ext proj s1 { s1 with cinfo := ci } :=
    ⟨fun i o h => ⟨o, h, rfl, fun _ h => h⟩, fun i S' hp _ => by rw [hloc]; exact hp, fun t => ⟨id, id, fun h => by
      show getPs s1 t ≠ _; rw [h]; simp⟩, fun r hr h => h⟩
  have hI2 : PdInv proj { s1 with cinfo := ci } :=
    { reg := h1.reg, cbase := hcb2, lens := h1.lens, mods := h1.mods
      site := fun i o ho => by obtain ⟨S', hk, hp⟩ := h1.site i o ho; exact ⟨S', hk, by rw [hloc]; exact hp⟩
      alias := fun i o S' ho hp hS' x tgt hx => h1.alias i o S' ho (by rw [hloc] at hp; exact hp) hS' x tgt hx
      cont := h1.cont, alls := h1.alls
      started := fun i S' hp hS' hne => h1.started i S' (by rw [hloc] at hp; exact hp) hS' hne
      complete := fun m md hm hp => CompleteStmts.ext hext1 _ (h1.complete m md hm hp)
      movedPs := h1.movedPs, movedIn := h1.movedIn }
  have hext : Ext proj s { s1 with cinfo := ci } := h2.trans hext1
  refine ⟨h0, hI2, hext, ?_, ⟨po, hpo, Or.inl (by rw [hd]; simp)⟩, hnew, hf⟩
  have hc1 := hc.ext hI hI2 hext
  exact
    { hmod := hc.hmod, hS1 := hc.hS1,
      body := siteBody_snoc hc.body (findClass_of_mem wf hc.body hst),
      stat := (ObjKind.dfn hc.body hst (c := .cls) rfl).static,
      pathc := hpn,
      clsc := ⟨_, hnew, Or.inr ⟨by simp, rfl⟩⟩,
      ctxmod := fun h => by simp at h,
      ps := hc1.ps, low := hc1.low }

/-! ## a body -/

/-- a later statement of a body does not bind a name an earlier one binds -/
theorem later_name_ne {proj : Project} {rank : List Nat} (wf : WFacts proj rank) {S : Site} {full pre rest : List Stmt}
    {st st' : Stmt} {x : Name} (hb : siteBody proj S = some full) (hfull : full = pre ++ st :: rest)
    (hx : x ∈ explicitNames st) (hst' : st' ∈ rest) (hx' : x ∈ explicitNames st') : False := by
  obtain ⟨m, cp⟩ := S
  by_cases hcp : cp = []
  · subst hcp
    have hbm := siteBody_mod hb
    have hn := wf.onceMod m (siteBody_lt hb)
    rw [modNames_succ, List.nodup_append] at hn
    rw [← hbm] at hn
    exact nodup_flatMap_later hn.2.1 hfull (stmtNames_of_explicit hx) hst' (stmtNames_of_explicit hx')
  · exact nodup_flatMap_later (wf.onceCls hb hcp) hfull hx hst' hx'

mutual
theorem visitStmt_ok {proj : Project} {rank : List Nat} (wf : WFacts proj rank) (rx : RxFacts proj)
    (hro : ReparentOk) (hsl : SubLookup proj rank) {pm : St → Nat → St} {k : Nat} (hpm : PmOk proj rank pm k) {mod : Nat} :
    ∀ (st : Stmt) (ctx : Nat) (s : St) (S : Site) (full : List Stmt), PdInv proj s → Ctx proj rank s mod ctx S full →
      st ∈ full → s.bad = false → cnt s ≤ k →
      (∀ o, s.reg.objs[ctx]? = some o → ∀ n ∈ explicitNames st, dget o.contents n = none) →
      (visitStmt pm mod ctx st s).bad = false ∧ PdInv proj (visitStmt pm mod ctx st s) ∧
      Ext proj s (visitStmt pm mod ctx st s) ∧ CompleteStmt proj (visitStmt pm mod ctx st s) S ctx st ∧
      FrameX proj (some ctx) (explicitNames st) s (visitStmt pm mod ctx st s)
  | .importMod t a, ctx, s, S, full, hI, hc, hst, hb, hk, _ => by
    simp only [visitStmt, importProcess]
    obtain ⟨hb0, hI0, he0, hf0⟩ := importProcess_ok wf hsl hpm hst (prefixesOf t) (fun p hp => prefixesOf_spec hp)
      s hI hc hb hk
    have hc0 := hc.ext hI hI0 he0
    obtain ⟨h1, h2, h3, h4, h5⟩ := visitImport_ok wf rx hI0 hc0 hst hb0
    refine ⟨h1, h2, he0.trans h3, h4, ?_⟩
    have := (hf0.weaken (ctx := some ctx) (l := [])).trans he0.ps h5
    exact FrameX.mono (by simpa using this) (by simp)
  | .importFrom lvl M n a, ctx, s, S, full, hI, hc, hst, hb, hk, hp => by
    simp only [visitStmt]
    exact visitImportFrom_ok wf rx hro hsl hpm hI hc hst hb hk
      (fun o ho => hp o ho _ (by simp [explicitNames]))
  | .importStar lvl M, ctx, s, S, full, hI, hc, hst, hb, hk, _ => by
    simp only [visitStmt]
    obtain ⟨h1, h2, h3, h4⟩ := visitImportStar_ok wf rx hsl hpm hI hc hst hb hk
    exact ⟨h1, h2, h3, by simp [CompleteStmt], h4.mono (by simp)⟩
  | .classDef n bs body, ctx, s, S, full, hI, hc, hst, hb, hk, hp => by
    simp only [visitStmt]
    obtain ⟨hb1, hI1, he1, hc1, hent, hnew, hf1⟩ :=
      enterClass_ok wf rx hI hc hst hb (fun o ho => hp o ho n (by simp [explicitNames]))
    have hk1 : cnt (enterClass ctx n bs s) ≤ k := Nat.le_trans (cnt_ext hI hI1 he1) hk
    have hpend : Pending (enterClass ctx n bs s) s.reg.objs.length body := by
      intro o ho st' _ n' _
      rw [hnew] at ho; injection ho with ho; subst ho; rfl
    obtain ⟨hb2, hI2, he2, hcomp, hf2⟩ :=
      visitStmts_ok wf rx hro hsl hpm body s.reg.objs.length _ _ body [] hI1 hc1 (by simp) hb1 hk1 hpend
    have hc2 := hc1.ext hI1 hI2 he2
    refine ⟨hb2, hI2, he1.trans he2, ?_, ?_⟩
    · simp only [CompleteStmt]
      obtain ⟨o2, ho2, hcl2⟩ := hc2.clsc
      refine ⟨hasEntry_ext he2 hent, hc1.stat, s.reg.objs.length, o2, ?_, ho2, ?_, hcomp⟩
      · rw [hc2.locc hI2]; exact hc2.pathc
      · rcases hcl2 with ⟨h0, _⟩ | ⟨_, h0⟩
        · simp at h0
        · exact h0
    · intro i o ho hpr
      obtain ⟨o1, ho1, k1⟩ := hf1 i o ho hpr
      obtain ⟨o2, ho2, k2⟩ := hf2 i o1 ho1 (hpr.ext he1.ps)
      have hne : some i ≠ some s.reg.objs.length := by
        have := (List.getElem?_eq_some_iff.1 ho).1
        intro h; injection h with h; omega
      refine ⟨o2, ho2, fun k' hk' hd => ?_⟩
      exact k2 k' (fun h => absurd h hne) (k1 k' (by simpa [explicitNames] using hk') hd)
  | .funcDef n, ctx, s, S, full, hI, hc, hst, hb, _, hp => by
    simp only [visitStmt]
    exact visitFunc_ok wf rx hI hc hst hb (fun o ho => hp o ho n (by simp [explicitNames]))
  | .assign n v, ctx, s, S, full, hI, hc, hst, hb, _, _ => by
    simp only [visitStmt]
    exact visitAssign_ok wf rx hI hc hst hb
  | .allAssign l, ctx, s, S, full, hI, _, _, hb, _, _ => by
    simp only [visitStmt]
    exact ⟨hb, hI, Ext.refl _ s, by simp [CompleteStmt], FrameX.refl _ _ _ _⟩
theorem visitStmts_ok {proj : Project} {rank : List Nat} (wf : WFacts proj rank) (rx : RxFacts proj)
    (hro : ReparentOk) (hsl : SubLookup proj rank) {pm : St → Nat → St} {k : Nat} (hpm : PmOk proj rank pm k) {mod : Nat} :
    ∀ (sts : List Stmt) (ctx : Nat) (s : St) (S : Site) (full pre : List Stmt), PdInv proj s →
      Ctx proj rank s mod ctx S full → full = pre ++ sts → s.bad = false → cnt s ≤ k → Pending s ctx sts →
      (visitStmts pm mod ctx sts s).bad = false ∧ PdInv proj (visitStmts pm mod ctx sts s) ∧
      Ext proj s (visitStmts pm mod ctx sts s) ∧ CompleteStmts proj (visitStmts pm mod ctx sts s) S ctx sts ∧
      FrameX proj (some ctx) (sts.flatMap explicitNames) s (visitStmts pm mod ctx sts s)
  | [], ctx, s, S, full, pre, hI, _, _, hb, _, _ => by
    simp only [visitStmts]; exact ⟨hb, hI, Ext.refl _ s, by simp [CompleteStmts], FrameX.refl _ _ _ _⟩
  | st :: rest, ctx, s, S, full, pre, hI, hc, hfull, hb, hk, hp => by
    simp only [visitStmts]
    have hmem : st ∈ full := by rw [hfull]; simp
    obtain ⟨hb1, hI1, he1, hc1, hf1⟩ := visitStmt_ok wf rx hro hsl hpm st ctx s S full hI hc hmem hb hk
      (fun o ho n hn => hp o ho st (List.mem_cons_self ..) n hn)
    have hk1 := Nat.le_trans (cnt_ext hI hI1 he1) hk
    have hpend1 : Pending (visitStmt pm mod ctx st s) ctx rest := by
      intro o1 ho1 st' hst' n' hn'
      obtain ⟨o, ho, _⟩ := hc.clsc
      obtain ⟨o1', ho1', k1⟩ := hf1 ctx o ho (hc.prot hI)
      rw [ho1] at ho1'; injection ho1' with ho1'; subst ho1'
      refine k1 n' (fun _ hin => ?_) (hp o ho st' (List.mem_cons_of_mem _ hst') n' hn')
      exact later_name_ne wf hc.body hfull hin hst' hn'
    obtain ⟨hb2, hI2, he2, hc2, hf2⟩ := visitStmts_ok wf rx hro hsl hpm rest ctx _ S full (pre ++ [st]) hI1
      (hc.ext hI hI1 he1) (by rw [hfull]; simp) hb1 hk1 hpend1
    refine ⟨hb2, hI2, he1.trans he2, ?_, ?_⟩
    · simp only [CompleteStmts]; exact ⟨CompleteStmt.ext he2 st hc1, hc2⟩
    · have := hf1.trans he1.ps hf2
      simpa using this
end

/-! ## a module -/

theorem movedB_reg {proj : Project} {s s' : St} (h : s'.reg = s.reg) (r : Req) : movedB proj s' r = movedB proj s r := by
  unfold movedB; rw [h]

theorem loc_reg {proj : Project} {s s' : St} (h : s'.reg = s.reg) (S : Site) : loc proj s' S = loc proj s S :=
  loc_congr (fun r _ => movedB_reg h r) S

theorem ext_of_reg {proj : Project} {s s' : St} (h : s'.reg = s.reg) (hps : PsRel s s') : Ext proj s s' :=
  ⟨fun i o ho => ⟨o, by rw [h]; exact ho, rfl, fun _ hk => hk⟩,
   fun i S hp _ => by rw [h, loc_reg h]; exact hp, hps, fun r _ hm => by rw [movedB_reg h]; exact hm⟩

theorem hasEntry_reg {s s' : St} (h : s'.reg = s.reg) {ctx : Nat} {x : Name} (he : HasEntry s ctx x) : HasEntry s' ctx x := by
  obtain ⟨o, ho, hx⟩ := he
  exact ⟨o, by rw [h]; exact ho, hx⟩

mutual
theorem completeStmt_reg {proj : Project} {s s' : St} (h : s'.reg = s.reg) :
    ∀ {S : Site} {ctx : Nat} (st : Stmt), CompleteStmt proj s S ctx st → CompleteStmt proj s' S ctx st
  | S, ctx, .classDef n bs body, hc => by
    simp only [CompleteStmt] at hc ⊢
    obtain ⟨he, hst, c, o, hp, ho, hcl, hb⟩ := hc
    exact ⟨hasEntry_reg h he, hst, c, o, by rw [h, loc_reg h]; exact hp, by rw [h]; exact ho, hcl,
      completeStmts_reg h body hb⟩
  | S, ctx, .importMod t a, hc => by
    simp only [CompleteStmt] at hc ⊢
    exact fun x hx => hasEntry_reg h (hc x hx)
  | S, ctx, .importFrom lvl M n a, hc => by
    simp only [CompleteStmt] at hc ⊢
    exact ⟨hasEntry_reg h hc.1, fun d h0 ht hr => by rw [movedB_reg h]; exact hc.2 d h0 ht hr⟩
  | S, ctx, .importStar _ _, _ => by simp [CompleteStmt]
  | S, ctx, .funcDef n, hc => by simp only [CompleteStmt] at hc ⊢; exact hasEntry_reg h hc
  | S, ctx, .assign n _, hc => by simp only [CompleteStmt] at hc ⊢; exact hasEntry_reg h hc
  | S, ctx, .allAssign _, _ => by simp [CompleteStmt]
theorem completeStmts_reg {proj : Project} {s s' : St} (h : s'.reg = s.reg) :
    ∀ {S : Site} {ctx : Nat} (sts : List Stmt), CompleteStmts proj s S ctx sts → CompleteStmts proj s' S ctx sts
  | _, _, [], _ => by simp [CompleteStmts]
  | S, ctx, st :: rest, hc => by
    simp only [CompleteStmts] at hc ⊢
    exact ⟨completeStmt_reg h st hc.1, completeStmts_reg h rest hc.2⟩
end

/-- a module that has not been started holds no entry of `contents` for a name its statements bind -/
theorem unstarted_pending {proj : Project} {rank : List Nat} (wf : WFacts proj rank) (rx : RxFacts proj) {s : St}
    (hI : PdInv proj s) {m : Nat} (hm : m < proj.length) (hu : getPs s m = .unprocessed) {o : Obj}
    (ho : s.reg.objs[m]? = some o) {st : Stmt} {x : Name} (hst : st ∈ bodyOf proj m) (hx : x ∈ explicitNames st) :
    dget o.contents x = none := by
  cases hdc : dget o.contents x with
  | none => rfl
  | some c =>
    exfalso
    rcases hI.cont m o hm ho x c hdc with hch | ⟨st', hst', hd'⟩ | ⟨r, hr, h1, _, h3⟩
    · exact child_not_stmt wf (siteBody_zero hm) hch hst (stmtNames_of_explicit hx)
    · obtain ⟨_, _, hpm, _⟩ := hI.mods m hm
      have hpc := path_child hI.reg ho hdc hpm
      obtain ⟨oc, hoc⟩ : ∃ oc, s.reg.objs[c]? = some oc := ⟨s.reg.objs[c]'(path_lt hpc), by simp [path_lt hpc]⟩
      obtain ⟨Sc, hkc, hpc'⟩ := hI.site c oc hoc
      have hstat : StaticSite proj (m, [x]) := ⟨hm, Or.inr ⟨[], x, bodyOf proj m, st', rfl, siteBody_zero hm, hst', hd'⟩⟩
      have hle : loc proj s (m, [x]) = pathOf proj m ++ [x] := by
        rw [hI.loc_eq (S := (m, [x])) (by simp only; rw [hu]; simp)]; simp [sitePath]
      have : Sc = (m, [x]) := loc_inj wf rx s hkc.static hstat (by
        rw [hpc] at hpc'; injection hpc' with hpc'; rw [hle, ← hpc'])
      subst this
      exact hI.started c (m, [x]) hpc' hstat (by simp) hu
    · have := (hI.movedPs r hr h3).2
      rw [h1, hu] at this; exact this rfl

theorem processModule_ok {proj : Project} {rank : List Nat} (wf : WFacts proj rank) (rx : RxFacts proj)
    (hro : ReparentOk) (hsl : SubLookup proj rank) : ∀ f, PmOk proj rank (processModule proj f) f
  | 0 => fun s t _ _ _ hu hk _ => by have := cnt_pos hu; omega
  | f+1 => by
    intro s m hb hI hm hu hk hrk
    have ih := processModule_ok wf rx hro hsl f
    have hmd : proj[m]? = some proj[m] := by simp [hm]
    have hmps : m < s.ps.length := by rw [hI.lens.1]; exact hm
    have hmal : m < s.alls.length := by rw [hI.lens.2]; exact hm
    have hne : ¬ (getPs s m ≠ .unprocessed) := by simp [hu]
    simp only [processModule, hne, if_false, hmd]
    have hcnt := cnt_start (al := s.alls.set m (lastAll proj[m].body)) hu
    generalize hs2 : ({ s with ps := s.ps.set m .processing, alls := s.alls.set m (lastAll proj[m].body) } : St) = s2 at hcnt ⊢
    have hreg2 : s2.reg = s.reg := by rw [← hs2]
    have hps2 : ∀ t, getPs s2 t = if t = m then .processing else getPs s t := by
      intro t; rw [← hs2]; exact getPs_set (s := { s with alls := _ }) hmps t
    have hal2 : ∀ t, getAll s2 t = if t = m then lastAll proj[m].body else getAll s t := by
      intro t; rw [← hs2]; exact getAll_set (s := { s with ps := _ }) hmal t
    have hbody : bodyOf proj m = proj[m].body := bodyOf_eq hmd
    have hmvm : ∀ r ∈ reexportReqs proj, movedB proj s r = true → r.1 ≠ m ∧ r.2.2.1 ≠ m := by
      intro r hr hmv
      obtain ⟨h1, h2⟩ := hI.movedPs r hr hmv
      exact ⟨fun h => (by rw [h, hu] at h1; cases h1), fun h => (by rw [h] at h2; exact h2 hu)⟩
    have hI2 : PdInv proj s2 :=
      { reg := hreg2 ▸ hI.reg
        cbase := by have := hI.cbase; rw [← hs2]; exact this
        lens := by rw [← hs2]; simp [hI.lens]
        mods := by rw [hreg2]; exact hI.mods
        site := fun i o ho => by
          rw [hreg2] at ho; obtain ⟨S', hk, hp⟩ := hI.site i o ho
          exact ⟨S', hk, by rw [hreg2, loc_reg hreg2]; exact hp⟩
        alias := fun i o S' ho hp hS' x tgt hx => by
          rw [hreg2] at ho; rw [hreg2, loc_reg hreg2] at hp; exact hI.alias i o S' ho hp hS' x tgt hx
        cont := fun t o ht ho x c hx => by
          rw [hreg2] at ho
          rcases hI.cont t o ht ho x c hx with h | h | ⟨r, hr, h1, h2', h3⟩
          · exact Or.inl h
          · exact Or.inr (Or.inl h)
          · exact Or.inr (Or.inr ⟨r, hr, h1, h2', by rw [movedB_reg hreg2]; exact h3⟩)
        alls := by
          intro t ht
          rw [hal2, hps2]
          by_cases htm : t = m
          · subst htm; simp [hbody]
          · simp only [htm, if_false]; exact hI.alls t ht
        started := by
          intro i S hp hS hne'
          rw [hps2]
          by_cases htm : S.1 = m
          · simp [htm]
          · simp only [htm, if_false]
            rw [hreg2, loc_reg hreg2] at hp
            exact hI.started i S hp hS hne'
        complete := by
          intro t md ht hp
          rw [hps2] at hp
          by_cases htm : t = m
          · simp [htm] at hp
          · simp only [htm, if_false] at hp
            exact completeStmts_reg hreg2 _ (hI.complete t md ht hp)
        movedPs := by
          intro r hr hmv
          rw [movedB_reg hreg2] at hmv
          obtain ⟨h1, h2⟩ := hmvm r hr hmv
          rw [hps2, hps2]
          simp only [h1, h2, if_false]
          exact hI.movedPs r hr hmv
        movedIn := by
          intro r hr hmv
          rw [movedB_reg hreg2] at hmv
          obtain ⟨o, c, ho, hd⟩ := hI.movedIn r hr hmv
          exact ⟨o, c, by rw [hreg2]; exact ho, hd⟩ }
    obtain ⟨o, ho, hpm, hcl⟩ := hI.mods m hm
    have hc2 : Ctx proj rank s2 m m (m, []) proj[m].body :=
      { hmod := hm, hS1 := rfl, body := by rw [siteBody_zero hm, hbody]
        stat := ⟨hm, Or.inl rfl⟩
        pathc := by rw [hreg2]; simpa [sitePath] using hpm
        clsc := ⟨o, by rw [hreg2]; exact ho, Or.inl ⟨rfl, by rw [hcl, modCls]; split <;> rfl⟩⟩
        ctxmod := fun _ => rfl
        ps := by rw [hps2]; simp
        low := by
          intro u hu'
          rw [hps2] at hu'
          by_cases hum : u = m
          · subst hum; exact Nat.le_refl _
          · simp only [hum, if_false] at hu'
            exact Nat.le_of_lt (hrk u hu') }
    have hpend : Pending s2 m proj[m].body := by
      intro o' ho' st hst x hx
      rw [hreg2] at ho'
      exact unstarted_pending wf rx hI hm hu ho' (by rw [hbody]; exact hst) hx
    obtain ⟨hb3, hI3, he3, hcomp, hf3⟩ :=
      visitStmts_ok wf rx hro hsl ih proj[m].body m s2 (m, []) proj[m].body [] hI2 hc2 (by simp)
        (by rw [← hs2]; exact hb) (by omega) hpend
    generalize hs3 : visitStmts (processModule proj f) m m proj[m].body s2 = s3 at hb3 hI3 he3 hcomp hf3 ⊢
    have hm3 : m < s3.ps.length := by rw [hI3.lens.1]; exact hm
    generalize hs4 : ({ s3 with ps := s3.ps.set m .processed } : St) = s4
    have hreg4 : s4.reg = s3.reg := by rw [← hs4]
    have hps4 : ∀ t, getPs s4 t = if t = m then .processed else getPs s3 t := by
      intro t; rw [← hs4]; exact getPs_set hm3 t
    have hall4 : ∀ t, getAll s4 t = getAll s3 t := fun t => by rw [← hs4]; rfl
    have hm3p : getPs s3 m = .processing := by
      have := (he3.ps m).1 (by rw [hps2]; simp)
      exact this
    -- careful: `processing → processing` fails for `m`; use the relation from `s` instead
    have hpsrel : PsRel s s4 := by
      intro t
      rw [hps4]
      by_cases htm : t = m
      · subst htm
        simp only [if_true, hu]
        exact ⟨fun h => (by cases h), fun h => (by cases h), fun _ => (by simp)⟩
      · simp only [htm, if_false]
        have h3 := he3.ps t
        rw [hps2] at h3
        simp only [htm, if_false] at h3
        exact h3
    have hcs4 : ∀ {S : Site} {ctx : Nat} (sts : List Stmt), CompleteStmts proj s3 S ctx sts → CompleteStmts proj s4 S ctx sts :=
      fun sts h => completeStmts_reg hreg4 sts h
    have hmv4 : ∀ r, movedB proj s4 r = movedB proj s3 r := fun r => movedB_reg hreg4 r
    have hI4 : PdInv proj s4 :=
      { reg := hreg4 ▸ hI3.reg
        cbase := by have := hI3.cbase; rw [← hs4]; exact this
        lens := by rw [← hs4]; simp [hI3.lens]
        mods := by rw [hreg4]; exact hI3.mods
        site := fun i o ho => by
          rw [hreg4] at ho; obtain ⟨S', hk, hp⟩ := hI3.site i o ho
          exact ⟨S', hk, by rw [hreg4, loc_reg hreg4]; exact hp⟩
        alias := fun i o S' ho hp hS' x tgt hx => by
          rw [hreg4] at ho; rw [hreg4, loc_reg hreg4] at hp; exact hI3.alias i o S' ho hp hS' x tgt hx
        cont := fun t o ht ho x c hx => by
          rw [hreg4] at ho
          rcases hI3.cont t o ht ho x c hx with h | h | ⟨r, hr, h1, h2', h3⟩
          · exact Or.inl h
          · exact Or.inr (Or.inl h)
          · exact Or.inr (Or.inr ⟨r, hr, h1, h2', by rw [hmv4]; exact h3⟩)
        alls := by
          intro t ht
          rw [hall4, hps4, hI3.alls t ht]
          by_cases htm : t = m
          · subst htm; simp [hm3p]
          · simp [htm]
        started := by
          intro i S hp hS hne'
          rw [hps4]
          by_cases htm : S.1 = m
          · simp [htm]
          · simp only [htm, if_false]
            rw [hreg4, loc_reg hreg4] at hp
            exact hI3.started i S hp hS hne'
        complete := by
          intro t md ht hp
          rw [hps4] at hp
          by_cases htm : t = m
          · subst htm
            rw [hmd] at ht; injection ht with ht; subst ht
            exact hcs4 _ hcomp
          · simp only [htm, if_false] at hp
            exact hcs4 _ (hI3.complete t md ht hp)
        movedPs := by
          intro r hr hmv
          rw [hmv4] at hmv
          obtain ⟨h1, h2⟩ := hI3.movedPs r hr hmv
          rw [hps4, hps4]
          refine ⟨?_, ?_⟩
          · by_cases h : r.1 = m
            · simp [h]
            · simp only [h, if_false]; exact h1
          · by_cases h : r.2.2.1 = m
            · simp [h]
            · simp only [h, if_false]; exact h2
        movedIn := by
          intro r hr hmv
          rw [hmv4] at hmv
          obtain ⟨o, c, ho, hd⟩ := hI3.movedIn r hr hmv
          exact ⟨o, c, by rw [hreg4]; exact ho, hd⟩ }
    have hext : Ext proj s s4 := by
      refine ⟨fun i o' ho' => ?_, fun i S hp hS => ?_, hpsrel, fun r hr hmv => ?_⟩
      · obtain ⟨o3, ho3, h3⟩ := he3.objs i o' (hreg2 ▸ ho')
        exact ⟨o3, by rw [hreg4]; exact ho3, h3⟩
      · rw [hreg4, loc_reg hreg4]
        exact he3.sites i S (by rw [hreg2, loc_reg hreg2]; exact hp) hS
      · rw [hmv4]; exact he3.moved r hr (by rw [movedB_reg hreg2]; exact hmv)
    refine ⟨by first | exact hb3 | (rw [← hs4]; exact hb3), hI4, hext, by rw [hps4]; simp, ?_⟩
    intro i o ho hpr
    have him : i ≠ m := by
      intro h; subst h; exact hpr hm hu
    have hpr2 : Prot proj s2 i := by
      intro hi; rw [hps2]; simp only [him, if_false]; exact hpr hi
    obtain ⟨o3, ho3, k3⟩ := hf3 i o (hreg2 ▸ ho) hpr2
    exact ⟨o3, by rw [hreg4]; exact ho3, fun k _ hd => k3 k (fun h => by injection h with h; exact absurd h him) hd⟩

/-! ## the whole run -/

theorem initSt_ok {proj : Project} {rank : List Nat} (wf : WFacts proj rank) (rx : RxFacts proj) :
    (initSt proj).bad = false ∧ PdInv proj (initSt proj) ∧ ∀ t, getPs (initSt proj) t ≠ .processing := by
  unfold initSt
  have h0 : InitInv proj 0 ⟨Registry.init, List.replicate proj.length .unprocessed, List.replicate proj.length none, [], false, []⟩ :=
    ⟨inv_holds_init, rfl, fun m hm => by omega, rfl, rfl, rfl⟩
  obtain ⟨hI, hb⟩ := addModules_ok wf proj 0 _ (Nat.zero_le _) (by simp) h0 rfl
  generalize addModules proj _ = s at hb hI
  refine ⟨hb, ?_⟩
  have hps := getPs_replicate hI.ps
  have hall : ∀ t, getAll s t = none := by
    intro t; unfold getAll; rw [hI.alls, List.getD_eq_getElem?_getD, List.getElem?_replicate]; split <;> rfl
  refine ⟨?_, fun t => by rw [hps]; split <;> simp⟩
  have hobj : ∀ i o, s.reg.objs[i]? = some o → i < proj.length := by
    intro i o ho; rw [← hI.len]; exact (List.getElem?_eq_some_iff.1 ho).1
  -- nothing has moved
  have hnm : ∀ r ∈ reexportReqs proj, movedB proj s r = false := by
    intro r hr
    obtain ⟨o, ho, _, _, ha, _⟩ := hI.mods r.1 (req_definer_lt hr)
    unfold movedB
    simp [ho, ha, dget]
  have hloc : ∀ S, loc proj s S = sitePath proj S := fun S => relocSite_unmoved (fun r hr _ _ => hnm r hr)
  exact
    { reg := hI.reg
      cbase := by intro e hm; rw [hI.cinfo] at hm; cases hm
      lens := by rw [hI.ps, hI.alls]; simp
      mods := fun m hm => by obtain ⟨o, ho, hp, hc, _⟩ := hI.mods m hm; exact ⟨o, ho, hp, hc⟩
      site := by
        intro i o ho
        have hi := hobj i o ho
        obtain ⟨o', ho', hp, hc, _⟩ := hI.mods i hi
        rw [ho] at ho'; injection ho' with ho'; subst ho'
        exact ⟨(i, []), by rw [hc]; exact ObjKind.mod hi, by rw [loc_mod]; exact hp⟩
      alias := by
        intro i o S ho _ _ x tgt hx
        obtain ⟨o', ho', _, _, ha, _⟩ := hI.mods i (hobj i o ho)
        rw [ho] at ho'; injection ho' with ho'; subst ho'
        rw [ha] at hx; simp [dget] at hx
      cont := by
        intro m o hm ho x c hx
        obtain ⟨o', ho', _, _, _, hc⟩ := hI.mods m hm
        rw [ho] at ho'; injection ho' with ho'; subst ho'
        exact Or.inl (hc x c hx)
      alls := fun m hm => by rw [hall, hps]; simp [hm]
      started := by
        intro i S hp hS hne
        exfalso
        have hi : i < proj.length := by rw [← hI.len]; exact path_lt hp
        obtain ⟨o', _, hp', _⟩ := hI.mods i hi
        rw [hp, hloc] at hp'; injection hp' with hp'
        have := site_unique wf hS (⟨hi, Or.inl rfl⟩ : StaticSite proj (i, [])) (by simpa [sitePath] using hp')
        rw [this] at hne; exact hne rfl
      complete := by
        intro m md hm hp
        have hlt : m < proj.length := (List.getElem?_eq_some_iff.1 hm).1
        rw [hps] at hp; simp [hlt] at hp
      movedPs := fun r hr hm => by rw [hnm r hr] at hm; cases hm
      movedIn := fun r hr hm => by rw [hnm r hr] at hm; cases hm }

theorem process_ok {proj : Project} {rank : List Nat} (wf : WFacts proj rank) (rx : RxFacts proj)
    (hro : ReparentOk) (hsl : SubLookup proj rank) :
    ∀ (order : List Nat) (s : St), PdInv proj s → NoProcessing s → s.bad = false →
      (process proj order s).bad = false ∧ PdInv proj (process proj order s) ∧ NoProcessing (process proj order s) ∧
      (∀ m, getPs s m = .processed → getPs (process proj order s) m = .processed) ∧
      (∀ m ∈ order, getPs (process proj order s) m = .processed)
  | [], s, hI, hn, hb => ⟨hb, hI, hn, fun _ h => h, fun _ h => by cases h⟩
  | m :: rest, s, hI, hn, hb => by
    simp only [process, List.foldl_cons]
    by_cases hu : getPs s m = .unprocessed
    · simp only [hu, if_true]
      have hm : m < proj.length := by rw [← hI.lens.1]; exact getPs_lt hu
      have hk : cnt s ≤ proj.length + 1 := by
        unfold cnt
        have := List.count_le_length (a := PState.unprocessed) (l := s.ps)
        rw [hI.lens.1] at this; omega
      obtain ⟨hb1, hI1, he1, hdone, _⟩ :=
        processModule_ok wf rx hro hsl (proj.length + 1) s m hb hI hm hu hk (fun u hu' => absurd hu' (hn u))
      have hn1 := hn.rel he1.ps
      obtain ⟨hb2, hI2, hn2, hkeep, hord⟩ := process_ok wf rx hro hsl rest _ hI1 hn1 hb1
      refine ⟨hb2, hI2, hn2, fun t ht => hkeep t ((he1.ps t).2.1 ht), ?_⟩
      intro t ht
      rcases List.mem_cons.1 ht with rfl | ht'
      · exact hkeep t hdone
      · exact hord t ht'
    · simp only [hu, if_false]
      obtain ⟨hb2, hI2, hn2, hkeep, hord⟩ := process_ok wf rx hro hsl rest _ hI hn hb
      refine ⟨hb2, hI2, hn2, hkeep, ?_⟩
      intro t ht
      rcases List.mem_cons.1 ht with rfl | ht'
      · refine hkeep t ?_
        cases hp : getPs s t with
        | processed => rfl
        | processing => exact absurd hp (hn t)
        | unprocessed => exact absurd hp hu
      · exact hord t ht'

/-- the invariant does not speak about the `pending` order -/
theorem PdInv.setPending {proj : Project} {s : St} (h : PdInv proj s) (l : List Nat) : PdInv proj { s with pending := l } :=
  { reg := h.reg, cbase := h.cbase, lens := h.lens, mods := h.mods, site := h.site, alias := h.alias, cont := h.cont,
    alls := h.alls, started := h.started,
    complete := fun m md hm hp => by
      have he : ({ s with pending := l } : St).reg = s.reg := rfl
      exact completeStmts_reg he _ (h.complete m md hm hp)
    movedPs := h.movedPs
    movedIn := h.movedIn }

/-- **the run of a `WFr` project** (M2): it raises nothing, the relocated invariant holds at the end, no module
is left in `processing`, every module of the order is processed -/
theorem run_ok {proj : Project} {rank : List Nat} (wf : WFacts proj rank) (rx : RxFacts proj)
    (hro : ReparentOk) (hsl : SubLookup proj rank) (order : List Nat) :
    (run proj order).bad = false ∧ PdInv proj (run proj order) ∧ NoProcessing (run proj order) ∧
    ∀ m ∈ order, getPs (run proj order) m = .processed := by
  unfold run
  obtain ⟨hb0, hI0, hn0⟩ := initSt_ok wf rx
  obtain ⟨h0, h1, h2, _, h4⟩ := process_ok wf rx hro hsl order _ (hI0.setPending order) (fun t => hn0 t) hb0
  exact ⟨h0, h1, h2, h4⟩

end Imports.Rx
