/-
C04, re-exports (item 3), layer C — the move: `doMove` (= `Documentable.reparent` onto the free name of
the re-exporter) preserves the relocated invariant (milestone M1).
-/
import PdProps.C04ReexpB

namespace Imports.Rx
open Registry Imports

/-! ## structure of module paths and sites -/

/-- a proper, non-empty prefix of a module path is the path of a package -/
theorem mod_path_prefix {proj : Project} {rank : List Nat} (wf : WFacts proj rank) :
    ∀ (k m : Nat) (p q : Path), q.length = k → m < proj.length → pathOf proj m = p ++ q → p ≠ [] → q ≠ [] →
      ∃ t, modIdx proj p = some t ∧ isPkg proj t = true
  | 0, _, _, q, hk, _, _, _, hq => absurd (List.eq_nil_of_length_eq_zero hk) hq
  | k+1, m, p, q, hk, hm, hpq, hp, hq => by
    obtain ⟨_, hpar⟩ := wf.parentOk m hm
    have hlen : 2 ≤ (pathOf proj m).length := by
      rw [hpq, List.length_append]
      have := List.length_pos_iff.2 hp; omega
    obtain ⟨par, hparm, _, hpk⟩ := hpar hlen
    have hdl : (pathOf proj m).dropLast = p ++ q.dropLast := by
      rw [hpq, List.dropLast_append_of_ne_nil hq]
    rw [hdl] at hparm
    by_cases hq' : q.dropLast = []
    · rw [hq', List.append_nil] at hparm; exact ⟨par, hparm, hpk⟩
    · obtain ⟨hparlt, hparp⟩ := modIdx_spec hparm
      exact mod_path_prefix wf k par p q.dropLast (by simp [hk]) hparlt hparp hp hq'

/-- a scope that has a body is a module or a class statement of an enclosing body -/
theorem static_of_body {proj : Project} {S : Site} {b : List Stmt} (h : siteBody proj S = some b) :
    StaticSite proj S := by
  obtain ⟨m, cp⟩ := S
  refine ⟨siteBody_lt h, ?_⟩
  by_cases hcp : cp = []
  · exact Or.inl hcp
  · right
    have hb := siteBody_bodyAt h
    simp only at hb
    obtain ⟨cp', n, rfl⟩ : ∃ cp' n, cp = cp' ++ [n] := ⟨cp.dropLast, cp.getLast hcp, (List.dropLast_concat_getLast hcp).symm⟩
    rw [bodyAt_append] at hb
    cases hb1 : bodyAt (bodyOf proj m) cp' with
    | none => simp [hb1] at hb
    | some b1 =>
      simp only [hb1, Option.bind_some, bodyAt] at hb
      cases hf : findClass b1 n with
      | none => simp [hf] at hb
      | some b2 =>
        obtain ⟨bs, hm⟩ := findClass_mem hf
        refine ⟨cp', n, b1, _, rfl, ?_, hm, rfl⟩
        unfold siteBody
        have hlt := siteBody_lt h
        simp only at hlt
        have : proj[m]? = some proj[m] := by simp [hlt]
        simp only [this]
        have hbo : bodyOf proj m = proj[m].body := bodyOf_eq this
        rw [← hbo]; exact hb1

/-- the site of a (non-module) object, from the site of its parent: the child site, unless the object is
a moved top-level definition (then the parent is its re-exporter) -/
theorem site_child {proj : Project} {rank : List Nat} (wf : WFacts proj rank) (rx : RxFacts proj) {s : St}
    {j p : Nat} {oj : Obj} (hoj : s.reg.objs[j]? = some oj) (hpar : oj.parent = some p)
    (hnm : isModuleCls oj.cls = false) {Sj Sp : Site} (hkj : ObjKind proj Sj oj.cls)
    (hpj : path s.reg j = some (loc proj s Sj)) (hSp : StaticSite proj Sp)
    (hpp : path s.reg p = some (loc proj s Sp)) :
    Sj = (Sp.1, Sp.2 ++ [oj.name]) ∨
    (∃ r ∈ reexportReqs proj, movedB proj s r = true ∧ Sj = (r.1, [r.2.1]) ∧ Sp = (r.2.2.1, []) ∧ oj.name = r.2.2.2) := by
  obtain ⟨pq, hpq, he⟩ := (path_sound hpj).child_inv hoj hpar
  have : pq = loc proj s Sp := hpq.func (path_sound hpp)
  subst this
  generalize oj.cls = cj at hkj hnm
  cases hkj with
  | @mod m0 hm' =>
    exfalso
    have : isModuleCls (modCls proj m0) = true := by unfold modCls; split <;> rfl
    rw [this] at hnm; cases hnm
  | @dfn m cp b0 st n' c hb0 hst hkind =>
    by_cases hcp : cp = []
    · subst hcp
      simp only [List.nil_append] at he ⊢
      rcases relocSite_cases proj (movedB proj s) (m, [n']) with h | ⟨r, hr, rest, hSe, hmv, h⟩
      · left
        have h' : loc proj s (m, [n']) = pathOf proj m ++ [n'] := by rw [show loc proj s (m, [n']) = _ from h]; simp [sitePath]
        rw [h'] at he
        obtain ⟨e1, e2⟩ := List.append_inj' he rfl
        simp only [List.cons.injEq, and_true] at e2
        have hmlt : m < proj.length := siteBody_lt hb0
        have : Sp = (m, []) := loc_inj wf rx s hSp ⟨hmlt, Or.inl rfl⟩ (by rw [loc_mod, ← e1])
        subst this; rw [e2]; rfl
      · right
        injection hSe with e1 e2
        injection e2 with e2 e3
        subst e3
        have h' : loc proj s (m, [n']) = pathOf proj r.2.2.1 ++ [r.2.2.2] := by
          rw [show loc proj s (m, [n']) = _ from h]; simp
        rw [h'] at he
        obtain ⟨e4, e5⟩ := List.append_inj' he rfl
        simp only [List.cons.injEq, and_true] at e5
        have hxlt := (req_stmt hr).1
        have : Sp = (r.2.2.1, []) := loc_inj wf rx s hSp ⟨hxlt, Or.inl rfl⟩ (by rw [loc_mod, ← e4])
        exact ⟨r, hr, hmv, by rw [e1, e2], this, e5.symm⟩
    · left
      have h' := loc_snoc proj s (S := (m, cp)) hcp n'
      simp only at h'
      rw [h'] at he
      obtain ⟨e1, e2⟩ := List.append_inj' he rfl
      simp only [List.cons.injEq, and_true] at e2
      have : Sp = (m, cp) := loc_inj wf rx s hSp (static_of_body hb0) e1.symm
      subst this; rw [e2]

/-- everything below the (not yet moved) top-level definition `n` of the plain module `d` is an object
of a site `(d, n :: rest)`, at its definition-site name -/
theorem below_sites {proj : Project} {rank : List Nat} (wf : WFacts proj rank) (rx : RxFacts proj) {s : St}
    (hI : PdInv proj s) {d : Nat} {n : Name} {ob : Nat} (hd : d < proj.length) (hplain : isPkg proj d = false)
    (hSn : StaticSite proj (d, [n])) (hob : path s.reg ob = some (pathOf proj d ++ [n]))
    (hun : loc proj s (d, [n]) = pathOf proj d ++ [n]) :
    ∀ i, Below s.reg.objs ob i → ∀ oi, s.reg.objs[i]? = some oi →
      ∃ rest, ObjKind proj (d, n :: rest) oi.cls ∧ path s.reg i = some (loc proj s (d, n :: rest)) ∧
        loc proj s (d, n :: rest) = pathOf proj d ++ n :: rest := by
  intro i hb
  induction hb with
  | refl =>
    intro oi hoi
    obtain ⟨S, hk, hp⟩ := hI.site ob oi hoi
    have : S = (d, [n]) := loc_inj wf rx s hk.static hSn (by rw [hun]; rw [hob] at hp; injection hp with hp; exact hp.symm)
    subst this
    exact ⟨[], hk, hp, hun⟩
  | @step i o p ho hpar _ ih =>
    intro oi hoi
    rw [ho] at hoi; injection hoi with hoi; subst hoi
    obtain ⟨Si, hki, hpi⟩ := hI.site i o ho
    obtain ⟨pq, hpq, he⟩ := (path_sound hpi).child_inv ho hpar
    have hpl := hpq.lt
    obtain ⟨op, hop⟩ : ∃ op, s.reg.objs[p]? = some op := ⟨s.reg.objs[p], by simp [hpl]⟩
    obtain ⟨restp, hkp, hpp, hlp⟩ := ih op hop
    have hpq' : pq = loc proj s (d, n :: restp) := hpq.func (path_sound hpp)
    -- not a module
    have hnm : isModuleCls o.cls = false := by
      cases hm : isModuleCls o.cls with
      | false => rfl
      | true =>
        exfalso
        have hS2 := hki.isMod.1 hm
        obtain ⟨mi, cpi⟩ := Si
        simp only at hS2; subst hS2
        have hmlt : mi < proj.length := hki.static.1
        rw [loc_mod, hpq', hlp] at he
        have he' : pathOf proj mi = pathOf proj d ++ (n :: restp ++ [o.name]) := by rw [he]; simp
        obtain ⟨t, ht, hpk⟩ := mod_path_prefix wf _ mi (pathOf proj d) _ rfl hmlt he' (wf.parentOk d hd).1 (by simp)
        rw [modIdx_of_path wf.modNodup hd] at ht
        injection ht with ht; subst ht
        rw [hplain] at hpk; cases hpk
    rcases site_child wf rx ho hpar hnm hki hpi hkp.static hpp with h | ⟨r, _, _, _, h, _⟩
    · subst h
      refine ⟨restp ++ [o.name], hki, hpi, ?_⟩
      have := loc_snoc proj s (S := (d, n :: restp)) (by simp) o.name
      simp only [List.cons_append] at this
      rw [this, hlp]; simp
    · injection h with _ h2; cases h2

/-! ## the move -/

/-- what the registry looks like after `reparent s.reg ob x a` (onto a free name) — the part of
`Registry.reparent_free` / `reparent_once` used below, with the witnesses identified -/
structure MoveReg (proj : Project) (s : St) (r' : State) (d : Nat) (n : Name) (x : Nat) (a : Name) (ob : Nat) : Prop where
  inv : Inv r'
  get : ∀ w, ∃ F : Obj → Obj, r'.objs[w]? = (s.reg.objs[w]?).map F ∧ ∀ wo, (F wo).cls = wo.cls ∧
      (F wo).aliases = (if w = d then dset wo.aliases n (pathOf proj x ++ [a]) else wo.aliases) ∧
      (w ≠ d → w ≠ x → (F wo).contents = wo.contents) ∧
      (w = x → (F wo).contents = dset wo.contents a ob)
  dcont : ∀ od, s.reg.objs[d]? = some od → ∃ od', r'.objs[d]? = some od' ∧
      ∀ k, k ≠ n → dget od'.contents k = dget od.contents k
  dsub : ∀ od od', s.reg.objs[d]? = some od → r'.objs[d]? = some od' → ∀ k c, dget od'.contents k = some c → dget od.contents k = some c
  keep : ∀ i k, path s.reg i = some k → ¬Below s.reg.objs ob i → path r' i = some k
  moved : ∀ i rest, Below s.reg.objs ob i → path s.reg i = some (pathOf proj d ++ [n] ++ rest) →
      path r' i = some (pathOf proj x ++ [a] ++ rest)

theorem moveReg_of {proj : Project} {s : St} (hI : Inv s.reg) {d x ob : Nat} {n a : Name} {r' : State} (hdx : d ≠ x)
    {od : Obj} (hod : s.reg.objs[d]? = some od) (hdc : dget od.contents n = some ob)
    (hpd : path s.reg d = some (pathOf proj d)) (hpx : path s.reg x = some (pathOf proj x))
    (hfree : dget s.reg.all (pathOf proj x ++ [a]) = none)
    (h : reparent s.reg ob x a = .ok r') : MoveReg proj s r' d n x a ob := by
  have hA : path s.reg ob = some (pathOf proj d ++ [n]) := path_child hI hod hdc hpd
  obtain ⟨hI', o, op, opo, oc, F, hobjs, hkeep, _⟩ := reparent_free hI h hA hpx hfree
  obtain ⟨co, hco, hcp, hcn⟩ := hI.tree.coh d od n ob hod (mem_of_dget hdc)
  have e1 : o = co := by have := F.ho; rw [hco] at this; injection this with this; exact this.symm
  subst e1
  have e2 : op = d := by have := F.hop; rw [hcp] at this; injection this with this; exact this.symm
  subst e2
  have e3 : opo = od := by have := F.hopo; rw [hod] at this; injection this with this; exact this.symm
  subst e3
  have hdd := F.hdd
  rw [hcn] at hdd
  refine ⟨hI', ?_, ?_, ?_, ?_, ?_⟩
  · intro w
    obtain ⟨G, h1, h2⟩ := modify3_get s.reg.objs ob op x a oc o.name (pathOf proj x ++ [a]) w
    refine ⟨G, by rw [hobjs]; exact h1, fun wo => ?_⟩
    obtain ⟨_, _, g3, g4, g5⟩ := h2 wo
    refine ⟨g4, by rw [g5, hcn], fun h1 h2 => ?_, fun h1 => ?_⟩
    · rw [g3]; simp [h1, h2]
    · rw [g3]; subst h1; simp [Ne.symm hdx]
  · intro od0 hod0
    rw [hod] at hod0; injection hod0 with hod0; subst hod0
    obtain ⟨G, h1, h2⟩ := modify3_get s.reg.objs ob op x a oc o.name (pathOf proj x ++ [a]) op
    refine ⟨G opo, by rw [hobjs, h1, hod]; rfl, fun k hk => ?_⟩
    rw [(h2 opo).2.2.1]
    simp only [hdx, if_false, if_true]
    exact ddel_get_other _ _ _ _ hdd hk
  · intro od0 od' hod0 hod' k c hk
    rw [hod] at hod0; injection hod0 with hod0; subst hod0
    obtain ⟨G, h1, h2⟩ := modify3_get s.reg.objs ob op x a oc o.name (pathOf proj x ++ [a]) op
    rw [hobjs, h1, hod] at hod'
    simp only [Option.map_some, Option.some.injEq] at hod'
    subst hod'
    rw [(h2 opo).2.2.1] at hk
    simp only [hdx, if_false, if_true] at hk
    have hu := hI.tree.cuniq op opo hod
    obtain ⟨_, hm⟩ := ddel_spec hu hdd
    exact dget_of_mem hu ((hm k c).1 (mem_of_dget hk)).2
  · intro i k hk hnb
    exact hI'.reg.keys _ _ (hkeep _ _ (mem_of_path hI hk) hnb)
  · intro i rest hb hp
    obtain ⟨rest', e, hp'⟩ := F.moved i _ (mem_of_path hI hp) hb
    rw [← List.append_cancel_left e] at hp'
    exact hp'

/-- **the move preserves the invariant** (M1): a request `(d, n, x, a)` whose definer `d` is processed, that
has not been carried out, is carried out by `doMove` (when it raises nothing): every object below `d.n`
is afterwards the object of its site at the relocated name `x.a…` -/
theorem doMove_ok {proj : Project} {rank : List Nat} (wf : WFacts proj rank) (rx : RxFacts proj) {s : St}
    (hI : PdInv proj s) {d x : Nat} {n a : Name} (hr : ((d, n, x, a) : Req) ∈ reexportReqs proj)
    (hnm : movedB proj s (d, n, x, a) = false) (hdp : getPs s d = .processed) (hxp : getPs s x = .processing)
    {od : Obj} {ob : Nat} (hod : s.reg.objs[d]? = some od) (hdc : dget od.contents n = some ob)
    {ox : Obj} (hox : s.reg.objs[x]? = some ox) (hxc : dget ox.contents a = none)
    (hns : isSupersededName a = false) (hb : (doMove s x ob a).1.bad = false) :
    (doMove s x ob a).2 = true ∧ PdInv proj (doMove s x ob a).1 ∧ Ext proj s (doMove s x ob a).1 ∧
    movedB proj (doMove s x ob a).1 (d, n, x, a) = true ∧ HasEntry (doMove s x ob a).1 x a ∧
    (doMove s x ob a).1.ps = s.ps ∧ (doMove s x ob a).1.alls = s.alls ∧ (doMove s x ob a).1.cinfo = s.cinfo ∧
    FrameX proj (some x) [a] s (doMove s x ob a).1 := by
  have hdl : d < proj.length := req_definer_lt hr
  have hxl : x < proj.length := (req_stmt hr).1
  obtain ⟨hdx, hplain, hdef, _⟩ := rx.reqOk _ hr
  simp only at hdx hplain hdef
  obtain ⟨od0, hod0, hpd, _⟩ := hI.mods d hdl
  obtain ⟨ox0, hox0, hpx, _⟩ := hI.mods x hxl
  have hA : path s.reg ob = some (pathOf proj d ++ [n]) := path_child hI.reg hod hdc hpd
  have hfree : dget s.reg.all (pathOf proj x ++ [a]) = none :=
    fresh_of_not_content hI.reg hox hpx (wf.parentOk x hxl).1 hns hxc
  unfold doMove at hb ⊢
  simp only [hpx, hfree] at hb ⊢
  cases hrp : reparent s.reg ob x a with
  | error e => simp [hrp] at hb
  | ok r' =>
  simp only [hrp, Bool.or_false] at hb ⊢
  have M := moveReg_of (proj := proj) hI.reg hdx hod hdc hpd hpx hfree hrp
  generalize hs' : ({ s with reg := r', bad := s.bad } : St) = s'
  have hreg' : s'.reg = r' := by rw [← hs']
  have hps' : ∀ t, getPs s' t = getPs s t := fun t => by rw [← hs']; rfl
  have hall' : ∀ t, getAll s' t = getAll s t := fun t => by rw [← hs']; rfl
  -- objects
  have hget : ∀ (w : Nat) (wo : Obj), s.reg.objs[w]? = some wo → ∃ wo' : Obj, s'.reg.objs[w]? = some wo' ∧ wo'.cls = wo.cls ∧
      wo'.aliases = (if w = d then dset wo.aliases n (pathOf proj x ++ [a]) else wo.aliases) ∧
      (w ≠ d → w ≠ x → wo'.contents = wo.contents) ∧ (w = x → wo'.contents = dset wo.contents a ob) := by
    intro w wo hwo
    obtain ⟨G, h1, h2⟩ := M.get w
    obtain ⟨g1, g2, g3, g4⟩ := h2 wo
    exact ⟨G wo, by rw [hreg', h1, hwo]; rfl, g1, g2, g3, g4⟩
  have hback : ∀ (w : Nat) (wo' : Obj), s'.reg.objs[w]? = some wo' → ∃ wo : Obj, s.reg.objs[w]? = some wo := by
    intro w wo' hwo'
    obtain ⟨G, h1, _⟩ := M.get w
    rw [hreg', h1] at hwo'
    cases hw : s.reg.objs[w]? with
    | none => rw [hw] at hwo'; cases hwo'
    | some wo => exact ⟨wo, rfl⟩
  -- the site of the moved definition
  obtain ⟨st0, hst0, hd0, _⟩ := definesTop_spec hdef
  have hSn : StaticSite proj (d, [n]) := ⟨hdl, Or.inr ⟨[], n, _, st0, rfl, siteBody_zero hdl, hst0, hd0⟩⟩
  have hlocs : ∀ rest, loc proj s (d, n :: rest) = pathOf proj d ++ n :: rest := by
    intro rest
    have : loc proj s (d, n :: rest) = sitePath proj (d, n :: rest) :=
      relocSite_unmoved (fun r hr' h1 h2 => by
        simp only [List.head?_cons, Option.some.injEq] at h2
        have := rx.same hr' hr h1 h2.symm
        subst this; exact hnm)
    rw [this]; simp [sitePath]
  have hsites := below_sites wf rx hI hdl hplain hSn hA (hlocs [])
  -- which moves have happened afterwards
  have hmvr : movedB proj s' (d, n, x, a) = true := by
    obtain ⟨od', hod', _, hal, _⟩ := hget d od hod
    unfold movedB
    simp only [hod', hal, if_true, dset_get_same, beq_self_eq_true]
  have hmvo : ∀ r ∈ reexportReqs proj, r ≠ (d, n, x, a) → movedB proj s' r = movedB proj s r := by
    intro r hr' hne
    apply movedB_of_alias
    obtain ⟨om, hom, _, _⟩ := hI.mods r.1 (req_definer_lt hr')
    obtain ⟨om', hom', _, hal, _⟩ := hget r.1 om hom
    rw [hom', hom]
    simp only [Option.map_some, Option.some.injEq, hal]
    by_cases h1 : r.1 = d
    · simp only [h1, if_true]
      have h2 : r.2.1 ≠ n := fun h2 => hne (rx.same hr' hr h1 h2)
      rw [dset_get_other _ _ _ _ h2]
    · simp [h1]
  have hmono : ∀ r ∈ reexportReqs proj, movedB proj s r = true → movedB proj s' r = true := by
    intro r hr' h
    by_cases he : r = (d, n, x, a)
    · subst he; exact hmvr
    · rw [hmvo r hr' he]; exact h
  -- locations afterwards
  have hloc_in : ∀ rest, loc proj s' (d, n :: rest) = pathOf proj x ++ [a] ++ rest :=
    fun rest => relocSite_moved rx hr hmvr rest
  have hloc_out : ∀ S : Site, ¬ (S.1 = d ∧ S.2.head? = some n) → loc proj s' S = loc proj s S := by
    intro S hS
    obtain ⟨m, cp⟩ := S
    cases cp with
    | nil => rfl
    | cons c rest =>
      unfold loc relocSite
      simp only
      have : (reexportReqs proj).find? (fun r => r.1 == m && r.2.1 == c && movedB proj s' r) =
          (reexportReqs proj).find? (fun r => r.1 == m && r.2.1 == c && movedB proj s r) := by
        apply find?_congr'
        intro r hr'
        by_cases he : r = (d, n, x, a)
        · subst he
          have : ((d == m) && (n == c)) = false := by
            rw [Bool.and_eq_false_iff]
            by_cases h1 : d = m
            · right
              simp only [beq_eq_false_iff_ne, ne_eq]
              intro h2; exact hS ⟨h1.symm, by simp [h2]⟩
            · left; simpa using h1
          simp [this]
        · rw [hmvo r hr' he]
      rw [this]
  -- every object stays the object of its site
  have hK : ∀ (i : Nat) (oi : Obj), s.reg.objs[i]? = some oi → ∃ Si, ObjKind proj Si oi.cls ∧ path s.reg i = some (loc proj s Si) ∧
      path s'.reg i = some (loc proj s' Si) := by
    intro i oi hoi
    by_cases hbi : Below s.reg.objs ob i
    · obtain ⟨rest, hk, hp, hl⟩ := hsites i hbi oi hoi
      refine ⟨_, hk, hp, ?_⟩
      rw [hreg', hloc_in]
      exact M.moved i rest hbi (by rw [hp, hl]; simp)
    · obtain ⟨Si, hk, hp⟩ := hI.site i oi hoi
      refine ⟨Si, hk, hp, ?_⟩
      rw [hreg', M.keep i _ hp hbi, hloc_out]
      rintro ⟨h1, h2⟩
      obtain ⟨m, cp⟩ := Si
      simp only at h1; subst h1
      cases cp with
      | nil => simp at h2
      | cons c rest =>
        simp only [List.head?_cons, Option.some.injEq] at h2; subst h2
        rw [hlocs] at hp
        exact hbi (below_of_prefix hI.reg (mem_of_path hI.reg hA)
          (by have := mem_of_path hI.reg hp; simpa using this))
  have hfwd : ∀ i S, path s.reg i = some (loc proj s S) → StaticSite proj S → path s'.reg i = some (loc proj s' S) := by
    intro i S hp hS
    have hil := path_lt hp
    obtain ⟨Si, hk, hp1, hp2⟩ := hK i s.reg.objs[i] (by simp [hil])
    have : S = Si := loc_inj wf rx s hS hk.static (by rw [hp] at hp1; injection hp1)
    subst this; exact hp2
  have hbwd : ∀ i S, path s'.reg i = some (loc proj s' S) → StaticSite proj S → path s.reg i = some (loc proj s S) := by
    intro i S hp hS
    have hil : i < s'.reg.objs.length := path_lt hp
    obtain ⟨wo, hwo⟩ := hback i s'.reg.objs[i] (by simp [hil])
    obtain ⟨Si, hk, hp1, hp2⟩ := hK i wo hwo
    have : S = Si := loc_inj wf rx s' hS hk.static (by rw [hp] at hp2; injection hp2)
    subst this; exact hp1
  have hext : Ext proj s s' := by
    refine ⟨fun i o ho => ?_, hfwd, fun t => by rw [hps' t]; exact PsRel.refl s t, hmono⟩
    obtain ⟨o', ho', hcl, hal, hc1, hc2⟩ := hget i o ho
    refine ⟨o', ho', hcl, fun k hk => ?_⟩
    by_cases hid : i = d
    · subst hid
      rw [hod] at ho; injection ho with ho; subst ho
      obtain ⟨od', hod', hck⟩ := M.dcont od hod
      rw [hreg'] at ho'
      rw [hod'] at ho'; injection ho' with ho'; subst ho'
      by_cases hkn : k = n
      · subst hkn; right; rw [hal]; simp [dset_get_same]
      · rw [hck k hkn, hal]
        simp only [if_true]
        rw [dset_get_other _ _ _ _ hkn]; exact hk
    · simp only [hid, if_false] at hal
      rw [hal]
      by_cases hix : i = x
      · rw [hc2 hix]
        rcases hk with hk | hk
        · left
          by_cases hka : k = a
          · subst hka; rw [dset_get_same]; simp
          · rw [dset_get_other _ _ _ _ hka]; exact hk
        · exact Or.inr hk
      · rw [hc1 hid hix]; exact hk
  have hentry : HasEntry s' x a := by
    obtain ⟨ox', hox', _, _, _, hc2⟩ := hget x ox hox
    exact ⟨ox', hox', Or.inl (by rw [hc2 rfl, dset_get_same]; simp)⟩
  have hframe : FrameX proj (some x) [a] s s' := by
    intro i o ho _
    obtain ⟨o', ho', _, _, hc1, hc2⟩ := hget i o ho
    refine ⟨o', ho', fun k hk hd' => ?_⟩
    by_cases hid : i = d
    · subst hid
      cases hx' : dget o'.contents k with
      | none => rfl
      | some c => rw [M.dsub o o' ho (by rw [← hreg']; exact ho') k c hx'] at hd'; cases hd'
    · by_cases hix : i = x
      · rw [hc2 hix]
        have : k ≠ a := fun h => hk (by rw [hix]) (by simp [h])
        rw [dset_get_other _ _ _ _ this]; exact hd'
      · rw [hc1 hid hix]; exact hd'
  refine ⟨trivial, ?_, hext, hmvr, hentry, trivial, trivial, trivial, hframe⟩
  refine
    { reg := by rw [hreg']; exact M.inv, cbase := cbase_ext hI.cbase hext (by rw [← hs']),
      lens := by rw [← hs']; exact hI.lens, mods := ?_, site := ?_, alias := ?_, cont := ?_, alls := ?_,
      started := ?_, complete := ?_, movedPs := ?_, movedIn := ?_ }
  rotate_right
  · intro r hr' hm
    by_cases he : r = (d, n, x, a)
    · subst he
      obtain ⟨ox', hox', _, _, _, hc2⟩ := hget x ox hox
      exact ⟨ox', ob, hox', by rw [hc2 rfl, dset_get_same]⟩
    · rw [hmvo r hr' he] at hm
      obtain ⟨o, c, ho, hd⟩ := hI.movedIn r hr' hm
      obtain ⟨o', ho', _, _, hc1, hc2⟩ := hget r.2.2.1 o ho
      by_cases hid : r.2.2.1 = d
      · -- the re-exporter of `r` is the definer `d`: the new name of `r` is import-bound in `d`, so it is not `n`
        obtain ⟨od', hod', hck⟩ := M.dcont od hod
        have hne : r.2.2.2 ≠ n := by
          obtain ⟨_, hbx, lvl, M', asn, hst', ha', _⟩ := req_stmt hr'
          intro hcontra
          refine import_name_not_req wf rx hbx hst' (k := r.2.2.2) (stmtNames_of_explicit (by simp [explicitNames, ha'])) rfl
            (d, n, x, a) hr (by simp [hid]) rfl hcontra.symm
        rw [hid] at ho
        rw [hod] at ho; injection ho with ho; subst ho
        exact ⟨od', c, by rw [hid, hreg']; exact hod', by rw [hck _ hne]; exact hd⟩
      · by_cases hix : r.2.2.1 = x
        · by_cases hka : r.2.2.2 = a
          · exact ⟨o', ob, ho', by rw [hc2 hix, hka, dset_get_same]⟩
          · exact ⟨o', c, ho', by rw [hc2 hix, dset_get_other _ _ _ _ hka]; exact hd⟩
        · exact ⟨o', c, ho', by rw [hc1 hid hix]; exact hd⟩
  · intro m hm
    obtain ⟨o, ho, hpm, hc⟩ := hI.mods m hm
    obtain ⟨o', ho', hc', _⟩ := hext.objs m o ho
    refine ⟨o', ho', ?_, hc'.trans hc⟩
    have := hfwd m (m, []) (by rw [loc_mod]; exact hpm) ⟨hm, Or.inl rfl⟩
    rwa [loc_mod] at this
  · intro i o' ho'
    obtain ⟨o, ho⟩ := hback i o' ho'
    obtain ⟨o'', ho'', hcl, _⟩ := hget i o ho
    rw [ho'] at ho''; injection ho'' with ho''; subst ho''
    obtain ⟨Si, hk, _, hp2⟩ := hK i o ho
    exact ⟨Si, hcl ▸ hk, hp2⟩
  · intro i o' S' ho' hp' hS' y tgt hy
    obtain ⟨o, ho⟩ := hback i o' ho'
    obtain ⟨o'', ho'', _, hal, _⟩ := hget i o ho
    rw [ho'] at ho''; injection ho'' with ho''; subst ho''
    have hp := hbwd i S' hp' hS'
    rw [hal] at hy
    by_cases hid : i = d
    · subst hid
      simp only [if_true] at hy
      by_cases hyn : y = n
      · subst hyn
        rw [dset_get_same] at hy; injection hy with hy; subst hy
        have : S' = (i, []) := loc_inj wf rx s hS' ⟨hdl, Or.inl rfl⟩ (by rw [loc_mod]; rw [hpd] at hp; injection hp with hp; exact hp.symm)
        subst this
        exact JpdR.marker hr
      · rw [dset_get_other _ _ _ _ hyn] at hy
        exact hI.alias i o S' ho hp hS' y tgt hy
    · simp only [hid, if_false] at hy
      exact hI.alias i o S' ho hp hS' y tgt hy
  · intro m o' hm ho' y c hy
    obtain ⟨o, ho⟩ := hback m o' ho'
    obtain ⟨o'', ho'', _, _, hc1, hc2⟩ := hget m o ho
    rw [ho'] at ho''; injection ho'' with ho''; subst ho''
    have hold : dget o.contents y = some c →
        y ∈ childNames proj m ∨ (∃ st ∈ bodyOf proj m, st.defName = some y) ∨
        (∃ r ∈ reexportReqs proj, r.2.2.1 = m ∧ r.2.2.2 = y ∧ movedB proj s' r = true) := by
      intro hy'
      rcases hI.cont m o hm ho y c hy' with h | h | ⟨r, hr', h1, h2, h3⟩
      · exact Or.inl h
      · exact Or.inr (Or.inl h)
      · exact Or.inr (Or.inr ⟨r, hr', h1, h2, hmono r hr' h3⟩)
    by_cases hid : m = d
    · subst hid
      exact hold (M.dsub o o' ho (by rw [← hreg']; exact ho') y c hy)
    · by_cases hix : m = x
      · rw [hc2 hix] at hy
        by_cases hya : y = a
        · subst hya
          exact Or.inr (Or.inr ⟨(d, n, x, y), hr, hix.symm, rfl, hmvr⟩)
        · rw [dset_get_other _ _ _ _ hya] at hy; exact hold hy
      · rw [hc1 hid hix] at hy; exact hold hy
  · intro m hm
    rw [hall', hps']; exact hI.alls m hm
  · intro i S' hp' hS' hne
    rw [hps']
    exact hI.started i S' (hbwd i S' hp' hS') hS' hne
  · intro m md hm hp
    rw [hps'] at hp
    exact CompleteStmts.ext hext _ (hI.complete m md hm hp)
  · intro r hr' hm
    rw [hps', hps']
    by_cases he : r = (d, n, x, a)
    · subst he
      exact ⟨hdp, by simp only; rw [hxp]; simp⟩
    · rw [hmvo r hr' he] at hm
      exact hI.movedPs r hr' hm

end Imports.Rx
