/-
C04, re-exports (item 3), layer G — `Rx.SubLookup`: the implicit submodule lookup of `from <package> import n`
(`getProcessedModule('<package>.n')`) finds the submodule (whose rank `pkgFromOk` puts below the importer's) or
no module at all.
-/
import PdProps.C04ReexpF

namespace Imports.Rx
open Registry Imports

/-- what `expandName` does with ONE remaining component `n` looked up in a module object that does not define `n` -/
theorem expand_one {proj : Project} {s : St} (hI : PdInv proj s) {t : Nat} (ht : t < proj.length) {o : Obj}
    (ho : s.reg.objs[t]? = some o) (hcl : o.cls = modCls proj t) {n : Name} (hdc : dget o.contents n = none)
    (first : Bool) {p2 : Path} (h : Names.expandLoop (envOf s) t first [n] = some p2) :
    p2 = pathOf proj t ++ [n] ∨ (first = true ∧ dget o.aliases n = none ∧ p2 = [n]) ∨ dget o.aliases n = some p2 := by
  obtain ⟨_, _, hpt, _⟩ := hI.mods t ht
  have hmo : isModuleCls o.cls = true := by rw [hcl, modCls]; split <;> rfl
  have hgo : getObj (envOf s).st t = some o := ho
  have hnc : o.cls ≠ .cls := by
    intro h0; rw [h0] at hmo; simp [isModuleCls] at hmo
  have hl := localName_module (e := envOf s) (t := t) (o := o) hgo hmo n
  have hcn : Names.componentName (envOf s) t first n = Names.localName (envOf s) (Names.fuelOf (envOf s)) t n := by
    unfold Names.componentName
    simp [hgo, hnc]
  rw [hdc] at hl
  cases hda : dget o.aliases n with
  | some tg =>
    simp only [hda] at hl
    by_cases hnb : (decide (tg = [n]) && !first) = false
    · rw [expandLoop_found (hcn.trans hl) hnb] at h
      cases hof : Names.objFor (envOf s) tg with
      | none => simp only [hof, List.append_nil, Option.some.injEq] at h; subst h; exact Or.inr (Or.inr rfl)
      | some nxt => simp only [hof, Option.some.injEq] at h; subst h; exact Or.inr (Or.inr rfl)
    · have hnb' : tg = [n] ∧ first = false := by cases first <;> simp_all
      obtain ⟨h1, h2⟩ := hnb'
      subst h2
      rw [h1] at hl
      rw [expandLoop_notfound (hcn.trans hl) hgo hnc hpt] at h
      simp only [List.append_nil, Option.some.injEq] at h
      exact Or.inl h.symm
  | none =>
    simp only [hda] at hl
    cases first with
    | true =>
      rw [expandLoop_found (hcn.trans hl) (by simp)] at h
      cases hof : Names.objFor (envOf s) [n] with
      | none => simp only [hof, List.append_nil, Option.some.injEq] at h; exact Or.inr (Or.inl ⟨rfl, rfl, h.symm⟩)
      | some nxt => simp only [hof, Option.some.injEq] at h; exact Or.inr (Or.inl ⟨rfl, rfl, h.symm⟩)
    | false =>
      rw [expandLoop_notfound (hcn.trans hl) hgo hnc hpt] at h
      simp only [List.append_nil, Option.some.injEq] at h
      exact Or.inl h.symm

/-- case analysis of `find_object` for a name that is not registered (the guard of fix 996ac8b: the root binds the first
component of the rest, else `LookupError`) -/
theorem findObject_cases {e : Names.Env} {r0 : Name} {rest : List Name} (hof : Names.objFor e (r0 :: rest) = none)
    (hne : rest ≠ []) (P : Names.Found → Prop) (h0 : P .external) (hL : P .lookupError)
    (h1 : ∀ ro, ro ∈ e.st.roots → (∃ o, getObj e.st ro = some o ∧ o.name = r0) →
      (∀ f tl', rest = f :: tl' → Names.rootBinds e ro f = true) →
      P (match Names.expandName e ro rest with
          | none => .crash
          | some p => match Names.objFor e p with
            | some o => .obj o
            | none => .lookupError)) :
    P (Names.findObject e (r0 :: rest)) := by
  unfold Names.findObject
  simp only [hof]
  split
  · exact h0
  · rename_i ro hfind
    cases rest with
    | nil => exact absurd rfl hne
    | cons f tl' =>
      simp only
      cases hb : Names.rootBinds e ro f with
      | false => simpa using hL
      | true =>
        simp only [Bool.not_true, Bool.false_eq_true, if_false]
        refine h1 ro (List.mem_of_find?_eq_some hfind) ?_ (fun f' tl'' he => by injection he with e1 _; exact e1 ▸ hb)
        have hpred := List.find?_some hfind
        cases hg : getObj e.st ro with
        | none => simp [hg] at hpred
        | some o => simp only [hg, decide_eq_true_eq] at hpred; exact ⟨o, rfl, hpred⟩

/-- a registered module object is the module of its qualified name -/
theorem module_of_path {proj : Project} {rank : List Nat} (wf : WFacts proj rank) {s : St} (hI : PdInv proj s) {i : Nat}
    {p : Path} (hm : isModuleObj s.reg i = true) (hp : path s.reg i = some p) : modIdx proj p = some i := by
  have hlt := module_obj hI hm
  obtain ⟨_, _, hpm, _⟩ := hI.mods i hlt
  rw [hp] at hpm; injection hpm with hpm
  rw [hpm]; exact modIdx_of_path wf.modNodup hlt

/-- the lookup of `<package>.n`, when `n` is not a submodule and the package binds `n` (if at all) by a
`from … import` of a top-level definition: no module is found -/
theorem lookup_sub_none {proj : Project} {rank : List Nat} (wf : WFacts proj rank) (rx : RxFacts proj)
    (hmn : ∀ m, m < proj.length → ∀ n ∈ pathOf proj m, isSupersededName n = false) {s : St} (hI : PdInv proj s)
    {t : Nat} (ht : t < proj.length) (hpk : isPkg proj t = true) {n : Name}
    (hnone : modIdx proj (pathOf proj t ++ [n]) = none)
    (hns : (bodyOf proj t).any isStarStmt = false)
    (himp : ∀ st' ∈ bodyOf proj t, isImportStmt st' = true → n ∈ explicitNames st' →
      ∃ l' M' n' a' t', st' = Stmt.importFrom l' M' n' a' ∧ target proj t l' M' = some t' ∧ definesAny proj t' n' = true) :
    (lookupModule s (pathOf proj t ++ [n])).1 = none := by
  obtain ⟨o, ho, hpt, hcl⟩ := hI.mods t ht
  have hnomod : ∀ i p, isModuleObj s.reg i = true → path s.reg i = some p → modIdx proj p = none → False := by
    intro i p hm hp hn
    rw [module_of_path wf hI hm hp] at hn; cases hn
  unfold lookupModule
  simp only
  cases hof : Names.objFor (envOf s) (pathOf proj t ++ [n]) with
  | some i =>
    simp only
    cases hm : isModuleObj s.reg i with
    | false => rfl
    | true =>
      exfalso
      have hreg : dget s.reg.all (pathOf proj t ++ [n]) = some i := hof
      exact hnomod i _ hm (hI.reg.reg.keys _ _ (mem_of_dget hreg)) hnone
  | none =>
    simp only
    -- `n` is not an entry of the package
    have hdc : dget o.contents n = none := by
      cases hd : dget o.contents n with
      | none => rfl
      | some c =>
        have := dget_of_path hI.reg (path_child hI.reg ho hd hpt)
        have h2 : Names.objFor (envOf s) (pathOf proj t ++ [n]) = some c := this
        rw [hof] at h2; cases h2
    -- what the alias of the package (if any) can be
    have halias : ∀ tg, dget o.aliases n = some tg → ∀ i, dget s.reg.all tg = some i → isModuleObj s.reg i = true → False := by
      intro tg ha i hreg hm
      have hj := hI.alias t o (t, []) ho (by rw [loc_mod]; exact hpt) ⟨ht, Or.inl rfl⟩ n tg ha
      rcases jpdR_inv wf rx hj with ⟨b, st', hb, hst', hxs, hD⟩ | ⟨r, hr, hS, _, _⟩
      · have hbm := siteBody_mod hb; subst hbm
        have hnstar : ∀ lvl M, st' ≠ .importStar lvl M := by
          intro lvl M he
          have : (bodyOf proj t).any isStarStmt = true := List.any_eq_true.2 ⟨st', hst', by rw [he]; rfl⟩
          rw [hns] at this; cases this
        have hex : n ∈ explicitNames st' := explicit_of_stmtNames hnstar hxs
        have hisimp : isImportStmt st' = true := by
          cases st' <;> simp_all [StmtD, isImportStmt]
        obtain ⟨l', M', n', a', t', he, htt, hdef⟩ := himp st' hst' hisimp hex
        subst he
        obtain ⟨_, T'', hT'', htg⟩ := hD
        obtain ⟨T3, hT3, hm3⟩ := target_spec htt
        have := abs_eq hT'' hT3; subst this
        obtain ⟨ht'l, ht'p⟩ := modIdx_spec hm3
        subst htg
        have hp2 := hI.reg.reg.keys _ _ (mem_of_dget hreg)
        have hmi := module_of_path wf hI hm hp2
        rw [← ht'p] at hmi
        unfold definesAny at hdef
        obtain ⟨st2, hst2, hd2⟩ := List.any_eq_true.1 hdef
        simp only [beq_iff_eq] at hd2
        exact child_not_stmt wf (siteBody_zero ht'l) (child_mem hmi) hst2 (stmtNames_of_explicit (defName_explicit hd2))
      · injection hS with e1 _
        have := (rx.reqOk r hr).2.1
        rw [← e1, hpk] at this; cases this
    -- `find_object`
    have hmemt : (pathOf proj t, t) ∈ s.reg.all := mem_of_path hI.reg hpt
    cases hpT : pathOf proj t with
    | nil => exact absurd hpT (wf.parentOk t ht).1
    | cons r0 tl =>
      rw [hpT] at hmemt hof
      have hfo : ∀ ro, ([r0], ro) ∈ s.reg.all → (∀ f tl', tl ++ [n] = f :: tl' → Names.rootBinds (envOf s) ro f = true) →
          ∀ p2, Names.expandName (envOf s) ro (tl ++ [n]) = some p2 →
          (match Names.objFor (envOf s) p2 with | some o2 => isModuleObj s.reg o2 = false | none => True) := by
        intro ro hro hguard p2 hx
        -- reach the package, then one component
        have hone : ∃ first, Names.expandLoop (envOf s) t first [n] = some p2 ∧ (first = true → ro = t ∧ tl = []) := by
          cases tl with
          | nil =>
            have : ro = t := by
              have h1 := dget_of_mem hI.reg.reg.uniq hro
              have h2 := dget_of_mem hI.reg.reg.uniq hmemt
              rw [h1] at h2; injection h2
            subst this
            exact ⟨true, hx, fun _ => ⟨rfl, rfl⟩⟩
          | cons c cs =>
            have hdesc := Names.expandLoop_descend (envOf s) hI.reg (c :: cs) ro t [r0] true [n] (by simp) hro
              (show ([r0] ++ (c :: cs), t) ∈ s.reg.all from hmemt)
              (fun w wo t' u hw hwk hr hu => by
                -- a proper prefix of a module path is a package
                have hpw := hI.reg.reg.keys _ _ hwk
                have hsplit : pathOf proj t = ([r0] ++ t') ++ u := by rw [hpT, hr]; simp
                obtain ⟨tt, htt, hpkk⟩ := mod_path_prefix wf _ t ([r0] ++ t') u rfl ht hsplit (by simp) hu
                obtain ⟨httl, http⟩ := modIdx_spec htt
                obtain ⟨ott, hott, hptt, hctt⟩ := hI.mods tt httl
                have : w = tt := by
                  have h1 := dget_of_path hI.reg hpw
                  have h2 := dget_of_path hI.reg hptt
                  rw [http] at h2
                  rw [h1] at h2; injection h2
                subst this
                have hw' : s.reg.objs[w]? = some wo := hw
                rw [hott] at hw'; injection hw' with hw'; subst hw'
                rw [hctt]; unfold modCls; split <;> rfl)
              (fun x hx' => hmn t ht x (by rw [hpT]; exact List.mem_cons_of_mem _ hx'))
            have hx' : Names.expandLoop (envOf s) ro true (c :: cs ++ [n]) = some p2 := hx
            rw [hdesc] at hx'
            exact ⟨false, by simpa using hx', fun h => by cases h⟩
        obtain ⟨first, hx1, hfirst⟩ := hone
        rcases expand_one hI ht ho hcl hdc first hx1 with h | ⟨hf1, hda, _⟩ | h
        · subst h; rw [hpT]; rw [hof]; trivial
        · -- the package is the root and binds `n` nowhere: the guard of `find_object` says otherwise
          exfalso
          obtain ⟨e1, e2⟩ := hfirst hf1
          subst e1; subst e2
          have hb := hguard n [] rfl
          have hgo : getObj (envOf s).st ro = some o := ho
          simp [Names.rootBinds, hgo, hdc, hda] at hb
        · cases hof2 : Names.objFor (envOf s) p2 with
          | none => trivial
          | some o2 =>
            simp only
            cases hm2 : isModuleObj s.reg o2 with
            | false => rfl
            | true => exact (halias p2 h o2 hof2 hm2).elim
      have hne : tl ++ [n] ≠ [] := by simp
      simp only [List.cons_append] at hof ⊢
      have hQ : ∀ i, Names.findObject (envOf s) (r0 :: (tl ++ [n])) = .obj i → isModuleObj s.reg i = false := by
        refine findObject_cases hof hne (fun F => ∀ i, F = .obj i → isModuleObj s.reg i = false) (fun i h => by cases h)
          (fun i h => by cases h) ?_
        intro ro hmem' ⟨oo, hgo, hname⟩ hguard
        obtain ⟨oo', hoo, hpar⟩ := hI.reg.tree.rootsOk ro hmem'
        have : oo' = oo := by
          have h1 : getObj (envOf s).st ro = some oo' := hoo
          rw [hgo] at h1; injection h1 with h1; exact h1.symm
        subst this
        have hpro : path s.reg ro = some [r0] := by
          rw [← hname]; simp only [path]; exact pathAux_root hoo hpar
        have hro := mem_of_path hI.reg hpro
        intro i hi
        cases hx : Names.expandName (envOf s) ro (tl ++ [n]) with
        | none => simp [hx] at hi
        | some p2 =>
          simp only [hx] at hi
          have := hfo ro hro hguard p2 hx
          cases hof2 : Names.objFor (envOf s) p2 with
          | none => simp [hof2] at hi
          | some o2 =>
            simp only [hof2, Names.Found.obj.injEq] at hi this
            subst hi; exact this
      cases hF : Names.findObject (envOf s) (r0 :: (tl ++ [n])) with
      | obj i => simp [hQ i hF]
      | external => rfl
      | lookupError => rfl
      | indexError => rfl
      | crash => rfl

/-- `AboveLow` from the decidable clause `aboveOk` of `WFr` -/
theorem aboveLow_of {proj : Project} {rank : List Nat} (hwf : WFr proj rank = true) : AboveLow proj rank := by
  intro S b st t P hb hst htg hP ⟨q, hq, he⟩
  have hp := allProj_spec (WFr.above hwf) hb hst
  have h1 := List.all_eq_true.1 hp (some t) htg
  simp only at h1
  have h2 := List.all_eq_true.1 h1 P (List.mem_range.2 hP)
  have hpre : isProperPrefix (pathOf proj P) (pathOf proj t) = true := by
    unfold isProperPrefix
    rw [he]
    have hlen : 0 < q.length := List.length_pos_iff.2 hq
    simp only [Bool.and_eq_true, decide_eq_true_eq, List.length_append]
    exact ⟨List.isPrefixOf_iff_prefix.2 (List.prefix_append _ _), by omega⟩
  simp only [hpre, Bool.not_true, Bool.false_or, Bool.or_eq_true, beq_iff_eq, decide_eq_true_eq] at h2
  exact h2

/-- **`SubLookup` holds for `WFr` projects** (from `pkgFromOk`, `modNamesOk` and `aboveOk`) -/
theorem subLookup_of {proj : Project} {rank : List Nat} (hwf : WFr proj rank = true) : SubLookup proj rank := by
  refine ⟨?_, aboveLow_of hwf⟩
  intro s hI S b lvl M n a t hb hst ht hpk t2 c hl hu
  obtain ⟨wf, rx⟩ := WFr.facts hwf
  have hp := allProj_spec (WFr.pkgFrom hwf) hb hst
  simp only [ht, hpk, Bool.not_true, Bool.false_or] at hp
  obtain ⟨T, hT, hmt⟩ := target_spec ht
  obtain ⟨htl, _⟩ := modIdx_spec hmt
  cases hm : modIdx proj (pathOf proj t ++ [n]) with
  | some c' =>
    simp only [hm, decide_eq_true_eq] at hp
    have := (lookupModule_spec hI hl).2 c' hm
    subst this; exact ⟨hp, rfl⟩
  | none =>
    exfalso
    simp only [hm, Bool.and_eq_true, Bool.not_eq_true', List.all_eq_true, Bool.or_eq_true] at hp
    obtain ⟨hns, himp⟩ := hp
    have himp' : ∀ st' ∈ bodyOf proj t, isImportStmt st' = true → n ∈ explicitNames st' →
        ∃ l' M' n' a' t', st' = Stmt.importFrom l' M' n' a' ∧ target proj t l' M' = some t' ∧ definesAny proj t' n' = true := by
      intro st' hst' hi hx
      rcases himp st' hst' with h | h
      · simp [hi, hx] at h
      · cases st' with
        | importFrom l' M' n' a' =>
          simp only at h
          cases ht' : target proj t l' M' with
          | none => simp [ht'] at h
          | some t' => simp only [ht'] at h; exact ⟨l', M', n', a', t', rfl, ht', h⟩
        | _ => simp at h
    have := lookup_sub_none wf rx (WFr.modNames hwf) hI htl hpk hm hns himp'
    rw [hl] at this; cases this

end Imports.Rx
