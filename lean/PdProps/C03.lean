/-
C03 — what pydoctor documents in a namespace is what Python binds there.

Models: `PdModel/Builder.lean` — `Builder` (pydoctor's `ModuleVistor` on one namespace), `PySem` (CPython's
execution of the same statements), `Subset` (the agreed subset as a decidable predicate), over the
mini-IR `Ir`.  `Lineno.cleandoc` is the shared model of `inspect.cleandoc`.

Main results
* `Builder.sim`                  the simulation: same names, order, kind class, coroutine flag, cleaned
                                 docstring, literal value; no name twice            (all lists of the subset)
* `Builder.documented_eq_bound_partial`  nothing missing, nothing invented, nothing twice     (corollary)
* `Builder.kind_eq`, `kind_eq_iff`   kind from decorators = class of the bound object, for ALL decorator lists
* `Builder.exception_eq`         exception-ness through the bases, full for the generated tables
                                 (`exception_tables_agree`: no name on which the tables disagree)
* `Builder.docstring_eq`         docstring = cleandoc of the interpreter's `__doc__`; coroutine flag
* `Builder.value_eq`, `infer_type_sound`, `infer_elements_sound`   inferred type = `type(value).__name__`
* `…_counterexample`             one concrete witness per construct the hypothesis `Subset.inSubset` excludes.

Full statement of the property (FALSE on this tree, kept visible):
    theorem documented_eq_bound_full (c : Ctx) (stmts : List Stmt) :
        documented c stmts = bound c stmts ∧ ((documented c stmts).map (·.1)).Nodup
It fails for `@x.setter` (member `x.setter` invented), a bare annotation (member invented), a class attribute
assigned a non-literal that shadows an inherited method (member missing; literals are documented since 91105ce), definitions in the `else` branch of an `if` / an `except` handler that runs
(missing), a `def`/`class`/property name assigned afterwards (pydoctor keeps the definition; every other
re-binding is inside the subset: the last binding wins on both sides), `@overload` without implementation; the
kind clause fails for stacked descriptors, identity decorators named `*property` and
descriptors at module level.  Each has a `_counterexample` theorem below.  Two former exclusions are gone:
exception classes missing from `_STD_LIB_EXCEPTIONS` (fixed by 769cae3) and a string statement right after a
property (fixed by fcaa577); their witnesses are kept as `…_counterexample_old` over labelled pre-fix definitions;
`documented_eq_bound_partial` is the `_partial` form under the decidable hypothesis `Subset.inSubset`.
-/
import PdModel.Builder
import Generated.Tables

namespace Builder
open Ir Subset

/-! # literal type inference -/

theorem infer_type_sound (v : Lit) (a : Ann) (h : inferType v = some a) : a.head = PySem.typeName v := by
  cases v <;> simp [inferType, annForValue] at h
  all_goals try (subst h; simp [Ann.head, PySem.typeName])
  · cases annForElems [] _ <;> rfl
  · cases annForElems [] _ <;> rfl
  · cases annForElems [] _ <;> rfl
  · rename_i ks vs
    cases annForElems [] ks <;> cases annForElems [] vs <;> rfl

/-- no annotation is inferred only for `None` (and for a value that is not a literal) -/
theorem infer_none_iff (v : Lit) : inferType v = none ↔ (v = .none ∨ v = .call) := by
  cases v <;> simp [inferType, annForValue]

theorem annForValue_name (x : Lit) (n : String) (h : annForValue x = some (.name n)) :
    n = PySem.typeName x := by
  cases x <;> simp [annForValue] at h <;> try (simp [PySem.typeName, h.symm])
  all_goals (split at h <;> simp_all)

/-- `_annotation_for_elements`: the answer is the one type name shared by all elements -/
theorem annForElems_sound : ∀ (xs : List Lit) (names : List String) (t : String),
    annForElems names xs = some t →
      (∀ n ∈ names, n = t) ∧ (∀ x ∈ xs, PySem.typeName x = t) ∧ (names ≠ [] ∨ xs ≠ [])
  | [], names, t, h => by
    simp only [annForElems] at h
    match names, h with
    | [n], h => simp at h; simp [h]
  | x :: rest, names, t, h => by
    simp only [annForElems] at h
    split at h
    · rename_i n hx
      have ih := annForElems_sound rest (addName names n) t h
      have hn : n = t := by
        apply ih.1
        unfold addName; split <;> simp_all
      refine ⟨?_, ?_, by simp⟩
      · intro m hm
        apply ih.1
        unfold addName; split <;> simp_all
      · intro y hy
        cases hy with
        | head => rw [← hn]; exact (annForValue_name x n hx).symm
        | tail _ hy => exact ih.2.1 y hy
    · simp at h


theorem any_congr_of_all {α} (f g : α → Bool) : ∀ l : List α, l.all (fun n => f n == g n) = true → l.any f = l.any g
  | [], _ => rfl
  | x :: rest, h => by
    simp only [List.all_cons, Bool.and_eq_true, beq_iff_eq] at h
    simp [List.any_cons, h.1, any_congr_of_all f g rest h.2]

/-- **exception_eq_of_tables** — a class is documented as an exception exactly when CPython makes it a subclass
of `BaseException`, provided the two name tables classify alike the external names its bases reach. -/
theorem exception_eq_of_tables (c : Ctx) (bases : List Base) (h : basesOk c bases = true) :
    isException c bases = PySem.isException c bases := by
  unfold isException PySem.isException
  exact any_congr_of_all _ _ _ h

/-! ## kinds from decorators -/

/-- `classmethod(o)` / `staticmethod(o)` / `property(o)` -/
def wrapD : Desc → PySem.PyObj → PySem.PyObj
  | .classmethod, o => .cm o
  | .staticmethod, o => .sm o
  | .property, o => .prop o

/-- descriptors applied innermost (last) first -/
def wrapAll : List Desc → PySem.PyObj → PySem.PyObj
  | [], o => o
  | d :: rest, o => wrapD d (wrapAll rest o)

theorem applyDecos_ok (inClass : Bool) (ns : PySem.Ns) (o : PySem.PyObj) :
    ∀ ds : List Deco, ds.all (decoOk inClass) = true → PySem.applyDecos ns ds o = some (wrapAll (descs ds) o)
  | [], _ => by simp [PySem.applyDecos, descs, wrapAll]
  | d :: rest, h => by
    simp only [List.all_cons, Bool.and_eq_true] at h
    have ih := applyDecos_ok inClass ns o rest h.2
    simp only [PySem.applyDecos, ih]
    cases d with
    | builtin k q => cases k <;> simp [PySem.applyDeco, descs, descOf, wrapAll, wrapD]
    | ident n => simp [PySem.applyDeco, descs, List.filterMap_cons, descOf]
    | unnamed => simp [PySem.applyDeco, descs, List.filterMap_cons, descOf]
    | setter x => simp [decoOk] at h
    | deleter x => simp [decoOk] at h
    | overload => simp [decoOk] at h

theorem decoStep_ok (inClass : Bool) (fl : Flags) (d : Deco) (h : decoOk inClass d = true) :
    decoStep inClass fl d =
      { fl with isProperty := fl.isProperty || descOf d == some .property,
                isClassmethod := fl.isClassmethod || descOf d == some .classmethod,
                isStaticmethod := fl.isStaticmethod || descOf d == some .staticmethod } := by
  cases d with
  | builtin k q =>
    simp only [decoOk] at h
    subst h
    have e1 : endsWith sClassmethod sProperty = false := by decide
    have e2 : endsWith sClassmethod sPropertyCap = false := by decide
    have e3 : endsWith sStaticmethod sProperty = false := by decide
    have e4 : endsWith sStaticmethod sPropertyCap = false := by decide
    have e5 : endsWith sProperty sProperty = true := by decide
    have e6 : (sStaticmethod = sClassmethod) = False := by decide
    have e7 : (sBuiltins = sClassmethod) = False := by decide
    have e8 : (sBuiltins = sStaticmethod) = False := by decide
    cases k <;> cases q <;> simp [decoStep, dotted, descName, descOf, expandsToOverload, e1, e2, e3, e4, e5, e6, e7, e8]
  | ident n =>
    simp only [decoOk, Bool.and_eq_true, Bool.not_eq_true', bne_iff_ne, ne_eq] at h
    obtain ⟨⟨⟨h1, h2⟩, h3⟩, h4⟩ := h
    cases inClass <;> simp [decoStep, dotted, descOf, expandsToOverload, h1, h2, h3, h4]
  | unnamed => simp [decoStep, dotted, descOf]
  | setter x => simp [decoOk] at h
  | deleter x => simp [decoOk] at h
  | overload => simp [decoOk] at h

theorem foldl_decoStep_ok (inClass : Bool) :
    ∀ (ds : List Deco) (fl : Flags), ds.all (decoOk inClass) = true →
      ds.foldl (decoStep inClass) fl =
        { fl with isProperty := fl.isProperty || (descs ds).contains .property,
                  isClassmethod := fl.isClassmethod || (descs ds).contains .classmethod,
                  isStaticmethod := fl.isStaticmethod || (descs ds).contains .staticmethod }
  | [], fl, _ => by simp [descs]
  | d :: rest, fl, h => by
    simp only [List.all_cons, Bool.and_eq_true] at h
    rw [List.foldl_cons, decoStep_ok inClass fl d h.1, foldl_decoStep_ok inClass rest _ h.2]
    cases d with
    | builtin k q =>
      have hd : descs (Deco.builtin k q :: rest) = k :: descs rest := by simp [descs, descOf]
      rw [hd]
      cases k <;> simp only [descOf, List.contains_cons, beq_self_eq_true, Bool.or_true, Bool.true_or,
        show (some Desc.classmethod == some Desc.property) = false by decide,
        show (some Desc.classmethod == some Desc.staticmethod) = false by decide,
        show (some Desc.staticmethod == some Desc.property) = false by decide,
        show (some Desc.staticmethod == some Desc.classmethod) = false by decide,
        show (some Desc.property == some Desc.classmethod) = false by decide,
        show (some Desc.property == some Desc.staticmethod) = false by decide,
        show (Desc.classmethod == Desc.property) = false by decide,
        show (Desc.classmethod == Desc.staticmethod) = false by decide,
        show (Desc.staticmethod == Desc.property) = false by decide,
        show (Desc.staticmethod == Desc.classmethod) = false by decide,
        show (Desc.property == Desc.classmethod) = false by decide,
        show (Desc.property == Desc.staticmethod) = false by decide, Bool.false_or, Bool.or_false]
    | ident n =>
      have hd : descs (Deco.ident n :: rest) = descs rest := by simp [descs, List.filterMap_cons, descOf]
      rw [hd]; simp [descOf]
    | unnamed =>
      have hd : descs (Deco.unnamed :: rest) = descs rest := by simp [descs, List.filterMap_cons, descOf]
      rw [hd]; simp [descOf]
    | setter x => simp [decoOk] at h
    | deleter x => simp [decoOk] at h
    | overload => simp [decoOk] at h

/-- pydoctor's decision as a function of the descriptor decorators alone -/
def bkind (inClass : Bool) (l : List Desc) : KindClass :=
  if l.contains .property then .property
  else if l.contains .staticmethod then
    (if l.contains .classmethod then (if inClass then .method else .function) else .staticmethod)
  else if l.contains .classmethod then .classmethod
  else if inClass then .method else .function

/-- CPython's: the class of the outermost descriptor -/
def pkind (inClass : Bool) : List Desc → KindClass
  | [] => if inClass then .method else .function
  | .classmethod :: _ => .classmethod
  | .staticmethod :: _ => .staticmethod
  | .property :: _ => .property

theorem funcKind_eq_bkind (inClass : Bool) (n : Name) (ds : List Deco) (h : ds.all (decoOk inClass) = true) :
    funcKind inClass n ds = bkind inClass (descs ds) := by
  simp [funcKind, decoFlags, foldl_decoStep_ok inClass ds _ h, bkind]

theorem kindClass_wrapAll (inClass : Bool) (a : Bool) (d : Option (List Char)) :
    ∀ l : List Desc, PySem.kindClass inClass (wrapAll l (.func a d)) = pkind inClass l
  | [] => by simp [wrapAll, PySem.kindClass, pkind]
  | k :: rest => by cases k <;> simp [wrapAll, wrapD, PySem.kindClass, pkind]

theorem pyFuncKind_eq_pkind (inClass : Bool) (ns : PySem.Ns) (ds : List Deco) (h : ds.all (decoOk inClass) = true) :
    PySem.funcKind inClass ns ds = some (pkind inClass (descs ds)) := by
  simp [PySem.funcKind, applyDecos_ok inClass ns _ ds h, kindClass_wrapAll]

/-- **kind_eq** — for EVERY decorator list of the subset (any length, any order) the kind pydoctor gives
the function is the class of the object CPython binds. -/
theorem kind_eq (inClass : Bool) (n : Name) (ns : PySem.Ns) (ds : List Deco) (h : decosOk inClass ds = true) :
    PySem.funcKind inClass ns ds = some (funcKind inClass n ds) := by
  simp only [decosOk, Bool.and_eq_true, decide_eq_true_eq] at h
  rw [pyFuncKind_eq_pkind inClass ns ds h.1, funcKind_eq_bkind inClass n ds h.1]
  match hd : descs ds, h.2 with
  | [], _ => simp [pkind, bkind]
  | [k], _ => cases k <;> simp [pkind, bkind]

/-- where exactly the two decisions agree, for every list of evaluable decorators (stacked descriptors
included): the outermost descriptor is `property`, or there is no `property` and not both
`classmethod` and `staticmethod`. -/
theorem kind_eq_iff (inClass : Bool) (n : Name) (ns : PySem.Ns) (ds : List Deco) (h : ds.all (decoOk inClass) = true) :
    PySem.funcKind inClass ns ds = some (funcKind inClass n ds) ↔
      ((descs ds).head? = some .property ∨
        ((descs ds).contains .property = false ∧
          ¬ ((descs ds).contains .classmethod = true ∧ (descs ds).contains .staticmethod = true))) := by
  rw [pyFuncKind_eq_pkind inClass ns ds h, funcKind_eq_bkind inClass n ds h]
  generalize descs ds = l
  cases l with
  | nil => cases inClass <;> simp [pkind, bkind]
  | cons k rest =>
    cases k <;> cases inClass <;> by_cases h1 : Desc.property ∈ rest <;>
      by_cases h2 : Desc.classmethod ∈ rest <;> by_cases h3 : Desc.staticmethod ∈ rest <;>
      simp [pkind, bkind, h1, h2, h3]


/-! ## what is compared between the two sides -/

structure View where
  name : Name
  kc : KindClass
  co : Bool
  doc : Option (List Char)
  lit : Option Lit

def viewB (c : Ctx) (m : Member) : View :=
  { name := m.name, kc := kindClass (postProcess c m), co := (m.cls == .function && m.isAsync),
    doc := if kindClass (postProcess c m) = .variable then none else m.doc,
    lit := if kindClass (postProcess c m) = .variable then m.value else none }

def viewP (c : Ctx) (p : Name × PySem.PyObj) : View :=
  { name := p.1, kc := PySem.kindClass c.inClass p.2, co := PySem.coroutine p.2,
    doc := match p.2 with | .value _ => none | o => (PySem.rawDoc o).map cleandoc,
    lit := match p.2 with | .value l => some l | _ => none }

/-! ## association-list lemmas -/

theorem lookup_none_iff (l : List Member) (n : Name) : lookup l n = none ↔ n ∉ l.map (·.name) := by
  simp [lookup, List.find?_eq_none]

theorem put_fresh (l : List Member) (m : Member) (h : lookup l m.name = none) : put l m = l ++ [m] := by
  simp [put, h]

theorem plookup_none_iff (ns : PySem.Ns) (n : Name) : PySem.lookup ns n = none ↔ n ∉ ns.map (·.1) := by
  simp [PySem.lookup, List.find?_eq_none]
  constructor
  · intro h x hx; exact h n x hx rfl
  · intro h a b hab e; subst e; exact h b hab

theorem bind_fresh (ns : PySem.Ns) (n : Name) (o : PySem.PyObj) (h : PySem.lookup ns n = none) :
    PySem.bind ns n o = ns ++ [(n, o)] := by
  simp [PySem.bind, h]

theorem names_of_views (c : Ctx) (l : List Member) (ns : PySem.Ns) (h : l.map (viewB c) = ns.map (viewP c)) :
    ns.map (·.1) = l.map (·.name) := by
  have := congrArg (List.map View.name) h
  simpa [List.map_map, Function.comp_def, viewB, viewP] using this.symm

theorem map_map_eq {α β γ : Type} (va : α → γ) (vb : β → γ) (fa : α → α) (fb : β → β) :
    ∀ (l : List α) (p : List β), l.map va = p.map vb →
      (∀ a ∈ l, ∀ b ∈ p, va a = vb b → va (fa a) = vb (fb b)) → (l.map fa).map va = (p.map fb).map vb
  | [], [], _, _ => rfl
  | [], _ :: _, h, _ => by simp at h
  | _ :: _, [], h, _ => by simp at h
  | a :: l, b :: p, h, hp => by
    simp only [List.map_cons, List.cons.injEq] at h ⊢
    refine ⟨hp a (by simp) b (by simp) h.1, ?_⟩
    exact map_map_eq va vb fa fb l p h.2 (fun a' ha b' hb => hp a' (by simp [ha]) b' (by simp [hb]))

/-! ## the simulation invariant -/

/-- a documented plain function/method or class: the target of a `name.__doc__ = …` statement -/
def DocB (m : Member) : Prop := (m.cls = .function ∧ (m.kind = .method ∨ m.kind = .function)) ∨ m.cls = .cls
/-- a function object or a class: objects whose `__doc__` can be assigned -/
def DocP (o : PySem.PyObj) : Prop := (∃ a d, o = .func a d) ∨ (∃ e d, o = .cls e d)

/-- a method of the class being built, decorated/wrapped with classmethod or staticmethod or not -/
def MethK (m : Member) : Prop :=
  m.cls = .function ∧ (m.kind = .method ∨ m.kind = .staticMethod ∨ m.kind = .classMethod)
/-- a function object, possibly inside `classmethod(...)` / `staticmethod(...)` -/
def PFun : PySem.PyObj → Prop
  | .func _ _ => True
  | .cm _ => True
  | .sm _ => True
  | _ => False

structure Rel (c : Ctx) (sn : Seen) (s : State) (ns : PySem.Ns) : Prop where
  views : s.contents.map (viewB c) = ns.map (viewP c)
  names : s.contents.map (·.name) = sn.names
  nodup : sn.names.Nodup
  noOv : ∀ m ∈ s.contents, m.overloads = 0
  plainSub : ∀ n ∈ sn.plain, n ∈ sn.names
  plainB : ∀ n ∈ sn.plain, ∀ m ∈ s.contents, m.name = n → MethK m
  plainP : ∀ n ∈ sn.plain, ∀ b ∈ ns, b.1 = n → PFun b.2
  docSub : ∀ n ∈ sn.docable, n ∈ sn.names
  docB : ∀ n ∈ sn.docable, ∀ m ∈ s.contents, m.name = n → DocB m
  docP : ∀ n ∈ sn.docable, ∀ b ∈ ns, b.1 = n → DocP b.2
  varsSub : ∀ n ∈ sn.vars, n ∈ sn.names
  varsB : ∀ n ∈ sn.vars, ∀ m ∈ s.contents, m.name = n → m.cls = .attribute ∧ m.kind ≠ .property
  cur : ∀ n, s.cur = some n → ∀ m ∈ s.contents, m.name = n → m.cls = .attribute ∧ m.kind ≠ .property

theorem Rel.pnames {c : Ctx} {sn : Seen} {s : State} {ns : PySem.Ns} (R : Rel c sn s ns) :
    ns.map (·.1) = sn.names := by
  rw [names_of_views c _ _ R.views, R.names]

theorem rel_init (c : Ctx) : Rel c {} {} [] :=
  { views := rfl, names := rfl, nodup := List.nodup_nil, noOv := by simp, plainSub := by simp, plainB := by simp,
    plainP := by simp, docSub := by simp, docB := by simp, docP := by simp, varsSub := by simp, varsB := by simp,
    cur := by simp }

/-! ### `contents[name] = obj` / `ns[name] = obj`: a new entry at the end, or the old entry replaced in place -/

theorem mem_put {l : List Member} {m m' : Member} (h : m' ∈ put l m) : m' = m ∨ (m' ∈ l ∧ m'.name ≠ m.name) := by
  unfold put at h
  split at h
  · obtain ⟨x, hx, rfl⟩ := List.mem_map.mp h
    by_cases e : x.name = m.name
    · left; simp [e]
    · right; simp [e, hx]
  · rename_i hl
    simp only [Option.isSome_iff_ne_none, ne_eq, Decidable.not_not] at hl
    rcases List.mem_append.mp h with h | h
    · right
      refine ⟨h, fun e => ?_⟩
      have := (lookup_none_iff l m.name).mp hl
      exact this (List.mem_map.mpr ⟨m', h, e⟩)
    · left; simpa using h

theorem mem_bind {ns : PySem.Ns} {n : Name} {o : PySem.PyObj} {b : Name × PySem.PyObj} (h : b ∈ PySem.bind ns n o) :
    b = (n, o) ∨ (b ∈ ns ∧ b.1 ≠ n) := by
  unfold PySem.bind at h
  split at h
  · obtain ⟨x, hx, rfl⟩ := List.mem_map.mp h
    by_cases e : x.1 = n
    · left; simp [e]
    · right; simp [e, hx]
  · rename_i hl
    simp only [Option.isSome_iff_ne_none, ne_eq, Decidable.not_not] at hl
    rcases List.mem_append.mp h with h | h
    · right
      refine ⟨h, fun e => ?_⟩
      have := (plookup_none_iff ns n).mp hl
      exact this (List.mem_map.mpr ⟨b, h, e⟩)
    · left; simpa using h

theorem put_names (l : List Member) (m : Member) : (put l m).map (·.name) = Subset.addName (l.map (·.name)) m.name := by
  by_cases hin : m.name ∈ l.map (·.name)
  · have hl : (lookup l m.name).isSome = true := by
      cases hq : lookup l m.name with
      | none => exact absurd hin ((lookup_none_iff l m.name).mp hq)
      | some _ => rfl
    have hc : (l.map (·.name)).contains m.name = true := by simpa using hin
    simp only [put, hl, if_true, Subset.addName, hc, List.map_map]
    apply List.map_congr_left
    intro x _
    by_cases e : x.name = m.name <;> simp [e]
  · have hl := (lookup_none_iff l m.name).mpr hin
    have hc : (l.map (·.name)).contains m.name = false := by simpa using hin
    rw [put_fresh _ _ hl]
    simp only [Subset.addName, hc, Bool.false_eq_true, if_false, List.map_append, List.map_cons, List.map_nil]

theorem nodup_addName (names : List Name) (n : Name) (h : names.Nodup) : (Subset.addName names n).Nodup := by
  unfold Subset.addName
  split
  · exact h
  · rename_i hc
    rw [List.nodup_append]
    refine ⟨h, by simp, ?_⟩
    intro a ha b hb e
    simp at hb
    subst hb; subst e
    exact hc (by simpa using ha)

theorem mem_addName (names : List Name) (n k : Name) : k ∈ Subset.addName names n ↔ k ∈ names ∨ k = n := by
  unfold Subset.addName
  split
  · rename_i hc
    constructor
    · intro h; exact Or.inl h
    · intro h
      rcases h with h | h
      · exact h
      · subst h; simpa using hc
  · simp

theorem put_bind_views (c : Ctx) (l : List Member) (ns : PySem.Ns) (m : Member) (o : PySem.PyObj)
    (h : l.map (viewB c) = ns.map (viewP c)) (hv : viewB c m = viewP c (m.name, o)) :
    (put l m).map (viewB c) = (PySem.bind ns m.name o).map (viewP c) := by
  have hn := names_of_views c l ns h
  by_cases hin : m.name ∈ l.map (·.name)
  · have hl : (lookup l m.name).isSome = true := by
      cases hq : lookup l m.name with
      | none => exact absurd hin ((lookup_none_iff l m.name).mp hq)
      | some _ => rfl
    have hlp : (PySem.lookup ns m.name).isSome = true := by
      cases hq : PySem.lookup ns m.name with
      | none => rw [plookup_none_iff, hn] at hq; exact absurd hin hq
      | some _ => rfl
    simp only [put, hl, if_true, PySem.bind, hlp]
    apply map_map_eq (viewB c) (viewP c) _ _ _ _ h
    intro a _ b _ hab
    have hname : a.name = b.1 := by simpa [viewB, viewP] using congrArg View.name hab
    by_cases e : a.name = m.name
    · have eb : b.1 = m.name := hname ▸ e
      rw [if_pos e, if_pos eb]; exact hv
    · have eb : ¬ b.1 = m.name := hname ▸ e
      rw [if_neg e, if_neg eb]; exact hab
  · have hl := (lookup_none_iff l m.name).mpr hin
    have hlp : PySem.lookup ns m.name = none := by rw [plookup_none_iff, hn]; exact hin
    rw [put_fresh _ _ hl, bind_fresh _ _ _ hlp]
    simp [h, hv]

/-- what the caller knows about the entry being written and about the bookkeeping lists afterwards -/
structure NewFacts (sn : Seen) (m : Member) (o : PySem.PyObj) (plain' doc' vars' : List Name) (cur' : Option Name) : Prop where
  ov : m.overloads = 0
  plain : ∀ k ∈ plain', (k ∈ sn.plain ∧ k ≠ m.name) ∨
            (k = m.name ∧ MethK m ∧ PFun o)
  doc : ∀ k ∈ doc', (k ∈ sn.docable ∧ k ≠ m.name) ∨ (k = m.name ∧ DocB m ∧ DocP o)
  vars : ∀ k ∈ vars', (k ∈ sn.vars ∧ k ≠ m.name) ∨ (k = m.name ∧ m.cls = .attribute ∧ m.kind ≠ .property)
  cur : ∀ k, cur' = some k → k = m.name ∧ m.cls = .attribute ∧ m.kind ≠ .property

/-- both sides write an entry under the same name — a new one at the end or the old one replaced in place -/
theorem rel_put {c : Ctx} {sn : Seen} {s : State} {ns : PySem.Ns} (R : Rel c sn s ns)
    (m : Member) (o : PySem.PyObj) (hv : viewB c m = viewP c (m.name, o))
    {plain' doc' vars' : List Name} {cur' : Option Name} (F : NewFacts sn m o plain' doc' vars' cur') :
    Rel c { names := Subset.addName sn.names m.name, plain := plain', docable := doc', vars := vars' }
      { contents := put s.contents m, cur := cur' } (PySem.bind ns m.name o) := by
  refine { views := put_bind_views c _ _ m o R.views hv, names := ?_, nodup := nodup_addName _ _ R.nodup, noOv := ?_,
           plainSub := ?_, plainB := ?_, plainP := ?_, docSub := ?_, docB := ?_, docP := ?_, varsSub := ?_, varsB := ?_,
           cur := ?_ }
  · rw [put_names, R.names]
  · intro m' hm'
    rcases mem_put hm' with h | h
    · rw [h]; exact F.ov
    · exact R.noOv m' h.1
  · intro k hk
    rw [mem_addName]
    rcases F.plain k hk with h | h
    · exact Or.inl (R.plainSub k h.1)
    · exact Or.inr h.1
  · intro k hk m' hm' e
    rcases F.plain k hk with h | h
    · rcases mem_put hm' with h' | h'
      · subst h'; exact absurd e.symm h.2
      · exact R.plainB k h.1 m' h'.1 e
    · rcases mem_put hm' with h' | h'
      · subst h'; exact h.2.1
      · exact absurd (e.trans h.1) h'.2
  · intro k hk b hb e
    rcases F.plain k hk with h | h
    · rcases mem_bind hb with h' | h'
      · subst h'; exact absurd e.symm h.2
      · exact R.plainP k h.1 b h'.1 e
    · rcases mem_bind hb with h' | h'
      · subst h'; exact h.2.2
      · exact absurd (e.trans h.1) h'.2
  · intro k hk
    rw [mem_addName]
    rcases F.doc k hk with h | h
    · exact Or.inl (R.docSub k h.1)
    · exact Or.inr h.1
  · intro k hk m' hm' e
    rcases F.doc k hk with h | h
    · rcases mem_put hm' with h' | h'
      · subst h'; exact absurd e.symm h.2
      · exact R.docB k h.1 m' h'.1 e
    · rcases mem_put hm' with h' | h'
      · subst h'; exact h.2.1
      · exact absurd (e.trans h.1) h'.2
  · intro k hk b hb e
    rcases F.doc k hk with h | h
    · rcases mem_bind hb with h' | h'
      · subst h'; exact absurd e.symm h.2
      · exact R.docP k h.1 b h'.1 e
    · rcases mem_bind hb with h' | h'
      · subst h'; exact h.2.2
      · exact absurd (e.trans h.1) h'.2
  · intro k hk
    rw [mem_addName]
    rcases F.vars k hk with h | h
    · exact Or.inl (R.varsSub k h.1)
    · exact Or.inr h.1
  · intro k hk m' hm' e
    rcases F.vars k hk with h | h
    · rcases mem_put hm' with h' | h'
      · subst h'; exact absurd e.symm h.2
      · exact R.varsB k h.1 m' h'.1 e
    · rcases mem_put hm' with h' | h'
      · subst h'; exact h.2
      · exact absurd (e.trans h.1) h'.2
  · intro k hk m' hm' e
    obtain ⟨h1, h2, h3⟩ := F.cur k hk
    rcases mem_put hm' with h' | h'
    · subst h'; exact ⟨h2, h3⟩
    · exact absurd (e.trans h1) h'.2

theorem mem_dropName {n k : Name} {l : List Name} : k ∈ dropName n l ↔ k ∈ l ∧ k ≠ n := by
  simp [dropName]

/-! ## one statement at a time -/

theorem sim_classDef {c : Ctx} {sn sn' : Seen} {s : State} {ns : PySem.Ns} (R : Rel c sn s ns) (inBlock : Bool)
    (n : Name) (bases : List Base) (decos : List Deco) (doc : Option (List Char)) (body : List Stmt)
    (h : checkStmt c sn (.classDef n bases decos doc body) = some sn') :
    ∃ s' ns', execStmt c inBlock s (.classDef n bases decos doc body) = .ok s' ∧
      PySem.execStmt c ns (.classDef n bases decos doc body) = .ok ns' ∧ Rel c sn' s' ns' := by
  simp only [checkStmt] at h
  split at h
  · simp at h
  · rename_i hc
    simp only [Bool.or_eq_true, Bool.not_eq_true', not_or, Bool.not_eq_false] at hc
    obtain ⟨_, hb⟩ := hc
    simp only [Option.some.injEq] at h
    subst h
    refine ⟨_, _, by simp only [execStmt]; rfl, by simp only [PySem.execStmt]; rfl, ?_⟩
    simp only [handleClassDef]
    refine rel_put R { name := n, cls := .cls, kind := .cls, doc := doc.map cleandoc, bases := bases } _ ?_
      { ov := rfl, plain := ?_, doc := ?_, vars := ?_, cur := by simp }
    · rw [← exception_eq_of_tables c bases (by simpa using hb)]
      cases he : isException c bases <;>
        simp [viewB, viewP, postProcess, he, kindClass, PySem.kindClass, PySem.coroutine, PySem.underlying, PySem.rawDoc]
    · intro k hk; exact Or.inl (mem_dropName.mp hk)
    · intro k hk
      simp only [List.mem_append, List.mem_singleton] at hk
      rcases hk with h | h
      · exact Or.inl (mem_dropName.mp h)
      · exact Or.inr ⟨h, Or.inr rfl, Or.inr ⟨_, _, rfl⟩⟩
    · intro k hk; exact Or.inl (mem_dropName.mp hk)

theorem lookup_some {l : List Member} {n : Name} {m : Member} (h : lookup l n = some m) : m ∈ l ∧ m.name = n := by
  unfold lookup at h
  exact ⟨List.mem_of_find?_eq_some h, by simpa using List.find?_some h⟩

theorem plookup_some {ns : PySem.Ns} {n : Name} {o : PySem.PyObj} (h : PySem.lookup ns n = some o) : (n, o) ∈ ns := by
  unfold PySem.lookup at h
  cases hf : ns.find? (fun p => decide (p.1 = n)) with
  | none => simp [hf] at h
  | some b =>
    simp [hf] at h
    have h1 := List.mem_of_find?_eq_some hf
    have h2 : b.1 = n := by simpa using List.find?_some hf
    rw [← h, ← h2]; exact h1

theorem pairs_unique : ∀ (ns : PySem.Ns), (ns.map (·.1)).Nodup → ∀ b ∈ ns, ∀ b' ∈ ns, b.1 = b'.1 → b = b'
  | [], _, b, hb, _, _, _ => by simp at hb
  | x :: rest, hn, b, hb, b', hb', e => by
    simp only [List.map_cons, List.nodup_cons, List.mem_map, not_exists, not_and] at hn
    simp only [List.mem_cons] at hb hb'
    rcases hb with hb | hb <;> rcases hb' with hb' | hb'
    · rw [hb, hb']
    · subst hb; exact absurd e.symm (hn.1 b' hb')
    · subst hb'; exact absurd e (hn.1 b hb)
    · exact pairs_unique rest hn.2 b hb b' hb' e

theorem storeVar_facts (obj : Member) (ann : Option Name) (v : Lit) (ib : Bool) (dk : Kind)
    (hc : obj.cls = .attribute) (hk : obj.kind ≠ .property) (hd : dk ≠ .property) :
    (storeVar obj ann (some v) ib dk).name = obj.name ∧ (storeVar obj ann (some v) ib dk).cls = .attribute ∧
    (storeVar obj ann (some v) ib dk).kind ≠ .property ∧ (storeVar obj ann (some v) ib dk).value = some v ∧
    (storeVar obj ann (some v) ib dk).overloads = obj.overloads := by
  cases ann <;> simp only [storeVar, handleConstant] <;> (repeat' split) <;> simp_all

theorem view_var (c : Ctx) (m : Member) (v : Lit) (hc : m.cls = .attribute) (hk : m.kind ≠ .property)
    (hv : m.value = some v) : viewB c m = viewP c (m.name, .value v) := by
  have hp : postProcess c m = m := by simp [postProcess, hc]
  have hkc : kindClass m = .variable := by
    unfold kindClass; rw [hc]; cases hk' : m.kind <;> simp_all
  simp [viewB, viewP, hp, hkc, hc, hv, PySem.kindClass, PySem.coroutine, PySem.underlying]

/-- a variable is assigned again: pydoctor updates the Attribute in place (`upd`), CPython rebinds the name -/
theorem rel_updvar {c : Ctx} {sn : Seen} {s : State} {ns : PySem.Ns} (R : Rel c sn s ns)
    (n : Name) (v : Lit) (ann : Option Name) (ib : Bool) (dk : Kind) (hd : dk ≠ .property)
    (hnames : n ∈ sn.names) (hvar : n ∈ sn.vars) :
    Rel c { names := Subset.addName sn.names n, plain := dropName n sn.plain, docable := dropName n sn.docable,
            vars := dropName n sn.vars ++ [n] }
      { contents := upd s.contents n (fun o => storeVar o ann (some v) ib dk), cur := some n }
      (PySem.bind ns n (.value v)) := by
  have hadd : Subset.addName sn.names n = sn.names := by
    unfold Subset.addName; rw [if_pos (by simpa using hnames)]
  have hlp : (PySem.lookup ns n).isSome = true := by
    cases hq : PySem.lookup ns n with
    | none => rw [plookup_none_iff, R.pnames] at hq; exact absurd hnames hq
    | some _ => rfl
  have hfacts : ∀ x ∈ s.contents, x.name = n →
      (storeVar x ann (some v) ib dk).name = x.name ∧ (storeVar x ann (some v) ib dk).cls = .attribute ∧
      (storeVar x ann (some v) ib dk).kind ≠ .property ∧ (storeVar x ann (some v) ib dk).value = some v ∧
      (storeVar x ann (some v) ib dk).overloads = x.overloads := by
    intro x hx e
    obtain ⟨h1, h2⟩ := R.varsB n hvar x hx e
    exact storeVar_facts x ann v ib dk h1 h2 hd
  -- a member of the updated contents is an old member with another name, or the update of an old member named n
  have hmem : ∀ m' ∈ upd s.contents n (fun o => storeVar o ann (some v) ib dk),
      (m' ∈ s.contents ∧ m'.name ≠ n) ∨ (∃ x ∈ s.contents, x.name = n ∧ m' = storeVar x ann (some v) ib dk) := by
    intro m' hm'
    simp only [upd, List.mem_map] at hm'
    obtain ⟨x, hx, rfl⟩ := hm'
    by_cases e : x.name = n
    · right; exact ⟨x, hx, e, by simp [e]⟩
    · left; simp [e, hx]
  rw [hadd]
  simp only [PySem.bind, hlp, if_true]
  refine { views := ?_, names := ?_, nodup := R.nodup, noOv := ?_, plainSub := ?_, plainB := ?_, plainP := ?_,
           docSub := ?_, docB := ?_, docP := ?_, varsSub := ?_, varsB := ?_, cur := ?_ }
  · simp only [upd]
    apply map_map_eq (viewB c) (viewP c) _ _ _ _ R.views
    intro a ha b _ hab
    have hname : a.name = b.1 := by simpa [viewB, viewP] using congrArg View.name hab
    by_cases e : a.name = n
    · have eb : b.1 = n := hname ▸ e
      rw [if_pos e, if_pos eb]
      obtain ⟨f1, f2, f3, f4, _⟩ := hfacts a ha e
      have := view_var c _ v f2 f3 f4
      rw [f1, e] at this
      exact this
    · have eb : ¬ b.1 = n := hname ▸ e
      rw [if_neg e, if_neg eb]; exact hab
  · rw [← R.names]
    simp only [upd, List.map_map]
    apply List.map_congr_left
    intro x hx
    by_cases e : x.name = n
    · simp [e, (hfacts x hx e).1]
    · simp [e]
  · intro m' hm'
    rcases hmem m' hm' with h | ⟨x, hx, e, rfl⟩
    · exact R.noOv m' h.1
    · rw [(hfacts x hx e).2.2.2.2]; exact R.noOv x hx
  · intro k hk; exact R.plainSub k (mem_dropName.mp hk).1
  · intro k hk m' hm' e
    obtain ⟨hk1, hk2⟩ := mem_dropName.mp hk
    rcases hmem m' hm' with h | ⟨x, hx, ex, rfl⟩
    · exact R.plainB k hk1 m' h.1 e
    · rw [(hfacts x hx ex).1, ex] at e; exact absurd e.symm hk2
  · intro k hk b' hb' e
    obtain ⟨hk1, hk2⟩ := mem_dropName.mp hk
    simp only [List.mem_map] at hb'
    obtain ⟨b, hb, rfl⟩ := hb'
    by_cases e' : b.1 = n
    · simp only [e', if_true] at e; exact absurd e.symm hk2
    · simp only [e', if_false] at e ⊢; exact R.plainP k hk1 b hb e
  · intro k hk; exact R.docSub k (mem_dropName.mp hk).1
  · intro k hk m' hm' e
    obtain ⟨hk1, hk2⟩ := mem_dropName.mp hk
    rcases hmem m' hm' with h | ⟨x, hx, ex, rfl⟩
    · exact R.docB k hk1 m' h.1 e
    · rw [(hfacts x hx ex).1, ex] at e; exact absurd e.symm hk2
  · intro k hk b' hb' e
    obtain ⟨hk1, hk2⟩ := mem_dropName.mp hk
    simp only [List.mem_map] at hb'
    obtain ⟨b, hb, rfl⟩ := hb'
    by_cases e' : b.1 = n
    · simp only [e', if_true] at e; exact absurd e.symm hk2
    · simp only [e', if_false] at e ⊢; exact R.docP k hk1 b hb e
  · intro k hk
    simp only [List.mem_append, List.mem_singleton] at hk
    rcases hk with h | h
    · exact R.varsSub k (mem_dropName.mp h).1
    · rw [h]; exact hnames
  · intro k hk m' hm' e
    simp only [List.mem_append, List.mem_singleton] at hk
    rcases hmem m' hm' with h | ⟨x, hx, ex, rfl⟩
    · rcases hk with hk | hk
      · exact R.varsB k (mem_dropName.mp hk).1 m' h.1 e
      · exact absurd (e.trans hk) h.2
    · exact ⟨(hfacts x hx ex).2.1, (hfacts x hx ex).2.2.1⟩
  · intro k hk m' hm' e
    simp only [Option.some.injEq] at hk
    subst hk
    rcases hmem m' hm' with h | ⟨x, hx, ex, rfl⟩
    · exact absurd e h.2
    · exact ⟨(hfacts x hx ex).2.1, (hfacts x hx ex).2.2.1⟩

theorem sim_assign {c : Ctx} {sn sn' : Seen} {s : State} {ns : PySem.Ns} (R : Rel c sn s ns) (inBlock : Bool)
    (n : Name) (v : Lit) (ann : Option Name)
    (h : checkStmt c sn (.assign n v ann) = some sn') :
    ∃ s' ns', execStmt c inBlock s (.assign n v ann) = .ok s' ∧
      PySem.execStmt c ns (.assign n v ann) = .ok ns' ∧ Rel c sn' s' ns' := by
  simp only [checkStmt] at h
  split at h
  · simp at h
  · rename_i hc
    simp only [Bool.or_eq_true, not_or, Bool.not_eq_true] at hc
    obtain ⟨hn, hi⟩ := hc
    simp only [Option.some.injEq] at h
    subst h
    refine ⟨_, _, by simp only [execStmt]; rfl, by simp only [PySem.execStmt]; rfl, ?_⟩
    by_cases hin : n ∈ sn.names
    · -- the name is bound to a variable already: updated in place
      have hvar : n ∈ sn.vars := by
        have h1 : sn.names.contains n = true := by simpa using hin
        cases hv : sn.vars.contains n with
        | false => simp [h1, hv] at hn; exact hn hin
        | true => simpa using hv
      cases hl : lookup s.contents n with
      | none => rw [lookup_none_iff, R.names] at hl; exact absurd hin hl
      | some obj =>
        obtain ⟨hobj, hon⟩ := lookup_some hl
        obtain ⟨hoc, _⟩ := R.varsB n hvar obj hobj hon
        cases hcl : c.inClass with
        | true =>
          have hcv : handleVar c s n ann (some v) inBlock =
              { contents := upd s.contents n (fun o => storeVar o ann (some v) inBlock .classVariable), cur := some n } := by
            simp [handleVar, hcl, handleClassVar, maybeAttribute, hl, hoc]
          rw [hcv]
          exact rel_updvar R n v ann inBlock .classVariable (by simp) hin hvar
        | false =>
          have hcv : handleVar c s n ann (some v) inBlock =
              { contents := upd s.contents n (fun o => storeVar o ann (some v) inBlock .variable), cur := some n } := by
            simp [handleVar, hcl, handleModuleVar, hl, hoc]
          rw [hcv]
          exact rel_updvar R n v ann inBlock .variable (by simp) hin hvar
    · -- a new name
      have hl : lookup s.contents n = none := by rw [lookup_none_iff, R.names]; exact hin
      have hfresh : ∀ (l : List Name), (∀ k ∈ l, k ∈ sn.names) → ∀ k ∈ dropName n l, k ∈ l ∧ k ≠ n := by
        intro l _ k hk; exact mem_dropName.mp hk
      cases hcl : c.inClass with
      | true =>
        have hguard : (!maybeAttribute c s n && !((lookup s.contents n).isNone && isLiteralValue (some v))) = false := by
          simp only [maybeAttribute, hl, Option.isNone_none, Bool.true_and]
          cases hinh : c.inheritedNonAttr.contains n <;> cases hlit : isLiteralValue (some v) <;> simp_all
        obtain ⟨f1, f2, f3, f4, f5⟩ := storeVar_facts { name := n, cls := .attribute, kind := .classVariable } ann v inBlock
          .classVariable rfl (by simp) (by simp)
        have hcv : handleVar c s n ann (some v) inBlock =
            { contents := put s.contents (storeVar { name := n, cls := .attribute, kind := .classVariable } ann (some v) inBlock .classVariable),
              cur := some n } := by
          simp only [handleVar, hcl, if_true]
          unfold handleClassVar
          rw [hguard]
          simp [hl]
        rw [hcv]
        have := rel_put R (storeVar { name := n, cls := .attribute, kind := .classVariable } ann (some v) inBlock .classVariable)
          (.value v) (view_var c _ v f2 f3 f4)
          (plain' := dropName n sn.plain) (doc' := dropName n sn.docable) (vars' := dropName n sn.vars ++ [n]) (cur' := some n)
          { ov := by rw [f5], plain := by rw [f1]; intro k hk; exact Or.inl (mem_dropName.mp hk),
            doc := by rw [f1]; intro k hk; exact Or.inl (mem_dropName.mp hk),
            vars := by
              rw [f1]; intro k hk
              simp only [List.mem_append, List.mem_singleton] at hk
              rcases hk with hk | hk
              · exact Or.inl (mem_dropName.mp hk)
              · exact Or.inr ⟨hk, f2, f3⟩,
            cur := by intro k hk; simp at hk; subst hk; exact ⟨f1.symm, f2, f3⟩ }
        rw [f1] at this
        exact this
      | false =>
        obtain ⟨f1, f2, f3, f4, f5⟩ := storeVar_facts { name := n, cls := .attribute, kind := .variable } ann v inBlock
          .variable rfl (by simp) (by simp)
        have hcv : handleVar c s n ann (some v) inBlock =
            { contents := put s.contents (storeVar { name := n, cls := .attribute, kind := .variable } ann (some v) inBlock .variable),
              cur := some n } := by
          simp [handleVar, hcl, handleModuleVar, hl]
        rw [hcv]
        have := rel_put R (storeVar { name := n, cls := .attribute, kind := .variable } ann (some v) inBlock .variable)
          (.value v) (view_var c _ v f2 f3 f4)
          (plain' := dropName n sn.plain) (doc' := dropName n sn.docable) (vars' := dropName n sn.vars ++ [n]) (cur' := some n)
          { ov := by rw [f5], plain := by rw [f1]; intro k hk; exact Or.inl (mem_dropName.mp hk),
            doc := by rw [f1]; intro k hk; exact Or.inl (mem_dropName.mp hk),
            vars := by
              rw [f1]; intro k hk
              simp only [List.mem_append, List.mem_singleton] at hk
              rcases hk with hk | hk
              · exact Or.inl (mem_dropName.mp hk)
              · exact Or.inr ⟨hk, f2, f3⟩,
            cur := by intro k hk; simp at hk; subst hk; exact ⟨f1.symm, f2, f3⟩ }
        rw [f1] at this
        exact this

theorem decoFlags_ok (inClass : Bool) (n : Name) (ds : List Deco) (h : ds.all (decoOk inClass) = true) :
    decoFlags inClass n ds =
      { funcName := n, isProperty := (descs ds).contains .property, isClassmethod := (descs ds).contains .classmethod,
        isStaticmethod := (descs ds).contains .staticmethod, isOverload := false } := by
  simp [decoFlags, foldl_decoStep_ok inClass ds _ h]

theorem sim_funcDef {c : Ctx} {sn sn' : Seen} {s : State} {ns : PySem.Ns} (R : Rel c sn s ns) (inBlock : Bool)
    (n : Name) (async : Bool) (decos : List Deco) (doc : Option (List Char))
    (h : checkStmt c sn (.funcDef n async decos doc) = some sn') :
    ∃ s' ns', execStmt c inBlock s (.funcDef n async decos doc) = .ok s' ∧
      PySem.execStmt c ns (.funcDef n async decos doc) = .ok ns' ∧ Rel c sn' s' ns' := by
  simp only [checkStmt] at h
  split at h
  · simp at h
  · rename_i hd
    simp only [Bool.not_eq_true', Bool.not_eq_false] at hd
    simp only [Option.some.injEq] at h
    subst h
    simp only [decosOk, Bool.and_eq_true, decide_eq_true_eq] at hd
    obtain ⟨hall, hlen⟩ := hd
    have hpy : PySem.execStmt c ns (.funcDef n async decos doc) =
        .ok (PySem.bind ns n (wrapAll (descs decos) (.func async doc))) := by
      simp only [PySem.execStmt, applyDecos_ok c.inClass ns _ decos hall]
    refine ⟨_, _, by simp only [execStmt]; rfl, hpy, ?_⟩
    -- an existing entry of that name is never re-entered: no function of the subset has overloads
    have hnoov : ∀ e, lookup s.contents n = some e → (decide (e.cls = .function) && decide (e.overloads > 0)) = false := by
      intro e he
      have := R.noOv e (lookup_some he).1
      simp [this]
    match hds : descs decos, hlen with
    | [], _ =>
      have hB : handleFunctionDef c s n async decos doc =
          { contents := put s.contents { name := n, cls := .function, kind := if c.inClass then .method else .function, doc := doc.map cleandoc,
                                         isAsync := async, hasSig := true }, cur := none } := by
        simp only [handleFunctionDef, decoFlags_ok c.inClass n decos hall, hds]
        cases hl : lookup s.contents n with
        | none => cases doc <;> simp
        | some e => have := hnoov e hl; cases doc <;> simp [this]
      rw [hB]
      cases hci : c.inClass with
      | true =>
        refine rel_put R { name := n, cls := .function, kind := .method, doc := doc.map cleandoc, isAsync := async, hasSig := true }
          (.func async doc) ?_ { ov := rfl, plain := ?_, doc := ?_, vars := ?_, cur := by simp }
        · simp [viewB, viewP, postProcess, kindClass, PySem.kindClass, PySem.coroutine, PySem.underlying, PySem.rawDoc, hci]
        · intro k hk
          simp at hk
          rcases hk with hk | hk
          · exact Or.inl (mem_dropName.mp hk)
          · exact Or.inr ⟨hk, ⟨rfl, Or.inl rfl⟩, trivial⟩
        · intro k hk
          simp at hk
          rcases hk with hk | hk
          · exact Or.inl (mem_dropName.mp hk)
          · exact Or.inr ⟨hk, Or.inl ⟨rfl, Or.inl rfl⟩, Or.inl ⟨_, _, rfl⟩⟩
        · intro k hk; exact Or.inl (mem_dropName.mp hk)
      | false =>
        refine rel_put R { name := n, cls := .function, kind := .function, doc := doc.map cleandoc, isAsync := async, hasSig := true }
          (.func async doc) ?_ { ov := rfl, plain := ?_, doc := ?_, vars := ?_, cur := by simp }
        · simp [viewB, viewP, postProcess, kindClass, PySem.kindClass, PySem.coroutine, PySem.underlying, PySem.rawDoc, hci]
        · intro k hk
          simp at hk
          exact Or.inl (mem_dropName.mp hk)
        · intro k hk
          simp at hk
          rcases hk with hk | hk
          · exact Or.inl (mem_dropName.mp hk)
          · exact Or.inr ⟨hk, Or.inl ⟨rfl, Or.inr rfl⟩, Or.inl ⟨_, _, rfl⟩⟩
        · intro k hk; exact Or.inl (mem_dropName.mp hk)
    | [k], _ =>
      cases k with
      | property =>
        have hB : handleFunctionDef c s n async decos doc =
            { contents := put s.contents { name := n, cls := .attribute, kind := .property, doc := doc.map cleandoc },
              cur := none } := by
          simp [handleFunctionDef, decoFlags_ok c.inClass n decos hall, hds]
        rw [hB]
        refine rel_put R { name := n, cls := .attribute, kind := .property, doc := doc.map cleandoc }
          (.prop (.func async doc)) ?_ { ov := rfl, plain := ?_, doc := ?_, vars := ?_, cur := by simp }
        · simp [viewB, viewP, postProcess, kindClass, PySem.kindClass, PySem.coroutine, PySem.underlying, PySem.rawDoc, wrapAll, wrapD]
        · intro k hk; simp at hk; exact Or.inl (mem_dropName.mp hk)
        · intro k hk; simp at hk; exact Or.inl (mem_dropName.mp hk)
        · intro k hk; exact Or.inl (mem_dropName.mp hk)
      | classmethod =>
        have hB : handleFunctionDef c s n async decos doc =
            { contents := put s.contents { name := n, cls := .function, kind := .classMethod, doc := doc.map cleandoc,
                                           isAsync := async, hasSig := true }, cur := none } := by
          simp only [handleFunctionDef, decoFlags_ok c.inClass n decos hall, hds]
          cases hl : lookup s.contents n with
          | none => cases doc <;> simp
          | some e => have := hnoov e hl; cases doc <;> simp [this]
        rw [hB]
        refine rel_put R { name := n, cls := .function, kind := .classMethod, doc := doc.map cleandoc, isAsync := async, hasSig := true }
          (.cm (.func async doc)) ?_ { ov := rfl, plain := ?_, doc := ?_, vars := ?_, cur := by simp }
        · simp [viewB, viewP, postProcess, kindClass, PySem.kindClass, PySem.coroutine, PySem.underlying, PySem.rawDoc, wrapAll, wrapD]
        · intro k hk
          cases hci : c.inClass <;> simp [hci] at hk
          · exact Or.inl (mem_dropName.mp hk)
          · rcases hk with hk | hk
            · exact Or.inl (mem_dropName.mp hk)
            · exact Or.inr ⟨hk, ⟨rfl, Or.inr (Or.inr rfl)⟩, trivial⟩
        · intro k hk; simp at hk; exact Or.inl (mem_dropName.mp hk)
        · intro k hk; exact Or.inl (mem_dropName.mp hk)
      | staticmethod =>
        have hB : handleFunctionDef c s n async decos doc =
            { contents := put s.contents { name := n, cls := .function, kind := .staticMethod, doc := doc.map cleandoc,
                                           isAsync := async, hasSig := true }, cur := none } := by
          simp only [handleFunctionDef, decoFlags_ok c.inClass n decos hall, hds]
          cases hl : lookup s.contents n with
          | none => cases doc <;> simp
          | some e => have := hnoov e hl; cases doc <;> simp [this]
        rw [hB]
        refine rel_put R { name := n, cls := .function, kind := .staticMethod, doc := doc.map cleandoc, isAsync := async, hasSig := true }
          (.sm (.func async doc)) ?_ { ov := rfl, plain := ?_, doc := ?_, vars := ?_, cur := by simp }
        · simp [viewB, viewP, postProcess, kindClass, PySem.kindClass, PySem.coroutine, PySem.underlying, PySem.rawDoc, wrapAll, wrapD]
        · intro k hk
          cases hci : c.inClass <;> simp [hci] at hk
          · exact Or.inl (mem_dropName.mp hk)
          · rcases hk with hk | hk
            · exact Or.inl (mem_dropName.mp hk)
            · exact Or.inr ⟨hk, ⟨rfl, Or.inr (Or.inl rfl)⟩, trivial⟩
        · intro k hk; simp at hk; exact Or.inl (mem_dropName.mp hk)
        · intro k hk; exact Or.inl (mem_dropName.mp hk)

theorem kindClass_var {m : Member} (h1 : m.cls = .attribute) (h2 : m.kind ≠ .property) : kindClass m = .variable := by
  unfold kindClass; rw [h1]; cases hk' : m.kind <;> simp_all

theorem viewB_doc_irrelevant (c : Ctx) (m : Member) (d : Option (List Char)) (h1 : m.cls = .attribute)
    (h2 : m.kind ≠ .property) : viewB c { m with doc := d } = viewB c m := by
  have hp : ∀ x : Member, x.cls = .attribute → postProcess c x = x := by intro x hx; simp [postProcess, hx]
  have h1' : ({ m with doc := d } : Member).cls = .attribute := h1
  have h2' : ({ m with doc := d } : Member).kind ≠ .property := h2
  unfold viewB
  rw [hp _ h1, hp _ h1', kindClass_var h1 h2, kindClass_var h1' h2']
  simp

theorem sim_attrDoc {c : Ctx} {sn sn' : Seen} {s : State} {ns : PySem.Ns} (R : Rel c sn s ns) (inBlock : Bool)
    (t : List Char) (h : checkStmt c sn (.attrDoc t) = some sn') :
    ∃ s' ns', execStmt c inBlock s (.attrDoc t) = .ok s' ∧
      PySem.execStmt c ns (.attrDoc t) = .ok ns' ∧ Rel c sn' s' ns' := by
  simp only [checkStmt, Option.some.injEq] at h
  subst h
  · refine ⟨_, _, by simp only [execStmt]; rfl, by simp only [PySem.execStmt]; rfl, ?_⟩
    unfold handleAttrDoc
    cases hcur : s.cur with
    | none => exact R
    | some n =>
      simp only
      have hmem := R.cur n hcur
      have hg : ∀ m ∈ s.contents, viewB c (if m.name = n then { m with doc := some (cleandoc t) } else m) = viewB c m := by
        intro m hm
        by_cases e : m.name = n
        · obtain ⟨h1, h2⟩ := hmem m hm e
          rw [if_pos e]
          exact viewB_doc_irrelevant c m _ h1 h2
        · simp [e]
      refine { views := ?_, names := ?_, nodup := R.nodup, plainSub := R.plainSub, plainB := ?_, plainP := R.plainP,
               docSub := R.docSub, docB := ?_, docP := R.docP, cur := by simp,
               noOv := (by
          intro m' hm'
          simp only [upd, List.mem_map] at hm'
          obtain ⟨x, hx, rfl⟩ := hm'
          by_cases e' : x.name = n
          · simp only [e', if_true]; exact R.noOv x hx
          · simp only [e', if_false]; exact R.noOv x hx),
               varsSub := R.varsSub, varsB := (by
          intro k hk m' hm' e
          simp only [upd, List.mem_map] at hm'
          obtain ⟨x, hx, rfl⟩ := hm'
          by_cases e' : x.name = n
          · simp only [e', if_true] at e ⊢
            exact R.varsB k hk x hx (e' ▸ e)
          · simp only [e', if_false] at e ⊢
            exact R.varsB k hk x hx e) }
      · rw [← R.views]
        simp only [upd, List.map_map]
        exact List.map_congr_left (fun m hm => hg m hm)
      · rw [← R.names]
        simp only [upd, List.map_map]
        apply List.map_congr_left
        intro m _
        by_cases e : m.name = n <;> simp [e]
      · intro k hk m' hm' e
        simp only [upd, List.mem_map] at hm'
        obtain ⟨m, hm, rfl⟩ := hm'
        by_cases e' : m.name = n
        · simp only [e', if_true] at e ⊢
          exact R.plainB k hk m hm (e' ▸ e)
        · simp only [e', if_false] at e ⊢
          exact R.plainB k hk m hm e
      · intro k hk m' hm' e
        simp only [upd, List.mem_map] at hm'
        obtain ⟨m, hm, rfl⟩ := hm'
        by_cases e' : m.name = n
        · simp only [e', if_true] at e ⊢
          exact R.docB k hk m hm (e' ▸ e)
        · simp only [e', if_false] at e ⊢
          exact R.docB k hk m hm e

def wrapK : Wrap → Kind
  | .staticmethod => .staticMethod
  | .classmethod => .classMethod

def wrapO : Wrap → PySem.PyObj → PySem.PyObj
  | .staticmethod, o => .sm o
  | .classmethod, o => .cm o

theorem sim_oldStyle {c : Ctx} {sn sn' : Seen} {s : State} {ns : PySem.Ns} (R : Rel c sn s ns) (inBlock : Bool)
    (n : Name) (w : Wrap) (h : checkStmt c sn (.oldStyle n w) = some sn') :
    ∃ s' ns', execStmt c inBlock s (.oldStyle n w) = .ok s' ∧
      PySem.execStmt c ns (.oldStyle n w) = .ok ns' ∧ Rel c sn' s' ns' := by
  simp only [checkStmt] at h
  split at h
  · rename_i hc
    simp only [Bool.and_eq_true] at hc
    obtain ⟨hci, hpl⟩ := hc
    have hpl' : n ∈ sn.plain := by simpa using hpl
    simp only [Option.some.injEq] at h
    subst h
    have hnn : n ∈ sn.names := R.plainSub n hpl'
    -- pydoctor side: the name is a plain method
    cases hl : lookup s.contents n with
    | none => rw [lookup_none_iff, R.names] at hl; exact absurd hnn hl
    | some obj =>
      obtain ⟨hobj, hon⟩ := lookup_some hl
      obtain ⟨hoc, hok⟩ := R.plainB n hpl' obj hobj hon
      have hcond : (decide (obj.kind = .method) || decide (obj.kind = .staticMethod) || decide (obj.kind = .classMethod)) = true := by
        rcases hok with h | h | h <;> simp [h]
      -- CPython side: the name is bound to a function
      cases hlp : PySem.lookup ns n with
      | none => rw [plookup_none_iff, R.pnames] at hlp; exact absurd hnn hlp
      | some o =>
        have hmem := plookup_some hlp
        have hpf : PFun o := R.plainP n hpl' (n, o) hmem rfl
        have hB : execStmt c inBlock s (.oldStyle n w) =
            .ok { s with contents := upd s.contents n (fun o => { o with kind := wrapK w }) } := by
          simp only [execStmt, handleOldStyle, hci, hl, hoc, hcond, if_true]
          cases w <;> simp [wrapK]
        have hP : PySem.execStmt c ns (.oldStyle n w) =
            .ok (ns.map (fun p => if p.1 = n then (n, wrapO w o) else p)) := by
          simp only [PySem.execStmt, hlp, PySem.bind]
          cases w <;> simp [wrapO]
        refine ⟨_, _, hB, hP, ?_⟩
        have huniq : ∀ b ∈ ns, b.1 = n → b = (n, o) := by
          intro b hb e
          exact pairs_unique ns (by rw [R.pnames]; exact R.nodup) b hb (n, o) hmem e
        refine { views := ?_, names := ?_, nodup := R.nodup, plainSub := ?_, plainB := ?_, plainP := ?_,
                 docSub := ?_, docB := ?_, docP := ?_, cur := ?_,
                 noOv := (by
          intro m' hm'
          simp only [upd, List.mem_map] at hm'
          obtain ⟨x, hx, rfl⟩ := hm'
          by_cases e' : x.name = n
          · simp only [e', if_true]; exact R.noOv x hx
          · simp only [e', if_false]; exact R.noOv x hx),
                 varsSub := R.varsSub, varsB := (by
          intro k hk m' hm' e
          simp only [upd, List.mem_map] at hm'
          obtain ⟨x, hx, rfl⟩ := hm'
          by_cases e' : x.name = n
          · simp only [e', if_true] at e
            have h1 := (R.varsB k hk x hx (e' ▸ e)).1
            have h2 := (R.plainB n hpl' x hx e').1
            rw [h1] at h2; exact absurd h2 (by simp)
          · simp only [e', if_false] at e ⊢
            exact R.varsB k hk x hx e) }
        · simp only [upd]
          apply map_map_eq (viewB c) (viewP c) _ _ _ _ R.views
          intro m hm b hb hv
          have hname : m.name = b.1 := by simpa [viewB, viewP] using congrArg View.name hv
          by_cases e : m.name = n
          · have eb : b.1 = n := hname ▸ e
            obtain ⟨hmc, hmk⟩ := R.plainB n hpl' m hm e
            have hbb := huniq b hb eb
            subst hbb
            rw [if_pos e, if_pos eb]
            have hp : ∀ x : Member, x.cls = .function → postProcess c x = x := by intro x hx; simp [postProcess, hx]
            have hco := congrArg View.co hv
            have hdoc := congrArg View.doc hv
            rw [viewB, hp _ hmc] at hco hdoc
            have hnv : kindClass m ≠ .variable := by
              unfold kindClass; rw [hmc]; rcases hmk with h | h | h <;> rw [h] <;> simp
            simp only [viewP, hmc, if_neg hnv] at hco hdoc
            cases o <;> simp only [PFun] at hpf <;> cases w <;>
              simp [viewB, viewP, wrapK, wrapO, postProcess, hmc, kindClass, PySem.kindClass, PySem.coroutine,
                PySem.underlying, PySem.rawDoc, e] <;> simp_all [PySem.coroutine, PySem.underlying, PySem.rawDoc]
          · have eb : ¬ b.1 = n := hname ▸ e
            rw [if_neg e, if_neg eb]; exact hv
        · rw [← R.names]
          simp only [upd, List.map_map]
          apply List.map_congr_left
          intro m _
          by_cases e : m.name = n <;> simp [e]
        · exact R.plainSub
        · intro k hk m' hm' e
          simp only [upd, List.mem_map] at hm'
          obtain ⟨m, hm, rfl⟩ := hm'
          by_cases e' : m.name = n
          · simp only [e', if_true]
            exact ⟨(R.plainB n hpl' m hm e').1, by cases w <;> simp [wrapK]⟩
          · simp only [e', if_false] at e ⊢
            exact R.plainB k hk m hm e
        · intro k hk b' hb' e
          simp only [List.mem_map] at hb'
          obtain ⟨b, hb, rfl⟩ := hb'
          by_cases e' : b.1 = n
          · simp only [e', if_true]
            cases w <;> simp [wrapO, PFun]
          · simp only [e', if_false] at e ⊢
            exact R.plainP k hk b hb e
        · intro k hk
          simp only [List.mem_filter] at hk
          exact R.docSub k hk.1
        · intro k hk m' hm' e
          simp only [List.mem_filter, bne_iff_ne, ne_eq] at hk
          simp only [upd, List.mem_map] at hm'
          obtain ⟨m, hm, rfl⟩ := hm'
          by_cases e' : m.name = n
          · simp only [e', if_true] at e
            exact absurd e.symm hk.2
          · simp only [e', if_false] at e ⊢
            exact R.docB k hk.1 m hm e
        · intro k hk b' hb' e
          simp only [List.mem_filter, bne_iff_ne, ne_eq] at hk
          simp only [List.mem_map] at hb'
          obtain ⟨b, hb, rfl⟩ := hb'
          by_cases e' : b.1 = n
          · simp only [e', if_true] at e
            exact absurd e.symm hk.2
          · simp only [e', if_false] at e ⊢
            exact R.docP k hk.1 b hb e
        · intro k hk m' hm' e
          simp only [upd, List.mem_map] at hm'
          obtain ⟨m, hm, rfl⟩ := hm'
          by_cases e' : m.name = n
          · simp only [e', if_true] at e
            have h1 := (R.cur k hk m hm (e' ▸ e)).1
            have h2 := (R.plainB n hpl' m hm e').1
            rw [h1] at h2; exact absurd h2 (by simp)
          · simp only [e', if_false] at e ⊢
            exact R.cur k hk m hm e
  · simp at h

theorem viewB_setdoc (c : Ctx) (m : Member) (d : Option (List Char)) (hnv : kindClass (postProcess c m) ≠ .variable) :
    viewB c { m with doc := d } = { viewB c m with doc := d } := by
  have hpp : postProcess c { m with doc := d } = { postProcess c m with doc := d } := by
    unfold postProcess; split <;> rfl
  have hkk : kindClass { postProcess c m with doc := d } = kindClass (postProcess c m) := rfl
  unfold viewB
  rw [hpp, hkk, if_neg hnv, if_neg hnv]

/-- the object `name.__doc__ = text` writes to on the CPython side -/
def setDocO (t : List Char) : PySem.PyObj → PySem.PyObj
  | .func a _ => .func a (some t)
  | .cls e _ => .cls e (some t)
  | o => o

theorem sim_docAssign {c : Ctx} {sn sn' : Seen} {s : State} {ns : PySem.Ns} (R : Rel c sn s ns) (inBlock : Bool)
    (n : Name) (t : List Char) (h : checkStmt c sn (.docAssign n t) = some sn') :
    ∃ s' ns', execStmt c inBlock s (.docAssign n t) = .ok s' ∧
      PySem.execStmt c ns (.docAssign n t) = .ok ns' ∧ Rel c sn' s' ns' := by
  simp only [checkStmt] at h
  split at h
  · rename_i hc
    have hd' : n ∈ sn.docable := by simpa using hc
    simp only [Option.some.injEq] at h
    subst h
    have hnn : n ∈ sn.names := R.docSub n hd'
    cases hl : lookup s.contents n with
    | none => rw [lookup_none_iff, R.names] at hl; exact absurd hnn hl
    | some obj =>
      cases hlp : PySem.lookup ns n with
      | none => rw [plookup_none_iff, R.pnames] at hlp; exact absurd hnn hlp
      | some o =>
        have hmem := plookup_some hlp
        have hdo : DocP o := R.docP n hd' (n, o) hmem rfl
        have hB : execStmt c inBlock s (.docAssign n t) =
            .ok { s with contents := upd s.contents n (fun o => { o with doc := some (cleandoc t) }) } := by
          simp only [execStmt, handleDocAssign, hl]
        have hP : PySem.execStmt c ns (.docAssign n t) =
            .ok (ns.map (fun p => if p.1 = n then (n, setDocO t o) else p)) := by
          rcases hdo with ⟨a, d, rfl⟩ | ⟨e, d, rfl⟩ <;> simp [PySem.execStmt, hlp, PySem.bind, setDocO]
        refine ⟨_, _, hB, hP, ?_⟩
        have huniq : ∀ b ∈ ns, b.1 = n → b = (n, o) := by
          intro b hb e
          exact pairs_unique ns (by rw [R.pnames]; exact R.nodup) b hb (n, o) hmem e
        refine { views := ?_, names := ?_, nodup := R.nodup, plainSub := R.plainSub, plainB := ?_, plainP := ?_,
                 docSub := R.docSub, docB := ?_, docP := ?_, cur := ?_,
                 noOv := (by
          intro m' hm'
          simp only [upd, List.mem_map] at hm'
          obtain ⟨x, hx, rfl⟩ := hm'
          by_cases e' : x.name = n
          · simp only [e', if_true]; exact R.noOv x hx
          · simp only [e', if_false]; exact R.noOv x hx),
                 varsSub := R.varsSub, varsB := (by
          intro k hk m' hm' e
          simp only [upd, List.mem_map] at hm'
          obtain ⟨x, hx, rfl⟩ := hm'
          by_cases e' : x.name = n
          · simp only [e', if_true] at e ⊢
            exact R.varsB k hk x hx (e' ▸ e)
          · simp only [e', if_false] at e ⊢
            exact R.varsB k hk x hx e) }
        · simp only [upd]
          apply map_map_eq (viewB c) (viewP c) _ _ _ _ R.views
          intro m hm b hb hv
          have hname : m.name = b.1 := by simpa [viewB, viewP] using congrArg View.name hv
          by_cases e : m.name = n
          · have eb : b.1 = n := hname ▸ e
            have hmB := R.docB n hd' m hm e
            have hbb := huniq b hb eb
            subst hbb
            rw [if_pos e, if_pos eb]
            have hnv : kindClass (postProcess c m) ≠ .variable := by
              rcases hmB with ⟨h1, h2⟩ | h1
              · have : postProcess c m = m := by simp [postProcess, h1]
                rw [this]; unfold kindClass; rw [h1]; rcases h2 with h2 | h2 <;> rw [h2] <;> simp
              · unfold postProcess
                split
                · unfold kindClass; simp [h1]
                · unfold kindClass; rw [h1]; cases m.kind <;> simp
            rw [viewB_setdoc c m (some (cleandoc t)) hnv, hv]
            rcases hdo with ⟨a, d, rfl⟩ | ⟨x, d, rfl⟩
            · simp only [viewP, setDocO, PySem.rawDoc, PySem.underlying, Option.map_some, PySem.kindClass, PySem.coroutine]
            · simp only [viewP, setDocO, PySem.rawDoc, PySem.underlying, Option.map_some, PySem.kindClass, PySem.coroutine]
          · have eb : ¬ b.1 = n := hname ▸ e
            rw [if_neg e, if_neg eb]; exact hv
        · rw [← R.names]
          simp only [upd, List.map_map]
          apply List.map_congr_left
          intro m _
          by_cases e : m.name = n <;> simp [e]
        · intro k hk m' hm' e
          simp only [upd, List.mem_map] at hm'
          obtain ⟨m, hm, rfl⟩ := hm'
          by_cases e' : m.name = n
          · simp only [e', if_true] at e ⊢
            exact R.plainB k hk m hm (e' ▸ e)
          · simp only [e', if_false] at e ⊢
            exact R.plainB k hk m hm e
        · intro k hk b' hb' e
          simp only [List.mem_map] at hb'
          obtain ⟨b, hb, rfl⟩ := hb'
          by_cases e' : b.1 = n
          · simp only [e', if_true] at e ⊢
            have := R.plainP k hk b hb (e' ▸ e)
            rw [huniq b hb e'] at this
            rcases hdo with ⟨a, d, rfl⟩ | ⟨x, d, rfl⟩
            · simp [setDocO, PFun]
            · simp [PFun] at this
          · simp only [e', if_false] at e ⊢
            exact R.plainP k hk b hb e
        · intro k hk m' hm' e
          simp only [upd, List.mem_map] at hm'
          obtain ⟨m, hm, rfl⟩ := hm'
          by_cases e' : m.name = n
          · simp only [e', if_true] at e ⊢
            exact R.docB k hk m hm (e' ▸ e)
          · simp only [e', if_false] at e ⊢
            exact R.docB k hk m hm e
        · intro k hk b' hb' e
          simp only [List.mem_map] at hb'
          obtain ⟨b, hb, rfl⟩ := hb'
          by_cases e' : b.1 = n
          · simp only [e', if_true] at e ⊢
            rcases hdo with ⟨a, d, rfl⟩ | ⟨x, d, rfl⟩
            · exact Or.inl ⟨a, some t, rfl⟩
            · exact Or.inr ⟨x, some t, rfl⟩
          · simp only [e', if_false] at e ⊢
            exact R.docP k hk b hb e
        · intro k hk m' hm' e
          simp only [upd, List.mem_map] at hm'
          obtain ⟨m, hm, rfl⟩ := hm'
          by_cases e' : m.name = n
          · simp only [e', if_true] at e ⊢
            exact R.cur k hk m hm (e' ▸ e)
          · simp only [e', if_false] at e ⊢
            exact R.cur k hk m hm e
  · simp at h

/-! ## blocks: the mutual induction -/

theorem inert_exec (c : Ctx) : ∀ (tail : List Stmt) (ns : PySem.Ns), tail.all inert = true →
    PySem.execList c ns tail = .ok ns
  | [], ns, _ => by simp [PySem.execList]
  | st :: rest, ns, h => by
    simp only [List.all_cons, Bool.and_eq_true] at h
    have ih := inert_exec c rest ns h.2
    cases st <;> simp [inert] at h <;> simp [PySem.execList, PySem.execStmt, ih]

mutual
theorem sim_stmt (c : Ctx) : (st : Stmt) → ∀ (inBlock : Bool) (sn sn' : Seen) (s : State) (ns : PySem.Ns),
    Rel c sn s ns → checkStmt c sn st = some sn' →
    ∃ s' ns', execStmt c inBlock s st = .ok s' ∧ PySem.execStmt c ns st = .ok ns' ∧ Rel c sn' s' ns'
  | .classDef n bases decos doc body, ib, _, _, _, _, R, h => sim_classDef R ib n bases decos doc body h
  | .funcDef n async decos doc, ib, _, _, _, _, R, h => sim_funcDef R ib n async decos doc h
  | .assign n v ann, ib, _, _, _, _, R, h => sim_assign R ib n v ann h
  | .annOnly n ann, _, _, _, _, _, _, h => by simp [checkStmt] at h
  | .attrDoc t, ib, _, _, _, _, R, h => sim_attrDoc R ib t h
  | .oldStyle n w, ib, _, _, _, _, R, h => sim_oldStyle R ib n w h
  | .docAssign n t, ib, _, _, _, _, R, h => sim_docAssign R ib n t h
  | .delName n, _, _, _, _, _, _, h => by simp [checkStmt] at h
  | .other, _, sn, sn', s, ns, R, h => by
    simp only [checkStmt, Option.some.injEq] at h
    subst h
    exact ⟨s, ns, by simp [execStmt], by simp [PySem.execStmt], R⟩
  | .ifMain body, _, sn, sn', s, ns, R, h => by
    simp only [checkStmt, Option.some.injEq] at h
    subst h
    exact ⟨s, ns, by simp [execStmt], by simp [PySem.execStmt], R⟩
  | .ifCmp g body, _, sn, sn', s, ns, R, h => by
    simp only [checkStmt] at h
    split at h
    · simp at h
    · rename_i hne
      cases hr : isNameEqualsMain g with
      | true =>
        have hi : g.onImport = false := by
          cases hi : g.onImport <;> simp_all
        simp only [hr, if_true, Option.some.injEq] at h
        subst h
        exact ⟨s, ns, by simp [execStmt, hr], by simp [PySem.execStmt, hi], R⟩
      | false =>
        have hi : g.onImport = true := by
          cases hi : g.onImport <;> simp_all
        simp only [hr, Bool.false_eq_true, if_false] at h
        obtain ⟨s', ns', hb, hp, R'⟩ := sim_list c body true sn sn' s ns R h
        exact ⟨s', ns', by simp only [execStmt, hr, Bool.false_eq_true, if_false]; exact hb,
          by simp only [PySem.execStmt, hi, if_true]; exact hp, R'⟩
  | .block k body tail, _, sn, sn', s, ns, R, h => by
    cases k with
    | elseTaken => simp [checkStmt] at h
    | ifTaken =>
      simp only [checkStmt] at h
      obtain ⟨s', ns', hb, hp, R'⟩ := sim_list c body true sn sn' s ns R h
      exact ⟨s', ns', by simp only [execStmt]; exact hb, by simp [PySem.execStmt, hp], R'⟩
    | «with» =>
      simp only [checkStmt] at h
      obtain ⟨s', ns', hb, hp, R'⟩ := sim_list c body true sn sn' s ns R h
      exact ⟨s', ns', by simp only [execStmt]; exact hb, by simp [PySem.execStmt, hp], R'⟩
    | «try» =>
      simp only [checkStmt] at h
      cases hc1 : checkList c sn body with
      | none => simp [hc1] at h
      | some sn1 =>
        simp only [hc1] at h
        obtain ⟨s1, ns1, hb, hp, R1⟩ := sim_list c body true sn sn1 s ns R hc1
        obtain ⟨s2, ns2, hb2, hp2, R2⟩ := sim_list c tail true sn1 sn' s1 ns1 R1 h
        exact ⟨s2, ns2, by simp only [execStmt, hb]; exact hb2, by simp only [PySem.execStmt, hp]; exact hp2, R2⟩
    | «for» =>
      simp only [checkStmt] at h
      cases hc1 : checkList c sn body with
      | none => simp [hc1] at h
      | some sn1 =>
        simp only [hc1] at h
        obtain ⟨s1, ns1, hb, hp, R1⟩ := sim_list c body true sn sn1 s ns R hc1
        obtain ⟨s2, ns2, hb2, hp2, R2⟩ := sim_list c tail true sn1 sn' s1 ns1 R1 h
        exact ⟨s2, ns2, by simp only [execStmt, hb]; exact hb2, by simp only [PySem.execStmt, hp]; exact hp2, R2⟩
  | .aliasAssign n src, _, _, _, _, _, _, h => by simp [checkStmt] at h
  | .wrapAssign n d src, _, _, _, _, _, _, h => by simp [checkStmt] at h
theorem sim_list (c : Ctx) : (l : List Stmt) → ∀ (inBlock : Bool) (sn sn' : Seen) (s : State) (ns : PySem.Ns),
    Rel c sn s ns → checkList c sn l = some sn' →
    ∃ s' ns', execList c inBlock s l = .ok s' ∧ PySem.execList c ns l = .ok ns' ∧ Rel c sn' s' ns'
  | [], _, sn, sn', s, ns, R, h => by
    simp only [checkList, Option.some.injEq] at h
    subst h
    exact ⟨s, ns, by simp [execList], by simp [PySem.execList], R⟩
  | st :: rest, ib, sn, sn', s, ns, R, h => by
    simp only [checkList] at h
    cases hc : checkStmt c sn st with
    | none => simp [hc] at h
    | some sn1 =>
      simp only [hc] at h
      obtain ⟨s1, ns1, hb, hp, R1⟩ := sim_stmt c st ib sn sn1 s ns R hc
      obtain ⟨s2, ns2, hb2, hp2, R2⟩ := sim_list c rest ib sn1 sn' s1 ns1 R1 h
      exact ⟨s2, ns2, by simp only [execList, hb]; exact hb2, by simp only [PySem.execList, hp]; exact hp2, R2⟩
end

/-! ## the finished scope -/

/-- the compared view of a finished member (after `_infer_attr_annotations` and post-processing) -/
def viewM (m : Member) : View :=
  { name := m.name, kc := kindClass m, co := (m.cls == .function && m.isAsync),
    doc := if kindClass m = .variable then none else m.doc,
    lit := if kindClass m = .variable then m.value else none }

theorem viewM_finish (c : Ctx) (m : Member) : viewM (postProcess c (inferAnn m)) = viewB c m := by
  have h1 : ∀ a : Option (List Char), postProcess c { m with ann := a } = { postProcess c m with ann := a } := by
    intro a; unfold postProcess; split <;> rfl
  have h2 : ∀ (x : Member) (a : Option (List Char)), viewM { x with ann := a } = viewM x := by
    intro x a; rfl
  have h3 : viewM (postProcess c m) = viewB c m := by
    unfold viewM viewB postProcess
    split <;> simp
  unfold inferAnn
  split
  · split
    · rw [h1, h2]; exact h3
    · exact h3
  · exact h3

/-- pydoctor's side of the comparison: (name, kind class) in `contents` order -/
def documented (c : Ctx) (stmts : List Stmt) : List (Name × KindClass) :=
  match scope c stmts with
  | .ok ms => ms.map fun m => (m.name, kindClass m)
  | .assertionError => []

/-- CPython's side: (name, kind class of the raw entry) in `__dict__` order -/
def bound (c : Ctx) (stmts : List Stmt) : List (Name × KindClass) :=
  match PySem.scope c stmts with
  | .ok ns => ns.map fun p => (p.1, PySem.kindClass c.inClass p.2)
  | .raises => []

/-- **The simulation**: on every statement list of the subset both executions succeed and leave the
same names, in the same order, with the same kind class, coroutine flag, cleaned docstring (for
definitions) and literal value (for variables); every name occurs once. -/
theorem sim (c : Ctx) (stmts : List Stmt) (h : inSubset c stmts = true) :
    ∃ ms ns, scope c stmts = .ok ms ∧ PySem.scope c stmts = .ok ns ∧
      ms.map viewM = ns.map (viewP c) ∧ (ms.map (·.name)).Nodup := by
  unfold inSubset at h
  cases hc : checkList c {} stmts with
  | none => simp [hc] at h
  | some sn' =>
    obtain ⟨s', ns', hb, hp, R⟩ := sim_list c stmts c.scopeInBlock {} sn' {} [] (rel_init c) hc
    refine ⟨finish c s', ns', by simp [scope, hb], hp, ?_, ?_⟩
    · rw [← R.views]
      simp only [finish, List.map_map]
      exact List.map_congr_left (fun m _ => viewM_finish c m)
    · have : (finish c s').map (·.name) = s'.contents.map (·.name) := by
        have := congrArg (List.map View.name) (show (finish c s').map viewM = s'.contents.map (viewB c) by
          simp only [finish, List.map_map]; exact List.map_congr_left (fun m _ => viewM_finish c m))
        simpa [List.map_map, Function.comp_def, viewM, viewB] using this
      rw [this, R.names]; exact R.nodup

/-- **documented_eq_bound_partial** — for every statement list of the subset, the (name, kind class) list pydoctor
leaves in `contents` IS the list CPython binds (same order), and no name occurs twice: nothing missing,
nothing invented, nothing twice. -/
theorem documented_eq_bound_partial (c : Ctx) (stmts : List Stmt) (h : inSubset c stmts = true) :
    documented c stmts = bound c stmts ∧ ((documented c stmts).map (·.1)).Nodup ∧
      (∃ ms, scope c stmts = .ok ms) ∧ (∃ ns, PySem.scope c stmts = .ok ns) := by
  obtain ⟨ms, ns, hb, hp, hv, hn⟩ := sim c stmts h
  have h1 := congrArg (List.map fun v : View => (v.name, v.kc)) hv
  simp only [List.map_map, Function.comp_def, viewM, viewP] at h1
  refine ⟨by simp [documented, bound, hb, hp, h1], ?_, ⟨ms, hb⟩, ⟨ns, hp⟩⟩
  simpa [documented, hb, List.map_map, Function.comp_def] using hn

/-- entry-by-entry relation of two lists of the same length -/
inductive Zip {α β : Type} (R : α → β → Prop) : List α → List β → Prop
  | nil : Zip R [] []
  | cons {a b l p} : R a b → Zip R l p → Zip R (a :: l) (b :: p)

theorem Zip.imp {α β : Type} {R S : α → β → Prop} (h : ∀ a b, R a b → S a b) :
    ∀ {l p}, Zip R l p → Zip S l p
  | _, _, .nil => .nil
  | _, _, .cons r z => .cons (h _ _ r) (Zip.imp h z)

theorem forall2_of_map_eq {α β γ : Type} (f : α → γ) (g : β → γ) :
    ∀ (l : List α) (p : List β), l.map f = p.map g → Zip (fun a b => f a = g b) l p
  | [], [], _ => .nil
  | [], _ :: _, h => by simp at h
  | _ :: _, [], h => by simp at h
  | a :: l, b :: p, h => by
    simp only [List.map_cons, List.cons.injEq] at h
    exact .cons h.1 (forall2_of_map_eq f g l p h.2)

/-- **docstring_eq** — entry by entry, every documented class, function, method and property carries
`cleandoc` of the `__doc__` the interpreter reports for the bound object (`fget.__doc__` for a property),
`cleandoc` being the shared model of `inspect.cleandoc` (`Lineno.cleandoc`); and the coroutine flag agrees. -/
theorem docstring_eq (c : Ctx) (stmts : List Stmt) (h : inSubset c stmts = true) :
    ∃ ms ns, scope c stmts = .ok ms ∧ PySem.scope c stmts = .ok ns ∧
      Zip (fun (m : Member) (p : Name × PySem.PyObj) =>
        m.name = p.1 ∧
        (kindClass m ≠ .variable → m.doc = (PySem.rawDoc p.2).map Lineno.cleandoc) ∧
        (m.cls = .function → m.isAsync = PySem.coroutine p.2)) ms ns := by
  obtain ⟨ms, ns, hb, hp, hv, _⟩ := sim c stmts h
  refine ⟨ms, ns, hb, hp, ?_⟩
  have hf := forall2_of_map_eq viewM (viewP c) ms ns hv
  refine Zip.imp ?_ hf
  intro m p e
  have e1 := congrArg View.name e
  have e2 := congrArg View.kc e
  have e3 := congrArg View.co e
  have e4 := congrArg View.doc e
  simp only [viewM, viewP] at e1 e2 e3 e4
  refine ⟨e1, ?_, ?_⟩
  · intro hk
    rw [if_neg hk] at e4
    cases hp2 : p.2 with
    | value l => simp only [hp2, PySem.kindClass] at e2; exact absurd e2 hk
    | func a d => simp only [hp2] at e4; exact e4
    | cm f => simp only [hp2] at e4; exact e4
    | sm f => simp only [hp2] at e4; exact e4
    | prop f => simp only [hp2] at e4; exact e4
    | cls x d => simp only [hp2] at e4; exact e4
    | foreign => simp only [hp2] at e4; exact e4
  · intro hc
    simpa [hc] using e3

/-- **value_eq** — the value pydoctor stores for a documented variable is the value CPython binds, so the
annotation `_infer_attr_annotations` derives from it (`infer_type_sound`) names the type of the bound object. -/
theorem value_eq (c : Ctx) (stmts : List Stmt) (h : inSubset c stmts = true) :
    ∃ ms ns, scope c stmts = .ok ms ∧ PySem.scope c stmts = .ok ns ∧
      Zip (fun (m : Member) (p : Name × PySem.PyObj) =>
        kindClass m = .variable → ∃ l, m.value = some l ∧ p.2 = .value l) ms ns := by
  obtain ⟨ms, ns, hb, hp, hv, _⟩ := sim c stmts h
  refine ⟨ms, ns, hb, hp, ?_⟩
  have hf := forall2_of_map_eq viewM (viewP c) ms ns hv
  refine Zip.imp ?_ hf
  intro m p e hk
  have e2 := congrArg View.kc e
  have e5 := congrArg View.lit e
  simp only [viewM, viewP, hk, if_true] at e2 e5
  cases hp2 : p.2 with
  | value l => exact ⟨l, by simpa [hp2] using e5, rfl⟩
  | func a d => cases hci : c.inClass <;> simp [hp2, PySem.kindClass, hci] at e2
  | cm f => simp [hp2, PySem.kindClass] at e2
  | sm f => simp [hp2, PySem.kindClass] at e2
  | prop f => simp [hp2, PySem.kindClass] at e2
  | cls x d => cases x <;> simp [hp2, PySem.kindClass] at e2
  | foreign => simp [hp2, PySem.kindClass] at e2

/-- what `_infer_attr_annotations` writes for an attribute without explicit annotation -/
theorem inferAnn_spec (m : Member) (v : Lit) (hc : m.cls = .attribute) (ha : m.ann = none) (hv : m.value = some v) :
    (inferAnn m).ann = (inferType v).map (fun a => a.render.toList) := by
  simp [inferAnn, hc, ha, hv]

theorem kind_eq_counterexample :
    funcKind true [] [.builtin .staticmethod false, .builtin .classmethod false] = .method ∧
    PySem.funcKind true [] [.builtin .staticmethod false, .builtin .classmethod false] = some .staticmethod ∧
    funcKind true [] [.ident "log_property".toList] = .property ∧
    PySem.funcKind true [] [.ident "log_property".toList] = some .method ∧
    funcKind false [] [.builtin .staticmethod false] = .function ∧
    PySem.funcKind false [] [.builtin .staticmethod false] = some .staticmethod := by decide


def realCtx (inClass : Bool) : Ctx :=
  { inClass := inClass, scopeInBlock := false, env := [], pdExc := Tables.Exceptions.pydoctor,
    pyExc := Tables.Exceptions.builtins, inheritedNonAttr := [] }

/-- every name of `_STD_LIB_EXCEPTIONS` is an exception class of the reference interpreter -/
theorem exception_table_sound :
    Tables.Exceptions.pydoctor.all (fun n => Tables.Exceptions.builtins.contains n) = true := by decide +kernel

/-- every exception class name of the reference interpreter is in `_STD_LIB_EXCEPTIONS` (since 769cae3) -/
theorem exception_table_complete :
    Tables.Exceptions.builtins.all (fun n => Tables.Exceptions.pydoctor.contains n) = true := by decide +kernel

/-- the two generated tables classify EVERY name alike: no name is left on which they disagree -/
theorem exception_tables_agree (n : Name) :
    Tables.Exceptions.pydoctor.contains n = Tables.Exceptions.builtins.contains n := by
  have h1 := List.all_eq_true.mp exception_table_sound
  have h2 := List.all_eq_true.mp exception_table_complete
  cases hp : Tables.Exceptions.pydoctor.contains n <;> cases hy : Tables.Exceptions.builtins.contains n
  · rfl
  · have := h2 n (by simpa using hy); simp_all
  · have := h1 n (by simpa using hp); simp_all
  · rfl

/-- with the generated tables the exception clause of `Subset.inSubset` holds for every base list -/
theorem basesOk_generated (c : Ctx) (hp : c.pdExc = Tables.Exceptions.pydoctor) (hy : c.pyExc = Tables.Exceptions.builtins)
    (bases : List Base) : basesOk c bases = true := by
  simp only [basesOk, hp, hy, List.all_eq_true, beq_iff_eq]
  intro x _
  exact exception_tables_agree (stripBuiltins x)

/-- **exception_eq** (full) — with the tables generated from this tree and this interpreter, a class is documented as
an exception exactly when CPython makes it a subclass of `BaseException`, for every base list (external names written
bare or as `builtins.X`). -/
theorem exception_eq (c : Ctx) (hp : c.pdExc = Tables.Exceptions.pydoctor) (hy : c.pyExc = Tables.Exceptions.builtins)
    (bases : List Base) : isException c bases = PySem.isException c bases :=
  exception_eq_of_tables c bases (basesOk_generated c hp hy bases)

/-- `_STD_LIB_EXCEPTIONS` as it was before 769cae3 (the Python 3.8 list) — pre-fix, for the record -/
def pydoctorExcOld : List Name :=
  Tables.Exceptions.pydoctor.filter fun n =>
    !["BaseExceptionGroup".toList, "EncodingWarning".toList, "ExceptionGroup".toList].contains n

/-- historical (before 769cae3): `class G(ExceptionGroup)` was an exception for CPython and a plain class for pydoctor -/
theorem exception_eq_counterexample_old :
    isException { realCtx false with pdExc := pydoctorExcOld } [.ext "ExceptionGroup".toList] = false ∧
    PySem.isException { realCtx false with pdExc := pydoctorExcOld } [.ext "ExceptionGroup".toList] = true ∧
    isException (realCtx false) [.ext "ExceptionGroup".toList] = true := by decide +kernel

/-- `is_exception` as it was before 78b09d3: the expanded base name was compared as written — pre-fix, for the record -/
def isExceptionOld (c : Ctx) (bases : List Base) : Bool :=
  (extNames c.env (c.env.length + 1) bases).any (fun n => c.pdExc.contains n)

/-- historical (before 78b09d3): `import builtins; class E(builtins.ValueError)` was a plain class for pydoctor and an
exception class for CPython; now both say exception and the class statement is inside the subset -/
theorem exception_eq_qualified_counterexample_old :
    isExceptionOld (realCtx false) [.ext "builtins.ValueError".toList] = false ∧
    isException (realCtx false) [.ext "builtins.ValueError".toList] = true ∧
    PySem.isException (realCtx false) [.ext "builtins.ValueError".toList] = true ∧
    inSubset (realCtx false) [.classDef "K".toList [.ext "builtins.ValueError".toList] [] none []] = true := by decide +kernel

example : basesOk (realCtx false) [.ext "ExceptionGroup".toList, .ext "object".toList] = true := by decide +kernel
example : basesOk (realCtx false) [.ext "ValueError".toList] = true := by decide +kernel


/-! # the element rule of `infer_type` -/

/-- **infer_elements_sound** — a subscripted annotation is inferred only for a non-empty container all of
whose elements (keys and values for a dict) have that type: `list[t]`, `set[t]`, `tuple[t, ...]`, `dict[k, v]`. -/
theorem infer_elements_sound (xs ks vs : List Lit) (t k v : String) :
    (inferType (.list xs) = some (.sub "list" [t]) → xs ≠ [] ∧ ∀ x ∈ xs, PySem.typeName x = t) ∧
    (inferType (.set xs) = some (.sub "set" [t]) → xs ≠ [] ∧ ∀ x ∈ xs, PySem.typeName x = t) ∧
    (inferType (.tuple xs) = some (.sub "tuple" [t, "..."]) → xs ≠ [] ∧ ∀ x ∈ xs, PySem.typeName x = t) ∧
    (inferType (.dict ks vs) = some (.sub "dict" [k, v]) →
      (∀ x ∈ ks, PySem.typeName x = k) ∧ (∀ x ∈ vs, PySem.typeName x = v)) := by
  refine ⟨?_, ?_, ?_, ?_⟩
  · intro h
    simp only [inferType, annForValue, Option.some.injEq] at h
    cases he : annForElems [] xs with
    | none => simp [he] at h
    | some e =>
      simp only [he, Ann.sub.injEq, List.cons.injEq, and_true, true_and] at h
      have := annForElems_sound xs [] e he
      subst h
      exact ⟨by simpa using this.2.2, this.2.1⟩
  · intro h
    simp only [inferType, annForValue, Option.some.injEq] at h
    cases he : annForElems [] xs with
    | none => simp [he] at h
    | some e =>
      simp only [he, Ann.sub.injEq, List.cons.injEq, and_true, true_and] at h
      have := annForElems_sound xs [] e he
      subst h
      exact ⟨by simpa using this.2.2, this.2.1⟩
  · intro h
    simp only [inferType, annForValue, Option.some.injEq] at h
    cases he : annForElems [] xs with
    | none => simp [he] at h
    | some e =>
      simp only [he, Ann.sub.injEq, List.cons.injEq, and_true, true_and] at h
      have := annForElems_sound xs [] e he
      subst h
      exact ⟨by simpa using this.2.2, this.2.1⟩
  · intro h
    simp only [inferType, annForValue, Option.some.injEq] at h
    cases hk : annForElems [] ks with
    | none => cases hv : annForElems [] vs <;> simp [hk, hv] at h
    | some ek =>
      cases hv : annForElems [] vs with
      | none => simp [hk, hv] at h
      | some ev =>
        simp only [hk, hv, Ann.sub.injEq, List.cons.injEq, and_true, true_and] at h
        obtain ⟨h1, h2⟩ := h
        subst h1; subst h2
        exact ⟨(annForElems_sound ks [] _ hk).2.1, (annForElems_sound vs [] _ hv).2.1⟩

/-- the only shapes `infer_type` produces for a container: the bare name, or the name subscripted as above -/
theorem infer_container_shape (xs : List Lit) :
    (inferType (.list xs) = some (.name "list") ∨ ∃ t, inferType (.list xs) = some (.sub "list" [t])) := by
  simp only [inferType, annForValue]
  cases annForElems [] xs <;> simp

example : inferType (.list [.int, .int]) = some (.sub "list" ["int"]) := by decide
example : inferType (.dict [.str, .str] [.int, .int]) = some (.sub "dict" ["str", "int"]) := by decide
example : inferType (.list [.int, .str]) = some (.name "list") := by decide
example : inferType (.list [.list [], .list []]) = some (.sub "list" ["list"]) := by decide
example : inferType (.list [.none]) = some (.name "list") := by decide
example : (inferType (.tuple [.bool])).map Ann.render = some "tuple[bool, ...]" := by decide

/-! # witnesses: non-vacuity of the hypothesis, and one counterexample per excluded construct -/

/-- a small context (no classes of the project, empty tables) for witnesses without base classes -/
def cx (inClass : Bool) (inherited : List Name := []) : Ctx :=
  { inClass := inClass, scopeInBlock := false, env := [], pdExc := [], pyExc := [], inheritedNonAttr := inherited }

def nF : Name := "f".toList
def nG : Name := "g".toList
def nX : Name := "x".toList
def nW : Name := "W".toList
def nK : Name := "K".toList
def nD : Name := "deco".toList

/-- a class body of the subset: decorated methods, an async static method, a property, a variable with an
attribute docstring inside a taken `try`, a nested exception class, an old-style wrapping, a `__main__` block -/
def exClassBody : List Stmt :=
  [ .funcDef nF false [.ident nD, .builtin .classmethod false] (some " doc\n   more".toList),
    .funcDef nG true [.builtin .staticmethod false, .unnamed] none,
    .funcDef nX false [.builtin .property false] (some "getter".toList),
    .block .try [.assign nW (.list [.int, .int]) none, .attrDoc "about W".toList] [.other],
    .classDef nK [.ext "ValueError".toList] [] (some "K doc".toList) [.funcDef nF false [] none],
    .funcDef "h".toList false [] none,
    .other,
    .oldStyle "h".toList .staticmethod,
    .ifMain [.funcDef "hidden".toList false [] none] ]

example : inSubset (realCtx true) exClassBody = true := by decide +kernel

example : documented (realCtx true) exClassBody =
    [(nF, .classmethod), (nG, .staticmethod), (nX, .property), (nW, .variable), (nK, .exception),
     ("h".toList, .staticmethod)] := by decide +kernel

example : bound (realCtx true) exClassBody = documented (realCtx true) exClassBody := by decide +kernel

example : inSubset (cx false) [.funcDef nF true [.ident nD] none, .assign nW .none (some "int".toList)] = true := by decide

/-- `@x.setter`: pydoctor documents a member `x.setter`; CPython rebinds `x` to a new property. -/
theorem documented_eq_bound_setter_counterexample :
    documented (cx true) [.funcDef nX false [.builtin .property false] none, .funcDef nX false [.setter nX] none]
      = [(nX, .property), ("x.setter".toList, .method)] ∧
    bound (cx true) [.funcDef nX false [.builtin .property false] none, .funcDef nX false [.setter nX] none]
      = [(nX, .property)] := by decide

/-- a bare annotation `W: int` is documented although nothing is bound -/
theorem documented_eq_bound_annotation_counterexample :
    documented (cx false) [.annOnly nW "int".toList] = [(nW, .variable)] ∧
    bound (cx false) [.annOnly nW "int".toList] = [] := by decide

/-- a NON-literal value (`f = make()`) in a class whose base defines a method `f`: CPython binds it, pydoctor's
`_maybeAttribute` guard still refuses it (only literals bypass the guard since 91105ce) -/
theorem documented_eq_bound_inherited_nonliteral_counterexample :
    documented (cx true [nF]) [.assign nF .call none] = [] ∧
    bound (cx true [nF]) [.assign nF .call none] = [(nF, .variable)] := by decide

/-- `_handleClassVar`'s guard as it was before 91105ce: `if not _maybeAttribute(cls, name): return` — pre-fix, for the record -/
def classVarRefusedOld (c : Ctx) (s : State) (n : Name) : Bool := !maybeAttribute c s n

/-- historical (before 91105ce): `f = 1` in a class whose base defines a method `f` was refused and `B.f` went
undocumented; now it is documented as CPython binds it, and the namespace is inside the subset -/
theorem documented_eq_bound_inherited_counterexample_old :
    classVarRefusedOld (cx true [nF]) {} nF = true ∧
    documented (cx true [nF]) [.assign nF .int none] = [(nF, .variable)] ∧
    bound (cx true [nF]) [.assign nF .int none] = [(nF, .variable)] ∧
    inSubset (cx true [nF]) [.assign nF .int none] = true := by decide

/-- a definition in the part of an `if`/`try` that DOES run when the test is false / the body raises at once (the `else:`
branch, the `except` handler) is bound by CPython and not documented; a definition in the part that does not run is
documented and not bound (`get_children` yields `node.body` only) -/
theorem documented_eq_bound_else_taken_counterexample :
    documented (cx false) [.block .elseTaken [.other] [.funcDef nF false [] none, .assign nW .none none]] = [] ∧
    bound (cx false) [.block .elseTaken [.other] [.funcDef nF false [] none, .assign nW .none none]]
      = [(nF, .function), (nW, .variable)] ∧
    documented (cx false) [.block .elseTaken [.funcDef nG false [] none] [.other]] = [(nG, .function)] ∧
    bound (cx false) [.block .elseTaken [.funcDef nG false [] none] [.other]] = [] := by decide

/-- `name = other_name`: `_handleAliasing` records an alias and documents nothing; CPython binds the name -/
theorem documented_eq_bound_alias_counterexample :
    documented (cx false) [.assign nW .int none, .aliasAssign nX nW, .funcDef nF false [] none, .aliasAssign nG nF]
      = [(nW, .variable), (nF, .function)] ∧
    bound (cx false) [.assign nW .int none, .aliasAssign nX nW, .funcDef nF false [] none, .aliasAssign nG nF]
      = [(nW, .variable), (nX, .variable), (nF, .function), (nG, .foreign)] := by decide

/-- `x = property(getter)` / `make = staticmethod(_make)`: documented as a class variable, bound to a property / staticmethod -/
theorem kind_eq_wrapassign_counterexample :
    documented (cx true) [.funcDef nG false [] (some "getter".toList), .wrapAssign nX .property nG, .wrapAssign nW .staticmethod nG]
      = [(nG, .method), (nX, .variable), (nW, .variable)] ∧
    bound (cx true) [.funcDef nG false [] (some "getter".toList), .wrapAssign nX .property nG, .wrapAssign nW .staticmethod nG]
      = [(nG, .method), (nX, .property), (nW, .staticmethod)] := by decide

/-- the walk of a compound statement as it was before 99a6d9c: `.body` only — pre-fix, for the record -/
def blockWalkOld (c : Ctx) (s : State) (body : List Stmt) : Outcome := execList c true s body

/-- historical (before 99a6d9c): a definition in a `finally:` / try-`else:` / loop-`else:` clause was bound by CPython and
not documented; now these clauses are walked after the body and such statement lists are inside the subset -/
theorem documented_eq_bound_tail_counterexample_old :
    (match blockWalkOld (cx false) {} [.other] with | .ok s => s.contents.map (·.name) | .assertionError => []) = [] ∧
    documented (cx false) [.block .try [.other] [.funcDef nF false [] none], .block .for [.other] [.assign nW .int none]]
      = [(nF, .function), (nW, .variable)] ∧
    bound (cx false) [.block .try [.other] [.funcDef nF false [] none], .block .for [.other] [.assign nW .int none]]
      = [(nF, .function), (nW, .variable)] ∧
    inSubset (cx false) [.block .try [.other] [.funcDef nF false [] none], .block .for [.other] [.assign nW .int none]] = true := by
  decide

/-- historical (before 68b2b27): `@builtins.classmethod` was documented as a plain method; now the qualified spelling is
recognised and inside `decosOk` -/
theorem kind_eq_qualified_old :
    funcKind true [] [.builtin .classmethod true] = .classmethod ∧
    PySem.funcKind true [] [.builtin .classmethod true] = some .classmethod ∧
    decosOk true [.builtin .staticmethod true, .ident "deco".toList] = true := by decide

/-- re-binding: `def f` then `f = 1` — pydoctor keeps the function, CPython the last binding -/
theorem documented_eq_bound_rebinding_counterexample :
    documented (cx false) [.funcDef nF false [] none, .assign nF .int none] = [(nF, .function)] ∧
    bound (cx false) [.funcDef nF false [] none, .assign nF .int none] = [(nF, .variable)] := by decide

/-- a lone `@overload`: documented as a method, bound to `typing._overload_dummy` -/
theorem documented_eq_bound_overload_counterexample :
    documented (cx true) [.funcDef nF false [.overload] none] = [(nF, .method)] ∧
    bound (cx true) [.funcDef nF false [.overload] none] = [(nF, .foreign)] := by decide

def docsOf (c : Ctx) (stmts : List Stmt) : List (Option (List Char)) :=
  match scope c stmts with
  | .ok ms => ms.map (·.doc)
  | .assertionError => []

def pyDocsOf (c : Ctx) (stmts : List Stmt) : List (Option (List Char)) :=
  match PySem.scope c stmts with
  | .ok ns => ns.map fun p => (PySem.rawDoc p.2).map Lineno.cleandoc
  | .raises => []

/-- `_handleFunctionDef` on a property as it was before fcaa577: `addAttribute` left `currentAttr` on the new
attribute — pre-fix, for the record -/
def propertyDefOld (s : State) (n : Name) (doc : Option (List Char)) : State :=
  { contents := put s.contents { name := n, cls := .attribute, kind := .property, doc := doc.map cleandoc },
    cur := some n }

/-- historical (before fcaa577): a string statement right after a property replaced the property's docstring;
now the property keeps the getter's docstring, which is what the interpreter reports -/
theorem docstring_eq_counterexample_old :
    (handleAttrDoc (propertyDefOld {} nX (some "getter".toList)) "other".toList).contents.map (·.doc)
      = [some "other".toList] ∧
    docsOf (cx true) [.funcDef nX false [.builtin .property false] (some "getter".toList), .attrDoc "other".toList]
      = [some "getter".toList] ∧
    pyDocsOf (cx true) [.funcDef nX false [.builtin .property false] (some "getter".toList), .attrDoc "other".toList]
      = [some "getter".toList] := by decide

example : inSubset (cx true)
    [.funcDef nX false [.builtin .property false] (some "getter".toList), .attrDoc "other".toList] = true := by decide

/-- **recogniser** — `visit_If` skips a guarded block for exactly one test: `__name__ == '__main__'`
(not negated, that operand order, that operator). -/
theorem isNameEqualsMain_iff (g : Guard) :
    isNameEqualsMain g = true ↔ g = { left := .dunderName, op := .eq, right := .mainStr, negated := false } := by
  obtain ⟨l, o, r, n⟩ := g
  cases l <;> cases o <;> cases r <;> cases n <;> simp [isNameEqualsMain]

/-- whatever the recogniser accepts is not taken on import: pydoctor never hides a block CPython executes -/
theorem recognised_not_taken (g : Guard) (h : isNameEqualsMain g = true) : g.onImport = false := by
  rw [(isNameEqualsMain_iff g).mp h]; decide

/-- the near misses are all taken on import and all entered by pydoctor: `__name__ != '__main__'`,
`'__main__' != __name__`, `not __name__ == '__main__'`, `__name__ is not None` -/
theorem near_misses_taken_and_entered :
    ∀ g ∈ ([⟨.dunderName, .notEq, .mainStr, false⟩, ⟨.mainStr, .notEq, .dunderName, false⟩,
            ⟨.dunderName, .eq, .mainStr, true⟩, ⟨.dunderName, .isNot, .noneLit, false⟩] : List Guard),
      g.onImport = true ∧ isNameEqualsMain g = false := by decide

example : inSubset (cx false) [.ifCmp ⟨.dunderName, .notEq, .mainStr, false⟩ [.funcDef nF false [] none]] = true := by decide
example : documented (cx false) [.ifCmp ⟨.dunderName, .notEq, .mainStr, false⟩ [.funcDef nF false [] none]]
    = [(nF, .function)] := by decide

/-- the reversed spelling `'__main__' == __name__` (and any other test that is false on import) is not recognised:
pydoctor documents the body of a block CPython does not execute — an untaken `if`, outside the agreed subset -/
theorem documented_eq_bound_untaken_guard_counterexample :
    documented (cx false) [.ifCmp ⟨.mainStr, .eq, .dunderName, false⟩ [.funcDef nF false [] none]] = [(nF, .function)] ∧
    bound (cx false) [.ifCmp ⟨.mainStr, .eq, .dunderName, false⟩ [.funcDef nF false [] none]] = [] := by decide

/-! ## `Class.find` / `_maybeAttribute` over the bases -/

theorem findIn_some_mem : ∀ (chain : List ClassContents) (n : Name) (b : Bool), findIn chain n = some b →
    n ∈ chain.flatMap (fun cc => cc.map (·.1))
  | [], _, _, h => by simp [findIn] at h
  | cc :: rest, n, b, h => by
    simp only [findIn] at h
    simp only [List.flatMap_cons, List.mem_append]
    cases hf : cc.find? (fun p => decide (p.1 = n)) with
    | some p =>
      left
      have h1 := List.mem_of_find?_eq_some hf
      have h2 : p.1 = n := by simpa using List.find?_some hf
      exact List.mem_map.mpr ⟨p, h1, h2⟩
    | none =>
      simp only [hf] at h
      right; exact findIn_some_mem rest n b h

/-- the names handed to the scope as context are exactly those `find` answers on the bases with a non-Attribute -/
theorem inheritedNonAttrOf_contains (bases : List ClassContents) (n : Name) :
    (inheritedNonAttrOf bases).contains n = (findIn bases n == some false) := by
  cases hf : findIn bases n == some false with
  | true =>
    have hm := findIn_some_mem bases n false (by simpa using hf)
    have : n ∈ inheritedNonAttrOf bases := by
      unfold inheritedNonAttrOf
      exact List.mem_filter.mpr ⟨hm, hf⟩
    simpa using this
  | false =>
    have : n ∉ inheritedNonAttrOf bases := by
      unfold inheritedNonAttrOf
      intro hmem
      have := (List.mem_filter.mp hmem).2
      rw [hf] at this
      exact Bool.noConfusion this
    simpa using this

theorem find_own (s : State) (n : Name) :
    (ownContents s).find? (fun p => decide (p.1 = n)) = (lookup s.contents n).map fun m => (m.name, decide (m.cls = .attribute)) := by
  unfold ownContents lookup
  induction s.contents with
  | nil => rfl
  | cons m rest ih =>
    simp only [List.map_cons, List.find?_cons]
    by_cases e : m.name = n <;> simp [e, ih]

/-- **maybeAttribute_eq_find** — the scope-level guard with the context `inheritedNonAttrOf bases` IS
`_maybeAttribute` = `Class.find` over the chain (own contents first, then the bases in `mro()` order). -/
theorem maybeAttribute_eq_find (c : Ctx) (s : State) (n : Name) (bases : List ClassContents)
    (h : c.inheritedNonAttr = inheritedNonAttrOf bases) :
    maybeAttribute c s n = maybeAttributeIn (ownContents s :: bases) n := by
  unfold maybeAttribute maybeAttributeIn
  simp only [findIn, find_own]
  cases hl : lookup s.contents n with
  | some obj => simp
  | none =>
    simp only [Option.map_none, h, inheritedNonAttrOf_contains]
    cases hf : findIn bases n with
    | none => simp
    | some b => cases b <;> simp

example : maybeAttributeIn [[(nW, true)], [(nF, false)], [(nF, true)]] nF = false := by decide
example : inheritedNonAttrOf [[(nF, false), (nW, true)], [(nW, false)]] = [nF] := by decide

/-- `del name` is not looked at (there is no `visit_Delete`): the object stays documented although the name is
unbound again when the body has run — outside the subset (DESIGN 7-C03: `del` excluded) -/
theorem documented_eq_bound_del_counterexample :
    documented (cx false) [.assign nW .int none, .delName nW] = [(nW, .variable)] ∧
    bound (cx false) [.assign nW .int none, .delName nW] = [] := by decide

/-- `_handleDocstringUpdate` as it was before 6e624d0: the assigned string was stored as written — pre-fix, for the record -/
def handleDocAssignOld (s : State) (n : Name) (text : List Char) : State :=
  match lookup s.contents n with
  | some _ => { s with contents := upd s.contents n (fun o => { o with doc := some text }) }
  | none => s

/-- historical (before 6e624d0): `f.__doc__ = "  indented\n    more"` kept the string as written while the interpreter's
cleaned docstring is `"indented\nmore"`; now both sides agree and the statement is inside the subset for every text -/
theorem docstring_eq_docassign_counterexample_old :
    (handleDocAssignOld { contents := [{ name := nF, cls := .function, kind := .function }] } nF "  indented\n    more".toList).contents.map (·.doc)
      = [some "  indented\n    more".toList] ∧
    docsOf (cx false) [.funcDef nF false [] none, .docAssign nF "  indented\n    more".toList]
      = [some "indented\nmore".toList] ∧
    pyDocsOf (cx false) [.funcDef nF false [] none, .docAssign nF "  indented\n    more".toList]
      = [some "indented\nmore".toList] ∧
    inSubset (cx false) [.funcDef nF false [] none, .docAssign nF "  indented\n    more".toList] = true := by decide

example : inSubset (cx true) [.funcDef nF false [.ident nD] none, .docAssign nF "assigned later".toList,
    .classDef nK [] [] none [], .docAssign nK "Title\n\nkept".toList] = true := by decide
example : docsOf (cx true) [.funcDef nF false [.ident nD] none, .docAssign nF "assigned later".toList]
    = [some "assigned later".toList] := by decide

/-- re-definitions inside the subset — the last binding wins on both sides (`System.addObject`: `contents[name] = obj`):
a `def` over a `def` (the classmethod kind and the docstring of the first are gone), a `def` over a variable, a `class`
over a `def`, a variable assigned twice (the literal of the last assignment) -/
example : inSubset (cx true) [.funcDef nF false [.builtin .classmethod false] (some "first".toList), .funcDef nF false [] none]
    = true := by decide
example : inSubset (cx true) [.assign nW .int none, .funcDef nW true [] none, .funcDef nK false [] none, .classDef nK [] [] none [],
    .assign nX .int none, .assign nX (.list [.str]) none] = true := by decide
example : documented (cx true) [.funcDef nF false [.builtin .classmethod false] (some "first".toList), .funcDef nF false [] none]
    = [(nF, .method)] := by decide
example : documented (cx true) [.assign nW .int none, .funcDef nW true [] none, .funcDef nK false [] none, .classDef nK [] [] none []]
    = [(nW, .method), (nK, .cls)] := by decide
example : docsOf (cx true) [.funcDef nF false [.builtin .classmethod false] (some "first".toList), .funcDef nF false [] none]
    = [none] := by decide

/-- wrapping a method the old way again, or after a decorator: the last wrapper decides on both sides (04d150a) -/
theorem oldstyle_rewrap_last_wins :
    documented (cx true) [.funcDef nF false [] none, .oldStyle nF .staticmethod, .oldStyle nF .classmethod] = [(nF, .classmethod)] ∧
    bound (cx true) [.funcDef nF false [] none, .oldStyle nF .staticmethod, .oldStyle nF .classmethod] = [(nF, .classmethod)] ∧
    documented (cx true) [.funcDef nF true [.builtin .classmethod false] none, .oldStyle nF .staticmethod] = [(nF, .staticmethod)] ∧
    bound (cx true) [.funcDef nF true [.builtin .classmethod false] none, .oldStyle nF .staticmethod] = [(nF, .staticmethod)] ∧
    inSubset (cx true) [.funcDef nF true [.builtin .classmethod false] none, .oldStyle nF .staticmethod, .oldStyle nF .classmethod] = true := by
  decide

/-- the assertion of `_handleOldSchoolMethodDecoration` as it was before 04d150a (`kind is METHOD`) — pre-fix, for the record -/
def oldStyleAssertFailedOld (k : Kind) : Bool := k != .method

/-- historical (before 04d150a): a second old-style wrapping (the kind is STATIC_METHOD by then) tripped the assertion and
aborted the run; now the statement list is inside the subset (`oldstyle_rewrap_last_wins`) -/
theorem oldstyle_double_wrap_asserts_old : oldStyleAssertFailedOld .staticMethod = true ∧ oldStyleAssertFailedOld .method = false := by
  decide

example : docsOf (cx true) [.funcDef nF false [] (some "\n    Title\n\n      indented\n    ".toList)]
    = [some "Title\n\n  indented".toList] := by decide

end Builder
