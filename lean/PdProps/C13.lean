/-
C13 — Privacy rules mean what the manual says.

Theorems over `PdModel.Glob` (qnmatch.translate / qnmatch.qnmatch, the `re` fragment, the
manual's meaning `Glob.spec`) and `PdModel.Privacy` (System.privacyClass, its cache,
Documentable.isVisible).
-/
import PdModel.Glob
import PdModel.Privacy

/-! ## Regex: lazy and greedy quantifiers accept the same names -/
namespace Regex

theorem starLazy_eq_greedy (ok : Char → Bool) (k : List Char → Bool) :
    ∀ n, starLazy ok k n = starGreedy ok k n
  | [] => rfl
  | x :: n => by simp [starLazy, starGreedy, starLazy_eq_greedy ok k n, Bool.or_comm]

/-- For `pattern.match(name)` with `\Z` the lazy quantifiers `*?` that `translate` writes accept
exactly what the greedy ones would: laziness only changes which split is tried first. -/
theorem nongreedy_irrelevant : ∀ (as : List Atom) (n : List Char), matchA as n = matchG as n
  | [], n => rfl
  | .lit c :: as, n => by cases n <;> simp [matchA, matchG, nongreedy_irrelevant as]
  | .any :: as, n => by cases n <;> simp [matchA, matchG, nongreedy_irrelevant as]
  | .set b :: as, n => by cases n <;> simp [matchA, matchG, nongreedy_irrelevant as]
  | .starAny :: as, n => by
    have h : matchA as = matchG as := funext (nongreedy_irrelevant as)
    simp [matchA, matchG, h, starLazy_eq_greedy]
  | .starNoDot :: as, n => by
    have h : matchA as = matchG as := funext (nongreedy_irrelevant as)
    simp [matchA, matchG, h, starLazy_eq_greedy]

example : matchA [.starAny, .lit 'b'] ['a', 'b', 'b'] = true := by decide

end Regex

namespace Glob
open Regex

/-! ## a star against all cuts of the name -/

theorem any_and_left {α} (b : Bool) (f : α → Bool) (l : List α) (h : l ≠ []) :
    l.any (fun a => b && f a) = (b && l.any f) := by
  induction l with
  | nil => exact absurd rfl h
  | cons a l ih =>
    cases l with
    | nil => simp
    | cons a' l' =>
      have := ih (by simp)
      simp only [List.any_cons] at this ⊢
      rw [this]; cases b <;> simp

theorem splits_ne_nil : ∀ n, splits n ≠ []
  | [] => by simp [splits]
  | _ :: _ => by simp [splits]

theorem starLazy_splits (ok : Char → Bool) (k : List Char → Bool) :
    ∀ n, starLazy ok k n = (splits n).any (fun uv => uv.1.all ok && k uv.2)
  | [] => by simp [starLazy, splits]
  | x :: n => by
    simp only [starLazy, splits, List.any_cons, List.all_nil, Bool.true_and, List.any_map,
      starLazy_splits ok k n]
    congr 1
    have : ((fun uv : List Char × List Char => uv.1.all ok && k uv.2) ∘
        fun uv : List Char × List Char => (x :: uv.1, uv.2)) =
        fun uv => ok x && (uv.1.all ok && k uv.2) := by
      funext uv; simp [Bool.and_assoc]
    rw [this, any_and_left _ _ _ (splits_ne_nil n)]

theorem mem_splits : ∀ (n u v : List Char), (u, v) ∈ splits n ↔ u ++ v = n
  | [], u, v => by
    simp only [splits, List.mem_singleton, Prod.mk.injEq]
    constructor
    · rintro ⟨rfl, rfl⟩; rfl
    · intro h; exact List.append_eq_nil_iff.mp h
  | x :: n, u, v => by
    simp only [splits, List.mem_cons, Prod.mk.injEq, List.mem_map]
    constructor
    · rintro (⟨rfl, rfl⟩ | ⟨⟨u', v'⟩, hm, h1, h2⟩)
      · rfl
      · have := (mem_splits n u' v').mp hm
        simp only at h1 h2
        subst h1 h2; simp [this]
    · intro h
      cases u with
      | nil => left; exact ⟨rfl, by simpa using h⟩
      | cons y u' =>
        right
        simp only [List.cons_append, List.cons.injEq] at h
        exact ⟨(u', v), (mem_splits n u' v).mpr h.2, by simp [h.1]⟩


/-! ## character sets: what `re` reads from the text `translate` writes -/

/-- the token `re` reads for a character `c` of `stuff` after `replace('\\', r'\\')` -/
def tk (c : Char) : Tok := ⟨c = '\\', c⟩

theorem lex_plain (c : Char) (r : List Char) (h : ¬ c = '\\') :
    lex (c :: r) = (lex r).map (⟨false, c⟩ :: ·) := by
  rw [lex.eq_def]; simp [h]

theorem lex_esc (d : Char) (r : List Char) :
    lex ('\\' :: d :: r) = if isAsciiAlnum d then none else (lex r).map (⟨true, d⟩ :: ·) := by
  rw [lex.eq_def]; simp

theorem has_single (a x : Char) : (Item.single a).has x = decide (a = x) := rfl
theorem has_range (lo hi x : Char) :
    (Item.range lo hi).has x = (decide (lo.toNat ≤ x.toNat) && decide (x.toNat ≤ hi.toNat)) := rfl
theorem dash_c : dash.c = '-' := rfl

theorem lex_replaceBs : ∀ s, lex (replaceBs s) = some (s.map tk)
  | [] => rfl
  | c :: r => by
    by_cases h : c = '\\'
    · subst h
      have : isAsciiAlnum '\\' = false := by decide
      simp [replaceBs, lex_esc, this, lex_replaceBs r, tk]
    · simp [replaceBs, lex_plain, h, lex_replaceBs r, tk]

/-- an unescaped `-` is the only token that `re` takes for the range operator -/
def Good (toks : List Tok) : Prop := ∀ t ∈ toks, t.c = '-' → t.esc = false

theorem good_tail {t : Tok} {toks : List Tok} (h : Good (t :: toks)) : Good toks :=
  fun x hx => h x (List.mem_cons_of_mem _ hx)

theorem dash_iff {toks : List Tok} {m : Tok} (h : Good toks) (hm : m ∈ toks) :
    m = dash ↔ m.c = '-' := by
  constructor
  · intro e; subst e; rfl
  · intro e
    have := h m hm e
    cases m with
    | mk esc c => simp only at e this; subst e this; rfl

theorem items_isSome : ∀ (toks : List Tok), Good toks →
    (items toks).isSome = !descending (toks.map (·.c))
  | [], _ => rfl
  | [_], _ => rfl
  | [t, m], _ => by simp [items, descending]
  | t :: m :: u :: r, h => by
    have hm : m = dash ↔ m.c = '-' := dash_iff h (by simp)
    have h1 : Good (m :: u :: r) := good_tail h
    have h3 : Good r := good_tail (good_tail h1)
    by_cases hd : m = dash
    · have hc : m.c = '-' := hm.mp hd
      by_cases hle : t.c.toNat ≤ u.c.toNat
      · have : ¬ (u.c.toNat < t.c.toNat) := by omega
        subst hd
        simp [items, descending, dash_c, hle, this, items_isSome r h3]
      · have : u.c.toNat < t.c.toNat := by omega
        subst hd
        simp [items, descending, dash_c, hle, this]
    · have hc : ¬ m.c = '-' := fun e => hd (hm.mpr e)
      have ih := items_isSome (m :: u :: r) h1
      simp only [List.map_cons] at ih
      simp [items, descending, hd, hc, ih]

theorem items_has (x : Char) : ∀ (toks : List Tok) (its : List Item), Good toks →
    items toks = some its → its.any (·.has x) = seqHas (toks.map (·.c)) x
  | [], its, _, e => by simp [items] at e; subst e; rfl
  | [t], its, _, e => by simp [items] at e; subst e; simp [seqHas, has_single]
  | [t, m], its, _, e => by simp [items] at e; subst e; simp [seqHas, has_single]
  | t :: m :: u :: r, its, h, e => by
    have hm : m = dash ↔ m.c = '-' := dash_iff h (by simp)
    have h1 : Good (m :: u :: r) := good_tail h
    have h3 : Good r := good_tail (good_tail h1)
    by_cases hd : m = dash
    · have hc : m.c = '-' := hm.mp hd
      by_cases hle : t.c.toNat ≤ u.c.toNat
      · simp only [items, hd, if_true, hle] at e
        cases hr : items r with
        | none => simp [hr] at e
        | some its' =>
          simp only [hr, Option.map_some, Option.some.injEq] at e
          subst e
          simp [seqHas, hc, has_range, items_has x r its' h3 hr]
      · simp [items, hd, hle] at e
    · have hc : ¬ m.c = '-' := fun e => hd (hm.mpr e)
      simp only [items, hd, if_false] at e
      cases hr : items (m :: u :: r) with
      | none => simp [hr] at e
      | some its' =>
        simp only [hr, Option.map_some, Option.some.injEq] at e
        subst e
        have ih := items_has x (m :: u :: r) its' h1 hr
        simp only [List.map_cons] at ih
        simp [seqHas, hc, has_single, ih]

/-- the text `translate` puts between the brackets for `[seq]` (`neg = false`) / `[!seq]` -/
def bodyOf (neg : Bool) (seq : List Char) : List Char :=
  if neg then '^' :: replaceBs seq
  else match seq with
    | [] => []
    | c :: s => if c = '^' ∨ c = '[' then '\\' :: c :: replaceBs s else replaceBs (c :: s)

/-- what the tokenizer guarantees about a bracket expression: `seq` is not empty, and a `seq`
that is not negated does not begin with `!` -/
def SeqInv (neg : Bool) (seq : List Char) : Prop :=
  seq ≠ [] ∧ (neg = false → seq.head? ≠ some '!')

theorem fixHead_stuff (neg : Bool) (seq : List Char) (h : SeqInv neg seq) :
    fixHead (replaceBs (if neg then '!' :: seq else seq)) = some (bodyOf neg seq) := by
  obtain ⟨hne, hbang⟩ := h
  cases neg with
  | true => simp [replaceBs, fixHead, bodyOf]
  | false =>
    cases seq with
    | nil => exact absurd rfl hne
    | cons c s =>
      have hc : c ≠ '!' := by simpa using hbang rfl
      by_cases hb : c = '\\'
      · subst hb; simp [replaceBs, fixHead, bodyOf]
      · by_cases h2 : c = '^' ∨ c = '['
        · rcases h2 with rfl | rfl <;> simp [replaceBs, fixHead, bodyOf]
        · have h3 : ¬ c = '^' := fun e => h2 (Or.inl e)
          have h4 : ¬ c = '[' := fun e => h2 (Or.inr e)
          simp [replaceBs, fixHead, bodyOf, hb, hc, h3, h4]

/-- the tokens `re` reads from the body, as a function of `seq` -/
theorem parseSet_bodyOf (neg : Bool) (seq : List Char) (h : SeqInv neg seq) :
    ∃ toks, Good toks ∧ toks.map (·.c) = seq ∧
      parseSet (bodyOf neg seq) = (items toks).map (fun its => (neg, its)) := by
  obtain ⟨hne, hbang⟩ := h
  have goodmap : ∀ s : List Char, Good (s.map tk) := by
    intro s t ht hc
    obtain ⟨c, _, rfl⟩ := List.mem_map.mp ht
    simp only [tk] at hc ⊢
    subst hc; decide
  have cmap : ∀ s : List Char, (s.map tk).map (·.c) = s := by
    intro s; induction s with
    | nil => rfl
    | cons c s ih => simp only [List.map_cons, ih]; rfl
  cases neg with
  | true =>
    refine ⟨seq.map tk, goodmap seq, cmap seq, ?_⟩
    have : (seq.map tk).isEmpty = false := by cases seq <;> simp_all
    simp [bodyOf, parseSet, lex_replaceBs, this]
  | false =>
    cases seq with
    | nil => exact absurd rfl hne
    | cons c s =>
      by_cases h2 : c = '^' ∨ c = '['
      · refine ⟨⟨true, c⟩ :: s.map tk, ?_, by simp [cmap], ?_⟩
        · intro t ht hc
          rcases List.mem_cons.mp ht with rfl | ht
          · rcases h2 with rfl | rfl <;> simp at hc
          · exact goodmap s t ht hc
        · have hal : isAsciiAlnum c = false := by rcases h2 with rfl | rfl <;> decide
          simp [bodyOf, h2, parseSet, lex_esc, hal, lex_replaceBs]
      · refine ⟨(c :: s).map tk, goodmap _, cmap _, ?_⟩
        have h3 : ¬ c = '^' := fun e => h2 (Or.inl e)
        have hhead : (replaceBs (c :: s)).head? ≠ some '^' := by
          by_cases hb : c = '\\'
          · subst hb; simp [replaceBs]
          · simp [replaceBs, hb, h3]
        have hl := lex_replaceBs (c :: s)
        simp only [bodyOf, h2, if_false, Bool.false_eq_true, parseSet, hhead, decide_false, hl]
        simp

theorem parseSet_isSome (neg : Bool) (seq : List Char) (h : SeqInv neg seq) :
    (parseSet (bodyOf neg seq)).isSome = !descending seq := by
  obtain ⟨toks, hg, hc, hp⟩ := parseSet_bodyOf neg seq h
  rw [hp, ← hc, ← items_isSome toks hg]
  cases items toks <;> rfl

theorem setHas_bodyOf (neg : Bool) (seq : List Char) (h : SeqInv neg seq) (x : Char)
    (hd : descending seq = false) : setHas (bodyOf neg seq) x = (neg != seqHas seq x) := by
  obtain ⟨toks, hg, hc, hp⟩ := parseSet_bodyOf neg seq h
  have hs := items_isSome toks hg
  rw [hc, hd] at hs
  cases hi : items toks with
  | none => simp [hi] at hs
  | some its =>
    have := items_has x toks its hg hi
    rw [hc] at this
    simp [setHas, hp, hi, this]


/-! ## the two scanners cut a pattern at the same places -/

theorem scan_eq : ∀ (l : List Char) (j : Nat),
    scan l j = j + (l.takeWhile (· != ']')).length
  | [], j => by simp [scan]
  | c :: cs, j => by
    by_cases h : c = ']'
    · simp [scan, h]
    · simp [scan, h, scan_eq cs (j + 1)]; omega

theorem tw_of_dw_nil (p : Char → Bool) : ∀ l : List Char, l.dropWhile p = [] →
    (l.takeWhile p).length = l.length
  | [], _ => rfl
  | a :: l, h => by
    by_cases hp : p a = true
    · simp only [List.dropWhile_cons, hp, if_true] at h
      simp [hp, tw_of_dw_nil p l h]
    · simp [hp] at h

theorem tw_of_dw_cons (p : Char → Bool) : ∀ (l : List Char) (a : Char) (after : List Char),
    l.dropWhile p = a :: after →
    (l.takeWhile p).length < l.length ∧ l.take (l.takeWhile p).length = l.takeWhile p ∧
      l.drop ((l.takeWhile p).length + 1) = after
  | [], a, after, h => by simp at h
  | b :: l, a, after, h => by
    by_cases hp : p b = true
    · simp only [List.dropWhile_cons, hp, if_true] at h
      obtain ⟨h1, h2, h3⟩ := tw_of_dw_cons p l a after h
      simp only [List.takeWhile_cons, hp, if_true, List.length_cons, List.take_succ_cons,
        List.drop_succ_cons]
      exact ⟨by omega, by rw [h2], h3⟩
    · simp only [List.dropWhile_cons, hp, if_false, List.cons.injEq, Bool.false_eq_true] at h
      simp [hp, h.2]

/-- the part after `[` (and `[!`): what the index arithmetic of `translate` finds is what
`closeBracket` finds -/
theorem bracket_core (pre : List Char) (c : Char) (r' : List Char) (k : Nat) (hk : pre.length = k) :
    (let j := if c = ']' then k + 1 else k
     let j := scan ((pre ++ c :: r').drop j) j
     if j ≥ (pre ++ c :: r').length then none
     else some ((pre ++ c :: r').take j, (pre ++ c :: r').drop (j + 1))) =
    (closeBracket (c :: r')).map (fun sa => (pre ++ sa.1, sa.2)) := by
  have hj : (let j := if c = ']' then k + 1 else k; scan ((pre ++ c :: r').drop j) j) =
      k + 1 + (r'.takeWhile (· != ']')).length := by
    by_cases hc : c = ']'
    · subst hc
      have : (pre ++ ']' :: r').drop (k + 1) = r' := by
        rw [← hk]; simp
      simp [this, scan_eq]
    · have : (pre ++ c :: r').drop k = c :: r' := by rw [← hk]; simp
      simp [hc, this, scan_eq]; omega
  simp only at hj ⊢
  rw [hj]
  cases hd : r'.dropWhile (· != ']') with
  | nil =>
    have := tw_of_dw_nil _ r' hd
    simp [closeBracket, hd, this, hk]; omega
  | cons a after =>
    obtain ⟨h1, h2, h3⟩ := tw_of_dw_cons _ r' a after hd
    have hlen : ¬ (k + 1 + (r'.takeWhile (· != ']')).length ≥ (pre ++ c :: r').length) := by
      simp [hk]; omega
    have ht : (pre ++ c :: r').take (k + 1 + (r'.takeWhile (· != ']')).length) =
        pre ++ c :: r'.takeWhile (· != ']') := by
      rw [List.take_append, ← hk]
      have : pre.length + 1 + (r'.takeWhile (· != ']')).length - pre.length =
          (r'.takeWhile (· != ']')).length + 1 := by omega
      rw [this, List.take_of_length_le (by omega), List.take_succ_cons, h2]
    have hdr : (pre ++ c :: r').drop (k + 1 + (r'.takeWhile (· != ']')).length + 1) = after := by
      rw [List.drop_append, ← hk]
      have : pre.length + 1 + (r'.takeWhile (· != ']')).length + 1 - pre.length =
          (r'.takeWhile (· != ']')).length + 1 + 1 := by omega
      rw [this, List.drop_of_length_le (by omega), List.drop_succ_cons, h3]; rfl
    simp only [closeBracket, hd, hlen, if_false, ht, hdr, Option.map_some]

theorem bracket_eq (rest : List Char) :
    bracket rest =
      (closeBracket (if rest.head? = some '!' then rest.tail else rest)).map
        (fun sa => (if rest.head? = some '!' then '!' :: sa.1 else sa.1, sa.2)) := by
  cases rest with
  | nil => simp [bracket, scan, closeBracket]
  | cons c r =>
    by_cases hb : c = '!'
    · subst hb
      cases r with
      | nil => simp [bracket, scan, closeBracket]
      | cons d r' =>
        have := bracket_core ['!'] d r' 1 rfl
        simp only [List.singleton_append] at this
        simpa [bracket] using this
    · have := bracket_core [] c r 0 rfl
      simp only [List.nil_append] at this
      have hne : ¬ ('!' = c) := fun e => hb e.symm
      simpa [bracket, hb, hne] using this


/-! ## `translate` writes, token for token, the regex of the manual's reading -/

/-- the regex atom `translate` writes for a token of the manual's reading -/
def ofTok : GTok → Atom
  | .star => .starNoDot
  | .dstar => .starAny
  | .one => .any
  | .cls neg seq => .set (bodyOf neg seq)
  | .ch c => .lit c

def TokInv : GTok → Prop
  | .cls neg seq => SeqInv neg seq
  | _ => True

theorem closeBracket_some {r seq after : List Char} (h : closeBracket r = some (seq, after)) :
    ∃ c r', r = c :: r' ∧ seq = c :: r'.takeWhile (· != ']') ∧ after.length < r'.length := by
  cases r with
  | nil => simp [closeBracket] at h
  | cons c r' =>
    simp only [closeBracket] at h
    cases hd : r'.dropWhile (· != ']') with
    | nil => simp [hd] at h
    | cons a af =>
      simp only [hd, Option.some.injEq, Prod.mk.injEq] at h
      obtain ⟨h1, _, h3⟩ := tw_of_dw_cons _ r' a af hd
      refine ⟨c, r', rfl, h.1.symm, ?_⟩
      rw [← h.2, ← h3, List.length_drop]; omega

theorem closeBracket_inv {r seq after : List Char}
    (h : closeBracket (if r.head? = some '!' then r.tail else r) = some (seq, after)) :
    SeqInv (decide (r.head? = some '!')) seq ∧ after.length < r.length := by
  obtain ⟨c, r', h1, h2, h3⟩ := closeBracket_some h
  by_cases hb : r.head? = some '!'
  · simp only [hb, if_true] at h1
    refine ⟨⟨by simp [h2], by simp [hb]⟩, ?_⟩
    have : r.length = r.tail.length + 1 := by cases r <;> simp_all
    rw [this, h1]; simp; omega
  · simp only [hb, if_false] at h1
    refine ⟨⟨by simp [h2], ?_⟩, by rw [h1]; simp; omega⟩
    intro _
    rw [h2]; rw [h1] at hb; simpa using hb

theorem tokens_inv : ∀ (f : Nat) (p : List Char), ∀ t ∈ tokens f p, TokInv t
  | 0, _ => by simp [tokens]
  | _ + 1, [] => by simp [tokens]
  | f + 1, c :: r => by
    intro t ht
    rw [tokens.eq_def] at ht
    simp only at ht
    split at ht
    · cases r with
      | nil => simp at ht; subst ht; trivial
      | cons d r' =>
        simp only at ht
        split at ht
        · rcases List.mem_cons.mp ht with rfl | ht
          · trivial
          · exact tokens_inv f r' t ht
        · rcases List.mem_cons.mp ht with rfl | ht
          · trivial
          · exact tokens_inv f _ t ht
    · split at ht
      · rcases List.mem_cons.mp ht with rfl | ht
        · trivial
        · exact tokens_inv f r t ht
      · split at ht
        · split at ht
          · rename_i seq after hcb
            rcases List.mem_cons.mp ht with rfl | ht
            · exact (closeBracket_inv (by simpa using hcb)).1
            · exact tokens_inv f after t ht
          · rcases List.mem_cons.mp ht with rfl | ht
            · trivial
            · exact tokens_inv f r t ht
        · rcases List.mem_cons.mp ht with rfl | ht
          · trivial
          · exact tokens_inv f r t ht

theorem tokens_nil (f : Nat) : tokens f [] = [] := by cases f <;> rfl

theorem loop_eq : ∀ (f : Nat) (p : List Char), loop f p = some ((tokens f p).map ofTok)
  | 0, _ => by simp [loop, tokens]
  | _ + 1, [] => by simp [loop, tokens]
  | f + 1, c :: r => by
    rw [loop.eq_def, tokens.eq_def]
    simp only
    by_cases h1 : c = '*'
    · simp only [h1, if_true]
      cases r with
      | nil => simp [loop_eq f [], tokens_nil, ofTok]
      | cons d r' =>
        by_cases h2 : d = '*'
        · simp [h2, loop_eq f r', ofTok]
        · simp [h2, loop_eq f (d :: r'), ofTok]
    · by_cases h2 : c = '?'
      · simp [h2, loop_eq f r, ofTok]
      · by_cases h3 : c = '['
        · subst h3
          simp only [bracket_eq]
          simp only [show ¬ ('[' = '*') by decide, show ¬ ('[' = '?') by decide, if_true, if_false]
          cases hcb : closeBracket (if r.head? = some '!' then r.tail else r) with
          | none => simp [loop_eq f r, ofTok]
          | some sa =>
            obtain ⟨seq, after⟩ := sa
            have hinv := (closeBracket_inv hcb).1
            have hfix := fixHead_stuff _ seq hinv
            simp only [decide_eq_true_eq] at hfix
            simp [hfix, loop_eq f after, ofTok]
        · simp [h1, h2, h3, loop_eq f r, ofTok]

/-- `translate` never raises `IndexError` (`stuff[0]` is always there), and what it writes is,
token by token, the regex for the manual's reading of the pattern -/
theorem translate_total (p : List Char) : translate p = some ((patTokens p).map ofTok) :=
  loop_eq p.length p


/-! ## acceptance by the written regex = the manual's meaning -/

theorem all_true : ∀ l : List Char, (l.all fun _ => true) = true
  | [] => rfl
  | _ :: l => by simp [all_true l]

theorem atomOk_ofTok (t : GTok) (h : TokInv t) : atomOk (ofTok t) = tokOk t := by
  cases t with
  | cls neg seq => exact parseSet_isSome neg seq h
  | _ => rfl

theorem compiles_map : ∀ (ts : List GTok), (∀ t ∈ ts, TokInv t) →
    compiles (ts.map ofTok) = ts.all tokOk
  | [], _ => rfl
  | t :: ts, h => by
    have ih := compiles_map ts (fun x hx => h x (List.mem_cons_of_mem _ hx))
    simp only [compiles] at ih
    simp [compiles, atomOk_ofTok t (h t (by simp)), ih]

theorem matchA_map : ∀ (ts : List GTok) (n : List Char),
    (∀ t ∈ ts, TokInv t) → ts.all tokOk = true → matchA (ts.map ofTok) n = specMatch ts n
  | [], n, _, _ => rfl
  | t :: ts, n, hinv, hok => by
    have hinv' : ∀ x ∈ ts, TokInv x := fun x hx => hinv x (List.mem_cons_of_mem _ hx)
    have hok' : ts.all tokOk = true := by
      simp only [List.all_cons, Bool.and_eq_true] at hok; exact hok.2
    have ih := fun n => matchA_map ts n hinv' hok'
    have ihf : matchA (ts.map ofTok) = specMatch ts := funext ih
    cases t with
    | star =>
      simp only [List.map_cons, ofTok, matchA, specMatch, ihf, starLazy_splits]
    | dstar =>
      simp only [List.map_cons, ofTok, matchA, specMatch, ihf, starLazy_splits]
      simp only [all_true, Bool.true_and]
    | one => cases n <;> simp [ofTok, matchA, specMatch, ih]
    | ch c => cases n <;> simp [ofTok, matchA, specMatch, ih]
    | cls neg seq =>
      have hd : descending seq = false := by
        simp only [List.all_cons, Bool.and_eq_true, tokOk, Bool.not_eq_true'] at hok
        exact hok.1
      have hs := fun x => setHas_bodyOf neg seq (hinv (.cls neg seq) (by simp)) x hd
      cases n <;> simp [ofTok, matchA, specMatch, ih, hs]

/-- **Translation correctness.**  For every pattern and every name: whenever `re.compile`
accepts the text `translate` writes, `re.compile(translate(pat)).match(name)` succeeds exactly when
the name matches the pattern as the manual says. -/
theorem translate_correct (p n : List Char) (h : compilesPat p = true) :
    matchesPat p n = spec p n := by
  have hinv : ∀ t ∈ patTokens p, TokInv t := tokens_inv p.length p
  simp only [compilesPat, translate_total p] at h
  rw [compiles_map _ hinv] at h
  simp only [matchesPat, translate_total p, spec]
  exact matchA_map _ n hinv h

/-- **Which patterns `re` refuses.**  The written text compiles exactly when no bracket
expression of the pattern holds a range that runs backwards (`[b-a]`, `[a--]`, `[_-.]`). -/
theorem compiles_iff (p : List Char) : compilesPat p = wellFormed p := by
  simp only [compilesPat, translate_total p, wellFormed]
  exact compiles_map _ (tokens_inv p.length p)

/-
Full statement, false of the current code: every pattern is usable,
    ∀ p, compilesPat p = true          (equivalently ∀ p n, ∃ b, qnmatch n p = .ok b).
-/
theorem compiles_counterexample : compilesPat ['[', 'b', '-', 'a', ']'] = false := by decide

/-- what `qnmatch(name, pattern)` returns for a pattern without a backwards range: the manual's
meaning; in particular it raises nothing -/
theorem qnmatch_partial (p n : List Char) (h : wellFormed p = true) :
    qnmatch n p = .ok (spec p n) := by
  have hc : compilesPat p = true := by rw [compiles_iff]; exact h
  have hm := translate_correct p n hc
  simp only [compilesPat, matchesPat, translate_total p] at hc hm
  simp [qnmatch, translate_total p, hc, hm]

/-- `qnmatch('a', '[b-a]')` raises `re.error` -/
theorem qnmatch_counterexample : qnmatch ['a'] ['[', 'b', '-', 'a', ']'] = .reError := by decide

/-- non-vacuity: a pattern with every construct, a name it matches and one it does not -/
example : wellFormed ['a', '*', '.', '*', '*', '[', '!', '_', ']', '?', '[', 'a', '-', 'c', ']'] = true ∧
    qnmatch ['a', 'b', '.', 'x', '.', 'y', 'z', '.', 'b'] ['a', '*', '.', '*', '*', '[', '!', '_', ']', '?', '[', 'a', '-', 'c', ']'] = .ok true ∧
    qnmatch ['a', '.', 'b', '.', '_', 'z', 'b'] ['a', '*', '.', '*', '*', '[', '!', '_', ']', '?', '[', 'a', '-', 'c', ']'] = .ok false := by
  decide

/-! ### the declarative reading of the two stars -/

/-- `*` stands for any run of characters without a dot -/
theorem star_meaning (ts : List GTok) (n : List Char) :
    specMatch (.star :: ts) n = true ↔
      ∃ u v, n = u ++ v ∧ '.' ∉ u ∧ specMatch ts v = true := by
  simp only [specMatch, List.any_eq_true, Bool.and_eq_true, List.all_eq_true, bne_iff_ne, ne_eq]
  constructor
  · rintro ⟨⟨u, v⟩, hm, h1, h2⟩
    exact ⟨u, v, ((mem_splits n u v).mp hm).symm, fun hin => h1 _ hin rfl, h2⟩
  · rintro ⟨u, v, rfl, h1, h2⟩
    exact ⟨(u, v), (mem_splits _ u v).mpr rfl, fun x hx e => h1 (e ▸ hx), h2⟩

/-- `**` stands for any run of characters -/
theorem dstar_meaning (ts : List GTok) (n : List Char) :
    specMatch (.dstar :: ts) n = true ↔ ∃ u v, n = u ++ v ∧ specMatch ts v = true := by
  simp only [specMatch, List.any_eq_true]
  constructor
  · rintro ⟨⟨u, v⟩, hm, h2⟩
    exact ⟨u, v, ((mem_splits n u v).mp hm).symm, h2⟩
  · rintro ⟨u, v, rfl, h2⟩
    exact ⟨(u, v), (mem_splits _ u v).mpr rfl, h2⟩

/-- the fuel (pattern length) given to the manual-side scanner is enough: more changes nothing -/
theorem tokens_fuel : ∀ (f g : Nat) (p : List Char), p.length ≤ f → p.length ≤ g →
    tokens f p = tokens g p
  | 0, g, p, hf, _ => by
    have : p = [] := List.eq_nil_of_length_eq_zero (by omega)
    subst this; simp [tokens_nil]
  | f + 1, 0, p, _, hg => by
    have : p = [] := List.eq_nil_of_length_eq_zero (by omega)
    subst this; simp [tokens_nil]
  | f + 1, g + 1, [], _, _ => rfl
  | f + 1, g + 1, c :: r, hf, hg => by
    simp only [List.length_cons] at hf hg
    rw [tokens.eq_def, tokens.eq_def (g + 1)]
    simp only
    have ih := fun q (h1 : q.length ≤ f) (h2 : q.length ≤ g) => tokens_fuel f g q h1 h2
    split
    · cases r with
      | nil => rfl
      | cons d r' =>
        simp only [List.length_cons] at hf hg
        simp only
        split
        · rw [ih r' (by omega) (by omega)]
        · rw [ih (d :: r') (by simp; omega) (by simp; omega)]
    · split
      · rw [ih r (by omega) (by omega)]
      · split
        · cases hcb : closeBracket (if r.head? = some '!' then r.tail else r) with
          | none => dsimp only; rw [ih r (by omega) (by omega)]
          | some sa =>
            obtain ⟨seq, after⟩ := sa
            have hl := (closeBracket_inv hcb).2
            dsimp only
            rw [ih after (by omega) (by omega)]
        · rw [ih r (by omega) (by omega)]

end Glob

/-! ## Privacy: precedence of the rules, the default, the cache -/
namespace Privacy

theorem startsWith_iff : ∀ (p s : List Char), startsWith p s = true ↔ p <+: s
  | [], s => by simp [startsWith]
  | _ :: _, [] => by simp [startsWith]
  | a :: p, c :: s => by
    simp [startsWith, startsWith_iff p s, List.cons_prefix_cons]

theorem endsWith_iff (p s : List Char) : endsWith p s = true ↔ p <:+ s := by
  simp [endsWith, startsWith_iff, List.reverse_prefix]

/-- **The default.**  Without an applicable rule an object is PRIVATE exactly when its name
begins with an underscore and is not a dunder — a dunder being a name of at least four characters
that begins with two underscores and ends with two underscores (`__*__`; since 2e9a6af). -/
theorem default_meaning (name : List Char) :
    defaultLevel name = .priv ↔
      (['_'] <+: name ∧ ¬ (4 ≤ name.length ∧ ['_', '_'] <+: name ∧ ['_', '_'] <:+ name)) := by
  simp only [defaultLevel]
  by_cases h1 : startsWith ['_'] name = true <;> by_cases hl : 4 ≤ name.length <;>
    by_cases h2 : startsWith ['_', '_'] name = true <;> by_cases h3 : endsWith ['_', '_'] name = true <;>
    simp [h1, hl, h2, h3, ← startsWith_iff, ← endsWith_iff]

example : defaultLevel ['_', 'x'] = .priv ∧ defaultLevel ['_', '_', 'x', '_', '_'] = .pub ∧
    defaultLevel ['x'] = .pub ∧ defaultLevel ['_', '_', 'x'] = .priv ∧ defaultLevel ['_'] = .priv ∧
    defaultLevel ['_', '_'] = .priv ∧ defaultLevel ['_', '_', '_'] = .priv ∧
    defaultLevel ['_', '_', '_', '_'] = .pub := by decide

/-- **The whole default** (as customize.rst states it since c8d85b0): PRIVATE for a name with a
leading underscore that is not a dunder, and for a module named `__main__`; PUBLIC otherwise. -/
theorem defaultOf_meaning (ob : Obj) :
    defaultOf ob = .priv ↔
      ((['_'] <+: ob.name ∧ ¬ (4 ≤ ob.name.length ∧ ['_', '_'] <+: ob.name ∧ ['_', '_'] <:+ ob.name)) ∨
        (ob.isModule = true ∧ ob.name = mainName)) := by
  rw [← default_meaning]
  simp only [defaultOf]
  by_cases h1 : defaultLevel ob.name = .priv
  · simp [h1]
  · by_cases h2 : (ob.isModule && ob.name = mainName) = true
    · simp only [h1, if_false, h2, if_true, false_or, true_iff]
      simpa using h2
    · simp only [h1, if_false, h2, false_or]
      constructor
      · intro h; cases h
      · intro h; exact absurd (by simpa using h) h2

theorem defaultOf_pub_or_priv (ob : Obj) : defaultOf ob = .priv ∨ defaultOf ob = .pub := by
  simp only [defaultOf]
  split
  · exact Or.inl rfl
  · split
    · exact Or.inl rfl
    · exact Or.inr rfl

example : defaultOf ⟨['p', '.'] ++ mainName, mainName, true, false, true⟩ = .priv ∧
    defaultOf ⟨['C', '.'] ++ mainName, mainName, false, false, true⟩ = .pub := by decide

theorem findExact_append (xs : List Rule) (r : Rule) (ys : List Rule) (fn : List Char)
    (hx : ∀ x ∈ xs, x.pat ≠ fn) (hr : r.pat = fn) :
    findExact (xs ++ r :: ys) fn = some r.level := by
  induction xs with
  | nil => simp [findExact, hr]
  | cons x xs ih =>
    have h1 : ¬ fn = x.pat := fun e => hx x (by simp) e.symm
    simp only [List.cons_append, findExact, h1, if_false]
    exact ih (fun y hy => hx y (List.mem_cons_of_mem _ hy))

theorem findExact_none (rs : List Rule) (fn : List Char) (h : ∀ x ∈ rs, x.pat ≠ fn) :
    findExact rs fn = none := by
  induction rs with
  | nil => rfl
  | cons x xs ih =>
    have h1 : ¬ fn = x.pat := fun e => h x (by simp) e.symm
    simp only [findExact, h1, if_false]
    exact ih (fun y hy => h y (List.mem_cons_of_mem _ hy))

theorem findPattern_append (xs : List Rule) (r : Rule) (ys : List Rule) (fn : List Char)
    (hx : ∀ x ∈ xs, Glob.qnmatch fn x.pat = .ok false) (hr : Glob.qnmatch fn r.pat = .ok true) :
    findPattern (xs ++ r :: ys) fn = .found r.level := by
  induction xs with
  | nil => simp [findPattern, hr]
  | cons x xs ih =>
    simp only [List.cons_append, findPattern, hx x (by simp)]
    exact ih (fun y hy => hx y (List.mem_cons_of_mem _ hy))

theorem findPattern_none (rs : List Rule) (fn : List Char)
    (h : ∀ x ∈ rs, Glob.qnmatch fn x.pat = .ok false) : findPattern rs fn = .notFound := by
  induction rs with
  | nil => rfl
  | cons x xs ih =>
    simp only [findPattern, h x (by simp)]
    exact ih (fun y hy => h y (List.mem_cons_of_mem _ hy))

/-- **An exact rule beats every pattern rule, and the last exact rule wins.**  If `r` is the last
rule whose text equals the qualified name, the object gets `r`'s level — whatever the other
rules are (patterns that match, patterns that `re` refuses, earlier exact rules). -/
theorem exact_wins (pre post : List Rule) (r : Rule) (ob : Obj)
    (hr : r.pat = ob.fullName) (hpost : ∀ x ∈ post, x.pat ≠ ob.fullName) :
    decide (pre ++ r :: post) ob = .ok r.level := by
  have : (pre ++ r :: post).reverse = post.reverse ++ r :: pre.reverse := by simp
  simp only [decide, this]
  rw [findExact_append _ r _ _ (fun x hx => hpost x (List.mem_reverse.mp hx)) hr]

/-- **Among pattern rules the last one that matches wins** (when no rule is exact). -/
theorem last_pattern_wins (pre post : List Rule) (r : Rule) (ob : Obj)
    (hex : ∀ x ∈ pre ++ r :: post, x.pat ≠ ob.fullName)
    (hr : Glob.qnmatch ob.fullName r.pat = .ok true)
    (hpost : ∀ x ∈ post, Glob.qnmatch ob.fullName x.pat = .ok false) :
    decide (pre ++ r :: post) ob = .ok r.level := by
  have hrev : (pre ++ r :: post).reverse = post.reverse ++ r :: pre.reverse := by simp
  have hn := findExact_none (pre ++ r :: post).reverse ob.fullName
    (fun x hx => hex x (List.mem_reverse.mp hx))
  simp only [decide, hn]
  rw [hrev, findPattern_append _ r _ _ (fun x hx => hpost x (List.mem_reverse.mp hx)) hr]

/-- **No rule applies: the default.** -/
theorem default_applies (rules : List Rule) (ob : Obj)
    (h : ∀ x ∈ rules, x.pat ≠ ob.fullName ∧ Glob.qnmatch ob.fullName x.pat = .ok false) :
    decide rules ob = .ok (defaultOf ob) := by
  have hn := findExact_none rules.reverse ob.fullName (fun x hx => (h x (List.mem_reverse.mp hx)).1)
  have hp := findPattern_none rules.reverse ob.fullName (fun x hx => (h x (List.mem_reverse.mp hx)).2)
  simp [decide, hn, hp]

example : decide [⟨.hidden, ['m', '.', '*']⟩, ⟨.pub, ['m', '.', 'a']⟩, ⟨.priv, ['*', '*']⟩]
    ⟨['m', '.', 'a'], ['a'], false, false, true⟩ = .ok .pub := by decide
example : decide [⟨.hidden, ['m', '.', '*']⟩, ⟨.priv, ['*', '*']⟩]
    ⟨['m', '.', 'a'], ['a'], false, false, true⟩ = .ok .priv := by decide
example : decide [⟨.hidden, ['x', '.', '*']⟩] ⟨['m', '.', '_', 'a'], ['_', 'a'], false, false, true⟩ = .ok .priv := by
  decide

/-! ### the whole decision against the property's statement -/

/-- The default as the manual words it: PRIVATE for a name that starts with an underscore and is
not a dunder, a dunder being what the manual's own pattern `__*__` ("PRIVATE:**.__*__ makes all
dunder methods private") describes: two underscores, anything, two underscores — at least four
characters.  `__` and `___` are therefore not dunders. -/
def manualDefault (name : List Char) : Level :=
  if startsWith ['_'] name &&
      !(Decidable.decide (4 ≤ name.length) && startsWith ['_', '_'] name && endsWith ['_', '_'] name) then .priv
  else .pub

/-- … and, since c8d85b0, PRIVATE for a module named `__main__` -/
def manualDefaultOf (ob : Obj) : Level :=
  if manualDefault ob.name = .priv then .priv
  else if ob.isModule && ob.name = mainName then .priv
  else .pub

/-- since 2e9a6af the code's default is the manual's, for every name -/
theorem defaultLevel_eq_manual (name : List Char) : defaultLevel name = manualDefault name := rfl

theorem defaultOf_eq_manual (ob : Obj) : defaultOf ob = manualDefaultOf ob := rfl

/-- historical: before 2e9a6af `__` and `___` were PUBLIC, the manual says PRIVATE (finding
`default:underscore-only-name-public`, fixed) -/
theorem default_counterexample_before_2e9a6af :
    defaultLevelBefore_2e9a6af ['_', '_'] = .pub ∧ manualDefault ['_', '_'] = .priv ∧
    defaultLevelBefore_2e9a6af ['_', '_', '_'] = .pub ∧ manualDefault ['_', '_', '_'] = .priv ∧
    defaultLevelBefore_2e9a6af ['_', '_', '_', '_'] = manualDefault ['_', '_', '_', '_'] := by decide

/-- The property's statement, written on its own: the last rule whose text is the qualified name;
failing that the last rule whose pattern matches (in the manual's sense); failing that the
default (`defaultOf`: underscore rule, modules named `__main__`). -/
def specLevel (rules : List Rule) (ob : Obj) : Level :=
  match (rules.filter (fun r => r.pat = ob.fullName)).getLast? with
  | some r => r.level
  | none =>
    match (rules.filter (fun r => Glob.spec r.pat ob.fullName)).getLast? with
    | some r => r.level
    | none => manualDefaultOf ob

theorem findExact_eq (rs : List Rule) (fn : List Char) :
    findExact rs fn = ((rs.filter (fun r => r.pat = fn)).head?).map (·.level) := by
  induction rs with
  | nil => rfl
  | cons x xs ih =>
    by_cases h : fn = x.pat
    · simp [findExact, h]
    · have h' : ¬ x.pat = fn := fun e => h e.symm
      simp [findExact, h, h', ih]

theorem findPattern_eq (rs : List Rule) (fn : List Char)
    (hw : ∀ x ∈ rs, Glob.wellFormed x.pat = true) :
    findPattern rs fn =
      match (rs.filter (fun r => Glob.spec r.pat fn)).head? with
      | some r => .found r.level
      | none => .notFound := by
  induction rs with
  | nil => rfl
  | cons x xs ih =>
    have hq := Glob.qnmatch_partial x.pat fn (hw x (by simp))
    have ih' := ih (fun y hy => hw y (List.mem_cons_of_mem _ hy))
    cases hs : Glob.spec x.pat fn with
    | true => simp [findPattern, hq, hs]
    | false => simp [findPattern, hq, hs, ih']

/-
Full statement, false of the current code:
    ∀ rules ob, (privacyClass rules [] ob).1 = .ok (specLevel rules ob)
It fails (a) for rule lists written into `options.privacy` by hand when a rule's pattern holds a
backwards range and is reached (`precedence_counterexample`); (b) for an object whose `kind` is
`None` — HIDDEN before name and rules are looked at (`precedence_counterexample_kindNone`; since
6778a0a only a `@type`-only pseudo attribute is in that state: finding `kind-none-hidden:type-field-only`).
(Until 2e9a6af it also failed for the names `__` and `___`: `default_counterexample_before_2e9a6af`;
until c8d85b0 for a module named `__main__`: `main_module_counterexample_before_c8d85b0`.)
-/
/-- **Precedence, as a whole.**  With rule patterns that `re` accepts the privacy class computed is
the one the property states, for every object that has a kind. -/
theorem precedence_partial (rules : List Rule) (ob : Obj)
    (hw : ∀ x ∈ rules, Glob.wellFormed x.pat = true) (hk : ob.kindNone = false) :
    (privacyClass rules [] ob).1 = .ok (specLevel rules ob) := by
  have hw' : ∀ x ∈ rules.reverse, Glob.wellFormed x.pat = true :=
    fun x hx => hw x (List.mem_reverse.mp hx)
  simp only [privacyClass, systemPrivacyClass, lookup, hk, decide, findExact_eq,
    findPattern_eq _ _ hw', List.filter_reverse, List.head?_reverse, specLevel]
  cases (rules.filter (fun r => r.pat = ob.fullName)).getLast? with
  | some r => simp
  | none =>
    cases (rules.filter (fun r => Glob.spec r.pat ob.fullName)).getLast? with
    | some r => simp
    | none => simp [defaultOf_eq_manual ob]

/-- (b) an object whose `kind` is `None` (a `@type`-only pseudo attribute): HIDDEN although
`PUBLIC:m.x` names it exactly -/
theorem precedence_counterexample_kindNone :
    (privacyClass [⟨.pub, ['m', '.', 'x']⟩] [] ⟨['m', '.', 'x'], ['x'], false, true, true⟩).1 = .ok .hidden ∧
    specLevel [⟨.pub, ['m', '.', 'x']⟩] ⟨['m', '.', 'x'], ['x'], false, true, true⟩ = .pub := by decide

/-- `mod.__` without any rule is PRIVATE now, as the manual says -/
theorem underscores_private :
    (privacyClass [] [] ⟨['m', '.', '_', '_'], ['_', '_'], false, false, true⟩).1 = .ok .priv ∧
    specLevel [] ⟨['m', '.', '_', '_'], ['_', '_'], false, false, true⟩ = .priv := by decide

theorem precedence_counterexample :
    (privacyClass [⟨.hidden, ['[', 'b', '-', 'a', ']']⟩] [] ⟨['a'], ['a'], false, false, true⟩).1
      = .err .reError := by decide

/-- a rule now reaches a module named `__main__` … -/
theorem main_module_rule_applies :
    (privacyClass [⟨.hidden, ['p', '.'] ++ mainName⟩] [] ⟨['p', '.'] ++ mainName, mainName, true, false, true⟩).1
        = .ok .hidden ∧
    (privacyClass [] [] ⟨['p', '.'] ++ mainName, mainName, true, false, true⟩).1 = .ok .priv := by decide

/-- … historical: before c8d85b0 `HIDDEN:p.__main__` left `p.__main__` PRIVATE (finding
`main-module:rule-ignored`, fixed) -/
theorem main_module_counterexample_before_c8d85b0 :
    privacyClassBefore_c8d85b0 [⟨.hidden, ['p', '.'] ++ mainName⟩] ⟨['p', '.'] ++ mainName, mainName, true, false, true⟩
        = .ok .priv ∧
      specLevel [⟨.hidden, ['p', '.'] ++ mainName⟩] ⟨['p', '.'] ++ mainName, mainName, true, false, true⟩
        = .hidden := by decide

/-! ### rule lists that come from the command line

Since "fix: reject a --privacy pattern that does not translate to a valid regular expression when
parsing the option", `parse_privacy_tuple` compiles the pattern and refuses it with the usual
option error: a backwards range can no longer reach `System.privacyClass` from `--privacy`.
(`qnmatch.qnmatch` called directly still raises: `Glob.qnmatch_counterexample`,
`precedence_counterexample` above are about rule lists put into `options.privacy` by hand.) -/

/-- a value that passes `parse_privacy_tuple` carries a pattern `re` accepts -/
theorem parseRule_wellFormed (v : List Char) (r : Rule) (h : parseRule v = .ok r) :
    Glob.wellFormed r.pat = true := by
  simp only [parseRule] at h
  split at h
  · split at h
    · cases h
    · split at h
      · cases h
      · rename_i as ht
        split at h
        · rename_i hc
          simp only [Parsed.ok.injEq] at h
          subst h
          rw [← Glob.compiles_iff]
          simp [Glob.compilesPat, ht, hc]
        · cases h
  · cases h

/-- every rule of a list that `_convert_privacy` lets through is well formed -/
theorem cli_rules_wellFormed : ∀ (vs : List (List Char)) (rules : List Rule),
    parseRules vs = .ok rules → ∀ r ∈ rules, Glob.wellFormed r.pat = true
  | [], rules, h => by
    simp only [parseRules, Parsed.ok.injEq] at h
    subst h; simp
  | v :: vs, rules, h => by
    simp only [parseRules] at h
    cases hv : parseRule v with
    | systemExit => simp [hv] at h
    | indexError => simp [hv] at h
    | ok r =>
      simp only [hv] at h
      cases hvs : parseRules vs with
      | systemExit => simp [hvs] at h
      | indexError => simp [hvs] at h
      | ok rs =>
        simp only [hvs, Parsed.ok.injEq] at h
        subst h
        intro x hx
        rcases List.mem_cons.mp hx with rfl | hx
        · exact parseRule_wellFormed v x hv
        · exact cli_rules_wellFormed vs rs hvs x hx

/-
Full statement, false of the current code (see `precedence_partial`, case (b)):
    parseRules vs = .ok rules → (privacyClass rules [] ob).1 = .ok (specLevel rules ob)
-/
/-- **Precedence for every `--privacy` list the option parser accepts**: no hypothesis on the
patterns or the names; excluded are only objects whose `kind` is `None` (open finding
`kind-none-hidden:type-field-only`). -/
theorem precedence_cli_partial (vs : List (List Char)) (rules : List Rule) (ob : Obj)
    (h : parseRules vs = .ok rules) (hk : ob.kindNone = false) :
    (privacyClass rules [] ob).1 = .ok (specLevel rules ob) :=
  precedence_partial rules ob (cli_rules_wellFormed vs rules h) hk

/-- **With a `--privacy` list the option parser accepts, `privacyClass` never raises** — for any
object and any cache state (the `re.error` of the former finding is unreachable from the CLI). -/
theorem cli_never_raises (vs : List (List Char)) (rules : List Rule) (h : parseRules vs = .ok rules)
    (c : Cache) (ob : Obj) : ∃ l, (privacyClass rules c ob).1 = .ok l := by
  have hw : ∀ x ∈ rules.reverse, Glob.wellFormed x.pat = true :=
    fun x hx => cli_rules_wellFormed vs rules h x (List.mem_reverse.mp hx)
  simp only [privacyClass]
  · simp only [systemPrivacyClass]
    split
    · exact ⟨_, rfl⟩
    · split
      · exact ⟨_, rfl⟩
      · have hd : ∃ l, decide rules ob = .ok l := by
          simp only [decide, findPattern_eq _ _ hw]
          cases findExact rules.reverse ob.fullName with
          | some l => exact ⟨l, rfl⟩
          | none =>
            cases (rules.reverse.filter (fun r => Glob.spec r.pat ob.fullName)).head? with
            | some r => exact ⟨r.level, rfl⟩
            | none => exact ⟨_, rfl⟩
        obtain ⟨l, hl⟩ := hd
        exact ⟨l, by simp [hl]⟩

example : parseRules [['H', 'I', 'D', 'D', 'E', 'N', ':', 'm', '.', '[', 'a', '-', 'b', ']', '*']]
    = .ok [⟨.hidden, ['m', '.', '[', 'a', '-', 'b', ']', '*']⟩] := by decide
/-- `--privacy=HIDDEN:m.[b-a]*` is refused when the option is parsed -/
theorem cli_rejects_backwards_range :
    parseRules [['H', 'I', 'D', 'D', 'E', 'N', ':', 'm', '.', '[', 'b', '-', 'a', ']', '*']]
      = .systemExit := by decide

/-! ### the cache -/

theorem lookup_append (c : Cache) (k fn : List Char) (l : Level) :
    lookup (c ++ [(fn, l)]) k =
      match lookup c k with
      | some v => some v
      | none => if fn = k then some l else none := by
  induction c with
  | nil => simp [lookup]
  | cons kv c ih =>
    obtain ⟨k', v⟩ := kv
    by_cases h : k' = k
    · simp [lookup, h]
    · simp [lookup, h, ih]

/-- one qualified name always denotes objects with the same `name`, module-ness and kind: all that
`privacyClass` reads besides the qualified name (`inContents` is not read) -/
def Coherent (U : List Obj) : Prop :=
  ∀ a ∈ U, ∀ b ∈ U, a.fullName = b.fullName →
    a.name = b.name ∧ a.isModule = b.isModule ∧ a.kindNone = b.kindNone

theorem privacyClass_congr (rules : List Rule) (a b : Obj) (hf : a.fullName = b.fullName)
    (hn : a.name = b.name) (hm : a.isModule = b.isModule) (hk : a.kindNone = b.kindNone) :
    (privacyClass rules [] a).1 = (privacyClass rules [] b).1 := by
  simp only [privacyClass, systemPrivacyClass, lookup, decide, defaultOf, hf, hn, hm, hk]

/-- every cache entry is the answer the rules give, for every object of `U` with that name -/
def CacheOk (rules : List Rule) (U : List Obj) (c : Cache) : Prop :=
  ∀ fn l, lookup c fn = some l → ∀ ob ∈ U, ob.fullName = fn → (privacyClass rules [] ob).1 = .ok l

theorem privacyClass_cached (rules : List Rule) (U : List Obj) (hU : Coherent U)
    (c : Cache) (hc : CacheOk rules U c) (ob : Obj) (hob : ob ∈ U) :
    (privacyClass rules c ob).1 = (privacyClass rules [] ob).1 ∧
      CacheOk rules U (privacyClass rules c ob).2 := by
  · simp only [privacyClass]
    cases hl : lookup c ob.fullName with
    | some l =>
      have := hc _ l hl ob hob rfl
      simp only [privacyClass] at this
      simp only [systemPrivacyClass, hl]
      exact ⟨this.symm, hc⟩
    | none =>
      by_cases hk : ob.kindNone = true
      · simp [systemPrivacyClass, hl, lookup, hk, hc]
      · cases hd : decide rules ob with
        | err e => simp [systemPrivacyClass, hl, lookup, hk, hd, hc]
        | ok l =>
          refine ⟨by simp [systemPrivacyClass, hl, lookup, hk, hd], ?_⟩
          simp only [systemPrivacyClass, hl, hk, if_false, Bool.false_eq_true, hd]
          intro fn l' hlk ob' hob' hfn
          rw [lookup_append] at hlk
          cases hl' : lookup c fn with
          | some v =>
            simp only [hl'] at hlk
            exact hc fn l' (by rw [hl', hlk]) ob' hob' hfn
          | none =>
            simp only [hl'] at hlk
            by_cases he : ob.fullName = fn
            · simp only [he, if_true, Option.some.injEq] at hlk
              obtain ⟨h1, h2, h3⟩ := hU ob' hob' ob hob (by rw [hfn, he])
              rw [privacyClass_congr rules ob' ob (by rw [hfn, he]) h1 h2 h3]
              subst hlk
              simp [privacyClass, systemPrivacyClass, lookup, hk, hd]
            · simp [he] at hlk

theorem run_cached (rules : List Rule) (U : List Obj) (hU : Coherent U) :
    ∀ (qs : List Obj) (c : Cache), (∀ q ∈ qs, q ∈ U) → CacheOk rules U c →
      (run rules c qs).1 = qs.map (fun ob => (privacyClass rules [] ob).1)
  | [], _, _, _ => rfl
  | q :: qs, c, hq, hc => by
    obtain ⟨h1, h2⟩ := privacyClass_cached rules U hU c hc q (hq q (by simp))
    have ih := run_cached rules U hU qs (privacyClass rules c q).2
      (fun x hx => hq x (List.mem_cons_of_mem _ hx)) h2
    simp only [run, List.map_cons]
    rw [← h1, ← ih]

theorem cacheOk_nil (rules : List Rule) (U : List Obj) : CacheOk rules U [] :=
  fun _ _ h => by simp [lookup] at h

/-
Full statement, false of the model (and of the code, for objects built by hand):
    ∀ rules qs, (run rules [] qs).1 = qs.map (fun ob => (privacyClass rules [] ob).1)
The cache is keyed by qualified name alone, the answer also reads `ob.name` and `ob.kind`.
-/
/-- **The cache is transparent.**  For any rule list and any query history — any objects, any
order, any repetitions — in which one qualified name always denotes objects with the same `name`
and kind, every answer is the one a cache-less computation gives. -/
theorem cache_transparent (rules : List Rule) (qs : List Obj) (hU : Coherent qs) :
    (run rules [] qs).1 = qs.map (fun ob => (privacyClass rules [] ob).1) :=
  run_cached rules qs hU qs [] (fun _ h => h) (cacheOk_nil rules qs)

/-! ### … and stays transparent when objects are moved -/

theorem isPrivate_cached (rules : List Rule) (U : List Obj) (hU : Coherent U)
    (c : Cache) (hc : CacheOk rules U c) (ob : Obj) (hob : ob ∈ U) :
    (isPrivate rules c ob).1 = (isPrivate rules [] ob).1 ∧ CacheOk rules U (isPrivate rules c ob).2 := by
  obtain ⟨h1, h2⟩ := privacyClass_cached rules U hU c hc ob hob
  simp only [isPrivate]
  cases hp : privacyClass rules c ob with
  | mk r c' =>
    cases hq : privacyClass rules [] ob with
    | mk r' c'' =>
      rw [hp, hq] at h1; rw [hp] at h2
      simp only at h1 h2; subst h1
      cases r <;> exact ⟨rfl, h2⟩

theorem isVisible_cached (rules : List Rule) (U : List Obj) (hU : Coherent U) :
    ∀ (chain : List Obj) (c : Cache), (∀ o ∈ chain, o ∈ U) → CacheOk rules U c →
      (isVisible rules c chain).1 = visPure rules chain ∧ CacheOk rules U (isVisible rules c chain).2
  | [], c, _, hc => ⟨rfl, hc⟩
  | ob :: parents, c, hch, hc => by
    obtain ⟨h1, h2⟩ := privacyClass_cached rules U hU c hc ob (hch ob (by simp))
    have ih := isVisible_cached rules U hU parents (privacyClass rules c ob).2
      (fun o ho => hch o (List.mem_cons_of_mem _ ho)) h2
    rw [isVisible, visPure.eq_def]
    cases hp : privacyClass rules c ob with
    | mk r c' =>
      rw [hp] at h1 h2 ih
      simp only at h1 h2 ih
      dsimp only
      rw [← h1]
      cases r with
      | err e => exact ⟨rfl, h2⟩
      | ok l =>
        by_cases hl : l = .hidden
        · subst hl; exact ⟨rfl, h2⟩
        · cases parents with
          | nil => simp only [ne_eq, hl, not_false_eq_true, if_true]; exact ⟨trivial, h2⟩
          | cons p ps =>
            simp only [ne_eq, hl, not_false_eq_true, if_true]
            by_cases hcn : ob.inContents = true
            · simp only [hcn, if_true]; exact ih
            · simp only [hcn, if_false, Bool.false_eq_true]; exact ⟨trivial, h2⟩

theorem mem_setObj : ∀ (w : World) (i : Nat) (o x : Obj), x ∈ setObj w i o → x ∈ w ∨ x = o
  | [], _, _, _, h => by simp [setObj] at h
  | _ :: w, 0, o, x, h => by
    simp only [setObj, List.mem_cons] at h
    rcases h with h | h
    · exact Or.inr h
    · exact Or.inl (List.mem_cons_of_mem _ h)
  | y :: w, i + 1, o, x, h => by
    simp only [setObj, List.mem_cons] at h
    rcases h with h | h
    · exact Or.inl (by simp [h])
    · rcases mem_setObj w i o x h with h | h
      · exact Or.inl (List.mem_cons_of_mem _ h)
      · exact Or.inr h

theorem mem_applyMove : ∀ (upd : List (Nat × Obj)) (w : World) (x : Obj),
    x ∈ applyMove w upd → x ∈ w ∨ ∃ p ∈ upd, x = p.2
  | [], w, x, h => Or.inl h
  | (i, o) :: u, w, x, h => by
    rcases mem_applyMove u (setObj w i o) x h with h | ⟨p, hp, e⟩
    · rcases mem_setObj w i o x h with h | h
      · exact Or.inl h
      · exact Or.inr ⟨(i, o), by simp, h⟩
    · exact Or.inr ⟨p, List.mem_cons_of_mem _ hp, e⟩

theorem mem_getChain (w : World) (ids : List Nat) (o : Obj) (h : o ∈ getChain w ids) : o ∈ w := by
  simp only [getChain, List.mem_filterMap] at h
  obtain ⟨i, _, hi⟩ := h
  exact List.mem_of_getElem? hi

theorem runEvents_cached (rules : List Rule) (U : List Obj) (hU : Coherent U) :
    ∀ (es : List Event) (w : World) (c : Cache), (∀ o ∈ w, o ∈ U) →
      (∀ upd, Event.move upd ∈ es → ∀ p ∈ upd, p.2 ∈ U) → CacheOk rules U c →
      (runEvents rules w c es).1 = pureEvents rules w es
  | [], _, _, _, _, _ => rfl
  | .cls i :: es, w, c, hw, hes, hc => by
    have hes' : ∀ upd, Event.move upd ∈ es → ∀ p ∈ upd, p.2 ∈ U :=
      fun upd h => hes upd (List.mem_cons_of_mem _ h)
    simp only [runEvents, pureEvents]
    cases hi : w[i]? with
    | none => simp [runEvents_cached rules U hU es w c hw hes' hc]
    | some ob =>
      obtain ⟨h1, h2⟩ := privacyClass_cached rules U hU c hc ob (hw ob (List.mem_of_getElem? hi))
      simp [runEvents_cached rules U hU es w _ hw hes' h2, h1]
  | .prv i :: es, w, c, hw, hes, hc => by
    have hes' : ∀ upd, Event.move upd ∈ es → ∀ p ∈ upd, p.2 ∈ U :=
      fun upd h => hes upd (List.mem_cons_of_mem _ h)
    simp only [runEvents, pureEvents]
    cases hi : w[i]? with
    | none => simp [runEvents_cached rules U hU es w c hw hes' hc]
    | some ob =>
      obtain ⟨h1, h2⟩ := isPrivate_cached rules U hU c hc ob (hw ob (List.mem_of_getElem? hi))
      simp [runEvents_cached rules U hU es w _ hw hes' h2, h1]
  | .vis ids :: es, w, c, hw, hes, hc => by
    have hes' : ∀ upd, Event.move upd ∈ es → ∀ p ∈ upd, p.2 ∈ U :=
      fun upd h => hes upd (List.mem_cons_of_mem _ h)
    obtain ⟨h1, h2⟩ := isVisible_cached rules U hU (getChain w ids) c
      (fun o ho => hw o (mem_getChain w ids o ho)) hc
    simp [runEvents, pureEvents, runEvents_cached rules U hU es w _ hw hes' h2, h1]
  | .move upd :: es, w, c, hw, hes, hc => by
    have hes' : ∀ upd, Event.move upd ∈ es → ∀ p ∈ upd, p.2 ∈ U :=
      fun upd h => hes upd (List.mem_cons_of_mem _ h)
    have hw' : ∀ o ∈ applyMove w upd, o ∈ U := by
      intro o ho
      rcases mem_applyMove upd w o ho with h | ⟨p, hp, e⟩
      · exact hw o h
      · rw [e]; exact hes upd (by simp) p hp
    simp only [runEvents, pureEvents]
    exact runEvents_cached rules U hU es (applyMove w upd) c hw' hes' hc

/-- every record an object ever has during the history: the initial world and what the moves write -/
def records (w : World) : List Event → List Obj
  | [] => w
  | .move upd :: es => upd.map (·.2) ++ records w es
  | _ :: es => records w es

theorem mem_records_world (w : World) : ∀ (es : List Event) (o : Obj), o ∈ w → o ∈ records w es
  | [], _, h => h
  | .move _ :: es, o, h => List.mem_append_right _ (mem_records_world w es o h)
  | .cls _ :: es, o, h => mem_records_world w es o h
  | .prv _ :: es, o, h => mem_records_world w es o h
  | .vis _ :: es, o, h => mem_records_world w es o h

theorem mem_records_move (w : World) : ∀ (es : List Event) (upd : List (Nat × Obj)),
    Event.move upd ∈ es → ∀ p ∈ upd, p.2 ∈ records w es
  | [], _, h, _, _ => by simp at h
  | .move u :: es, upd, h, p, hp => by
    simp only [List.mem_cons, Event.move.injEq] at h
    rcases h with h | h
    · subst h; exact List.mem_append_left _ (List.mem_map.mpr ⟨p, hp, rfl⟩)
    · exact List.mem_append_right _ (mem_records_move w es upd h p hp)
  | .cls _ :: es, upd, h, p, hp => by
    simp only [List.mem_cons, reduceCtorEq, false_or] at h
    exact mem_records_move w es upd h p hp
  | .prv _ :: es, upd, h, p, hp => by
    simp only [List.mem_cons, reduceCtorEq, false_or] at h
    exact mem_records_move w es upd h p hp
  | .vis _ :: es, upd, h, p, hp => by
    simp only [List.mem_cons, reduceCtorEq, false_or] at h
    exact mem_records_move w es upd h p hp

/-- **The cache stays transparent under moves.**  After any sequence of queries
(`privacyClass`, `isVisible`, `isPrivate`) and moves (`reparent`: a subtree changes its qualified
names), every answer equals the cache-less answer for the record — in particular the *current*
qualified name — the object has at that moment; provided that, over the whole history, one
qualified name always denotes objects with the same `name` and kind. -/
theorem cache_transparent_moves (rules : List Rule) (w : World) (es : List Event)
    (hU : Coherent (records w es)) :
    (runEvents rules w [] es).1 = pureEvents rules w es :=
  runEvents_cached rules (records w es) hU es w [] (mem_records_world w es)
    (mem_records_move w es) (cacheOk_nil rules _)

/-- ask `impl.H.run` under `HIDDEN:impl.**`, move `H` to `api`, ask again: PUBLIC, not the stale HIDDEN -/
example : (runEvents [⟨.hidden, ['i', '.', '*', '*']⟩] [⟨['i', '.', 'H', '.', 'r'], ['r'], false, false, true⟩] []
    [.cls 0, .move [(0, ⟨['a', '.', 'H', '.', 'r'], ['r'], false, false, true⟩)], .cls 0]).1
    = [.lvl (.ok .hidden), .lvl (.ok .pub)] := by decide

/-- two objects with one qualified name (a child `_x.s` of `m`, a child `s` of `m._x`): the second
query is answered from the cache with the first one's class -/
theorem cache_counterexample :
    (run [] [] [⟨['m', '.', '_', 'x', '.', 's'], ['s'], false, false, true⟩,
               ⟨['m', '.', '_', 'x', '.', 's'], ['_', 'x', '.', 's'], false, false, true⟩]).1
      = [.ok .pub, .ok .pub] ∧
    (privacyClass [] [] ⟨['m', '.', '_', 'x', '.', 's'], ['_', 'x', '.', 's'], false, false, true⟩).1
      = .ok .priv := by decide

example : (run [⟨.hidden, ['m', '.', '*']⟩] []
    [⟨['m', '.', 'a'], ['a'], false, false, true⟩, ⟨['m'], ['m'], true, false, true⟩,
     ⟨['m', '.', 'a'], ['a'], false, false, true⟩]).1 = [.ok .hidden, .ok .pub, .ok .hidden] := by decide

/-- **Visibility.**  `ob.isVisible` is true exactly when every object on the chain
`ob, ob.parent, …` has a privacy class and none is HIDDEN ("if a module/package/class is hidden,
all its members are hidden as well"), and every object on the chain below the root is the entry of
its parent's `contents` (an older definition superseded by a later one of the same name is not
visible, nor is anything inside it). -/
theorem isVisible_meaning (rules : List Rule) : ∀ (chain : List Obj) (c : Cache),
    (isVisible rules c chain).1 = .ok true ↔
      (∀ r ∈ (run rules c chain).1, ∃ l, r = .ok l ∧ l ≠ .hidden) ∧
        (∀ ob ∈ chain.dropLast, ob.inContents = true)
  | [], c => by simp [isVisible, run]
  | ob :: parents, c => by
    have ih := isVisible_meaning rules parents (privacyClass rules c ob).2
    rw [isVisible]
    simp only [run]
    cases hp : privacyClass rules c ob with
    | mk r c' =>
      rw [hp] at ih
      cases r with
      | err e => simp
      | ok l =>
        by_cases hl : l = .hidden
        · subst hl; simp
        · cases parents with
          | nil => simp [hl, run]
          | cons p ps =>
            simp only [ne_eq, hl, not_false_eq_true, if_true, List.mem_cons, forall_eq_or_imp,
              List.dropLast_cons_cons]
            by_cases hc : ob.inContents = true
            · simp only [hc, if_true]
              rw [ih]
              constructor
              · rintro ⟨h1, h2⟩; exact ⟨⟨⟨l, rfl, hl⟩, h1⟩, trivial, h2⟩
              · rintro ⟨⟨_, h1⟩, _, h2⟩; exact ⟨h1, h2⟩
            · simp only [hc, if_false, Bool.false_eq_true]
              constructor
              · intro h; cases h
              · rintro ⟨_, h, _⟩; exact h.elim

example : (isVisible [⟨.hidden, ['m']⟩] [] [⟨['m', '.', 'a'], ['a'], false, false, true⟩, ⟨['m'], ['m'], true, false, true⟩]).1
    = .ok false := by decide

end Privacy

namespace Privacy
/-- a member of a superseded class `m.C 0` is not visible although nothing is hidden -/
example : (isVisible [] [] [⟨['m', '.', 'C', ' ', '0', '.', 'f'], ['f'], false, false, true⟩,
    ⟨['m', '.', 'C', ' ', '0'], ['C', ' ', '0'], false, false, false⟩, ⟨['m'], ['m'], true, false, true⟩]).1
    = .ok false := by decide
end Privacy

/-! ## Round 3: the `lru_cache` of `_compile_pattern`, patterns at name edges -/
namespace Glob
open Regex

theorem qnmatch_eq_compile (n p : List Char) :
    qnmatch n p = match compilePattern p with
      | .ok as => .ok (matchA as n) | .reError => .reError | .indexError => .indexError := by
  simp only [qnmatch, compilePattern]
  cases translate p with
  | none => rfl
  | some as => by_cases h : compiles as = true <;> simp [h]

/-- every stored entry is what compiling its pattern gives -/
def LruOk (es : List (List Char × List Atom)) : Prop := ∀ kv ∈ es, compilePattern kv.1 = .ok kv.2

theorem lruFind_ok : ∀ (es : List (List Char × List Atom)) (p : List Char) (as : List Atom),
    LruOk es → lruFind es p = some as → compilePattern p = .ok as
  | [], _, _, _, h => by simp [lruFind] at h
  | (k, v) :: es, p, as, hok, h => by
    simp only [lruFind] at h
    by_cases hk : k = p
    · simp only [hk, if_true, Option.some.injEq] at h
      have := hok (k, v) (by simp)
      simp only at this; rw [← hk, ← h]; exact this
    · simp only [hk, if_false] at h
      exact lruFind_ok es p as (fun kv hkv => hok kv (List.mem_cons_of_mem _ hkv)) h

theorem lruErase_sub : ∀ (es : List (List Char × List Atom)) (p : List Char) kv,
    kv ∈ lruErase es p → kv ∈ es
  | [], _, _, h => by simp [lruErase] at h
  | (k, v) :: es, p, kv, h => by
    simp only [lruErase] at h
    by_cases hk : k = p
    · simp only [hk, if_true] at h; exact List.mem_cons_of_mem _ h
    · simp only [hk, if_false, List.mem_cons] at h
      rcases h with h | h
      · simp [h]
      · exact List.mem_cons_of_mem _ (lruErase_sub es p kv h)

theorem qnmatchCached_ok (m : Nat) (c : Lru) (n p : List Char) (hc : LruOk c.entries) :
    (qnmatchCached m c n p).1 = qnmatch n p ∧ LruOk (qnmatchCached m c n p).2.entries := by
  rw [qnmatch_eq_compile]
  simp only [qnmatchCached, lruCall]
  cases hf : lruFind c.entries p with
  | some as =>
    have := lruFind_ok c.entries p as hc hf
    simp only [this]
    refine ⟨trivial, ?_⟩
    intro kv hkv
    rcases List.mem_cons.mp hkv with rfl | hkv
    · exact this
    · exact hc kv (lruErase_sub _ _ _ hkv)
  | none =>
    cases hcp : compilePattern p with
    | reError => exact ⟨rfl, hc⟩
    | indexError => exact ⟨rfl, hc⟩
    | ok as =>
      refine ⟨rfl, ?_⟩
      intro kv hkv
      have := List.mem_of_mem_take hkv
      rcases List.mem_cons.mp this with rfl | h
      · exact hcp
      · exact hc kv h

/-- **The `lru_cache` around `_compile_pattern` is transparent**: for any bound `maxsize` and any
history of `qnmatch(name, pattern)` calls (hits, misses, evictions, patterns that raise), every
answer is the one the uncached function gives. -/
theorem lru_transparent (m : Nat) : ∀ (qs : List (List Char × List Char)) (c : Lru),
    LruOk c.entries → (runLru m c qs).1 = qs.map (fun q => qnmatch q.1 q.2)
  | [], _, _ => rfl
  | (n, p) :: qs, c, hc => by
    obtain ⟨h1, h2⟩ := qnmatchCached_ok m c n p hc
    simp only [runLru, List.map_cons]
    rw [h1, lru_transparent m qs _ h2]

theorem lru_transparent_empty (m : Nat) (qs : List (List Char × List Char)) :
    (runLru m Lru.empty qs).1 = qs.map (fun q => qnmatch q.1 q.2) :=
  lru_transparent m qs Lru.empty (fun _ h => by simp [Lru.empty] at h)

example : (runLru 1 Lru.empty [(['a'], ['a']), (['a'], ['?']), (['b'], ['a']), (['a'], ['[', 'b', '-', 'a', ']'])]).1
    = [.ok true, .ok true, .ok false, .reError] := by decide

/-! ### what patterns mean at the edges of a qualified name -/

/-- no metacharacter: none of `*`, `?`, `[` -/
def Plain (q : List Char) : Prop := ∀ c ∈ q, c ≠ '*' ∧ c ≠ '?' ∧ c ≠ '['

theorem patTokens_cons_plain (c : Char) (r : List Char) (h1 : c ≠ '*') (h2 : c ≠ '?') (h3 : c ≠ '[') :
    patTokens (c :: r) = .ch c :: patTokens r := by
  simp only [patTokens, List.length_cons]
  rw [tokens.eq_def]
  simp [h1, h2, h3]

theorem patTokens_plain_append : ∀ (q r : List Char), Plain q →
    patTokens (q ++ r) = q.map GTok.ch ++ patTokens r
  | [], _, _ => rfl
  | c :: q, r, h => by
    obtain ⟨h1, h2, h3⟩ := h c (by simp)
    rw [List.cons_append, patTokens_cons_plain c _ h1 h2 h3,
      patTokens_plain_append q r (fun x hx => h x (List.mem_cons_of_mem _ hx))]
    rfl

theorem specMatch_chs : ∀ (q : List Char) (ts : List GTok) (n : List Char),
    specMatch (q.map GTok.ch ++ ts) n = (q.isPrefixOf n && specMatch ts (n.drop q.length))
  | [], ts, n => by simp
  | c :: q, ts, [] => by simp [specMatch]
  | c :: q, ts, x :: n => by
    simp only [List.map_cons, List.cons_append, specMatch, specMatch_chs q ts n, List.isPrefixOf,
      List.length_cons, List.drop_succ_cons]
    by_cases h : x = c
    · subst h; simp
    · have : ¬ c = x := fun e => h e.symm
      simp [h, this]

/-- **A text without metacharacters matches exactly itself** (so an exact rule is also a pattern
rule for the same object, never for another one). -/
theorem spec_plain (p n : List Char) (h : Plain p) : spec p n = decide (n = p) := by
  have := patTokens_plain_append p [] h
  simp only [List.append_nil] at this
  have ht : patTokens [] = [] := rfl
  simp only [spec, this, ht, specMatch_chs, specMatch]
  by_cases e : n = p
  · subst e; simp
  · simp only [e, decide_false, Bool.and_eq_false_iff]
    by_cases hp : p.isPrefixOf n = true
    · right
      have hpre : p <+: n := List.isPrefixOf_iff_prefix.mp hp
      obtain ⟨t, rfl⟩ := hpre
      cases t with
      | nil => simp at e
      | cons a t => simp
    · left; exact Bool.eq_false_iff.mpr hp

theorem specMatch_dstar_end : ∀ n : List Char, specMatch [.dstar] n = true
  | [] => by simp [specMatch, splits]
  | x :: n => by
    have := specMatch_dstar_end n
    simp only [specMatch, splits, List.any_cons, List.any_map] at this ⊢
    cases n with
    | nil => simp [splits]
    | cons y n' =>
      simp only [List.isEmpty_cons, Bool.false_or]
      have h2 : ((fun uv : List Char × List Char => uv.2.isEmpty) ∘
          fun uv : List Char × List Char => (x :: uv.1, uv.2)) = fun uv => uv.2.isEmpty := rfl
      rw [h2]; exact this

/-- `**` alone matches every name ("PUBLIC:**" makes everything public) -/
theorem spec_dstar_all (n : List Char) : spec ['*', '*'] n = true := by
  have : patTokens ['*', '*'] = [.dstar] := by decide
  simp only [spec, this]; exact specMatch_dstar_end n

theorem starLazy_end (ok : Char → Bool) : ∀ n : List Char,
    starLazy ok (fun m => m.isEmpty) n = n.all ok
  | [] => rfl
  | x :: n => by simp [starLazy, starLazy_end ok n]

theorem specMatch_star_end (n : List Char) : specMatch [.star] n = n.all (· != '.') := by
  simp only [specMatch]
  rw [← starLazy_splits (fun c => c != '.') (fun m => m.isEmpty) n, starLazy_end]

/-- `pkg.**` matches exactly the names that begin with `pkg.` — everything below `pkg`, at any
depth, not `pkg` itself, not `pkgx.y` -/
theorem spec_below_any_depth (q n : List Char) (h : Plain q) :
    spec (q ++ ['.', '*', '*']) n = (q ++ ['.']).isPrefixOf n := by
  have ht : patTokens ['.', '*', '*'] = [.ch '.', .dstar] := by decide
  have h1 := patTokens_plain_append q ['.', '*', '*'] h
  have h2 : q.map GTok.ch ++ [GTok.ch '.', GTok.dstar] = (q ++ ['.']).map GTok.ch ++ [GTok.dstar] := by simp
  simp only [spec, h1, ht, h2, specMatch_chs, specMatch_dstar_end, Bool.and_true]

/-- `pkg.*` matches exactly `pkg.` followed by one dot-free component — the direct members of
`pkg` (the component may be empty: `pkg.` itself, which is no object's name) -/
theorem spec_direct_members (q n : List Char) (h : Plain q) :
    spec (q ++ ['.', '*']) n =
      ((q ++ ['.']).isPrefixOf n && (n.drop (q.length + 1)).all (· != '.')) := by
  have ht : patTokens ['.', '*'] = [.ch '.', .star] := by decide
  have h1 := patTokens_plain_append q ['.', '*'] h
  have h2 : q.map GTok.ch ++ [GTok.ch '.', GTok.star] = (q ++ ['.']).map GTok.ch ++ [GTok.star] := by simp
  simp only [spec, h1, ht, h2, specMatch_chs, specMatch_star_end, List.length_append, List.length_cons,
    List.length_nil]

/-- `**.name` (as in `PRIVATE:**.__init__`) matches exactly the names that end with `.name`: a
top-level object called `name` is not matched, `x.yname` is not either -/
theorem spec_anywhere (s n : List Char) (h : Plain s) :
    spec ('*' :: '*' :: '.' :: s) n = true ↔ ('.' :: s) <:+ n := by
  have hp : Plain ('.' :: s) := by
    intro c hc
    rcases List.mem_cons.mp hc with rfl | hc
    · decide
    · exact h c hc
  have ht : patTokens ('*' :: '*' :: '.' :: s) = .dstar :: patTokens ('.' :: s) := by
    simp only [patTokens, List.length_cons]
    rw [tokens.eq_def]
    simp only [if_true, show ('*' : Char) = '*' from rfl]
    exact congrArg _ (tokens_fuel _ _ _ (by simp) (by simp))
  have h1 := patTokens_plain_append ('.' :: s) [] hp
  simp only [List.append_nil] at h1
  have hnil : patTokens [] = [] := rfl
  rw [spec, ht, dstar_meaning]
  constructor
  · rintro ⟨u, v, rfl, hv⟩
    have : spec ('.' :: s) v = true := hv
    rw [spec_plain _ _ hp] at this
    have : v = '.' :: s := by simpa using this
    subst this; exact ⟨u, rfl⟩
  · rintro ⟨u, rfl⟩
    refine ⟨u, '.' :: s, rfl, ?_⟩
    have : spec ('.' :: s) ('.' :: s) = true := by rw [spec_plain _ _ hp]; simp
    exact this

example : spec ['p', '.', '*'] ['p', '.', 'a'] = true ∧ spec ['p', '.', '*'] ['p'] = false ∧
    spec ['p', '.', '*'] ['p', '.', 'a', '.', 'b'] = false ∧ spec ['*', '*', '.', 'x'] ['x'] = false ∧
    spec ['*', '*', '.', 'x'] ['a', '.', 'x'] = true ∧ spec ['*', '.', 'x'] ['.', 'x'] = true := by decide

end Glob

/-! ## Round 3: the option parser, hidden containers, names -/
namespace Privacy

theorem splitColon_ne_nil : ∀ v, splitColon v ≠ []
  | [] => by simp [splitColon]
  | c :: r => by
    simp only [splitColon]
    cases splitColon r with
    | nil => simp
    | cons p ps => by_cases h : c = ':' <;> simp [h]

theorem splitColon_length : ∀ v, (splitColon v).length = v.count ':' + 1
  | [] => rfl
  | c :: r => by
    have ih := splitColon_length r
    simp only [splitColon]
    cases hs : splitColon r with
    | nil => exact absurd hs (splitColon_ne_nil r)
    | cons p ps =>
      rw [hs] at ih
      by_cases h : c = ':'
      · subst h; simp only [if_true, List.length_cons] at ih ⊢; simp; omega
      · have hcnt : (c :: r).count ':' = r.count ':' := by simp [List.count_cons, h]
        simp only [h, if_false, List.length_cons, hcnt] at ih ⊢
        omega

/-- **A `--privacy` value needs exactly one colon**: none, or a pattern that itself contains a
colon, is refused (`malformatted value`); qualified names never contain one. -/
theorem parseRule_colons (v : List Char) (h : v.count ':' ≠ 1) : parseRule v = .systemExit := by
  have hl := splitColon_length v
  simp only [parseRule]
  split
  · rename_i a b hab
    rw [hab] at hl
    simp only [List.length_cons, List.length_nil] at hl
    omega
  · rfl

/-- **What the option parser accepts**: `<level>:<pattern>` where the level, stripped and in upper
case, is HIDDEN, PRIVATE, PUBLIC or VISIBLE (= PUBLIC), and the stripped pattern has no backwards
range; the rule carries the stripped pattern. -/
theorem parseRule_ok_iff (v : List Char) (r : Rule) :
    parseRule v = .ok r ↔
      ∃ a b, splitColon v = [a, b] ∧ levelOfName (upper (strip a)) = some r.level ∧
        r.pat = strip b ∧ Glob.wellFormed (strip b) = true := by
  constructor
  · intro h
    have hw := parseRule_wellFormed v r h
    simp only [parseRule] at h
    split at h
    · rename_i a b hab
      split at h
      · cases h
      · rename_i l hl
        split at h
        · cases h
        · split at h
          · simp only [Parsed.ok.injEq] at h
            subst h
            exact ⟨a, b, hab, hl, rfl, hw⟩
          · cases h
    · cases h
  · rintro ⟨a, b, hab, hl, hp, hw⟩
    have hc : Glob.compilesPat (strip b) = true := by rw [Glob.compiles_iff]; exact hw
    simp only [Glob.compilesPat, Glob.translate_total] at hc
    cases r with
    | mk lv pat =>
      simp only at hl hp
      subst hp
      simp [parseRule, hab, hl, Glob.translate_total, hc]

example : parseRule [' ', 'h', 'i', 'd', 'd', 'e', 'n', ' ', ':', ' ', 'a', '.', '*', ' '] = .ok ⟨.hidden, ['a', '.', '*']⟩ ∧
    parseRule ['V', 'i', 's', 'i', 'b', 'l', 'e', ':', 'a'] = .ok ⟨.pub, ['a']⟩ ∧
    parseRule ['P', 'U', 'B', 'L', 'I', 'K', ':', 'a'] = .systemExit ∧
    parseRule ['P', 'U', 'B', 'L', 'I', 'C', ':', 'a', ':', 'b'] = .systemExit ∧
    parseRule ['P', 'U', 'B', 'L', 'I', 'C'] = .systemExit := by decide

/-- **Command line replaces configuration file**: when any `--privacy` is given on the command
line the file's list plays no role (not even its malformed values); otherwise the file's list is
the rule list. -/
theorem effective_cli_wins (cli cfg : List (List Char)) (h : cli ≠ []) :
    parseEffective cli cfg = parseRules cli := by
  cases cli with
  | nil => exact absurd rfl h
  | cons v vs => simp [parseEffective, effectiveValues]

theorem effective_file_only (cfg : List (List Char)) : parseEffective [] cfg = parseRules cfg := by
  simp [parseEffective, effectiveValues]

/-- precedence for the rule list a run is really given (file and command line combined) -/
theorem precedence_effective_partial (cli cfg : List (List Char)) (rules : List Rule) (ob : Obj)
    (h : parseEffective cli cfg = .ok rules) (hk : ob.kindNone = false) :
    (privacyClass rules [] ob).1 = .ok (specLevel rules ob) :=
  precedence_cli_partial _ rules ob h hk

/-! ### hidden containers -/

theorem visPure_meaning (rules : List Rule) : ∀ (chain : List Obj),
    visPure rules chain = .ok true ↔
      (∀ ob ∈ chain, ∃ l, (privacyClass rules [] ob).1 = .ok l ∧ l ≠ .hidden) ∧
        (∀ ob ∈ chain.dropLast, ob.inContents = true)
  | [] => by simp [visPure]
  | ob :: parents => by
    have ih := visPure_meaning rules parents
    rw [visPure.eq_def]
    dsimp only
    cases hp : (privacyClass rules [] ob).1 with
    | err e => simp [hp]
    | ok l =>
      by_cases hl : l = .hidden
      · subst hl; simp [hp]
      · cases parents with
        | nil => simp [hl, hp]
        | cons p ps =>
          simp only [ne_eq, hl, not_false_eq_true, if_true, List.mem_cons, forall_eq_or_imp,
            List.dropLast_cons_cons]
          by_cases hc : ob.inContents = true
          · simp only [hc, if_true]
            rw [ih]
            simp only [List.mem_cons, forall_eq_or_imp, hp, Res.ok.injEq, exists_eq_left']
            constructor
            · rintro ⟨h1, h2⟩; exact ⟨⟨hl, h1⟩, trivial, h2⟩
            · rintro ⟨⟨_, h1⟩, _, h2⟩; exact ⟨h1, h2⟩
          · simp only [hc, if_false, Bool.false_eq_true]
            constructor
            · intro h; cases h
            · rintro ⟨_, h, _⟩; exact h.elim

/-- **"If a module/package/class is hidden, then all its members are hidden as well"**: an object
with a HIDDEN object anywhere on its parent chain is never visible, whatever its own class. -/
theorem hidden_propagates (rules : List Rule) (chain : List Obj) (a : Obj) (ha : a ∈ chain)
    (hh : (privacyClass rules [] a).1 = .ok .hidden) : visPure rules chain ≠ .ok true := by
  intro h
  obtain ⟨l, h1, h2⟩ := ((visPure_meaning rules chain).mp h).1 a ha
  rw [hh] at h1
  simp only [Res.ok.injEq] at h1
  exact h2 h1.symm

/-! ### one qualified name, one name -/

/-- what `Documentable.fullName` guarantees when names contain no dot: the qualified name is the
name, or the parent's qualified name, a dot, and the name -/
def WellNamed (o : Obj) : Prop :=
  '.' ∉ o.name ∧ (o.fullName = o.name ∨ ∃ pre, o.fullName = pre ++ '.' :: o.name)

def lastComp (s : List Char) : List Char := (s.reverse.takeWhile (· != '.')).reverse

theorem takeWhile_all {p : Char → Bool} : ∀ (l r : List Char), (∀ x ∈ l, p x = true) →
    (l ++ r).takeWhile p = l ++ r.takeWhile p
  | [], _, _ => rfl
  | a :: l, r, h => by
    simp only [List.cons_append, List.takeWhile_cons, h a (by simp), if_true]
    rw [takeWhile_all l r (fun x hx => h x (List.mem_cons_of_mem _ hx))]

theorem lastComp_of_wellNamed (o : Obj) (h : WellNamed o) : lastComp o.fullName = o.name := by
  obtain ⟨hd, hf⟩ := h
  have hall : ∀ x ∈ o.name.reverse, (x != '.') = true := by
    intro x hx
    have : x ∈ o.name := List.mem_reverse.mp hx
    simp only [bne_iff_ne, ne_eq]
    intro e; subst e; exact hd this
  rcases hf with hf | ⟨pre, hf⟩
  · rw [lastComp, hf]
    have := takeWhile_all (p := (· != '.')) o.name.reverse [] hall
    simp only [List.append_nil, List.takeWhile_nil] at this
    rw [this, List.reverse_reverse]
  · rw [lastComp, hf]
    have hr : (pre ++ '.' :: o.name).reverse = o.name.reverse ++ '.' :: pre.reverse := by simp
    rw [hr, takeWhile_all (p := (· != '.')) o.name.reverse _ hall]
    simp

/-- the `Coherent` hypothesis of the cache theorems follows from facts one can read off a real
system: names without dots, every object has a kind, and module-ness is a function of the
qualified name -/
theorem coherent_of_wellNamed (U : List Obj) (hn : ∀ o ∈ U, WellNamed o)
    (hk : ∀ o ∈ U, o.kindNone = false)
    (hm : ∀ a ∈ U, ∀ b ∈ U, a.fullName = b.fullName → a.isModule = b.isModule) : Coherent U := by
  intro a ha b hb hf
  refine ⟨?_, hm a ha b hb hf, by rw [hk a ha, hk b hb]⟩
  rw [← lastComp_of_wellNamed a (hn a ha), ← lastComp_of_wellNamed b (hn b hb), hf]

theorem cache_transparent_moves_wellNamed (rules : List Rule) (w : World) (es : List Event)
    (hn : ∀ o ∈ records w es, WellNamed o) (hk : ∀ o ∈ records w es, o.kindNone = false)
    (hm : ∀ a ∈ records w es, ∀ b ∈ records w es, a.fullName = b.fullName → a.isModule = b.isModule) :
    (runEvents rules w [] es).1 = pureEvents rules w es :=
  cache_transparent_moves rules w es (coherent_of_wellNamed _ hn hk hm)

end Privacy

/-! ## Pinned behaviours (by design or outside the property; see notes/C13.md "Reviewer's list") -/
namespace Privacy

/-- (1) an object whose `kind` is `None` is HIDDEN before any rule is consulted — no rule list, not
even an exact `PUBLIC:` rule, changes that — and the answer is not stored in the cache -/
theorem kindNone_hidden (rules : List Rule) (c : Cache) (ob : Obj) (hk : ob.kindNone = true)
    (hc : lookup c ob.fullName = none) : privacyClass rules c ob = (.ok .hidden, c) := by
  simp [privacyClass, systemPrivacyClass, hc, hk]

example : (privacyClass [⟨.pub, ['m', '.', 'k']⟩] [] ⟨['m', '.', 'k'], ['k'], false, true, true⟩).1 = .ok .hidden := by
  decide

/-- (2) names made of underscores only: `_`, `__`, `___` are private; `____`, `_____`, … are
dunders (`__*__` with an all-underscore middle) and public (since 2e9a6af) -/
theorem bare_underscores (n : Nat) :
    defaultLevel (List.replicate n '_') = if 1 ≤ n ∧ n ≤ 3 then .priv else .pub := by
  match n with
  | 0 => decide
  | 1 => decide
  | 2 => decide
  | 3 => decide
  | k + 4 =>
    have h1 : startsWith ['_', '_'] (List.replicate (k + 4) '_') = true := by
      simp [List.replicate_succ, startsWith]
    have h2 : endsWith ['_', '_'] (List.replicate (k + 4) '_') = true := by
      simp only [endsWith, List.reverse_replicate]
      simp [List.replicate_succ, startsWith]
    have h0 : startsWith ['_'] (List.replicate (k + 4) '_') = true := by
      simp [List.replicate_succ, startsWith]
    have hn : ¬ (k + 4 ≤ 3) := by omega
    simp [defaultLevel, h0, h1, h2, hn]

/-- (4) the cache is never invalidated: once an object has been asked, a different rule list (an
`options.privacy` replaced through the API after the first query; the command line cannot do that,
the options are fixed before the System exists) does not change the answer -/
theorem cache_survives_rule_change (r1 r2 : List Rule) (ob : Obj) (l : Level) (hk : ob.kindNone = false)
    (h : (privacyClass r1 [] ob).1 = .ok l) :
    (privacyClass r2 (privacyClass r1 [] ob).2 ob).1 = .ok l := by
  simp only [privacyClass, systemPrivacyClass, lookup, hk] at h ⊢
  cases hd : decide r1 ob with
  | err e => simp [hd] at h
  | ok l' =>
    simp [hd] at h
    subst h
    simp [lookup]

example : (privacyClass [⟨.pub, ['a']⟩] (privacyClass [⟨.hidden, ['a']⟩] [] ⟨['a'], ['a'], false, false, true⟩).2
    ⟨['a'], ['a'], false, false, true⟩).1 = .ok .hidden := by decide

/-- (5) `PUBLIC:` (empty pattern) and the alias level `visible` are accepted … -/
theorem empty_pattern_and_alias_accepted :
    parseRule ['P', 'U', 'B', 'L', 'I', 'C', ':'] = .ok ⟨.pub, []⟩ ∧
    parseRule ['v', 'i', 's', 'i', 'b', 'l', 'e', ':', 'a'] = .ok ⟨.pub, ['a']⟩ := by decide

end Privacy

namespace Glob

/-- … (5) and the empty pattern matches the empty name only: such a rule never applies to an object -/
theorem spec_empty (n : List Char) : spec [] n = n.isEmpty := rfl

/-- (3) `***` is read as `**` followed by `*` and means the same as `**` -/
theorem spec_triple_star (n : List Char) :
    patTokens ['*', '*', '*'] = [.dstar, .star] ∧ spec ['*', '*', '*'] n = true := by
  have ht : patTokens ['*', '*', '*'] = [.dstar, .star] := by decide
  refine ⟨ht, ?_⟩
  rw [spec, ht, dstar_meaning]
  exact ⟨n, [], by simp, by decide⟩

/-- (3) a hyphen between two characters of `[seq]` is a range (the manual does not say; fnmatch
convention), first or last it stands for itself; `&&`, `||`, `~~` inside a set are plain characters
(CPython ≤ 3.12 compiles them with a FutureWarning; a later `re` may read them as set operations:
that reading is a parameter of the model) -/
theorem set_conventions :
    spec ['[', 'a', '-', 'c', ']'] ['b'] = true ∧ spec ['[', 'a', '-', 'c', ']'] ['-'] = false ∧
    spec ['[', 'a', '-', ']'] ['-'] = true ∧ spec ['[', '-', 'a', ']'] ['-'] = true ∧
    qnmatch ['&'] ['[', 'a', '&', '&', 'b', ']'] = .ok true ∧ qnmatch ['c'] ['[', 'a', '&', '&', 'b', ']'] = .ok false ∧
    qnmatch ['|'] ['[', 'a', '|', '|', 'b', ']'] = .ok true ∧ qnmatch ['~'] ['[', 'a', '~', '~', 'b', ']'] = .ok true := by
  decide

end Glob
