/-
C16 — warnings point at the right place; every reported problem is counted.

Property theorems over `PdModel.Lineno` (model of `astutils.extract_docstring_linenum`,
`inspect.cleandoc`, `ParseError.linenum`, `reportErrors`, `Field.report`, `get_lineno`,
`Documentable.report`, `System.msg`, the tail of `driver.main`).

Conventions: `sl` is the AST `lineno` of the string literal (≥ 1), `doc` its value.  Line `r` of
`doc.split('\n')` sits on physical line `sl + r` (no backslash-newline, no escapes: the
correspondence check verifies this against `ast.parse` for every generated literal).
-/
import PdModel.Lineno

namespace Lineno

/-! ## character level: `extract_docstring_linenum` -/

theorem pyIsSpace_nl : pyIsSpace '\n' = true := by decide

/-- **shift**, character level: the function only adds to the line it is given. -/
theorem extractLinenum_shift (n k : Nat) (doc : List Char) :
    extractLinenum (n + k) doc = extractLinenum n doc + k := by
  induction doc generalizing n with
  | nil => simp [extractLinenum]
  | cons c cs ih =>
    unfold extractLinenum
    by_cases h : c = '\n'
    · simp only [h, if_true]
      have := ih (n + 1)
      rw [show n + k + 1 = n + 1 + k by omega]
      exact this
    · simp only [h, if_false]
      by_cases hs : pyIsSpace c
      · simp [hs, ih]
      · simp [hs]

theorem extractLinenum_ge (n : Nat) (doc : List Char) : n ≤ extractLinenum n doc := by
  have := extractLinenum_shift 0 n doc
  simp at this
  omega

theorem splitNL_cons_nl (cs : List Char) : splitNL ('\n' :: cs) = [] :: splitNL cs := by
  simp [splitNL, splitNL1]

theorem splitNL_cons_other (c : Char) (cs : List Char) (h : c ≠ '\n') :
    splitNL (c :: cs) = (c :: (splitNL1 cs).1) :: (splitNL1 cs).2 := by
  simp [splitNL, splitNL1, h]

theorem blank_cons (c : Char) (l : List Char) : blank (c :: l) = (pyIsSpace c && blank l) := by
  simp [blank]

theorem hasText_cons_space (c : Char) (cs : List Char) (h : pyIsSpace c = true) :
    hasText (c :: cs) = hasText cs := by
  simp [hasText, h]

/-- `extract_docstring_linenum` returns the string's line plus the number of whitespace-only
lines before the first line that has text. -/
theorem extractLinenum_eq (n : Nat) (doc : List Char) (h : hasText doc = true) :
    extractLinenum n doc = n + ((splitNL doc).takeWhile blank).length := by
  induction doc generalizing n with
  | nil => simp [hasText] at h
  | cons c cs ih =>
    unfold extractLinenum
    by_cases hc : c = '\n'
    · subst hc
      rw [hasText_cons_space _ _ pyIsSpace_nl] at h
      simp only [if_true, splitNL_cons_nl]
      rw [ih (n + 1) h]
      have hb : blank ([] : List Char) = true := rfl
      simp only [List.takeWhile_cons, hb, if_true, List.length_cons]
      omega
    · simp only [hc, if_false]
      rw [splitNL_cons_other c cs hc]
      by_cases hs : pyIsSpace c = true
      · rw [hasText_cons_space _ _ hs] at h
        simp only [hs, Bool.not_true, Bool.false_eq_true, if_false]
        rw [ih n h]
        simp only [splitNL, List.takeWhile_cons, blank_cons, hs, Bool.true_and]
        split <;> simp
      · simp only [hs, Bool.not_false, if_true] <;> simp [blank_cons, hs]

theorem all_splitNL (doc : List Char) : doc.all pyIsSpace = (splitNL doc).all blank := by
  induction doc with
  | nil => simp [splitNL, splitNL1, blank]
  | cons c cs ih =>
    by_cases hc : c = '\n'
    · subst hc
      rw [splitNL_cons_nl]
      simp [blank, pyIsSpace_nl] at ih ⊢
      exact ih
    · rw [splitNL_cons_other c cs hc]
      simp only [List.all_cons, ih, splitNL, blank_cons, Bool.and_assoc]

theorem hasText_iff (doc : List Char) :
    hasText doc = true ↔ ∃ l ∈ splitNL doc, blank l = false := by
  simp [hasText, all_splitNL]

theorem splitNL_length (doc : List Char) : (splitNL doc).length = newlines doc + 1 := by
  induction doc with
  | nil => simp [splitNL, splitNL1, newlines]
  | cons c cs ih =>
    by_cases hc : c = '\n'
    · subst hc
      rw [splitNL_cons_nl]
      simp [newlines] at ih ⊢
      omega
    · rw [splitNL_cons_other c cs hc]
      simp [newlines, hc, splitNL] at ih ⊢
      omega

/-! ## `expandtabs` keeps the line structure and the blankness of every line -/

theorem splitNL1_replicate_append (k : Nat) (s : List Char) :
    splitNL1 (List.replicate k ' ' ++ s) = (List.replicate k ' ' ++ (splitNL1 s).1, (splitNL1 s).2) := by
  induction k with
  | zero => simp
  | succ k ih =>
    simp only [List.replicate_succ, List.cons_append, splitNL1, ih]
    simp

theorem splitNL1_expandtabsFrom (col : Nat) (doc : List Char) :
    splitNL1 (expandtabsFrom col doc) =
      (expandtabsFrom col (splitNL1 doc).1, (splitNL1 doc).2.map (expandtabsFrom 0)) := by
  induction doc generalizing col with
  | nil => simp [expandtabsFrom, splitNL1]
  | cons c cs ih =>
    by_cases ht : c = '\t'
    · subst ht
      have hne : ('\t' : Char) ≠ '\n' := by decide
      simp only [expandtabsFrom, if_true, splitNL1_replicate_append, ih, splitNL1, hne, if_false]
    · by_cases hn : c = '\n'
      · subst hn
        simp [expandtabsFrom, splitNL1, ih]
      · by_cases hr : c = '\r'
        · subst hr
          have hne : ('\r' : Char) ≠ '\n' := by decide
          have hnt : ('\r' : Char) ≠ '\t' := by decide
          simp [expandtabsFrom, splitNL1, ih, hne, hnt]
        · simp [expandtabsFrom, splitNL1, ih, ht, hn, hr]

theorem blank_expandtabsFrom (col : Nat) (l : List Char) :
    blank (expandtabsFrom col l) = blank l := by
  induction l generalizing col with
  | nil => simp [expandtabsFrom]
  | cons c cs ih =>
    by_cases ht : c = '\t'
    · subst ht
      have h1 : pyIsSpace '\t' = true := by decide
      have h2 : pyIsSpace ' ' = true := by decide
      simp only [expandtabsFrom, if_true, blank_cons, h1, Bool.true_and]
      simp only [blank, List.all_append, List.all_replicate, h2] at ih ⊢
      simp [ih]
    · by_cases hn : c = '\n' ∨ c = '\r'
      · simp only [expandtabsFrom, ht, if_false, hn, if_true, blank_cons, ih]
      · simp only [expandtabsFrom, ht, if_false, hn, blank_cons, ih]

/-! ## `cleandoc`: margin, pops -/

theorem dropWhile_eq_nil_iff' (p : Char → Bool) (l : List Char) :
    l.dropWhile p = [] ↔ l.all p = true := by
  induction l with
  | nil => simp
  | cons c cs ih =>
    by_cases h : p c = true
    · simp [h, ih]
    · simp [h]

theorem lstrip_eq_nil_iff (l : List Char) : lstrip l = [] ↔ blank l = true := by
  simp only [lstrip, blank]
  exact dropWhile_eq_nil_iff' _ _

theorem lstrip_length_ne_zero_iff (l : List Char) : (lstrip l).length ≠ 0 ↔ blank l = false := by
  rw [Ne, List.length_eq_zero_iff, lstrip_eq_nil_iff]
  simp

theorem lstrip_length_le (l : List Char) : (lstrip l).length ≤ l.length := by
  simp only [lstrip]
  exact (List.dropWhile_sublist _).length_le

theorem indentOf_lt (l : List Char) (h : blank l = false) : indentOf l < l.length := by
  have h1 := (lstrip_length_ne_zero_iff l).2 h
  have h2 := lstrip_length_le l
  simp only [indentOf]
  omega

theorem foldl_marginStep (tail : List (List Char)) (m0 : Option Nat) :
    (∀ k, tail.foldl marginStep m0 = some k →
        (∀ l ∈ tail, blank l = false → k ≤ indentOf l) ∧ (∀ k0, m0 = some k0 → k ≤ k0)) ∧
    ((m0.isSome ∨ ∃ l ∈ tail, blank l = false) → (tail.foldl marginStep m0).isSome) := by
  induction tail generalizing m0 with
  | nil =>
    refine ⟨fun k hk => ⟨by simp, fun k0 h0 => ?_⟩, ?_⟩
    · simp at hk; rw [hk] at h0; injection h0 with h0; omega
    · simp
  | cons l ls ih =>
    simp only [List.foldl_cons]
    by_cases hb : blank l = false
    · have hne := (lstrip_length_ne_zero_iff l).2 hb
      have hstep : marginStep m0 l =
          some (match m0 with | none => indentOf l | some k => min k (indentOf l)) := by
        simp only [marginStep, hne, ne_eq, not_false_eq_true, if_true]
        cases m0 <;> rfl
      obtain ⟨ih1, ih2⟩ := ih (marginStep m0 l)
      refine ⟨fun k hk => ?_, fun _ => ?_⟩
      · obtain ⟨a, b⟩ := ih1 k hk
        have hb' := b _ hstep
        refine ⟨fun x hx hxb => ?_, fun k0 h0 => ?_⟩
        · rcases List.mem_cons.1 hx with rfl | hx
          · cases m0 with
            | none => simpa using hb'
            | some k0 => simp at hb'; omega
          · exact a x hx hxb
        · subst h0; simp at hb'; omega
      · apply ih2; left; rw [hstep]; rfl
    · have hb' : blank l = true := by simpa using hb
      have hz : (lstrip l).length = 0 := by
        rw [List.length_eq_zero_iff, lstrip_eq_nil_iff]; exact hb'
      have hstep : marginStep m0 l = m0 := by simp [marginStep, hz]
      rw [hstep]
      obtain ⟨ih1, ih2⟩ := ih m0
      refine ⟨fun k hk => ?_, fun h => ?_⟩
      · obtain ⟨a, b⟩ := ih1 k hk
        refine ⟨fun x hx hxb => ?_, b⟩
        rcases List.mem_cons.1 hx with rfl | hx
        · rw [hb'] at hxb; cases hxb
        · exact a x hx hxb
      · apply ih2
        rcases h with h | ⟨x, hx, hxb⟩
        · left; exact h
        · rcases List.mem_cons.1 hx with rfl | hx
          · rw [hb'] at hxb; cases hxb
          · right; exact ⟨x, hx, hxb⟩

theorem marginOf_spec (tail : List (List Char)) (h : ∃ l ∈ tail, blank l = false) :
    ∃ k, marginOf tail = some k ∧ ∀ l ∈ tail, blank l = false → k ≤ indentOf l := by
  obtain ⟨h1, h2⟩ := foldl_marginStep tail none
  have hs := h2 (Or.inr h)
  obtain ⟨k, hk⟩ := Option.isSome_iff_exists.1 hs
  exact ⟨k, hk, (h1 k hk).1⟩

/-- number of leading empty lines -/
def lead (ls : List (List Char)) : Nat := (ls.takeWhile (·.isEmpty)).length

theorem popTrailing_ne_nil (ls : List (List Char)) (h : ∃ x ∈ ls, x.isEmpty = false) :
    popTrailing ls ≠ [] := by
  induction ls with
  | nil => simp at h
  | cons l ls ih =>
    unfold popTrailing
    cases hp : popTrailing ls with
    | nil =>
      simp only
      by_cases hl : l.isEmpty
      · exfalso
        obtain ⟨x, hx, hxe⟩ := h
        rcases List.mem_cons.1 hx with rfl | hx
        · rw [hl] at hxe; cases hxe
        · exact ih ⟨x, hx, hxe⟩ hp
      · simp [hl]
    | cons r rs => simp

theorem lead_popTrailing (ls : List (List Char)) (h : ∃ x ∈ ls, x.isEmpty = false) :
    lead (popTrailing ls) = lead ls := by
  induction ls with
  | nil => simp at h
  | cons l ls ih =>
    by_cases hl : l.isEmpty = true
    · have h' : ∃ x ∈ ls, x.isEmpty = false := by
        obtain ⟨x, hx, hxe⟩ := h
        rcases List.mem_cons.1 hx with rfl | hx
        · rw [hl] at hxe; cases hxe
        · exact ⟨x, hx, hxe⟩
      have hne := popTrailing_ne_nil ls h'
      unfold popTrailing
      cases hp : popTrailing ls with
      | nil => exact absurd hp hne
      | cons r rs =>
        have := ih h'
        rw [hp] at this
        simp only [lead] at this ⊢
        rw [List.takeWhile_cons_of_pos hl, List.takeWhile_cons_of_pos hl, List.length_cons,
          List.length_cons, this]
    · unfold popTrailing
      cases hp : popTrailing ls with
      | nil => simp [lead, hl]
      | cons r rs => simp [lead, hl]

theorem popTrailing_prefix (ls : List (List Char)) : popTrailing ls <+: ls := by
  induction ls with
  | nil => simp [popTrailing]
  | cons l ls ih =>
    unfold popTrailing
    cases hp : popTrailing ls with
    | nil =>
      simp only
      by_cases hl : l.isEmpty
      · simp [hl]
      · simp only [hl, Bool.false_eq_true, if_false]
        exact ⟨ls, by simp⟩
    | cons r rs =>
      rw [hp] at ih
      simp only
      exact (List.prefix_cons_inj l).2 ih

theorem dropWhile_eq_drop (p : List Char → Bool) (ls : List (List Char)) :
    ls.dropWhile p = ls.drop (ls.takeWhile p).length := by
  induction ls with
  | nil => simp
  | cons l ls ih =>
    by_cases h : p l
    · simp [h, ih]
    · simp [h]

theorem cleandocLines_eq (doc : List Char) :
    cleandocLines doc = (popTrailing (processed doc)).drop (dropped doc) := by
  simp only [cleandocLines, popLeading, dropped]
  exact dropWhile_eq_drop _ _

theorem dedentTail_length (m : Option Nat) (tail : List (List Char)) :
    (dedentTail m tail).length = tail.length := by
  cases m <;> simp [dedentTail]

theorem processed_length (doc : List Char) : (processed doc).length = (splitNL doc).length := by
  simp [processed, expandtabs, splitNL1_expandtabsFrom, dedentTail_length, splitNL]

/-- **Which physical line a cleaned line comes from.**  Line `i` of `cleandoc(doc)` is line
`dropped doc + i` of the literal (with its indentation removed: `processed` maps line for line). -/
theorem cleaned_line_origin (doc : List Char) (i : Nat) (h : i < (cleandocLines doc).length) :
    (cleandocLines doc)[i]? = (processed doc)[dropped doc + i]? := by
  rw [cleandocLines_eq] at h ⊢
  rw [List.getElem?_drop]
  obtain ⟨t, ht⟩ := popTrailing_prefix (processed doc)
  have hlt : dropped doc + i < (popTrailing (processed doc)).length := by
    simp only [List.length_drop] at h
    omega
  conv => rhs; rw [← ht]
  rw [List.getElem?_append_left hlt]

theorem cleandocLines_length_le (doc : List Char) :
    dropped doc + (cleandocLines doc).length ≤ (splitNL doc).length := by
  rw [← processed_length, cleandocLines_eq, List.length_drop]
  have h1 : (popTrailing (processed doc)).length ≤ (processed doc).length :=
    (popTrailing_prefix (processed doc)).length_le
  have h2 : dropped doc ≤ (popTrailing (processed doc)).length := by
    simp only [dropped]
    exact (List.takeWhile_sublist _).length_le
  omega

/-- leading empties after the margin cut = leading blank lines before it, provided no leading
blank line is longer than the margin -/
theorem lead_dedent (k : Nat) (et : List (List Char))
    (h1 : ∀ l ∈ et.takeWhile blank, l.length ≤ k)
    (h2 : ∀ l ∈ et, blank l = false → k ≤ indentOf l)
    (h3 : ∃ l ∈ et, blank l = false) :
    lead (et.map (·.drop k)) = (et.takeWhile blank).length ∧
      ∃ x ∈ et.map (·.drop k), x.isEmpty = false := by
  induction et with
  | nil => simp at h3
  | cons l ls ih =>
    by_cases hb : blank l = true
    · have hlen : l.length ≤ k := h1 l (by simp [hb])
      have hd : (l.drop k).isEmpty = true := by simp [List.drop_eq_nil_iff, hlen]
      have h3' : ∃ x ∈ ls, blank x = false := by
        obtain ⟨x, hx, hxb⟩ := h3
        rcases List.mem_cons.1 hx with rfl | hx
        · rw [hb] at hxb; cases hxb
        · exact ⟨x, hx, hxb⟩
      obtain ⟨a, b⟩ := ih (fun x hx => h1 x (by simp [hb, hx]))
        (fun x hx => h2 x (List.mem_cons_of_mem _ hx)) h3'
      refine ⟨?_, ?_⟩
      · simp only [lead, List.map_cons, List.takeWhile_cons, hd, hb, if_true, List.length_cons]
        simp only [lead] at a
        rw [a]
      · obtain ⟨x, hx, hxe⟩ := b
        exact ⟨x, by simp only [List.map_cons]; exact List.mem_cons_of_mem _ hx, hxe⟩
    · have hb' : blank l = false := by simpa using hb
      have hk := h2 l (by simp) hb'
      have hlt := indentOf_lt l hb'
      have hd : (l.drop k).isEmpty = false := by
        simp [List.drop_eq_nil_iff]; omega
      refine ⟨?_, ⟨l.drop k, by simp, hd⟩⟩
      simp [lead, hd, hb']

/-- `cleandoc` removes exactly the leading whitespace-only lines, under the layout hypothesis. -/
theorem dropped_eq (doc : List Char) (hl : noOverIndent doc = true) (ht : hasText doc = true) :
    dropped doc = ((splitNL doc).takeWhile blank).length := by
  obtain ⟨x, hx, hxb⟩ := (hasText_iff doc).1 ht
  have hE : splitNL1 (expandtabs doc) =
      (expandtabsFrom 0 (splitNL1 doc).1, (splitNL1 doc).2.map (expandtabsFrom 0)) :=
    splitNL1_expandtabsFrom 0 doc
  simp only [noOverIndent, hE, blank_expandtabsFrom] at hl
  simp only [dropped, processed, hE]
  by_cases hb : blank (splitNL1 doc).1 = true
  · -- the opening line is blank: the count continues in the tail
    have hx' : ∃ l ∈ (splitNL1 doc).2, blank l = false := by
      simp only [splitNL, List.mem_cons] at hx
      rcases hx with rfl | hx
      · rw [hb] at hxb; cases hxb
      · exact ⟨x, hx, hxb⟩
    have hxe : ∃ l ∈ (splitNL1 doc).2.map (expandtabsFrom 0), blank l = false := by
      obtain ⟨y, hy, hyb⟩ := hx'
      exact ⟨expandtabsFrom 0 y, List.mem_map_of_mem hy, by rw [blank_expandtabsFrom]; exact hyb⟩
    obtain ⟨k, hk, hkle⟩ := marginOf_spec _ hxe
    simp only [hb, Bool.not_true, Bool.false_or, hk, List.all_eq_true, decide_eq_true_eq] at hl
    obtain ⟨a, b⟩ := lead_dedent k _ hl hkle hxe
    have hhead : lstrip (expandtabsFrom 0 (splitNL1 doc).1) = [] := by
      rw [lstrip_eq_nil_iff, blank_expandtabsFrom]; exact hb
    have hex : ∃ y ∈ ([] : List Char) :: ((splitNL1 doc).2.map (expandtabsFrom 0)).map (·.drop k),
        y.isEmpty = false := by
      obtain ⟨y, hy, hye⟩ := b
      exact ⟨y, List.mem_cons_of_mem _ hy, hye⟩
    have hlp := lead_popTrailing _ hex
    simp only [hk, dedentTail, hhead]
    simp only [lead] at hlp a
    rw [hlp]
    simp only [List.takeWhile_cons, List.isEmpty_nil, if_true, List.length_cons, a, splitNL, hb]
    congr 1
    rw [List.takeWhile_map]
    simp only [List.length_map]
    have hf : (blank ∘ expandtabsFrom 0) = blank := by
      funext y; simp [blank_expandtabsFrom]
    rw [hf]
  · -- text on the opening line: nothing is dropped
    have hb' : blank (splitNL1 doc).1 = false := by simpa using hb
    have hhead : (lstrip (expandtabsFrom 0 (splitNL1 doc).1)).isEmpty = false := by
      have := (lstrip_length_ne_zero_iff (expandtabsFrom 0 (splitNL1 doc).1)).2
        (by rw [blank_expandtabsFrom]; exact hb')
      cases h : lstrip (expandtabsFrom 0 (splitNL1 doc).1) with
      | nil => simp [h] at this
      | cons _ _ => rfl
    have hex : ∃ y ∈ lstrip (expandtabsFrom 0 (splitNL1 doc).1) ::
        dedentTail (marginOf ((splitNL1 doc).2.map (expandtabsFrom 0)))
          ((splitNL1 doc).2.map (expandtabsFrom 0)), y.isEmpty = false :=
      ⟨_, by simp, hhead⟩
    have hlp := lead_popTrailing _ hex
    simp only [lead] at hlp
    rw [hlp]
    simp [hhead, splitNL, hb']

/-! ## Property theorems -/

/-- **docstring_lineno is the physical line of the cleaned docstring's first line** — under the
layout hypothesis `noOverIndent`.

Full statement (false of the current code, see the counterexample):
  `∀ sl doc, hasText doc → extractLinenum sl doc = sl + dropped doc`. -/
theorem docstring_lineno_correct_partial (sl : Nat) (doc : List Char)
    (hl : noOverIndent doc = true) (ht : hasText doc = true) :
    extractLinenum sl doc = sl + dropped doc := by
  rw [extractLinenum_eq sl doc ht, dropped_eq doc hl ht]

/-- A blank line deeper than the text between the quotes and the text: `cleandoc` keeps it,
`extract_docstring_linenum` skips it.  Literal `"""⏎········⏎····Text"""` on line 2. -/
theorem docstring_lineno_correct_counterexample :
    let doc := "\n        \n    Text".toList
    hasText doc = true ∧ noOverIndent doc = false ∧
      extractLinenum 2 doc = 4 ∧ 2 + dropped doc = 3 ∧
      cleandocLines doc = ["    ".toList, "Text".toList] := by decide

example : noOverIndent "\n    \n\n    Text `x`.\n    ".toList = true ∧
    hasText "\n    \n\n    Text `x`.\n    ".toList = true := by decide

/-! ### offsets: from the parser's number to `lineno_offset`

`i` = index (0-based) of the block's first line in the cleaned docstring, `j` = lines between the
block's first line and the construct. -/

theorem reportErrorsOffset_of_nonneg (i : Int) (h : 0 ≤ i) : reportErrorsOffset (some i) = i := by
  have : i + 1 ≠ 0 := by omega
  simp [reportErrorsOffset, parseErrorLinenum, pyOr, this]

/-- `ParseError(…, token.startline)` → `linenum()` adds 1 → `reportErrors` subtracts it again. -/
theorem offset_correct_epytext_error (i j : Int) (h : 0 ≤ i) :
    constructOffset .epytext .markupError i j = i := by
  simp [constructOffset, constructOffsetB, reportErrorsOffset_of_nonneg i h]

theorem offset_correct_epytext_field (i j : Int) :
    constructOffset .epytext .unknownField i j = i ∧ constructOffset .epytext .badParam i j = i := by
  simp [constructOffset, constructOffsetB]

/-- epytext cross-reference: `get_lineno` returns the paragraph token's `startline` — also when it
is 0 and therefore falsy, because no ancestor carries a line and the walk ends in 0. -/
theorem offset_correct_epytext_xref (i j : Int) : constructOffset .epytext .badXref i j = i := by
  by_cases h : i = 0
  · subst h; simp [constructOffset, constructOffsetB, getLineno, truthy, firstParentLineno]
  · simp [constructOffset, constructOffsetB, getLineno, truthy, h]

/-- reStructuredText field: `_SplitFieldsTranslator` stores `node.line - 1`. -/
theorem offset_correct_rst_field (i j : Int) :
    constructOffset .rst .unknownField i j = i ∧ constructOffset .rst .badParam i j = i := by
  simp [constructOffset, constructOffsetB, docutilsBase]

/-- reStructuredText cross-reference: paragraph line − 1 + newlines before the reference = the
line of the reference itself (`i + j`); the paragraph's first line when `j = 0`. -/
theorem offset_correct_rst_xref (i j : Int) (h : 0 ≤ i) :
    constructOffset .rst .badXref i j = i + j := by
  have : i + 1 ≠ 0 := by omega
  simp [constructOffset, constructOffsetB, docutilsBase, getLineno, truthy, firstParentLineno, this]

/-- reStructuredText markup error: `_EpydocReader.report` stores docutils' 1-based line in a
`ParseError` whose line is 0-based; the offset is one too large for **every** block.
(google and numpy go through the same reader.) -/
theorem offset_rst_markup_error_plus_one (fmt : Fmt) (hf : fmt ≠ .epytext) (i j : Int) (h : 0 ≤ i) :
    constructOffset fmt .markupError i j = i + 1 := by
  have h1 : reportErrorsOffset (some (i + 1)) = i + 1 := reportErrorsOffset_of_nonneg (i + 1) (by omega)
  cases fmt <;> simp_all [constructOffset, constructOffsetB, docutilsBase]

/-! ### `Documentable.report` on an object that has a docstring -/

theorem report_docstring (o : Obj) (sec : Sec) (off : Int) (hs : sec = .docstring ∨ sec = .xref)
    (h : o.docstringLineno ≠ 0) : report o sec off = .num (o.docstringLineno + off) := by
  simp [report, hs, pyOr, h]

theorem secOf_doc (c : Cls) : secOf c = .docstring ∨ secOf c = .xref := by
  cases c <;> simp [secOf]

theorem docObj_lineno_ne (sl : Nat) (doc : List Char) (ln : Int) (im : Bool) (hs : 0 < sl) :
    (docObj sl doc ln im).docstringLineno ≠ 0 := by
  have := extractLinenum_ge sl doc
  simp only [docObj]
  omega

/-- the reported line in closed form, for every format, class and layout -/
theorem reportedLineB_eq (base : Int) (fmt : Fmt) (sl : Nat) (doc : List Char) (ln : Int) (im : Bool)
    (c : Construct) (hs : 0 < sl) :
    reportedLineB base fmt sl doc ln im c =
      .num ((extractLinenum sl doc : Nat) +
        constructOffsetB base fmt c.cls ((c.raw : Int) - (dropped doc : Nat)) c.j) := by
  simp only [reportedLineB]
  rw [report_docstring _ _ _ (secOf_doc c.cls) (docObj_lineno_ne sl doc ln im hs)]
  rfl

/-! ### **reported_line_correct**, one theorem per construct class

Full statement wanted: for every literal with text, the reported line is `sl + raw`, the physical
line of the first line of the block holding the problem.  It is false today for every class on
literals with an over-indented leading blank line (`reported_line_correct_counterexample`), hence
the layout hypothesis `noOverIndent`; and false for reStructuredText markup errors on every literal
(`reported_line_correct_rst_error_counterexample`).

`hr : dropped doc ≤ raw` says the block is not one of the blank lines `cleandoc` removed. -/

theorem reported_line_correct_epytext_error_partial (sl : Nat) (doc : List Char) (ln : Int)
    (im : Bool) (raw j : Nat) (hs : 0 < sl) (hl : noOverIndent doc = true) (ht : hasText doc = true)
    (hr : dropped doc ≤ raw) :
    reportedLine .epytext sl doc ln im ⟨.markupError, raw, j⟩ = .num ((sl : Int) + raw) := by
  simp only [reportedLine]
  rw [reportedLineB_eq _ _ _ _ _ _ _ hs, docstring_lineno_correct_partial sl doc hl ht]
  have := offset_correct_epytext_error ((raw : Int) - (dropped doc : Nat)) j (by omega)
  simp only [constructOffset] at this
  simp only [this]
  congr 1
  push_cast
  omega

/-- unknown field and documented-parameter-does-not-exist, epytext and reStructuredText -/
theorem reported_line_correct_field_partial (fmt : Fmt) (cls : Cls) (sl : Nat) (doc : List Char)
    (ln : Int) (im : Bool) (raw j : Nat) (hf : fmt = .epytext ∨ fmt = .rst)
    (hc : cls = .unknownField ∨ cls = .badParam) (hs : 0 < sl)
    (hl : noOverIndent doc = true) (ht : hasText doc = true) :
    reportedLine fmt sl doc ln im ⟨cls, raw, j⟩ = .num ((sl : Int) + raw) := by
  simp only [reportedLine]
  rw [reportedLineB_eq _ _ _ _ _ _ _ hs, docstring_lineno_correct_partial sl doc hl ht]
  have h : constructOffsetB docutilsBase fmt cls ((raw : Int) - (dropped doc : Nat)) j
      = (raw : Int) - (dropped doc : Nat) := by
    rcases hf with rfl | rfl <;> rcases hc with rfl | rfl <;>
      simp [constructOffsetB, docutilsBase]
  simp only [h]
  congr 1
  push_cast
  omega

theorem reported_line_correct_epytext_xref_partial (sl : Nat) (doc : List Char) (ln : Int)
    (im : Bool) (raw j : Nat) (hs : 0 < sl) (hl : noOverIndent doc = true) (ht : hasText doc = true) :
    reportedLine .epytext sl doc ln im ⟨.badXref, raw, j⟩ = .num ((sl : Int) + raw) := by
  simp only [reportedLine]
  rw [reportedLineB_eq _ _ _ _ _ _ _ hs, docstring_lineno_correct_partial sl doc hl ht]
  have := offset_correct_epytext_xref ((raw : Int) - (dropped doc : Nat)) j
  simp only [constructOffset] at this
  simp only [this]
  congr 1
  push_cast
  omega

/-- reStructuredText cross-reference: the line of the reference itself, `sl + raw + j`
(= the first line of its paragraph / item / field when the reference is on that line). -/
theorem reported_line_correct_rst_xref_partial (sl : Nat) (doc : List Char) (ln : Int)
    (im : Bool) (raw j : Nat) (hs : 0 < sl) (hl : noOverIndent doc = true) (ht : hasText doc = true)
    (hr : dropped doc ≤ raw) :
    reportedLine .rst sl doc ln im ⟨.badXref, raw, j⟩ = .num ((sl : Int) + raw + j) := by
  simp only [reportedLine]
  rw [reportedLineB_eq _ _ _ _ _ _ _ hs, docstring_lineno_correct_partial sl doc hl ht]
  have := offset_correct_rst_xref ((raw : Int) - (dropped doc : Nat)) j (by omega)
  simp only [constructOffset] at this
  simp only [this]
  congr 1
  push_cast
  omega

/-- reStructuredText markup error: right **only if docutils counted lines from 0** (`base = 0`),
which it does not (`docutilsBase = 1`; the `reports` correspondence stream confirms the 1). -/
theorem reported_line_correct_rst_error_partial (base : Int) (hb : base = 0) (sl : Nat)
    (doc : List Char) (ln : Int) (im : Bool) (raw j : Nat) (hs : 0 < sl)
    (hl : noOverIndent doc = true) (ht : hasText doc = true) (hr : dropped doc ≤ raw) :
    reportedLineB base .rst sl doc ln im ⟨.markupError, raw, j⟩ = .num ((sl : Int) + raw) := by
  subst hb
  rw [reportedLineB_eq _ _ _ _ _ _ _ hs, docstring_lineno_correct_partial sl doc hl ht]
  have : constructOffsetB 0 .rst .markupError ((raw : Int) - (dropped doc : Nat)) j
      = (raw : Int) - (dropped doc : Nat) := by
    simp [constructOffsetB, reportErrorsOffset_of_nonneg ((raw : Int) - (dropped doc : Nat)) (by omega)]
  simp only [this]
  congr 1
  push_cast
  omega

/-- with the real convention the line is one too high on every well laid out literal -/
theorem reported_line_rst_error_plus_one (sl : Nat) (doc : List Char) (ln : Int) (im : Bool)
    (raw j : Nat) (hs : 0 < sl) (hl : noOverIndent doc = true) (ht : hasText doc = true)
    (hr : dropped doc ≤ raw) :
    reportedLine .rst sl doc ln im ⟨.markupError, raw, j⟩ = .num ((sl : Int) + raw + 1) := by
  simp only [reportedLine]
  rw [reportedLineB_eq _ _ _ _ _ _ _ hs, docstring_lineno_correct_partial sl doc hl ht]
  have := offset_rst_markup_error_plus_one .rst (by decide) ((raw : Int) - (dropped doc : Nat)) j (by omega)
  simp only [constructOffset] at this
  simp only [this]
  congr 1
  push_cast
  omega

/-- `def f():⏎    """⏎    Text *oops⏎    """`: literal on line 2, paragraph on line 3 (raw 1),
reported on line 4. -/
theorem reported_line_correct_rst_error_counterexample :
    let doc := "\n    Text *oops\n    ".toList
    noOverIndent doc = true ∧ hasText doc = true ∧
      reportedLine .rst 2 doc 1 false ⟨.markupError, 1, 0⟩ = .num 4 ∧
      reportedLine .rst 2 doc 1 false ⟨.badXref, 1, 0⟩ = .num 3 := by decide

/-- over-indented leading blank line: every class is one line too high (epytext cross-reference and
unknown field planted on raw line 2 = physical line 4, reported on line 5). -/
theorem reported_line_correct_counterexample :
    let doc := "\n        \n    Text L{x}.\n    @foo: bar\n    ".toList
    noOverIndent doc = false ∧
      reportedLine .epytext 2 doc 1 false ⟨.badXref, 2, 0⟩ = .num 5 ∧
      reportedLine .epytext 2 doc 1 false ⟨.unknownField, 3, 0⟩ = .num 6 := by decide

-- non-vacuity of the hypotheses of the `_partial` theorems
example : let doc := "  Summary `x`.\n\n    - item *oops\n      more\n\n    :foo: bar\n    ".toList
    noOverIndent doc = true ∧ hasText doc = true ∧ dropped doc ≤ 2 ∧
      reportedLine .rst 7 doc 6 false ⟨.unknownField, 5, 0⟩ = .num 12 := by decide

/-! ### inherited docstrings: the report stays with the docstring -/

/-- **inherited_report_in_source**: when an object without docstring shows the docstring written
on `source`, every problem is reported in `source`'s file, on the line computed from `source`'s
`docstring_lineno` — independent of the inheriting object (its file, its `linenumber`). -/
theorem inherited_report_in_source (source obj : Located) (sec : Sec) (off : Int) :
    reportInherited source obj sec off = (source.file, report source.obj sec off) := rfl

theorem inherited_report_independent (source obj obj' : Located) (sec : Sec) (off : Int) :
    reportInherited source obj sec off = reportInherited source obj' sec off := rfl

/-- with the layout hypothesis the inherited report names the physical line of the block in the
file that contains the docstring (field classes; the other classes compose the same way) -/
theorem inherited_field_line_correct_partial (fmt : Fmt) (cls : Cls) (sl : Nat) (doc : List Char)
    (source obj : Located) (raw j : Nat) (hf : fmt = .epytext ∨ fmt = .rst)
    (hc : cls = .unknownField ∨ cls = .badParam) (hs : 0 < sl)
    (hl : noOverIndent doc = true) (ht : hasText doc = true) :
    reportedAt fmt sl doc source obj ⟨cls, raw, j⟩ = (source.file, .num ((sl : Int) + raw)) := by
  have := reported_line_correct_field_partial fmt cls sl doc source.obj.linenumber source.obj.isModule
    raw j hf hc hs hl ht
  simp only [reportedLine, reportedLineB] at this
  simp only [reportedAt, reportInherited, reportTarget, constructOffset, this]

/-- what reporting on the inheriting object instead would print: its file, and a line derived
from its own `def` when it has no docstring — a place that contains no docstring at all. -/
theorem report_on_inheriting_object_wrong (source obj : Located) (off : Int)
    (hf : obj.file ≠ source.file) :
    (obj.file, report obj.obj .docstring off) ≠ reportInherited source obj .docstring off := by
  intro h
  simp only [reportInherited, reportTarget, Prod.mk.injEq] at h
  exact hf h.1

example : reportedAt .epytext 5 "\n Text L{x}".toList ⟨1, ⟨0, 4, false⟩⟩ ⟨2, ⟨0, 12, false⟩⟩
    ⟨.badXref, 1, 0⟩ = (1, .num 6) := by decide

/-! ### moved (re-exported) objects -/

/-- **report_invariant_under_move**: a re-export (`reparent`) changes neither the file nor the
line of any report about the object — both come from what was recorded at creation. -/
theorem report_invariant_under_move (p : Placed) (newModuleFile : Nat) (sec : Sec) (off : Int) :
    reportPlaced (p.reparent newModuleFile) sec off = reportPlaced p sec off := rfl

/-- what using the current module's file instead would print for a moved object -/
theorem report_by_current_module_wrong (p : Placed) (f : Nat) (sec : Sec) (off : Int)
    (h : f ≠ p.srcFile) :
    ((p.reparent f).moduleFile, report p.obj sec off) ≠ reportPlaced (p.reparent f) sec off := by
  intro e
  simp only [reportPlaced, Placed.reparent, Placed.descriptionFile, Prod.mk.injEq] at e
  exact h e.1

example : reportPlaced ((⟨1, 1, ⟨5, 3, false⟩⟩ : Placed).reparent 2) .docstring 2 = (1, .num 7) := by decide

/-! ### reStructuredText fields through the three callers of `_add_field` -/

/-- plain fields, bullet entries and definition-list entries of consolidated fields all get the
0-based line of their first line: each caller passes docutils' 1-based line, `_add_field` takes 1 off -/
theorem consolidated_field_line_correct (c : FieldCaller) (i : Int) :
    rstFieldLineno docutilsBase c i = i := by
  cases c <;> simp [rstFieldLineno, addFieldLineno, callerLine, docutilsBase]

/-- hence a bad parameter documented by such an entry is reported on the entry's first line
(under the layout hypothesis) -/
theorem reported_line_correct_consolidated_partial (c : FieldCaller) (sl : Nat) (doc : List Char)
    (ln : Int) (im : Bool) (raw : Nat) (hs : 0 < sl) (hl : noOverIndent doc = true)
    (ht : hasText doc = true) :
    report (docObj sl doc ln im) .docstring
      (rstFieldLineno docutilsBase c ((raw : Int) - (dropped doc : Nat))) = .num ((sl : Int) + raw) := by
  rw [consolidated_field_line_correct, report_docstring _ _ _ (Or.inl rfl) (docObj_lineno_ne sl doc ln im hs)]
  simp only [docObj, docstring_lineno_correct_partial sl doc hl ht]
  congr 1
  push_cast
  omega

/-- a cross-reference in a definition-list *classifier* is reported on the entry's line
(under the layout hypothesis) — holds since pydoctor c88d52b -/
theorem classifier_xref_line_correct_partial (sl : Nat) (doc : List Char) (ln : Int) (im : Bool)
    (raw : Nat) (hs : 0 < sl) (hl : noOverIndent doc = true) (ht : hasText doc = true)
    (hr : dropped doc ≤ raw) :
    report (docObj sl doc ln im) .xref
      (classifierXrefOffset docutilsBase ((raw : Int) - (dropped doc : Nat))) = .num ((sl : Int) + raw) := by
  rw [report_docstring _ _ _ (Or.inr rfl) (docObj_lineno_ne sl doc ln im hs)]
  have h1 : (raw : Int) - (dropped doc : Nat) + 1 ≠ 0 := by omega
  simp only [docObj, docstring_lineno_correct_partial sl doc hl ht, classifierXrefOffset, callerLine,
    docutilsBase, getLineno, truthy, firstParentLineno]
  simp [h1]
  push_cast
  omega

example : let doc := "\n    Sum.\n\n    :Parameters:\n      a : `T`\n        text\n    ".toList
    report (docObj 2 doc 1 false) .xref (classifierXrefOffset docutilsBase (4 - (dropped doc : Nat))) = .num 6 := by
  decide

/-- historical (before c88d52b): offset 0, i.e. the docstring's first line wherever the entry is -/
theorem classifier_xref_on_first_line_old (sl : Nat) (doc : List Char) (ln : Int) (im : Bool) (hs : 0 < sl) :
    report (docObj sl doc ln im) .xref classifierXrefOffsetOld = .num (extractLinenum sl doc : Nat) := by
  rw [report_docstring _ _ _ (Or.inr rfl) (docObj_lineno_ne sl doc ln im hs)]
  simp [docObj, classifierXrefOffsetOld, getLineno, truthy, firstParentLineno]

/-- historical witness: entry ``a : `T` `` on raw line 4 (physical 6) was reported on line 3 -/
theorem classifier_xref_old_counterexample :
    let doc := "\n    Sum.\n\n    :Parameters:\n      a : `T`\n        text\n    ".toList
    noOverIndent doc = true ∧
      report (docObj 2 doc 1 false) .xref classifierXrefOffsetOld = .num 3 ∧ (2 : Int) + 4 ≠ 3 := by decide

/-! ### **shift** -/

/-- Moving the definition down by `k` lines (string literal on `sl + k`, whatever happens to the
object's own `linenumber`) moves every reported line by exactly `k` — every format, class, layout. -/
theorem shift (fmt : Fmt) (sl k : Nat) (doc : List Char) (ln ln' : Int) (im : Bool) (c : Construct)
    (hs : 0 < sl) :
    ∃ n, reportedLine fmt sl doc ln im c = .num n ∧
      reportedLine fmt (sl + k) doc ln' im c = .num (n + k) := by
  refine ⟨_, reportedLineB_eq _ _ _ _ _ _ _ hs, ?_⟩
  simp only [reportedLine]
  rw [reportedLineB_eq _ _ _ _ _ _ _ (by omega : 0 < sl + k), extractLinenum_shift]
  congr 1
  push_cast
  omega

/-- the same at the level of `Documentable.report`, for any offset a parser produced -/
theorem report_shift (o : Obj) (sec : Sec) (off k : Int) (hs : sec = .docstring ∨ sec = .xref)
    (h : o.docstringLineno ≠ 0) (hk : o.docstringLineno + k ≠ 0) :
    ∃ n, report o sec off = .num n ∧
      report { o with docstringLineno := o.docstringLineno + k, linenumber := o.linenumber + k } sec off
        = .num (n + k) := by
  refine ⟨_, report_docstring o sec off hs h, ?_⟩
  rw [report_docstring _ _ _ hs (by simpa using hk)]
  simp only [Line.num.injEq]
  omega

example : ∃ n, reportedLine .epytext 3 "\n  T L{x}".toList 2 false ⟨.badXref, 1, 0⟩ = .num n ∧
    reportedLine .epytext (3 + 5) "\n  T L{x}".toList 7 false ⟨.badXref, 1, 0⟩ = .num (n + 5) :=
  shift _ _ _ _ _ _ _ _ (by decide)

/-! ### **converted_formats_in_range** (google, numpy)

pydoctor adds the line index *in the text napoleon produced* to `docstring_lineno`; nothing maps it
back or clamps it.  Full statement wanted: for every offset the parsers can produce the reported
line lies on a line of the literal.  What holds: it does when the offset is smaller than the
number of lines of the cleaned docstring — an assumption about napoleon (that the converted text
has no construct further down than the original is long) which is false as soon as a section
expands (`:param x:` + `:type x:` per documented parameter). -/
theorem converted_formats_in_range_partial (sl : Nat) (doc : List Char) (ln : Int) (im : Bool)
    (sec : Sec) (off : Int) (hsec : sec = .docstring ∨ sec = .xref) (hs : 0 < sl)
    (hl : noOverIndent doc = true) (ht : hasText doc = true)
    (h0 : 0 ≤ off) (hoff : off < (cleandocLines doc).length) :
    inSpan sl doc (report (docObj sl doc ln im) sec off) = true := by
  rw [report_docstring _ _ _ hsec (docObj_lineno_ne sl doc ln im hs)]
  have h1 := cleandocLines_length_le doc
  rw [splitNL_length] at h1
  simp only [inSpan, docObj, docstring_lineno_correct_partial sl doc hl ht, Bool.and_eq_true,
    decide_eq_true_eq]
  constructor
  · push_cast; omega
  · push_cast; omega

/-- numpy docstring on lines 2–7 (`Parameters` section with two typed parameters): the converted
text puts `:type b:` on its line 6; reported line 9 is past the closing quotes. -/
theorem converted_formats_in_range_counterexample :
    let doc := "\nParameters\n----------\na: int\nb: int\n".toList
    noOverIndent doc = true ∧ hasText doc = true ∧ (cleandocLines doc).length = 4 ∧
      report (docObj 2 doc 1 false) .docstring 6 = .num 9 ∧
      inSpan 2 doc (report (docObj 2 doc 1 false) .docstring 6) = false := by decide

example : inSpan 2 "\nParameters\n----------\na: int\nb: int\n".toList
    (report (docObj 2 "\nParameters\n----------\na: int\nb: int\n".toList 1 false) .docstring 3) = true := by
  decide

/-! ### **every_report_counted**, **exit_status** -/

theorem msg_violations (s : Sys) (sec m : Nat) (th top : Int) (once : Bool) :
    (s.msg sec m th top once).violations =
      s.violations + (if once && s.onceMsgs.contains (sec, m) then 0 else if th < 0 then 1 else 0) := by
  unfold Sys.msg
  by_cases h1 : (once && s.onceMsgs.contains (sec, m)) = true
  · rw [if_pos h1, if_pos h1]; simp
  · rw [if_neg h1, if_neg h1]
    by_cases h2 : th < 0 <;> simp [h2]

theorem msg_parseErrors (s : Sys) (sec m : Nat) (th top : Int) (once : Bool) :
    (s.msg sec m th top once).parseErrors = s.parseErrors := by
  unfold Sys.msg
  by_cases h1 : (once && s.onceMsgs.contains (sec, m)) = true
  · rw [if_pos h1]
  · rw [if_neg h1]

/-- **every_report_counted**: each `Documentable.report` (default threshold) adds exactly one to
`System.violations`, whatever the verbosity. -/
theorem every_report_counted (s : Sys) (sec m : Nat) :
    (s.report sec m).violations = s.violations + 1 := by
  simp [Sys.report, msg_violations]

/-- a message with a negative threshold that got printed was counted -/
theorem printed_is_counted (s : Sys) (sec m : Nat) (th top : Int) (once : Bool) (hth : th < 0)
    (hp : (s.msg sec m th top once).printed = s.printed + 1) :
    (s.msg sec m th top once).violations = s.violations + 1 := by
  rw [msg_violations]
  by_cases h1 : (once && s.onceMsgs.contains (sec, m)) = true
  · exfalso
    unfold Sys.msg at hp
    rw [if_pos h1] at hp
    omega
  · rw [if_neg h1]; simp [hth]

theorem reportN_violations (s : Sys) (sec : Nat) (ms : List Nat) :
    (s.reportN sec ms).violations = s.violations + ms.length := by
  induction ms generalizing s with
  | nil => simp [Sys.reportN]
  | cons m ms ih => simp [Sys.reportN, ih, every_report_counted]; omega

theorem reportN_parseErrors (s : Sys) (sec : Nat) (ms : List Nat) :
    (s.reportN sec ms).parseErrors = s.parseErrors := by
  induction ms generalizing s with
  | nil => simp [Sys.reportN]
  | cons m ms ih => simp [Sys.reportN, ih, Sys.report, msg_parseErrors]

theorem any_touch (k : Nat) (pe : List (Nat × List Nat)) :
    (touch k pe).any (fun p => !p.2.isEmpty) = pe.any (fun p => !p.2.isEmpty) := by
  unfold touch
  cases lookup k pe <;> simp

theorem lookup_any (k : Nat) (pe : List (Nat × List Nat)) (v : List Nat)
    (h : lookup k pe = some v) (hv : v.isEmpty = false) : pe.any (fun p => !p.2.isEmpty) = true := by
  induction pe with
  | nil => simp [lookup] at h
  | cons p ps ih =>
    obtain ⟨k', v'⟩ := p
    simp only [lookup] at h
    by_cases hk : k' = k
    · simp only [hk, if_true, Option.some.injEq] at h
      subst h
      simp [hv]
    · simp only [hk, if_false] at h
      simp [ih h]

/-- system states a run can reach: start, messages, `reportErrors` -/
inductive Reachable : Sys → Prop
  | init (v : Int) : Reachable { verbosity := v }
  | msg {s} (sec m : Nat) (th top : Int) (once : Bool) : Reachable s → Reachable (s.msg sec m th top once)
  | reportErrors {s} (sec obj : Nat) (errs : List Nat) (phase name : Nat) :
      Reachable s → Reachable (s.reportErrors sec obj errs phase name)

/-- whenever some object is recorded in `parse_errors`, at least one violation was counted -/
theorem reachable_parse_errors_counted (s : Sys) (h : Reachable s) :
    anyParseErrors s = true → 0 < s.violations := by
  induction h with
  | init v => simp [anyParseErrors]
  | msg sec m th top once _ ih =>
    intro hp
    simp only [anyParseErrors, msg_parseErrors] at hp
    have := ih hp
    rw [msg_violations]; omega
  | @reportErrors s sec obj errs phase name _ ih =>
    intro hp
    unfold Sys.reportErrors at hp ⊢
    by_cases he : errs.isEmpty = true
    · simp only [he, if_true] at hp ⊢; exact ih hp
    · simp only [he, Bool.false_eq_true, if_false] at hp ⊢
      split
      · rename_i hc
        simp only [hc, if_true, anyParseErrors, any_touch] at hp
        exact ih hp
      · rw [reportN_violations]
        have : 0 < errs.length := by
          cases errs with
          | nil => simp at he
          | cons _ _ => simp
        simp only
        omega

theorem summary_violations (s : Sys) (n : Nat) : (s.summary n).violations = s.violations + n := by
  induction n generalizing s with
  | zero => simp [Sys.summary]
  | succ n ih => simp [Sys.summary, ih, msg_violations]; omega

/-- `driver.main`, for **any** system state: the summary lines are themselves counted, so with
`-W` a non-empty `parse_errors['docstring']` alone already gives 3. -/
theorem exit_status_raw (s : Sys) (w : Bool) :
    let dse := ((lookup secDocstring (touch secDocstring s.parseErrors)).getD [])
    ((mainTail s w).1 = 3 ↔ (w = true ∧ (0 < s.violations ∨ dse.isEmpty = false))) ∧
    ((mainTail s w).1 = 2 ↔ (¬(w = true ∧ (0 < s.violations ∨ dse.isEmpty = false)) ∧ anyParseErrors s = true)) ∧
    ((mainTail s w).1 = 0 ↔ (¬(w = true ∧ 0 < s.violations) ∧ anyParseErrors s = false)) := by
  intro dse
  have hany : anyParseErrors { s with parseErrors := touch secDocstring s.parseErrors } = anyParseErrors s := by
    simp [anyParseErrors, any_touch]
  have hdse : dse.isEmpty = false → anyParseErrors s = true := by
    intro hd
    rw [← hany]
    simp only [anyParseErrors]
    cases hl : lookup secDocstring (touch secDocstring s.parseErrors) with
    | none => simp [dse, hl] at hd
    | some v =>
      have : dse = v := by simp [dse, hl]
      exact lookup_any _ _ v hl (this ▸ hd)
  unfold mainTail
  simp only [hany]
  by_cases hd : dse.isEmpty = true
  · have hd' : ((lookup secDocstring (touch secDocstring s.parseErrors)).getD []).isEmpty = true := hd
    simp only [hd', Bool.not_true, Bool.false_eq_true, if_false]
    by_cases ha : anyParseErrors s = true <;> by_cases hw : w = true <;>
      by_cases hv : s.violations = 0 <;> simp [ha, hw, hv, hd] <;> omega
  · have hd1 : dse.isEmpty = false := by simpa using hd
    have hd' : ((lookup secDocstring (touch secDocstring s.parseErrors)).getD []).isEmpty = false := hd1
    have ha := hdse hd1
    simp only [hd', Bool.not_false, if_true, summary_violations]
    by_cases hw : w = true <;> simp [ha, hw, hd1] <;> omega

/-- **exit_status** for the states a run reaches: with `--warnings-as-errors` the status is 3
exactly when at least one problem was counted; otherwise it is 2 exactly when some docstring or
displayed expression could not be parsed, and 0 otherwise.  (The summary printed by `main` is
counted too; it cannot change the equivalence because `parse_errors` is only filled together
with a counted report.) -/
theorem exit_status (s : Sys) (w : Bool) (h : Reachable s) :
    ((mainTail s w).1 = 3 ↔ (w = true ∧ 0 < s.violations)) ∧
    ((mainTail s w).1 = 2 ↔ (¬(w = true ∧ 0 < s.violations) ∧ anyParseErrors s = true)) ∧
    ((mainTail s w).1 = 0 ↔ (¬(w = true ∧ 0 < s.violations) ∧ anyParseErrors s = false)) := by
  have inv := reachable_parse_errors_counted s h
  obtain ⟨h3, h2, h0⟩ := exit_status_raw s w
  have key : ((lookup secDocstring (touch secDocstring s.parseErrors)).getD []).isEmpty = false →
      0 < s.violations := by
    intro hd
    apply inv
    have hany : anyParseErrors { s with parseErrors := touch secDocstring s.parseErrors } = anyParseErrors s := by
      simp [anyParseErrors, any_touch]
    rw [← hany]
    cases hl : lookup secDocstring (touch secDocstring s.parseErrors) with
    | none => simp [hl] at hd
    | some v => exact lookup_any _ _ v hl (by simpa [hl] using hd)
  refine ⟨?_, ?_, h0⟩
  · rw [h3]
    constructor
    · rintro ⟨hw, hv | hd⟩
      · exact ⟨hw, hv⟩
      · exact ⟨hw, key hd⟩
    · rintro ⟨hw, hv⟩; exact ⟨hw, Or.inl hv⟩
  · rw [h2]
    constructor
    · rintro ⟨hn, ha⟩
      exact ⟨fun ⟨hw, hv⟩ => hn ⟨hw, Or.inl hv⟩, ha⟩
    · rintro ⟨hn, ha⟩
      refine ⟨?_, ha⟩
      rintro ⟨hw, hv | hd⟩
      · exact hn ⟨hw, hv⟩
      · exact hn ⟨hw, key hd⟩

-- non-vacuity: a reachable state with a parse error; the three outcomes
example : Reachable (({ verbosity := 0 } : Sys).reportErrors 0 7 [1, 2]) :=
  .reportErrors 0 7 [1, 2] 0 7 (.init 0)
example : (mainTail (({ verbosity := 0 } : Sys).reportErrors 0 7 [1, 2]) true).1 = 3 ∧
    (mainTail (({ verbosity := 0 } : Sys).reportErrors 0 7 [1, 2]) false).1 = 2 ∧
    (mainTail (({ verbosity := 0 } : Sys).report 3 1) false).1 = 0 ∧
    (mainTail (({ verbosity := 0 } : Sys).report 3 1) true).1 = 3 ∧
    (mainTail ({ verbosity := 0 } : Sys) true).1 = 0 := by decide

/-! ## round 3 -/

/-! ### string literals as written: exact divergence of `extract_docstring_linenum`'s approximation -/

theorem piece_identity (p : Piece) :
    p.physNl + (if p = .escNl then 1 else 0) = p.valNl + (if p = .cont then 1 else 0) := by
  cases p <;> simp [Piece.physNl, Piece.valNl]

/-- physical newlines + `\n` escapes = value newlines + continuation breaks -/
theorem phys_vs_value (ps : List Piece) : physNls ps + escNls ps = valNls ps + conts ps := by
  induction ps with
  | nil => simp [physNls, escNls, valNls, conts]
  | cons p ps ih =>
    have h := piece_identity p
    simp only [physNls, escNls, valNls, conts, List.map_cons, List.sum_cons, List.filter_cons] at ih ⊢
    by_cases h1 : p = .escNl <;> by_cases h2 : p = .cont <;> simp_all <;> omega

/-- the value has exactly `valNls` newlines when ordinary characters are not newlines -/
theorem valueOf_newlines (ps : List Piece) (h : ∀ c, Piece.ch c ∈ ps → c ≠ '\n') :
    newlines (valueOf ps) = valNls ps := by
  induction ps with
  | nil => simp [newlines, valueOf, valNls]
  | cons p ps ih =>
    have ih' := ih (fun c hc => h c (List.mem_cons_of_mem _ hc))
    simp only [newlines, valueOf, valNls, List.flatMap_cons, List.filter_append, List.length_append,
      List.map_cons, List.sum_cons] at ih' ⊢
    rw [ih']
    cases p with
    | ch c =>
      have := h c (by simp)
      simp [Piece.value, Piece.valNl, this]
    | nl => simp [Piece.value, Piece.valNl]
    | cont => simp [Piece.value, Piece.valNl]
    | escNl => simp [Piece.value, Piece.valNl]

/-- **literal_line_divergence**: the physical line of any position of a literal, against the line
`sl + (newlines of the value before it)` that pydoctor's arithmetic uses: they differ by exactly
(continuation breaks before the position) − (`\n` escapes before it). -/
theorem literal_line_divergence (sl : Nat) (ps : List Piece) (k : Nat) :
    physLineAt sl ps k + escNls (ps.take k) = sl + valueLineAt ps k + conts (ps.take k) := by
  have := phys_vs_value (ps.take k)
  simp only [physLineAt, valueLineAt]
  omega

/-- no continuation break and no `\n` escape before the position: the arithmetic is exact -/
theorem literal_line_exact (sl : Nat) (ps : List Piece) (k : Nat)
    (h1 : conts (ps.take k) = 0) (h2 : escNls (ps.take k) = 0) :
    physLineAt sl ps k = sl + valueLineAt ps k := by
  have := literal_line_divergence sl ps k
  omega

/-- `"""a\⏎b⏎X"""` on line 3: `X` is on physical line 5, on value line 1 (3 + 1 = 4). -/
theorem literal_line_continuation_counterexample :
    let ps := [Piece.ch 'a', .cont, .ch 'b', .nl, .ch 'X']
    valueOf ps = "ab\nX".toList ∧ physLineAt 3 ps 4 = 5 ∧ 3 + valueLineAt ps 4 = 4 := by decide

/-! ### `get_lineno` with the rawsource search -/

theorem findSub_some (needle : List Char) (hay : List Char) (i : Nat)
    (h : findSub needle hay = some i) : needle.isPrefixOf (hay.drop i) = true := by
  induction hay generalizing i with
  | nil =>
    simp only [findSub] at h
    split at h
    · rename_i he
      injection h with h; subst h
      have : needle = [] := by simpa using he
      simp [this]
    · cases h
  | cons c cs ih =>
    simp only [findSub] at h
    split at h
    · rename_i hp
      injection h with h; subst h
      simpa using hp
    · cases hf : findSub needle cs with
      | none => simp [hf] at h
      | some j =>
        simp [hf] at h
        subst h
        simpa using ih j hf

/-- reStructuredText cross-reference, with docutils' data: paragraph on (1-based) line `i + 1`,
reference's rawsource first found at index `idx` of the paragraph's: offset = `i` + newlines before `idx` -/
theorem rst_xref_offset_raw (i : Int) (h : 0 ≤ i) (ref para : List Char) (idx : Nat)
    (hr : ref ≠ []) (hp : para ≠ []) (hf : findSub ref para = some idx) :
    getLinenoRaw none ref [⟨some (i + 1), para⟩] = i + (newlines (para.take idx) : Nat) := by
  have h1 : i + 1 ≠ 0 := by omega
  have h2 : para.isEmpty = false := by cases para <;> simp_all
  have h3 : ref.isEmpty = false := by cases ref <;> simp_all
  simp [getLinenoRaw, getLineno, truthy, firstParentLineno, ancOf, h1, h2, h3, hf]

example : getLinenoRaw none "`x`".toList [⟨some 3, "a b\nc `x` d".toList⟩] = 3 := by decide

/-! ### `--process-types`: type-field warnings -/

/-- `append_warnings(…, lineno=field.lineno+1)`: the offset is the field's line **plus one**.
Full statement wanted: `typeWarningOffset i = i`. -/
theorem type_warning_one_low (i : Int) (h : 0 ≤ i) : typeWarningOffset i = i + 1 :=
  reportErrorsOffset_of_nonneg (i + 1) (by omega)

/-- `@type a: list(str` on raw line 3 (physical 5) of a literal on line 2: reported on line 6 -/
theorem type_warning_counterexample :
    let doc := "\n    S.\n\n    @type a: list(str\n    ".toList
    noOverIndent doc = true ∧
      report (docObj 2 doc 1 false) .docstring
        (typeWarningOffset (fieldStoredLineno docutilsBase .epytext ((3 : Int) - (dropped doc : Nat)))) = .num 6 := by
  decide

/-! ### the parser-level numbers behind `constructOffset` -/

theorem constructOffset_error_eq (base : Int) (fmt : Fmt) (i j : Int) :
    constructOffsetB base fmt .markupError i j = reportErrorsOffset (some (errorStoredLinenum base fmt i)) := by
  cases fmt <;> rfl

theorem constructOffset_field_eq (base : Int) (fmt : Fmt) (i j : Int) :
    constructOffsetB base fmt .unknownField i j = fieldStoredLineno base fmt i ∧
    constructOffsetB base fmt .badParam i j = fieldStoredLineno base fmt i := by
  cases fmt <;> exact ⟨rfl, rfl⟩

/-! ### an attribute documented by a class field and / or by its own docstring -/

/-- only `@ivar x:` in the class docstring: the field's text is rendered and a problem on line
`off` of the class docstring is reported at `classDl + off` -/
theorem attr_field_only_correct (classDl f off : Int) :
    let a := ({} : AttrDoc).extractField classDl f
    a.rendersField = true ∧ a.xrefLine classDl off = classDl + off := by
  simp [AttrDoc.extractField, AttrDoc.rendersField, AttrDoc.xrefLine, AttrDoc.reportBase]

/-- only its own docstring -/
theorem attr_own_only_correct (classDl dl off : Int) :
    let a := ({} : AttrDoc).setDocstring dl
    a.rendersField = false ∧ a.xrefLine classDl off = dl + off := by
  simp [AttrDoc.setDocstring, AttrDoc.rendersField, AttrDoc.xrefLine, AttrDoc.reportBase]

/-- both: the *field's* text is rendered but located with the *own* docstring's line.
Full statement wanted: `a.xrefLine classDl off = classDl + off`; it holds only when the two
docstrings start on the same line (they never do). -/
theorem attr_both_partial (classDl f dl off : Int) :
    let a := (({} : AttrDoc).extractField classDl f).setDocstring dl
    a.rendersField = true ∧ a.xrefLine classDl off = dl + off ∧
      (a.xrefLine classDl off = classDl + off ↔ dl = classDl) := by
  simp [AttrDoc.extractField, AttrDoc.setDocstring, AttrDoc.rendersField, AttrDoc.xrefLine,
    AttrDoc.reportBase]

/-- class docstring from line 3 with `@ivar x: L{zq}` on its line 2 (physical 5), inline docstring
of `x` from line 11: `zq` is reported on line 13 -/
theorem attr_both_counterexample :
    ((({} : AttrDoc).extractField 3 2).setDocstring 11).xrefLine 3 2 = 13 ∧ (3 : Int) + 2 = 5 := by decide

/-! ### napoleon parameter sections: the converted line against the written line -/

theorem sum_out_google (es : List Entry) :
    (es.map (Entry.outLines false)).sum = (es.map (Entry.inLines false)).sum + typedCount es := by
  induction es with
  | nil => simp [typedCount]
  | cons e es ih =>
    simp only [List.map_cons, List.sum_cons, typedCount, List.filter_cons] at ih ⊢
    by_cases h : e.typed <;> simp [Entry.outLines, Entry.inLines, Entry.paramLines, h] <;> omega

/-- google: `:param name:` of entry `k` sits `(typed entries before it) − 1` lines below the line
the entry is written on (the header line disappears, every earlier type adds a line) -/
theorem napoleon_param_divergence_google (hdr : Nat) (es : List Entry) (k : Nat) :
    paramOutLine false hdr es k + 1 = entryInLine false hdr es k + typedCount (es.take k) := by
  simp only [paramOutLine, entryInLine, headerLines, sum_out_google]
  simp; omega

/-- google, section at the end of the docstring: the converted text is longer than the written
one by `typedCount − 1` lines; its last line lies past the last written line iff at least two
entries are typed — exactly the inputs on which a report can leave the docstring. -/
theorem napoleon_google_overflow_iff (hdr : Nat) (es : List Entry) :
    hdr + (es.map (Entry.outLines false)).sum > hdr + 1 + (es.map (Entry.inLines false)).sum ↔
      2 ≤ typedCount es := by
  rw [sum_out_google]; omega

theorem sum_out_numpy (es : List Entry) (h : ∀ e ∈ es, 1 ≤ e.extra) :
    (es.map (Entry.outLines true)).sum + es.length = (es.map (Entry.inLines true)).sum + typedCount es := by
  induction es with
  | nil => simp [typedCount]
  | cons e es ih =>
    have h1 := h e (by simp)
    have ih' := ih (fun x hx => h x (List.mem_cons_of_mem _ hx))
    simp only [List.map_cons, List.sum_cons, typedCount, List.filter_cons, List.length_cons] at ih' ⊢
    by_cases ht : e.typed <;> simp [Entry.outLines, Entry.inLines, Entry.paramLines, ht] <;> omega

/-- numpy (every entry has a description): `:param` of entry `k` is `2 + k − typedBefore` lines
*above* the line the entry is written on -/
theorem napoleon_param_divergence_numpy (hdr : Nat) (es : List Entry) (k : Nat) (hk : k ≤ es.length)
    (h : ∀ e ∈ es, 1 ≤ e.extra) :
    paramOutLine true hdr es k + 2 + k = entryInLine true hdr es k + typedCount (es.take k) := by
  have := sum_out_numpy (es.take k) (fun e he => h e (List.mem_of_mem_take he))
  have hl : (es.take k).length = k := by simp [List.length_take, Nat.min_eq_left hk]
  rw [hl] at this
  simp only [paramOutLine, entryInLine, headerLines, ↓reduceIte]
  omega

example : paramOutLine false 5 [⟨true, 1⟩, ⟨false, 0⟩, ⟨true, 0⟩] 2 = 9 ∧
    entryInLine false 5 [⟨true, 1⟩, ⟨false, 0⟩, ⟨true, 0⟩] 2 = 9 ∧
    typeOutLine false 5 [⟨true, 1⟩, ⟨false, 0⟩, ⟨true, 0⟩] 2 = 10 := by decide

/-- google / numpy: the offset pydoctor uses for a nonexistent parameter is the line of `:param`
in the converted text -/
theorem converted_param_offset (numpy : Bool) (hdr : Nat) (es : List Entry) (k : Nat) :
    convertedParamOffset numpy hdr es k = (paramOutLine numpy hdr es k : Nat) := by
  simp [convertedParamOffset, fieldStoredLineno, docutilsBase]

/-- google: the warning for entry `k` is on the line the entry is written on **iff exactly one
entry before it is typed**; otherwise it is `typedBefore − 1` lines off (one line high for the
first entries, low after the second typed one). -/
theorem google_param_line_correct_iff (hdr : Nat) (es : List Entry) (k : Nat) :
    convertedParamOffset false hdr es k = (entryInLine false hdr es k : Nat) ↔ typedCount (es.take k) = 1 := by
  have := napoleon_param_divergence_google hdr es k
  rw [converted_param_offset]
  omega

theorem google_param_reported_vs_written (hdr : Nat) (es : List Entry) (k : Nat) :
    convertedParamOffset false hdr es k + 1 = (entryInLine false hdr es k : Nat) + (typedCount (es.take k) : Nat) := by
  have := napoleon_param_divergence_google hdr es k
  rw [converted_param_offset]
  omega

/-! ### `obj.__doc__ = "…"` -/

/-- **doc_assignment_line_correct** (full; holds since pydoctor af7dc4e): a problem `off` lines into
the text assigned by a string literal on line `sl` is reported at `extractLinenum sl v + off`, a
line of the assigned literal — whatever docstring or line the definition had. -/
theorem doc_assignment_line_correct (o : Obj) (sec : Sec) (off : Int) (sl : Nat) (v : List Char)
    (hs : sec = .docstring ∨ sec = .xref) (h0 : 0 < sl) :
    reportAfterDocAssignment o sl v sec off = .num ((extractLinenum sl v : Nat) + off) := by
  have hge := extractLinenum_ge sl v
  have hne : ((extractLinenum sl v : Nat) : Int) ≠ 0 := by omega
  simp only [reportAfterDocAssignment, Obj.assignDoc]
  rw [report_docstring _ _ _ hs hne]

/-- with the layout hypothesis this is the physical line of the block (field classes shown; the
other classes compose with the `offset_correct_*` theorems in the same way) -/
theorem doc_assignment_field_line_correct_partial (o : Obj) (sl raw : Nat) (v : List Char) (h0 : 0 < sl)
    (hl : noOverIndent v = true) (ht : hasText v = true) :
    reportAfterDocAssignment o sl v .docstring ((raw : Int) - (dropped v : Nat)) = .num ((sl : Int) + raw) := by
  rw [doc_assignment_line_correct o _ _ sl v (Or.inl rfl) h0, docstring_lineno_correct_partial sl v hl ht]
  congr 1
  push_cast
  omega

example : reportAfterDocAssignment ⟨3, 1, false⟩ 12 "\n    New doc.\n\n    Text L{zq1}.\n    ".toList .xref 2 = .num 15 := by
  decide

/-- historical (before af7dc4e): the assignment left the line base alone -/
theorem doc_assignment_keeps_old_base_old (o : Obj) (sec : Sec) (off : Int) :
    reportAfterDocAssignmentOld o sec off = report o sec off := rfl

/-- historical witness: `def f` with a docstring from line 3; the literal assigned to `f.__doc__` on
line 12 has `zq1` on physical line 15 (offset 2): it was reported on line 5. -/
theorem doc_assignment_old_counterexample :
    let v := "\n    New doc.\n\n    Text L{zq1}.\n    ".toList
    reportAfterDocAssignmentOld ⟨3, 1, false⟩ .xref 2 = .num 5 ∧ extractLinenum 12 v + 2 = 15 := by decide

/-! ## hunter round -/

/-! ### docutils' `splitlines()` line structure -/

theorem filter_blankExtraBreaks (l : List Char) : ((blankExtraBreaks l).filter isExtraBreak).length = 0 := by
  induction l with
  | nil => simp [blankExtraBreaks]
  | cons c cs ih =>
    have hsp : isExtraBreak ' ' = false := by decide
    simp only [blankExtraBreaks, List.map_cons] at ih ⊢
    by_cases h : isExtraBreak c = true
    · simp only [h, if_true, List.filter_cons, hsp]
      simpa using ih
    · have h' : isExtraBreak c = false := by simpa using h
      simp only [h', Bool.false_eq_true, if_false, List.filter_cons]
      simpa using ih

theorem sum_take_zero (ls : List (List Char)) (k : Nat)
    (h : ∀ l ∈ ls, (l.filter isExtraBreak).length = 0) :
    ((ls.take k).map fun l => (l.filter isExtraBreak).length).sum = 0 := by
  induction ls generalizing k with
  | nil => simp
  | cons l ls ih =>
    cases k with
    | zero => simp
    | succ k =>
      simp only [List.take_succ_cons, List.map_cons, List.sum_cons]
      rw [h l (by simp), ih k (fun x hx => h x (List.mem_cons_of_mem _ hx))]

theorem sum_take_map_zero (f : List Char → Nat) (ls : List (List Char)) (k : Nat) (h : ∀ l ∈ ls, f l = 0) :
    ((ls.take k).map f).sum = 0 := by
  induction ls generalizing k with
  | nil => simp
  | cons l ls ih =>
    cases k with
    | zero => simp
    | succ k =>
      simp only [List.take_succ_cons, List.map_cons, List.sum_cons]
      rw [h l (by simp), ih k (fun x hx => h x (List.mem_cons_of_mem _ hx))]

/-- the cleaned docstring has no carriage return (a fortiori no lone one) -/
def noCR (doc : List Char) : Bool := (cleandocLines doc).all fun l => (l.filter (· = '\r')).length == 0

/-- epytext splits on `'\n'` only: what pydoctor prints is `reportedLine`, for every docstring.
(The stream `reports` exercises this with every `splitlines()` boundary inside epytext docstrings.) -/
theorem reportedLineS_epytext (sl : Nat) (doc : List Char) (ln : Int) (im : Bool) (c : Construct) :
    reportedLineS .epytext sl doc ln im c = reportedLine .epytext sl doc ln im c := by
  simp only [reportedLineS, lineShift]
  cases reportedLine .epytext sl doc ln im c <;> simp [shiftLine]

/-- **reportedLineS_eq_partial** (reStructuredText).  Since ce72216 the extra `splitlines()`
boundaries U+001C–1E, U+0085, U+2028, U+2029 are blanked before docutils sees the text; a lone
`'\r'` is not, and docutils breaks the line there.  Full statement wanted: no hypothesis. -/
theorem reportedLineS_eq_partial (sl : Nat) (doc : List Char) (ln : Int) (im : Bool) (c : Construct)
    (h : noCR doc = true) :
    reportedLineS .rst sl doc ln im c = reportedLine .rst sl doc ln im c := by
  have hz : extraBreaksIn ((cleandocLines doc).map blankExtraBreaks) (c.raw - dropped doc) = 0 := by
    apply sum_take_zero
    intro l hl
    obtain ⟨l', _, rfl⟩ := List.mem_map.1 hl
    exact filter_blankExtraBreaks l'
  have hc : loneCRsIn (cleandocLines doc) (c.raw - dropped doc) = 0 := by
    apply sum_take_map_zero
    intro l hl
    have := (List.all_eq_true.1 h) l hl
    have h0 : (l.filter (· = '\r')).length = 0 := by simpa using this
    simp [loneCRs, h0]
  simp only [reportedLineS, lineShift, hz, hc]
  cases reportedLine .rst sl doc ln im c <;> simp [shiftLine]

/-- `"""⏎    a\rb⏎⏎    :f: x⏎    """` (the escape `\r` in a non-raw literal) on line 2: the field
on physical line 5 is reported on line 6 in reStructuredText, on 5 in epytext. -/
theorem reportedLineS_lone_cr_counterexample :
    let doc := "\n    a\rb\n\n    :f: x\n    ".toList
    noCR doc = false ∧ noOverIndent doc = true ∧
      reportedLineS .rst 2 doc 1 false ⟨.unknownField, 3, 0⟩ = .num 6 ∧
      reportedLine .rst 2 doc 1 false ⟨.unknownField, 3, 0⟩ = .num 5 ∧
      reportedLineS .epytext 2 doc 1 false ⟨.unknownField, 3, 0⟩ = .num 5 := by decide

/-- the cleaned docstring contains none of U+001C–1E, U+0085, U+2028, U+2029 -/
def noExtraBreaksClean (doc : List Char) : Bool :=
  (cleandocLines doc).all fun l => (l.filter isExtraBreak).length == 0

/-- historical (before ce72216): equality only for docstrings without such characters -/
theorem reportedLineSOld_eq_partial (fmt : Fmt) (sl : Nat) (doc : List Char) (ln : Int) (im : Bool)
    (c : Construct) (h : noExtraBreaksClean doc = true) :
    reportedLineSOld fmt sl doc ln im c = reportedLine fmt sl doc ln im c := by
  have hz : extraBreaksBefore doc (c.raw - dropped doc) = 0 := by
    apply sum_take_zero
    intro l hl
    have := (List.all_eq_true.1 h) l hl
    simpa using this
  simp only [reportedLineSOld, hz]
  cases reportedLine fmt sl doc ln im c <;> simp [shiftLine]

/-- `"""⏎    a<U+2028>b⏎⏎    :f: x⏎    """` on line 2: the field on physical line 5 was reported on
line 6 in reStructuredText; now on 5. -/
theorem reportedLineSOld_counterexample :
    let doc := ['\n', ' ', ' ', ' ', ' ', 'a', Char.ofNat 0x2028, 'b', '\n', '\n', ' ', ' ', ' ', ' ', ':', 'f', ':', ' ', 'x', '\n', ' ', ' ', ' ', ' ']
    noExtraBreaksClean doc = false ∧ noOverIndent doc = true ∧
      reportedLineSOld .rst 2 doc 1 false ⟨.unknownField, 3, 0⟩ = .num 6 ∧
      reportedLineS .rst 2 doc 1 false ⟨.unknownField, 3, 0⟩ = .num 5 ∧
      reportedLine .rst 2 doc 1 false ⟨.unknownField, 3, 0⟩ = .num 5 := by decide

/-! ### `versionadded` / `versionchanged` / `deprecated`: a reference in the directive's argument -/

/-- Full statement wanted: the offset is `i`, the directive's line.  It is the line after the
directive block instead (when the text goes on after the block). -/
theorem version_arg_xref_offset (i span n : Int) (hi : 0 ≤ i) (hs : 0 ≤ span) (hn : i + span + 1 ≤ n - 1) :
    versionArgXrefOffset i span n 0 = i + span + 1 := by
  have h1 : min (i + span + 1) (n - 1) = i + span + 1 := by omega
  have h2 : i + span + 1 + 1 ≠ 0 := by omega
  simp [versionArgXrefOffset, getLineno, truthy, firstParentLineno, h1, h2]

/-- right only when the directive is the last line of the docstring -/
theorem version_arg_xref_partial (i n : Int) (hi : 0 ≤ i) (hn : n = i + 1) :
    versionArgXrefOffset i 0 n 0 = i := by
  subst hn
  have h1 : min (i + 1) i = i := by omega
  have h2 : i + 1 ≠ 0 := by omega
  simp [versionArgXrefOffset, getLineno, truthy, firstParentLineno, h1, h2]

/-- directive on cleaned line 2 with a body of 6 further lines, 11 lines in all: offset 9 -/
theorem version_arg_xref_counterexample : versionArgXrefOffset 2 6 11 0 = 9 := by decide

/-! ### reST section titles -/

/-- the underline's line, not the title's (`i`): full statement wanted `= i + j` -/
theorem section_title_xref_offset (i j : Int) (hi : 0 ≤ i) :
    sectionTitleXrefOffset docutilsBase i j = i + 1 + j := by
  have h : i + 1 + 1 ≠ 0 := by omega
  simp [sectionTitleXrefOffset, docutilsBase, getLineno, truthy, firstParentLineno, h]

/-- **toc_does_not_report** (holds since fcb5e8a): rendering the table of contents reports nothing,
however many references its titles hold -/
theorem toc_does_not_report (titleRefs : List Int) : tocReports titleRefs = [] := rfl

/-- historical (before fcb5e8a): a second report with offset 0, the docstring's first line -/
theorem toc_xref_offset_old : tocXrefOffsetOld = 0 := by decide

theorem section_title_counterexample :
    sectionTitleXrefOffset docutilsBase 4 0 = 5 := by decide

end Lineno
