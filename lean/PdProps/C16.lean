/-
C16 — warnings point at the right place; every reported problem is counted.

Property theorems over `PdModel.Lineno` (model of `astutils.extract_docstring_linenum`,
`inspect.cleandoc`, `ParseError.linenum`, `reportErrors`, `Field.report`, `get_lineno`,
`Documentable.report`, `System.msg`, the tail of `driver.main`).

Conventions: `sl` is the AST `lineno` of the string literal (≥ 1), `doc` its value.  Line `r` of
`doc.split('\n')` sits on physical line `sl + r` (no backslash-newline, no escapes: the
correspondence check verifies this against `ast.parse` for every generated literal).
-/
import PdModel.Lineno

namespace Lineno

/-! ## character level: `extract_docstring_linenum` -/

theorem pyIsSpace_nl : pyIsSpace '\n' = true := by decide

/-- **shift**, character level: the function only adds to the line it is given. -/
theorem extractLinenum_shift (n k : Nat) (doc : List Char) :
    extractLinenum (n + k) doc = extractLinenum n doc + k := by
  induction doc generalizing n with
  | nil => simp [extractLinenum]
  | cons c cs ih =>
    unfold extractLinenum
    by_cases h : c = '\n'
    · simp only [h, if_true]
      have := ih (n + 1)
      rw [show n + k + 1 = n + 1 + k by omega]
      exact this
    · simp only [h, if_false]
      by_cases hs : pyIsSpace c
      · simp [hs, ih]
      · simp [hs]

theorem extractLinenum_ge (n : Nat) (doc : List Char) : n ≤ extractLinenum n doc := by
  have := extractLinenum_shift 0 n doc
  simp at this
  omega

theorem splitNL_cons_nl (cs : List Char) : splitNL ('\n' :: cs) = [] :: splitNL cs := by
  simp [splitNL, splitNL1]

theorem splitNL_cons_other (c : Char) (cs : List Char) (h : c ≠ '\n') :
    splitNL (c :: cs) = (c :: (splitNL1 cs).1) :: (splitNL1 cs).2 := by
  simp [splitNL, splitNL1, h]

theorem blank_cons (c : Char) (l : List Char) : blank (c :: l) = (pyIsSpace c && blank l) := by
  simp [blank]

theorem hasText_cons_space (c : Char) (cs : List Char) (h : pyIsSpace c = true) :
    hasText (c :: cs) = hasText cs := by
  simp [hasText, h]

/-- `extract_docstring_linenum` returns the string's line plus the number of whitespace-only
lines before the first line that has text. -/
theorem extractLinenum_eq (n : Nat) (doc : List Char) (h : hasText doc = true) :
    extractLinenum n doc = n + ((splitNL doc).takeWhile blank).length := by
  induction doc generalizing n with
  | nil => simp [hasText] at h
  | cons c cs ih =>
    unfold extractLinenum
    by_cases hc : c = '\n'
    · subst hc
      rw [hasText_cons_space _ _ pyIsSpace_nl] at h
      simp only [if_true, splitNL_cons_nl]
      rw [ih (n + 1) h]
      simp [blank]
      omega
    · simp only [hc, if_false]
      rw [splitNL_cons_other c cs hc]
      by_cases hs : pyIsSpace c = true
      · rw [hasText_cons_space _ _ hs] at h
        simp only [hs, Bool.not_true, Bool.false_eq_true, if_false]
        rw [ih n h]
        simp only [splitNL, List.takeWhile_cons, blank_cons, hs, Bool.true_and]
      · simp only [hs, Bool.not_false, if_true] <;> simp [blank_cons, hs]

theorem all_splitNL (doc : List Char) : doc.all pyIsSpace = (splitNL doc).all blank := by
  induction doc with
  | nil => simp [splitNL, splitNL1, blank]
  | cons c cs ih =>
    by_cases hc : c = '\n'
    · subst hc
      rw [splitNL_cons_nl]
      simp [blank, pyIsSpace_nl] at ih ⊢
      exact ih
    · rw [splitNL_cons_other c cs hc]
      simp only [List.all_cons, ih, splitNL, blank_cons, Bool.and_assoc]

theorem hasText_iff (doc : List Char) :
    hasText doc = true ↔ ∃ l ∈ splitNL doc, blank l = false := by
  simp [hasText, all_splitNL]

theorem splitNL_length (doc : List Char) : (splitNL doc).length = newlines doc + 1 := by
  induction doc with
  | nil => simp [splitNL, splitNL1, newlines]
  | cons c cs ih =>
    by_cases hc : c = '\n'
    · subst hc
      rw [splitNL_cons_nl]
      simp [newlines] at ih ⊢
      omega
    · rw [splitNL_cons_other c cs hc]
      simp [newlines, hc, splitNL] at ih ⊢
      omega

/-! ## `expandtabs` keeps the line structure and the blankness of every line -/

theorem splitNL1_replicate_append (k : Nat) (s : List Char) :
    splitNL1 (List.replicate k ' ' ++ s) = (List.replicate k ' ' ++ (splitNL1 s).1, (splitNL1 s).2) := by
  induction k with
  | zero => simp
  | succ k ih =>
    simp only [List.replicate_succ, List.cons_append, splitNL1, ih]
    simp

theorem splitNL1_expandtabsFrom (col : Nat) (doc : List Char) :
    splitNL1 (expandtabsFrom col doc) =
      (expandtabsFrom col (splitNL1 doc).1, (splitNL1 doc).2.map (expandtabsFrom 0)) := by
  induction doc generalizing col with
  | nil => simp [expandtabsFrom, splitNL1]
  | cons c cs ih =>
    by_cases ht : c = '\t'
    · subst ht
      have hne : ('\t' : Char) ≠ '\n' := by decide
      simp only [expandtabsFrom, if_true, splitNL1_replicate_append, ih, splitNL1, hne, if_false]
    · by_cases hn : c = '\n'
      · subst hn
        simp [expandtabsFrom, splitNL1, ih]
      · by_cases hr : c = '\r'
        · subst hr
          have hne : ('\r' : Char) ≠ '\n' := by decide
          have hnt : ('\r' : Char) ≠ '\t' := by decide
          simp [expandtabsFrom, splitNL1, ih, hne, hnt]
        · simp [expandtabsFrom, splitNL1, ih, ht, hn, hr]

theorem blank_expandtabsFrom (col : Nat) (l : List Char) :
    blank (expandtabsFrom col l) = blank l := by
  induction l generalizing col with
  | nil => simp [expandtabsFrom]
  | cons c cs ih =>
    by_cases ht : c = '\t'
    · subst ht
      have h1 : pyIsSpace '\t' = true := by decide
      have h2 : pyIsSpace ' ' = true := by decide
      simp only [expandtabsFrom, if_true, blank_cons, h1, Bool.true_and]
      simp only [blank, List.all_append, List.all_replicate, h2] at ih ⊢
      simp [ih]
    · by_cases hn : c = '\n' ∨ c = '\r'
      · simp only [expandtabsFrom, ht, if_false, hn, if_true, blank_cons, ih]
      · simp only [expandtabsFrom, ht, if_false, hn, blank_cons, ih]

/-! ## `cleandoc`: margin, pops -/

theorem lstrip_eq_nil_iff (l : List Char) : lstrip l = [] ↔ blank l = true := by
  simp [lstrip, blank, List.dropWhile_eq_nil_iff]

theorem lstrip_length_ne_zero_iff (l : List Char) : (lstrip l).length ≠ 0 ↔ blank l = false := by
  rw [Ne, List.length_eq_zero_iff, lstrip_eq_nil_iff]
  simp

theorem lstrip_length_le (l : List Char) : (lstrip l).length ≤ l.length := by
  simp only [lstrip]
  exact List.length_dropWhile_le _ _

theorem indentOf_lt (l : List Char) (h : blank l = false) : indentOf l < l.length := by
  have h1 := (lstrip_length_ne_zero_iff l).2 h
  have h2 := lstrip_length_le l
  simp only [indentOf]
  omega

theorem foldl_marginStep (tail : List (List Char)) (m0 : Option Nat) :
    (∀ k, tail.foldl marginStep m0 = some k →
        (∀ l ∈ tail, blank l = false → k ≤ indentOf l) ∧ (∀ k0, m0 = some k0 → k ≤ k0)) ∧
    ((m0.isSome ∨ ∃ l ∈ tail, blank l = false) → (tail.foldl marginStep m0).isSome) := by
  induction tail generalizing m0 with
  | nil =>
    refine ⟨fun k hk => ⟨by simp, fun k0 h0 => ?_⟩, ?_⟩
    · simp at hk; rw [hk] at h0; injection h0 with h0; omega
    · simp
  | cons l ls ih =>
    simp only [List.foldl_cons]
    by_cases hb : blank l = false
    · have hne := (lstrip_length_ne_zero_iff l).2 hb
      have hstep : marginStep m0 l =
          some (match m0 with | none => indentOf l | some k => min k (indentOf l)) := by
        simp only [marginStep, hne, ne_eq, not_false_eq_true, if_true]
        cases m0 <;> rfl
      obtain ⟨ih1, ih2⟩ := ih (marginStep m0 l)
      refine ⟨fun k hk => ?_, fun _ => ?_⟩
      · obtain ⟨a, b⟩ := ih1 k hk
        have hb' := b _ hstep
        refine ⟨fun x hx hxb => ?_, fun k0 h0 => ?_⟩
        · rcases List.mem_cons.1 hx with rfl | hx
          · cases m0 with
            | none => simpa using hb'
            | some k0 => simp at hb'; omega
          · exact a x hx hxb
        · subst h0; simp at hb'; omega
      · apply ih2; left; rw [hstep]; rfl
    · have hb' : blank l = true := by simpa using hb
      have hz : (lstrip l).length = 0 := by
        rw [List.length_eq_zero_iff, lstrip_eq_nil_iff]; exact hb'
      have hstep : marginStep m0 l = m0 := by simp [marginStep, hz]
      rw [hstep]
      obtain ⟨ih1, ih2⟩ := ih m0
      refine ⟨fun k hk => ?_, fun h => ?_⟩
      · obtain ⟨a, b⟩ := ih1 k hk
        refine ⟨fun x hx hxb => ?_, b⟩
        rcases List.mem_cons.1 hx with rfl | hx
        · rw [hb'] at hxb; cases hxb
        · exact a x hx hxb
      · apply ih2
        rcases h with h | ⟨x, hx, hxb⟩
        · left; exact h
        · rcases List.mem_cons.1 hx with rfl | hx
          · rw [hb'] at hxb; cases hxb
          · right; exact ⟨x, hx, hxb⟩

theorem marginOf_spec (tail : List (List Char)) (h : ∃ l ∈ tail, blank l = false) :
    ∃ k, marginOf tail = some k ∧ ∀ l ∈ tail, blank l = false → k ≤ indentOf l := by
  obtain ⟨h1, h2⟩ := foldl_marginStep tail none
  have hs := h2 (Or.inr h)
  obtain ⟨k, hk⟩ := Option.isSome_iff_exists.1 hs
  exact ⟨k, hk, (h1 k hk).1⟩

/-- number of leading empty lines -/
def lead (ls : List (List Char)) : Nat := (ls.takeWhile (·.isEmpty)).length

theorem popTrailing_ne_nil (ls : List (List Char)) (h : ∃ x ∈ ls, x.isEmpty = false) :
    popTrailing ls ≠ [] := by
  induction ls with
  | nil => simp at h
  | cons l ls ih =>
    unfold popTrailing
    cases hp : popTrailing ls with
    | nil =>
      simp only
      by_cases hl : l.isEmpty
      · exfalso
        obtain ⟨x, hx, hxe⟩ := h
        rcases List.mem_cons.1 hx with rfl | hx
        · rw [hl] at hxe; cases hxe
        · exact ih ⟨x, hx, hxe⟩ hp
      · simp [hl]
    | cons r rs => simp

theorem lead_popTrailing (ls : List (List Char)) (h : ∃ x ∈ ls, x.isEmpty = false) :
    lead (popTrailing ls) = lead ls := by
  induction ls with
  | nil => simp at h
  | cons l ls ih =>
    by_cases hl : l.isEmpty = true
    · have h' : ∃ x ∈ ls, x.isEmpty = false := by
        obtain ⟨x, hx, hxe⟩ := h
        rcases List.mem_cons.1 hx with rfl | hx
        · rw [hl] at hxe; cases hxe
        · exact ⟨x, hx, hxe⟩
      have hne := popTrailing_ne_nil ls h'
      unfold popTrailing
      cases hp : popTrailing ls with
      | nil => exact absurd hp hne
      | cons r rs =>
        simp only [lead, List.takeWhile_cons, hl, if_true, List.length_cons]
        have := ih h'
        rw [hp] at this
        simp only [lead] at this
        rw [this]
    · unfold popTrailing
      cases hp : popTrailing ls with
      | nil => simp [lead, hl]
      | cons r rs => simp [lead, hl]

theorem popTrailing_prefix (ls : List (List Char)) : popTrailing ls <+: ls := by
  induction ls with
  | nil => simp [popTrailing]
  | cons l ls ih =>
    unfold popTrailing
    cases hp : popTrailing ls with
    | nil =>
      simp only
      by_cases hl : l.isEmpty
      · simp [hl]
      · simp only [hl, Bool.false_eq_true, if_false]
        exact ⟨ls, by simp⟩
    | cons r rs =>
      rw [hp] at ih
      simp only
      exact (List.prefix_cons_inj l).2 ih

theorem dropWhile_eq_drop (p : List Char → Bool) (ls : List (List Char)) :
    ls.dropWhile p = ls.drop (ls.takeWhile p).length := by
  induction ls with
  | nil => simp
  | cons l ls ih =>
    by_cases h : p l
    · simp [List.dropWhile_cons, List.takeWhile_cons, h, ih]
    · simp [List.dropWhile_cons, List.takeWhile_cons, h]

theorem cleandocLines_eq (doc : List Char) :
    cleandocLines doc = (popTrailing (processed doc)).drop (dropped doc) := by
  simp only [cleandocLines, popLeading, dropped]
  exact dropWhile_eq_drop _ _

theorem dedentTail_length (m : Option Nat) (tail : List (List Char)) :
    (dedentTail m tail).length = tail.length := by
  cases m <;> simp [dedentTail]

theorem processed_length (doc : List Char) : (processed doc).length = (splitNL doc).length := by
  simp [processed, expandtabs, splitNL1_expandtabsFrom, dedentTail_length, splitNL]

/-- **Which physical line a cleaned line comes from.**  Line `i` of `cleandoc(doc)` is line
`dropped doc + i` of the literal (with its indentation removed: `processed` maps line for line). -/
theorem cleaned_line_origin (doc : List Char) (i : Nat) (h : i < (cleandocLines doc).length) :
    (cleandocLines doc)[i]? = (processed doc)[dropped doc + i]? := by
  rw [cleandocLines_eq] at h ⊢
  rw [List.getElem?_drop]
  obtain ⟨t, ht⟩ := popTrailing_prefix (processed doc)
  have hlt : dropped doc + i < (popTrailing (processed doc)).length := by
    simp only [List.length_drop] at h
    omega
  conv => rhs; rw [← ht]
  rw [List.getElem?_append_left hlt]

theorem cleandocLines_length_le (doc : List Char) :
    dropped doc + (cleandocLines doc).length ≤ (splitNL doc).length := by
  rw [← processed_length, cleandocLines_eq, List.length_drop]
  have h1 : (popTrailing (processed doc)).length ≤ (processed doc).length :=
    (popTrailing_prefix (processed doc)).length_le
  have h2 : dropped doc ≤ (popTrailing (processed doc)).length := by
    simp only [dropped]
    exact List.length_takeWhile_le _ _
  omega

/-- leading empties after the margin cut = leading blank lines before it, provided no leading
blank line is longer than the margin -/
theorem lead_dedent (k : Nat) (et : List (List Char))
    (h1 : ∀ l ∈ et.takeWhile blank, l.length ≤ k)
    (h2 : ∀ l ∈ et, blank l = false → k ≤ indentOf l)
    (h3 : ∃ l ∈ et, blank l = false) :
    lead (et.map (·.drop k)) = (et.takeWhile blank).length ∧
      ∃ x ∈ et.map (·.drop k), x.isEmpty = false := by
  induction et with
  | nil => simp at h3
  | cons l ls ih =>
    by_cases hb : blank l = true
    · have hlen : l.length ≤ k := h1 l (by simp [List.takeWhile_cons, hb])
      have hd : (l.drop k).isEmpty = true := by simp [List.drop_eq_nil_iff, hlen]
      have h3' : ∃ x ∈ ls, blank x = false := by
        obtain ⟨x, hx, hxb⟩ := h3
        rcases List.mem_cons.1 hx with rfl | hx
        · rw [hb] at hxb; cases hxb
        · exact ⟨x, hx, hxb⟩
      obtain ⟨a, b⟩ := ih (fun x hx => h1 x (by simp [List.takeWhile_cons, hb, hx]))
        (fun x hx => h2 x (List.mem_cons_of_mem _ hx)) h3'
      refine ⟨?_, ?_⟩
      · simp only [lead, List.map_cons, List.takeWhile_cons, hd, hb, if_true, List.length_cons]
        simp only [lead] at a
        rw [a]
      · obtain ⟨x, hx, hxe⟩ := b
        exact ⟨x, by simp only [List.map_cons]; exact List.mem_cons_of_mem _ hx, hxe⟩
    · have hb' : blank l = false := by simpa using hb
      have hk := h2 l (by simp) hb'
      have hlt := indentOf_lt l hb'
      have hd : (l.drop k).isEmpty = false := by
        simp [List.drop_eq_nil_iff]; omega
      refine ⟨?_, ⟨l.drop k, by simp, hd⟩⟩
      simp [lead, List.takeWhile_cons, hd, hb']

/-- `cleandoc` removes exactly the leading whitespace-only lines, under the layout hypothesis. -/
theorem dropped_eq (doc : List Char) (hl : noOverIndent doc = true) (ht : hasText doc = true) :
    dropped doc = ((splitNL doc).takeWhile blank).length := by
  obtain ⟨x, hx, hxb⟩ := (hasText_iff doc).1 ht
  have hE : splitNL1 (expandtabs doc) =
      (expandtabsFrom 0 (splitNL1 doc).1, (splitNL1 doc).2.map (expandtabsFrom 0)) :=
    splitNL1_expandtabsFrom 0 doc
  simp only [noOverIndent, hE, blank_expandtabsFrom] at hl
  simp only [dropped, processed, hE]
  by_cases hb : blank (splitNL1 doc).1 = true
  · -- the opening line is blank: the count continues in the tail
    have hx' : ∃ l ∈ (splitNL1 doc).2, blank l = false := by
      simp only [splitNL, List.mem_cons] at hx
      rcases hx with rfl | hx
      · rw [hb] at hxb; cases hxb
      · exact ⟨x, hx, hxb⟩
    have hxe : ∃ l ∈ (splitNL1 doc).2.map (expandtabsFrom 0), blank l = false := by
      obtain ⟨y, hy, hyb⟩ := hx'
      exact ⟨expandtabsFrom 0 y, List.mem_map_of_mem hy, by rw [blank_expandtabsFrom]; exact hyb⟩
    obtain ⟨k, hk, hkle⟩ := marginOf_spec _ hxe
    simp only [hb, Bool.not_true, Bool.false_or, hk, List.all_eq_true, decide_eq_true_eq] at hl
    obtain ⟨a, b⟩ := lead_dedent k _ hl hkle hxe
    have hhead : lstrip (expandtabsFrom 0 (splitNL1 doc).1) = [] := by
      rw [lstrip_eq_nil_iff, blank_expandtabsFrom]; exact hb
    have hex : ∃ y ∈ ([] : List Char) :: ((splitNL1 doc).2.map (expandtabsFrom 0)).map (·.drop k),
        y.isEmpty = false := by
      obtain ⟨y, hy, hye⟩ := b
      exact ⟨y, List.mem_cons_of_mem _ hy, hye⟩
    have hlp := lead_popTrailing _ hex
    simp only [hk, dedentTail, hhead]
    simp only [lead] at hlp a
    rw [hlp]
    simp only [List.takeWhile_cons, List.isEmpty_nil, if_true, List.length_cons, a, splitNL, hb]
    congr 1
    rw [List.takeWhile_map]
    simp only [List.length_map]
    congr 1
    apply List.takeWhile_congr
    intro y
    simp [blank_expandtabsFrom]
  · -- text on the opening line: nothing is dropped
    have hb' : blank (splitNL1 doc).1 = false := by simpa using hb
    have hhead : (lstrip (expandtabsFrom 0 (splitNL1 doc).1)).isEmpty = false := by
      have := (lstrip_length_ne_zero_iff (expandtabsFrom 0 (splitNL1 doc).1)).2
        (by rw [blank_expandtabsFrom]; exact hb')
      cases h : lstrip (expandtabsFrom 0 (splitNL1 doc).1) with
      | nil => simp [h] at this
      | cons _ _ => rfl
    have hex : ∃ y ∈ lstrip (expandtabsFrom 0 (splitNL1 doc).1) ::
        dedentTail (marginOf ((splitNL1 doc).2.map (expandtabsFrom 0)))
          ((splitNL1 doc).2.map (expandtabsFrom 0)), y.isEmpty = false :=
      ⟨_, by simp, hhead⟩
    have hlp := lead_popTrailing _ hex
    simp only [lead] at hlp
    rw [hlp]
    simp [List.takeWhile_cons, hhead, splitNL, hb']

/-! ## Property theorems -/

/-- **docstring_lineno is the physical line of the cleaned docstring's first line** — under the
layout hypothesis `noOverIndent`.

Full statement (false of the current code, see the counterexample):
  `∀ sl doc, hasText doc → extractLinenum sl doc = sl + dropped doc`. -/
theorem docstring_lineno_correct_partial (sl : Nat) (doc : List Char)
    (hl : noOverIndent doc = true) (ht : hasText doc = true) :
    extractLinenum sl doc = sl + dropped doc := by
  rw [extractLinenum_eq sl doc ht, dropped_eq doc hl ht]

/-- A blank line deeper than the text between the quotes and the text: `cleandoc` keeps it,
`extract_docstring_linenum` skips it.  Literal `"""⏎········⏎····Text"""` on line 2. -/
theorem docstring_lineno_correct_counterexample :
    let doc := "\n        \n    Text".toList
    hasText doc = true ∧ noOverIndent doc = false ∧
      extractLinenum 2 doc = 4 ∧ 2 + dropped doc = 3 ∧
      cleandocLines doc = ["    ".toList, "Text".toList] := by decide

example : noOverIndent "\n    \n\n    Text `x`.\n    ".toList = true ∧
    hasText "\n    \n\n    Text `x`.\n    ".toList = true := by decide

end Lineno
