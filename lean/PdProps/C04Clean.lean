/-
C04: a well-formed project is analysed without registry exception, duplicate definition, failed
assertion or fuel exhaustion: `WF proj rank = true → (run proj ord).bad = false`.
-/
import PdProps.C04Base

namespace Imports
open Registry

/-! ## a qualified name that is not yet taken -/

/-- under the C02 invariant, a name that is not an entry of the parent's `contents` (and is not a
superseded `name i`) is not registered below the parent -/
theorem fresh_of_not_content {st : State} (hI : Inv st) {ctx : Nat} {o : Obj} {pp : Path} {n : Name}
    (ho : st.objs[ctx]? = some o) (hp : path st ctx = some pp) (hpp : pp ≠ [])
    (hn : isSupersededName n = false) (hd : dget o.contents n = none) : dget st.all (pp ++ [n]) = none := by
  cases hreg : dget st.all (pp ++ [n]) with
  | none => rfl
  | some j =>
    exfalso
    have hmem := mem_of_dget hreg
    have hpj := hI.reg.hasPath hmem
    have hjl := hpj.lt
    have hoj : st.objs[j]? = some st.objs[j] := by simp [hjl]
    cases hpar : st.objs[j].parent with
    | none =>
      have := hpj.root_inv hoj hpar
      have hl := congrArg List.length this
      simp only [List.length_append, List.length_singleton, List.length_cons, List.length_nil] at hl
      exact hpp (List.eq_nil_of_length_eq_zero (by omega))
    | some q =>
      obtain ⟨pq, hq, he⟩ := hpj.child_inv hoj hpar
      obtain ⟨e1, e2⟩ := List.append_inj' he (by simp)
      simp only [List.cons.injEq, and_true] at e2
      subst e1
      have hqreg := hI.reg.up j _ q ⟨_, hmem⟩ hoj hpar
      have hctx := mem_of_path hI hp
      have hqc : q = ctx := hI.reg.inj hctx hqreg hq
      subst hqc
      obtain ⟨_, l2⟩ := hI.tree.listed j _ hoj
      obtain ⟨po, hpo, hl⟩ := l2 q hpar
      rw [ho] at hpo; injection hpo with hpo; subst hpo
      rcases hl with hl | hl
      · rw [← e2, hd] at hl; cases hl
      · rw [← e2, hn] at hl; cases hl

theorem addObj_clean {s : St} {c : Cls} {name : Name} {parent : Nat} {pp : Path} (hb : s.bad = false)
    (hp : path s.reg parent = some pp) (hf : dget s.reg.all (pp ++ [name]) = none) :
    (addObj s c name parent).bad = false := by
  unfold addObj
  rw [addObject_fresh (c := c) hp hf]
  simp [hp, dhas, hf, hb]

/-! ## `expandName` never crashes on a reachable state; `getProcessedModule` does not raise -/

theorem path_of_lt {st : State} (hI : Inv st) {i : Nat} (hi : i < st.objs.length) : ∃ p, path st i = some p := by
  obtain ⟨k, hk⟩ := hI.full i hi
  exact ⟨k, hI.reg.keys k i hk⟩

/-- an object that is not a module has a parent -/
theorem nonmodule_parent {proj : Project} {rank : List Nat} (wf : WFacts proj rank) {s : St} (hI : PdInv proj s)
    {i : Nat} {o : Obj} (ho : s.reg.objs[i]? = some o) (hc : isModuleCls o.cls = false) : ∃ q, o.parent = some q := by
  obtain ⟨S, hk, hp⟩ := hI.site i o ho
  cases hpar : o.parent with
  | some q => exact ⟨q, rfl⟩
  | none =>
    exfalso
    have h1 := (path_sound hp).root_inv ho hpar
    have hS2 : S.2 ≠ [] := by
      intro h0; have := hk.isMod.2 h0; rw [hc] at this; cases this
    have hne := (wf.parentOk S.1 hk.static.1).1
    have hl := congrArg List.length h1
    simp only [sitePath, List.length_append, List.length_singleton] at hl
    have h2 : 0 < (pathOf proj S.1).length := List.length_pos_iff.2 hne
    have h3 : 0 < S.2.length := List.length_pos_iff.2 hS2
    omega

theorem localName_some' {proj : Project} {rank : List Nat} (wf : WFacts proj rank) {s : St} (hI : PdInv proj s)
    (e : Names.Env) (he : e.st = s.reg) :
    ∀ (f i : Nat) (p : Path), pathAux s.reg.objs f i = some p → ∀ y,
      (∃ r, Names.localName e f i y = some r) ∧ (∃ r, Names.localNameSkip e f i y = some r)
  | 0, _, _, h, _ => by simp [pathAux] at h
  | f+1, i, p, h, y => by
    obtain ⟨o, ho, hcase⟩ := pathAux_inv h
    have hgo : getObj e.st i = some o := by rw [he]; exact ho
    have hil := (List.getElem?_eq_some_iff.1 ho).1
    obtain ⟨pi, hpi⟩ := path_of_lt hI.reg hil
    -- the parent step, for objects that are not modules
    have hparent : isModuleCls o.cls = false → ∃ q, o.parent = some q ∧ (∃ r, Names.localName e f q y = some r) ∧
        (∃ r, Names.localNameSkip e f q y = some r) := by
      intro hc
      obtain ⟨q, hq⟩ := nonmodule_parent wf hI ho hc
      rcases hcase with ⟨hn, _⟩ | ⟨q', p', hq', hpq, _⟩
      · rw [hq] at hn; cases hn
      · rw [hq] at hq'; injection hq' with hq'; subst hq'
        exact ⟨q, hq, localName_some' wf hI e he f q p' hpq y⟩
    have hmod : ∀ r0 : Option Path, (match dget o.contents y with
          | some c => path e.st c
          | none => match dget o.aliases y with
            | some t => some t
            | none => r0) = none → r0 = none := by
      intro r0 h0
      cases hd : dget o.contents y with
      | some c =>
        simp only [hd] at h0
        rw [he, path_child hI.reg ho hd hpi] at h0; cases h0
      | none =>
        simp only [hd] at h0
        cases ha : dget o.aliases y with
        | some t => simp [ha] at h0
        | none => simpa [ha] using h0
    have hsome : ∀ {x : Option Path}, x ≠ none → ∃ r, x = some r := by
      intro x hx; cases x with
      | none => exact absurd rfl hx
      | some r => exact ⟨r, rfl⟩
    constructor
    · rw [Names.localName.eq_def]
      simp only [hgo]
      cases hc : o.cls with
      | module => exact hsome (fun h0 => by have := hmod _ h0; cases this)
      | package => exact hsome (fun h0 => by have := hmod _ h0; cases this)
      | cls =>
        obtain ⟨q, hq, _, r, hr⟩ := hparent (by rw [hc]; rfl)
        simp only [hq]
        exact hsome (fun h0 => by have := hmod _ h0; rw [hr] at this; cases this)
      | function =>
        obtain ⟨q, hq, ⟨r, hr⟩, _⟩ := hparent (by rw [hc]; rfl)
        simp only [hq]; exact ⟨r, hr⟩
      | «attribute» =>
        obtain ⟨q, hq, ⟨r, hr⟩, _⟩ := hparent (by rw [hc]; rfl)
        simp only [hq]; exact ⟨r, hr⟩
    · rw [Names.localNameSkip.eq_def]
      simp only [hgo]
      cases hc : o.cls with
      | module => exact hsome (fun h0 => by have := hmod _ h0; cases this)
      | package => exact hsome (fun h0 => by have := hmod _ h0; cases this)
      | cls =>
        obtain ⟨q, hq, ⟨r1, hr1⟩, r2, hr2⟩ := hparent (by rw [hc]; rfl)
        simp only [hq]
        cases hgq : getObj e.st q with
        | none =>
          simp only [Bool.false_eq_true, if_false]
          exact hsome (fun h0 => by have := hmod _ h0; rw [hr1] at this; cases this)
        | some po =>
          simp only
          by_cases hcc : canContainImports po.cls = true
          · rw [if_pos hcc]; exact ⟨r2, hr2⟩
          · rw [if_neg hcc]
            exact hsome (fun h0 => by have := hmod _ h0; rw [hr1] at this; cases this)
      | function =>
        obtain ⟨q, hq, ⟨r, hr⟩, _⟩ := hparent (by rw [hc]; rfl)
        simp only [hq]; exact ⟨r, hr⟩
      | «attribute» =>
        obtain ⟨q, hq, ⟨r, hr⟩, _⟩ := hparent (by rw [hc]; rfl)
        simp only [hq]; exact ⟨r, hr⟩

theorem localName_some {proj : Project} {rank : List Nat} (wf : WFacts proj rank) {s : St} (hI : PdInv proj s)
    (e : Names.Env) (he : e.st = s.reg) (f i : Nat) (p : Path) (h : pathAux s.reg.objs f i = some p) (y : Name) :
    ∃ r, Names.localName e f i y = some r := (localName_some' wf hI e he f i p h y).1

theorem expandLoop_some {proj : Project} {rank : List Nat} (wf : WFacts proj rank) {s : St} (hI : PdInv proj s)
    (e : Names.Env) (he : e.st = s.reg) :
    ∀ (ys : List Name) (i : Nat) (first : Bool), ys ≠ [] → i < s.reg.objs.length →
      ∃ p, Names.expandLoop e i first ys = some p
  | [], _, _, hne, _ => absurd rfl hne
  | y :: rest, i, first, hne, hi => by
    clear hne
    obtain ⟨pi, hpi⟩ := path_of_lt hI.reg hi
    have hpe : path e.st i = some pi := by rw [he]; exact hpi
    have ho : s.reg.objs[i]? = some s.reg.objs[i] := by simp [hi]
    have hgo : getObj e.st i = some s.reg.objs[i] := by rw [he]; exact ho
    obtain ⟨fn, hfn⟩ : ∃ fn, Names.componentName e i first y = some fn := by
      unfold Names.componentName
      simp only [hgo]
      split
      · exact ⟨_, rfl⟩
      · unfold Names.fuelOf; rw [he]
        exact localName_some wf hI e he _ i pi hpi y
    -- the continuation after a component that was turned into the dotted name `full`
    have hcont : ∀ full : Path, (decide (full = [y]) && !first) = false → Names.componentName e i first y = some full →
        ∃ p, Names.expandLoop e i first (y :: rest) = some p := by
      intro full hnb hcn
      rw [expandLoop_found hcn hnb]
      cases hof : Names.objFor e full with
      | none => exact ⟨_, rfl⟩
      | some nxt =>
        cases rest with
        | nil => exact ⟨_, rfl⟩
        | cons y2 r =>
          have hreg : dget s.reg.all full = some nxt := by
            have := hof; unfold Names.objFor at this; rw [he] at this; exact this
          have hl := path_lt (hI.reg.reg.keys _ _ (mem_of_dget hreg))
          exact expandLoop_some wf hI e he (y2 :: r) nxt false (by simp) hl
    by_cases hnf : (decide (fn = [y]) && !first) = false
    · exact hcont fn hnf hfn
    · have hnf' : fn = [y] ∧ first = false := by cases first <;> simp_all
      obtain ⟨h1, h2⟩ := hnf'
      subst h1; subst h2
      by_cases hcl : (s.reg.objs[i]).cls = .cls
      · -- a class: the inherited members are tried
        rw [Names.expandLoop]
        simp only [hfn, hgo, hcl, hpe, Bool.not_false, Bool.and_true, decide_true, if_true]
        cases hcf : Names.classLookup e i y with
        | none => simp
        | some inh =>
          simp only
          by_cases hin : inh = [y]
          · simp [hin]
          · simp only [hin, if_false]
            cases hof : Names.objFor e inh with
            | none => exact ⟨_, rfl⟩
            | some nxt =>
              cases rest with
              | nil => exact ⟨_, rfl⟩
              | cons y2 r =>
                have hreg : dget s.reg.all inh = some nxt := by
                  have := hof; unfold Names.objFor at this; rw [he] at this; exact this
                have hl := path_lt (hI.reg.reg.keys _ _ (mem_of_dget hreg))
                simp only
                exact expandLoop_some wf hI e he (y2 :: r) nxt false (by simp) hl
      · exact ⟨_, expandLoop_notfound hfn hgo hcl hpe⟩

theorem findObject_nocrash {proj : Project} {rank : List Nat} (wf : WFacts proj rank) {s : St} (hI : PdInv proj s)
    (T : Path) : Names.findObject (envOf s) T ≠ .indexError ∧ Names.findObject (envOf s) T ≠ .crash := by
  cases hof : Names.objFor (envOf s) T with
  | some i => unfold Names.findObject; simp [hof]
  | none =>
    have hfo : Names.findObject (envOf s) T ≠ .indexError ∧ Names.findObject (envOf s) T ≠ .crash := by
      suffices h : Names.findObjectOld (envOf s) T ≠ .indexError ∧ Names.findObjectOld (envOf s) T ≠ .crash from
        ⟨Names.findObject_ne_of_old (by simp) h.1, Names.findObject_ne_of_old (by simp) h.2⟩
      unfold Names.findObjectOld
      simp only [hof]
      cases T with
      | nil => simp
      | cons r rest =>
        simp only
        split
        · simp
        · rename_i ro hfind
          have hmem := List.mem_of_find?_eq_some hfind
          have hpred := List.find?_some hfind
          obtain ⟨oo, hoo, hpar⟩ := hI.reg.tree.rootsOk ro hmem
          have hgo : getObj (envOf s).st ro = some oo := hoo
          simp only [hgo, decide_eq_true_eq] at hpred
          by_cases hrest : rest = []
          · exfalso
            subst hrest
            have hpro : path s.reg ro = some [r] := by
              rw [← hpred]; simp only [path]; exact pathAux_root hoo hpar
            have := dget_of_path hI.reg hpro
            have h2 : Names.objFor (envOf s) [r] = some ro := this
            rw [hof] at h2; cases h2
          · simp only [hrest, if_false]
            obtain ⟨p2, hp2⟩ := expandLoop_some wf hI (envOf s) rfl rest ro true hrest
              (List.getElem?_eq_some_iff.1 hoo).1
            have : Names.expandName (envOf s) ro rest = some p2 := hp2
            simp only [this]
            cases Names.objFor (envOf s) p2 <;> simp
    exact hfo

theorem lookupModule_nocrash {proj : Project} {rank : List Nat} (wf : WFacts proj rank) {s : St} (hI : PdInv proj s)
    (T : Path) : (lookupModule s T).2 = false := by
  unfold lookupModule
  simp only
  cases hof : Names.objFor (envOf s) T with
  | some i => simp only; split <;> (try split) <;> rfl
  | none =>
    simp only
    have hfo := findObject_nocrash wf hI T
    cases hf : Names.findObject (envOf s) T with
    | obj i => simp only; split <;> (try split) <;> rfl
    | external => rfl
    | lookupError => rfl
    | indexError => exact absurd hf hfo.1
    | crash => exact absurd hf hfo.2

/-! ## fuel: the number of modules that are still unprocessed -/

def cnt (s : St) : Nat := s.ps.count .unprocessed

theorem count_le_pointwise {α : Type} [DecidableEq α] (a : α) : ∀ (l l' : List α), l.length = l'.length →
    (∀ i (h : i < l.length) (h' : i < l'.length), l'[i] = a → l[i] = a) → l'.count a ≤ l.count a
  | [], [], _, _ => by simp
  | [], _ :: _, h, _ => by simp at h
  | _ :: _, [], h, _ => by simp at h
  | x :: xs, y :: ys, hl, hp => by
    have ih := count_le_pointwise a xs ys (by simpa using hl) (fun i h h' he => by
      have := hp (i+1) (by simp; omega) (by simp; omega) (by simpa using he)
      simpa using this)
    have h0 := hp 0 (by simp) (by simp)
    simp only [List.getElem_cons_zero] at h0
    simp only [List.count_cons]
    by_cases hy : y = a
    · have hx := h0 hy; subst hy; subst hx; simp; exact ih
    · have : (y == a) = false := by simpa using hy
      simp only [this, Bool.false_eq_true, if_false, Nat.add_zero]
      split <;> omega

theorem getPs_lt {s : St} {m : Nat} (h : getPs s m = .unprocessed) : m < s.ps.length := by
  refine Nat.lt_of_not_le (fun hge => ?_)
  unfold getPs at h
  rw [List.getD_eq_getElem?_getD, List.getElem?_eq_none hge] at h
  cases h

theorem getPs_eq_getElem {s : St} {i : Nat} (h : i < s.ps.length) : getPs s i = s.ps[i] := by
  unfold getPs; rw [List.getD_eq_getElem?_getD, List.getElem?_eq_getElem h]; rfl

theorem cnt_le_of_psRel {s s' : St} (h : PsRel s s') (hl : s.ps.length = s'.ps.length) : cnt s' ≤ cnt s := by
  unfold cnt
  refine count_le_pointwise _ _ _ hl (fun i hi hi' he => ?_)
  have h1 : getPs s' i = .unprocessed := by rw [getPs_eq_getElem hi']; exact he
  obtain ⟨r1, r2, _⟩ := h i
  rw [← getPs_eq_getElem hi]
  cases hp : getPs s i with
  | unprocessed => rfl
  | processing => rw [r1 hp] at h1; cases h1
  | processed => rw [r2 hp] at h1; cases h1

theorem cnt_ext {proj : Project} {s s' : St} (hI : PdInv proj s) (hI' : PdInv proj s') (he : Ext s s') : cnt s' ≤ cnt s :=
  cnt_le_of_psRel he.ps (by rw [hI.lens.1, hI'.lens.1])

theorem cnt_start {s : St} {m : Nat} {al : List (Option (List Name))} (h : getPs s m = .unprocessed) :
    cnt { s with ps := s.ps.set m .processing, alls := al } + 1 = cnt s := by
  have hm := getPs_lt h
  have he : s.ps[m] = .unprocessed := by rw [← getPs_eq_getElem hm]; exact h
  unfold cnt
  simp only
  rw [List.count_set hm, he]
  have hpos : 0 < s.ps.count .unprocessed := List.count_pos_iff.2 (by rw [← he]; exact List.getElem_mem hm)
  simp
  omega

/-! ## frame: what a statement can change in the `contents` of existing objects -/

/-- module `i` has been started (objects that are not modules are never touched from outside) -/
def Prot (proj : Project) (s : St) (i : Nat) : Prop := i < proj.length → getPs s i ≠ .unprocessed

theorem Prot.ext {proj : Project} {s s' : St} {i : Nat} (h : Prot proj s i) (he : PsRel s s') : Prot proj s' i := by
  intro hi
  have := h hi
  obtain ⟨r1, r2, _⟩ := he i
  cases hp : getPs s i with
  | unprocessed => exact absurd hp this
  | processing => rw [r1 hp]; simp
  | processed => rw [r2 hp]; simp

/-- every started object of `s` keeps its `contents`, except that `ctx` may gain the keys `names` -/
def FrameX (proj : Project) (ctx : Option Nat) (names : List Name) (s s' : St) : Prop :=
  ∀ (i : Nat) (o : Obj), s.reg.objs[i]? = some o → Prot proj s i → ∃ o' : Obj, s'.reg.objs[i]? = some o' ∧
    (some i ≠ ctx → o'.contents = o.contents) ∧
    (some i = ctx → ∀ k, k ∉ names → dget o'.contents k = dget o.contents k)

theorem FrameX.refl (proj : Project) (ctx : Option Nat) (names : List Name) (s : St) : FrameX proj ctx names s s :=
  fun _ o ho _ => ⟨o, ho, fun _ => rfl, fun _ _ _ => rfl⟩

theorem FrameX.trans {proj : Project} {ctx : Option Nat} {l1 l2 : List Name} {a b c : St}
    (h1 : FrameX proj ctx l1 a b) (hp : PsRel a b) (h2 : FrameX proj ctx l2 b c) : FrameX proj ctx (l1 ++ l2) a c := by
  intro i o ho hpr
  obtain ⟨o1, ho1, e1, k1⟩ := h1 i o ho hpr
  obtain ⟨o2, ho2, e2, k2⟩ := h2 i o1 ho1 (hpr.ext hp)
  refine ⟨o2, ho2, fun hne => (e2 hne).trans (e1 hne), fun he k hk => ?_⟩
  simp only [List.mem_append, not_or] at hk
  rw [k2 he k hk.2, k1 he k hk.1]

theorem FrameX.weaken {proj : Project} {ctx : Option Nat} {l : List Name} {a b : St}
    (h : FrameX proj none [] a b) : FrameX proj ctx l a b := by
  intro i o ho hpr
  obtain ⟨o1, ho1, e1, _⟩ := h i o ho hpr
  have := e1 (by simp)
  exact ⟨o1, ho1, fun _ => this, fun _ _ _ => by rw [this]⟩

theorem FrameX.mono {proj : Project} {ctx : Option Nat} {l l' : List Name} {a b : St}
    (h : FrameX proj ctx l a b) (hs : ∀ x ∈ l, x ∈ l') : FrameX proj ctx l' a b := by
  intro i o ho hpr
  obtain ⟨o1, ho1, e1, k1⟩ := h i o ho hpr
  exact ⟨o1, ho1, e1, fun he k hk => k1 he k (fun hx => hk (hs k hx))⟩

theorem setAlias_frame (proj : Project) (c : Option Nat) (l : List Name) (s : St) (ctx : Nat) (k : Name) (v : Path) :
    FrameX proj c l s (setAlias s ctx k v) := by
  intro i o ho _
  by_cases h : i = ctx
  · subst h
    exact ⟨{ o with aliases := dset o.aliases k v }, by rw [setAlias_get_eq, ho]; rfl, fun _ => rfl, fun _ _ _ => rfl⟩
  · exact ⟨o, by rw [setAlias_get_ne h]; exact ho, fun _ => rfl, fun _ _ _ => rfl⟩

theorem addObj_frame (proj : Project) {s : St} {c : Cls} {name : Name} {ctx : Nat} {pp : Path}
    (hp : path s.reg ctx = some pp) (hb : (addObj s c name ctx).bad = false) :
    FrameX proj (some ctx) [name] s (addObj s c name ctx) := by
  obtain ⟨he, _⟩ := addObj_spec hp hb
  rw [he]
  intro i o ho _
  refine ⟨_, objsAfterAdd_get_old (path_lt hp) ho, fun hne => ?_, fun hi k hk => ?_⟩
  · have : i ≠ ctx := fun h => hne (by rw [h])
    simp [this]
  · injection hi with hi; subst hi
    simp only [if_true]
    rw [dset_get_other _ _ _ _ (by simpa using hk)]

/-! ## one statement: clean, and what it changes -/

def PmClean (proj : Project) (pm : St → Nat → St) (k : Nat) : Prop :=
  ∀ s t, s.bad = false → PdInv proj s → t < proj.length → getPs s t = .unprocessed → cnt s ≤ k → (pm s t).bad = false

theorem markBad_false (s : St) : markBad s false = s := rfl

/-- `pm` (one nesting level of `processModule`) is clean and leaves started objects alone, on states with at
most `k` unprocessed modules -/
def PmGood (proj : Project) (pm : St → Nat → St) (k : Nat) : Prop :=
  ∀ s t, s.bad = false → PdInv proj s → t < proj.length → getPs s t = .unprocessed → cnt s ≤ k →
    (pm s t).bad = false ∧ FrameX proj none [] s (pm s t)

theorem PmGood.clean {proj : Project} {pm : St → Nat → St} {k : Nat} (h : PmGood proj pm k) : PmClean proj pm k :=
  fun s t hb hI ht hu hk => (h s t hb hI ht hu hk).1

/-- a frame over `[]` with `none`: compose two of them -/
theorem FrameX.trans0 {proj : Project} {a b c : St} (h1 : FrameX proj none [] a b) (hp : PsRel a b)
    (h2 : FrameX proj none [] b c) : FrameX proj none [] a c := by
  have := h1.trans hp h2
  simpa using this

theorem pmMany_good {proj : Project} {pm : St → Nat → St} {k : Nat} (hpm : PmOk proj pm) (hg : PmGood proj pm k) :
    ∀ (l : List Nat) (s : St), (∀ m ∈ l, m < proj.length) → PdInv proj s → s.bad = false → cnt s ≤ k →
      (pmMany pm l s).bad = false ∧ FrameX proj none [] s (pmMany pm l s)
  | [], s, _, _, hb, _ => ⟨hb, FrameX.refl _ _ _ _⟩
  | m :: r, s, hl, hI, hb, hk => by
    simp only [pmMany, List.foldl_cons]
    by_cases hu : getPs s m = .unprocessed
    · simp only [hu, if_true]
      have hm := hl m List.mem_cons_self
      obtain ⟨hb1, hf1⟩ := hg s m hb hI hm hu hk
      obtain ⟨hI1, he1, _⟩ := hpm.2 s m hb1 hI hm
      have hk1 : cnt (pm s m) ≤ k := Nat.le_trans (cnt_ext hI hI1 he1) hk
      obtain ⟨hb2, hf2⟩ := pmMany_good hpm hg r _ (fun x hx => hl x (List.mem_cons_of_mem _ hx)) hI1 hb1 hk1
      exact ⟨hb2, hf1.trans0 he1.ps hf2⟩
    · simp only [hu, if_false]
      exact pmMany_good hpm hg r _ (fun x hx => hl x (List.mem_cons_of_mem _ hx)) hI hb hk

theorem gpmAbove_good {proj : Project} {pm : St → Nat → St} {k : Nat} (hpm : PmOk proj pm) (hg : PmGood proj pm k)
    {s : St} {t : Nat} (hI : PdInv proj s) (hb : s.bad = false) (hk : cnt s ≤ k) :
    (gpmAbove pm s t).bad = false ∧ FrameX proj none [] s (gpmAbove pm s t) := by
  unfold gpmAbove
  split
  · unfold processAbove
    exact pmMany_good hpm hg _ _ (fun m hm => modulesAbove_lt hI _ _ m (List.mem_reverse.1 hm)) hI hb hk
  · exact ⟨hb, FrameX.refl _ _ _ _⟩

theorem gpmOne_good {proj : Project} {pm : St → Nat → St} {k : Nat} (hpm : PmOk proj pm) (hg : PmGood proj pm k)
    {s : St} {t : Nat} (hI : PdInv proj s) (hlt : t < proj.length) (hb : s.bad = false) (hk : cnt s ≤ k) :
    (gpmOne pm s t).bad = false ∧ FrameX proj none [] s (gpmOne pm s t) := by
  unfold gpmOne
  simp only
  by_cases hu : getPs s t = .unprocessed
  · simp only [hu, if_true]
    obtain ⟨hbp, hfp⟩ := hg s t hb hI hlt hu hk
    have hdone := (hpm.2 s t hbp hI hlt).2.2
    have hne : (PState.processed == PState.unprocessed) = false := by decide
    rw [hdone, hne, markBad_false]; exact ⟨hbp, hfp⟩
  · simp only [hu, if_false]
    have : (getPs s t == PState.unprocessed) = false := by simpa using hu
    rw [this, markBad_false]; exact ⟨hb, FrameX.refl _ _ _ _⟩

theorem gpm_good {proj : Project} {rank : List Nat} (wf : WFacts proj rank) {pm : St → Nat → St} {k : Nat}
    (hpm : PmOk proj pm) (hg : PmGood proj pm k) {s : St} {T : Path} (hI : PdInv proj s) (hb : s.bad = false)
    (hk : cnt s ≤ k) :
    (getProcessedModule pm s T).1.bad = false ∧ FrameX proj none [] s (getProcessedModule pm s T).1 := by
  unfold getProcessedModule
  have hnc := lookupModule_nocrash wf hI T
  cases hl : lookupModule s T with
  | mk r crash =>
    rw [hl] at hnc; simp only at hnc; subst hnc
    cases r with
    | none => simp only [markBad_false]; exact ⟨hb, FrameX.refl _ _ _ _⟩
    | some t =>
      simp only [markBad_false]
      obtain ⟨hlt, _⟩ := lookupModule_spec hI hl
      obtain ⟨hbA, hfA⟩ := gpmAbove_good (t := t) hpm hg hI hb hk
      obtain ⟨hIA, heA⟩ := gpmAbove_ok hpm hI hbA
      have hkA : cnt (gpmAbove pm s t) ≤ k := Nat.le_trans (cnt_ext hI hIA heA) hk
      obtain ⟨hb1, hf1⟩ := gpmOne_good hpm hg hIA hlt hbA hkA
      exact ⟨hb1, hfA.trans0 heA.ps hf1⟩

theorem importProcess_good {proj : Project} {rank : List Nat} (wf : WFacts proj rank) {pm : St → Nat → St} {k : Nat}
    (hpm : PmOk proj pm) (hg : PmGood proj pm k) {T : Path} {s : St} (hI : PdInv proj s) (hb : s.bad = false)
    (hk : cnt s ≤ k) :
    (importProcess pm T s).bad = false ∧ FrameX proj none [] s (importProcess pm T s) := by
  unfold importProcess
  generalize prefixesOf T = l
  induction l generalizing s with
  | nil => exact ⟨hb, FrameX.refl _ _ _ _⟩
  | cons p r ih =>
    simp only [List.foldl_cons]
    obtain ⟨hb1, hf1⟩ := gpm_good (T := p) wf hpm hg hI hb hk
    obtain ⟨hI1, he1, _⟩ := gpm_ok hpm hI hb1
    have hk1 : cnt (getProcessedModule pm s p).1 ≤ k := Nat.le_trans (cnt_ext hI hI1 he1) hk
    obtain ⟨hb2, hf2⟩ := ih hI1 hb1 hk1
    exact ⟨hb2, hf1.trans0 he1.ps hf2⟩

/-- a statement's outcome for the clean-run proof -/
structure StepOk (proj : Project) (ctx : Nat) (names : List Name) (s s' : St) : Prop where
  clean : s'.bad = false
  frame : FrameX proj (some ctx) names s s'

theorem sitePath_ne_nil {proj : Project} {rank : List Nat} (wf : WFacts proj rank) {S : Site} (h : StaticSite proj S) :
    sitePath proj S ≠ [] := by
  have := (wf.parentOk S.1 h.1).1
  simp [sitePath, this]

theorem visitImportFrom_step {proj : Project} {rank : List Nat} (wf : WFacts proj rank) (nr : NoReexpFacts proj) {pm : St → Nat → St} {k : Nat}
    (hpm : PmOk proj pm) (hg : PmGood proj pm k) {s : St} (hI : PdInv proj s)
    {mod ctx : Nat} {S : Site} {full : List Stmt} (hc : Ctx proj s mod ctx S full) {lvl : Nat} {M : Path} {n : Name}
    {a : Option Name} (hst : Stmt.importFrom lvl M n a ∈ full) (hb : s.bad = false) (hk : cnt s ≤ k) :
    StepOk proj ctx [] s (visitImportFrom pm mod ctx lvl M n a s) := by
  have hS1 := hc.hS1
  obtain ⟨T, hT⟩ := pdAbs_some (lvl := lvl) (M := M) wf hc.body hst (by simp [stmtTargets])
  rw [hS1] at hT
  have hT' : absName s mod lvl M = some T := by rw [absName_eq hI hc.hmod]; exact hT
  unfold visitImportFrom
  simp only [hT']
  obtain ⟨hb1, hf1⟩ := gpm_good (T := T) wf hpm hg hI hb hk
  obtain ⟨hI1, he1, _⟩ := gpm_ok hpm hI hb1
  have hk1 : cnt (getProcessedModule pm s T).1 ≤ k := Nat.le_trans (cnt_ext hI hI1 he1) hk
  cases ht : (getProcessedModule pm s T).2 with
  | none =>
    simp only
    exact ⟨by rw [setAlias_bad]; exact hb1,
      (hf1.weaken (ctx := some ctx) (l := [])).trans he1.ps (setAlias_frame proj _ [] _ _ _ _)⟩
  | some t =>
    simp only
    generalize hs2 : (if isPkgObj (getProcessedModule pm s T).1.reg t = true then
        (getProcessedModule pm (getProcessedModule pm s T).1 (T ++ [n])).1 else (getProcessedModule pm s T).1) = s2
    have h2 : s2.bad = false ∧ PdInv proj s2 ∧ Ext s s2 ∧ FrameX proj (some ctx) [] s s2 := by
      rw [← hs2]
      by_cases hpk : isPkgObj (getProcessedModule pm s T).1.reg t = true
      · simp only [hpk, if_true]
        obtain ⟨hb2, hf2⟩ := gpm_good (T := T ++ [n]) wf hpm hg hI1 hb1 hk1
        obtain ⟨hI2, he2, _⟩ := gpm_ok hpm hI1 hb2
        exact ⟨hb2, hI2, he1.trans he2,
          (hf1.weaken (ctx := some ctx) (l := [])).trans he1.ps hf2.weaken⟩
      · simp only [hpk, if_false]
        exact ⟨hb1, hI1, he1, hf1.weaken⟩
    obtain ⟨hb2, hI2, he2, hf2⟩ := h2
    have hnox : (currentExports (getProcessedModule pm s T).1 ctx).contains (a.getD n) = false := by
      cases hcx : (currentExports (getProcessedModule pm s T).1 ctx).contains (a.getD n) with
      | false => rfl
      | true =>
        exfalso
        have hmem : a.getD n ∈ currentExports (getProcessedModule pm s T).1 ctx := by simpa using hcx
        obtain ⟨hS2, hall⟩ := exports_sub hI1 hc he1 _ hmem
        obtain ⟨m, cp⟩ := S
        simp only at hS2 hS1; subst hS2; subst hS1
        exact nr.noreexpFrom hc.body hst hall
    rw [hre_noop hnox]
    simp only [Bool.false_eq_true, if_false]
    exact ⟨by rw [setAlias_bad]; exact hb2, by
      have := hf2.trans he2.ps (setAlias_frame proj (some ctx) [] s2 ctx (a.getD n) (T ++ [n]))
      simpa using this⟩

theorem starOne_step {proj : Project} {rank : List Nat} (wf : WFacts proj rank) {s : St} (hI : PdInv proj s)
    {ctx t : Nat} (ht : t < proj.length) (hb : s.bad = false) (x : Name) :
    (starOne pm ctx t [] s x).bad = false ∧ FrameX proj (some ctx) [] s (starOne pm ctx t [] s x) := by
  unfold starOne
  rw [hre_noop (by simp)]
  simp only [Bool.false_eq_true, if_false]
  obtain ⟨o, ho, _, hcl⟩ := hI.mods t ht
  have hmo : isModuleCls o.cls = true := by rw [hcl, modCls]; split <;> rfl
  have hl := localName_module (e := envOf s) (t := t) (o := o) ho hmo x
  rw [Names.expand_single_local, hl]
  have hset : ∀ p : Path, (setAlias s ctx x p).bad = false ∧ FrameX proj (some ctx) [] s (setAlias s ctx x p) :=
    fun p => ⟨by rw [setAlias_bad]; exact hb, setAlias_frame proj (some ctx) [] s ctx x p⟩
  cases hdc : dget o.contents x with
  | some c =>
    simp only
    obtain ⟨_, _, hpt, _⟩ := hI.mods t ht
    have hpc : path (envOf s).st c = some (pathOf proj t ++ [x]) := path_child hI.reg ho hdc hpt
    rw [hpc]
    exact hset _
  | none =>
    simp only
    cases hda : dget o.aliases x with
    | some tg => exact hset _
    | none => exact hset _

theorem starFold_step {proj : Project} {rank : List Nat} (wf : WFacts proj rank)
    {mod ctx : Nat} {S : Site} {full : List Stmt} {lvl : Nat} {M T : Path}
    (hst : Stmt.importStar lvl M ∈ full) (hT : pdAbsName proj S.1 lvl M = some T) {t : Nat} (ht : t < proj.length)
    (hu : ∀ t', modIdx proj T = some t' → t = t') :
    ∀ (l : List Name) (s : St), PdInv proj s → Ctx proj s mod ctx S full →
      (∀ x ∈ l, starOk proj t x ∧ (x ∈ allNames (bodyOf proj t) ∨ HasEntry s t x)) → s.bad = false →
      (l.foldl (starOne pm ctx t []) s).bad = false ∧ FrameX proj (some ctx) [] s (l.foldl (starOne pm ctx t []) s)
  | [], s, _, _, _, hb => ⟨hb, FrameX.refl _ _ _ _⟩
  | x :: xs, s, hI, hc, hx, hb => by
    simp only [List.foldl_cons]
    obtain ⟨hb1, hf1⟩ := starOne_step wf hI (ctx := ctx) ht hb x
    obtain ⟨hI1, he1⟩ := starOne_ok wf hI hc hst hT ht hu (hx x (List.mem_cons_self ..)) hb1
    have hx' : ∀ y ∈ xs, starOk proj t y ∧ (y ∈ allNames (bodyOf proj t) ∨ HasEntry (starOne pm ctx t [] s x) t y) := by
      intro y hy
      obtain ⟨h1, h2⟩ := hx y (List.mem_cons_of_mem _ hy)
      exact ⟨h1, h2.imp id (fun h => h.ext he1)⟩
    obtain ⟨hb2, hf2⟩ := starFold_step wf hst hT ht hu xs _ hI1 (hc.ext he1) hx' hb1
    exact ⟨hb2, by simpa using hf1.trans he1.ps hf2⟩

theorem visitImportStar_step {proj : Project} {rank : List Nat} (wf : WFacts proj rank) (nr : NoReexpFacts proj) {pm : St → Nat → St} {k : Nat}
    (hpm : PmOk proj pm) (hg : PmGood proj pm k) {s : St} (hI : PdInv proj s)
    {mod ctx : Nat} {S : Site} {full : List Stmt} (hc : Ctx proj s mod ctx S full) {lvl : Nat} {M : Path}
    (hst : Stmt.importStar lvl M ∈ full) (hb : s.bad = false) (hk : cnt s ≤ k) :
    StepOk proj ctx [] s (visitImportStar pm mod ctx lvl M s) := by
  have hS1 := hc.hS1
  obtain ⟨T, hT⟩ := pdAbs_some (lvl := lvl) (M := M) wf hc.body hst (by simp [stmtTargets])
  have hT' : absName s mod lvl M = some T := by rw [absName_eq hI hc.hmod, ← hS1]; exact hT
  unfold visitImportStar
  simp only [hT']
  obtain ⟨hb1, hf1⟩ := gpm_good (T := T) wf hpm hg hI hb hk
  obtain ⟨hI1, he1, hsp⟩ := gpm_ok hpm hI hb1
  cases ht : (getProcessedModule pm s T).2 with
  | none => simp only; exact ⟨hb1, hf1.weaken⟩
  | some t =>
    simp only
    obtain ⟨htl, hu⟩ := hsp t ht
    have hex : currentExports (getProcessedModule pm s T).1 ctx = [] := by
      cases hce : currentExports (getProcessedModule pm s T).1 ctx with
      | nil => rfl
      | cons y ys =>
        exfalso
        obtain ⟨hS2, hall⟩ := exports_sub hI1 hc he1 y (by rw [hce]; exact List.mem_cons_self ..)
        obtain ⟨m, cp⟩ := S
        simp only at hS2 hS1; subst hS2; subst hS1
        rw [nr.noreexpStar hc.body hst] at hall; cases hall
    rw [hex]
    have hnames : ∀ x ∈ starNames (getProcessedModule pm s T).1 t,
        starOk proj t x ∧ (x ∈ allNames (bodyOf proj t) ∨ HasEntry (getProcessedModule pm s T).1 t x) := by
      intro x hx
      unfold starNames at hx
      cases hg : getAll (getProcessedModule pm s T).1 t with
      | some l =>
        simp only [hg] at hx
        have := hI1.alls t l hg x hx
        exact ⟨Or.inl this, Or.inl this⟩
      | none =>
        simp only [hg] at hx
        obtain ⟨o, ho, _, _⟩ := hI1.mods t htl
        have ho' : getObj (getProcessedModule pm s T).1.reg t = some o := ho
        simp only [ho', List.mem_filter, List.mem_append] at hx
        refine ⟨Or.inr (by simpa [isPublic] using hx.2), Or.inr ⟨o, ho, ?_⟩⟩
        rcases hx.1 with h | h
        · exact Or.inl (dget_ne_none_of_key h)
        · exact Or.inr (dget_ne_none_of_key h)
    obtain ⟨hb2, hf2⟩ := starFold_step wf hst hT htl hu _ _ hI1 (hc.ext he1) hnames hb1
    exact ⟨hb2, by simpa using (hf1.weaken (ctx := some ctx) (l := [])).trans he1.ps hf2⟩

/-- the name of a definition is not yet registered below the scope's object when the object holds no
entry for it -/
theorem def_fresh {proj : Project} {rank : List Nat} (wf : WFacts proj rank) {s : St} (hI : PdInv proj s)
    {mod ctx : Nat} {S : Site} {full : List Stmt} (hc : Ctx proj s mod ctx S full) {st : Stmt} {n : Name}
    (hst : st ∈ full) (hd : st.defName = some n) {o : Obj} (ho : s.reg.objs[ctx]? = some o)
    (hno : dget o.contents n = none) : dget s.reg.all (sitePath proj S ++ [n]) = none :=
  fresh_of_not_content hI.reg ho hc.pathc (sitePath_ne_nil wf (hc.static hI)) (wf.namesOk hc.body hst hd) hno

theorem visitFunc_step {proj : Project} {rank : List Nat} (wf : WFacts proj rank) {s : St} (hI : PdInv proj s)
    {mod ctx : Nat} {S : Site} {full : List Stmt} (hc : Ctx proj s mod ctx S full) {n : Name}
    (hst : Stmt.funcDef n ∈ full) (hb : s.bad = false)
    (hpend : ∀ o, s.reg.objs[ctx]? = some o → dget o.contents n = none) :
    StepOk proj ctx [n] s (addObj s .function n ctx) := by
  obtain ⟨o, ho, _⟩ := hc.clsc
  have hf := def_fresh wf hI hc hst rfl ho (hpend o ho)
  have hb1 := addObj_clean (c := .function) hb hc.pathc hf
  exact ⟨hb1, addObj_frame proj hc.pathc hb1⟩

theorem visitAssign_step {proj : Project} {rank : List Nat} (wf : WFacts proj rank) {s : St} (hI : PdInv proj s)
    {mod ctx : Nat} {S : Site} {full : List Stmt} (hc : Ctx proj s mod ctx S full) {n : Name} {v : Nat}
    (hst : Stmt.assign n v ∈ full) (hb : s.bad = false) :
    StepOk proj ctx [n] s (visitAssign ctx n s) := by
  obtain ⟨o, ho, _⟩ := hc.clsc
  have hgo : getObj s.reg ctx = some o := ho
  have hadd : dhas o.contents n = false → StepOk proj ctx [n] s (addObj s .attribute n ctx) := by
    intro hd
    have hno : dget o.contents n = none := by
      unfold dhas at hd
      cases hx : dget o.contents n with
      | none => rfl
      | some c => simp [hx] at hd
    have hf := def_fresh wf hI hc hst rfl ho hno
    have hb1 := addObj_clean (c := .attribute) hb hc.pathc hf
    exact ⟨hb1, addObj_frame proj hc.pathc hb1⟩
  have hsame : StepOk proj ctx [n] s s := ⟨hb, FrameX.refl _ _ _ _⟩
  unfold visitAssign
  simp only [hgo]
  by_cases hm : isModuleCls o.cls = true
  · simp only [hm, if_true]
    by_cases hd : dhas o.contents n = true
    · simp only [hd, if_true]; exact hsame
    · simp only [hd]; exact hadd (by simpa using hd)
  · simp only [hm]
    by_cases hd : dhas o.contents n = true
    · simp only [hd, Bool.and_true, if_true, ite_self]; exact hsame
    · have hd' : dhas o.contents n = false := by simpa using hd
      simp only [hd', Bool.and_false, Bool.false_eq_true, if_false]; exact hadd hd'

theorem enterClass_step {proj : Project} {rank : List Nat} (wf : WFacts proj rank) {s : St} (hI : PdInv proj s)
    {mod ctx : Nat} {S : Site} {full : List Stmt} (hc : Ctx proj s mod ctx S full) {n : Name} {bs : List Path}
    {body : List Stmt} (hst : Stmt.classDef n bs body ∈ full) (hb : s.bad = false)
    (hpend : ∀ o, s.reg.objs[ctx]? = some o → dget o.contents n = none) :
    StepOk proj ctx [n] s (enterClass ctx n bs s) ∧ (addObj s .cls n ctx).bad = false := by
  obtain ⟨o, ho, _⟩ := hc.clsc
  have hf := def_fresh wf hI hc hst rfl ho (hpend o ho)
  have hb1 := addObj_clean (c := .cls) hb hc.pathc hf
  -- the base expressions expand without a crash
  have hexp : (bs.map (fun b => Names.expandName (envOf s) ctx b)).any Option.isNone = false := by
    rw [Bool.eq_false_iff]
    intro h
    simp only [List.any_eq_true, List.mem_map] at h
    obtain ⟨x, ⟨b, hbm, rfl⟩, hx⟩ := h
    obtain ⟨p, hp⟩ := expandLoop_some wf hI (envOf s) rfl b ctx true (wf.basesNe hc.body hst b hbm)
      (List.getElem?_eq_some_iff.1 ho).1
    have : Names.expandName (envOf s) ctx b = some p := hp
    rw [this] at hx; cases hx
  obtain ⟨ci, he⟩ : ∃ ci : List (Nat × ClsInfo), enterClass ctx n bs s = { addObj s .cls n ctx with cinfo := ci } := by
    unfold enterClass
    simp only [hexp, markBad_false]
    exact ⟨_, rfl⟩
  rw [he]
  exact ⟨⟨hb1, addObj_frame proj hc.pathc hb1⟩, hb1⟩

end Imports

namespace Imports
open Registry

/-! ## a body -/

theorem nodup_flatMap_later {α β : Type} {f : α → List β} {l pre rest : List α} {a b : α} {x : β}
    (hn : (l.flatMap f).Nodup) (hl : l = pre ++ a :: rest) (hx : x ∈ f a) (hb : b ∈ rest) (hx' : x ∈ f b) : False := by
  subst hl
  simp only [List.flatMap_append, List.flatMap_cons, List.nodup_append] at hn
  obtain ⟨_, ⟨_, _, h3⟩, _⟩ := hn
  exact h3 x hx x (List.mem_flatMap.2 ⟨b, hb, hx'⟩) rfl

/-- a later statement of a body does not define the name an earlier one defines -/
theorem later_def_ne {proj : Project} {rank : List Nat} (wf : WFacts proj rank) {S : Site} {full pre rest : List Stmt}
    {st st' : Stmt} {n : Name} (hb : siteBody proj S = some full) (hfull : full = pre ++ st :: rest)
    (hd : st.defName = some n) (hst' : st' ∈ rest) (hd' : st'.defName = some n) : False := by
  obtain ⟨m, cp⟩ := S
  by_cases hcp : cp = []
  · subst hcp
    have hbm := siteBody_mod hb
    have hn := wf.onceMod m (siteBody_lt hb)
    rw [modNames_succ, List.nodup_append] at hn
    rw [← hbm] at hn
    exact nodup_flatMap_later hn.2.1 hfull (stmtNames_of_explicit (defName_explicit hd)) hst'
      (stmtNames_of_explicit (defName_explicit hd'))
  · exact nodup_flatMap_later (wf.onceCls hb hcp) hfull (defName_explicit hd) hst' (defName_explicit hd')

def defNames (sts : List Stmt) : List Name := sts.flatMap (fun st => st.defName.toList)

/-- the definitions still to come have left no entry in the scope's object yet -/
def Pending (s : St) (ctx : Nat) (sts : List Stmt) : Prop :=
  ∀ o, s.reg.objs[ctx]? = some o → ∀ st ∈ sts, ∀ n, st.defName = some n → dget o.contents n = none

theorem Ctx.prot {proj : Project} {s : St} {mod ctx : Nat} {S : Site} {full : List Stmt} (hI : PdInv proj s)
    (hc : Ctx proj s mod ctx S full) : Prot proj s ctx := by
  intro hlt
  obtain ⟨o, ho, hcl⟩ := hc.clsc
  obtain ⟨o', ho', _, hc'⟩ := hI.mods ctx hlt
  rw [ho] at ho'; injection ho' with ho'; subst ho'
  rcases hcl with ⟨hS2, _⟩ | ⟨_, hcls⟩
  · rw [hc.ctxmod hS2, hc.ps]; simp
  · rw [hc'] at hcls; unfold modCls at hcls; split at hcls <;> cases hcls

theorem enterClass_new {s : St} {ctx : Nat} {n : Name} {bs : List Path} {pp : Path} (hp : path s.reg ctx = some pp)
    (hb : (enterClass ctx n bs s).bad = false) :
    (enterClass ctx n bs s).reg.objs[s.reg.objs.length]? = some (⟨n, some ctx, .cls, [], []⟩ : Obj) := by
  have hb1 := enterClass_bad hb
  obtain ⟨ci, he⟩ : ∃ ci : List (Nat × ClsInfo), enterClass ctx n bs s = { addObj s .cls n ctx with cinfo := ci } := by
    unfold enterClass at hb ⊢
    simp only at hb ⊢
    obtain ⟨_, hmb⟩ := markBad_bad hb
    exact ⟨_, hmb⟩
  rw [he]
  obtain ⟨he2, _⟩ := addObj_spec hp hb1
  rw [he2]
  exact objsAfterAdd_get_new (path_lt hp)

mutual
theorem visitStmt_step {proj : Project} {rank : List Nat} (wf : WFacts proj rank) (nr : NoReexpFacts proj) {pm : St → Nat → St} {k : Nat}
    (hpm : PmOk proj pm) (hg : PmGood proj pm k) {mod : Nat} :
    ∀ (st : Stmt) (ctx : Nat) (s : St) (S : Site) (full : List Stmt), PdInv proj s → Ctx proj s mod ctx S full →
      st ∈ full → s.bad = false → cnt s ≤ k →
      (∀ o, s.reg.objs[ctx]? = some o → ∀ n, st.defName = some n → dget o.contents n = none) →
      StepOk proj ctx st.defName.toList s (visitStmt pm mod ctx st s)
  | .importMod t a, ctx, s, S, full, hI, hc, hst, hb, hk, _ => by
    simp only [visitStmt, Stmt.defName, Option.toList]
    obtain ⟨hb0, hf0⟩ := importProcess_good (T := t) wf hpm hg hI hb hk
    obtain ⟨_, he0⟩ := importProcess_ok hpm hI hb0
    have hstep : StepOk proj ctx [] (importProcess pm t s) (visitImport ctx t a (importProcess pm t s)) := by
      generalize importProcess pm t s = s0 at hb0
      unfold visitImport
      cases a with
      | some x => exact ⟨by rw [setAlias_bad]; exact hb0, setAlias_frame proj _ _ s0 ctx x t⟩
      | none =>
        cases t with
        | nil => exact ⟨hb0, FrameX.refl _ _ _ _⟩
        | cons h r => exact ⟨by rw [setAlias_bad]; exact hb0, setAlias_frame proj _ _ s0 ctx h [h]⟩
    exact ⟨hstep.clean, by
      have := (hf0.weaken (ctx := some ctx) (l := [])).trans he0.ps hstep.frame
      simpa using this⟩
  | .importFrom lvl M n a, ctx, s, S, full, hI, hc, hst, hb, hk, _ => by
    simp only [visitStmt, Stmt.defName, Option.toList]
    exact visitImportFrom_step wf nr hpm hg hI hc hst hb hk
  | .importStar lvl M, ctx, s, S, full, hI, hc, hst, hb, hk, _ => by
    simp only [visitStmt, Stmt.defName, Option.toList]
    exact visitImportStar_step wf nr hpm hg hI hc hst hb hk
  | .classDef n bs body, ctx, s, S, full, hI, hc, hst, hb, hk, hp => by
    simp only [visitStmt, Stmt.defName, Option.toList]
    obtain ⟨⟨hb1, hf1⟩, _⟩ := enterClass_step wf hI hc hst hb (fun o ho => hp o ho n rfl)
    obtain ⟨hI1, he1, hc1, _⟩ := enterClass_ok wf hI hc hst hb1
    have hk1 : cnt (enterClass ctx n bs s) ≤ k := Nat.le_trans (cnt_ext hI hI1 he1) hk
    have hnew := enterClass_new hc.pathc hb1
    have hpend : Pending (enterClass ctx n bs s) s.reg.objs.length body := by
      intro o ho st' _ n' _
      rw [hnew] at ho; injection ho with ho; subst ho; rfl
    obtain ⟨hb2, hf2⟩ := visitStmts_step wf nr hpm hg body s.reg.objs.length _ _ body [] hI1 hc1 (by simp) hb1 hk1 hpend
    refine ⟨hb2, ?_⟩
    intro i o ho hpr
    obtain ⟨o1, ho1, e1, k1⟩ := hf1 i o ho hpr
    obtain ⟨o2, ho2, e2, _⟩ := hf2 i o1 ho1 (hpr.ext he1.ps)
    have hne : some i ≠ some s.reg.objs.length := by
      have := (List.getElem?_eq_some_iff.1 ho).1
      intro h; injection h with h; omega
    have := e2 hne
    exact ⟨o2, ho2, fun h => this.trans (e1 h), fun h k' hk' => by rw [this]; exact k1 h k' hk'⟩
  | .funcDef n, ctx, s, S, full, hI, hc, hst, hb, _, hp => by
    simp only [visitStmt, Stmt.defName, Option.toList]
    exact visitFunc_step wf hI hc hst hb (fun o ho => hp o ho n rfl)
  | .assign n v, ctx, s, S, full, hI, hc, hst, hb, _, _ => by
    simp only [visitStmt, Stmt.defName, Option.toList]
    exact visitAssign_step wf hI hc hst hb
  | .allAssign l, ctx, s, S, full, _, _, _, hb, _, _ => by
    simp only [visitStmt, Stmt.defName, Option.toList]
    exact ⟨hb, FrameX.refl _ _ _ _⟩
theorem visitStmts_step {proj : Project} {rank : List Nat} (wf : WFacts proj rank) (nr : NoReexpFacts proj) {pm : St → Nat → St} {k : Nat}
    (hpm : PmOk proj pm) (hg : PmGood proj pm k) {mod : Nat} :
    ∀ (sts : List Stmt) (ctx : Nat) (s : St) (S : Site) (full pre : List Stmt), PdInv proj s →
      Ctx proj s mod ctx S full → full = pre ++ sts → s.bad = false → cnt s ≤ k → Pending s ctx sts →
      StepOk proj ctx (defNames sts) s (visitStmts pm mod ctx sts s)
  | [], ctx, s, S, full, pre, _, _, _, hb, _, _ => by
    simp only [visitStmts]; exact ⟨hb, FrameX.refl _ _ _ _⟩
  | st :: rest, ctx, s, S, full, pre, hI, hc, hfull, hb, hk, hp => by
    simp only [visitStmts]
    have hmem : st ∈ full := by rw [hfull]; simp
    obtain ⟨hb1, hf1⟩ := visitStmt_step wf nr hpm hg st ctx s S full hI hc hmem hb hk
      (fun o ho n hd => hp o ho st (List.mem_cons_self ..) n hd)
    obtain ⟨hI1, he1, _⟩ := visitStmt_ok wf nr hpm st ctx s S full hI hc hmem hb1
    have hk1 := Nat.le_trans (cnt_ext hI hI1 he1) hk
    have hpend1 : Pending (visitStmt pm mod ctx st s) ctx rest := by
      intro o1 ho1 st' hst' n' hd'
      obtain ⟨o, ho, _⟩ := hc.clsc
      obtain ⟨o1', ho1', _, k1⟩ := hf1 ctx o ho (hc.prot hI)
      rw [ho1] at ho1'; injection ho1' with ho1'; subst ho1'
      rw [k1 rfl n' ?_]
      · exact hp o ho st' (List.mem_cons_of_mem _ hst') n' hd'
      · intro hin
        cases hd : st.defName with
        | none => simp [hd] at hin
        | some n =>
          simp only [hd, Option.toList, List.mem_singleton] at hin
          subst hin
          exact later_def_ne wf hc.body hfull hd hst' hd'
    obtain ⟨hb2, hf2⟩ := visitStmts_step wf nr hpm hg rest ctx _ S full (pre ++ [st]) hI1 (hc.ext he1)
      (by rw [hfull]; simp) hb1 hk1 hpend1
    exact ⟨hb2, by
      have := hf1.trans he1.ps hf2
      simpa [defNames] using this⟩
end

/-! ## a module; the whole run -/

/-- the state in which `processModule` visits the body of module `m` -/
theorem processModule_start {proj : Project} {s : St} (hI : PdInv proj s) {m : Nat} (hm : m < proj.length)
    (hu : getPs s m = .unprocessed) :
    PdInv proj { s with ps := s.ps.set m .processing, alls := s.alls.set m (lastAll proj[m].body) } ∧
    Ctx proj { s with ps := s.ps.set m .processing, alls := s.alls.set m (lastAll proj[m].body) } m m (m, []) proj[m].body ∧
    (∀ t, getPs { s with ps := s.ps.set m .processing, alls := s.alls.set m (lastAll proj[m].body) } t =
      if t = m then .processing else getPs s t) := by
  have hmd : proj[m]? = some proj[m] := by simp [hm]
  have hmps : m < s.ps.length := by rw [hI.lens.1]; exact hm
  have hmal : m < s.alls.length := by rw [hI.lens.2]; exact hm
  generalize hs2 : ({ s with ps := s.ps.set m .processing, alls := s.alls.set m (lastAll proj[m].body) } : St) = s2
  have hreg2 : s2.reg = s.reg := by rw [← hs2]
  have hps2 : ∀ t, getPs s2 t = if t = m then .processing else getPs s t := by
    intro t; rw [← hs2]; exact getPs_set (s := { s with alls := _ }) hmps t
  have hal2 : ∀ t, getAll s2 t = if t = m then lastAll proj[m].body else getAll s t := by
    intro t; rw [← hs2]; exact getAll_set (s := { s with ps := _ }) hmal t
  have hbody : bodyOf proj m = proj[m].body := bodyOf_eq hmd
  have hI2 : PdInv proj s2 :=
    { reg := hreg2 ▸ hI.reg
      cbase := by
        have := hI.cbase
        rw [← hs2]; exact this
      lens := by rw [← hs2]; simp [hI.lens]
      mods := by rw [hreg2]; exact hI.mods
      site := by rw [hreg2]; exact hI.site
      alias := by rw [hreg2]; exact hI.alias
      cont := by rw [hreg2]; exact hI.cont
      alls := by
        intro t l hl x hx
        rw [hal2] at hl
        by_cases htm : t = m
        · subst htm; simp only [if_true] at hl; rw [hbody]; exact lastAll_sub _ l hl x hx
        · simp only [htm, if_false] at hl; exact hI.alls t l hl x hx
      started := by
        intro i S hp hS hne'
        rw [hps2]
        by_cases htm : S.1 = m
        · simp [htm]
        · simp only [htm, if_false]; exact hI.started i S (hreg2 ▸ hp) hS hne'
      complete := by
        intro t md ht hp
        rw [hps2] at hp
        by_cases htm : t = m
        · simp [htm] at hp
        · simp only [htm, if_false] at hp
          exact CompleteStmts.extObjs (ExtObjs.of_reg hreg2) _ (hI.complete t md ht hp) }
  obtain ⟨o, ho, hpm, hcl⟩ := hI.mods m hm
  refine ⟨hI2, ?_, hps2⟩
  exact
    { hmod := hm, hS1 := rfl, body := by rw [siteBody_zero hm, hbody]
      pathc := by rw [hreg2]; simpa [sitePath] using hpm
      clsc := ⟨o, by rw [hreg2]; exact ho, Or.inl ⟨rfl, by rw [hcl, modCls]; split <;> rfl⟩⟩
      ctxmod := fun _ => rfl
      ps := by rw [hps2]; simp }

/-- a module that has not been started holds no definition yet -/
theorem unstarted_pending {proj : Project} {rank : List Nat} (wf : WFacts proj rank) {s : St} (hI : PdInv proj s)
    {m : Nat} (hm : m < proj.length) (hu : getPs s m = .unprocessed) {o : Obj} (ho : s.reg.objs[m]? = some o)
    {st : Stmt} {n : Name} (hst : st ∈ bodyOf proj m) (hd : st.defName = some n) : dget o.contents n = none := by
  cases hdc : dget o.contents n with
  | none => rfl
  | some c =>
    exfalso
    obtain ⟨_, _, hpm, _⟩ := hI.mods m hm
    have hpc := path_child hI.reg ho hdc hpm
    obtain ⟨oc, hoc⟩ : ∃ oc, s.reg.objs[c]? = some oc := ⟨s.reg.objs[c]'(path_lt hpc), by simp [path_lt hpc]⟩
    obtain ⟨Sc, hkc, hpc'⟩ := hI.site c oc hoc
    have hstat : StaticSite proj (m, [n]) := ⟨hm, Or.inr ⟨[], n, bodyOf proj m, st, rfl, siteBody_zero hm, hst, hd⟩⟩
    have : Sc = (m, [n]) := site_unique wf hkc.static hstat (by
      rw [hpc] at hpc'; injection hpc' with hpc'; simpa [sitePath] using hpc'.symm)
    subst this
    exact hI.started c (m, [n]) hpc' hstat (by simp) hu

theorem cnt_pos {s : St} {m : Nat} (h : getPs s m = .unprocessed) : 0 < cnt s := by
  have hm := getPs_lt h
  have he : s.ps[m] = .unprocessed := by rw [← getPs_eq_getElem hm]; exact h
  exact List.count_pos_iff.2 (by rw [← he]; exact List.getElem_mem hm)

theorem processModule_good {proj : Project} {rank : List Nat} (wf : WFacts proj rank) (nr : NoReexpFacts proj) :
    ∀ f, PmGood proj (processModule proj f) f
  | 0 => fun s t _ _ _ hu hk => by have := cnt_pos hu; omega
  | f+1 => by
    intro s m hb hI hm hu hk
    have ih := processModule_good wf nr f
    have hok := processModule_ok wf nr f
    have hmd : proj[m]? = some proj[m] := by simp [hm]
    obtain ⟨hI2, hc2, hps2⟩ := processModule_start hI hm hu
    have hcnt := cnt_start (al := s.alls.set m (lastAll proj[m].body)) hu
    have hpend : Pending { s with ps := s.ps.set m .processing, alls := s.alls.set m (lastAll proj[m].body) } m proj[m].body := by
      intro o ho st hst n hd
      exact unstarted_pending wf hI hm hu ho (by rw [bodyOf_eq hmd]; exact hst) hd
    obtain ⟨hb3, hf3⟩ := visitStmts_step wf nr hok ih proj[m].body m _ (m, []) proj[m].body [] hI2 hc2 (by simp) hb
      (by omega) hpend
    have hne : ¬ (getPs s m ≠ .unprocessed) := by simp [hu]
    simp only [processModule, hne, if_false, hmd]
    refine ⟨hb3, ?_⟩
    intro i o ho hpr
    have him : i ≠ m := by
      intro h; subst h; exact hpr hm hu
    have hpr2 : Prot proj { s with ps := s.ps.set m .processing, alls := s.alls.set m (lastAll proj[m].body) } i := by
      intro hi; rw [hps2]; simp only [him, if_false]; exact hpr hi
    obtain ⟨o3, ho3, e3, _⟩ := hf3 i o ho hpr2
    exact ⟨o3, ho3, fun _ => e3 (by intro h; injection h with h; exact him h), fun h => by cases h⟩

theorem process_clean {proj : Project} {rank : List Nat} (wf : WFacts proj rank) (nr : NoReexpFacts proj) :
    ∀ (order : List Nat) (s : St), PdInv proj s → s.bad = false → (process proj order s).bad = false
  | [], _, _, hb => hb
  | m :: rest, s, hI, hb => by
    simp only [process, List.foldl_cons]
    by_cases hu : getPs s m = .unprocessed
    · simp only [hu, if_true]
      have hm : m < proj.length := by rw [← hI.lens.1]; exact getPs_lt hu
      have hk : cnt s ≤ proj.length + 1 := by
        unfold cnt
        have := List.count_le_length (a := PState.unprocessed) (l := s.ps)
        rw [hI.lens.1] at this; omega
      obtain ⟨hb1, _⟩ := processModule_good wf nr (proj.length + 1) s m hb hI hm hu hk
      obtain ⟨hI1, _, _⟩ := (processModule_ok wf nr (proj.length + 1)).2 s m hb1 hI hm
      exact process_clean wf nr rest _ hI1 hb1
    · simp only [hu, if_false]
      exact process_clean wf nr rest s hI hb

/-- **a well-formed project is analysed cleanly**, in whatever order the modules are taken -/
theorem run_clean {proj : Project} {rank : List Nat} (hwf : WF proj rank = true) (order : List Nat) :
    (run proj order).bad = false := by
  have wf := WF.facts hwf
  have nr := WF.noReexp hwf
  obtain ⟨hb0, hI0, _⟩ := initSt_ok wf
  exact process_clean wf nr order _ (hI0.setPending order) hb0

end Imports
