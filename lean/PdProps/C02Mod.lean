/-
C02, module table — helper layers for the theorems restated in PdProps/C02.lean (namespace ModTable).

Model: PdModel/ModTable.lean (`System._addUnprocessedModule`, `_handleDuplicateModule`, `_remove`,
the module half of `addObject`).

Layers: 0 PyDict facts (unique keys) · 1 the skeleton (`sk`: name and parent of every object, which
never change) with qualified names `HasPath` and the ancestor relation `Below`, fuel-free ·
2 the invariant `InvH` (`Inv` = no hole) · 3 `_remove` removes exactly the registered objects below
its argument (`remove_spec`) · 4 the state after the removal (`removal_invH`) · 5 registration of
the new module (`addFresh_spec`) · 6 `addModule_spec`: no step raises, `Inv` is preserved, and what
the winner rule leaves.
-/
import PdModel.ModTable

namespace ModTable
open Registry (Name Path dget dhas dset ddel)

/-! ## Layer 0: PyDict -/
section PyDict
variable {κ ν : Type} [DecidableEq κ]

def Uniq (d : List (κ × ν)) : Prop := (d.map Prod.fst).Nodup

omit [DecidableEq κ] in
theorem uniq_cons {e : κ × ν} {d : List (κ × ν)} :
    Uniq (e :: d) ↔ (∀ v, (e.1, v) ∉ d) ∧ Uniq d := by
  simp only [Uniq, List.map_cons, List.nodup_cons, List.mem_map, not_exists, not_and]
  constructor
  · rintro ⟨h1, h2⟩
    exact ⟨fun v hv => h1 (e.1, v) hv rfl, h2⟩
  · rintro ⟨h1, h2⟩
    refine ⟨?_, h2⟩
    rintro ⟨a, b⟩ hab heq
    simp only at heq
    subst heq
    exact h1 b hab

theorem dset_get_same (d : List (κ × ν)) (k : κ) (v : ν) : dget (dset d k v) k = some v := by
  induction d with
  | nil => simp [dset, dget]
  | cons e d ih => obtain ⟨k', v'⟩ := e; by_cases h : k' = k <;> simp [dset, dget, h, ih]

theorem dset_get_other (d : List (κ × ν)) (k k' : κ) (v : ν) (hk : k' ≠ k) :
    dget (dset d k v) k' = dget d k' := by
  induction d with
  | nil => simp [dset, dget, Ne.symm hk]
  | cons e d ih =>
    obtain ⟨k1, v1⟩ := e
    by_cases h : k1 = k
    · subst h; simp [dset, dget, Ne.symm hk]
    · by_cases h' : k1 = k'
      · subst h'; simp [dset, dget, h]
      · simp [dset, dget, h, h', ih]

theorem mem_of_dget {d : List (κ × ν)} {k : κ} {v : ν} (h : dget d k = some v) : (k, v) ∈ d := by
  induction d with
  | nil => simp [dget] at h
  | cons e d ih =>
    obtain ⟨k1, v1⟩ := e
    by_cases h1 : k1 = k
    · subst h1; simp [dget] at h; subst h; simp
    · simp only [dget, h1, if_false] at h
      exact List.mem_cons_of_mem _ (ih h)

theorem dget_of_mem {d : List (κ × ν)} {k : κ} {v : ν} (hu : Uniq d) (h : (k, v) ∈ d) :
    dget d k = some v := by
  induction d with
  | nil => simp at h
  | cons e d ih =>
    obtain ⟨k1, v1⟩ := e
    rw [uniq_cons] at hu
    rcases List.mem_cons.1 h with h | h
    · injection h with h1 h2; subst h1; subst h2; simp [dget]
    · by_cases h1 : k1 = k
      · subst h1; exact absurd h (hu.1 v)
      · simp only [dget, h1, if_false]; exact ih hu.2 h

theorem dget_none_iff {d : List (κ × ν)} {k : κ} : dget d k = none ↔ ∀ v, (k, v) ∉ d := by
  induction d with
  | nil => simp [dget]
  | cons e d ih =>
    obtain ⟨k1, v1⟩ := e
    by_cases h1 : k1 = k
    · subst h1
      simp only [dget, if_true]
      exact ⟨fun h => (by cases h), fun h => absurd List.mem_cons_self (h v1)⟩
    · simp only [dget, h1, if_false, ih, List.mem_cons, Prod.mk.injEq]
      constructor
      · intro h v hv
        rcases hv with ⟨hk, _⟩ | hv
        · exact h1 hk.symm
        · exact h v hv
      · intro h v hv; exact h v (Or.inr hv)

theorem uniq_val {d : List (κ × ν)} {k : κ} {v v' : ν} (hu : Uniq d) (h : (k, v) ∈ d) (h' : (k, v') ∈ d) :
    v = v' := by
  have := dget_of_mem hu h
  rw [dget_of_mem hu h'] at this
  injection this with this; exact this.symm

theorem mem_dset_iff {d : List (κ × ν)} {k k' : κ} {v v' : ν} (hu : Uniq d) :
    (k', v') ∈ dset d k v ↔ (k' = k ∧ v' = v) ∨ (k' ≠ k ∧ (k', v') ∈ d) := by
  induction d with
  | nil => simp [dset]
  | cons e d ih =>
    obtain ⟨k1, v1⟩ := e
    rw [uniq_cons] at hu
    by_cases h1 : k1 = k
    · subst h1
      simp only [dset, if_true, List.mem_cons, Prod.mk.injEq]
      constructor
      · rintro (⟨a, b⟩ | h)
        · exact Or.inl ⟨a, b⟩
        · refine Or.inr ⟨?_, Or.inr h⟩
          intro hk; subst hk; exact hu.1 v' h
      · rintro (⟨a, b⟩ | ⟨a, ⟨b, _⟩ | c⟩)
        · exact Or.inl ⟨a, b⟩
        · exact absurd b a
        · exact Or.inr c
    · simp only [dset, h1, if_false, List.mem_cons, Prod.mk.injEq, ih hu.2]
      constructor
      · rintro (⟨a, b⟩ | h | h)
        · subst a; exact Or.inr ⟨fun h => h1 h, Or.inl ⟨rfl, b⟩⟩
        · exact Or.inl h
        · exact Or.inr ⟨h.1, Or.inr h.2⟩
      · rintro (h | ⟨a, ⟨b, c⟩ | c⟩)
        · exact Or.inr (Or.inl h)
        · exact Or.inl ⟨b, c⟩
        · exact Or.inr (Or.inr ⟨a, c⟩)

theorem dset_uniq {d : List (κ × ν)} {k : κ} {v : ν} (hu : Uniq d) : Uniq (dset d k v) := by
  induction d with
  | nil => simp [dset, Uniq]
  | cons e d ih =>
    obtain ⟨k1, v1⟩ := e
    have hu' := uniq_cons.1 hu
    by_cases h1 : k1 = k
    · subst h1
      simp only [dset, if_true]
      exact uniq_cons.2 ⟨hu'.1, hu'.2⟩
    · simp only [dset, h1, if_false]
      refine uniq_cons.2 ⟨?_, ih hu'.2⟩
      intro w hw
      rcases (mem_dset_iff hu'.2).1 hw with ⟨a, _⟩ | ⟨_, b⟩
      · exact h1 a
      · exact hu'.1 w b

theorem ddel_sublist {d d' : List (κ × ν)} {k : κ} (h : ddel d k = some d') : d'.Sublist d := by
  induction d generalizing d' with
  | nil => simp [ddel] at h
  | cons e d ih =>
    obtain ⟨k1, v1⟩ := e
    by_cases h1 : k1 = k
    · subst h1
      simp [ddel] at h; subst h
      exact List.sublist_cons_self _ _
    · simp only [ddel, h1, if_false, Option.map_eq_some_iff] at h
      obtain ⟨d2, hd2, rfl⟩ := h
      exact (ih hd2).cons_cons _

theorem ddel_mem {d d' : List (κ × ν)} {k : κ} (hu : Uniq d) (h : ddel d k = some d') :
    ∀ k' v', (k', v') ∈ d' ↔ (k' ≠ k ∧ (k', v') ∈ d) := by
  induction d generalizing d' with
  | nil => simp [ddel] at h
  | cons e d ih =>
    obtain ⟨k1, v1⟩ := e
    have hu' := uniq_cons.1 hu
    by_cases h1 : k1 = k
    · subst h1
      simp [ddel] at h; subst h
      intro k' v'
      simp only [List.mem_cons, Prod.mk.injEq]
      constructor
      · intro hm
        refine ⟨?_, Or.inr hm⟩
        intro hk; subst hk; exact hu'.1 v' hm
      · rintro ⟨a, ⟨b, _⟩ | c⟩
        · exact absurd b a
        · exact c
    · simp only [ddel, h1, if_false, Option.map_eq_some_iff] at h
      obtain ⟨d2, hd2, rfl⟩ := h
      have ihm := ih hu'.2 hd2
      intro k' v'
      simp only [List.mem_cons, Prod.mk.injEq, ihm]
      constructor
      · rintro (⟨a, b⟩ | ⟨a, b⟩)
        · subst a; exact ⟨fun h => h1 h, Or.inl ⟨rfl, b⟩⟩
        · exact ⟨a, Or.inr b⟩
      · rintro ⟨a, ⟨b, c⟩ | c⟩
        · exact Or.inl ⟨b, c⟩
        · exact Or.inr ⟨a, c⟩

theorem ddel_some_of_mem {d : List (κ × ν)} {k : κ} {v : ν} (h : (k, v) ∈ d) : ∃ d', ddel d k = some d' := by
  induction d with
  | nil => simp at h
  | cons e d ih =>
    obtain ⟨k1, v1⟩ := e
    by_cases h1 : k1 = k
    · subst h1; exact ⟨d, by simp [ddel]⟩
    · rcases List.mem_cons.1 h with h | h
      · injection h with a _; exact absurd a.symm h1
      · obtain ⟨d', hd'⟩ := ih h
        exact ⟨(k1, v1) :: d', by simp [ddel, h1, hd']⟩

/-- deleting the key of `v` from a dict whose values are pairwise different removes `v` from the
list of values -/
theorem ddel_map_snd [DecidableEq ν] {d d' : List (κ × ν)} {k : κ} {v : ν} (hu : Uniq d)
    (hv : (d.map Prod.snd).Nodup) (hm : (k, v) ∈ d) (h : ddel d k = some d') :
    d'.map Prod.snd = (d.map Prod.snd).erase v := by
  induction d generalizing d' with
  | nil => simp at hm
  | cons e d ih =>
    obtain ⟨k1, v1⟩ := e
    have hu' := uniq_cons.1 hu
    rw [List.map_cons, List.nodup_cons] at hv
    by_cases h1 : k1 = k
    · subst h1
      simp [ddel] at h; subst h
      have : v1 = v := by
        rcases List.mem_cons.1 hm with hm | hm
        · injection hm with _ b; exact b.symm
        · exact absurd hm (hu'.1 v)
      subst this
      simp
    · simp only [ddel, h1, if_false, Option.map_eq_some_iff] at h
      obtain ⟨d2, hd2, rfl⟩ := h
      have hm' : (k, v) ∈ d := by
        rcases List.mem_cons.1 hm with hm | hm
        · injection hm with a _; exact absurd a.symm h1
        · exact hm
      have hne : v1 ≠ v := by
        intro e; subst e
        exact hv.1 (List.mem_map.2 ⟨(k, v1), hm', rfl⟩)
      simp only [List.map_cons]
      rw [List.erase_cons_tail (by simpa using hne), ih hu'.2 hv.2 hm' hd2]

/-- unique keys and a functional dependency key ← value give unique values -/
theorem nodup_map_of_dep {α β γ : Type} (f : α → β) (g : α → γ) :
    ∀ (d : List α), (d.map f).Nodup → (∀ a ∈ d, ∀ b ∈ d, g a = g b → f a = f b) → (d.map g).Nodup
  | [], _, _ => by simp
  | a :: d, hn, hd => by
    rw [List.map_cons, List.nodup_cons] at hn ⊢
    refine ⟨?_, nodup_map_of_dep f g d hn.2 (fun x hx y hy => hd x (List.mem_cons_of_mem _ hx) y (List.mem_cons_of_mem _ hy))⟩
    intro hm
    obtain ⟨b, hb, hgb⟩ := List.mem_map.1 hm
    have := hd a List.mem_cons_self b (List.mem_cons_of_mem _ hb) hgb.symm
    exact hn.1 (this ▸ List.mem_map_of_mem hb)

end PyDict

/-! ## Layer 1: the skeleton, qualified names and the ancestor relation -/

/-- name and parent of object `i`: fixed at construction -/
def sk (objs : List MObj) (i : Nat) : Option (Name × Option Nat) := (objs[i]?).map fun o => (o.name, o.parent)
/-- `contents` of object `i` -/
def ct (objs : List MObj) (i : Nat) : Option (List (Name × Nat)) := (objs[i]?).map (·.contents)

abbrev Skel := Nat → Option (Name × Option Nat)

/-- `HasPath g i p`: following parents from `i` reaches a root and spells `p` -/
inductive HasPath (g : Skel) : Nat → Path → Prop
  | root {i : Nat} {n : Name} : g i = some (n, none) → HasPath g i [n]
  | child {i : Nat} {n : Name} {q : Nat} {p : Path} :
      g i = some (n, some q) → HasPath g q p → HasPath g i (p ++ [n])

/-- `Below g top i`: `top` is `i` or one of its ancestors -/
inductive Below (g : Skel) (top : Nat) : Nat → Prop
  | refl : Below g top top
  | step {i : Nat} {n : Name} {p : Nat} : g i = some (n, some p) → Below g top p → Below g top i

theorem sk_some {objs : List MObj} {i n p} :
    sk objs i = some (n, p) ↔ ∃ o, objs[i]? = some o ∧ o.name = n ∧ o.parent = p := by
  unfold sk
  cases h : objs[i]? with
  | none => simp
  | some o => simp

theorem ct_some {objs : List MObj} {i d} :
    ct objs i = some d ↔ ∃ o, objs[i]? = some o ∧ o.contents = d := by
  unfold ct
  cases h : objs[i]? with
  | none => simp
  | some o => simp

theorem sk_lt {objs : List MObj} {i x} (h : sk objs i = some x) : i < objs.length := by
  unfold sk at h
  cases ho : objs[i]? with
  | none => rw [ho] at h; cases h
  | some o => exact (List.getElem?_eq_some_iff.1 ho).1

theorem ct_of_lt {objs : List MObj} {i} (h : i < objs.length) : ∃ d, ct objs i = some d := by
  unfold ct; rw [List.getElem?_eq_getElem h]; exact ⟨_, rfl⟩

theorem HasPath.ne_nil {g : Skel} {i p} (h : HasPath g i p) : p ≠ [] := by
  cases h <;> simp

theorem HasPath.func {g : Skel} {i p q} (h : HasPath g i p) (h' : HasPath g i q) : p = q := by
  induction h generalizing q with
  | root hg =>
    cases h' with
    | root hg' => rw [hg] at hg'; cases hg'; rfl
    | child hg' _ => rw [hg] at hg'; cases hg'
  | child hg _ ih =>
    cases h' with
    | root hg' => rw [hg] at hg'; cases hg'
    | child hg' hq' => rw [hg] at hg'; cases hg'; rw [ih hq']

theorem HasPath.defined {g : Skel} {i p} (h : HasPath g i p) : ∃ x, g i = some x := by
  cases h with
  | root hg => exact ⟨_, hg⟩
  | child hg _ => exact ⟨_, hg⟩

theorem HasPath.inv {g : Skel} {i k} (h : HasPath g i k) :
    (∃ n, g i = some (n, none) ∧ k = [n]) ∨
      (∃ n q p, g i = some (n, some q) ∧ HasPath g q p ∧ k = p ++ [n]) := by
  cases h with
  | root hg => exact Or.inl ⟨_, hg, rfl⟩
  | child hg hq => exact Or.inr ⟨_, _, _, hg, hq, rfl⟩

/-- a skeleton that only grows keeps the names -/
theorem HasPath.ext {g g' : Skel} (hext : ∀ i x, g i = some x → g' i = some x) {i p}
    (h : HasPath g i p) : HasPath g' i p := by
  induction h with
  | root hg => exact .root (hext _ _ hg)
  | child hg _ ih => exact .child (hext _ _ hg) ih

theorem Below.ext {g g' : Skel} (hext : ∀ i x, g i = some x → g' i = some x) {top i}
    (h : Below g top i) : Below g' top i := by
  induction h with
  | refl => exact .refl
  | step hg _ ih => exact .step (hext _ _ hg) ih

/-- parents are created before their children -/
def Ord (g : Skel) : Prop := ∀ i n p, g i = some (n, some p) → p < i

theorem Below.le {g : Skel} (ho : Ord g) {top i} (h : Below g top i) : top ≤ i := by
  induction h with
  | refl => exact Nat.le_refl _
  | step hg _ ih => exact Nat.le_of_lt (Nat.lt_of_le_of_lt ih (ho _ _ _ hg))

theorem Below.trans {g : Skel} {a b c} (h1 : Below g a b) (h2 : Below g b c) : Below g a c := by
  induction h2 with
  | refl => exact h1
  | step hg _ ih => exact .step hg ih

theorem Below.linear {g : Skel} {a b x} (ha : Below g a x) (hb : Below g b x) :
    Below g a b ∨ Below g b a := by
  induction ha with
  | refl => exact Or.inr hb
  | @step i n p hg _ ih =>
    cases hb with
    | refl => exact Or.inl (.step hg (by assumption))
    | step hg' hb' =>
      rw [hg] at hg'; cases hg'
      exact ih hb'

/-- below `o` and not `o` itself: below one of the children of `o` -/
theorem Below.kid {g : Skel} {o i} (h : Below g o i) (hne : i ≠ o) :
    ∃ c n, g c = some (n, some o) ∧ Below g c i := by
  induction h with
  | refl => exact absurd rfl hne
  | @step i n p hg hb ih =>
    by_cases hp : p = o
    · subst hp; exact ⟨i, n, hg, .refl⟩
    · obtain ⟨c, n', hc, hcb⟩ := ih hp
      exact ⟨c, n', hc, .step hg hcb⟩

theorem Below.of_root {g : Skel} {top i n} (h : Below g top i) (hg : g i = some (n, none)) : i = top := by
  cases h with
  | refl => rfl
  | step hg' _ => rw [hg] at hg'; cases hg'

theorem Below.parent {g : Skel} {top i n p} (h : Below g top i) (hne : i ≠ top) (hg : g i = some (n, some p)) :
    Below g top p := by
  cases h with
  | refl => exact absurd rfl hne
  | step hg' hb => rw [hg] at hg'; cases hg'; exact hb

/-! ### `path` (the fuelled function of the model) computes `HasPath` -/

theorem pathAux_root {objs : List MObj} {f i n} (h : sk objs i = some (n, none)) :
    pathAux objs (f+1) i = some [n] := by
  obtain ⟨o, ho, rfl, hp⟩ := sk_some.1 h
  simp [pathAux, ho, hp]

theorem pathAux_child {objs : List MObj} {f i n q} (h : sk objs i = some (n, some q)) :
    pathAux objs (f+1) i = (pathAux objs f q).map (· ++ [n]) := by
  obtain ⟨o, ho, rfl, hp⟩ := sk_some.1 h
  simp [pathAux, ho, hp]

theorem pathAux_mono {objs : List MObj} : ∀ {f i p}, pathAux objs f i = some p → pathAux objs (f+1) i = some p
  | 0, _, _, h => by simp [pathAux] at h
  | f+1, i, p, h => by
    cases hs : sk objs i with
    | none =>
      unfold sk at hs
      cases ho : objs[i]? with
      | none => simp [pathAux, ho] at h
      | some o => rw [ho] at hs; cases hs
    | some x =>
      obtain ⟨n, par⟩ := x
      cases par with
      | none => rw [pathAux_root hs] at h ⊢; exact h
      | some q =>
        rw [pathAux_child hs] at h ⊢
        rw [Option.map_eq_some_iff] at h
        obtain ⟨p', hp', rfl⟩ := h
        rw [pathAux_mono hp']; rfl

theorem pathAux_mono_le {objs : List MObj} {f g i p} (h : pathAux objs f i = some p) (hfg : f ≤ g) :
    pathAux objs g i = some p := by
  induction hfg with
  | refl => exact h
  | step _ ih => exact pathAux_mono ih

theorem pathAux_of_hasPath {objs : List MObj} (ho : Ord (sk objs)) {i p} (h : HasPath (sk objs) i p) :
    pathAux objs (i+1) i = some p := by
  induction h with
  | root hg => exact pathAux_root hg
  | @child i n q p hg _ ih =>
    rw [pathAux_child hg, pathAux_mono_le ih (ho _ _ _ hg)]; rfl

theorem path_of_hasPath {s : State} (ho : Ord (sk s.objs)) {i p} (h : HasPath (sk s.objs) i p) :
    path s i = some p := by
  obtain ⟨x, hx⟩ := h.defined
  have := sk_lt hx
  exact pathAux_mono_le (pathAux_of_hasPath ho h) (by omega)

theorem pathAux_sound {objs : List MObj} : ∀ {f i p}, pathAux objs f i = some p → HasPath (sk objs) i p
  | 0, _, _, h => by simp [pathAux] at h
  | f+1, i, p, h => by
    cases hs : sk objs i with
    | none =>
      unfold sk at hs
      cases ho : objs[i]? with
      | none => simp [pathAux, ho] at h
      | some o => rw [ho] at hs; cases hs
    | some x =>
      obtain ⟨n, par⟩ := x
      cases par with
      | none => rw [pathAux_root hs] at h; cases h; exact .root hs
      | some q =>
        rw [pathAux_child hs, Option.map_eq_some_iff] at h
        obtain ⟨p', hp', rfl⟩ := h
        exact .child hs (pathAux_sound hp')

theorem path_sound {s : State} {i p} (h : path s i = some p) : HasPath (sk s.objs) i p := pathAux_sound h

/-! ## Layer 2: the invariant -/

/-- `i` is registered: it is the value of some key of `allobjects` -/
def Reg (s : State) (i : Nat) : Prop := ∃ k, (k, i) ∈ s.all

/-- The invariant of the module table. `hole = some (q, n)` exempts the entry `n` of `contents` of
`q` from the last clause: that is the state between `_remove(first)` and the registration of the
module that takes its place. `Inv` is `InvH none`. -/
structure InvH (hole : Option (Nat × Name)) (s : State) : Prop where
  /-- parents are created before their children -/
  ord : Ord (sk s.objs)
  /-- `contents` is a dict -/
  cuniq : ∀ i d, ct s.objs i = some d → Uniq d
  /-- `allobjects` is a dict -/
  keys : Uniq s.all
  /-- every entry sits under the name its parent chain spells -/
  names : ∀ k i, (k, i) ∈ s.all → HasPath (sk s.objs) i k
  /-- the parent of a registered module is registered and lists it under its name -/
  parentReg : ∀ k i n p, (k, i) ∈ s.all → sk s.objs i = some (n, some p) →
    Reg s p ∧ ∃ d, ct s.objs p = some d ∧ dget d n = some i
  /-- a registered parentless module is a root -/
  rootIn : ∀ k i n, (k, i) ∈ s.all → sk s.objs i = some (n, none) → i ∈ s.roots
  /-- every root is registered and parentless -/
  roots : ∀ r, r ∈ s.roots → Reg s r ∧ ∃ n, sk s.objs r = some (n, none)
  rootsNodup : s.roots.Nodup
  /-- the pending modules are the registered modules, in registry order -/
  pending : s.unproc = s.all.map Prod.snd
  /-- every `contents` entry of a registered module is registered, has that parent and that name -/
  contents : ∀ q d n c, Reg s q → ct s.objs q = some d → (n, c) ∈ d → hole ≠ some (q, n) →
    Reg s c ∧ sk s.objs c = some (n, some q)

abbrev Inv (s : State) : Prop := InvH none s

theorem InvH.weaken {s : State} {hole} (h : Inv s) : InvH hole s :=
  { h with contents := fun q d n c hq hd hm _ => h.contents q d n c hq hd hm (by simp) }

theorem init_inv : Inv init := by
  refine ⟨?_, ?_, ?_, ?_, ?_, ?_, ?_, ?_, ?_, ?_⟩ <;> simp [init, Ord, sk, ct, Uniq, Reg]

theorem InvH.lt {hole} {s : State} (h : InvH hole s) {i} (hr : Reg s i) : i < s.objs.length := by
  obtain ⟨k, hk⟩ := hr
  obtain ⟨x, hx⟩ := (h.names k i hk).defined
  exact sk_lt hx

/-- an object is registered under one key only -/
theorem InvH.key_of {hole} {s : State} (h : InvH hole s) {k k' i} (hk : (k, i) ∈ s.all) (hk' : (k', i) ∈ s.all) :
    k = k' := (h.names k i hk).func (h.names k' i hk')

theorem InvH.ids {hole} {s : State} (h : InvH hole s) : (s.all.map Prod.snd).Nodup := by
  refine nodup_map_of_dep Prod.fst Prod.snd s.all h.keys ?_
  rintro ⟨k, i⟩ ha ⟨k', i'⟩ hb heq
  simp only at heq; subst heq
  exact h.key_of ha hb

/-- the registry is closed under `parent` -/
theorem InvH.reg_up {hole} {s : State} (h : InvH hole s) {top i} (hb : Below (sk s.objs) top i) (hr : Reg s i) :
    Reg s top := by
  induction hb with
  | refl => exact hr
  | step hg _ ih =>
    obtain ⟨k, hk⟩ := hr
    exact ih (h.parentReg k _ _ _ hk hg).1

/-! ## Layer 3: `_remove` removes exactly the registered objects below its argument -/

/-- what a state inside `_remove` has in common with the state `s0` the removal started from:
the registered objects for which `R` holds are gone, nothing else has changed -/
structure Mid (s0 s : State) (R : Nat → Prop) : Prop where
  objs : s.objs = s0.objs
  roots : s.roots = s0.roots
  sub : s.all.Sublist s0.all
  mem : ∀ k i, (k, i) ∈ s.all ↔ ((k, i) ∈ s0.all ∧ ¬R i)
  pend : s.unproc = s.all.map Prod.snd

theorem Mid.congr {s0 s : State} {R R' : Nat → Prop} (h : Mid s0 s R) (hr : ∀ i, Reg s0 i → (R i ↔ R' i)) :
    Mid s0 s R' := by
  refine ⟨h.objs, h.roots, h.sub, fun k i => ?_, h.pend⟩
  rw [h.mem]
  constructor
  · rintro ⟨a, b⟩; exact ⟨a, fun c => b ((hr i ⟨k, a⟩).2 c)⟩
  · rintro ⟨a, b⟩; exact ⟨a, fun c => b ((hr i ⟨k, a⟩).1 c)⟩

theorem Mid.start (s0 : State) (hp : s0.unproc = s0.all.map Prod.snd) : Mid s0 s0 (fun _ => False) :=
  ⟨rfl, rfl, List.Sublist.refl _, fun k i => by simp, hp⟩

theorem foldE_cons_ok {g : State → Nat → Except Err State} {s s1 : State} {c : Nat} {cs : List Nat}
    (h : g s c = .ok s1) : foldE g s (c :: cs) = foldE g s1 cs := by
  simp [foldE, h]

/-- the children listed by `contents` of a registered module are pairwise unrelated -/
theorem kids_pairwise {g : Skel} (ho : Ord g) {o : Nat} :
    ∀ (d : List (Name × Nat)), Uniq d → (∀ n c, (n, c) ∈ d → g c = some (n, some o)) →
      (d.map Prod.snd).Pairwise (fun a b => ¬Below g a b ∧ ¬Below g b a)
  | [], _, _ => by simp
  | (n, c) :: d, hu, hg => by
    rw [uniq_cons] at hu
    rw [List.map_cons, List.pairwise_cons]
    refine ⟨?_, kids_pairwise ho d hu.2 (fun n' c' h => hg n' c' (List.mem_cons_of_mem _ h))⟩
    intro c' hc'
    obtain ⟨⟨n', c''⟩, hm, rfl⟩ := List.mem_map.1 hc'
    have hgc := hg n c List.mem_cons_self
    have hgc' := hg n' c'' (List.mem_cons_of_mem _ hm)
    have hne : c ≠ c'' := by
      intro e; subst e
      rw [hgc] at hgc'; cases hgc'
      exact hu.1 _ hm
    constructor
    · intro hb
      have := (hb.parent (Ne.symm hne) hgc').le ho
      have := ho _ _ _ hgc
      omega
    · intro hb
      have := (hb.parent hne hgc).le ho
      have := ho _ _ _ hgc'
      omega

theorem fold_ok {s0 : State} (f : Nat)
    (IH : ∀ (s : State) (o : Nat) (R : Nat → Prop), Mid s0 s R → Reg s0 o →
      (∀ i, R i → ¬Below (sk s0.objs) o i) → s0.objs.length < f + o →
      ∃ s', removeAux f s o = .ok s' ∧ Mid s0 s' (fun i => R i ∨ Below (sk s0.objs) o i)) :
    ∀ (kids : List Nat) (s : State) (R : Nat → Prop), Mid s0 s R → (∀ c ∈ kids, Reg s0 c) →
      kids.Pairwise (fun a b => ¬Below (sk s0.objs) a b ∧ ¬Below (sk s0.objs) b a) →
      (∀ c ∈ kids, ∀ i, R i → ¬Below (sk s0.objs) c i) → (∀ c ∈ kids, s0.objs.length < f + c) →
      ∃ s', foldE (removeAux f) s kids = .ok s' ∧
        Mid s0 s' (fun i => R i ∨ ∃ c ∈ kids, Below (sk s0.objs) c i)
  | [], s, R, hm, _, _, _, _ => ⟨s, rfl, hm.congr (fun i _ => by simp)⟩
  | c :: cs, s, R, hm, hreg, hpw, hdis, hfuel => by
    rw [List.pairwise_cons] at hpw
    obtain ⟨s1, h1, hm1⟩ := IH s c R hm (hreg c List.mem_cons_self) (hdis c List.mem_cons_self)
      (hfuel c List.mem_cons_self)
    obtain ⟨s2, h2, hm2⟩ := fold_ok f IH cs s1 _ hm1 (fun c' hc' => hreg c' (List.mem_cons_of_mem _ hc')) hpw.2
      (fun c' hc' i hr hb => by
        rcases hr with hr | hr
        · exact hdis c' (List.mem_cons_of_mem _ hc') i hr hb
        · rcases Below.linear hr hb with h | h
          · exact (hpw.1 c' hc').1 h
          · exact (hpw.1 c' hc').2 h)
      (fun c' hc' => hfuel c' (List.mem_cons_of_mem _ hc'))
    refine ⟨s2, by rw [foldE_cons_ok h1]; exact h2, hm2.congr (fun i _ => ?_)⟩
    simp only [List.mem_cons, exists_eq_or_imp]
    constructor
    · rintro ((a | a) | a)
      · exact Or.inl a
      · exact Or.inr (Or.inl a)
      · exact Or.inr (Or.inr a)
    · rintro (a | a | a)
      · exact Or.inl (Or.inl a)
      · exact Or.inl (Or.inr a)
      · exact Or.inr a

theorem removeAux_ok {s0 : State} (h0 : Inv s0) :
    ∀ (f : Nat) (s : State) (o : Nat) (R : Nat → Prop), Mid s0 s R → Reg s0 o →
      (∀ i, R i → ¬Below (sk s0.objs) o i) → s0.objs.length < f + o →
      ∃ s', removeAux f s o = .ok s' ∧ Mid s0 s' (fun i => R i ∨ Below (sk s0.objs) o i)
  | 0, s, o, R, _, hreg, _, hfuel => by
    have := h0.lt hreg
    omega
  | f+1, s, o, R, hm, hreg, hdis, hfuel => by
    obtain ⟨k, hk⟩ := hreg
    have hlt := h0.lt ⟨k, hk⟩
    have hob : s.objs[o]? = some s0.objs[o] := by rw [hm.objs]; exact List.getElem?_eq_getElem hlt
    have hpath : path s o = some k := by
      apply path_of_hasPath
      · rw [hm.objs]; exact h0.ord
      · rw [hm.objs]; exact h0.names k o hk
    have hin : (k, o) ∈ s.all := (hm.mem k o).2 ⟨hk, fun hr => hdis o hr .refl⟩
    obtain ⟨a, ha⟩ := ddel_some_of_mem hin
    have hus : Uniq s.all := hm.sub.map Prod.fst |>.nodup h0.keys
    have hids : (s.all.map Prod.snd).Nodup := hm.sub.map Prod.snd |>.nodup h0.ids
    have hcont : s.unproc.contains o = true := by
      rw [hm.pend, List.contains_iff_mem]
      exact List.mem_map.2 ⟨(k, o), hin, rfl⟩
    -- the state after `del allobjects[..]` and `unprocessed_modules.remove(o)`
    have hm1 : Mid s0 { s with all := a, unproc := s.unproc.erase o } (fun i => R i ∨ i = o) := by
      refine ⟨hm.objs, hm.roots, (ddel_sublist ha).trans hm.sub, fun k' i => ?_, ?_⟩
      · show (k', i) ∈ a ↔ _
        rw [ddel_mem hus ha, hm.mem]
        constructor
        · rintro ⟨hne, hin', hr⟩
          refine ⟨hin', ?_⟩
          rintro (hr' | rfl)
          · exact hr hr'
          · exact hne (h0.key_of hin' hk)
        · rintro ⟨hin', hr⟩
          refine ⟨?_, hin', fun hr' => hr (Or.inl hr')⟩
          rintro rfl
          exact hr (Or.inr (uniq_val h0.keys hin' hk))
      · show s.unproc.erase o = a.map Prod.snd
        rw [hm.pend, ddel_map_snd hus hids hin ha]
    -- the children
    have hct : ct s0.objs o = some s0.objs[o].contents := by
      unfold ct; rw [List.getElem?_eq_getElem hlt]; rfl
    have hkid : ∀ n c, (n, c) ∈ s0.objs[o].contents → Reg s0 c ∧ sk s0.objs c = some (n, some o) :=
      fun n c hc => h0.contents o _ n c ⟨k, hk⟩ hct hc (by simp)
    obtain ⟨s2, h2, hm2⟩ := fold_ok f (removeAux_ok h0 f) (s0.objs[o].contents.map Prod.snd) _ _ hm1
      (fun c hc => by
        obtain ⟨⟨n, c'⟩, hmem, rfl⟩ := List.mem_map.1 hc
        exact (hkid n c' hmem).1)
      (kids_pairwise h0.ord _ (h0.cuniq o _ hct) (fun n c hc => (hkid n c hc).2))
      (fun c hc i hr hb => by
        obtain ⟨⟨n, c'⟩, hmem, rfl⟩ := List.mem_map.1 hc
        have hgc := (hkid n c' hmem).2
        rcases hr with hr | rfl
        · exact hdis i hr ((Below.step hgc .refl).trans hb)
        · have := hb.le h0.ord
          have := h0.ord _ _ _ hgc
          omega)
      (fun c hc => by
        obtain ⟨⟨n, c'⟩, hmem, rfl⟩ := List.mem_map.1 hc
        have := h0.ord _ _ _ (hkid n c' hmem).2
        show s0.objs.length < f + c'
        omega)
    refine ⟨s2, ?_, hm2.congr (fun i hi => ?_)⟩
    · simp only [removeAux, hob, hpath, ha, hcont, if_true]
      exact h2
    · constructor
      · rintro ((hr | rfl) | ⟨c, hc, hb⟩)
        · exact Or.inl hr
        · exact Or.inr .refl
        · obtain ⟨⟨n, c'⟩, hmem, rfl⟩ := List.mem_map.1 hc
          exact Or.inr ((Below.step (hkid n c' hmem).2 .refl).trans hb)
      · rintro (hr | hb)
        · exact Or.inl (Or.inl hr)
        · by_cases hio : i = o
          · exact Or.inl (Or.inr hio)
          · obtain ⟨c, n, hgc, hcb⟩ := hb.kid hio
            obtain ⟨kc, hkc⟩ := h0.reg_up hcb hi
            obtain ⟨_, d, hd, hdg⟩ := h0.parentReg kc c n o hkc hgc
            rw [hct] at hd; cases hd
            exact Or.inr ⟨c, List.mem_map.2 ⟨(n, c), mem_of_dget hdg, rfl⟩, hcb⟩

/-- `_remove(o)` of a registered module does not raise and removes exactly the registered objects
below `o` (in the parent relation) from `allobjects` and `unprocessed_modules`; nothing else changes -/
theorem remove_spec {s : State} (h : Inv s) {o : Nat} (hr : Reg s o) :
    ∃ s', remove s o = .ok s' ∧ Mid s s' (Below (sk s.objs) o) := by
  obtain ⟨s', h1, h2⟩ := removeAux_ok h (s.objs.length + 1) s o _ (Mid.start s h.pending) hr
    (fun _ hf => hf.elim) (by omega)
  exact ⟨s', h1, h2.congr (fun i _ => by simp)⟩

/-! ## Layer 4: the state between `_remove(first)` and the registration of the new module -/

theorem removal_invH {s sB sC : State} (h : Inv s) {first : Nat} {fn : Path} {name : Name} {parent : Option Nat}
    (hfirst : (fn, first) ∈ s.all) (hgf : sk s.objs first = some (name, parent))
    (hm : Mid s sB (Below (sk s.objs) first))
    (hC1 : sC.objs = sB.objs) (hC2 : sC.all = sB.all) (hC3 : sC.unproc = sB.unproc)
    (hr : (parent = none ∧ sC.roots = sB.roots.erase first) ∨ (∃ p, parent = some p ∧ sC.roots = sB.roots)) :
    InvH (parent.map (·, name)) sC ∧ dget sC.all fn = none ∧ (∀ p, parent = some p → Reg sC p) := by
  have hobjs : sC.objs = s.objs := hC1.trans hm.objs
  have hmem : ∀ k i, (k, i) ∈ sC.all ↔ ((k, i) ∈ s.all ∧ ¬Below (sk s.objs) first i) := by
    intro k i; rw [hC2]; exact hm.mem k i
  refine ⟨⟨?_, ?_, ?_, ?_, ?_, ?_, ?_, ?_, ?_, ?_⟩, ?_, ?_⟩
  · rw [hobjs]; exact h.ord
  · intro i d hd; rw [hobjs] at hd; exact h.cuniq i d hd
  · show Uniq sC.all
    rw [hC2]; exact (hm.sub.map Prod.fst).nodup h.keys
  · intro k i hk; rw [hobjs]; exact h.names k i ((hmem k i).1 hk).1
  · intro k i n p hk hg
    rw [hobjs] at hg ⊢
    obtain ⟨hk0, hnb⟩ := (hmem k i).1 hk
    obtain ⟨⟨kp, hkp⟩, d, hd, hdg⟩ := h.parentReg k i n p hk0 hg
    exact ⟨⟨kp, (hmem kp p).2 ⟨hkp, fun hb => hnb (.step hg hb)⟩⟩, d, hd, hdg⟩
  · intro k i n hk hg
    rw [hobjs] at hg
    obtain ⟨hk0, hnb⟩ := (hmem k i).1 hk
    have hin := h.rootIn k i n hk0 hg
    rcases hr with ⟨_, hr⟩ | ⟨_, _, hr⟩
    · rw [hr, hm.roots]
      exact (List.mem_erase_of_ne (fun e => hnb (by rw [e]; exact .refl))).2 hin
    · rw [hr, hm.roots]; exact hin
  · intro r hrm
    rw [hobjs]
    rcases hr with ⟨hp, hr⟩ | ⟨p, hp, hr⟩
    · rw [hr, hm.roots] at hrm
      obtain ⟨⟨kr, hkr⟩, n, hn⟩ := h.roots r (List.mem_of_mem_erase hrm)
      refine ⟨⟨kr, (hmem kr r).2 ⟨hkr, fun hb => ?_⟩⟩, n, hn⟩
      have := hb.of_root hn
      subst this
      exact ((h.rootsNodup.mem_erase_iff).1 hrm).1 rfl
    · rw [hr, hm.roots] at hrm
      obtain ⟨⟨kr, hkr⟩, n, hn⟩ := h.roots r hrm
      refine ⟨⟨kr, (hmem kr r).2 ⟨hkr, fun hb => ?_⟩⟩, n, hn⟩
      have := hb.of_root hn
      subst this
      rw [hgf, hp] at hn; cases hn
  · rcases hr with ⟨_, hr⟩ | ⟨_, _, hr⟩
    · rw [hr, hm.roots]; exact h.rootsNodup.erase _
    · rw [hr, hm.roots]; exact h.rootsNodup
  · rw [hC3, hC2]; exact hm.pend
  · intro q d n c hq hd hmemc hhole
    rw [hobjs] at hd ⊢
    obtain ⟨kq, hkq⟩ := hq
    obtain ⟨hkq0, hnbq⟩ := (hmem kq q).1 hkq
    obtain ⟨⟨kc, hkc⟩, hgc⟩ := h.contents q d n c ⟨kq, hkq0⟩ hd hmemc (by simp)
    refine ⟨⟨kc, (hmem kc c).2 ⟨hkc, fun hb => ?_⟩⟩, hgc⟩
    by_cases hcf : c = first
    · subst hcf
      rw [hgf] at hgc; cases hgc
      exact hhole rfl
    · exact hnbq (hb.parent hcf hgc)
  · rw [dget_none_iff]
    intro v hv
    obtain ⟨hv0, hnb⟩ := (hmem fn v).1 hv
    have := uniq_val h.keys hv0 hfirst
    subst this
    exact hnb .refl
  · intro p hp
    subst hp
    obtain ⟨⟨kp, hkp⟩, _⟩ := h.parentReg fn first name p hfirst hgf
    refine ⟨kp, (hmem kp p).2 ⟨hkp, fun hb => ?_⟩⟩
    have := hb.le h.ord
    have := h.ord _ _ _ hgf
    omega

/-! ## Layer 5: registration of the new module (`unprocessed_modules.append`, `addObject`) -/

theorem sk_modify (objs : List MObj) (p : Nat) (f : List (Name × Nat) → List (Name × Nat)) :
    sk (objs.modify p (fun po => { po with contents := f po.contents })) = sk objs := by
  funext i
  unfold sk
  rw [List.getElem?_modify]
  by_cases h : p = i
  · subst h; cases objs[p]? <;> simp
  · simp [h]

theorem ct_modify_same (objs : List MObj) (p : Nat) (f : List (Name × Nat) → List (Name × Nat)) :
    ct (objs.modify p (fun po => { po with contents := f po.contents })) p = (ct objs p).map f := by
  unfold ct
  rw [List.getElem?_modify]
  cases objs[p]? <;> simp

theorem ct_modify_other (objs : List MObj) {p q : Nat} (f : List (Name × Nat) → List (Name × Nat)) (h : q ≠ p) :
    ct (objs.modify p (fun po => { po with contents := f po.contents })) q = ct objs q := by
  unfold ct
  rw [List.getElem?_modify]
  simp [Ne.symm h]

theorem Reg.mono {s s' : State} {i} (h : Reg s i) (hsub : ∀ e, e ∈ s.all → e ∈ s'.all) : Reg s' i := by
  obtain ⟨k, hk⟩ := h; exact ⟨k, hsub _ hk⟩

/-- two modules with the same parent and the same name have the same qualified name -/
theorem same_path {g : Skel} {i j n par ki kj} (hi : g i = some (n, par)) (hj : g j = some (n, par))
    (hpi : HasPath g i ki) (hpj : HasPath g j kj) : ki = kj := by
  cases hpi with
  | root hg =>
    rw [hi] at hg; cases hg
    cases hpj with
    | root hg' => rw [hj] at hg'; cases hg'; rfl
    | child hg' _ => rw [hj] at hg'; cases hg'
  | child hg hq =>
    rw [hi] at hg; cases hg
    cases hpj with
    | root hg' => rw [hj] at hg'; cases hg'
    | child hg' hq' => rw [hj] at hg'; cases hg'; rw [hq.func hq']

theorem addFresh_spec {s1 : State} {m : Nat} {name : Name} {parent : Option Nat} {fn : Path}
    (h : InvH (parent.map (·, name)) s1) (hg : sk s1.objs m = some (name, parent))
    (hct : ct s1.objs m = some []) (hnr : ¬Reg s1 m) (hpr : ∀ p, parent = some p → Reg s1 p)
    (hpath : HasPath (sk s1.objs) m fn) (hfree : dget s1.all fn = none) :
    ∃ s', addObject { s1 with unproc := s1.unproc ++ [m] } m = .ok s' ∧ Inv s' ∧
      s'.all = s1.all ++ [(fn, m)] ∧ s'.unproc = s1.unproc ++ [m] ∧ sk s'.objs = sk s1.objs ∧
      (∀ r, r ∈ s'.roots ↔ (r ∈ s1.roots ∨ (parent = none ∧ r = m))) := by
  obtain ⟨mo, hmo, hname, hpar⟩ := sk_some.1 hg
  have hfresh : ∀ v, (fn, v) ∉ s1.all := dget_none_iff.1 hfree
  have hkeys' : Uniq (s1.all ++ [(fn, m)]) := by
    unfold Uniq
    rw [List.map_append, List.nodup_append]
    refine ⟨h.keys, by simp, ?_⟩
    intro a ha b hb
    simp only [List.map_cons, List.map_nil, List.mem_singleton] at hb
    subst hb
    obtain ⟨⟨k, v⟩, hkv, rfl⟩ := List.mem_map.1 ha
    intro e; simp only at e; subst e
    exact hfresh v hkv
  have hmemall : ∀ k i, (k, i) ∈ s1.all ++ [(fn, m)] ↔ ((k, i) ∈ s1.all ∨ (k = fn ∧ i = m)) := by
    intro k i; simp
  cases parent with
  | none =>
    have hp' : path { s1 with unproc := s1.unproc ++ [m], roots := s1.roots ++ [m] } m = some fn :=
      path_of_hasPath (s := { s1 with unproc := s1.unproc ++ [m], roots := s1.roots ++ [m] }) h.ord hpath
    refine ⟨{ s1 with unproc := s1.unproc ++ [m], roots := s1.roots ++ [m], all := s1.all ++ [(fn, m)] }, ?_, ?_,
      rfl, rfl, rfl, ?_⟩
    · simp only [addObject, hmo, hpar, hp', hfree]
    · refine ⟨h.ord, h.cuniq, hkeys', ?_, ?_, ?_, ?_, ?_, ?_, ?_⟩
      · intro k i hk
        rcases (hmemall k i).1 hk with hk | ⟨rfl, rfl⟩
        · exact h.names k i hk
        · exact hpath
      · intro k i n p hk hgi
        rcases (hmemall k i).1 hk with hk | ⟨rfl, rfl⟩
        · obtain ⟨hrp, d, hd, hdg⟩ := h.parentReg k i n p hk hgi
          exact ⟨hrp.mono (fun e he => List.mem_append_left _ he), d, hd, hdg⟩
        · rw [hg] at hgi; cases hgi
      · intro k i n hk hgi
        show i ∈ s1.roots ++ [m]
        rcases (hmemall k i).1 hk with hk | ⟨rfl, rfl⟩
        · exact List.mem_append_left _ (h.rootIn k i n hk hgi)
        · simp
      · intro r hr
        rcases List.mem_append.1 hr with hr | hr
        · obtain ⟨hrr, n, hn⟩ := h.roots r hr
          exact ⟨hrr.mono (fun e he => List.mem_append_left _ he), n, hn⟩
        · simp only [List.mem_singleton] at hr; subst hr
          exact ⟨⟨fn, by simp⟩, name, hg⟩
      · show (s1.roots ++ [m]).Nodup
        rw [List.nodup_append]
        refine ⟨h.rootsNodup, by simp, ?_⟩
        intro a ha b hb
        simp only [List.mem_singleton] at hb; subst hb
        intro e; subst e
        exact hnr (h.roots a ha).1
      · show s1.unproc ++ [m] = (s1.all ++ [(fn, m)]).map Prod.snd
        rw [List.map_append, h.pending]; rfl
      · intro q d n c hq hd hmemc _
        obtain ⟨kq, hkq⟩ := hq
        rcases (hmemall kq q).1 hkq with hkq | ⟨rfl, rfl⟩
        · obtain ⟨hrc, hgc⟩ := h.contents q d n c ⟨kq, hkq⟩ hd hmemc (by simp)
          exact ⟨hrc.mono (fun e he => List.mem_append_left _ he), hgc⟩
        · have hd' : ct s1.objs q = some d := hd
          rw [hct] at hd'; cases hd'; simp at hmemc
    · intro r
      show r ∈ s1.roots ++ [m] ↔ _
      simp
  | some p =>
    have hrp := hpr p rfl
    have hplt := h.lt hrp
    obtain ⟨dp, hdp⟩ := ct_of_lt hplt
    have hpm : m ≠ p := fun e => hnr (e ▸ hrp)
    let objs' := s1.objs.modify p (fun po => { po with contents := dset po.contents mo.name m })
    have hsk' : sk objs' = sk s1.objs := sk_modify s1.objs p (fun d => dset d mo.name m)
    have hctp : ct objs' p = some (dset dp name m) := by
      show ct (s1.objs.modify p _) p = _
      rw [ct_modify_same s1.objs p (fun d => dset d mo.name m), hdp, hname]; rfl
    have hcto : ∀ q, q ≠ p → ct objs' q = ct s1.objs q := fun q hq =>
      ct_modify_other s1.objs (fun d => dset d mo.name m) hq
    have hp' : path { s1 with unproc := s1.unproc ++ [m], objs := objs' } m = some fn := by
      apply path_of_hasPath
      · show Ord (sk objs'); rw [hsk']; exact h.ord
      · show HasPath (sk objs') m fn; rw [hsk']; exact hpath
    refine ⟨{ s1 with unproc := s1.unproc ++ [m], objs := objs', all := s1.all ++ [(fn, m)] }, ?_, ?_,
      rfl, rfl, hsk', ?_⟩
    · simp only [addObject, hmo, hpar]
      show (match path { s1 with unproc := s1.unproc ++ [m], objs := objs' } m with
        | none => Except.error Err.recursionError
        | some fn => _) = _
      rw [hp']
      show (match dget s1.all fn with | none => _ | some _ => _) = _
      rw [hfree]
    · have hupd : Uniq dp := h.cuniq p dp hdp
      refine ⟨?_, ?_, hkeys', ?_, ?_, ?_, ?_, h.rootsNodup, ?_, ?_⟩
      · show Ord (sk objs'); rw [hsk']; exact h.ord
      · intro i d hd
        have hd' : ct objs' i = some d := hd
        by_cases hip : i = p
        · subst hip; rw [hctp] at hd'; cases hd'; exact dset_uniq hupd
        · rw [hcto i hip] at hd'; exact h.cuniq i d hd'
      · intro k i hk
        show HasPath (sk objs') i k
        rw [hsk']
        rcases (hmemall k i).1 hk with hk | ⟨rfl, rfl⟩
        · exact h.names k i hk
        · exact hpath
      · intro k i n q hk hgi
        have hgi' : sk s1.objs i = some (n, some q) := by rw [← hsk']; exact hgi
        show Reg _ q ∧ ∃ d, ct objs' q = some d ∧ dget d n = some i
        rcases (hmemall k i).1 hk with hk1 | ⟨rfl, rfl⟩
        · obtain ⟨hrq, d, hd, hdg⟩ := h.parentReg k i n q hk1 hgi'
          refine ⟨hrq.mono (fun e he => List.mem_append_left _ he), ?_⟩
          by_cases hqp : q = p
          · subst hqp
            rw [hdp] at hd; cases hd
            refine ⟨_, hctp, ?_⟩
            by_cases hn : n = name
            · subst hn
              exact absurd hk1 (by rw [same_path hgi' hg (h.names k i hk1) hpath]; exact hfresh i)
            · rw [dset_get_other _ _ _ _ hn]; exact hdg
          · exact ⟨d, by rw [hcto q hqp]; exact hd, hdg⟩
        · rw [hg] at hgi'; cases hgi'
          exact ⟨hrp.mono (fun e he => List.mem_append_left _ he), _, hctp, dset_get_same _ _ _⟩
      · intro k i n hk hgi
        have hgi' : sk s1.objs i = some (n, none) := by rw [← hsk']; exact hgi
        show i ∈ s1.roots
        rcases (hmemall k i).1 hk with hk | ⟨rfl, rfl⟩
        · exact h.rootIn k i n hk hgi'
        · rw [hg] at hgi'; cases hgi'
      · intro r hr
        obtain ⟨hrr, n, hn⟩ := h.roots r hr
        exact ⟨hrr.mono (fun e he => List.mem_append_left _ he), n, by show sk objs' r = _; rw [hsk']; exact hn⟩
      · show s1.unproc ++ [m] = (s1.all ++ [(fn, m)]).map Prod.snd
        rw [List.map_append, h.pending]; rfl
      · intro q d n c hq hd hmemc _
        have hd' : ct objs' q = some d := hd
        show Reg _ c ∧ sk objs' c = some (n, some q)
        rw [hsk']
        obtain ⟨kq, hkq⟩ := hq
        have hold : ∀ d0, Reg s1 q → ct s1.objs q = some d0 → (n, c) ∈ d0 → (q = p → n ≠ name) →
            Reg { s1 with unproc := s1.unproc ++ [m], objs := objs', all := s1.all ++ [(fn, m)] } c ∧
              sk s1.objs c = some (n, some q) := by
          intro d0 hrq hd0 hm0 hne
          obtain ⟨hrc, hgc⟩ := h.contents q d0 n c hrq hd0 hm0 (by
            intro e
            simp only [Option.map_some, Option.some.injEq, Prod.mk.injEq] at e
            exact hne e.1.symm e.2.symm)
          exact ⟨hrc.mono (fun e he => List.mem_append_left _ he), hgc⟩
        rcases (hmemall kq q).1 hkq with hkq1 | ⟨rfl, rfl⟩
        · by_cases hqp : q = p
          · subst hqp
            rw [hctp] at hd'; cases hd'
            rcases (mem_dset_iff hupd).1 hmemc with ⟨rfl, rfl⟩ | ⟨hne, hm0⟩
            · exact ⟨⟨fn, by simp⟩, hg⟩
            · exact hold dp ⟨kq, hkq1⟩ hdp hm0 (fun _ => hne)
          · rw [hcto q hqp] at hd'
            exact hold d ⟨kq, hkq1⟩ hd' hmemc (fun e => absurd e hqp)
        · rw [hcto q hpm, hct] at hd'; cases hd'; simp at hmemc
    · intro r
      show r ∈ s1.roots ↔ _
      simp

/-! ## Layer 6: one `add` -/

theorem sk_append_lt {objs : List MObj} (new : MObj) {i} (h : i < objs.length) :
    sk (objs ++ [new]) i = sk objs i := by
  unfold sk; rw [List.getElem?_append_left h]

theorem ct_append_lt {objs : List MObj} (new : MObj) {i} (h : i < objs.length) :
    ct (objs ++ [new]) i = ct objs i := by
  unfold ct; rw [List.getElem?_append_left h]

theorem sk_append_new (objs : List MObj) (new : MObj) :
    sk (objs ++ [new]) objs.length = some (new.name, new.parent) := by
  unfold sk; simp

theorem ct_append_new (objs : List MObj) (new : MObj) :
    ct (objs ++ [new]) objs.length = some new.contents := by
  unfold ct; simp

theorem sk_append_ext {objs : List MObj} (new : MObj) {i x} (h : sk objs i = some x) :
    sk (objs ++ [new]) i = some x := by
  rw [sk_append_lt new (sk_lt h)]; exact h

/-- constructing the module object changes nothing for the system -/
theorem create_inv {s : State} (h : Inv s) (k : Kind) (name : Name) (parent : Option Nat)
    (hp : ∀ p, parent = some p → p < s.objs.length) : Inv (create s k name parent) := by
  have hlt : ∀ {i}, Reg s i → i < s.objs.length := fun hr => h.lt hr
  refine ⟨?_, ?_, h.keys, ?_, ?_, ?_, ?_, h.rootsNodup, h.pending, ?_⟩
  · intro i n p hg
    have hg' : sk (s.objs ++ [⟨name, parent, k, []⟩]) i = some (n, some p) := hg
    have hil := sk_lt hg'
    simp only [List.length_append, List.length_singleton] at hil
    by_cases hi : i < s.objs.length
    · rw [sk_append_lt _ hi] at hg'; exact h.ord i n p hg'
    · have : i = s.objs.length := by omega
      subst this
      rw [sk_append_new] at hg'; cases hg'
      exact hp p rfl
  · intro i d hd
    have hd' : ct (s.objs ++ [⟨name, parent, k, []⟩]) i = some d := hd
    by_cases hi : i < s.objs.length
    · rw [ct_append_lt _ hi] at hd'; exact h.cuniq i d hd'
    · unfold ct at hd'
      cases ho : (s.objs ++ [⟨name, parent, k, []⟩])[i]? with
      | none => rw [ho] at hd'; cases hd'
      | some o =>
        have hil := (List.getElem?_eq_some_iff.1 ho).1
        simp only [List.length_append, List.length_singleton] at hil
        have : i = s.objs.length := by omega
        subst this
        have := ct_append_new s.objs ⟨name, parent, k, []⟩
        unfold ct at this
        rw [this] at hd'; cases hd'
        simp [Uniq]
  · intro k' i hk
    exact (h.names k' i hk).ext (fun i x hx => sk_append_ext _ hx)
  · intro k' i n p hk hg
    have hg' : sk (s.objs ++ [⟨name, parent, k, []⟩]) i = some (n, some p) := hg
    rw [sk_append_lt _ (hlt ⟨k', hk⟩)] at hg'
    obtain ⟨hrp, d, hd, hdg⟩ := h.parentReg k' i n p hk hg'
    exact ⟨hrp, d, by show ct (s.objs ++ [_]) p = _; rw [ct_append_lt _ (hlt hrp)]; exact hd, hdg⟩
  · intro k' i n hk hg
    have hg' : sk (s.objs ++ [⟨name, parent, k, []⟩]) i = some (n, none) := hg
    rw [sk_append_lt _ (hlt ⟨k', hk⟩)] at hg'
    exact h.rootIn k' i n hk hg'
  · intro r hr
    obtain ⟨hrr, n, hn⟩ := h.roots r hr
    exact ⟨hrr, n, sk_append_ext _ hn⟩
  · intro q d n c hq hd hm _
    have hd' : ct (s.objs ++ [⟨name, parent, k, []⟩]) q = some d := hd
    rw [ct_append_lt _ (hlt hq)] at hd'
    obtain ⟨hrc, hgc⟩ := h.contents q d n c hq hd' hm (by simp)
    exact ⟨hrc, sk_append_ext _ hgc⟩

/-- `_handleDuplicateModule`: the earlier module `first` keeps the name -/
def keepFirst (fk mk : Kind) : Bool := (fk.isC && !mk.isPkg) || (fk.isPkg && !mk.isPkg)

/-- what `_addUnprocessedModule(m)` leaves, `fn` being the qualified name of `m` -/
def Outcome (sA : State) (m : Nat) (mk : Kind) (fn : Path) (s' : State) : Prop :=
  (dget sA.all fn = none ∧ s'.all = sA.all ++ [(fn, m)] ∧ s'.unproc = sA.unproc ++ [m] ∧
      ∀ r, r ∈ s'.roots → (r ∈ sA.roots ∨ r = m)) ∨
  (∃ first fo, dget sA.all fn = some first ∧ sA.objs[first]? = some fo ∧ keepFirst fo.kind mk = true ∧ s' = sA) ∨
  (∃ first fo sB, dget sA.all fn = some first ∧ sA.objs[first]? = some fo ∧ keepFirst fo.kind mk = false ∧
      Mid sA sB (Below (sk sA.objs) first) ∧ s'.all = sB.all ++ [(fn, m)] ∧ s'.unproc = sB.unproc ++ [m] ∧
      ∀ r, r ∈ s'.roots → ((r ∈ sA.roots ∧ r ≠ first) ∨ r = m))

theorem addUnproc_spec {sA : State} (h : Inv sA) {m : Nat} {mo : MObj} (hmo : sA.objs[m]? = some mo)
    (hmc : mo.contents = []) (hnr : ¬Reg sA m) (hpr : ∀ p, mo.parent = some p → Reg sA p) (f : Nat) :
    ∃ fn, path sA m = some fn ∧ ∃ s', addUnprocAux (f + 2) sA m = .ok s' ∧ Inv s' ∧ Outcome sA m mo.kind fn s' := by
  have hg : sk sA.objs m = some (mo.name, mo.parent) := sk_some.2 ⟨mo, hmo, rfl, rfl⟩
  have hct : ct sA.objs m = some [] := ct_some.2 ⟨mo, hmo, hmc⟩
  -- the qualified name of the new module
  obtain ⟨fn, hpath⟩ : ∃ fn, HasPath (sk sA.objs) m fn := by
    cases hpar : mo.parent with
    | none => exact ⟨[mo.name], .root (by rw [hg, hpar])⟩
    | some p =>
      obtain ⟨kp, hkp⟩ := hpr p hpar
      exact ⟨kp ++ [mo.name], .child (by rw [hg, hpar]) (h.names kp p hkp)⟩
  have hp : path sA m = some fn := path_of_hasPath h.ord hpath
  refine ⟨fn, hp, ?_⟩
  cases hd : dget sA.all fn with
  | none =>
    obtain ⟨s', h1, h2, h3, h4, _, h6⟩ := addFresh_spec (InvH.weaken h) hg hct hnr hpr hpath hd
    refine ⟨s', ?_, h2, Or.inl ⟨hd, h3, h4, fun r hr => ?_⟩⟩
    · simp only [addUnprocAux, hmo, hp, hd]; exact h1
    · rcases (h6 r).1 hr with a | ⟨_, a⟩
      · exact Or.inl a
      · exact Or.inr a
  | some first =>
    have hfirst : (fn, first) ∈ sA.all := mem_of_dget hd
    have hflt := h.lt ⟨fn, hfirst⟩
    have hfo : sA.objs[first]? = some sA.objs[first] := List.getElem?_eq_getElem hflt
    -- `first` occupies the place the new module asks for
    have hgf : sk sA.objs first = some (mo.name, mo.parent) := by
      cases hpar : mo.parent with
      | none =>
        have hfn : fn = [mo.name] := hpath.func (.root (by rw [hg, hpar]))
        rcases (h.names fn first hfirst).inv with ⟨n1, hg1, e1⟩ | ⟨n1, q1, p1, hg1, hq1, e1⟩
        · rw [hfn] at e1; cases e1; exact hg1
        · have hl := congrArg List.length (hfn.symm.trans e1)
          have := List.length_pos_iff.2 hq1.ne_nil
          simp only [List.length_cons, List.length_nil, List.length_append] at hl
          omega
      | some p =>
        obtain ⟨kp, hkp⟩ := hpr p hpar
        have hpp := h.names kp p hkp
        have hfn : fn = kp ++ [mo.name] := hpath.func (.child (by rw [hg, hpar]) hpp)
        rcases (h.names fn first hfirst).inv with ⟨n1, hg1, e1⟩ | ⟨n1, q1, p1, hg1, hq1, e1⟩
        · have hl := congrArg List.length (hfn.symm.trans e1)
          have := List.length_pos_iff.2 hpp.ne_nil
          simp only [List.length_cons, List.length_nil, List.length_append] at hl
          omega
        · obtain ⟨e2, e3⟩ := List.append_inj' (hfn.symm.trans e1) rfl
          simp only [List.cons.injEq, and_true] at e3
          subst e2; subst e3
          obtain ⟨⟨kq, hkq⟩, _⟩ := h.parentReg _ first _ q1 hfirst hg1
          have : kq = kp := (h.names kq q1 hkq).func hq1
          subst this
          have := uniq_val h.keys hkq hkp
          subst this
          exact hg1
    have hk1f : ∀ {b : Bool}, ¬(b = true) → b = false := fun hb => Bool.eq_false_iff.2 hb
    by_cases hk1 : (sA.objs[first].kind.isC && !mo.kind.isPkg) = true
    · refine ⟨sA, ?_, h, Or.inr (Or.inl ⟨first, _, hd, hfo, by simp [keepFirst, hk1], rfl⟩)⟩
      simp only [addUnprocAux, hmo, hp, hd, hfo, hk1, if_true]
    by_cases hk2 : (sA.objs[first].kind.isPkg && !mo.kind.isPkg) = true
    · refine ⟨sA, ?_, h, Or.inr (Or.inl ⟨first, _, hd, hfo, by simp [keepFirst, hk2], rfl⟩)⟩
      simp only [addUnprocAux, hmo, hp, hd, hfo, hk1f hk1, hk2, Bool.false_eq_true, if_true, if_false]
    obtain ⟨sB, hrem, hmid⟩ := remove_spec h ⟨fn, hfirst⟩
    have hpB : ∀ (sC : State), sC.objs = sB.objs → path sC m = some fn := by
      intro sC hC
      apply path_of_hasPath
      · rw [hC, hmid.objs]; exact h.ord
      · rw [hC, hmid.objs]; exact hpath
    have hmoB : ∀ (sC : State), sC.objs = sB.objs → sC.objs[m]? = some mo := by
      intro sC hC; rw [hC, hmid.objs]; exact hmo
    have hkeep : keepFirst sA.objs[first].kind mo.kind = false := by
      simp only [keepFirst, Bool.or_eq_false_iff]
      exact ⟨by simpa using hk1, by simpa using hk2⟩
    have hfin : ∀ (sC : State), sC.objs = sB.objs → sC.all = sB.all → sC.unproc = sB.unproc →
        ((mo.parent = none ∧ sC.roots = sB.roots.erase first) ∨ (∃ p, mo.parent = some p ∧ sC.roots = sB.roots)) →
        ∃ s', addUnprocAux (f + 1) sC m = .ok s' ∧ Inv s' ∧ Outcome sA m mo.kind fn s' := by
      intro sC hC1 hC2 hC3 hroots
      obtain ⟨hI, hfree, hprC⟩ := removal_invH h hfirst hgf hmid hC1 hC2 hC3 hroots
      have hgC : sk sC.objs m = some (mo.name, mo.parent) := by rw [hC1, hmid.objs]; exact hg
      have hctC : ct sC.objs m = some [] := by rw [hC1, hmid.objs]; exact hct
      have hnrC : ¬Reg sC m := by
        rintro ⟨k, hk⟩
        rw [hC2] at hk
        exact hnr ⟨k, ((hmid.mem k m).1 hk).1⟩
      have hpathC : HasPath (sk sC.objs) m fn := by rw [hC1, hmid.objs]; exact hpath
      obtain ⟨s', h1, h2, h3, h4, _, h6⟩ := addFresh_spec hI hgC hctC hnrC hprC hpathC hfree
      refine ⟨s', ?_, h2, Or.inr (Or.inr ⟨first, _, sB, hd, hfo, hkeep, hmid, by rw [h3, hC2], by rw [h4, hC3],
        fun r hr => ?_⟩)⟩
      · simp only [addUnprocAux, hmoB sC hC1, hpB sC hC1, hfree]; exact h1
      · rcases (h6 r).1 hr with a | ⟨_, a⟩
        · left
          rcases hroots with ⟨_, hr'⟩ | ⟨p, hpp, hr'⟩
          · rw [hr', hmid.roots] at a
            exact ⟨List.mem_of_mem_erase a, ((h.rootsNodup.mem_erase_iff).1 a).1⟩
          · rw [hr', hmid.roots] at a
            refine ⟨a, fun e => ?_⟩
            subst e
            obtain ⟨_, n, hn⟩ := h.roots r a
            rw [hgf, hpp] at hn; cases hn
        · exact Or.inr a
    have hrem' : remove sA first = .ok sB := hrem
    cases hpar : mo.parent with
    | some p =>
      obtain ⟨s', h1, h2, h3⟩ := hfin sB rfl rfl rfl (Or.inr ⟨p, hpar, rfl⟩)
      refine ⟨s', ?_, h2, h3⟩
      have hfp : sA.objs[first].parent = some p := by
        obtain ⟨o, ho, _, hop⟩ := sk_some.1 hgf
        rw [hfo] at ho; cases ho; rw [hop, hpar]
      rw [show f + 2 = (f + 1) + 1 from rfl]
      simp only [addUnprocAux, hmo, hp, hd, hfo, hk1f hk1, hk1f hk2, Bool.false_eq_true, if_false, hrem', hfp]
      exact h1
    | none =>
      have hfp : sA.objs[first].parent = none := by
        obtain ⟨o, ho, _, hop⟩ := sk_some.1 hgf
        rw [hfo] at ho; cases ho; rw [hop, hpar]
      have hroot : sB.roots.contains first = true := by
        rw [hmid.roots, List.contains_iff_mem]
        exact h.rootIn fn first mo.name hfirst (by rw [hgf, hpar])
      obtain ⟨s', h1, h2, h3⟩ := hfin { sB with roots := sB.roots.erase first } rfl rfl rfl (Or.inl ⟨hpar, rfl⟩)
      refine ⟨s', ?_, h2, h3⟩
      rw [show f + 2 = (f + 1) + 1 from rfl]
      simp only [addUnprocAux, hmo, hp, hd, hfo, hk1f hk1, hk1f hk2, Bool.false_eq_true, if_false, hrem', hfp, hroot, if_true]
      exact h1

theorem registered_iff {s : State} {i : Nat} : registered s i = true ↔ Reg s i := by
  unfold registered Reg
  rw [List.contains_iff_mem, List.mem_map]
  constructor
  · rintro ⟨⟨k, j⟩, h, rfl⟩; exact ⟨k, h⟩
  · rintro ⟨k, h⟩; exact ⟨(k, i), h, rfl⟩

/-- one `add` whose parent argument is `None` or a registered package: it does not raise, the
invariant is preserved, and the winner rule decides what is left -/
theorem addModule_spec {s : State} (h : Inv s) (op : Op) (hok : opOk s op = true) :
    ∃ fn, path (create s op.kind op.name op.parent) s.objs.length = some fn ∧
    ∃ s', step s op = .ok s' ∧ Inv s' ∧
      Outcome (create s op.kind op.name op.parent) s.objs.length op.kind fn s' := by
  have hpreg : ∀ p, op.parent = some p → Reg s p ∧ p < s.objs.length := by
    intro p hp
    unfold opOk at hok
    rw [hp] at hok
    cases ho : s.objs[p]? with
    | none => simp [ho] at hok
    | some po =>
      simp only [ho, Bool.and_eq_true] at hok
      exact ⟨registered_iff.1 hok.2, (List.getElem?_eq_some_iff.1 ho).1⟩
  have hA := create_inv h op.kind op.name op.parent (fun p hp => (hpreg p hp).2)
  have hmo : (create s op.kind op.name op.parent).objs[s.objs.length]? = some ⟨op.name, op.parent, op.kind, []⟩ := by
    show (s.objs ++ [_])[s.objs.length]? = _
    simp
  have hnr : ¬Reg (create s op.kind op.name op.parent) s.objs.length := by
    intro hr
    have := h.lt (show Reg s s.objs.length from hr)
    omega
  obtain ⟨fn, hp, s', h1, h2, h3⟩ := addUnproc_spec hA hmo rfl hnr
    (fun p hp => (hpreg p hp).1) s.all.length
  refine ⟨fn, hp, s', ?_, h2, h3⟩
  unfold step addModule
  cases hpar : op.parent with
  | none => rw [hpar] at h1; exact h1
  | some p =>
    simp only [(hpreg p hpar).2, if_true]
    rw [hpar] at h1; exact h1

/-! ## Layer 7: the executable invariant printed by the driver follows from `Inv` -/

theorem filter_length_one {α β : Type} [DecidableEq β] (f : α → β) :
    ∀ (d : List α), (d.map f).Nodup → ∀ e ∈ d, (d.filter (fun e' => f e' = f e)).length = 1
  | [], _, e, he => by simp at he
  | a :: d, hn, e, he => by
    rw [List.map_cons, List.nodup_cons] at hn
    rcases List.mem_cons.1 he with rfl | he'
    · have : d.filter (fun e' => decide (f e' = f e)) = [] := by
        rw [List.filter_eq_nil_iff]
        intro x hx hfx
        simp only [decide_eq_true_eq] at hfx
        exact hn.1 (hfx ▸ List.mem_map_of_mem hx)
      simp [this]
    · have hne : f a ≠ f e := fun h => hn.1 (h ▸ List.mem_map_of_mem he')
      simp [hne, filter_length_one f d hn.2 e he']

theorem filter_beq_length_one : ∀ (l : List Nat), l.Nodup → ∀ r ∈ l, (l.filter (· == r)).length = 1 := by
  intro l hn r hr
  have := filter_length_one (fun x : Nat => x) l (by simpa using hn) r hr
  have hf : (fun x : Nat => x == r) = (fun e' => decide (e' = r)) := by
    funext x; by_cases hx : x = r <;> simp [hx]
  rw [hf]; exact this

theorem Inv.toInvB {s : State} (h : Inv s) : invB s = true := by
  have hobj : ∀ {i}, i < s.objs.length → ∃ o, s.objs[i]? = some o := fun hi => ⟨_, List.getElem?_eq_getElem hi⟩
  simp only [invB, Bool.and_eq_true]
  refine ⟨⟨⟨⟨⟨?_, ?_⟩, ?_⟩, ?_⟩, ?_⟩, ?_⟩
  · simp only [keysUnique, List.all_eq_true, beq_iff_eq]
    intro e he
    exact filter_length_one Prod.fst s.all h.keys e he
  · simp only [keysAreNames, List.all_eq_true, beq_iff_eq]
    rintro ⟨k, i⟩ he
    exact path_of_hasPath h.ord (h.names k i he)
  · simp only [parentsRegistered, List.all_eq_true]
    rintro ⟨k, i⟩ he
    obtain ⟨o, ho⟩ := hobj (h.lt ⟨k, he⟩)
    simp only [ho]
    cases hp : o.parent with
    | none =>
      simp only [List.contains_iff_mem]
      exact h.rootIn k i o.name he (sk_some.2 ⟨o, ho, rfl, hp⟩)
    | some p =>
      obtain ⟨hr, d, hd, hdg⟩ := h.parentReg k i o.name p he (sk_some.2 ⟨o, ho, rfl, hp⟩)
      obtain ⟨po, hpo, rfl⟩ := ct_some.1 hd
      simp [hpo, hdg, registered_iff.2 hr]
  · simp only [rootsOk, List.all_eq_true, Bool.and_eq_true, beq_iff_eq]
    intro r hr
    obtain ⟨hreg, n, hn⟩ := h.roots r hr
    obtain ⟨o, ho, _, hp⟩ := sk_some.1 hn
    refine ⟨⟨registered_iff.2 hreg, by simp [ho, hp]⟩, filter_beq_length_one s.roots h.rootsNodup r hr⟩
  · simp [pendingOk, h.pending]
  · simp only [contentsOk, List.all_eq_true]
    rintro ⟨k, q⟩ he
    obtain ⟨qo, hqo⟩ := hobj (h.lt ⟨k, he⟩)
    simp only [hqo, List.all_eq_true]
    rintro ⟨n, c⟩ hm
    obtain ⟨hr, hg⟩ := h.contents q qo.contents n c ⟨k, he⟩ (ct_some.2 ⟨qo, hqo, rfl⟩) hm (by simp)
    obtain ⟨co, hco, h1, h2⟩ := sk_some.1 hg
    simp [hco, h1, h2, registered_iff.2 hr]

end ModTable
